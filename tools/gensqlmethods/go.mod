module gensqlmethods

go 1.15
