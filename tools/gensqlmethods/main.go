// gensqlmethods writes the committed snapshot coq/theories/Gen/DbMethods.v from sqlgen/*.go (no tests); it is NOT
// run by ./check (every run extracts the table of its own tree into its own directory: harness/pkg/sqlh/methods.go,
// same algorithm).  The exported methods
// of sqlgen.DB as a Coq list, one entry per method:
//
//	(method, (reaches a query call, reaches an exec call, begins a transaction))
//
// "reaches" is transitive through the functions and methods of package sqlgen, resolved by name only
// (go/ast, nothing of the repository is executed or type-checked): a call f(..) or x.f(..) is an edge to
// every function or method of the package called f.  Sinks are the database/sql calls by selector name:
// QueryContext / QueryRowContext / PrepareContext / Prepare (query), ExecContext / Exec (exec), BeginTx /
// Begin (transaction), and Invoke (the batch function: a query).  The plain names Query and QueryRow are
// methods of sqlgen.DB itself and therefore edges, not sinks.
//
// The table is data: which exported methods exist and what kind of database access each can reach.  It
// says nothing about how a method is written, so refactorings inside the methods do not change it; a new
// exported method of DB, or a method that starts to write, does.
package main

import (
	"flag"
	"fmt"
	"go/ast"
	"go/parser"
	"go/token"
	"io/ioutil"
	"os"
	"path/filepath"
	"sort"
	"strings"
)

var querySinks = map[string]bool{"QueryContext": true, "QueryRowContext": true, "PrepareContext": true, "Prepare": true, "Invoke": true}
var execSinks = map[string]bool{"ExecContext": true, "Exec": true}
var txSinks = map[string]bool{"BeginTx": true, "Begin": true}

type fn struct {
	calls map[string]bool
}

func recvName(fd *ast.FuncDecl) string {
	if fd.Recv == nil || len(fd.Recv.List) == 0 {
		return ""
	}
	t := fd.Recv.List[0].Type
	if s, ok := t.(*ast.StarExpr); ok {
		t = s.X
	}
	if id, ok := t.(*ast.Ident); ok {
		return id.Name
	}
	return ""
}

func coqStr(s string) string { return "\"" + strings.ReplaceAll(s, "\"", "\"\"") + "\"" }
func coqBool(b bool) string {
	if b {
		return "true"
	}
	return "false"
}

func main() {
	repo := flag.String("repo", "/repo", "repository")
	out := flag.String("out", "", "output .v file")
	flag.Parse()
	dir := filepath.Join(*repo, "sqlgen")
	problem := ""
	fset := token.NewFileSet()
	byName := map[string][]*fn{} // every function / method of the package, by bare name
	var dbMethods []string
	dbFn := map[string]*fn{}
	files, err := filepath.Glob(filepath.Join(dir, "*.go"))
	if err != nil || len(files) == 0 {
		problem = "no Go files in " + dir
	}
	sort.Strings(files)
	for _, path := range files {
		if strings.HasSuffix(path, "_test.go") {
			continue
		}
		f, err := parser.ParseFile(fset, path, nil, 0)
		if err != nil {
			problem = "cannot parse " + path + ": " + err.Error()
			continue
		}
		if f.Name.Name != "sqlgen" {
			continue
		}
		for _, d := range f.Decls {
			fd, ok := d.(*ast.FuncDecl)
			if !ok || fd.Body == nil {
				continue
			}
			x := &fn{calls: map[string]bool{}}
			ast.Inspect(fd.Body, func(n ast.Node) bool {
				if c, ok := n.(*ast.CallExpr); ok {
					switch f := c.Fun.(type) {
					case *ast.Ident:
						x.calls[f.Name] = true
					case *ast.SelectorExpr:
						x.calls[f.Sel.Name] = true
					}
				}
				return true
			})
			byName[fd.Name.Name] = append(byName[fd.Name.Name], x)
			if recvName(fd) == "DB" && ast.IsExported(fd.Name.Name) {
				if _, dup := dbFn[fd.Name.Name]; dup {
					problem = "method DB." + fd.Name.Name + " declared twice"
				}
				dbMethods = append(dbMethods, fd.Name.Name)
				dbFn[fd.Name.Name] = x
			}
		}
	}
	if len(dbMethods) == 0 && problem == "" {
		problem = "no exported method of DB found in " + dir
	}
	reach := func(start *fn) (q, e, t bool) {
		seen := map[*fn]bool{}
		var walk func(x *fn)
		walk = func(x *fn) {
			if seen[x] {
				return
			}
			seen[x] = true
			for name := range x.calls {
				targets := byName[name]
				if len(targets) == 0 { // not a function of the package: a sink?
					q = q || querySinks[name]
					e = e || execSinks[name]
					t = t || txSinks[name]
					continue
				}
				for _, y := range targets {
					walk(y)
				}
			}
		}
		walk(start)
		return
	}
	sort.Strings(dbMethods)
	var b strings.Builder
	b.WriteString("(* SNAPSHOT written by /verif/tools/gensqlmethods (go/ast) from sqlgen/*.go (every run of ./check C12 extracts\n   the table of its own tree into its own directory and checks that one):\n")
	b.WriteString("   the exported methods of sqlgen.DB.  Do not edit.\n")
	b.WriteString("   Entry: (method, (reaches a query call, reaches an exec call, begins a transaction)), transitively\n")
	b.WriteString("   through the functions of package sqlgen (by name). *)\n")
	b.WriteString("From Coq Require Import List String.\nImport ListNotations.\nOpen Scope string_scope.\n\n")
	if problem != "" {
		b.WriteString("(* extraction problem: " + strings.ReplaceAll(problem, "*)", "* )") + " *)\n")
	}
	b.WriteString("Definition db_methods : list (string * (bool * bool * bool)) := [\n")
	for i, m := range dbMethods {
		q, e, t := reach(dbFn[m])
		sep := ";"
		if i == len(dbMethods)-1 {
			sep = ""
		}
		fmt.Fprintf(&b, "  (%s, (%s, %s, %s))%s\n", coqStr(m), coqBool(q), coqBool(e), coqBool(t), sep)
	}
	b.WriteString("].\n\n")
	fmt.Fprintf(&b, "Definition db_methods_problem : bool := %s.\n", coqBool(problem != ""))
	if *out == "" {
		fmt.Print(b.String())
		return
	}
	old, _ := ioutil.ReadFile(*out)
	if string(old) == b.String() {
		return
	}
	os.MkdirAll(filepath.Dir(*out), 0o755)
	tmp := *out + fmt.Sprintf(".tmp%d", os.Getpid()) // atomically: no reader ever sees half a table
	if err := ioutil.WriteFile(tmp, []byte(b.String()), 0o644); err != nil {
		fmt.Fprintln(os.Stderr, err)
		os.Exit(1)
	}
	if err := os.Rename(tmp, *out); err != nil {
		fmt.Fprintln(os.Stderr, err)
		os.Exit(1)
	}
	fmt.Println("gensqlmethods: wrote", *out)
}
