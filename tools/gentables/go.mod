module gentables

go 1.15
