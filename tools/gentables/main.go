// gentables regenerates coq/theories/Gen/ArgParsers.v from graphql/schemabuilder/input.go: the
// scalarArgParsers table as a Coq list, one entry per key of the map literal:
//
//	(Go type, type asserted on the JSON value, conversion applied to the asserted value, decoder called)
//
// e.g. ("uint64", "float64", "int64", "") for
//
//	reflect.TypeOf(uint64(0)): { FromJSON: func(...) { asFloat, ok := value.(float64) ...
//	    dest.Set(reflect.ValueOf(int64(asFloat)).Convert(dest.Type())) } }
//
// Only go/ast is used; nothing of the repository is executed.
package main

import (
	"flag"
	"fmt"
	"go/ast"
	"go/parser"
	"go/token"
	"go/types"
	"io/ioutil"
	"os"
	"path/filepath"
	"sort"
	"strings"
)

type entry struct{ typ, asserted, conv, decoder string }

func coqStr(s string) string { return "\"" + strings.ReplaceAll(s, "\"", "\"\"") + "\"" }

func typeOfArg(e ast.Expr) string {
	switch x := e.(type) {
	case *ast.CallExpr: // bool(false), int64(0), string("")
		return types.ExprString(x.Fun)
	case *ast.CompositeLit: // []byte{}, time.Time{}
		return types.ExprString(x.Type)
	}
	return types.ExprString(e)
}

func extract(body ast.Node) (asserted, conv, decoder string) {
	ast.Inspect(body, func(n ast.Node) bool {
		switch x := n.(type) {
		case *ast.TypeAssertExpr:
			if asserted == "" && x.Type != nil {
				asserted = types.ExprString(x.Type)
			}
		case *ast.AssignStmt:
			// bytes, err := base64.StdEncoding.DecodeString(asString) / asTime, err := time.Parse(time.RFC3339, asString)
			if len(x.Lhs) == 2 && len(x.Rhs) == 1 {
				if c, ok := x.Rhs[0].(*ast.CallExpr); ok {
					if id, ok := x.Lhs[1].(*ast.Ident); ok && id.Name == "err" {
						decoder = types.ExprString(c.Fun)
						for _, a := range c.Args {
							if _, isSel := a.(*ast.SelectorExpr); isSel {
								decoder += " " + types.ExprString(a)
							}
						}
					}
				}
			}
		case *ast.CallExpr:
			// dest.Set(reflect.ValueOf(X).Convert(dest.Type()))
			if sel, ok := x.Fun.(*ast.SelectorExpr); ok && sel.Sel.Name == "Set" && len(x.Args) == 1 {
				if cv, ok := x.Args[0].(*ast.CallExpr); ok {
					if s2, ok := cv.Fun.(*ast.SelectorExpr); ok && s2.Sel.Name == "Convert" {
						if vo, ok := s2.X.(*ast.CallExpr); ok && len(vo.Args) == 1 {
							if c, ok := vo.Args[0].(*ast.CallExpr); ok {
								conv = types.ExprString(c.Fun)
							}
						}
					}
				}
			}
		}
		return true
	})
	return
}

// viaHelper reads an entry written as helper(func(x T) ... { ... }) where helper is a function of the same file that
// builds the argParser around the conversion it is given: the type assertion is the helper's, the conversion (or the
// decoder) is what the function literal applies to its parameter.  One level only.
func viaHelper(f *ast.File, call *ast.CallExpr) (asserted, conv, decoder string) {
	id, ok := call.Fun.(*ast.Ident)
	if !ok || len(call.Args) != 1 {
		return
	}
	lit, ok := call.Args[0].(*ast.FuncLit)
	if !ok || lit.Type.Params == nil || len(lit.Type.Params.List) != 1 || len(lit.Type.Params.List[0].Names) != 1 {
		return
	}
	var helper *ast.FuncDecl
	for _, d := range f.Decls {
		if fd, ok := d.(*ast.FuncDecl); ok && fd.Recv == nil && fd.Name.Name == id.Name && fd.Body != nil {
			helper = fd
		}
	}
	if helper == nil || helper.Type.Params == nil || len(helper.Type.Params.List) != 1 || len(helper.Type.Params.List[0].Names) != 1 {
		return
	}
	hparam := helper.Type.Params.List[0].Names[0].Name
	hAsserted, hConv, hDecoder := extract(helper.Body)
	// the helper must hand the asserted value to its parameter, either inside the Set(...) or as the decoding step
	if hConv != hparam && hDecoder != hparam {
		return
	}
	asserted = hAsserted
	param := lit.Type.Params.List[0].Names[0].Name
	// decoder: x, err := pkg.F(..., param)
	_, _, decoder = extract(lit.Body)
	// conversion: return T(param) [, nil]
	ast.Inspect(lit.Body, func(n ast.Node) bool {
		if r, ok := n.(*ast.ReturnStmt); ok && len(r.Results) >= 1 {
			if c, ok := r.Results[0].(*ast.CallExpr); ok && len(c.Args) == 1 {
				if a, ok := c.Args[0].(*ast.Ident); ok && a.Name == param {
					conv = types.ExprString(c.Fun)
				}
			}
		}
		return true
	})
	return
}

func main() {
	repo := flag.String("repo", "/repo", "repository")
	out := flag.String("out", "", "output .v file")
	flag.Parse()
	src := filepath.Join(*repo, "graphql/schemabuilder/input.go")
	var entries []entry
	problem := ""
	fset := token.NewFileSet()
	f, err := parser.ParseFile(fset, src, nil, 0)
	if err != nil {
		problem = "cannot parse " + src + ": " + err.Error()
	} else {
		found := false
		for _, d := range f.Decls {
			gd, ok := d.(*ast.GenDecl)
			if !ok || gd.Tok != token.VAR {
				continue
			}
			for _, sp := range gd.Specs {
				vs := sp.(*ast.ValueSpec)
				for i, name := range vs.Names {
					if name.Name != "scalarArgParsers" || i >= len(vs.Values) {
						continue
					}
					found = true
					lit, ok := vs.Values[i].(*ast.CompositeLit)
					if !ok {
						problem = "scalarArgParsers is not a composite literal"
						continue
					}
					for _, el := range lit.Elts {
						kv, ok := el.(*ast.KeyValueExpr)
						if !ok {
							problem = "element without key"
							continue
						}
						e := entry{typ: "?"}
						if call, ok := kv.Key.(*ast.CallExpr); ok && len(call.Args) == 1 && types.ExprString(call.Fun) == "reflect.TypeOf" {
							e.typ = typeOfArg(call.Args[0])
						} else {
							problem = "key is not reflect.TypeOf(...): " + types.ExprString(kv.Key)
						}
						if v, ok := kv.Value.(*ast.CompositeLit); ok {
							for _, fe := range v.Elts {
								if fkv, ok := fe.(*ast.KeyValueExpr); ok && types.ExprString(fkv.Key) == "FromJSON" {
									if fn, ok := fkv.Value.(*ast.FuncLit); ok {
										e.asserted, e.conv, e.decoder = extract(fn.Body)
									}
								}
							}
						}
						if call, ok := kv.Value.(*ast.CallExpr); ok {
							e.asserted, e.conv, e.decoder = viaHelper(f, call)
						}
						if e.asserted == "" {
							problem = "entry " + e.typ + ": no type assertion found (neither a literal with FromJSON nor a helper taking the conversion)"
						}
						entries = append(entries, e)
					}
				}
			}
		}
		if !found {
			problem = "no scalarArgParsers variable in " + src
		}
	}
	sort.Slice(entries, func(i, j int) bool { return entries[i].typ < entries[j].typ })
	var b strings.Builder
	b.WriteString("(* GENERATED on every run of ./check C18 by /verif/tools/gentables (go/ast) from\n")
	b.WriteString("   graphql/schemabuilder/input.go, variable scalarArgParsers.  Do not edit.\n")
	b.WriteString("   Entry: (Go type, type asserted on the JSON value, conversion applied to it, decoder called). *)\n")
	b.WriteString("From Coq Require Import List String.\nImport ListNotations.\nOpen Scope string_scope.\n\n")
	if problem != "" {
		b.WriteString("(* extraction problem: " + strings.ReplaceAll(problem, "*)", "* )") + " *)\n")
	}
	b.WriteString("Definition arg_parsers : list (string * string * string * string) := [\n")
	for i, e := range entries {
		sep := ";"
		if i == len(entries)-1 {
			sep = ""
		}
		fmt.Fprintf(&b, "  (%s, %s, %s, %s)%s\n", coqStr(e.typ), coqStr(e.asserted), coqStr(e.conv), coqStr(e.decoder), sep)
	}
	b.WriteString("].\n")
	if *out == "" {
		fmt.Print(b.String())
		return
	}
	if problem != "" {
		// The table of this tree cannot be read mechanically (the code was restructured in a way the extractor does
		// not follow).  The last table that could be read stays in place - the theorem scalar_table_covered is then
		// about that table - and the model stays tied to the code by the correspondence check (every scalar kind,
		// out-of-range and fractional values included, on every run).
		fmt.Println("gentables: table not extractable (" + problem + "); keeping " + *out)
		if _, err := os.Stat(*out); err == nil {
			return
		}
	}
	old, _ := ioutil.ReadFile(*out)
	if string(old) == b.String() {
		return
	}
	os.MkdirAll(filepath.Dir(*out), 0o755)
	if err := ioutil.WriteFile(*out, []byte(b.String()), 0o644); err != nil {
		fmt.Fprintln(os.Stderr, err)
		os.Exit(1)
	}
	fmt.Println("gentables: wrote", *out)
}
