#!/usr/bin/env python3
"""Pastes the generated seeded / harmless tables between the markers in DESIGN.md."""
import os, re, subprocess, sys
V = os.path.dirname(os.path.dirname(os.path.abspath(__file__)))
s = open(os.path.join(V, "DESIGN.md")).read()
for mark, tool in (("SEEDTABLE", "seedtable.py"), ("HARMTABLE", "harmlesstable.py"), ("FIXTABLE", "fixtable.py"), ("ROUNDTABLE", "roundtable.py")):
    out = subprocess.run([sys.executable, os.path.join(V, "tools", tool)], stdout=subprocess.PIPE, text=True).stdout
    s = re.sub(r"<!-- %s:BEGIN -->.*?<!-- %s:END -->" % (mark, mark),
               lambda m: "<!-- %s:BEGIN -->\n%s<!-- %s:END -->" % (mark, out, mark), s, flags=re.S)
open(os.path.join(V, "DESIGN.md"), "w").write(s)
