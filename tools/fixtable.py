#!/usr/bin/env python3
"""Prints (markdown) every `fix:` commit of /repo with the known-findings entries that name it, and the open findings."""
import json, os, subprocess
V = os.path.dirname(os.path.dirname(os.path.abspath(__file__)))
kf = [json.loads(l) for l in open(os.path.join(V, "KNOWN_FINDINGS.jsonl")) if l.strip()]
log = subprocess.run("git -C /repo log --reverse --format='%h%x09%s' --grep '^fix:'", shell=True, stdout=subprocess.PIPE, text=True).stdout
print("| commit | repair | property: signature of the finding it closes |")
print("|---|---|---|")
n = 0
for l in log.splitlines():
    h, s = l.split("\t", 1)
    if not s.startswith("fix:"): continue
    n += 1
    sig = "; ".join(sorted(set("%s: %s" % (j["property"], j["signature"]) for j in kf if j.get("status") == "fixed" and str(j.get("commit", "")).startswith(h[:7]))))
    print("| %s | %s | %s |" % (h, s[4:].strip().replace("|", "\\|"), sig))
print()
print("%d `fix:` commits.  Open findings (reported as KNOWN-FINDING lines, never suppressing another signature):" % n)
print()
for j in kf:
    if j.get("status") == "open":
        w = " ".join(j["what"].split())
        print("* **%s** `%s` – %s" % (j["property"], j["signature"], w[:420] + ("…" if len(w) > 420 else "")))
