// Runs the repository's client/src/merge.ts (types stripped textually at run time) on
// JSON lines [original, update] from stdin; prints one JSON result per line.
const fs = require("fs");
const repo = process.argv[2] || "/repo";
let src = fs.readFileSync(repo + "/client/src/merge.ts", "utf8");
src = src.replace(/export\s+function/g, "function").replace(/:\s*any/g, "");
const merge = new Function(src + "\nreturn merge;")();
const lines = fs.readFileSync(0, "utf8").split("\n");
const out = [];
for (const line of lines) {
  if (!line.trim()) continue;
  try {
    const [orig, upd] = JSON.parse(line);
    const r = merge(orig, upd);
    out.push(JSON.stringify({ ok: r === undefined ? null : r }));
  } catch (e) {
    out.push(JSON.stringify({ err: String(e) }));
  }
}
process.stdout.write(out.join("\n") + "\n");
