#!/usr/bin/env python3
"""Prints a markdown table: property, number of property theorems, their names (from coq/theories/Props/Cnn.v)."""
import re, os, glob
V = os.path.dirname(os.path.dirname(os.path.abspath(__file__)))
print("| property | theorems | names |")
print("|---|---|---|")
tot = 0
for f in sorted(glob.glob(os.path.join(V, "coq", "theories", "Props", "C*.v"))):
    src = open(f).read()
    src = re.sub(r"\(\*.*?\*\)", "", src, flags=re.S)
    names = re.findall(r"^\s*Theorem\s+([A-Za-z0-9_']+)", src, flags=re.M)
    tot += len(names)
    print("| %s | %d | %s |" % (os.path.basename(f)[:-2], len(names), ", ".join("`%s`" % n for n in names)))
print()
print("%d property theorems in all; each is followed by `Print Assumptions` and every one reports \"Closed under the global context\"." % tot)
