#!/usr/bin/env python3
"""Prints a markdown table of the seeded changes (seeded/*/meta.json, result.json, seeded/HISTORY.json)."""
import json, os, re, glob
V = os.path.dirname(os.path.dirname(os.path.abspath(__file__)))
hist = json.load(open(os.path.join(V, "seeded", "HISTORY.json")))
def key(d):
    m = re.match(r"(C\d+)-m(\d+)", os.path.basename(d)); return (m.group(1), int(m.group(2)))
print("| seeded change | round | what it does | result of the quick check(s) | history |")
print("|---|---|---|---|---|")
tot = caught = oracle = 0
for d in sorted(glob.glob(os.path.join(V, "seeded", "C*-m*")), key=key):
    n = os.path.basename(d)
    meta = json.load(open(os.path.join(d, "meta.json")))
    res = {}
    if os.path.exists(os.path.join(d, "result.json")):
        res = json.load(open(os.path.join(d, "result.json"))).get("results", {})
    parts = []
    best = "MISSED"
    for p, r in sorted(res.items()):
        v = r.get("violation_lines", [])
        if r.get("exit") == 1 and v:
            kind = "unproved" if "no-failing-input-found" in v[0] else "oracle"
            if kind == "oracle": best = "oracle"
            elif best == "MISSED": best = "unproved"
        else:
            kind = "quiet"
        parts.append("%s: %s" % (p, kind))
    tot += 1; caught += best != "MISSED"; oracle += best == "oracle"
    summ = " ".join(str(meta.get("summary", "")).split())
    summ = summ[:230] + ("…" if len(summ) > 230 else "")
    print("| %s | %s | %s | %s | %s |" % (n, meta.get("round", 1), summ.replace("|", "\\|"), "; ".join(parts) or "not run", hist.get(n, "")))
print()
print("%d seeded changes; %d reported as a violation by at least one check, %d of them with a concrete failing input." % (tot, caught, oracle))
