#!/usr/bin/env python3
"""First-sight detection per seeding round, from seeded/HISTORY.json (what each history line starts with)."""
import json, glob, re, collections, os
V = os.path.dirname(os.path.dirname(os.path.abspath(__file__)))
h = json.load(open(os.path.join(V, "seeded", "HISTORY.json")))
rows = {}
for d in glob.glob(os.path.join(V, "seeded", "C*-m*")):
    n = os.path.basename(d); m = json.load(open(os.path.join(d, "meta.json"))); r = m.get("round") or 1
    t = h.get(n, ""); cls = "first"
    if re.search(r"MISSED|missed at first", t): cls = "missed"
    elif re.search(r"unproved|only reported|first run spoilt", t): cls = "unproved"
    if "equivalent mutant" in t: cls = "equiv"
    rows.setdefault(r, collections.Counter())[cls] += 1
print("| round | changes | reported with a failing input at first sight | first only `no-failing-input-found` | missed at first | equivalent |")
print("|---|---|---|---|---|---|")
T = collections.Counter()
for r in sorted(rows):
    c = rows[r]; T.update(c)
    print("| %s | %d | %d | %d | %d | %d |" % (r, sum(c.values()), c["first"], c["unproved"], c["missed"], c["equiv"]))
print("| all | %d | %d | %d | %d | %d |" % (sum(T.values()), T["first"], T["unproved"], T["missed"], T["equiv"]))
