#!/usr/bin/env python3
"""tools/baseline.py [repo]  - run the repository's test suite (guard off) and compare with BASELINE.json's
stable_pass list.  Exit 0 iff every stable test passes."""
import json, os, subprocess, sys
repo = sys.argv[1] if len(sys.argv) > 1 else "/repo"
env = dict(os.environ, GOFLAGS="-mod=mod", GOPROXY="off", GOSUMDB="off", GOTOOLCHAIN="local")
p = subprocess.run("go test -mod=mod -json -vet=off -count=1 -timeout 25m ./...", shell=True, cwd=repo, env=env,
                   stdout=subprocess.PIPE, stderr=subprocess.DEVNULL, text=True)
status = {}
for l in p.stdout.splitlines():
    try:
        e = json.loads(l)
    except Exception:
        continue
    if e.get("Test") and e.get("Action") in ("pass", "fail", "skip"):
        status[e["Package"] + "::" + e["Test"]] = e["Action"]
base = json.load(open("/root/.vp/BASELINE.json"))["stable_pass"]
bad = [t for t in base if status.get(t) != "pass"]
print("stable tests: %d, passing now: %d" % (len(base), len(base) - len(bad)))
for t in bad:
    print("NOT PASSING:", t, status.get(t))
sys.exit(1 if bad else 0)
