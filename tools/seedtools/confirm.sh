#!/bin/bash
# confirm.sh <worktree> <mutdir> <pkg> <runpattern> [tags]
export GOFLAGS=-mod=mod GOPROXY=off GOSUMDB=off GOTOOLCHAIN=local
wt=$1; md=$2; pkg=$3; pat=$4; tags=$5
cd $wt || exit 2
git checkout -q -- . ; git clean -fdq
# bring the worktree to /repo's HEAD so that the patch is tested against the current tree
git checkout -q --detach $(git -C /repo rev-parse HEAD) 2>/dev/null
if ! git apply --check $md/patch.diff 2>/dev/null; then echo "$md: PATCH DOES NOT APPLY on current HEAD"; exit 3; fi
git apply $md/patch.diff
go build ./... || { echo "$md: BUILD FAILS"; git checkout -q -- .; exit 4; }
for f in $md/*_test.go; do cp $f $pkg/zzseed_$(basename $f); done
go test ${tags:+-tags $tags} -count=1 -run "$pat" ./$pkg/ > /tmp/confirm_with.log 2>&1; with=$?
rm -f $pkg/zzseed_*; 
# existing tests of the package with the patch
go test -count=1 ./$pkg/ > /tmp/confirm_pkg.log 2>&1; pk=$?
git checkout -q -- .
for f in $md/*_test.go; do cp $f $pkg/zzseed_$(basename $f); done
go test ${tags:+-tags $tags} -count=1 -run "$pat" ./$pkg/ > /tmp/confirm_without.log 2>&1; without=$?
rm -f $pkg/zzseed_*
echo "$md: demo with patch exit=$with (want !=0), without exit=$without (want 0), package tests with patch exit=$pk"
