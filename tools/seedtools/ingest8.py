#!/usr/bin/env python3
"""ingest5.py <group>: confirm /tmp/seed-r8-<g>-out/m* with /tmp/confirm.sh and copy into /verif/seeded/<Cnn>-m<K>."""
import json, os, re, subprocess, sys, glob, shutil
g = sys.argv[1]
wt = "/tmp/seed-r8-%s" % g
out = []
for d in sorted(glob.glob("/tmp/seed-r8-%s-out/m*" % g)):
    meta = json.load(open(os.path.join(d, "meta.json")))
    props = meta["property"] if isinstance(meta["property"], list) else [meta["property"]]
    cmd = meta.get("demo_cmd", "") + " " + (open(os.path.join(d, "cmd.txt")).read() if os.path.exists(os.path.join(d, "cmd.txt")) else "")
    m = re.search(r"-run[ =]+'?\"?([^ '\"]+)", cmd); pat = m.group(1) if m else "."
    tags = "verif" if "-tags verif" in cmd or "-tags=verif" in cmd else ""
    pkg = meta.get("demo_dir")
    if not pkg:
        m2 = re.search(r"\./([a-z/]+?)/?(\s|$)", meta.get("demo_cmd", "")); pkg = m2.group(1) if m2 else "graphql"
    pkg = pkg.strip("./")
    r = subprocess.run(["bash", "/tmp/confirm.sh", wt, d, pkg, pat, tags], stdout=subprocess.PIPE, stderr=subprocess.STDOUT, text=True)
    line = r.stdout.strip().splitlines()[-1] if r.stdout.strip() else "no output"
    force = len(sys.argv) > 2
    ok = force or "exit=0 (want !=0)" not in line and "without exit=0" in line and "package tests with patch exit=0" in line and "demo with patch exit=" in line
    print(d, props, pkg, pat, tags, "->", line, "OK" if ok else "NOT CONFIRMED")
    if not ok: continue
    p0 = props[0]
    ks = [int(re.search(r"-m(\d+)$", x).group(1)) for x in glob.glob("/verif/seeded/%s-m*" % p0)]
    name = "%s-m%d" % (p0, max(ks + [0]) + 1)
    dst = "/verif/seeded/" + name
    shutil.copytree(d, dst)
    meta["round"] = 8; meta["property"] = props
    meta["confirmed"] = "confirm.sh on a scratch worktree of /repo HEAD: " + line.split(": ", 1)[-1]
    json.dump(meta, open(os.path.join(dst, "meta.json"), "w"), indent=1)
    out.append(name)
print("INGESTED", " ".join("seeded/" + n for n in out))
