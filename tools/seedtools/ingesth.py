#!/usr/bin/env python3
import json, os, re, sys, glob, shutil
NEI = [("graphql/schemabuilder", "C11 C18 C14 C01"), ("graphql/", "C01 C14 C15 C16 C18 C19 C02 C17 C06"), ("reactive/", "C04 C08 C02 C17 C07"),
       ("batch/", "C05 C01 C10"), ("concurrencylimiter/", "C20 C01"), ("diff/", "C03 C02"), ("merge/", "C03 C02"), ("client/", "C03 C02"),
       ("federation/", "C06 C09 C15"), ("sqlgen/", "C10 C12 C13 C07"), ("livesql/", "C07 C13"), ("internal/filter", "C11"), ("internal/", "C13 C10")]
g = sys.argv[1]; out = []
for d in sorted(glob.glob("/tmp/harm%s-out/h*" % g)):
    meta = json.load(open(os.path.join(d, "meta.json")))
    props = meta["property"] if isinstance(meta["property"], list) else [meta["property"]]
    files = re.findall(r"^\+\+\+ b/(\S+)", open(os.path.join(d, "patch.diff")).read(), flags=re.M)
    allp = list(props)
    for f in files:
        for pre, ps in NEI:
            if f.startswith(pre):
                for p in ps.split():
                    if p not in allp: allp.append(p)
                break
    name = "H%s%s" % (g.replace("-", ""), os.path.basename(d)[1:])
    dst = "/verif/harmless/" + name
    shutil.rmtree(dst, ignore_errors=True); shutil.copytree(d, dst)
    meta["touches"] = props; meta["property"] = allp; meta["files"] = files
    json.dump(meta, open(os.path.join(dst, "meta.json"), "w"), indent=1)
    out.append("harmless/" + name); print(name, files, allp)
print(" ".join(out))
