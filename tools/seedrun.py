#!/usr/bin/env python3
"""tools/seedrun.py <seeded-dir> [more dirs...]
Applies seeded/<name>/patch.diff to /repo, runs the quick check of the property named in meta.json,
records the outcome in seeded/<name>/result.json, and undoes the patch (always)."""
import json, os, subprocess, sys, time
V = os.path.dirname(os.path.dirname(os.path.abspath(__file__)))
REPO = "/repo"

def keep_evidence(props):
    """Evidence files are rewritten by every run; a run against a seeded change must not replace the evidence of
    the clean tree.  Returns a restore function."""
    saved = {}
    for p in props:
        f = os.path.join(V, "evidence", p + ".json")
        saved[f] = open(f).read() if os.path.exists(f) else None
    def restore():
        for f, txt in saved.items():
            if txt is not None:
                open(f, "w").write(txt)
    return restore

def sh(cmd, **kw):
    return subprocess.run(cmd, shell=True, stdout=subprocess.PIPE, stderr=subprocess.STDOUT, text=True, **kw)

def scratch_main(dirs):
    """Same, but on a scratch worktree of /repo's HEAD (used while other work needs /repo untouched)."""
    rc_all = 0
    wt, bd = "/tmp/seedrun-wt-%d" % os.getpid(), "/tmp/seedrun-build-%d" % os.getpid()
    for d in dirs:
        d = os.path.abspath(d)
        meta = json.load(open(os.path.join(d, "meta.json")))
        props = meta["property"] if isinstance(meta["property"], list) else [meta["property"]]
        sh("git -C %s worktree remove --force %s" % (REPO, wt)); sh("rm -rf %s %s" % (wt, bd))
        a = sh("git -C %s worktree add -q %s HEAD && git -C %s apply %s" % (REPO, wt, wt, os.path.join(d, "patch.diff")))
        if a.returncode != 0:
            print("patch does not apply:", a.stdout); rc_all = 2; continue
        results = {}
        env = dict(os.environ, VERIF_REPO=wt, VERIF_BUILD=bd)
        restore = keep_evidence(props)
        try:
            for p in props:
                t0 = time.time()
                r = sh("./check %s --tier quick" % p, cwd=V, env=env)
                vio = [l for l in r.stdout.splitlines() if l.startswith("VIOLATION")]
                results[p] = {"exit": r.returncode, "violation_lines": vio, "tail": r.stdout.splitlines()[-3:],
                              "wall_s": round(time.time() - t0, 1), "on": "scratch worktree of /repo HEAD with the patch applied"}
                print(os.path.basename(d), p, "exit", r.returncode, vio[:1])
        finally:
            restore()
            sh("git -C %s worktree remove --force %s" % (REPO, wt)); sh("rm -rf %s %s" % (wt, bd))
        json.dump({"checked_at": time.strftime("%Y-%m-%dT%H:%M:%S"), "results": results},
                  open(os.path.join(d, "result.json"), "w"), indent=1)
        if not all(r["exit"] == 1 and r["violation_lines"] for r in results.values()):
            rc_all = max(rc_all, 1)
    sys.exit(rc_all)

def main():
    if len(sys.argv) > 1 and sys.argv[1] == "--scratch":
        scratch_main(sys.argv[2:])
    rc_all = 0
    for d in sys.argv[1:]:
        d = os.path.abspath(d)
        meta = json.load(open(os.path.join(d, "meta.json")))
        props = meta["property"] if isinstance(meta["property"], list) else [meta["property"]]
        patch = os.path.join(d, "patch.diff")
        st = sh("git -C %s status --porcelain" % REPO).stdout.strip()
        if st:
            print("refusing: /repo is not clean:\n" + st); sys.exit(2)
        a = sh("git -C %s apply %s" % (REPO, patch))
        if a.returncode != 0:
            print("patch does not apply:", a.stdout); rc_all = 2; continue
        results = {}
        restore = keep_evidence(props)
        try:
            for p in props:
                t0 = time.time()
                r = sh("./check %s --tier quick" % p, cwd=V)
                vio = [l for l in r.stdout.splitlines() if l.startswith("VIOLATION")]
                results[p] = {"exit": r.returncode, "violation_lines": vio, "tail": r.stdout.splitlines()[-3:],
                              "wall_s": round(time.time() - t0, 1)}
                print(os.path.basename(d), p, "exit", r.returncode, vio[:1])
        finally:
            restore()
            sh("git -C %s apply -R %s" % (REPO, patch))
            sh("git -C %s checkout -- ." % REPO)
            left = sh("git -C %s status --porcelain" % REPO).stdout.strip()
            if left:
                print("WARNING: /repo not clean after undo:\n" + left)
        json.dump({"checked_at": time.strftime("%Y-%m-%dT%H:%M:%S"), "results": results},
                  open(os.path.join(d, "result.json"), "w"), indent=1)
        if not all(r["exit"] == 1 and r["violation_lines"] for r in results.values()):
            rc_all = max(rc_all, 1)
    sys.exit(rc_all)

if __name__ == "__main__":
    main()
