#!/usr/bin/env python3
"""Prints a markdown table of the harmless (property-preserving) changes (harmless/*/meta.json, result.json, harmless/HISTORY.json)."""
import json, os, glob
V = os.path.dirname(os.path.dirname(os.path.abspath(__file__)))
hist = json.load(open(os.path.join(V, "harmless", "HISTORY.json")))
print("| harmless change | kind | what it does | checks run (all must be quiet) | result | history |")
print("|---|---|---|---|---|---|")
tot = quiet = 0
for d in sorted(glob.glob(os.path.join(V, "harmless", "H*"))):
    if not os.path.isdir(d): continue
    n = os.path.basename(d)
    meta = json.load(open(os.path.join(d, "meta.json")))
    res = json.load(open(os.path.join(d, "result.json"))).get("results", {}) if os.path.exists(os.path.join(d, "result.json")) else {}
    bad = sorted(p for p, r in res.items() if r.get("exit") != 0)
    tot += 1; quiet += (not bad and bool(res))
    summ = " ".join(str(meta.get("summary", "")).split()); summ = summ[:200] + ("…" if len(summ) > 200 else "")
    print("| %s | %s | %s | %s | %s | %s |" % (n, meta.get("kind", "refactor"), summ.replace("|", "\\|"), " ".join(sorted(res)) or "not run",
          "quiet" if not bad else "ALARM: " + " ".join(bad), hist.get(n, "")))
print()
print("%d harmless changes; %d leave every check that was run quiet." % (tot, quiet))
