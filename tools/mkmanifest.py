#!/usr/bin/env python3
"""Regenerates /verif/MANIFEST.json from vlib/props/*.py (SPEC['manifest']) and tools/manifest_base.json."""
import importlib, json, os, sys, glob
V = os.path.dirname(os.path.dirname(os.path.abspath(__file__)))
sys.path.insert(0, V)
base = json.load(open(os.path.join(V, "tools", "manifest_base.json")))
checks, claimed = [], set()
integrated = set(open(os.path.join(V, "tools", "integrated.txt")).read().split())
for p in sorted(glob.glob(os.path.join(V, "vlib", "props", "c[0-9]*.py"))):
    mod = importlib.import_module("vlib.props." + os.path.basename(p)[:-3])
    spec = mod.SPEC
    m = spec.get("manifest")
    if not m:
        continue
    pid = spec["id"]
    if pid not in integrated:
        continue
    claimed.add(pid)
    checks.append({
        "property_id": pid,
        "quick_cmd": "./check %s --tier quick" % pid,
        "thorough_cmd": "./check %s --tier thorough" % pid,
        "evidence_file": "/verif/evidence/%s.json" % pid,
        "replay_cmd_template": "./check %s --replay {path}" % pid,
        "engine": "coq-proof+correspondence",
        "level_claimed": {"category": "proof", "text": m["text"], "design_ref": m.get("design_ref", "DESIGN.md section 7, " + pid)},
        "level_note": m["note"],
        "technique": m["technique"],
    })
base["checks"] = checks
na = base.get("not_applicable_reasons", {})
props = [json.loads(l)["id"] for l in open(os.path.join(V, "properties.jsonl"))]
base["not_applicable"] = [{"property_id": p, "reason": na.get(p, "check not built yet in this session; no other technique substituted")}
                          for p in props if p not in claimed]
base.pop("not_applicable_reasons", None)
json.dump(base, open(os.path.join(V, "MANIFEST.json"), "w"), indent=1)
print("claimed:", sorted(claimed))
