#!/bin/sh
# Build everything the checks need from files on disk (offline): the Coq tree (full .vo build)
# and every Go harness binary (against /repo's working tree, -tags verif).
set -e
cd "$(dirname "$0")"
export GOFLAGS=-mod=mod GOPROXY=off GOSUMDB=off GOTOOLCHAIN=local CGO_ENABLED=0
python3 - <<'PY'
import sys, os
sys.path.insert(0, os.getcwd())
from vlib import common as C
props = open(os.path.join(C.VERIF, "tools", "integrated.txt")).read().split()
ok, log = C.coq_build(targets=["theories/Props/%s.vo" % p for p in props])
print(log[-3000:])
if not ok:
    sys.exit("coq build failed")
bad = 0
for p in props:
    b, l = C.go_build(p.lower())
    print("harness", p, "ok" if b else "FAILED\n" + l[-2000:])
    bad += b is None
sys.exit(1 if bad else 0)
PY
