#!/bin/sh
# Build everything the checks need from files on disk (offline): the Coq tree (full .vo build)
# and every Go harness binary (against /repo's working tree, -tags verif).
set -e
cd "$(dirname "$0")"
export GOFLAGS=-mod=mod GOPROXY=off GOSUMDB=off GOTOOLCHAIN=local CGO_ENABLED=0
python3 - <<'PY'
import sys, os
sys.path.insert(0, os.getcwd())
from vlib import common as C
ok, log = C.coq_build()
print(log[-3000:])
if not ok:
    sys.exit("coq build failed")
bad = 0
for d in sorted(os.listdir(os.path.join(C.HARNESS, "cmd"))):
    b, l = C.go_build(d)
    print("harness", d, "ok" if b else "FAILED\n" + l[-2000:])
    bad += b is None
sys.exit(1 if bad else 0)
PY
