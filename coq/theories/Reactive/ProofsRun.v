(** * Reactive/ProofsRun.v — a computation that is still being worked for has never been handed to anybody:
    it is in no cache, no goroutine is about to link it below a parent, it has no dependant.  Hence a cache lookup
    never returns the computation that performs it ([no_self_hit] is an invariant), every addOut attaches a
    dependency to a node without out-edges, and the dependency graph is ranked (acyclic). *)
From Coq Require Import List Arith Bool Lia Permutation.
From Thunder Require Import Reactive.Graph Reactive.Rerunner Reactive.ProofsBase Reactive.ProofsEdge Reactive.ProofsMutex
  Reactive.ProofsArmed Reactive.ProofsClosed Reactive.ProofsShape Reactive.ProofsJoin Reactive.ProofsProgress Reactive.Measure Reactive.ProofsMeasure Reactive.ProofsCacheKeys Reactive.ProofsSeg.
Import ListNotations.

(** ** what a step puts on the stacks *)
Lemma inv_step_new : forall s n k s1 st sp x,
  inv_step s n k = Some (s1, st, sp) -> In x (st ++ concat sp) -> In x k \/ (plain x = true /\ forall m, x <> FOutAdd m).
Proof.
  intros s n k s1 st sp x H Hx. unfold inv_step in H.
  destruct (Nat.ltb n (length (s_nodes s))); [|discriminate].
  destruct (n_inv (getN s n)); [inversion H; subst; simpl in Hx; rewrite app_nil_r in Hx; left; exact Hx|].
  destruct (n_hinv (getN s n)) as [r|]; [destruct (r_spawn (getr s r))|]; inversion H; subst; clear H;
    simpl in Hx; rewrite ?in_app_iff in Hx; simpl in Hx;
    repeat (destruct Hx as [Hx|Hx]); try contradiction; try (subst x; right; split; [reflexivity | intros; discriminate]); left; exact Hx.
Qed.

Lemma do_add_out_new : forall s n to s1 sp x, do_add_out s n to = Some (s1, sp) -> In x (concat sp) -> plain x = true /\ forall m, x <> FOutAdd m.
Proof.
  intros s n to s1 sp x H Hx. unfold do_add_out in H.
  destruct (Nat.ltb n (length (s_nodes s)) && Nat.ltb to (length (s_nodes s)) && negb (Nat.eqb n to)); [|discriminate].
  destruct (g_add_out (s_nodes s) n to) as [g [[a b] c]]. inversion H; subst; clear H.
  destruct b; destruct c; simpl in Hx; repeat (destruct Hx as [Hx|Hx]); try contradiction; subst x; (split; [reflexivity | intros; discriminate]).
Qed.

Lemma do_fail_new : forall s r stk b s1 st sp x,
  do_fail s r stk b = Some (s1, st, sp) -> In x (st ++ concat sp) -> In x stk \/ (plain x = true /\ forall m, x <> FOutAdd m).
Proof.
  intros s r stk b s1 st sp x H Hx.
  destruct (do_fail_spec _ _ _ _ _ _ _ H) as [cs [ks [below [term [y [U [N [Sl [R [Y1 [Y2 [Y3 [Y4 [Y5 [Y6 [Y7 [Y8 T]]]]]]]]]]]]]]]]].
  destruct (unwind_split _ _ _ _ _ _ U) as [d [l [E [Fd [L _]]]]].
  assert (Rl : forall cs0, In x (concat (map (fun c => [FRelEnter c]) cs0)) -> plain x = true /\ forall m, x <> FOutAdd m).
  { induction cs0 as [|h t IH]; simpl; [tauto|]. intros [<-|Q]; [split; [reflexivity | intros; discriminate] | apply IH; exact Q]. }
  assert (Bl : In x below -> In x stk) by (intros Q; rewrite E; apply in_app_iff; right; right; exact Q).
  apply in_app_iff in Hx.
  destruct term as [jid|]; simpl in L.
  - subst l. destruct T as [-> [-> _]]. destruct Hx as [[<-|Hx]|Hx]; [left; rewrite E; apply in_app_iff; right; left; reflexivity | left; apply Bl; exact Hx | right; eapply Rl; exact Hx].
  - destruct T as [-> [_ [[_ [-> _]]|[_ [-> _]]]]].
    + destruct Hx as [[<-|Hx]|Hx]; [right; split; [reflexivity | intros; discriminate] | left; apply Bl; exact Hx|].
      rewrite concat_app in Hx. apply in_app_iff in Hx. destruct Hx as [Hx|Hx]; [right; eapply Rl; exact Hx|].
      simpl in Hx. destruct Hx as [<-|[]]. right. split; [reflexivity | intros; discriminate].
    + destruct Hx as [[<-|Hx]|Hx]; [right; split; [reflexivity | intros; discriminate] | left; apply Bl; exact Hx | right; eapply Rl; exact Hx].
Qed.

(** the successors of the frame that steps: whom they work for, where a link / a timer registration comes from *)
Definition succ_ok (s s1 : state) (f x : frame) : Prop :=
  (forall m, runs x = Some m -> runs f = Some m \/
     (m = length (s_nodes s) /\ length (s_nodes s) < length (s_nodes s1) /\ getn (s_nodes s1) m = new_comp)) /\
  (forall child p, x = FCacheLink child p ->
     (exists r key, f = FCacheSet r key child p) \/
     (exists r key body, f = FCacheGet r key body p /\ cache_get (r_cache (getr s r)) key = Some child)) /\
  (forall c n, x = FTimerAdd c n -> f = FTimerReg c n) /\
  (forall n, x <> FOutAdd n).

Lemma plain_succ : forall s s1 f x, plain x = true -> (forall n, x <> FOutAdd n) -> succ_ok s s1 f x.
Proof.
  intros s s1 f x P No. unfold plain in P. repeat split.
  - intros m R. unfold runs in R. destruct (kind x); discriminate.
  - intros child p E. subst x. discriminate.
  - intros c n E. subst x. discriminate.
  - exact No.
Qed.

Ltac nf_split Hx :=
  simpl in Hx; rewrite ?in_app_iff in Hx; simpl in Hx;
  repeat match type of Hx with context [match ?z with _ => _ end] => destruct z end;
  simpl in Hx;
  repeat (destruct Hx as [Hx|Hx]); try contradiction; try (left; exact Hx).

Ltac succ_tac :=
  right; subst; unfold succ_ok; repeat split;
  [ intros m0 R; simpl in R; first [discriminate | left; exact R | right; inversion R; subst; split; [reflexivity | split; [simpl; rewrite ?app_length; simpl; lia | simpl; rewrite getn_app_new, Nat.eqb_refl; reflexivity]]]
  | intros child0 p0 E; first [discriminate | inversion E; subst; clear E;
      first [left; eexists; eexists; reflexivity | right; eexists; eexists; eexists; split; [reflexivity | assumption]]]
  | intros c0 n0 E; first [discriminate | inversion E; subst; reflexivity]
  | intros n0 E; discriminate ].

Lemma step_top_succ : forall s f rest arg s1 st sp x,
  step_top s f rest arg = Some (s1, st, sp) -> In x (st ++ concat sp) -> In x rest \/ succ_ok s s1 f x.
Proof.
  intros s f rest arg s1 st sp x H Hx.
  assert (PS : plain x = true /\ (forall n, x <> FOutAdd n) -> In x rest \/ succ_ok s s1 f x) by (intros [P No]; right; apply plain_succ; assumption).
  unfold step_top, alloc, opt_task in H.
  destruct f; cbv beta iota zeta in H.
  - destruct (memb arg l); [|discriminate]. destruct (inv_step_new _ _ _ _ _ _ _ H Hx) as [Q|Q]; [|apply PS; exact Q].
    destruct Q as [<-|Q]; [apply PS; split; [reflexivity | intros; discriminate] | left; exact Q].
  - inversion H; subst; clear H. nf_split Hx. subst x. apply PS; split; [reflexivity | intros; discriminate].
  - destruct (inv_step_new _ _ _ _ _ _ _ H Hx) as [Q|Q]; [|apply PS; exact Q].
    destruct Q as [<-|Q]; [apply PS; split; [reflexivity | intros; discriminate] | left; exact Q].
  - dmatch H; nf_split Hx; subst x; apply PS; (split; [reflexivity | intros; discriminate]).
  - dmatch H; nf_split Hx.
  - dmatch H; nf_split Hx; subst x; apply PS; (split; [reflexivity | intros; discriminate]).
  - dmatch H; nf_split Hx; subst x; apply PS; (split; [reflexivity | intros; discriminate]).
  - dmatch H; nf_split Hx; subst x; apply PS; (split; [reflexivity | intros; discriminate]).
  - dmatch H; nf_split Hx; subst x; apply PS; (split; [reflexivity | intros; discriminate]).
  - dmatch H; nf_split Hx; subst x; apply PS; (split; [reflexivity | intros; discriminate]).
  - (* FBegin *) inversion H; subst; clear H. nf_split Hx; succ_tac.
  - (* FScript *)
    destruct p as [|o q]; [discriminate|].
    assert (Df : forall b s2 st2 sp2, do_fail s r (FScript r c q :: rest) b = Some (s2, st2, sp2) ->
                 In x (st2 ++ concat sp2) -> In x rest \/ succ_ok s s2 (FScript r c (o :: q)) x).
    { intros b s2 st2 sp2 Hf Hx2. destruct (do_fail_new _ _ _ _ _ _ _ _ Hf Hx2) as [[<-|Q]|Q]; [succ_tac | left; exact Q|].
      right. apply plain_succ; apply Q. }
    destruct o.
    + inversion H; subst; clear H. nf_split Hx; succ_tac.
    + dmatch H; nf_split Hx; succ_tac.
    + destruct (Nat.eqb arg 0).
      * destruct (memb key (r_keys (getr s r))); [discriminate|]. inversion H; subst; clear H. nf_split Hx; succ_tac.
      * destruct (Nat.eqb arg 2); [inversion H; subst; clear H; nf_split Hx; succ_tac|].
        destruct (r_cancel (getr s r)); [|discriminate]. eapply Df; eauto.
    + destruct (Nat.eqb arg 0); [inversion H; subst; clear H; nf_split Hx; succ_tac | eapply Df; eauto].
    + destruct (Nat.eqb arg 0); [inversion H; subst; clear H; nf_split Hx; succ_tac | eapply Df; eauto].
    + inversion H; subst; clear H.
      simpl in Hx. destruct Hx as [<-|[<-|Hx]]; [succ_tac | succ_tac|].
      apply in_app_iff in Hx. destruct Hx as [Hx|Hx]; [left; exact Hx|].
      apply in_concat in Hx. destruct Hx as [t [Ht Hxt]].
      destruct (branch_tasks_in _ _ _ _ _ _ Ht) as [idx [b [Hb ->]]].
      simpl in Hxt. destruct Hxt as [<-|[<-|[<-|[]]]]; succ_tac.
  - (* FDepAdd *)
    destruct (do_add_out s res c) as [[s2 sp2]|] eqn:A; [|discriminate]. inversion H; subst; clear H.
    simpl in Hx. destruct Hx as [<-|Hx]; [succ_tac|]. apply in_app_iff in Hx.
    destruct Hx as [Hx|Hx]; [left; exact Hx | apply PS; eapply do_add_out_new; eauto].
  - inversion H; subst; clear H. nf_split Hx.
  - dmatch H; nf_split Hx; succ_tac.
  - destruct (do_add_out s res c) as [[s2 sp2]|] eqn:A; [|discriminate]. inversion H; subst; clear H.
    apply in_app_iff in Hx. destruct Hx as [Hx|Hx]; [left; exact Hx | apply PS; eapply do_add_out_new; eauto].
  - (* FChildBegin *) inversion H; subst; clear H. nf_split Hx; succ_tac.
  - (* FCacheSet *) dmatch H; nf_split Hx; succ_tac.
  - destruct (do_add_out s child parent) as [[s2 sp2]|] eqn:A; [|discriminate]. inversion H; subst; clear H.
    apply in_app_iff in Hx. destruct Hx as [Hx|Hx]; [left; exact Hx | apply PS; eapply do_add_out_new; eauto].
  - (* FCacheGet *) dmatch H; nf_split Hx; succ_tac.
  - inversion H; subst; clear H. nf_split Hx.
  - (* FJoin *)
    destruct (nth jid (s_joins s) (0, false)) as [nb failed]. destruct (Nat.eqb nb 0); [|discriminate].
    destruct failed; [|inversion H; subst; clear H; nf_split Hx].
    destruct (do_fail_new _ _ _ _ _ _ _ _ H Hx) as [Q|Q]; [left; exact Q | apply PS; exact Q].
  - inversion H; subst; clear H. nf_split Hx.
  - destruct (nth jid (s_joins s) (0, false)) as [nb failed]. inversion H; subst; clear H. nf_split Hx.
  - dmatch H; nf_split Hx; subst x; apply PS; (split; [reflexivity | intros; discriminate]).
  - dmatch H; nf_split Hx; subst x; apply PS; (split; [reflexivity | intros; discriminate]).
  - inversion H; subst; clear H. nf_split Hx.
  - dmatch H; nf_split Hx; subst x; apply PS; (split; [reflexivity | intros; discriminate]).
  - dmatch H; nf_split Hx; subst x; apply PS; (split; [reflexivity | intros; discriminate]).
  - inversion H; subst; clear H. nf_split Hx.
Qed.

(** ** where a cache entry comes from *)
Lemma setl_cache_in : forall rrs r0 y r key child,
  (In (key, child) (r_cache y) -> In (key, child) (r_cache (nth r0 rrs drr)) \/ False) ->
  In (key, child) (r_cache (nth r (setl rrs r0 y) drr)) -> In (key, child) (r_cache (nth r rrs drr)).
Proof.
  intros rrs r0 y r key child Hy Hin. rewrite nth_setl in Hin.
  destruct (Nat.eqb r0 r && Nat.ltb r0 (length rrs)) eqn:E; [|exact Hin].
  apply andb_true_iff in E. destruct E as [E _]. apply Nat.eqb_eq in E. subst. destruct (Hy Hin) as [Q|[]]. exact Q.
Qed.

Lemma do_fail_cache_in : forall s r stk b s1 st sp, do_fail s r stk b = Some (s1, st, sp) ->
  exists y, s_rrs s1 = setl (s_rrs s) r y /\ (r_cache y = [] \/ r_cache y = r_cache (getr s r)).
Proof.
  intros s r stk b s1 st sp H.
  destruct (do_fail_spec _ _ _ _ _ _ _ H) as [cs [ks [below [term [y [U [N [Sl [R [Y1 [Y2 [Y3 [Y4 [Y5 [Y6 [Y7 [Y8 T]]]]]]]]]]]]]]]]].
  exists y. split; [exact R|]. destruct term as [jid|].
  - destruct T as [_ [_ [T _]]]. right. exact T.
  - destruct T as [_ [_ [[_ [_ [T _]]]|[_ [_ [T _]]]]]]; [left | right]; exact T.
Qed.

Lemma step_top_cache_in : forall s f rest arg s1 st sp r key child,
  step_top s f rest arg = Some (s1, st, sp) -> In (key, child) (r_cache (getr s1 r)) ->
  In (key, child) (r_cache (getr s r)) \/ exists p, f = FCacheSet r key child p.
Proof.
  intros s f rest arg s1 st sp r key child H Hin.
  unfold step_top, alloc in H. unfold getr in *.
  destruct f; cbv beta iota zeta in H; dmatch H;
    repeat match goal with
    | A : do_add_out _ _ _ = Some _ |- _ => apply do_add_out_rrs in A; destruct A as [A _]
    | A : inv_step _ _ _ = Some _ |- _ => apply inv_step_counts in A; destruct A as [A _]
    | A : do_fail _ _ _ _ = Some _ |- _ => apply do_fail_cache_in in A; destruct A as [? [A [?|?]]]
    end;
    unfold getr, with_rr, with_nodes, upd_node, with_slot, with_joins in *; simpl in *;
    try match goal with A : s_rrs _ = _ |- _ => rewrite A in Hin end;
    try (left; exact Hin);
    rewrite nth_setl in Hin;
    match type of Hin with context [if ?b then _ else _] => destruct b eqn:E end; try (left; exact Hin);
    apply andb_true_iff in E; destruct E as [E _]; apply Nat.eqb_eq in E; subst; simpl in Hin;
    try (left; exact Hin);
    try match goal with A : r_cache _ = [] |- _ => rewrite A in Hin; contradiction end;
    try match goal with A : r_cache _ = r_cache _ |- _ => rewrite A in Hin; left; exact Hin end;
    try (left; unfold cache_drop_child in Hin; apply filter_In in Hin; apply Hin);
    try (apply in_app_iff in Hin; destruct Hin as [Hin|[Hin|[]]]; [left; exact Hin | inversion Hin; subst; right; eexists; reflexivity]).
Qed.

(** ** which nodes a step marks as used as a dependency / gives a handler / a timer state *)
Definition fresh3 (x : node) : Prop := n_had x = false /\ n_hrel x = None /\ n_timer x = 0.

Definition same3 (g g' : graph) (ex : nat -> Prop) : Prop :=
  length g <= length g' /\
  forall m, m < length g -> ~ ex m ->
    n_had (getn g' m) = n_had (getn g m) /\ n_hrel (getn g' m) = n_hrel (getn g m) /\ n_timer (getn g' m) = n_timer (getn g m).

Lemma same3_refl : forall g ex, same3 g g ex.
Proof. intros g ex. split; [lia|]. intros m _ _. repeat split. Qed.

Lemma same3_trans : forall a b c ex, same3 a b ex -> same3 b c ex -> same3 a c ex.
Proof.
  intros a b c ex [L1 H1] [L2 H2]. split; [lia|]. intros m Hm Ne.
  destruct (H1 m Hm Ne) as [A1 [A2 A3]]. destruct (H2 m ltac:(lia) Ne) as [B1 [B2 B3]]. repeat split; congruence.
Qed.

Lemma same3_setn_keep : forall g i x ex,
  n_had x = n_had (getn g i) -> n_hrel x = n_hrel (getn g i) -> n_timer x = n_timer (getn g i) -> same3 g (setn g i x) ex.
Proof.
  intros g i x ex H1 H2 H3. split; [rewrite length_setn; lia|]. intros m _ _. rewrite getn_setn.
  destruct (Nat.eqb i m && Nat.ltb i (length g)) eqn:E; [|repeat split].
  apply andb_true_iff in E. destruct E as [E _]. apply Nat.eqb_eq in E. subst. repeat split; assumption.
Qed.

Lemma same3_setn_ex : forall g i x (ex : nat -> Prop), ex i -> same3 g (setn g i x) ex.
Proof.
  intros g i x ex Hi. split; [rewrite length_setn; lia|]. intros m _ Ne. rewrite getn_setn.
  destruct (Nat.eqb i m && Nat.ltb i (length g)) eqn:E; [|repeat split].
  apply andb_true_iff in E. destruct E as [E _]. apply Nat.eqb_eq in E. subst. contradiction.
Qed.

Lemma same3_alloc : forall g x ex, same3 g (g ++ [x]) ex.
Proof.
  intros g x ex. split; [rewrite app_length; simpl; lia|]. intros m Hm _. rewrite getn_app_new.
  assert (E : Nat.eqb m (length g) = false) by (apply Nat.eqb_neq; lia). rewrite E. repeat split.
Qed.

Ltac same3_tac :=
  first
    [ apply same3_refl
    | apply same3_setn_keep; reflexivity
    | apply same3_alloc
    | apply same3_setn_ex; reflexivity
    | eapply same3_trans; [ | first [apply same3_setn_keep; reflexivity | apply same3_alloc | apply same3_setn_ex; reflexivity] ]; same3_tac ].

Definition touched (f : frame) (m : nat) : Prop :=
  match f with
  | FDepAdd _ _ n | FTimerAdd _ n | FTimerReg _ n | FOutAdd n => m = n
  | FCacheLink child _ => m = child
  | _ => False
  end.

Lemma inv_step_same3 : forall s n k s1 st sp ex, inv_step s n k = Some (s1, st, sp) -> same3 (s_nodes s) (s_nodes s1) ex.
Proof.
  intros s n k s1 st sp ex H. unfold inv_step in H.
  destruct (Nat.ltb n (length (s_nodes s))); [|discriminate].
  destruct (n_inv (getN s n)); [inversion H; subst; apply same3_refl|].
  destruct (n_hinv (getN s n)) as [r|]; [destruct (r_spawn (getr s r))|]; inversion H; subst; simpl; unfold g_inv_mark; same3_tac.
Qed.

Lemma do_add_out_same3 : forall s n to s1 sp, do_add_out s n to = Some (s1, sp) -> same3 (s_nodes s) (s_nodes s1) (fun m => m = n).
Proof.
  intros s n to s1 sp H. unfold do_add_out in H.
  destruct (Nat.ltb n (length (s_nodes s)) && Nat.ltb to (length (s_nodes s)) && negb (Nat.eqb n to)); [|discriminate].
  destruct (g_add_out (s_nodes s) n to) as [g [[a b] c]] eqn:A. inversion H; subst; clear H. simpl.
  unfold g_add_out in A. destruct (negb (n_rel (getn (s_nodes s) to))); inversion A; subst; clear A; same3_tac.
Qed.

Lemma step_top_same3 : forall s f rest arg s1 st sp,
  step_top s f rest arg = Some (s1, st, sp) -> same3 (s_nodes s) (s_nodes s1) (touched f).
Proof.
  intros s f rest arg s1 st sp H. unfold step_top, alloc in H.
  destruct f; cbv beta iota zeta in H; dmatch H;
    repeat match goal with
    | A : do_add_out _ _ _ = Some _ |- _ => apply do_add_out_same3 in A
    | A : inv_step _ _ _ = Some _ |- _ => apply (inv_step_same3 _ _ _ _ _ _ (fun _ => False)) in A
    | A : do_fail _ _ _ _ = Some _ |- _ => apply do_fail_nodes in A
    end;
    unfold g_rel_mark, g_handle_rel, g_handle_inv, g_rel_dep, g_add_out_released, upd_node, with_nodes, with_rr, with_slot, with_joins, getN in *;
    simpl in *;
    repeat match goal with
    | A : context [if ?b then _ else _] |- _ => destruct b
    | |- context [if ?b then _ else _] => destruct b
    end;
    repeat match goal with A : (_, _) = (_, _) |- _ => inversion A; subst; clear A end;
    simpl in *;
    try (match goal with A : s_nodes _ = s_nodes _ |- _ => rewrite A; apply same3_refl end);
    try assumption;
    try same3_tac;
    try (eapply same3_trans; [eassumption | apply same3_setn_keep; reflexivity]).
Qed.

(** ** a release handler, once registered, stays *)
Definition hmono (g g' : graph) : Prop := forall n, n_hrel (getn g n) <> None -> n_hrel (getn g' n) <> None.

Lemma hmono_refl : forall g, hmono g g.
Proof. intros g n H. exact H. Qed.
Lemma hmono_trans : forall a b c, hmono a b -> hmono b c -> hmono a c.
Proof. intros a b c H1 H2 n H. apply H2, H1, H. Qed.
Lemma hmono_setn : forall g i x, (n_hrel (getn g i) <> None -> n_hrel x <> None) -> hmono g (setn g i x).
Proof.
  intros g i x Hx n H. rewrite getn_setn. destruct (Nat.eqb i n && Nat.ltb i (length g)) eqn:E; [|exact H].
  apply andb_true_iff in E. destruct E as [E _]. apply Nat.eqb_eq in E. subst. apply Hx. exact H.
Qed.
Lemma hmono_alloc : forall g x, hmono g (g ++ [x]).
Proof.
  intros g x n H. rewrite getn_app_new. destruct (Nat.eqb n (length g)) eqn:E; [|exact H].
  apply Nat.eqb_eq in E. subst. rewrite getn_out_of_range in H by lia. exfalso. apply H. reflexivity.
Qed.

Ltac hmono_tac :=
  first
    [ apply hmono_refl
    | apply hmono_setn; simpl; intros Q; first [exact Q | discriminate]
    | apply hmono_alloc
    | eapply hmono_trans; [ | first [apply hmono_setn; simpl; intros Q; first [exact Q | discriminate] | apply hmono_alloc] ]; hmono_tac ].

Lemma inv_step_hmono : forall s n k s1 st sp, inv_step s n k = Some (s1, st, sp) -> hmono (s_nodes s) (s_nodes s1).
Proof.
  intros s n k s1 st sp H. unfold inv_step in H.
  destruct (Nat.ltb n (length (s_nodes s))); [|discriminate].
  destruct (n_inv (getN s n)); [inversion H; subst; apply hmono_refl|].
  destruct (n_hinv (getN s n)) as [r|]; [destruct (r_spawn (getr s r))|]; inversion H; subst; simpl; unfold g_inv_mark; hmono_tac.
Qed.

Lemma do_add_out_hmono : forall s n to s1 sp, do_add_out s n to = Some (s1, sp) -> hmono (s_nodes s) (s_nodes s1).
Proof.
  intros s n to s1 sp H. unfold do_add_out in H.
  destruct (Nat.ltb n (length (s_nodes s)) && Nat.ltb to (length (s_nodes s)) && negb (Nat.eqb n to)); [|discriminate].
  destruct (g_add_out (s_nodes s) n to) as [g [[a b] c]] eqn:A. inversion H; subst; clear H. simpl.
  unfold g_add_out in A. destruct (negb (n_rel (getn (s_nodes s) to))); inversion A; subst; clear A; hmono_tac.
Qed.

Lemma step_top_hmono : forall s f rest arg s1 st sp,
  step_top s f rest arg = Some (s1, st, sp) -> hmono (s_nodes s) (s_nodes s1).
Proof.
  intros s f rest arg s1 st sp H. unfold step_top, alloc in H.
  destruct f; cbv beta iota zeta in H; dmatch H;
    repeat match goal with
    | A : do_add_out _ _ _ = Some _ |- _ => apply do_add_out_hmono in A
    | A : inv_step _ _ _ = Some _ |- _ => apply inv_step_hmono in A
    | A : do_fail _ _ _ _ = Some _ |- _ => apply do_fail_nodes in A
    end;
    unfold g_rel_mark, g_handle_rel, g_handle_inv, g_rel_dep, g_add_out_released, upd_node, with_nodes, with_rr, with_slot, with_joins, getN in *;
    simpl in *;
    repeat match goal with
    | A : context [if ?b then _ else _] |- _ => destruct b
    | |- context [if ?b then _ else _] => destruct b
    end;
    repeat match goal with A : (_, _) = (_, _) |- _ => inversion A; subst; clear A end;
    simpl in *;
    try (match goal with A : s_nodes _ = s_nodes _ |- _ => rewrite A; apply hmono_refl end);
    try assumption;
    try hmono_tac;
    try (eapply hmono_trans; [eassumption | hmono_tac]).
Qed.

(** Cleanup on the fresh resource of InvalidateAfter registers the handler *)
Lemma timer_reg_sets : forall s c n rest arg s1 st sp,
  step_top s (FTimerReg c n) rest arg = Some (s1, st, sp) -> n < length (s_nodes s) -> n_hrel (getn (s_nodes s1) n) <> None.
Proof.
  intros s c n rest arg s1 st sp H Ln. simpl in H. destruct (n_hrel (getN s n)); [discriminate|]. inversion H; subst; clear H. simpl.
  unfold g_handle_rel. destruct (n_rel (getn (s_nodes s) n)); simpl; rewrite getn_setn_eq by exact Ln; simpl; discriminate.
Qed.

(** ** the invariant *)
Definition not_running (fr : list frame) (m : nat) : Prop := forall f, In f fr -> runs f <> Some m.

Definition run_on (g : graph) (rrs : list rr) (fr : list frame) : Prop :=
  (forall f m, In f fr -> runs f = Some m -> m < length g /\ fresh3 (getn g m)) /\
  (forall child p, In (FCacheLink child p) fr -> not_running fr child) /\
  (forall r key child, In (key, child) (r_cache (nth r rrs drr)) -> not_running fr child) /\
  (forall c n, In (FTimerAdd c n) fr -> n_hrel (getn g n) <> None) /\
  (forall n, In (FOutAdd n) fr -> n_hrel (getn g n) <> None).

Definition run_inv (s : state) : Prop := run_on (s_nodes s) (s_rrs s) (all_frames s).

Lemma not_running_perm : forall a b m, Permutation a b -> not_running a m -> not_running b m.
Proof. intros a b m P H f Hf. apply H. eapply Permutation_in; [apply Permutation_sym; exact P | exact Hf]. Qed.

Lemma find_task_in_tasks : forall ts tid st, find_task ts tid = Some st -> In (tid, st) ts.
Proof.
  induction ts as [|[i x] t IH]; simpl; intros tid st H; [discriminate|].
  destruct (Nat.eqb i tid) eqn:E; [apply Nat.eqb_eq in E; inversion H; subst; left; reflexivity | right; apply IH; exact H].
Qed.

Lemma in_norm : forall st x, In x (norm st) -> In x st.
Proof.
  intros st x H. destruct (norm_split st) as [d [E _]]. rewrite E. apply in_app_iff. right. exact H.
Qed.

Lemma env_run : forall g g' rrs rrs' fr extra,
  run_on g rrs fr ->
  forall ex : nat -> Prop, same3 g g' ex -> (forall m, fresh3 (getn g m) -> ~ ex m) -> hmono g g' ->
  (forall r key child, In (key, child) (r_cache (nth r rrs' drr)) -> In (key, child) (r_cache (nth r rrs drr))) ->
  (forall x, In x extra -> runs x = None /\ (forall c p, x <> FCacheLink c p) /\ (forall c n, x <> FTimerAdd c n) /\
                           (forall n, x = FOutAdd n -> n_hrel (getn g' n) <> None)) ->
  run_on g' rrs' (fr ++ extra).
Proof.
  intros g g' rrs rrs' fr extra [R1 [R2 [R3 [R4 R5]]]] ex [Lg S3] Hex Hm Hc Hx.
  assert (NR : forall m, not_running fr m -> not_running (fr ++ extra) m).
  { intros m N f Hf. apply in_app_iff in Hf. destruct Hf as [Hf|Hf]; [apply N; exact Hf|]. destruct (Hx f Hf) as [Q _]. rewrite Q. discriminate. }
  split; [|split; [|split; [|split]]].
  - intros f m Hf Rn. apply in_app_iff in Hf. destruct Hf as [Hf|Hf]; [|destruct (Hx f Hf) as [Q _]; rewrite Q in Rn; discriminate].
    destruct (R1 f m Hf Rn) as [Lm [F1 [F2 F3]]]. split; [lia|].
    destruct (S3 m Lm (Hex m (conj F1 (conj F2 F3)))) as [A1 [A2 A3]]. unfold fresh3. rewrite A1, A2, A3. repeat split; assumption.
  - intros child p Hf. apply in_app_iff in Hf. destruct Hf as [Hf|Hf]; [apply NR; eapply R2; exact Hf|].
    destruct (Hx _ Hf) as [_ [Q _]]. exfalso. eapply Q. reflexivity.
  - intros r key child Hin. apply NR. eapply R3. apply Hc. exact Hin.
  - intros c n Hf. apply in_app_iff in Hf. destruct Hf as [Hf|Hf]; [apply Hm; eapply R4; exact Hf|].
    destruct (Hx _ Hf) as [_ [_ [Q _]]]. exfalso. eapply Q. reflexivity.
  - intros n Hf. apply in_app_iff in Hf. destruct Hf as [Hf|Hf]; [apply Hm; apply R5; exact Hf|].
    destruct (Hx _ Hf) as [_ [_ [_ Q]]]. apply Q. reflexivity.
Qed.

Lemma task_run : forall s tid arg s',
  tasks_ok s -> jtasks_ok s -> seg_inv s -> home_inv s -> closed_inv s -> run_inv s ->
  step s (LTask tid arg) = Some s' -> run_inv s'.
Proof.
  intros s tid arg s' Tk Jt Sg Hm Cl [R1 [R2 [R3 [R4 R5]]]] H.
  destruct (step_task_frames_ft _ _ _ _ H) as [f [rest [s1 [st [sp [others [dropped [F [P1 [T [D1 [D2 [P2 [N R]]]]]]]]]]]]]].
  assert (Hf : In (tid, f :: rest) (s_tasks s)) by (apply find_task_in_tasks; exact F).
  assert (Fin : In f (all_frames s)) by (eapply Permutation_in; [apply Permutation_sym; exact P1 | left; reflexivity]).
  assert (Old : forall x, In x (rest ++ others) -> In x (all_frames s)) by (intros x Hx; eapply Permutation_in; [apply Permutation_sym; exact P1 | right; exact Hx]).
  destruct Cl as [_ [ClS [ClF [_ [_ ClR]]]]].
  assert (Ln := step_top_len _ _ _ _ _ _ _ T).
  destruct (step_top_same3 _ _ _ _ _ _ _ T) as [_ S3].
  assert (Hmo := step_top_hmono _ _ _ _ _ _ _ T).
  (* every frame of the new state is an old one or a successor of f *)
  assert (NewOld : forall x, In x (all_frames s') -> In x (rest ++ others) \/ succ_ok s s1 f x).
  { intros x Hx. assert (Hx' := Permutation_in _ P2 Hx). rewrite !in_app_iff in Hx'.
    assert (Nw : In x (st ++ concat sp) -> In x (rest ++ others) \/ succ_ok s s1 f x).
    { intros Q. destruct (step_top_succ _ _ _ _ _ _ _ _ T Q) as [Q'|Q']; [left; apply in_app_iff; left; exact Q' | right; exact Q']. }
    destruct Hx' as [Q|[Q|Q]]; [apply Nw; apply in_app_iff; left; apply in_norm; exact Q | left; apply in_app_iff; right; exact Q | apply Nw; apply in_app_iff; right; exact Q]. }
  (* who was not worked for is not worked for *)
  assert (Stab : forall m, m < length (s_nodes s) -> not_running (all_frames s) m -> not_running (all_frames s') m).
  { intros m Lm NR x Hx Rn. destruct (NewOld x Hx) as [Q|[Q _]]; [exact (NR x (Old x Q) Rn)|].
    destruct (Q m Rn) as [Q1|[Q1 _]]; [exact (NR f Fin Q1) | lia]. }
  (* a node somebody works for is not the one the step marks *)
  assert (Untouched : forall x m, In x (all_frames s) -> runs x = Some m -> ~ touched f m).
  { intros x m Hx Rn Tc. destruct (R1 x m Hx Rn) as [Lm [F1 [F2 F3]]]. assert (Fo := ClF f Fin).
    destruct f; simpl in Tc; try contradiction; subst m; simpl in Fo.
    - destruct Fo as [_ [_ [_ Q]]]. apply Q. exact F2.
    - destruct Fo as [_ [_ [_ [Q _]]]]. apply Q. exact F3.
    - exact (R4 _ _ Fin F2).
    - exact (R2 _ _ Fin x Hx Rn).
    - exact (R5 _ Fin F2). }
  assert (KeepFresh : forall x m, In x (all_frames s) -> runs x = Some m -> m < length (s_nodes s1) /\ fresh3 (getn (s_nodes s1) m)).
  { intros x m Hx Rn. destruct (R1 x m Hx Rn) as [Lm [F1 [F2 F3]]]. split; [lia|].
    destruct (S3 m Lm (Untouched x m Hx Rn)) as [A1 [A2 A3]]. unfold fresh3. rewrite A1, A2, A3. repeat split; assumption. }
  (* the computation whose home is at the top of the stepping stack *)
  assert (HomeTop : forall m, is_home m f = true -> m < length (s_nodes s) -> not_running (all_frames s') m).
  { intros m Ih Lm. apply Stab; [exact Lm|]. intros x Hx. destruct (all_frames_in _ _ Hx) as [tid' [st' [Ht Hs]]].
    eapply (home_top_no_run s Tk Jt Sg Hm tid f rest m Hf Ih); eauto. }
  unfold run_inv, run_on. rewrite N, R.
  split; [|split; [|split; [|split]]].
  - intros x m Hx Rn. destruct (NewOld x Hx) as [Q|[Q _]]; [exact (KeepFresh x m (Old x Q) Rn)|].
    destruct (Q m Rn) as [Q1|[-> [Q2 Q3]]]; [exact (KeepFresh f m Fin Q1)|]. split; [exact Q2|]. rewrite Q3. repeat split.
  - intros child p Hx. destruct (NewOld _ Hx) as [Q|[_ [Q _]]].
    + assert (Lc : child < length (s_nodes s)) by (assert (Fo := ClF _ (Old _ Q)); simpl in Fo; apply Fo).
      apply Stab; [exact Lc | eapply R2; apply Old; exact Q].
    + destruct (Q child p eq_refl) as [[r [key E]]|[r [key [body [E Cg]]]]].
      * subst f. assert (Fo := ClF _ Fin). simpl in Fo. apply HomeTop; [simpl; unfold is_home; simpl; apply Nat.eqb_refl | apply Fo].
      * assert (Hc := cache_get_In _ _ _ Cg).
        assert (Lr : r < length (s_rrs s)).
        { destruct (Nat.lt_ge_cases r (length (s_rrs s))) as [L|L]; [exact L|]. unfold getr in Hc. rewrite nth_overflow in Hc by exact L. contradiction. }
        destruct (ClR r Lr) as [_ [Cc _]]. apply Stab; [eapply Cc; exact Hc | eapply R3; exact Hc].
  - intros r key child Hin. destruct (step_top_cache_in _ _ _ _ _ _ _ r key child T Hin) as [Q|[p E]].
    + assert (Lr : r < length (s_rrs s)).
      { destruct (Nat.lt_ge_cases r (length (s_rrs s))) as [L|L]; [exact L|]. unfold getr in Q. rewrite nth_overflow in Q by exact L. contradiction. }
      destruct (ClR r Lr) as [_ [Cc _]]. apply Stab; [eapply Cc; exact Q | eapply R3; exact Q].
    + subst f. assert (Fo := ClF _ Fin). simpl in Fo. apply HomeTop; [simpl; unfold is_home; simpl; apply Nat.eqb_refl | apply Fo].
  - intros c n Hx. destruct (NewOld _ Hx) as [Q|[_ [_ [Q _]]]]; [apply Hmo; eapply R4; apply Old; exact Q|].
    rewrite (Q c n eq_refl) in T, Fin. assert (Fo := ClF _ Fin). simpl in Fo.
    eapply timer_reg_sets; [exact T | apply Fo].
  - intros n Hx. destruct (NewOld _ Hx) as [Q|[_ [_ [_ Q]]]]; [apply Hmo; apply R5; apply Old; exact Q | exfalso; eapply Q; reflexivity].
Qed.

Ltac plain_extra :=
  intros x Hx; simpl in Hx; repeat (destruct Hx as [<-|Hx]); try contradiction;
  (split; [reflexivity | split; [intros; discriminate | split; [intros; discriminate | intros n0 E; try discriminate]]]).

Lemma step_run : forall s l s',
  tasks_ok s -> jtasks_ok s -> seg_inv s -> home_inv s -> closed_inv s -> run_inv s ->
  step s l = Some s' -> run_inv s'.
Proof.
  intros s l s' Tk Jt Sg Hm Cl Inv H. destruct l.
  - eapply task_run; eauto.
  - simpl in H. destruct (Nat.ltb slot (length (s_slots s))); [|discriminate]. inversion H; subst; clear H.
    unfold run_inv. rewrite frames_spawn. simpl.
    eapply (env_run (s_nodes s) _ (s_rrs s) _ (all_frames s)); [exact Inv | apply same3_refl | intros m _ Q; exact Q | apply hmono_refl | intros r key child Q; exact Q | plain_extra].
  - simpl in H. destruct (Nat.ltb slot (length (s_slots s))); [|discriminate]. inversion H; subst; clear H.
    unfold run_inv. rewrite frames_spawn. simpl.
    eapply (env_run (s_nodes s) _ (s_rrs s) _ (all_frames s)); [exact Inv | apply same3_alloc | intros m _ Q; exact Q | apply hmono_alloc | intros r key child Q; exact Q | plain_extra].
  - simpl in H. destruct (Nat.ltb r (length (s_rrs s))); [|discriminate]. inversion H; subst; clear H.
    unfold run_inv. rewrite frames_spawn. simpl.
    eapply (env_run (s_nodes s) _ (s_rrs s) _ (all_frames s)); [exact Inv | apply same3_refl | intros m _ Q; exact Q | apply hmono_refl | intros r0 key child Q; exact Q | plain_extra].
  - simpl in H. destruct (Nat.ltb r (length (s_rrs s))); [|discriminate].
    destruct (r_clock (getr s r)); [discriminate|]. inversion H; subst; clear H.
    unfold run_inv. simpl. rewrite <- (app_nil_r (all_frames _)).
    eapply (env_run (s_nodes s) _ (s_rrs s) _ (all_frames s)); [exact Inv | apply same3_refl | intros m _ Q; exact Q | apply hmono_refl | | intros x []].
    intros r0 key child Q. rewrite nth_setl in Q. destruct (Nat.eqb r r0 && Nat.ltb r (length (s_rrs s))); [contradiction | exact Q].
  - simpl in H. destruct (Nat.eqb (n_timer (getN s n)) 1) eqn:Tm; [|discriminate]. inversion H; subst; clear H.
    unfold run_inv. rewrite frames_spawn. simpl.
    eapply (env_run (s_nodes s) _ (s_rrs s) _ (all_frames s) _ Inv (fun m => m = n)); [apply same3_setn_ex; reflexivity | | apply hmono_setn; intros Q; exact Q | intros r0 key child Q; exact Q | plain_extra].
    intros m [_ [_ F3]] ->. apply Nat.eqb_eq in Tm. unfold getN in Tm. lia.
  - simpl in H. destruct (Nat.ltb slot (length (s_slots s))) eqn:Ls; [|discriminate]. inversion H; subst; clear H.
    unfold run_inv. rewrite frames_spawn. simpl.
    eapply (env_run (s_nodes s) _ (s_rrs s) _ (all_frames s)); [exact Inv | apply same3_refl | intros m _ Q; exact Q | apply hmono_refl | intros r0 key child Q; exact Q | plain_extra].
    inversion E; subst. destruct Cl as [_ [ClS _]]. apply Nat.ltb_lt in Ls. apply (ClS slot Ls).
  - simpl in H. destruct (Nat.ltb r (length (s_rrs s))); [|discriminate]. inversion H; subst; clear H.
    unfold run_inv. simpl. rewrite <- (app_nil_r (all_frames _)).
    eapply (env_run (s_nodes s) _ (s_rrs s) _ (all_frames s)); [exact Inv | apply same3_refl | intros m _ Q; exact Q | apply hmono_refl | | intros x []].
    intros r0 key child Q. rewrite nth_setl in Q. destruct (Nat.eqb r r0 && Nat.ltb r (length (s_rrs s))) eqn:E; [|exact Q].
    apply andb_true_iff in E. destruct E as [E _]. apply Nat.eqb_eq in E. subst. exact Q.
Qed.

Lemma init_run : forall k progs, run_inv (init k progs).
Proof.
  intros k progs. unfold run_inv, run_on, all_frames, init. simpl.
  assert (Fr : forall f, In f (concat (map snd (init_tasks (length progs) 0))) -> exists r, f = FRunWait r) by (intros f Hf; eapply init_tasks_frames; exact Hf).
  split; [|split; [|split; [|split]]].
  - intros f m Hf Rn. destruct (Fr f Hf) as [r ->]. discriminate.
  - intros child p Hf. destruct (Fr _ Hf) as [r Q]. discriminate.
  - intros r key child Hin. rewrite init_cache_nil in Hin. contradiction.
  - intros c n Hf. destruct (Fr _ Hf) as [r Q]. discriminate.
  - intros n Hf. destruct (Fr _ Hf) as [r Q]. discriminate.
Qed.

Lemma reachable_run : forall k progs s, progs_ok k progs -> reachable (init k progs) s -> run_inv s.
Proof.
  intros k progs s Pk R. induction R as [|s l s' R IH H]; [apply init_run|].
  eapply step_run; [eapply reachable_tasks_ok | eapply reachable_jtasks | eapply reachable_seg | eapply reachable_home
                   | eapply reachable_closed | exact IH | exact H]; eauto.
Qed.

(** A CACHE LOOKUP NEVER RETURNS THE COMPUTATION THAT PERFORMS IT: the hypothesis of the progress theorems is an
    invariant. *)
Lemma reachable_no_self_hit : forall k progs s, progs_ok k progs -> reachable (init k progs) s -> no_self_hit s.
Proof.
  intros k progs s Pk R r key body c Hf Cg. destruct (reachable_run _ _ _ Pk R) as [_ [_ [R3 _]]].
  apply cache_get_In in Cg. exact (R3 r key c Cg _ Hf eq_refl).
Qed.
