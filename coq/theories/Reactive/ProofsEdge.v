(** * Reactive/ProofsEdge.v — the Edge invariant of DESIGN.md A.3:
    [to ∈ out n ∧ inval n → inval to ∨ pending_inval to], for every reachable state of the model, and its
    instance at quiescence. *)
From Coq Require Import List Arith Bool Lia Permutation.
From Thunder Require Import Reactive.Graph Reactive.Rerunner Reactive.ProofsBase.
Import ListNotations.

(** a frame that will reach the critical section of [invalidate] on node [to] *)
Definition pend_frame (to : nat) (f : frame) : Prop :=
  match f with
  | FInvList l => In to l
  | FRelEnter n => n = to
  | _ => False
  end.

Definition pending (fr : list frame) (to : nat) : Prop := exists f, In f fr /\ pend_frame to f.

Definition edge_on (g : graph) (fr : list frame) : Prop :=
  (forall n to, In to (n_out (getn g n)) -> to < length g) /\
  (forall n to, In to (n_out (getn g n)) -> n_inv (getn g n) = true ->
     n_inv (getn g to) = true \/ pending fr to).

Definition edge_inv (s : state) : Prop := edge_on (s_nodes s) (all_frames s).

Lemma pending_incl : forall fr fr' to, (forall f, In f fr -> In f fr') -> pending fr to -> pending fr' to.
Proof. intros fr fr' to H [f [Hi Hp]]. exists f. split; [apply H; exact Hi | exact Hp]. Qed.

Lemma edge_on_frames : forall g fr fr',
  (forall to, pending fr to -> pending fr' to \/ n_inv (getn g to) = true) -> edge_on g fr -> edge_on g fr'.
Proof.
  intros g fr fr' H [C E]. split; [exact C|].
  intros n to Hin Hinv. destruct (E n to Hin Hinv) as [K|K]; [left; exact K|].
  destruct (H to K) as [K'|K']; [right; exact K' | left; exact K'].
Qed.

Lemma exhausted_no_pend : forall to f, exhausted f = true -> ~ pend_frame to f.
Proof.
  intros to f H P. destruct f; simpl in *; try discriminate; try contradiction.
  destruct l; [contradiction | discriminate].
Qed.

(** graphs that agree on [out] and [invalidated] *)
Definition same_oi (g g' : graph) : Prop :=
  forall n, n_out (getn g' n) = n_out (getn g n) /\ n_inv (getn g' n) = n_inv (getn g n).

Lemma same_oi_refl : forall g, same_oi g g.
Proof. intros g n. split; reflexivity. Qed.

Lemma same_oi_trans : forall a b c, same_oi a b -> same_oi b c -> same_oi a c.
Proof. intros a b c H1 H2 n. destruct (H1 n), (H2 n). split; congruence. Qed.

Lemma same_oi_setn : forall g i x,
  n_out x = n_out (getn g i) -> n_inv x = n_inv (getn g i) -> same_oi g (setn g i x).
Proof.
  intros g i x Ho Hi n. rewrite getn_setn.
  destruct (Nat.eqb i n && Nat.ltb i (length g)) eqn:E; [|split; reflexivity].
  apply andb_true_iff in E. destruct E as [E _]. apply Nat.eqb_eq in E. subst. split; assumption.
Qed.

Lemma same_oi_alloc : forall g x, n_out x = [] -> n_inv x = false -> same_oi g (g ++ [x]).
Proof.
  intros g x Ho Hi n. rewrite getn_app_new. destruct (Nat.eqb n (length g)) eqn:E; [|split; reflexivity].
  apply Nat.eqb_eq in E. subst. rewrite getn_out_of_range by lia. split; assumption.
Qed.

Lemma edge_on_same : forall g g' fr, same_oi g g' -> length g <= length g' -> edge_on g fr -> edge_on g' fr.
Proof.
  intros g g' fr S L [C E]. split.
  - intros n to Hin. destruct (S n) as [So _]. rewrite So in Hin. specialize (C n to Hin). lia.
  - intros n to Hin Hinv. destruct (S n) as [So Si]. rewrite So in Hin. rewrite Si in Hinv.
    destruct (E n to Hin Hinv) as [K|K]; [left | right; exact K]. destruct (S to) as [_ Si']. congruence.
Qed.

(** the graph primitives *)
Lemma g_add_out_spec : forall g n to g' linked shinv shrel,
  g_add_out g n to = (g', (linked, shinv, shrel)) -> n < length g -> to < length g -> n <> to ->
  length g' = length g /\
  (forall m, n_inv (getn g' m) = n_inv (getn g m)) /\
  (forall m, m <> n -> n_out (getn g' m) = n_out (getn g m)) /\
  (forall x, In x (n_out (getn g' n)) <-> In x (n_out (getn g n)) \/ (linked = true /\ x = to)) /\
  shinv = n_inv (getn g n) && negb (n_inv (getn g to)).
Proof.
  intros g n to g' linked shinv shrel H Ln Lt Nq. unfold g_add_out in H.
  destruct (negb (n_rel (getn g to))) eqn:Lk; inversion H; subst; clear H.
  - repeat split.
    + rewrite !length_setn. reflexivity.
    + intros m. rewrite !getn_setn, !length_setn.
      destruct (Nat.eqb to m && Nat.ltb to (length g)) eqn:E1.
      * apply andb_true_iff in E1. destruct E1 as [E1 _]. apply Nat.eqb_eq in E1. subst m.
        simpl. apply Nat.eqb_neq in Nq. rewrite Nq. reflexivity.
      * destruct (Nat.eqb n m && Nat.ltb n (length g)) eqn:E2; [|reflexivity].
        apply andb_true_iff in E2. destruct E2 as [E2 _]. apply Nat.eqb_eq in E2. subst m. reflexivity.
    + intros m Hm. rewrite !getn_setn, !length_setn.
      destruct (Nat.eqb to m && Nat.ltb to (length g)) eqn:E1.
      * apply andb_true_iff in E1. destruct E1 as [E1 _]. apply Nat.eqb_eq in E1. subst m.
        simpl. apply Nat.eqb_neq in Nq. rewrite Nq. reflexivity.
      * assert (E2 : Nat.eqb n m = false) by (apply Nat.eqb_neq; congruence). rewrite E2. reflexivity.
    + intros H. rewrite !getn_setn, !length_setn in H.
      assert (E1 : Nat.eqb to n = false) by (apply Nat.eqb_neq; congruence). rewrite E1 in H. simpl in H.
      rewrite Nat.eqb_refl in H. apply Nat.ltb_lt in Ln. rewrite Ln in H. simpl in H.
      apply In_add_set in H. tauto.
    + intros H. rewrite !getn_setn, !length_setn.
      assert (E1 : Nat.eqb to n = false) by (apply Nat.eqb_neq; congruence). rewrite E1. simpl.
      rewrite Nat.eqb_refl. apply Nat.ltb_lt in Ln. rewrite Ln. simpl.
      apply In_add_set. tauto.
  - repeat split.
    + rewrite !length_setn. reflexivity.
    + intros m. rewrite !getn_setn.
      destruct (Nat.eqb n m && Nat.ltb n (length g)) eqn:E2; [|reflexivity].
      apply andb_true_iff in E2. destruct E2 as [E2 _]. apply Nat.eqb_eq in E2. subst m. reflexivity.
    + intros m Hm. rewrite !getn_setn.
      assert (E2 : Nat.eqb n m = false) by (apply Nat.eqb_neq; congruence). rewrite E2. reflexivity.
    + intros H. rewrite getn_setn_eq in H by exact Ln. simpl in H. left. exact H.
    + intros [H|[H _]]; [|discriminate]. rewrite getn_setn_eq by exact Ln. exact H.
Qed.

Lemma unwind_keeps_pend : forall to r stk cs ks below term,
  unwind r stk = Some (cs, ks, below, term) -> forall f, In f stk -> pend_frame to f -> In f below.
Proof.
  intros to r stk cs ks below term H f Hin Hp.
  destruct (unwind_split _ _ _ _ _ _ H) as [d [l [E [F [L _]]]]]. subst stk.
  apply in_app_iff in Hin. destruct Hin as [Hin|[<-|Hin]]; [| |exact Hin].
  - rewrite forallb_forall in F. specialize (F f Hin). destruct f; simpl in *; try discriminate; contradiction.
  - destruct term; simpl in L; [subst l; contradiction | destruct L as [c ->]; contradiction].
Qed.

Lemma do_fail_edge : forall s r stk retry s1 st sp others,
  do_fail s r stk retry = Some (s1, st, sp) ->
  s_nodes s1 = s_nodes s /\
  (forall to, pending (stk ++ others) to -> pending (st ++ others ++ concat sp) to).
Proof.
  intros s r stk retry s1 st sp others H.
  destruct (do_fail_spec _ _ _ _ _ _ _ H) as [cs [ks [below [term [y [U [N [Sl [R [Y1 [Y2 [Y3 [Y4 [Y5 [Y6 [Y7 [Y8 T]]]]]]]]]]]]]]]]].
  split; [exact N|].
  assert (K : forall top to, pending (stk ++ others) to -> pending ((top :: below) ++ others) to).
  { intros top to [f [Hin Hp]]. exists f. split; [|exact Hp]. apply in_app_iff in Hin. simpl.
    destruct Hin as [Hin|Hin]; [right; apply in_app_iff; left; eapply unwind_keeps_pend; eauto | right; apply in_app_iff; right; exact Hin]. }
  intros to P. destruct term as [jid|].
  - destruct T as [-> _]. eapply pending_incl; [|apply (K (FBranchEnd jid)); exact P].
    intros f Hf. simpl in *. rewrite ?in_app_iff in *. tauto.
  - destruct T as [-> _]. eapply pending_incl; [|apply (K (FUnlock r)); exact P].
    intros f Hf. simpl in *. rewrite ?in_app_iff in *. tauto.
Qed.

Ltac same_oi_tac :=
  first
    [ apply same_oi_refl
    | apply same_oi_setn; reflexivity
    | apply same_oi_alloc; reflexivity
    | eapply same_oi_trans;
      [ | first [apply same_oi_setn; reflexivity | apply same_oi_alloc; reflexivity] ]; same_oi_tac ].

(* pending facts survive when the old rest of the stack and the other tasks are kept *)
Ltac keep_frames :=
  let to := fresh "to" in let g := fresh "g" in let Hin := fresh "Hin" in let Hp := fresh "Hp" in
  intros to [g [Hin Hp]]; left; exists g; split; [|exact Hp];
  simpl in Hin; destruct Hin as [Hin|Hin]; [subst g; simpl in Hp; try contradiction|];
  simpl; rewrite ?in_app_iff in *; simpl; tauto.

Lemma do_add_out_edge : forall s n to s1 sp fr,
  do_add_out s n to = Some (s1, sp) ->
  edge_on (s_nodes s) fr -> edge_on (s_nodes s1) (fr ++ concat sp) /\ length (s_nodes s1) = length (s_nodes s).
Proof.
  intros s n to s1 sp fr H [C E]. unfold do_add_out in H.
  destruct (Nat.ltb n (length (s_nodes s)) && Nat.ltb to (length (s_nodes s)) && negb (Nat.eqb n to)) eqn:G; [|discriminate].
  apply andb_true_iff in G. destruct G as [G Nq]. apply negb_true_iff in Nq. apply Nat.eqb_neq in Nq.
  apply andb_true_iff in G. destruct G as [G1 G2]. apply Nat.ltb_lt in G1. apply Nat.ltb_lt in G2.
  destruct (g_add_out (s_nodes s) n to) as [g [[linked shinv] shrel]] eqn:A.
  inversion H; subst; clear H. simpl.
  destruct (g_add_out_spec _ _ _ _ _ _ _ A G1 G2 Nq) as [L [I [O [On Sh]]]].
  split; [|exact L]. split.
  - intros m x Hin. rewrite L. destruct (Nat.eq_dec m n) as [->|Nm].
    + apply On in Hin. destruct Hin as [Hin|[_ ->]]; [eapply C; eauto | exact G2].
    + rewrite O in Hin by exact Nm. eapply C; eauto.
  - intros m x Hin Hinv. rewrite I in Hinv. rewrite I.
    assert (Old : In x (n_out (getn (s_nodes s) m)) -> n_inv (getn (s_nodes s) x) = true \/ pending (fr ++ concat ((if shinv then [[FInvList [to]]] else []) ++ (if shrel then [[FRelEnter n]] else []))) x).
    { intros Hi. destruct (E m x Hi Hinv) as [K|K]; [left; exact K | right].
      eapply pending_incl; [|exact K]. intros f Hf. apply in_app_iff. left. exact Hf. }
    destruct (Nat.eq_dec m n) as [->|Nm].
    + apply On in Hin. destruct Hin as [Hin|[_ ->]]; [apply Old; exact Hin|].
      destruct (n_inv (getn (s_nodes s) to)) eqn:It; [left; reflexivity|].
      right. assert (St : shinv = true) by (rewrite Sh, Hinv; reflexivity). rewrite St. simpl. exists (FInvList [to]). split; [|simpl; left; reflexivity].
      apply in_app_iff. right. simpl. left. reflexivity.
    + rewrite O in Hin by exact Nm. apply Old. exact Hin.
Qed.

(** the critical section of invalidate, shared by FInvList and FRelEnter *)
Lemma inv_step_edge : forall s n k s1 st sp others F0,
  inv_step s n k = Some (s1, st, sp) ->
  (forall to, pending F0 to -> to = n \/ pending (k ++ others) to) ->
  edge_on (s_nodes s) F0 ->
  edge_on (s_nodes s1) (st ++ others ++ concat sp).
Proof.
  intros s n k s1 st sp others F0 H HF Inv. unfold inv_step in H.
  destruct (Nat.ltb n (length (s_nodes s))) eqn:G2; [|discriminate]. apply Nat.ltb_lt in G2.
  destruct (n_inv (getN s n)) eqn:Ia.
  - inversion H; subst; clear H. eapply edge_on_frames; [|exact Inv].
    intros to P. destruct (HF to P) as [->|P']; [right; exact Ia|].
    left. eapply pending_incl; [|exact P']. intros f Hf. rewrite !in_app_iff in *. simpl. tauto.
  - assert (K : edge_on (g_inv_mark (s_nodes s) n) ((FInvList (n_out (getN s n)) :: k) ++ others)).
    { destruct Inv as [C E]. unfold g_inv_mark. split.
      - intros m to Hin. rewrite length_setn. rewrite getn_setn in Hin.
        destruct (Nat.eqb n m && Nat.ltb n (length (s_nodes s))) eqn:E1.
        + apply andb_true_iff in E1. destruct E1 as [E1 _]. apply Nat.eqb_eq in E1. subst m. simpl in Hin. eapply C; eauto.
        + eapply C; eauto.
      - intros m to Hin Hinv.
        assert (Mono : forall x, n_inv (getn (s_nodes s) x) = true -> n_inv (getn (setn (s_nodes s) n (set_inv (getn (s_nodes s) n))) x) = true).
        { intros x Hx. rewrite getn_setn. destruct (Nat.eqb n x && Nat.ltb n (length (s_nodes s))); [reflexivity | exact Hx]. }
        rewrite getn_setn in Hin, Hinv.
        destruct (Nat.eqb n m && Nat.ltb n (length (s_nodes s))) eqn:E1.
        + apply andb_true_iff in E1. destruct E1 as [E1 _]. apply Nat.eqb_eq in E1. subst m. simpl in Hin.
          right. exists (FInvList (n_out (getN s n))). split; [left; reflexivity | exact Hin].
        + destruct (E m to Hin Hinv) as [Q|Q]; [left; apply Mono; exact Q|].
          destruct (HF to Q) as [->|P'].
          * left. rewrite getn_setn_eq by exact G2. reflexivity.
          * right. eapply pending_incl; [|exact P']. intros f Hf. simpl. right. exact Hf. }
    destruct (n_hinv (getN s n)) as [r|].
    + destruct (r_spawn (getr s r)); inversion H; subst; clear H; simpl;
        (eapply edge_on_frames; [|exact K]); intros to P; left; (eapply pending_incl; [|exact P]);
        intros f; simpl; rewrite !in_app_iff; simpl; tauto.
    + inversion H; subst; clear H. simpl.
      eapply edge_on_frames; [|exact K]. intros to P. left. eapply pending_incl; [|exact P].
      intros f; simpl; rewrite !in_app_iff; simpl; tauto.
Qed.

(** ** one step of a task preserves the invariant *)
Lemma step_top_edge : forall s f rest arg s1 st sp others,
  step_top s f rest arg = Some (s1, st, sp) ->
  edge_on (s_nodes s) (f :: rest ++ others) ->
  edge_on (s_nodes s1) (st ++ others ++ concat sp).
Proof.
  intros s f rest arg s1 st sp others H Inv.
  unfold step_top in H.
  destruct f; cbv beta iota zeta in H.
  - (* FInvList: the critical section of invalidate *)
    destruct (memb arg l) eqn:G1; [|discriminate]. apply memb_In in G1.
    eapply inv_step_edge; [exact H | | exact Inv].
    intros to [g [Hin Hp]]. simpl in Hin. destruct Hin as [<-|Hin].
    + simpl in Hp. destruct (Nat.eq_dec to arg) as [->|Nq]; [left; reflexivity|].
      right. exists (FInvList (remove1 arg l)). split; [left; reflexivity | simpl; apply In_remove1_neq; assumption].
    + right. exists g. split; [|exact Hp]. simpl. right. exact Hin.
  - (* FStrobe *)
    inversion H; subst; clear H. eapply edge_on_frames; [|exact Inv]. keep_frames.
  - (* FRelEnter *)
    eapply inv_step_edge; [exact H | | exact Inv].
    intros to [g [Hin Hp]]. simpl in Hin. destruct Hin as [<-|Hin].
    + simpl in Hp. left. congruence.
    + right. exists g. split; [|exact Hp]. simpl. right. exact Hin.
  - (* FRelMark *)
    destruct (n_rel (getN s n)).
    + inversion H; subst; clear H. eapply edge_on_frames; [|exact Inv]. keep_frames.
    + assert (S1 : same_oi (s_nodes s) (g_rel_mark (s_nodes s) n)) by (unfold g_rel_mark; same_oi_tac).
      assert (L1 : length (s_nodes s) <= length (g_rel_mark (s_nodes s) n)) by (unfold g_rel_mark; rewrite length_setn; lia).
      destruct (n_hrel (getN s n)) as [[sl|]|]; inversion H; subst; clear H; simpl.
      * eapply edge_on_frames; [|eapply edge_on_same; [exact S1 | exact L1 | exact Inv]]. keep_frames.
      * eapply edge_on_frames; [|eapply edge_on_same; [|  | exact Inv]].
        -- keep_frames.
        -- eapply same_oi_trans; [exact S1|]. unfold getN. simpl. same_oi_tac.
        -- rewrite length_setn. exact L1.
      * eapply edge_on_frames; [|eapply edge_on_same; [exact S1 | exact L1 | exact Inv]]. keep_frames.
  - (* FCleanup *)
    destruct (Nat.eqb (slot_res (upd_node s n (inc_cln (getN s n))) slot) n).
    + unfold alloc in H. inversion H; subst; clear H. simpl.
      eapply edge_on_frames; [|eapply edge_on_same; [| | exact Inv]].
      * keep_frames.
      * unfold getN. same_oi_tac.
      * rewrite app_length, length_setn. lia.
    + inversion H; subst; clear H. simpl.
      eapply edge_on_frames; [|eapply edge_on_same; [| | exact Inv]].
      * keep_frames.
      * unfold getN. same_oi_tac.
      * rewrite length_setn. lia.
  - (* FRelDeps *)
    destruct froms as [|from l]; [discriminate|].
    assert (K : edge_on (fst (g_rel_dep (s_nodes s) from n)) (FRelDeps n (from :: l) :: rest ++ others)).
    { destruct Inv as [C E]. unfold g_rel_dep. simpl. split.
      - intros m to Hin. rewrite length_setn. rewrite getn_setn in Hin.
        destruct (Nat.eqb from m && Nat.ltb from (length (s_nodes s))) eqn:E1.
        + apply andb_true_iff in E1. destruct E1 as [E1 _]. apply Nat.eqb_eq in E1. subst m. simpl in Hin.
          apply In_remove_all in Hin. destruct Hin as [Hin _]. eapply C; eauto.
        + eapply C; eauto.
      - intros m to Hin Hinv.
        assert (Same : forall x, n_inv (getn (setn (s_nodes s) from (set_out (getn (s_nodes s) from) (remove_all n (n_out (getn (s_nodes s) from))))) x) = n_inv (getn (s_nodes s) x)).
        { intros x. rewrite getn_setn. destruct (Nat.eqb from x && Nat.ltb from (length (s_nodes s))) eqn:E2; [|reflexivity].
          apply andb_true_iff in E2. destruct E2 as [E2 _]. apply Nat.eqb_eq in E2. subst x. reflexivity. }
        rewrite Same in Hinv. rewrite Same.
        rewrite getn_setn in Hin.
        destruct (Nat.eqb from m && Nat.ltb from (length (s_nodes s))) eqn:E1.
        + apply andb_true_iff in E1. destruct E1 as [E1 _]. apply Nat.eqb_eq in E1. subst m. simpl in Hin.
          apply In_remove_all in Hin. destruct Hin as [Hin _]. apply (E from to); assumption.
        + apply (E m to); assumption. }
    destruct (g_rel_dep (s_nodes s) from n) as [g shrel] eqn:GR. simpl in K.
    destruct shrel; inversion H; subst; clear H; simpl; (eapply edge_on_frames; [|exact K]); keep_frames.
  - (* FRunWait *)
    destruct (Nat.eqb arg 0); [inversion H; subst; clear H; eapply edge_on_frames; [|exact Inv]; keep_frames|].
    destruct (r_cancel (getr s r)); [|discriminate].
    inversion H; subst; clear H; eapply edge_on_frames; [|exact Inv]; keep_frames.
  - (* FRunLock *)
    destruct (r_mu (getr s r)); [discriminate|].
    destruct (r_stop (getr s r)); inversion H; subst; clear H; simpl; (eapply edge_on_frames; [|exact Inv]); keep_frames.
  - (* FCleanStart *)
    destruct (Nat.eqb arg 1); [destruct (r_cancel (getr s r)); [|discriminate] | destruct (r_clock (getr s r)); [discriminate|]];
    inversion H; subst; clear H; simpl; (eapply edge_on_frames; [|exact Inv]); keep_frames.
  - (* FClean *)
    destruct ks as [|k ks'].
    + inversion H; subst; clear H; simpl; (eapply edge_on_frames; [|exact Inv]); keep_frames.
    + destruct (memb arg (k :: ks')); [|discriminate].
      destruct (n_inv (getN s arg)); inversion H; subst; clear H; simpl; (eapply edge_on_frames; [|exact Inv]); keep_frames.
  - (* FBegin *)
    unfold alloc in H. inversion H; subst; clear H. simpl.
    eapply edge_on_frames; [|eapply edge_on_same; [| | exact Inv]].
    + keep_frames.
    + same_oi_tac.
    + rewrite app_length. lia.
  - (* FScript *)
    destruct p as [|o q]; [discriminate|].
    destruct o.
    + inversion H; subst; clear H; simpl; (eapply edge_on_frames; [|exact Inv]); keep_frames.
    + destruct (Nat.eqb arg 0).
      * inversion H; subst; clear H; simpl; (eapply edge_on_frames; [|exact Inv]); keep_frames.
      * unfold alloc in H. inversion H; subst; clear H. simpl.
        eapply edge_on_frames; [|eapply edge_on_same; [| | exact Inv]].
        -- keep_frames.
        -- same_oi_tac.
        -- rewrite app_length. lia.
    + destruct (Nat.eqb arg 0).
      * destruct (memb key (r_keys (getr s r))); [discriminate|]. inversion H; subst; clear H; simpl;
          (eapply edge_on_frames; [|exact Inv]); keep_frames.
      * destruct (Nat.eqb arg 2); [inversion H; subst; clear H; simpl; (eapply edge_on_frames; [|exact Inv]); keep_frames|].
        destruct (r_cancel (getr s r)); [|discriminate].
        destruct (do_fail_edge _ _ _ _ _ _ _ others H) as [N P].
        rewrite N. eapply edge_on_frames; [|exact Inv].
        intros to [g [Hin Hp]]. left. apply P. exists g. split; [|exact Hp].
        simpl in Hin. destruct Hin as [<-|Hin]; [simpl in Hp; contradiction|]. simpl. right. exact Hin.
    + destruct (Nat.eqb arg 0).
      * inversion H; subst; clear H; simpl; (eapply edge_on_frames; [|exact Inv]); keep_frames.
      * destruct (do_fail_edge _ _ _ _ _ _ _ others H) as [N P].
        rewrite N. eapply edge_on_frames; [|exact Inv].
        intros to [g [Hin Hp]]. left. apply P. exists g. split; [|exact Hp].
        simpl in Hin. destruct Hin as [<-|Hin]; [simpl in Hp; contradiction|]. simpl. right. exact Hin.
    + destruct (Nat.eqb arg 0).
      * inversion H; subst; clear H; simpl; (eapply edge_on_frames; [|exact Inv]); keep_frames.
      * destruct (do_fail_edge _ _ _ _ _ _ _ others H) as [N P].
        rewrite N. eapply edge_on_frames; [|exact Inv].
        intros to [g [Hin Hp]]. left. apply P. exists g. split; [|exact Hp].
        simpl in Hin. destruct Hin as [<-|Hin]; [simpl in Hp; contradiction|]. simpl. right. exact Hin.
    + (* OPar *)
      inversion H; subst; clear H; simpl; (eapply edge_on_frames; [|exact Inv]); keep_frames.
  - (* FDepAdd *)
    destruct (do_add_out s res c) as [[s2 sp2]|] eqn:A; [|discriminate].
    inversion H; subst; clear H.
    destruct (do_add_out_edge _ _ _ _ _ _ A Inv) as [K _].
    eapply edge_on_frames; [|exact K]. keep_frames.
  - (* FDepRead *)
    inversion H; subst; clear H. simpl.
    eapply edge_on_frames; [|eapply edge_on_same; [| | exact Inv]].
    + keep_frames.
    + unfold getN. same_oi_tac.
    + rewrite length_setn. lia.
  - (* FTimerReg *)
    destruct (n_hrel (getN s res)); [discriminate|]. inversion H; subst; clear H. simpl.
    eapply edge_on_frames; [|eapply edge_on_same; [| | exact Inv]].
    + keep_frames.
    + unfold g_handle_rel. destruct (n_rel (getn (s_nodes s) res)); simpl; same_oi_tac.
    + unfold g_handle_rel. destruct (n_rel (getn (s_nodes s) res)); simpl; rewrite length_setn; lia.
  - (* FTimerAdd *)
    destruct (do_add_out s res c) as [[s2 sp2]|] eqn:A; [|discriminate].
    inversion H; subst; clear H.
    destruct (do_add_out_edge _ _ _ _ _ _ A Inv) as [K _].
    eapply edge_on_frames; [|exact K]. keep_frames.
  - (* FChildBegin *)
    unfold alloc in H. inversion H; subst; clear H. simpl.
    eapply edge_on_frames; [|eapply edge_on_same; [| | exact Inv]].
    + keep_frames.
    + same_oi_tac.
    + rewrite app_length. lia.
  - (* FCacheSet *)
    destruct (cache_get (r_cache (getr s r)) key); inversion H; subst; clear H; simpl;
      (eapply edge_on_frames; [|exact Inv]); keep_frames.
  - (* FCacheLink *)
    destruct (do_add_out s child parent) as [[s2 sp2]|] eqn:A; [|discriminate].
    inversion H; subst; clear H.
    destruct (do_add_out_edge _ _ _ _ _ _ A Inv) as [K _]. simpl.
    eapply edge_on_frames; [|eapply edge_on_same; [| | exact K]].
    + keep_frames.
    + unfold getN. same_oi_tac.
    + rewrite length_setn. lia.
  - (* FCacheGet *)
    destruct (cache_get (r_cache (getr s r)) key) as [child|]; [destruct (Nat.eqb child c); [discriminate|]|];
      inversion H; subst; clear H; simpl; (eapply edge_on_frames; [|exact Inv]); keep_frames.
  - (* FKeyUnlock *)
    inversion H; subst; clear H. simpl. eapply edge_on_frames; [|exact Inv]. keep_frames.
  - (* FJoin *)
    destruct (nth jid (s_joins s) (0, false)) as [nb failed]. destruct (Nat.eqb nb 0); [|discriminate].
    destruct failed.
    + destruct (do_fail_edge _ _ _ _ _ _ _ others H) as [N P].
      rewrite N. eapply edge_on_frames; [|exact Inv].
      intros to [g [Hin Hp]]. left. apply P. exists g. split; [|exact Hp].
      simpl in Hin. destruct Hin as [<-|Hin]; [simpl in Hp; contradiction | exact Hin].
    + inversion H; subst; clear H. eapply edge_on_frames; [|exact Inv]. keep_frames.
  - (* FBranchBegin *)
    inversion H; subst; clear H. eapply edge_on_frames; [|exact Inv]. keep_frames.
  - (* FBranchEnd *)
    destruct (nth jid (s_joins s) (0, false)) as [nb failed]. inversion H; subst; clear H. simpl.
    eapply edge_on_frames; [|exact Inv]. keep_frames.
  - (* FRunEnd *)
    inversion H; subst; clear H. simpl. eapply edge_on_frames; [|exact Inv]. keep_frames.
  - (* FArm *)
    destruct (negb (n_inv (getN s c)) && match n_hinv (getN s c) with Some _ => true | None => false end); [discriminate|].
    destruct (g_handle_inv (s_nodes s) c r) as [g fired] eqn:GH.
    inversion H; subst; clear H. simpl.
    unfold g_handle_inv in GH. destruct (n_inv (getn (s_nodes s) c)); inversion GH; subst; clear GH.
    + eapply edge_on_frames; [|exact Inv]. keep_frames.
    + eapply edge_on_frames; [|eapply edge_on_same; [| | exact Inv]].
      * keep_frames.
      * same_oi_tac.
      * rewrite length_setn. lia.
  - (* FUnlock *)
    inversion H; subst; clear H. simpl. eapply edge_on_frames; [|exact Inv]. keep_frames.
  - (* FStop *)
    destruct cancelled.
    + destruct (r_mu (getr s r)); [discriminate|].
      inversion H; subst; clear H. simpl. eapply edge_on_frames; [|exact Inv]. keep_frames.
    + inversion H; subst; clear H. simpl. eapply edge_on_frames; [|exact Inv]. keep_frames.
  - (* FOutAdd *)
    destruct (Nat.ltb n (length (s_nodes s))); [|discriminate]. unfold g_add_out_released in H.
    inversion H; subst; clear H. simpl.
    eapply edge_on_frames; [|eapply edge_on_same; [| | exact Inv]].
    + keep_frames.
    + same_oi_tac.
    + rewrite length_setn. lia.
  - (* FPhInv *)
    inversion H; subst; clear H. eapply edge_on_frames; [|exact Inv]. keep_frames.
Qed.

Lemma edge_on_perm : forall g fr fr', Permutation fr fr' -> edge_on g fr -> edge_on g fr'.
Proof.
  intros g fr fr' P. apply edge_on_frames. intros to Hp. left. eapply pending_incl; [|exact Hp].
  intros f Hf. eapply Permutation_in; eauto.
Qed.

Lemma pending_drop_exhausted : forall dropped st X to,
  forallb exhausted dropped = true -> pending ((dropped ++ st) ++ X) to -> pending (st ++ X) to.
Proof.
  intros dropped st X to D [f [Hin Hp]]. exists f. split; [|exact Hp].
  rewrite <- app_assoc in Hin. apply in_app_iff in Hin. destruct Hin as [Hin|Hin]; [|exact Hin].
  exfalso. rewrite forallb_forall in D. eapply exhausted_no_pend; [apply D; exact Hin | exact Hp].
Qed.

Lemma step_edge : forall s l s', edge_inv s -> step s l = Some s' -> edge_inv s'.
Proof.
  intros s l s' Inv H. unfold edge_inv in *. destruct l.
  - destruct (step_task_frames _ _ _ _ H) as [f [rest [s1 [st [sp [others [dropped [P1 [T [D1 [D2 [P2 [N _]]]]]]]]]]]]].
    rewrite N. eapply edge_on_perm; [apply Permutation_sym; exact P2|].
    assert (K := step_top_edge _ _ _ _ _ _ _ others T (edge_on_perm _ _ _ P1 Inv)).
    eapply edge_on_frames; [|exact K]. intros to Hp. left. rewrite D1 in Hp.
    eapply pending_drop_exhausted; eauto.
  - simpl in H. destruct (Nat.ltb slot (length (s_slots s))); [|discriminate]. inversion H; subst; clear H.
    rewrite frames_spawn. simpl. eapply edge_on_frames; [|exact Inv].
    intros to Hp. left. eapply pending_incl; [|exact Hp]. intros f Hf. apply in_app_iff. left. exact Hf.
  - simpl in H. destruct (Nat.ltb slot (length (s_slots s))); [|discriminate]. inversion H; subst; clear H.
    rewrite frames_spawn. simpl.
    eapply edge_on_frames; [|eapply edge_on_same; [| | exact Inv]].
    + intros to Hp. left. eapply pending_incl; [|exact Hp]. intros f Hf. apply in_app_iff. left. exact Hf.
    + same_oi_tac.
    + rewrite app_length. lia.
  - simpl in H. destruct (Nat.ltb r (length (s_rrs s))); [|discriminate]. inversion H; subst; clear H.
    rewrite frames_spawn. simpl. eapply edge_on_frames; [|exact Inv].
    intros to Hp. left. eapply pending_incl; [|exact Hp]. intros f Hf. apply in_app_iff. left. exact Hf.
  - simpl in H. destruct (Nat.ltb r (length (s_rrs s))); [|discriminate].
    destruct (r_clock (getr s r)); [discriminate|]. inversion H; subst; clear H. exact Inv.
  - simpl in H. destruct (Nat.eqb (n_timer (getN s n)) 1); [|discriminate]. inversion H; subst; clear H.
    rewrite frames_spawn. simpl.
    eapply edge_on_frames; [|eapply edge_on_same; [| | exact Inv]].
    + intros to Hp. left. eapply pending_incl; [|exact Hp]. intros f Hf. apply in_app_iff. left. exact Hf.
    + unfold getN. same_oi_tac.
    + rewrite length_setn. lia.
  - simpl in H. destruct (Nat.ltb slot (length (s_slots s))); [|discriminate]. inversion H; subst; clear H.
    rewrite frames_spawn. simpl. eapply edge_on_frames; [|exact Inv].
    intros to Hp. left. eapply pending_incl; [|exact Hp]. intros f Hf. apply in_app_iff. left. exact Hf.
  - simpl in H. destruct (Nat.ltb r (length (s_rrs s))); [|discriminate]. inversion H; subst; clear H. exact Inv.
Qed.

Lemma init_nodes_out : forall k j n, n_out (getn (init_nodes k j) n) = [].
Proof.
  induction k as [|k IH]; intros j n; simpl.
  - unfold getn. destruct n; reflexivity.
  - destruct n as [|n]; [reflexivity|]. apply (IH (S j) n).
Qed.

Lemma init_edge : forall k progs, edge_inv (init k progs).
Proof.
  intros k progs. unfold edge_inv, init. simpl. split.
  - intros n to Hin. rewrite init_nodes_out in Hin. contradiction.
  - intros n to Hin. rewrite init_nodes_out in Hin. contradiction.
Qed.

Lemma reachable_edge : forall k progs s, reachable (init k progs) s -> edge_inv s.
Proof.
  intros k progs s R. induction R as [|s l s' R IH H]; [apply init_edge | eapply step_edge; eauto].
Qed.

(** At quiescence invalidation has reached every dependant: no invalidation is lost in the graph. *)
Lemma quiescent_closed : forall k progs s,
  reachable (init k progs) s -> quiescent s ->
  forall n to, In to (n_out (getN s n)) -> n_inv (getN s n) = true -> n_inv (getN s to) = true.
Proof.
  intros k progs s R Q n to Hin Hinv. destruct (reachable_edge _ _ _ R) as [_ E].
  destruct (E n to Hin Hinv) as [K|[f [Hf _]]]; [exact K|].
  unfold all_frames in Hf. unfold quiescent in Q. rewrite Q in Hf. contradiction.
Qed.
