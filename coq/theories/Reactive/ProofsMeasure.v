(** * Reactive/ProofsMeasure.v — the work measure of Reactive/Measure.v strictly decreases on every task label
    except the expiry of a re-run interval, on which it grows by at most the cost of one run. *)
From Coq Require Import List Arith Bool Lia Permutation.
From Thunder Require Import Reactive.Graph Reactive.Rerunner Reactive.ProofsBase Reactive.ProofsMutex Reactive.Measure.
Import ListNotations.

(** ** sums *)
Lemma sumf_app : forall w a b, sumf w (a ++ b) = sumf w a + sumf w b.
Proof. induction a as [|h t IH]; intros b; simpl; [reflexivity | rewrite IH; lia]. Qed.

Lemma sumf_perm : forall w a b, Permutation a b -> sumf w a = sumf w b.
Proof. intros w a b P. induction P; simpl; lia. Qed.

Lemma sumf_le : forall w1 w2 d fr, (forall f, w1 f <= w2 f + (if is_strobe f then d else 0)) ->
  sumf w1 fr <= sumf w2 fr + d * count_strobes fr.
Proof.
  intros w1 w2 d fr H. induction fr as [|f t IH]; simpl; [lia|].
  specialize (H f). destruct (is_strobe f); lia.
Qed.

Lemma count_strobes_sumf : forall fr, count_strobes fr = sumf (fun f => if is_strobe f then 1 else 0) fr.
Proof. induction fr as [|f t IH]; simpl; [reflexivity | rewrite IH; reflexivity]. Qed.

Lemma sumf_exhausted : forall K pr d, forallb exhausted d = true -> sumf (fw K pr) d = 0.
Proof.
  intros K pr d. induction d as [|f t IH]; simpl; intros H; [reflexivity|].
  apply andb_true_iff in H. destruct H as [H1 H2]. rewrite (IH H2).
  destruct f; simpl in H1; try discriminate.
  - destruct l; [reflexivity | discriminate].
  - destruct froms; [reflexivity | discriminate].
  - destruct p; [simpl; lia | discriminate].
Qed.

Lemma sumf_zero_exhausted : forall w d, (forall f, exhausted f = true -> w f = 0) -> forallb exhausted d = true -> sumf w d = 0.
Proof.
  intros w d Hw. induction d as [|f t IH]; simpl; intros H; [reflexivity|].
  apply andb_true_iff in H. destruct H as [H1 H2]. rewrite (IH H2), (Hw f H1). reflexivity.
Qed.

Lemma sumf_rels : forall K pr cs, sumf (fw K pr) (concat (map (fun c => [FRelEnter c]) cs)) = 3 * length cs.
Proof. intros K pr cs. induction cs as [|h t IH]; simpl; [reflexivity | rewrite IH; lia]. Qed.

(** ** costs *)
Lemma op_cost_cache : forall key body, op_cost (OCache key body) = 15 + prog_cost body.
Proof.
  intros key body.
  assert (E : forall l, (fix go (l : list op) : nat := match l with [] => 0 | x :: t => op_cost x + go t end) l = prog_cost l)
    by (induction l as [|x t IH]; simpl; [reflexivity | rewrite IH; reflexivity]).
  simpl. rewrite E. reflexivity.
Qed.

Lemma op_cost_par : forall bs, op_cost (OPar bs) = 2 + branches_cost bs.
Proof.
  intros bs.
  assert (E : forall l, (fix go (l : list op) : nat := match l with [] => 0 | x :: t => op_cost x + go t end) l = prog_cost l)
    by (induction l as [|x t IH]; simpl; [reflexivity | rewrite IH; reflexivity]).
  assert (F : forall ll, (fix gob (ll : list (list op)) : nat :=
             match ll with
             | [] => 0
             | b :: t => 2 + (fix go (l : list op) : nat := match l with [] => 0 | x :: u => op_cost x + go u end) b + gob t
             end) ll = branches_cost ll)
    by (induction ll as [|b t IH]; [reflexivity | rewrite IH, E; reflexivity]).
  simpl. rewrite F. reflexivity.
Qed.

Lemma branch_tasks_weight : forall K pr jid r c bs i,
  sumf (fw K pr) (concat (branch_tasks jid r c bs i)) = K * branches_cost bs.
Proof.
  intros K pr jid r c bs. induction bs as [|b t IH]; intros i; simpl; [lia|]. rewrite IH. lia.
Qed.

(** ** node potential *)
Lemma np_dnode : np dnode = 0.
Proof. reflexivity. Qed.

Lemma np_sum_app : forall a b, np_sum (a ++ b) = np_sum a + np_sum b.
Proof. induction a as [|h t IH]; intros b; simpl; [reflexivity | rewrite IH; lia]. Qed.

Lemma np_setn_dec : forall g i x a, np x + a <= np (getn g i) -> np_sum (setn g i x) + a <= np_sum g.
Proof.
  unfold getn. induction g as [|h t IH]; intros i x a H.
  - simpl in *. destruct i; simpl in H; rewrite np_dnode in H; lia.
  - destruct i as [|i]; simpl in *; [lia|]. specialize (IH i x a H). lia.
Qed.

Lemma np_setn_inc : forall g i x a, np x <= np (getn g i) + a -> np_sum (setn g i x) <= np_sum g + a.
Proof.
  unfold getn. induction g as [|h t IH]; intros i x a H.
  - simpl. lia.
  - destruct i as [|i]; simpl in *; [lia|]. specialize (IH i x a H). lia.
Qed.

Lemma length_add_set : forall x l, length (add_set x l) <= length l + 1.
Proof. intros x l. unfold add_set. destruct (memb x l); [lia | rewrite app_length; simpl; lia]. Qed.

Lemma length_remove_all : forall x l, length (remove_all x l) <= length l.
Proof. induction l as [|h t IH]; simpl; [lia|]. destruct (Nat.eqb x h); simpl; lia. Qed.

Lemma length_remove1_in : forall x l, memb x l = true -> S (length (remove1 x l)) = length l.
Proof.
  induction l as [|h t IH]; simpl; intros H; [discriminate|].
  unfold memb in H. simpl in H. destruct (Nat.eqb x h) eqn:E; [reflexivity|]. simpl in H. simpl. rewrite IH; [reflexivity | exact H].
Qed.

(** sizes of out sets after an update *)
Definition outs_le (d : nat) (g g' : graph) : Prop :=
  forall m, length (n_out (getn g' m)) <= length (n_out (getn g m)) + d.

Lemma outs_le_refl : forall d g, outs_le d g g.
Proof. intros d g m. lia. Qed.

Lemma outs_le_trans : forall a b g1 g2 g3, outs_le a g1 g2 -> outs_le b g2 g3 -> outs_le (a + b) g1 g3.
Proof. intros a b g1 g2 g3 H1 H2 m. specialize (H1 m). specialize (H2 m). lia. Qed.

Lemma outs_le_setn : forall d g i x, length (n_out x) <= length (n_out (getn g i)) + d -> outs_le d g (setn g i x).
Proof.
  intros d g i x H m. rewrite getn_setn. destruct (Nat.eqb i m && Nat.ltb i (length g)) eqn:E; [|lia].
  apply andb_true_iff in E. destruct E as [E _]. apply Nat.eqb_eq in E. subst. exact H.
Qed.

Lemma outs_le_alloc : forall g x, n_out x = [] -> outs_le 0 g (g ++ [x]).
Proof.
  intros g x H m. rewrite getn_app_new. destruct (Nat.eqb m (length g)); [rewrite H; simpl; lia | lia].
Qed.

Lemma sw_outs_le : forall d g g' fr, outs_le d g g' -> sumf (sw g') fr <= sumf (sw g) fr + d * count_strobes fr.
Proof.
  intros d g g' fr H. apply sumf_le. intros f. destruct f; simpl; try lia. apply H.
Qed.

(** ** programs never change *)
Lemma prog_setl : forall rrs r0 y r,
  r_prog y = r_prog (nth r0 rrs drr) -> r_prog (nth r (setl rrs r0 y) drr) = r_prog (nth r rrs drr).
Proof.
  intros rrs r0 y r Hy. rewrite nth_setl.
  destruct (Nat.eqb r0 r && Nat.ltb r0 (length rrs)) eqn:E; [|reflexivity].
  apply andb_true_iff in E. destruct E as [E _]. apply Nat.eqb_eq in E. subst. exact Hy.
Qed.

Lemma do_fail_prog : forall s r stk b s1 st sp, do_fail s r stk b = Some (s1, st, sp) ->
  exists y, s_rrs s1 = setl (s_rrs s) r y /\ r_prog y = r_prog (getr s r).
Proof.
  intros s r stk b s1 st sp H.
  destruct (do_fail_spec _ _ _ _ _ _ _ H) as [cs [ks [below [term [y [U [N [Sl [R [Y1 [Y2 [Y3 [Y4 [Y5 _]]]]]]]]]]]]]].
  exists y. split; assumption.
Qed.

Lemma step_top_prog : forall s f rest arg s1 st sp r,
  step_top s f rest arg = Some (s1, st, sp) -> r_prog (getr s1 r) = r_prog (getr s r).
Proof.
  intros s f rest arg s1 st sp r H.
  unfold step_top, alloc in H. unfold getr in *.
  destruct f; cbv beta iota zeta in H; dmatch H;
    repeat match goal with
    | A : do_add_out _ _ _ = Some _ |- _ => apply do_add_out_rrs in A; destruct A as [A _]
    | A : inv_step _ _ _ = Some _ |- _ => apply inv_step_counts in A; destruct A as [A _]
    | A : do_fail _ _ _ _ = Some _ |- _ => apply do_fail_prog in A; destruct A as [? [A ?]]
    end;
    unfold getr, with_rr, with_nodes, upd_node, with_slot in *; simpl in *;
    try match goal with A : s_rrs _ = _ |- _ => rewrite A end;
    try reflexivity;
    apply prog_setl; try assumption; reflexivity.
Qed.

Lemma step_prog : forall s l s' r, step s l = Some s' -> r_prog (getr s' r) = r_prog (getr s r).
Proof.
  intros s l s' r H. destruct l.
  - destruct (step_task_frames _ _ _ _ H) as [f [rest [s1 [st [sp [others [dropped [_ [T [_ [_ [_ [_ [R _]]]]]]]]]]]]]].
    unfold getr. rewrite R. eapply step_top_prog; eauto.
  - simpl in H. destruct (Nat.ltb slot (length (s_slots s))); [|discriminate]. inversion H; subst; clear H. reflexivity.
  - simpl in H. destruct (Nat.ltb slot (length (s_slots s))); [|discriminate]. inversion H; subst; clear H. reflexivity.
  - simpl in H. destruct (Nat.ltb r0 (length (s_rrs s))); [|discriminate]. inversion H; subst; clear H. reflexivity.
  - simpl in H. destruct (Nat.ltb r0 (length (s_rrs s))); [|discriminate].
    destruct (r_clock (getr s r0)); [discriminate|]. inversion H; subst; clear H.
    unfold getr, with_rr. simpl. apply prog_setl. reflexivity.
  - simpl in H. destruct (Nat.eqb (n_timer (getN s n)) 1); [|discriminate]. inversion H; subst; clear H. reflexivity.
  - simpl in H. destruct (Nat.ltb slot (length (s_slots s))); [|discriminate]. inversion H; subst; clear H. reflexivity.
  - simpl in H. destruct (Nat.ltb r0 (length (s_rrs s))); [|discriminate]. inversion H; subst; clear H.
    unfold getr, with_rr. simpl. apply prog_setl. reflexivity.
Qed.

(** ** the sub-operations *)
Section Weights.
Variable K K0 : nat.
Hypothesis HK : K0 < K.
Variable pr : nat -> list op.
Notation W := (fw K pr).

Ltac np_tac :=
  unfold np; simpl;
  repeat match goal with |- context [if ?b then _ else _] => destruct b end;
  repeat match goal with |- context [match ?b with Some _ => _ | None => _ end] => destruct b end;
  simpl; rewrite ?app_length; simpl; try lia.

Lemma inv_step_mu : forall s n k s1 st sp,
  inv_step s n k = Some (s1, st, sp) ->
  sumf W st + sumf W (concat sp) + np_sum (s_nodes s1) <= sumf W k + np_sum (s_nodes s) /\
  outs_le 0 (s_nodes s) (s_nodes s1).
Proof.
  intros s n k s1 st sp H. unfold inv_step in H.
  destruct (Nat.ltb n (length (s_nodes s))); [|discriminate].
  destruct (n_inv (getN s n)) eqn:I.
  - inversion H; subst; clear H. simpl. split; [lia | apply outs_le_refl].
  - assert (D : forall h, h = (match n_hinv (getN s n) with Some _ => 1 | None => 0 end) ->
                np_sum (g_inv_mark (s_nodes s) n) + (length (n_out (getN s n)) + h) <= np_sum (s_nodes s)).
    { intros h ->. unfold g_inv_mark. apply np_setn_dec. unfold getN in *. unfold np. simpl. rewrite I.
      destruct (n_rel (getn (s_nodes s) n)); lia. }
    assert (O : outs_le 0 (s_nodes s) (g_inv_mark (s_nodes s) n)).
    { unfold g_inv_mark. apply outs_le_setn. simpl. lia. }
    destruct (n_hinv (getN s n)) as [r|]; [destruct (r_spawn (getr s r))|]; inversion H; subst; clear H; simpl;
      (split; [|exact O]); specialize (D _ eq_refl); lia.
Qed.

Lemma do_add_out_mu : forall s n to s1 sp,
  do_add_out s n to = Some (s1, sp) ->
  sumf W (concat sp) + np_sum (s_nodes s1) <= np_sum (s_nodes s) + 9 /\
  outs_le 1 (s_nodes s) (s_nodes s1) /\ s_rrs s1 = s_rrs s.
Proof.
  intros s n to s1 sp H. unfold do_add_out in H.
  destruct (Nat.ltb n (length (s_nodes s)) && Nat.ltb to (length (s_nodes s)) && negb (Nat.eqb n to)); [|discriminate].
  destruct (g_add_out (s_nodes s) n to) as [g [[linked shinv] shrel]] eqn:A.
  inversion H; subst; clear H. simpl. unfold g_add_out in A.
  set (g0 := s_nodes s) in *.
  assert (F : sumf W (concat ((if shinv then [[FInvList [to]]] else []) ++ (if shrel then [[FRelEnter n]] else []))) <= 4)
    by (destruct shinv; destruct shrel; simpl; lia).
  destruct (negb (n_rel (getn g0 to))); inversion A; subst; clear A.
  - set (g1 := setn g0 n (set_out_had (getn g0 n) (add_set to (n_out (getn g0 n))))) in *.
    assert (N1 : np_sum g1 <= np_sum g0 + 1).
    { apply np_setn_inc. assert (L := length_add_set to (n_out (getn g0 n))). np_tac. }
    assert (N2 : np_sum (setn g1 to (add_in (getn g1 to) n)) <= np_sum g1 + 4) by (apply np_setn_inc; np_tac).
    assert (O1 : outs_le 1 g0 g1) by (apply outs_le_setn; simpl; apply length_add_set).
    assert (O2 : outs_le 0 g1 (setn g1 to (add_in (getn g1 to) n))) by (apply outs_le_setn; simpl; lia).
    split; [lia|]. split; [|reflexivity]. exact (outs_le_trans 1 0 _ _ _ O1 O2).
  - assert (N1 : np_sum (setn g0 n (set_out_had (getn g0 n) (n_out (getn g0 n)))) <= np_sum g0 + 0) by (apply np_setn_inc; np_tac).
    split; [lia|]. split; [|reflexivity]. apply outs_le_setn. simpl. lia.
Qed.

Lemma unwind_mu : forall r stk cs ks below term,
  unwind r stk = Some (cs, ks, below, term) ->
  sumf W below + 3 * length cs + (match term with None => K * 1 + 1 | Some _ => K * 1 end) <= sumf W stk.
Proof.
  induction stk as [|h t IH]; simpl; intros cs ks below term H; [discriminate|].
  destruct h; try discriminate.
  - destruct (Nat.eqb r r0); [|discriminate]. specialize (IH _ _ _ _ H). simpl. lia.
  - destruct (Nat.eqb r r0); [|discriminate]. destruct (unwind r t) as [[[[cs' ks'] b'] t']|] eqn:U; [|discriminate].
    inversion H; subst; clear H. specialize (IH _ _ _ _ eq_refl). simpl. lia.
  - destruct (Nat.eqb r r0); [|discriminate]. destruct (unwind r t) as [[[[cs' ks'] b'] t']|] eqn:U; [|discriminate].
    inversion H; subst; clear H. specialize (IH _ _ _ _ eq_refl). simpl. lia.
  - inversion H; subst; clear H. simpl. lia.
  - destruct (Nat.eqb r r0); [|discriminate]. inversion H; subst; clear H. simpl. unfold u_runend. lia.
Qed.

Lemma do_fail_mu : forall s r stk retry s1 st sp,
  do_fail s r stk retry = Some (s1, st, sp) ->
  sumf W st + sumf W (concat sp) <= sumf W stk /\ s_nodes s1 = s_nodes s.
Proof.
  intros s r stk retry s1 st sp H. unfold do_fail in H.
  destruct (unwind r stk) as [[[[cs ks] below] term]|] eqn:U; [|discriminate].
  assert (M := unwind_mu _ _ _ _ _ _ U).
  destruct term as [jid|].
  - inversion H; subst; clear H. simpl. rewrite sumf_rels. split; [lia | reflexivity].
  - destruct retry; inversion H; subst; clear H; simpl; rewrite ?concat_app, ?sumf_app, sumf_rels; simpl; (split; [lia | reflexivity]).
Qed.

End Weights.

Definition d_of (f : frame) : nat :=
  match f with FDepAdd _ _ _ | FTimerAdd _ _ | FCacheLink _ _ => 1 | _ => 0 end.
Definition wakes (f : frame) (arg : nat) : bool :=
  match f with FRunWait _ => Nat.eqb arg 0 | _ => false end.

Lemma np_new_res : forall h t, np (new_res h t) = 0.
Proof. reflexivity. Qed.

Section Step.
Variable K K0 : nat.
Hypothesis HK : K0 < K.
Variable pr : nat -> list op.
Notation W := (fw K pr).

Ltac np_tac :=
  unfold np; simpl;
  repeat match goal with |- context [if ?b then _ else _] => destruct b end;
  repeat match goal with |- context [match ?b with Some _ => _ | None => _ end] => destruct b end;
  simpl; rewrite ?app_length; simpl; try lia.

Ltac fin := unfold getN in *; cbn [sumf fw app concat d_of sw length]; rewrite ?sumf_app; cbn [sumf fw app concat d_of sw length];
  unfold u_runlock, u_cleanstart, u_begin, u_runend; lia.

Ltac same_nodes := split; [fin | apply outs_le_refl].

Lemma step_top_mu : forall s f rest arg s1 st sp,
  (forall r, pr r = r_prog (getr s r)) ->
  step_top s f rest arg = Some (s1, st, sp) -> cache_bounded s -> wakes f arg = false ->
  sumf W st + sumf W (concat sp) + np_sum (s_nodes s1) + 1 + d_of f * K0 <=
    W f + sw (s_nodes s) f + sumf W rest + np_sum (s_nodes s) /\
  outs_le (d_of f) (s_nodes s) (s_nodes s1).
Proof.
  intros s f rest arg s1 st sp Hpr H Cb Wk.
  unfold step_top, alloc in H.
  destruct f; cbv beta iota zeta in H.
  - (* FInvList *)
    destruct (memb arg l) eqn:M; [|discriminate].
    destruct (inv_step_mu K K0 HK pr _ _ _ _ _ _ H) as [A B]. assert (L := length_remove1_in _ _ M).
    split; [revert A; fin | exact B].
  - (* FStrobe *)
    inversion H; subst; clear H. same_nodes.
  - (* FRelEnter *)
    destruct (inv_step_mu K K0 HK pr _ _ _ _ _ _ H) as [A B]. split; [revert A; fin | exact B].
  - (* FRelMark *)
    destruct (n_rel (getN s n)) eqn:R; [inversion H; subst; clear H; same_nodes|].
    assert (D : np_sum (g_rel_mark (s_nodes s) n) + 4 * length (n_ins (getN s n)) <= np_sum (s_nodes s)).
    { unfold g_rel_mark. apply np_setn_dec. unfold getN in *. unfold np. simpl. rewrite R.
      destruct (n_inv (getn (s_nodes s) n)); lia. }
    assert (O : outs_le 0 (s_nodes s) (g_rel_mark (s_nodes s) n)) by (unfold g_rel_mark; apply outs_le_setn; simpl; lia).
    destruct (n_hrel (getN s n)) as [[sl|]|]; inversion H; subst; clear H; simpl s_nodes.
    + split; [revert D; fin | exact O].
    + set (g1 := g_rel_mark (s_nodes s) n) in *.
      assert (N2 : np_sum (setn g1 n (inc_cln (getn g1 n))) <= np_sum g1 + 0) by (apply np_setn_inc; np_tac).
      split; [revert D N2; unfold getN; simpl s_nodes; fold g1; fin|].
      apply (outs_le_trans 0 0 _ _ _ O). apply outs_le_setn. unfold getN. simpl. lia.
    + split; [revert D; fin | exact O].
  - (* FCleanup *)
    set (g1 := setn (s_nodes s) n (inc_cln (getN s n))) in *.
    assert (N1 : np_sum g1 <= np_sum (s_nodes s) + 0) by (apply np_setn_inc; unfold getN; np_tac).
    assert (O1 : outs_le 0 (s_nodes s) g1) by (apply outs_le_setn; simpl; unfold getN; lia).
    destruct (Nat.eqb (slot_res (upd_node s n (inc_cln (getN s n))) slot) n); inversion H; subst; clear H; simpl s_nodes; fold g1.
    + rewrite np_sum_app. cbn [np_sum]. rewrite np_new_res. split; [revert N1; fin|].
      apply (outs_le_trans 0 0 _ _ _ O1). apply outs_le_alloc. reflexivity.
    + split; [revert N1; fin | exact O1].
  - (* FRelDeps *)
    destruct froms as [|from l]; [discriminate|].
    destruct (g_rel_dep (s_nodes s) from n) as [g' shrel] eqn:E. unfold g_rel_dep in E. inversion E; subst g'; clear E.
    assert (Lr := length_remove_all n (n_out (getn (s_nodes s) from))).
    assert (N1 : np_sum (setn (s_nodes s) from (set_out (getn (s_nodes s) from) (remove_all n (n_out (getn (s_nodes s) from))))) <= np_sum (s_nodes s) + 0)
      by (apply np_setn_inc; np_tac).
    assert (O1 : outs_le 0 (s_nodes s) (setn (s_nodes s) from (set_out (getn (s_nodes s) from) (remove_all n (n_out (getn (s_nodes s) from))))))
      by (apply outs_le_setn; simpl; lia).
    destruct shrel; inversion H; subst; clear H; simpl s_nodes; (split; [revert N1; fin | exact O1]).
  - (* FRunWait *)
    simpl in Wk. rewrite Wk in H. destruct (r_cancel (getr s r)); [|discriminate]. inversion H; subst; clear H. same_nodes.
  - (* FRunLock *)
    destruct (r_mu (getr s r)); [discriminate|].
    destruct (r_stop (getr s r)); inversion H; subst; clear H; simpl s_nodes; (split; [fin | apply outs_le_refl]).
  - (* FCleanStart *)
    destruct (Nat.eqb arg 1).
    { destruct (r_cancel (getr s r)); [|discriminate]. inversion H; subst; clear H. simpl s_nodes.
      split; [fin | apply outs_le_refl]. }
    destruct (r_clock (getr s r)); [discriminate|]. inversion H; subst; clear H. simpl s_nodes.
    split; [|apply outs_le_refl].
    assert (Q := Cb r). rewrite <- Hpr in Q. rewrite <- (map_length snd) in Q.
    assert (Q2 := Nat.mul_le_mono_l _ _ K Q). unfold u_cleanstart. revert Q2. fin.
  - (* FClean *)
    destruct ks as [|k0 ks'].
    + inversion H; subst; clear H. simpl s_nodes. split; [fin | apply outs_le_refl].
    + remember (k0 :: ks') as kk eqn:Ek. destruct (memb arg kk) eqn:M; [|discriminate]. assert (L := length_remove1_in _ _ M).
      destruct (n_inv (getN s arg)); inversion H; clear H; simpl s_nodes;
        (split; [cbn [sumf fw app concat d_of sw]; rewrite <- L; lia | apply outs_le_refl]).
  - (* FBegin *)
    inversion H; subst; clear H. simpl s_nodes. rewrite np_sum_app. simpl np_sum. 
    split; [|apply outs_le_alloc; reflexivity].
    cbn [sumf fw app concat d_of sw]. rewrite Hpr. unfold u_begin, u_runend, getr. simpl s_rrs. lia.
  - (* FScript *)
    destruct p as [|o q]; [discriminate|]. cbn [fw prog_cost].
    destruct o.
    + inversion H; subst; clear H. cbn [op_cost]. same_nodes.
    + cbn [op_cost]. destruct (Nat.eqb arg 0); inversion H; subst; clear H; simpl s_nodes.
      * same_nodes.
      * rewrite np_sum_app. simpl np_sum. split; [fin | apply outs_le_alloc; reflexivity].
    + rewrite op_cost_cache. destruct (Nat.eqb arg 0).
      * destruct (memb key (r_keys (getr s r))); [discriminate|]. inversion H; subst; clear H. simpl s_nodes. same_nodes.
      * destruct (Nat.eqb arg 2); [inversion H; subst; clear H; same_nodes|].
        destruct (r_cancel (getr s r)); [|discriminate].
        destruct (do_fail_mu K K0 HK pr _ _ _ _ _ _ _ H) as [A B]. rewrite B. split; [revert A; fin | apply outs_le_refl].
    + cbn [op_cost]. destruct (Nat.eqb arg 0); [inversion H; subst; clear H; same_nodes|].
      destruct (do_fail_mu K K0 HK pr _ _ _ _ _ _ _ H) as [A B]. rewrite B. split; [revert A; fin | apply outs_le_refl].
    + cbn [op_cost]. destruct (Nat.eqb arg 0); [inversion H; subst; clear H; same_nodes|].
      destruct (do_fail_mu K K0 HK pr _ _ _ _ _ _ _ H) as [A B]. rewrite B. split; [revert A; fin | apply outs_le_refl].
    + rewrite op_cost_par. inversion H; subst; clear H. simpl s_nodes. rewrite branch_tasks_weight. same_nodes.
  - (* FDepAdd *)
    destruct (do_add_out s res c) as [[s2 sp2]|] eqn:A; [|discriminate]. inversion H; subst; clear H.
    destruct (do_add_out_mu K K0 HK pr _ _ _ _ _ A) as [A1 [A2 _]]. split; [revert A1; fin | exact A2].
  - (* FDepRead *)
    inversion H; subst; clear H. simpl s_nodes.
    assert (N1 : np_sum (setn (s_nodes s) c (add_val (getN s c) [(slot, slot_ver s slot)])) <= np_sum (s_nodes s) + 0)
      by (apply np_setn_inc; unfold getN; np_tac).
    split; [revert N1; fin | apply outs_le_setn; simpl; unfold getN; lia].
  - (* FTimerReg *)
    destruct (n_hrel (getN s res)); [discriminate|]. inversion H; subst; clear H. simpl s_nodes.
    unfold g_handle_rel.
    destruct (n_rel (getn (s_nodes s) res)); simpl fst.
    + assert (N1 : np_sum (setn (s_nodes s) res (inc_cln (set_hrel (getn (s_nodes s) res) HTimer))) <= np_sum (s_nodes s) + 0)
        by (apply np_setn_inc; np_tac).
      split; [revert N1; fin | apply outs_le_setn; simpl; lia].
    + assert (N1 : np_sum (setn (s_nodes s) res (set_hrel (getn (s_nodes s) res) HTimer)) <= np_sum (s_nodes s) + 0)
        by (apply np_setn_inc; np_tac).
      split; [revert N1; fin | apply outs_le_setn; simpl; lia].
  - (* FTimerAdd *)
    destruct (do_add_out s res c) as [[s2 sp2]|] eqn:A; [|discriminate]. inversion H; subst; clear H.
    destruct (do_add_out_mu K K0 HK pr _ _ _ _ _ A) as [A1 [A2 _]]. split; [revert A1; fin | exact A2].
  - (* FChildBegin *)
    inversion H; subst; clear H. simpl s_nodes. rewrite np_sum_app. simpl np_sum.
    split; [fin | apply outs_le_alloc; reflexivity].
  - (* FCacheSet *)
    destruct (cache_get (r_cache (getr s r)) key); inversion H; subst; clear H; simpl s_nodes; same_nodes.
  - (* FCacheLink *)
    destruct (do_add_out s child parent) as [[s2 sp2]|] eqn:A; [|discriminate]. inversion H; subst; clear H.
    destruct (do_add_out_mu K K0 HK pr _ _ _ _ _ A) as [A1 [A2 _]]. simpl s_nodes.
    assert (N1 : np_sum (setn (s_nodes s2) parent (add_val (getN s2 parent) (n_val (getN s2 child)))) <= np_sum (s_nodes s2) + 0)
      by (apply np_setn_inc; unfold getN; np_tac).
    split; [revert A1 N1; fin|].
    apply (outs_le_trans 1 0 _ _ _ A2). apply outs_le_setn. simpl. unfold getN. lia.
  - (* FCacheGet *)
    destruct (cache_get (r_cache (getr s r)) key) as [child|].
    + destruct (Nat.eqb child c); [discriminate|]. inversion H; subst; clear H. same_nodes.
    + inversion H; subst; clear H. same_nodes.
  - (* FKeyUnlock *)
    inversion H; subst; clear H. simpl s_nodes. same_nodes.
  - (* FJoin *)
    destruct (nth jid (s_joins s) (0, false)) as [nb failed]. destruct (Nat.eqb nb 0); [|discriminate].
    destruct failed.
    + destruct (do_fail_mu K K0 HK pr _ _ _ _ _ _ _ H) as [A B]. rewrite B. split; [revert A; fin | apply outs_le_refl].
    + inversion H; subst; clear H. same_nodes.
  - (* FBranchBegin *)
    inversion H; subst; clear H. same_nodes.
  - (* FBranchEnd *)
    destruct (nth jid (s_joins s) (0, false)) as [nb failed]. inversion H; subst; clear H. simpl s_nodes. same_nodes.
  - (* FRunEnd *)
    destruct (r_comp (getr s r)); inversion H; subst; clear H; simpl s_nodes; (split; [unfold u_runend; fin | apply outs_le_refl]).
  - (* FArm *)
    destruct (negb (n_inv (getN s c)) && match n_hinv (getN s c) with Some _ => true | None => false end); [discriminate|].
    destruct (g_handle_inv (s_nodes s) c r) as [g' fired] eqn:E. unfold g_handle_inv in E.
    destruct (n_inv (getn (s_nodes s) c)); inversion E; subst; clear E; inversion H; subst; clear H; simpl s_nodes.
    + same_nodes.
    + assert (N1 : np_sum (setn (s_nodes s) c (set_hinv (getn (s_nodes s) c) r)) <= np_sum (s_nodes s) + 1)
        by (apply np_setn_inc; np_tac).
      split; [revert N1; fin | apply outs_le_setn; simpl; lia].
  - (* FUnlock *)
    inversion H; subst; clear H. simpl s_nodes. same_nodes.
  - (* FStop *)
    destruct cancelled.
    + destruct (r_mu (getr s r)); [discriminate|]. destruct (r_comp (getr s r)); inversion H; subst; clear H; simpl s_nodes; same_nodes.
    + inversion H; subst; clear H. simpl s_nodes. same_nodes.
  - (* FOutAdd *)
    destruct (Nat.ltb n (length (s_nodes s))); [|discriminate].
    destruct (g_add_out_released (s_nodes s) n) as [g' [shinv shrel]] eqn:E. unfold g_add_out_released in E.
    inversion E; subst; clear E. inversion H; subst; clear H. simpl s_nodes.
    assert (N1 : np_sum (setn (s_nodes s) n (set_out_had (getn (s_nodes s) n) (n_out (getn (s_nodes s) n)))) <= np_sum (s_nodes s) + 0)
      by (apply np_setn_inc; np_tac).
    split; [|apply outs_le_setn; simpl; lia].
    destruct (n_inv (getn (s_nodes s) n)); destruct (is_nil (n_out (getn (s_nodes s) n))); revert N1; fin.
  - (* FPhInv *)
    inversion H; subst; clear H. same_nodes.
Qed.

End Step.

(** ** pending strobes are neither created nor duplicated by a task step *)
Section Strobes.
Variable w : frame -> nat.
Hypothesis Hw : forall f, is_strobe f = false -> w f = 0.

Lemma inv_step_sw : forall s n k s1 st sp,
  inv_step s n k = Some (s1, st, sp) -> sumf w (st ++ concat sp) = sumf w k.
Proof.
  intros s n k s1 st sp H. unfold inv_step in H.
  destruct (Nat.ltb n (length (s_nodes s))); [|discriminate].
  destruct (n_inv (getN s n)); [inversion H; subst; simpl; rewrite app_nil_r; reflexivity|].
  destruct (n_hinv (getN s n)) as [r|]; [destruct (r_spawn (getr s r))|]; inversion H; subst; clear H;
    simpl; rewrite ?sumf_app; simpl; rewrite ?Hw by reflexivity; lia.
Qed.

Lemma do_add_out_sw : forall s n to s1 sp, do_add_out s n to = Some (s1, sp) -> sumf w (concat sp) = 0.
Proof.
  intros s n to s1 sp H. unfold do_add_out in H.
  destruct (Nat.ltb n (length (s_nodes s)) && Nat.ltb to (length (s_nodes s)) && negb (Nat.eqb n to)); [|discriminate].
  destruct (g_add_out (s_nodes s) n to) as [g [[a b] c]]. inversion H; subst; clear H.
  destruct b; destruct c; simpl; rewrite ?Hw by reflexivity; reflexivity.
Qed.

Lemma rels_sw : forall cs, sumf w (concat (map (fun c => [FRelEnter c]) cs)) = 0.
Proof. induction cs as [|h t IH]; simpl; [reflexivity|]. rewrite IH, Hw by reflexivity. reflexivity. Qed.

Lemma do_fail_sw : forall s r stk retry s1 st sp,
  do_fail s r stk retry = Some (s1, st, sp) -> sumf w (st ++ concat sp) <= sumf w stk.
Proof.
  intros s r stk retry s1 st sp H.
  destruct (do_fail_spec _ _ _ _ _ _ _ H) as [cs [ks [below [term [y [U [N [Sl [R [Y1 [Y2 [Y3 [Y4 [Y5 [Y6 [Y7 [Y8 T]]]]]]]]]]]]]]]]].
  destruct (unwind_split _ _ _ _ _ _ U) as [d [l [E [Fd [L _]]]]].
  rewrite E. rewrite !sumf_app. simpl.
  destruct term as [jid|]; simpl in L.
  - subst l. destruct T as [-> [-> _]]. simpl. rewrite rels_sw, Hw by reflexivity. lia.
  - destruct L as [c ->]. destruct T as [-> [_ [[_ [-> _]]|[_ [-> _]]]]]; simpl; rewrite ?concat_app, ?sumf_app, rels_sw; simpl; rewrite ?Hw by reflexivity; lia.
Qed.

Lemma branch_tasks_sw : forall jid r c bs i, sumf w (concat (branch_tasks jid r c bs i)) = 0.
Proof.
  intros jid r c bs. induction bs as [|b t IH]; intros i; simpl; [reflexivity|].
  rewrite IH. rewrite !Hw by reflexivity. reflexivity.
Qed.

Lemma step_top_sw : forall s f rest arg s1 st sp,
  step_top s f rest arg = Some (s1, st, sp) -> sumf w (st ++ concat sp) <= sumf w rest.
Proof.
  intros s f rest arg s1 st sp H.
  unfold step_top, alloc, opt_task in H.
  destruct f; cbv beta iota zeta in H; dmatch H;
    repeat match goal with
    | A : do_add_out _ _ _ = Some _ |- _ => apply do_add_out_sw in A
    | A : inv_step _ _ _ = Some _ |- _ => apply inv_step_sw in A
    | A : do_fail _ _ _ _ = Some _ |- _ => apply do_fail_sw in A
    end;
    rewrite ?sumf_app in *; simpl in *; rewrite ?sumf_app in *; simpl in *; rewrite ?branch_tasks_sw;
    rewrite ?Hw in * by reflexivity; try lia;
    repeat (match goal with |- context [match ?x with _ => _ end] => destruct x end); simpl; rewrite ?Hw by reflexivity; lia.
Qed.

End Strobes.

Lemma fw_ext : forall K pr pr' f, (forall r, pr r = pr' r) -> fw K pr f = fw K pr' f.
Proof. intros K pr pr' f H. destruct f; simpl; rewrite ?H; reflexivity. Qed.

Lemma sumf_ext : forall w w' fr, (forall f, w f = w' f) -> sumf w fr = sumf w' fr.
Proof. intros w w' fr H. induction fr as [|f t IH]; simpl; [reflexivity | rewrite H, IH; reflexivity]. Qed.

Lemma fw_mono : forall K K' pr f, K <= K' -> fw K pr f <= fw K' pr f.
Proof. intros K K' pr f H. destruct f; simpl; try lia; try (apply Nat.mul_le_mono_r; exact H). Qed.

Lemma sumf_mono : forall w w' fr, (forall f, w f <= w' f) -> sumf w fr <= sumf w' fr.
Proof. intros w w' fr H. induction fr as [|f t IH]; simpl; [lia | specialize (H f); lia]. Qed.

Lemma mu_k_mono : forall K K' s, K <= K' -> mu_k K s <= mu_k K' s.
Proof.
  intros K K' s H. unfold mu_k.
  assert (Q := sumf_mono (fw K (progs_of s)) (fw K' (progs_of s)) (frames_of s) (fun f => fw_mono K K' _ f H)). lia.
Qed.

(** the step of a task, with the task's stack named *)
Lemma step_task_frames_ft : forall s tid arg s',
  step s (LTask tid arg) = Some s' ->
  exists f rest s1 st sp others dropped,
    find_task (s_tasks s) tid = Some (f :: rest) /\
    Permutation (all_frames s) (f :: rest ++ others) /\
    step_top s f rest arg = Some (s1, st, sp) /\
    st = dropped ++ norm st /\ forallb exhausted dropped = true /\
    Permutation (all_frames s') (norm st ++ others ++ concat sp) /\
    s_nodes s' = s_nodes s1 /\ s_rrs s' = s_rrs s1.
Proof.
  intros s tid arg s' H.
  destruct (step_task_frames _ _ _ _ H) as [f [rest [s1 [st [sp [others [dropped [P1 [T [D1 [D2 [P2 [N [R _]]]]]]]]]]]]]].
  (* the frames named by step_task_frames are those of the task found *)
  unfold step in H. destruct (find_task (s_tasks s) tid) as [[|f' rest']|] eqn:F; try discriminate.
  destruct (step_top s f' rest' arg) as [[[s1' st'] sp']|] eqn:T'; try discriminate.
  inversion H; subst s'; clear H.
  destruct (find_task_split _ _ _ F) as [pre [post [E1 E2]]].
  destruct (norm_split st') as [dropped' [D1' D2']].
  exists f', rest', s1', st', sp', (concat (map snd pre) ++ concat (map snd post)), dropped'.
  assert (TS : s_tasks s1' = s_tasks s).
  { (* tasks are untouched by step_top: read it off the permutation lemma's proof obligations *)
    clear - T'. unfold step_top in T'.
    assert (A1 : forall x g, s_tasks (with_nodes x g) = s_tasks x) by reflexivity.
    assert (A2 : forall x r y, s_tasks (with_rr x r y) = s_tasks x) by reflexivity.
    assert (A3 : forall x r y, s_tasks (with_slot x r y) = s_tasks x) by reflexivity.
    assert (A4 : forall x n y, s_tasks (upd_node x n y) = s_tasks x) by reflexivity.
    assert (A5 : forall x y, s_tasks (fst (alloc x y)) = s_tasks x) by reflexivity.
    assert (A6 : forall x n to y sp, do_add_out x n to = Some (y, sp) -> s_tasks y = s_tasks x).
    { intros x n to y sp0 HH. unfold do_add_out in HH.
      destruct (Nat.ltb n (length (s_nodes x)) && Nat.ltb to (length (s_nodes x)) && negb (Nat.eqb n to)); [|discriminate].
      destruct (g_add_out (s_nodes x) n to) as [g [[a b] c]]. inversion HH. reflexivity. }
    assert (A7 : forall x r stk b y st' sp', do_fail x r stk b = Some (y, st', sp') -> s_tasks y = s_tasks x).
    { intros x r stk b y st'' sp'' HH. unfold do_fail in HH. destruct (unwind r stk) as [[[[cs ks] below] [jid|]]|]; [| |discriminate].
      - inversion HH; reflexivity.
      - destruct b; inversion HH; reflexivity. }
    assert (A8 : forall x n k y st' sp', inv_step x n k = Some (y, st', sp') -> s_tasks y = s_tasks x).
    { intros x n k y st'' sp'' HH. unfold inv_step in HH.
      destruct (Nat.ltb n (length (s_nodes x))); [|discriminate].
      destruct (n_inv (getN x n)); [inversion HH; reflexivity|].
      destruct (n_hinv (getN x n)) as [r|]; [destruct (r_spawn (getr x r))|]; inversion HH; reflexivity. }
    destruct f';
      repeat match type of T' with
      | inv_step _ _ _ = Some _ => apply A8 in T'; exact T'
      | Some _ = Some _ => inversion T'; subst; clear T'
      | None = Some _ => discriminate T'
      | do_fail _ _ _ _ = Some _ => apply A7 in T'; exact T'
      | context [match ?x with _ => _ end] => destruct x eqn:?
      | context [if ?x then _ else _] => destruct x eqn:?
      end;
      try reflexivity;
      repeat match goal with
      | H : do_add_out _ _ _ = Some _ |- _ => apply A6 in H
      | H : alloc ?x ?y = (_, _) |- _ => let K := fresh in assert (K := A5 x y); rewrite H in K; simpl in K; clear H
      end; simpl in *; try congruence. }
  split; [reflexivity|]. split; [|split; [exact T'|split; [exact D1'|split; [exact D2'|split; [|split; reflexivity]]]]].
  - unfold all_frames. rewrite E1. rewrite map_app, concat_app. simpl.
    apply Permutation_sym. apply Permutation_cons_app. apply Permutation_app_swap_app.
  - unfold all_frames, spawn. simpl. rewrite TS, E2.
    rewrite !map_app, !concat_app, frames_task_list, frames_number_from.
    rewrite <- !app_assoc. apply Permutation_app_swap_app.
Qed.

Lemma wakes_expiry : forall s tid arg f rest,
  find_task (s_tasks s) tid = Some (f :: rest) -> is_expiry s (LTask tid arg) = wakes f arg.
Proof. intros s tid arg f rest F. unfold is_expiry. rewrite F. destruct f; reflexivity. Qed.

Lemma d_of_le : forall f, d_of f <= 1.
Proof. destruct f; simpl; lia. Qed.

Lemma count_strobes_app : forall a b, count_strobes (a ++ b) = count_strobes a + count_strobes b.
Proof. intros a b. rewrite !count_strobes_sumf. apply sumf_app. Qed.

Lemma count_strobes_perm : forall a b, Permutation a b -> count_strobes a = count_strobes b.
Proof. intros a b P. rewrite !count_strobes_sumf. apply sumf_perm. exact P. Qed.

(** ** one task label, with a fixed multiplier *)
Lemma step_mu_k : forall K K0 s tid arg s',
  K0 < K -> count_strobes (frames_of s) <= K0 ->
  step s (LTask tid arg) = Some s' -> cache_bounded s -> is_expiry s (LTask tid arg) = false ->
  mu_k K s' + 1 <= mu_k K s /\ count_strobes (frames_of s') <= count_strobes (frames_of s).
Proof.
  intros K K0 s tid arg s' HK Hns H Cb Ne.
  destruct (step_task_frames_ft _ _ _ _ H) as [f [rest [s1 [st [sp [others [dropped [F [P1 [T [D1 [D2 [P2 [N R]]]]]]]]]]]]]].
  rewrite (wakes_expiry _ _ _ _ _ F) in Ne.
  assert (Pr : forall r, progs_of s' r = progs_of s r).
  { intros r. unfold progs_of, getr. rewrite R. apply (step_top_prog _ _ _ _ _ _ _ r T). }
  destruct (step_top_mu K K0 HK (progs_of s) s f rest arg s1 st sp (fun r => eq_refl) T Cb Ne) as [M O].
  unfold mu_k. change (frames_of s) with (all_frames s) in *. change (frames_of s') with (all_frames s').
  rewrite (sumf_ext (fw K (progs_of s')) (fw K (progs_of s))) by (intros g; apply fw_ext; exact Pr).
  set (W := fw K (progs_of s)) in *.
  rewrite (sumf_perm W _ _ P1), (sumf_perm W _ _ P2).
  rewrite (sumf_perm (sw (s_nodes s)) _ _ P1), (sumf_perm (sw (s_nodes s')) _ _ P2).
  rewrite (count_strobes_perm _ _ P1) in *. rewrite (count_strobes_perm _ _ P2).
  rewrite N.
  (* the dropped prefix weighs nothing *)
  assert (Dz : forall w, (forall g, exhausted g = true -> w g = 0) -> sumf w (norm st) = sumf w st).
  { intros w Hw. rewrite D1 at 2. rewrite sumf_app. rewrite (sumf_zero_exhausted w dropped Hw D2). reflexivity. }
  assert (Ex : forall g, exhausted g = true -> is_strobe g = false) by (intros g Hg; destruct g; simpl in Hg; try discriminate; reflexivity).
  assert (Wst : sumf W (norm st) = sumf W st).
  { rewrite D1 at 2. rewrite sumf_app. unfold W. rewrite (sumf_exhausted _ _ _ D2). reflexivity. }
  assert (SwZ : forall g0 g, is_strobe g = false -> sw g0 g = 0) by (intros g0 g Hg; destruct g; simpl in *; try discriminate; reflexivity).
  assert (IndZ : forall g, is_strobe g = false -> (fun f0 => if is_strobe f0 then 1 else 0) g = 0) by (intros g Hg; simpl; rewrite Hg; reflexivity).
  assert (S1 := step_top_sw (sw (s_nodes s1)) (SwZ _) _ _ _ _ _ _ _ T).
  assert (S2 := step_top_sw _ IndZ _ _ _ _ _ _ _ T). rewrite <- !count_strobes_sumf in S2.
  assert (S3 := sw_outs_le _ _ _ (rest ++ others) O).
  assert (C1 : count_strobes (norm st) = count_strobes st).
  { rewrite !count_strobes_sumf. apply Dz. intros g Hg. rewrite (Ex g Hg). reflexivity. }
  assert (W1 : sumf (sw (s_nodes s1)) (norm st) = sumf (sw (s_nodes s1)) st) by (apply Dz; intros g Hg; apply SwZ, Ex, Hg).
  rewrite !sumf_app in *. rewrite !count_strobes_app in *. cbn [sumf count_strobes] in *. rewrite !sumf_app in *. rewrite !count_strobes_app in *.
  rewrite Wst, W1, C1.
  assert (Dl := d_of_le f).
  assert (Cnt : d_of f * (count_strobes rest + count_strobes others) <= d_of f * K0) by (apply Nat.mul_le_mono_l; lia).
  split; lia.
Qed.

Lemma kof_pos : forall s, count_strobes (frames_of s) < kof s.
Proof. intros s. unfold kof. lia. Qed.

(** THE MEASURE STRICTLY DECREASES on every task label that is not the expiry of a re-run interval *)
Lemma mu_decreases : forall s tid arg s',
  step s (LTask tid arg) = Some s' -> cache_bounded s -> is_expiry s (LTask tid arg) = false ->
  mu s' < mu s /\ kof s' <= kof s.
Proof.
  intros s tid arg s' H Cb Ne.
  destruct (step_mu_k (kof s) (count_strobes (frames_of s)) s tid arg s' (kof_pos s) (le_n _) H Cb Ne) as [A B].
  assert (Kl : kof s' <= kof s) by (unfold kof; lia).
  split; [|exact Kl]. unfold mu. assert (Q := mu_k_mono _ _ s' Kl). lia.
Qed.

Lemma runlock_le_max : forall rrs r, u_runlock (r_prog (nth r rrs drr)) <= max_runlock rrs.
Proof.
  induction rrs as [|x t IH]; intros r; cbn [max_runlock].
  - destruct r; cbn [nth]; apply Nat.le_refl.
  - destruct r as [|r]; cbn [nth]; [apply Nat.le_max_l|]. specialize (IH r). lia.
Qed.

(** ... and the expiry adds at most the cost of one run *)
Lemma mu_expiry : forall s tid arg s',
  step s (LTask tid arg) = Some s' -> is_expiry s (LTask tid arg) = true ->
  mu s' + 1 <= mu s + rerun_cost s /\ kof s' <= kof s.
Proof.
  intros s tid arg s' H Ex.
  destruct (step_task_frames_ft _ _ _ _ H) as [f [rest [s1 [st [sp [others [dropped [F [P1 [T [D1 [D2 [P2 [N R]]]]]]]]]]]]]].
  rewrite (wakes_expiry _ _ _ _ _ F) in Ex.
  destruct f; simpl in Ex; try discriminate. simpl in T. rewrite Ex in T. inversion T; subst s1 st sp; clear T.
  simpl in P2. rewrite app_nil_r in P2.
  assert (Kl : kof s' <= kof s).
  { unfold kof. change (frames_of s) with (all_frames s). change (frames_of s') with (all_frames s').
    rewrite !count_strobes_sumf, (sumf_perm _ _ _ P1), (sumf_perm _ _ _ P2). simpl. lia. }
  split; [|exact Kl].
  assert (Q := mu_k_mono _ _ s' Kl). unfold mu. 
  assert (E : mu_k (kof s) s' + 1 <= mu_k (kof s) s + rerun_cost s); [|lia].
  unfold mu_k, rerun_cost. change (frames_of s) with (all_frames s). change (frames_of s') with (all_frames s').
  assert (Pr : forall r0, progs_of s' r0 = progs_of s r0) by (intros r0; unfold progs_of, getr; rewrite R; reflexivity).
  rewrite (sumf_ext (fw (kof s) (progs_of s')) (fw (kof s) (progs_of s))) by (intros g; apply fw_ext; exact Pr).
  rewrite (sumf_perm _ _ _ P1), (sumf_perm _ _ _ P2), (sumf_perm (sw (s_nodes s)) _ _ P1), (sumf_perm (sw (s_nodes s')) _ _ P2), N.
  cbn [sumf fw sw]. assert (M := runlock_le_max (s_rrs s) r).
  change (progs_of s r) with (r_prog (nth r (s_rrs s) drr)).
  assert (M2 := Nat.mul_le_mono_l _ _ (kof s) M). lia.
Qed.
