(** * Reactive/ProofsCacheKeys.v — the cache of a rerunner holds at most one entry per key, and only keys of
    reactive.Cache calls of the rerunner's compute function: [cache_bounded] in every reachable state. *)
From Coq Require Import List Arith Bool Lia Permutation.
From Thunder Require Import Reactive.Graph Reactive.Rerunner Reactive.ProofsBase Reactive.ProofsMutex Reactive.Measure
  Reactive.ProofsMeasure.
Import ListNotations.

Lemma op_keyl_cache : forall key body, op_keyl (OCache key body) = key :: prog_keyl body.
Proof.
  intros key body.
  assert (E : forall l, (fix go (l : list op) : list nat := match l with [] => [] | x :: t => op_keyl x ++ go t end) l = prog_keyl l)
    by (induction l as [|x t IH]; simpl; [reflexivity | rewrite IH; reflexivity]).
  simpl. rewrite E. reflexivity.
Qed.

Lemma op_keyl_par : forall bs, op_keyl (OPar bs) = branches_keyl bs.
Proof.
  intros bs.
  assert (E : forall l, (fix go (l : list op) : list nat := match l with [] => [] | x :: t => op_keyl x ++ go t end) l = prog_keyl l)
    by (induction l as [|x t IH]; simpl; [reflexivity | rewrite IH; reflexivity]).
  assert (F : forall ll, (fix gob (ll : list (list op)) : list nat :=
             match ll with
             | [] => []
             | b :: t => (fix go (l : list op) : list nat := match l with [] => [] | x :: u => op_keyl x ++ go u end) b ++ gob t
             end) ll = branches_keyl ll)
    by (induction ll as [|b t IH]; [reflexivity | rewrite IH, E; reflexivity]).
  simpl. rewrite F. reflexivity.
Qed.

Lemma branches_keyl_in : forall bs b, In b bs -> incl (prog_keyl b) (branches_keyl bs).
Proof.
  induction bs as [|h t IH]; intros b Hb; [contradiction|]. simpl. destruct Hb as [->|Hb].
  - apply incl_appl, incl_refl.
  - apply incl_appr. apply IH. exact Hb.
Qed.

Section Keys.
Variable KL : nat -> list nat.

Definition kframe_ok (f : frame) : Prop :=
  match f with
  | FScript r _ p => incl (prog_keyl p) (KL r)
  | FCacheGet r key body _ => In key (KL r) /\ incl (prog_keyl body) (KL r)
  | FChildBegin r key body _ => In key (KL r) /\ incl (prog_keyl body) (KL r)
  | FCacheSet r key _ _ => In key (KL r)
  | _ => True
  end.

Definition cache_ok (r : nat) (c : list (nat * nat)) : Prop := NoDup (map fst c) /\ incl (map fst c) (KL r).

Lemma cache_ok_nil : forall r, cache_ok r [].
Proof. intros r. split; [constructor | intros x []]. Qed.

Lemma cache_get_none : forall c k, cache_get c k = None -> ~ In k (map fst c).
Proof.
  induction c as [|[k' v] t IH]; simpl; intros k H; [tauto|].
  destruct (Nat.eqb k k') eqn:E; [discriminate|]. apply Nat.eqb_neq in E. intros [Q|Q]; [congruence | exact (IH _ H Q)].
Qed.

Lemma cache_ok_add : forall r c key child,
  cache_ok r c -> cache_get c key = None -> In key (KL r) -> cache_ok r (c ++ [(key, child)]).
Proof.
  intros r c key child [N I] G Hk. unfold cache_ok. rewrite map_app. simpl. split.
  - assert (Q := cache_get_none _ _ G). clear - N Q. induction (map fst c) as [|h t IH]; simpl.
    + constructor; [intros [] | constructor].
    + inversion N; subst. constructor.
      * intros X. apply in_app_iff in X. destruct X as [X|[X|[]]]; [contradiction | subst; apply Q; left; reflexivity].
      * apply IH; [assumption | intros X; apply Q; right; exact X].
  - intros x Hx. apply in_app_iff in Hx. destruct Hx as [Hx|[<-|[]]]; [apply I; exact Hx | exact Hk].
Qed.

Lemma cache_ok_drop : forall r c child, cache_ok r c -> cache_ok r (cache_drop_child c child).
Proof.
  intros r c child [N I]. unfold cache_drop_child. split.
  - clear I. induction c as [|[k v] t IH]; simpl; [constructor|]. inversion N; subst.
    destruct (negb (Nat.eqb v child)); simpl; [|apply IH; assumption]. constructor; [|apply IH; assumption].
    intros Q. apply H1. apply in_map_iff in Q. destruct Q as [[k' v'] [E Q]]. simpl in E. subst k'.
    apply filter_In in Q. destruct Q as [Q _]. apply in_map_iff. exists (k, v'). split; [reflexivity | exact Q].
  - intros x Hx. apply I. apply in_map_iff in Hx. destruct Hx as [[k v] [E Q]]. apply filter_In in Q. destruct Q as [Q _].
    apply in_map_iff. exists (k, v). split; assumption.
Qed.

Lemma setl_cache_ok : forall rrs r0 y r,
  (cache_ok r0 (r_cache (nth r0 rrs drr)) -> cache_ok r0 (r_cache y)) ->
  cache_ok r (r_cache (nth r rrs drr)) -> cache_ok r (r_cache (nth r (setl rrs r0 y) drr)).
Proof.
  intros rrs r0 y r Hy St. rewrite nth_setl.
  destruct (Nat.eqb r0 r && Nat.ltb r0 (length rrs)) eqn:E; [|exact St].
  apply andb_true_iff in E. destruct E as [E _]. apply Nat.eqb_eq in E. subst. apply Hy. exact St.
Qed.

Lemma do_fail_cache : forall s r stk b s1 st sp, do_fail s r stk b = Some (s1, st, sp) ->
  exists y, s_rrs s1 = setl (s_rrs s) r y /\ (r_cache y = [] \/ r_cache y = r_cache (getr s r)).
Proof.
  intros s r stk b s1 st sp H.
  destruct (do_fail_spec _ _ _ _ _ _ _ H) as [cs [ks [below [term [y [U [N [Sl [R [Y1 [Y2 [Y3 [Y4 [Y5 [Y6 [Y7 [Y8 T]]]]]]]]]]]]]]]]].
  exists y. split; [exact R|]. destruct term as [jid|].
  - destruct T as [_ [_ [T _]]]. right. exact T.
  - destruct T as [_ [_ [[_ [_ [T _]]]|[_ [_ [T _]]]]]]; [left | right]; exact T.
Qed.

(** caches stay well-keyed across a task step *)
Lemma step_top_cache : forall s f rest arg s1 st sp r,
  step_top s f rest arg = Some (s1, st, sp) -> kframe_ok f ->
  cache_ok r (r_cache (getr s r)) -> cache_ok r (r_cache (getr s1 r)).
Proof.
  intros s f rest arg s1 st sp r H Kf St.
  unfold step_top, alloc in H. unfold getr in *.
  destruct f; cbv beta iota zeta in H; dmatch H;
    repeat match goal with
    | A : do_add_out _ _ _ = Some _ |- _ => apply do_add_out_rrs in A; destruct A as [A _]
    | A : inv_step _ _ _ = Some _ |- _ => apply inv_step_counts in A; destruct A as [A _]
    | A : do_fail _ _ _ _ = Some _ |- _ => apply do_fail_cache in A; destruct A as [? [A [?|?]]]
    end;
    unfold getr, with_rr, with_nodes, upd_node, with_slot, with_joins in *; simpl in *;
    try match goal with A : s_rrs _ = _ |- _ => rewrite A end;
    try assumption;
    apply setl_cache_ok; try assumption; simpl; intros;
    try assumption;
    try match goal with A : r_cache _ = [] |- _ => rewrite A; apply cache_ok_nil end;
    try match goal with A : r_cache _ = r_cache _ |- _ => rewrite A; assumption end;
    try (apply cache_ok_drop; assumption);
    try (apply cache_ok_add; assumption).
Qed.


Lemma inv_step_kframes : forall s n k s1 st sp,
  inv_step s n k = Some (s1, st, sp) -> forall x, In x (st ++ concat sp) -> In x k \/ kframe_ok x.
Proof.
  intros s n k s1 st sp H x Hx. unfold inv_step in H.
  destruct (Nat.ltb n (length (s_nodes s))); [|discriminate].
  destruct (n_inv (getN s n)); [inversion H; subst; simpl in Hx; rewrite app_nil_r in Hx; left; exact Hx|].
  destruct (n_hinv (getN s n)) as [r|]; [destruct (r_spawn (getr s r))|]; inversion H; subst; clear H;
    simpl in Hx; rewrite ?in_app_iff in Hx; simpl in Hx;
    repeat (destruct Hx as [Hx|Hx]); try contradiction; try (subst x; right; exact I); left; exact Hx.
Qed.

Lemma do_add_out_kframes : forall s n to s1 sp,
  do_add_out s n to = Some (s1, sp) -> forall x, In x (concat sp) -> kframe_ok x.
Proof.
  intros s n to s1 sp H x Hx. unfold do_add_out in H.
  destruct (Nat.ltb n (length (s_nodes s)) && Nat.ltb to (length (s_nodes s)) && negb (Nat.eqb n to)); [|discriminate].
  destruct (g_add_out (s_nodes s) n to) as [g [[a b] c]]. inversion H; subst; clear H.
  destruct b; destruct c; simpl in Hx; repeat (destruct Hx as [Hx|Hx]); try contradiction; subst x; exact I.
Qed.

Lemma do_fail_kframes : forall s r stk b s1 st sp,
  do_fail s r stk b = Some (s1, st, sp) -> forall x, In x (st ++ concat sp) -> In x stk \/ kframe_ok x.
Proof.
  intros s r stk b s1 st sp H x Hx.
  destruct (do_fail_spec _ _ _ _ _ _ _ H) as [cs [ks [below [term [y [U [N [Sl [R [Y1 [Y2 [Y3 [Y4 [Y5 [Y6 [Y7 [Y8 T]]]]]]]]]]]]]]]]].
  destruct (unwind_split _ _ _ _ _ _ U) as [d [l [E [Fd [L _]]]]].
  assert (Rl : forall cs0, In x (concat (map (fun c => [FRelEnter c]) cs0)) -> kframe_ok x).
  { induction cs0 as [|h t IH]; simpl; [tauto|]. intros [<-|Q]; [exact I | apply IH; exact Q]. }
  assert (Bl : In x below -> In x stk) by (intros Q; rewrite E; apply in_app_iff; right; right; exact Q).
  apply in_app_iff in Hx.
  destruct term as [jid|]; simpl in L.
  - subst l. destruct T as [-> [-> _]]. destruct Hx as [[<-|Hx]|Hx]; [right; exact I | left; apply Bl; exact Hx | right; eapply Rl; exact Hx].
  - destruct T as [-> [_ [[_ [-> _]]|[_ [-> _]]]]].
    + destruct Hx as [[<-|Hx]|Hx]; [right; exact I | left; apply Bl; exact Hx|].
      rewrite concat_app in Hx. apply in_app_iff in Hx. destruct Hx as [Hx|Hx]; [right; eapply Rl; exact Hx|].
      simpl in Hx. destruct Hx as [<-|[]]. right. exact I.
    + destruct Hx as [[<-|Hx]|Hx]; [right; exact I | left; apply Bl; exact Hx | right; eapply Rl; exact Hx].
Qed.

End Keys.

Definition keys_of (s : state) (r : nat) : list nat := prog_keyl (r_prog (getr s r)).

Lemma incl_cons_app : forall (a b c : list nat), incl (a ++ b) c -> incl a c /\ incl b c.
Proof. intros a b c H. split; intros x Hx; apply H; apply in_app_iff; [left | right]; exact Hx. Qed.

Ltac kf_split Hx :=
  simpl in Hx; rewrite ?in_app_iff in Hx; simpl in Hx;
  repeat match type of Hx with context [match ?z with _ => _ end] => destruct z end;
  simpl in Hx;
  repeat (destruct Hx as [Hx|Hx]); try contradiction; try (left; exact Hx); try (subst; right; exact I).

Lemma step_top_kframes : forall s f rest arg s1 st sp,
  step_top s f rest arg = Some (s1, st, sp) -> kframe_ok (keys_of s) f ->
  forall x, In x (st ++ concat sp) -> In x rest \/ kframe_ok (keys_of s) x.
Proof.
  intros s f rest arg s1 st sp H Kf x Hx.
  unfold step_top, alloc, opt_task in H.
  destruct f; cbv beta iota zeta in H.
  - destruct (memb arg l); [|discriminate]. destruct (inv_step_kframes (keys_of s) _ _ _ _ _ _ H x Hx) as [Q|Q]; [|right; exact Q]. kf_split Q.
  - inversion H; subst; clear H. kf_split Hx.
  - destruct (inv_step_kframes (keys_of s) _ _ _ _ _ _ H x Hx) as [Q|Q]; [|right; exact Q]. kf_split Q.
  - dmatch H; kf_split Hx.
  - dmatch H; kf_split Hx.
  - dmatch H; kf_split Hx.
  - dmatch H; kf_split Hx.
  - dmatch H; kf_split Hx.
  - dmatch H; kf_split Hx.
  - dmatch H; kf_split Hx.
  - (* FBegin *) inversion H; subst; clear H. kf_split Hx. subst x. right. simpl. unfold keys_of, getr. simpl. apply incl_refl.
  - (* FScript *)
    destruct p as [|o q]; [discriminate|]. simpl in Kf. destruct (incl_cons_app _ _ _ Kf) as [Ko Kq].
    assert (Df : forall b s2 st2 sp2, do_fail s r (FScript r c q :: rest) b = Some (s2, st2, sp2) ->
                 In x (st2 ++ concat sp2) -> In x rest \/ kframe_ok (keys_of s) x).
    { intros b s2 st2 sp2 Hf Hx2. destruct (do_fail_kframes (keys_of s) _ _ _ _ _ _ _ Hf x Hx2) as [[<-|Q]|Q]; [right; exact Kq | left; exact Q | right; exact Q]. }
    destruct o as [sl| |key body| | |bs].
    + inversion H; subst; clear H. kf_split Hx. subst x. right. exact Kq.
    + dmatch H; kf_split Hx; subst x; right; exact Kq.
    + rewrite op_keyl_cache in Ko.
      assert (Kk : In key (keys_of s r)) by (apply Ko; left; reflexivity).
      assert (Kb : incl (prog_keyl body) (keys_of s r)) by (intros z Hz; apply Ko; right; exact Hz).
      destruct (Nat.eqb arg 0).
      * destruct (memb key (r_keys (getr s r))); [discriminate|]. inversion H; subst; clear H. kf_split Hx; subst x; right; [split; assumption | exact Kq].
      * destruct (Nat.eqb arg 2); [inversion H; subst; clear H; kf_split Hx; subst x; right; exact Kq|].
        destruct (r_cancel (getr s r)); [|discriminate]. eapply Df; eauto.
    + destruct (Nat.eqb arg 0); [inversion H; subst; clear H; kf_split Hx; subst x; right; exact Kq | eapply Df; eauto].
    + destruct (Nat.eqb arg 0); [inversion H; subst; clear H; kf_split Hx; subst x; right; exact Kq | eapply Df; eauto].
    + rewrite op_keyl_par in Ko. inversion H; subst; clear H.
      simpl in Hx. destruct Hx as [<-|[<-|Hx]]; [right; exact I | right; exact Kq|].
      apply in_app_iff in Hx. destruct Hx as [Hx|Hx]; [left; exact Hx|].
      apply in_concat in Hx. destruct Hx as [t [Ht Hxt]].
      destruct (branch_tasks_in _ _ _ _ _ _ Ht) as [idx [b [Hb ->]]].
      right. simpl in Hxt. destruct Hxt as [<-|[<-|[<-|[]]]]; simpl; auto.
      intros z Hz. apply Ko. eapply branches_keyl_in; eauto.
  - (* FDepAdd *)
    destruct (do_add_out s res c) as [[s2 sp2]|] eqn:A; [|discriminate]. inversion H; subst; clear H.
    simpl in Hx. destruct Hx as [<-|Hx]; [right; exact I|]. apply in_app_iff in Hx.
    destruct Hx as [Hx|Hx]; [left; exact Hx | right; eapply do_add_out_kframes; eauto].
  - inversion H; subst; clear H. kf_split Hx.
  - dmatch H; kf_split Hx.
  - destruct (do_add_out s res c) as [[s2 sp2]|] eqn:A; [|discriminate]. inversion H; subst; clear H.
    apply in_app_iff in Hx. destruct Hx as [Hx|Hx]; [left; exact Hx | right; eapply do_add_out_kframes; eauto].
  - (* FChildBegin *) destruct Kf as [K1 K2]. inversion H; subst; clear H. kf_split Hx; subst x; right; [exact K2 | exact K1].
  - dmatch H; kf_split Hx.
  - destruct (do_add_out s child parent) as [[s2 sp2]|] eqn:A; [|discriminate]. inversion H; subst; clear H.
    apply in_app_iff in Hx. destruct Hx as [Hx|Hx]; [left; exact Hx | right; eapply do_add_out_kframes; eauto].
  - (* FCacheGet *) destruct Kf as [K1 K2]. dmatch H; kf_split Hx. subst x. right. split; assumption.
  - inversion H; subst; clear H. kf_split Hx.
  - (* FJoin *)
    destruct (nth jid (s_joins s) (0, false)) as [nb failed]. destruct (Nat.eqb nb 0); [|discriminate].
    destruct failed; [|inversion H; subst; clear H; kf_split Hx].
    destruct (do_fail_kframes (keys_of s) _ _ _ _ _ _ _ H x Hx) as [Q|Q]; [left | right]; exact Q.
  - inversion H; subst; clear H. kf_split Hx.
  - destruct (nth jid (s_joins s) (0, false)) as [nb failed]. inversion H; subst; clear H. kf_split Hx.
  - dmatch H; kf_split Hx.
  - dmatch H; kf_split Hx.
  - inversion H; subst; clear H. kf_split Hx.
  - dmatch H; kf_split Hx.
  - dmatch H; kf_split Hx.
  - inversion H; subst; clear H. kf_split Hx.
Qed.

Definition keys_inv (s : state) : Prop :=
  (forall f, In f (all_frames s) -> kframe_ok (keys_of s) f) /\
  (forall r, cache_ok (keys_of s) r (r_cache (getr s r))).

Lemma kframe_ok_ext : forall KL KL' f, (forall r, KL r = KL' r) -> kframe_ok KL f -> kframe_ok KL' f.
Proof. intros KL KL' f H K. destruct f; simpl in *; rewrite <- ?H; exact K. Qed.

Lemma cache_ok_ext : forall KL KL' r c, (forall r, KL r = KL' r) -> cache_ok KL r c -> cache_ok KL' r c.
Proof. intros KL KL' r c H [A B]. split; [exact A | rewrite <- H; exact B]. Qed.

Lemma keys_inv_env : forall s s',
  (forall r, r_prog (getr s' r) = r_prog (getr s r)) ->
  (forall f, In f (all_frames s') -> In f (all_frames s) \/ kframe_ok (keys_of s) f) ->
  (forall r, r_cache (getr s' r) = r_cache (getr s r) \/ r_cache (getr s' r) = []) ->
  keys_inv s -> keys_inv s'.
Proof.
  intros s s' Hp Hf Hc [A B].
  assert (E : forall r, keys_of s r = keys_of s' r) by (intros r; unfold keys_of; rewrite Hp; reflexivity).
  split.
  - intros f Hin. apply (kframe_ok_ext _ _ _ E). destruct (Hf f Hin) as [Q|Q]; [apply A; exact Q | exact Q].
  - intros r. apply (cache_ok_ext _ _ _ _ E). destruct (Hc r) as [Q|Q]; rewrite Q; [apply B | apply cache_ok_nil].
Qed.

Lemma step_keys_inv : forall s l s', keys_inv s -> step s l = Some s' -> keys_inv s'.
Proof.
  intros s l s' Inv H. destruct l.
  - destruct (step_task_frames _ _ _ _ H) as [f [rest [s1 [st [sp [others [dropped [P1 [T [D1 [D2 [P2 [N [R _]]]]]]]]]]]]]].
    destruct Inv as [A B].
    assert (E : forall r, keys_of s r = keys_of s' r) by (intros r; unfold keys_of; rewrite (step_prog _ _ _ r H); reflexivity).
    assert (Kf : kframe_ok (keys_of s) f) by (apply A; eapply Permutation_in; [apply Permutation_sym; exact P1 | left; reflexivity]).
    split.
    + intros x Hin. apply (kframe_ok_ext _ _ _ E).
      assert (Hin' := Permutation_in _ P2 Hin). rewrite !in_app_iff in Hin'.
      assert (Old : In x (rest ++ others) -> kframe_ok (keys_of s) x).
      { intros Q. apply A. eapply Permutation_in; [apply Permutation_sym; exact P1 | right; exact Q]. }
      assert (New : In x (st ++ concat sp) -> kframe_ok (keys_of s) x).
      { intros Q. destruct (step_top_kframes _ _ _ _ _ _ _ T Kf x Q) as [Q'|Q']; [apply Old; apply in_app_iff; left; exact Q' | exact Q']. }
      destruct Hin' as [Q|[Q|Q]].
      * apply New. apply in_app_iff. left. rewrite D1. apply in_app_iff. right. exact Q.
      * apply Old. apply in_app_iff. right. exact Q.
      * apply New. apply in_app_iff. right. exact Q.
    + intros r. apply (cache_ok_ext _ _ _ _ E). unfold getr. rewrite R.
      apply (step_top_cache (keys_of s) _ _ _ _ _ _ _ r T Kf). apply B.
  - simpl in H. destruct (Nat.ltb slot (length (s_slots s))); [|discriminate]. inversion H; subst; clear H.
    eapply keys_inv_env; [| | |exact Inv]; [reflexivity | | intros r; left; reflexivity].
    intros f Hf. rewrite frames_spawn in Hf. apply in_app_iff in Hf. destruct Hf as [Hf|[<-|[]]]; [left; exact Hf | right; exact I].
  - simpl in H. destruct (Nat.ltb slot (length (s_slots s))); [|discriminate]. inversion H; subst; clear H.
    eapply keys_inv_env; [| | |exact Inv]; [reflexivity | | intros r; left; reflexivity].
    intros f Hf. rewrite frames_spawn in Hf. apply in_app_iff in Hf. destruct Hf as [Hf|[<-|[]]]; [left; exact Hf | right; exact I].
  - simpl in H. destruct (Nat.ltb r (length (s_rrs s))); [|discriminate]. inversion H; subst; clear H.
    eapply keys_inv_env; [| | |exact Inv]; [reflexivity | | intros r'; left; reflexivity].
    intros f Hf. rewrite frames_spawn in Hf. apply in_app_iff in Hf. destruct Hf as [Hf|[<-|[]]]; [left; exact Hf | right; exact I].
  - assert (P := step_prog _ _ _ 0 H). clear P.
    assert (Pr : forall r', r_prog (getr s' r') = r_prog (getr s r')) by (intros r'; eapply step_prog; eauto).
    simpl in H. destruct (Nat.ltb r (length (s_rrs s))); [|discriminate].
    destruct (r_clock (getr s r)); [discriminate|]. inversion H; subst; clear H.
    eapply keys_inv_env; [exact Pr | intros f Hf; left; exact Hf | | exact Inv].
    intros r'. unfold getr, with_rr. simpl. rewrite nth_setl.
    destruct (Nat.eqb r r' && Nat.ltb r (length (s_rrs s))); [right; reflexivity | left; reflexivity].
  - simpl in H. destruct (Nat.eqb (n_timer (getN s n)) 1); [|discriminate]. inversion H; subst; clear H.
    eapply keys_inv_env; [| | |exact Inv]; [reflexivity | | intros r; left; reflexivity].
    intros f Hf. rewrite frames_spawn in Hf. apply in_app_iff in Hf. destruct Hf as [Hf|[<-|[]]]; [left; exact Hf | right; exact I].
  - simpl in H. destruct (Nat.ltb slot (length (s_slots s))); [|discriminate]. inversion H; subst; clear H.
    eapply keys_inv_env; [| | |exact Inv]; [reflexivity | | intros r; left; reflexivity].
    intros f Hf. rewrite frames_spawn in Hf. apply in_app_iff in Hf. destruct Hf as [Hf|[<-|[]]]; [left; exact Hf | right; exact I].
  - assert (Pr : forall r', r_prog (getr s' r') = r_prog (getr s r')) by (intros r'; eapply step_prog; eauto).
    simpl in H. destruct (Nat.ltb r (length (s_rrs s))); [|discriminate]. inversion H; subst; clear H.
    eapply keys_inv_env; [exact Pr | intros f Hf; left; exact Hf | | exact Inv].
    intros r'. left. unfold getr, with_rr. simpl. rewrite nth_setl.
    destruct (Nat.eqb r r' && Nat.ltb r (length (s_rrs s))) eqn:E; [|reflexivity].
    apply andb_true_iff in E. destruct E as [E _]. apply Nat.eqb_eq in E. subst. reflexivity.
Qed.

Lemma init_cache_nil : forall progs r, r_cache (nth r (map init_rr progs) drr) = [].
Proof. induction progs as [|p t IH]; intros [|r]; simpl; auto. Qed.

Lemma init_tasks_frames : forall n k f, In f (concat (map snd (init_tasks n k))) -> exists r, f = FRunWait r.
Proof.
  induction n as [|n IH]; intros k f H; simpl in H; [contradiction|].
  destruct H as [<-|H]; [eexists; reflexivity | eapply IH; exact H].
Qed.

Lemma init_keys_inv : forall k progs, keys_inv (init k progs).
Proof.
  intros k progs. split.
  - intros f Hf. unfold all_frames, init in Hf. simpl in Hf. destruct (init_tasks_frames _ _ _ Hf) as [r ->]. exact I.
  - intros r. unfold getr, init. simpl. rewrite init_cache_nil. apply cache_ok_nil.
Qed.

Lemma reachable_keys_inv : forall k progs s, reachable (init k progs) s -> keys_inv s.
Proof.
  intros k progs s R. induction R as [|s l s' R IH H]; [apply init_keys_inv | eapply step_keys_inv; eauto].
Qed.

(** the cache is bounded by the number of reactive.Cache calls of the compute function *)
Lemma reachable_cache_bounded : forall k progs s, reachable (init k progs) s -> cache_bounded s.
Proof.
  intros k progs s R r. destruct (reachable_keys_inv _ _ _ R) as [_ B]. destruct (B r) as [Nd Inc].
  unfold prog_keys. rewrite <- (map_length fst). apply NoDup_incl_length; assumption.
Qed.

(** at most one memoised computation per key, and only under keys the compute function uses *)
Lemma cache_one_entry_per_key_lemma : forall k progs s r,
  reachable (init k progs) s ->
  NoDup (map fst (r_cache (getr s r))) /\
  incl (map fst (r_cache (getr s r))) (prog_keyl (r_prog (getr s r))) /\
  length (r_cache (getr s r)) <= prog_keys (r_prog (getr s r)).
Proof.
  intros k progs s r R. destruct (reachable_keys_inv _ _ _ R) as [_ B]. destruct (B r) as [Nd Inc].
  split; [exact Nd|]. split; [exact Inc|]. exact (reachable_cache_bounded _ _ _ R r).
Qed.
