(** * Reactive/ProofsJoin.v — goroutines inside a compute function: a join counts the branch goroutines that
    have not returned yet; on a branch goroutine's stack only frames of the compute function sit above the
    branch's end, and a join waited for there is younger than the branch's own. *)
From Coq Require Import List Arith Bool Lia Permutation.
From Thunder Require Import Reactive.Graph Reactive.Rerunner Reactive.ProofsBase Reactive.ProofsMutex Reactive.ProofsShape.
Import ListNotations.

Definition is_bend (jid : nat) (f : frame) : bool := match f with FBranchEnd j => Nat.eqb jid j | _ => false end.

Definition jframe_ok (nj : nat) (f : frame) : Prop :=
  match f with
  | FJoin _ j => j < nj
  | FBranchEnd j => j < nj
  | _ => True
  end.

Definition join_on (joins : list (nat * bool)) (fr : list frame) : Prop :=
  (forall f, In f fr -> jframe_ok (length joins) f) /\
  (forall jid, count (is_bend jid) fr = fst (nth jid joins (0, false))).

Definition join_inv (s : state) : Prop := join_on (s_joins s) (all_frames s).

Lemma join_on_perm : forall j a b, Permutation a b -> join_on j a -> join_on j b.
Proof.
  intros j a b P [A B]. split.
  - intros f Hf. apply A. eapply Permutation_in; [apply Permutation_sym; exact P | exact Hf].
  - intros jid. rewrite <- (count_perm _ _ _ P). apply B.
Qed.

(** steps that do not touch joins and neither add nor remove join / branch-end frames *)
Lemma join_transfer : forall j fr fr',
  (forall f, In f fr' -> In f fr \/ (forall n, jframe_ok n f)) ->
  (forall jid, count (is_bend jid) fr' = count (is_bend jid) fr) ->
  join_on j fr -> join_on j fr'.
Proof.
  intros j fr fr' Hf Hc [A B]. split.
  - intros f Hin. destruct (Hf f Hin) as [K|K]; [apply A; exact K | apply K].
  - intros jid. rewrite Hc. apply B.
Qed.

Lemma nth_overflow_joins : forall (j : list (nat * bool)) jid, length j <= jid -> nth jid j (0, false) = (0, false).
Proof. intros. apply nth_overflow. assumption. Qed.

Lemma bend_fresh : forall j fr jid, join_on j fr -> length j <= jid -> count (is_bend jid) fr = 0.
Proof. intros j fr jid [_ B] L. rewrite B, nth_overflow_joins by exact L. reflexivity. Qed.

Lemma do_fail_join : forall s r stk retry s1 st sp others F0,
  do_fail s r stk retry = Some (s1, st, sp) ->
  (forall f, In f (stk ++ others) -> In f F0 \/ (forall n, jframe_ok n f)) ->
  (forall jid, count (is_bend jid) (stk ++ others) = count (is_bend jid) F0) ->
  join_on (s_joins s) F0 -> join_on (s_joins s1) (st ++ others ++ concat sp).
Proof.
  intros s r stk retry s1 st sp others F0 H Hf Hc [A B].
  destruct (do_fail_spec _ _ _ _ _ _ _ H) as [cs [ks [below [term [y [U [N [Sl [R [Y1 [Y2 [Y3 [Y4 [Y5 [Y6 [Y7 [Y8 T]]]]]]]]]]]]]]]]].
  destruct (unwind_split _ _ _ _ _ _ U) as [d [l [E [Fd [L _]]]]].
  assert (Db : forall jid, count (is_bend jid) d = 0) by (intros jid; apply (count_zero_forall _ unw_kind); [intros f Hk; destruct f; simpl in *; try discriminate; reflexivity | exact Fd]).
  assert (RC : forall jid cs0, count (is_bend jid) (concat (map (fun c0 => [FRelEnter c0]) cs0)) = 0).
  { intros jid cs0. induction cs0 as [|h t IH]; simpl; [reflexivity | exact IH]. }
  assert (RI : forall f cs0, In f (concat (map (fun c0 => [FRelEnter c0]) cs0)) -> exists x, f = FRelEnter x).
  { intros f cs0. induction cs0 as [|h t IH]; simpl; [intros []|]. intros [<-|Hf']; [eexists; reflexivity | apply IH; exact Hf']. }
  assert (Sub : forall f, In f below -> In f stk) by (intros f Hf'; rewrite E; apply in_app_iff; right; right; exact Hf').
  destruct term as [jid|]; simpl in L.
  - subst l. destruct T as [-> [-> [_ [_ Jn]]]]. rewrite Jn. unfold set_join_failed. split.
    + rewrite length_setl. intros f Hin. rewrite !in_app_iff in Hin. destruct Hin as [Hin|[Hin|Hin]].
      * simpl in Hin. destruct Hin as [<-|Hin].
        -- apply (A (FBranchEnd jid)). destruct (Hf (FBranchEnd jid)) as [K|K]; [rewrite E; apply in_app_iff; left; apply in_app_iff; right; left; reflexivity | exact K|].
           exfalso. specialize (K 0). simpl in K. lia.
        -- destruct (Hf f) as [K|K]; [apply in_app_iff; left; apply Sub; exact Hin | apply A; exact K | apply K].
      * destruct (Hf f) as [K|K]; [apply in_app_iff; right; exact Hin | apply A; exact K | apply K].
      * destruct (RI _ _ Hin) as [x ->]. exact I.
    + intros j'. rewrite nth_setl. specialize (B j'). rewrite <- Hc, E in B. rewrite !count_app in B. simpl in B. rewrite Db in B.
      rewrite !count_app, RC. simpl.
      destruct (Nat.eqb jid j' && Nat.ltb jid (length (s_joins s))) eqn:Q.
      * apply andb_true_iff in Q. destruct Q as [Q _]. apply Nat.eqb_eq in Q. subst j'. simpl. rewrite Nat.eqb_refl in *. simpl in *. lia.
      * simpl. destruct (Nat.eqb j' jid); simpl in *; lia.
  - destruct L as [c ->]. destruct T as [-> [Jn Rest]]. rewrite Jn. split.
    + intros f Hin. rewrite !in_app_iff in Hin. destruct Hin as [Hin|[Hin|Hin]].
      * simpl in Hin. destruct Hin as [<-|Hin]; [exact I|].
        destruct (Hf f) as [K|K]; [apply in_app_iff; left; apply Sub; exact Hin | apply A; exact K | apply K].
      * destruct (Hf f) as [K|K]; [apply in_app_iff; right; exact Hin | apply A; exact K | apply K].
      * destruct Rest as [[_ [-> _]]|[_ [-> _]]].
        -- rewrite concat_app in Hin. apply in_app_iff in Hin. destruct Hin as [Hin|[<-|[]]]; [destruct (RI _ _ Hin) as [x ->]; exact I | exact I].
        -- destruct (RI _ _ Hin) as [x ->]. exact I.
    + intros j'. specialize (B j'). rewrite <- Hc, E in B. rewrite !count_app in B. simpl in B. rewrite Db in B.
      rewrite !count_app. simpl.
      destruct Rest as [[_ [-> _]]|[_ [-> _]]]; rewrite ?concat_app, ?count_app, RC; simpl; lia.
Qed.

Lemma inv_step_join : forall s n k s1 st sp,
  inv_step s n k = Some (s1, st, sp) ->
  s_joins s1 = s_joins s /\ (forall f, In f (st ++ concat sp) -> In f k \/ (forall m, jframe_ok m f)) /\
  (forall jid, count (is_bend jid) (st ++ concat sp) = count (is_bend jid) k).
Proof.
  intros s n k s1 st sp H. unfold inv_step in H.
  destruct (Nat.ltb n (length (s_nodes s))); [|discriminate].
  destruct (n_inv (getN s n)).
  - inversion H; subst. simpl. rewrite app_nil_r. repeat split; auto.
  - destruct (n_hinv (getN s n)) as [r|]; [destruct (r_spawn (getr s r))|]; inversion H; subst; clear H; simpl;
      (split; [reflexivity|]); (split; [|intros jid; simpl; rewrite ?count_app; simpl; lia]);
      intros f Hf; rewrite ?in_app_iff in Hf; simpl in Hf; repeat (destruct Hf as [Hf|Hf]); try contradiction;
      try (subst f; right; intros; exact I); left; exact Hf.
Qed.

Lemma do_add_out_join : forall s n to s1 sp, do_add_out s n to = Some (s1, sp) ->
  s_joins s1 = s_joins s /\ (forall f, In f (concat sp) -> forall m, jframe_ok m f) /\ (forall jid, count (is_bend jid) (concat sp) = 0).
Proof.
  intros s n to s1 sp H. unfold do_add_out in H.
  destruct (Nat.ltb n (length (s_nodes s)) && Nat.ltb to (length (s_nodes s)) && negb (Nat.eqb n to)); [|discriminate].
  destruct (g_add_out (s_nodes s) n to) as [g [[a b] c]]. inversion H; subst; clear H. simpl. split; [reflexivity|]. split.
  - intros f Hf m. destruct b, c; simpl in Hf; repeat (destruct Hf as [<-|Hf]); try contradiction; exact I.
  - intros jid. destruct b, c; reflexivity.
Qed.

Ltac jcnt := simpl; rewrite ?count_app; simpl; try lia.

Ltac jframes :=
  let f := fresh "f" in let Hf := fresh "Hf" in
  intros f Hf; simpl in Hf; rewrite ?in_app_iff in Hf; simpl in Hf;
  repeat (destruct Hf as [Hf|Hf]); try contradiction;
  try (left; simpl; rewrite ?in_app_iff; tauto);
  try (subst f; right; intros; exact I).

Ltac join_leaf Inv := eapply join_transfer; [ | | exact Inv]; [jframes | intros jid'; jcnt].

Lemma step_top_join : forall s f rest arg s1 st sp others,
  step_top s f rest arg = Some (s1, st, sp) ->
  join_on (s_joins s) (f :: rest ++ others) ->
  join_on (s_joins s1) (st ++ others ++ concat sp).
Proof.
  intros s f rest arg s1 st sp others H Inv.
  unfold step_top in H.
  destruct f; cbv beta iota zeta in H.
  - destruct (memb arg l); [|discriminate]. destruct (inv_step_join _ _ _ _ _ _ H) as [J [Fr C]]. rewrite J.
    eapply join_transfer; [ | | exact Inv].
    + intros f Hf. rewrite !in_app_iff in Hf. assert (Q : In f (st ++ concat sp) \/ In f others) by (rewrite in_app_iff; tauto).
      destruct Q as [Q|Q]; [|left; right; apply in_app_iff; right; exact Q].
      destruct (Fr f Q) as [K|K]; [|right; exact K]. simpl in K. destruct K as [<-|K]; [right; intros; exact I | left; right; apply in_app_iff; left; exact K].
    + intros jid. specialize (C jid). simpl in *. rewrite ?count_app in *. simpl in *. lia.
  - inversion H; subst; clear H. join_leaf Inv.
  - destruct (inv_step_join _ _ _ _ _ _ H) as [J [Fr C]]. rewrite J.
    eapply join_transfer; [ | | exact Inv].
    + intros f Hf. rewrite !in_app_iff in Hf. assert (Q : In f (st ++ concat sp) \/ In f others) by (rewrite in_app_iff; tauto).
      destruct Q as [Q|Q]; [|left; right; apply in_app_iff; right; exact Q].
      destruct (Fr f Q) as [K|K]; [|right; exact K]. simpl in K. destruct K as [<-|K]; [right; intros; exact I | left; right; apply in_app_iff; left; exact K].
    + intros jid. specialize (C jid). simpl in *. rewrite ?count_app in *. simpl in *. lia.
  - destruct (n_rel (getN s n)); [inversion H; subst; clear H; join_leaf Inv|].
    destruct (n_hrel (getN s n)) as [[sl|]|]; inversion H; subst; clear H; simpl; join_leaf Inv.
  - destruct (Nat.eqb (slot_res (upd_node s n (inc_cln (getN s n))) slot) n); unfold alloc in H; inversion H; subst; clear H; simpl; join_leaf Inv.
  - destruct froms as [|from l]; [discriminate|].
    destruct (g_rel_dep (s_nodes s) from n) as [g shrel]. destruct shrel; inversion H; subst; clear H; simpl; join_leaf Inv.
  - destruct (Nat.eqb arg 0); [inversion H; subst; clear H; join_leaf Inv|].
    destruct (r_cancel (getr s r)); [|discriminate]. inversion H; subst; clear H; join_leaf Inv.
  - destruct (r_mu (getr s r)); [discriminate|]. destruct (r_stop (getr s r)); inversion H; subst; clear H; simpl; join_leaf Inv.
  - destruct (Nat.eqb arg 1); [destruct (r_cancel (getr s r)); [|discriminate] | destruct (r_clock (getr s r)); [discriminate|]];
      inversion H; subst; clear H; simpl; join_leaf Inv.
  - destruct ks as [|k ks']; [inversion H; subst; clear H; simpl; join_leaf Inv|].
    destruct (memb arg (k :: ks')); [|discriminate]. destruct (n_inv (getN s arg)); inversion H; subst; clear H; simpl; join_leaf Inv.
  - unfold alloc in H. inversion H; subst; clear H. simpl. join_leaf Inv.
  - (* FScript *)
    destruct p as [|o q]; [discriminate|].
    assert (Fail : forall retry, do_fail s r (FScript r c q :: rest) retry = Some (s1, st, sp) -> join_on (s_joins s1) (st ++ others ++ concat sp)).
    { intros retry HF. eapply do_fail_join; [exact HF | | | exact Inv].
      - intros f Hf. simpl in Hf. destruct Hf as [<-|Hf]; [right; intros; exact I | left; right; exact Hf].
      - intros jid. reflexivity. }
    destruct o.
    + inversion H; subst; clear H; simpl; join_leaf Inv.
    + destruct (Nat.eqb arg 0); [|unfold alloc in H]; inversion H; subst; clear H; simpl; join_leaf Inv.
    + destruct (Nat.eqb arg 0).
      * destruct (memb key (r_keys (getr s r))); [discriminate|]. inversion H; subst; clear H; simpl; join_leaf Inv.
      * destruct (Nat.eqb arg 2); [inversion H; subst; clear H; simpl; join_leaf Inv|].
        destruct (r_cancel (getr s r)); [|discriminate]. eapply Fail; eauto.
    + destruct (Nat.eqb arg 0); [inversion H; subst; clear H; simpl; join_leaf Inv | eapply Fail; eauto].
    + destruct (Nat.eqb arg 0); [inversion H; subst; clear H; simpl; join_leaf Inv | eapply Fail; eauto].
    + (* OPar: the fork *)
      inversion H; subst; clear H. simpl. destruct Inv as [A B]. split.
      * rewrite app_length. simpl. intros f Hf. simpl in Hf. rewrite ?in_app_iff in Hf.
        assert (Mono : forall g, jframe_ok (length (s_joins s)) g -> jframe_ok (length (s_joins s) + 1) g) by (intros g Hg; destruct g; simpl in *; auto; lia).
        destruct Hf as [<-|[<-|[Hf|[Hf|Hf]]]]; [simpl; lia | exact I | apply Mono, A; right; apply in_app_iff; tauto | apply Mono, A; right; apply in_app_iff; tauto |].
        apply in_concat in Hf. destruct Hf as [t [Ht Hf]]. destruct (branch_tasks_in _ _ _ _ _ _ Ht) as [idx [b [_ ->]]].
        simpl in Hf. destruct Hf as [<-|[<-|[<-|[]]]]; simpl; auto; lia.
      * intros jid. specialize (B jid). simpl in B. simpl. rewrite ?count_app in *.
        assert (BT : forall i, count (is_bend jid) (concat (branch_tasks (length (s_joins s)) r c bs i)) = if Nat.eqb jid (length (s_joins s)) then length bs else 0).
        { clear. induction bs as [|b t IH]; intros i; simpl; [destruct (Nat.eqb jid (length (s_joins s))); reflexivity|].
          rewrite IH. destruct (Nat.eqb jid (length (s_joins s))); reflexivity. }
        rewrite BT. destruct (Nat.eqb jid (length (s_joins s))) eqn:E.
        -- apply Nat.eqb_eq in E. subst jid. rewrite app_nth2 by lia. rewrite Nat.sub_diag. simpl.
           rewrite nth_overflow_joins in B by lia. simpl in B. lia.
        -- apply Nat.eqb_neq in E. destruct (Nat.lt_ge_cases jid (length (s_joins s))) as [L|L].
           ++ rewrite app_nth1 by exact L. lia.
           ++ rewrite nth_overflow_joins in B by exact L. rewrite nth_overflow_joins by (rewrite app_length; simpl; lia). simpl in *. lia.
  - destruct (do_add_out s res c) as [[s2 sp2]|] eqn:A; [|discriminate]. inversion H; subst; clear H.
    destruct (do_add_out_join _ _ _ _ _ A) as [J [Fr C]]. rewrite J.
    eapply join_transfer; [ | | exact Inv].
    + intros f Hf. simpl in Hf. rewrite ?in_app_iff in Hf. destruct Hf as [<-|[Hf|[Hf|Hf]]];
        [right; intros; exact I | left; right; apply in_app_iff; tauto | left; right; apply in_app_iff; tauto | right; apply Fr; exact Hf].
    + intros jid. simpl. rewrite ?count_app, C. simpl. lia.
  - inversion H; subst; clear H. simpl. join_leaf Inv.
  - destruct (n_hrel (getN s res)); [discriminate|]. inversion H; subst; clear H. simpl. join_leaf Inv.
  - destruct (do_add_out s res c) as [[s2 sp2]|] eqn:A; [|discriminate]. inversion H; subst; clear H.
    destruct (do_add_out_join _ _ _ _ _ A) as [J [Fr C]]. rewrite J.
    eapply join_transfer; [ | | exact Inv].
    + intros f Hf. rewrite ?in_app_iff in Hf. destruct Hf as [Hf|[Hf|Hf]];
        [left; right; apply in_app_iff; tauto | left; right; apply in_app_iff; tauto | right; apply Fr; exact Hf].
    + intros jid. simpl. rewrite ?count_app, C. simpl. lia.
  - unfold alloc in H. inversion H; subst; clear H. simpl. join_leaf Inv.
  - destruct (cache_get (r_cache (getr s r)) key); inversion H; subst; clear H; simpl; join_leaf Inv.
  - destruct (do_add_out s child parent) as [[s2 sp2]|] eqn:A; [|discriminate]. inversion H; subst; clear H.
    destruct (do_add_out_join _ _ _ _ _ A) as [J [Fr C]]. simpl. rewrite J.
    eapply join_transfer; [ | | exact Inv].
    + intros f Hf. rewrite ?in_app_iff in Hf. destruct Hf as [Hf|[Hf|Hf]];
        [left; right; apply in_app_iff; tauto | left; right; apply in_app_iff; tauto | right; apply Fr; exact Hf].
    + intros jid. simpl. rewrite ?count_app, C. simpl. lia.
  - (* FCacheGet *)
    destruct (cache_get (r_cache (getr s r)) key) as [child|]; [destruct (Nat.eqb child c); [discriminate|]|];
      inversion H; subst; clear H; simpl; join_leaf Inv.
  - inversion H; subst; clear H. simpl. join_leaf Inv.
  - (* FJoin *)
    destruct (nth jid (s_joins s) (0, false)) as [nb failed]. destruct (Nat.eqb nb 0); [|discriminate].
    destruct failed; [|inversion H; subst; clear H; join_leaf Inv].
    eapply do_fail_join; [exact H | | | exact Inv].
    + intros f Hf. left. right. exact Hf.
    + intros j'. reflexivity.
  - inversion H; subst; clear H. join_leaf Inv.
  - (* FBranchEnd: a branch goroutine returns *)
    destruct (nth jid (s_joins s) (0, false)) as [nb failed] eqn:Nj. inversion H; subst; clear H. simpl.
    destruct Inv as [A B]. split.
    + rewrite length_setl. intros f Hf. apply A. right. rewrite app_nil_r in Hf. exact Hf.
    + intros j'. rewrite nth_setl, app_nil_r. specialize (B j'). simpl in B.
      destruct (Nat.eqb jid j' && Nat.ltb jid (length (s_joins s))) eqn:Q.
      * apply andb_true_iff in Q. destruct Q as [Q _]. apply Nat.eqb_eq in Q. subst j'. rewrite Nat.eqb_refl, Nj in B. simpl in *. lia.
      * destruct (Nat.eqb j' jid) eqn:E; [|simpl in B; exact B].
        apply Nat.eqb_eq in E. subst j'. rewrite Nat.eqb_refl in Q. simpl in Q. apply Nat.ltb_ge in Q.
        assert (K := A (FBranchEnd jid) (or_introl eq_refl)). simpl in K. lia.
  - inversion H; subst; clear H. simpl. eapply join_transfer; [ | | exact Inv]; [|intros jid'; jcnt; destruct (r_comp (getr s r)); simpl; lia].
    intros f Hf. simpl in Hf. rewrite ?in_app_iff in Hf. destruct Hf as [<-|[Hf|[Hf|Hf]]];
      [right; intros; exact I | left; right; apply in_app_iff; tauto | left; right; apply in_app_iff; tauto |].
    right. destruct (r_comp (getr s r)); simpl in Hf; [destruct Hf as [<-|[]]; intros; exact I | contradiction].
  - destruct (negb (n_inv (getN s c)) && match n_hinv (getN s c) with Some _ => true | None => false end); [discriminate|].
    destruct (g_handle_inv (s_nodes s) c r) as [g fired]. inversion H; subst; clear H. simpl.
    eapply join_transfer; [ | | exact Inv]; [|intros jid'; jcnt; destruct fired; simpl; lia].
    intros f Hf. simpl in Hf. rewrite ?in_app_iff in Hf. destruct Hf as [<-|[Hf|[Hf|Hf]]];
      [right; intros; exact I | left; right; apply in_app_iff; tauto | left; right; apply in_app_iff; tauto |].
    right. destruct fired; simpl in Hf; [destruct Hf as [<-|[]]; intros; exact I | contradiction].
  - inversion H; subst; clear H. simpl. join_leaf Inv.
  - destruct cancelled.
    + destruct (r_mu (getr s r)); [discriminate|]. inversion H; subst; clear H. simpl.
      eapply join_transfer; [ | | exact Inv]; [|intros jid'; jcnt; destruct (r_comp (getr s r)); simpl; lia].
      intros f Hf. rewrite ?in_app_iff in Hf. destruct Hf as [Hf|[Hf|Hf]];
        [left; right; apply in_app_iff; tauto | left; right; apply in_app_iff; tauto |].
      right. destruct (r_comp (getr s r)); simpl in Hf; [destruct Hf as [<-|[]]; intros; exact I | contradiction].
    + inversion H; subst; clear H. simpl. join_leaf Inv.
  - (* FOutAdd *)
    destruct (Nat.ltb n (length (s_nodes s))); [|discriminate]. unfold g_add_out_released in H. inversion H; subst; clear H. simpl.
    eapply join_transfer; [ | | exact Inv].
    + intros f Hf. rewrite ?in_app_iff in Hf. destruct Hf as [Hf|[Hf|Hf]]; [left; right; apply in_app_iff; tauto | left; right; apply in_app_iff; tauto |].
      right. destruct (n_inv (getn (s_nodes s) n)), (is_nil (n_out (getn (s_nodes s) n))); simpl in Hf; repeat (destruct Hf as [<-|Hf]); try contradiction; intros; exact I.
    + intros jid. jcnt. destruct (n_inv (getn (s_nodes s) n)), (is_nil (n_out (getn (s_nodes s) n))); simpl; lia.
  - inversion H; subst; clear H. join_leaf Inv.
Qed.

Lemma exhausted_bend : forall jid f, exhausted f = true -> is_bend jid f = false.
Proof. intros jid f H. destruct f; simpl in *; try discriminate; reflexivity. Qed.

Lemma step_join : forall s l s', join_inv s -> step s l = Some s' -> join_inv s'.
Proof.
  intros s l s' Inv H. unfold join_inv in *. destruct l.
  - destruct (step_task_frames _ _ _ _ H) as [f [rest [s1 [st [sp [others [dropped [P1 [T [D1 [D2 [P2 [_ [_ [_ J]]]]]]]]]]]]]]].
    rewrite J. eapply join_on_perm; [apply Permutation_sym; exact P2|].
    assert (K := step_top_join _ _ _ _ _ _ _ others T (join_on_perm _ _ _ P1 Inv)).
    eapply join_transfer; [ | | exact K].
    + intros g Hg. left. rewrite D1. rewrite !in_app_iff in *. tauto.
    + intros jid. rewrite D1 at 2. rewrite !count_app. rewrite (count_zero_forall (is_bend jid) exhausted dropped (exhausted_bend jid) D2). reflexivity.
  - simpl in H. destruct (Nat.ltb slot (length (s_slots s))); [|discriminate]. inversion H; subst; clear H.
    rewrite frames_spawn. unfold all_frames in *. simpl.
    eapply join_transfer; [ | | exact Inv]; [|intros jid; rewrite count_app; simpl; lia].
    intros f Hf. apply in_app_iff in Hf. destruct Hf as [Hf|[<-|[]]]; [left; exact Hf | right; intros; exact I].
  - simpl in H. destruct (Nat.ltb slot (length (s_slots s))); [|discriminate]. inversion H; subst; clear H.
    rewrite frames_spawn. unfold all_frames in *. simpl.
    eapply join_transfer; [ | | exact Inv]; [|intros jid; rewrite count_app; simpl; lia].
    intros f Hf. apply in_app_iff in Hf. destruct Hf as [Hf|[<-|[]]]; [left; exact Hf | right; intros; exact I].
  - simpl in H. destruct (Nat.ltb r (length (s_rrs s))); [|discriminate]. inversion H; subst; clear H.
    rewrite frames_spawn. unfold all_frames in *. simpl.
    eapply join_transfer; [ | | exact Inv]; [|intros jid; rewrite count_app; simpl; lia].
    intros f Hf. apply in_app_iff in Hf. destruct Hf as [Hf|[<-|[]]]; [left; exact Hf | right; intros; exact I].
  - simpl in H. destruct (Nat.ltb r (length (s_rrs s))); [|discriminate].
    destruct (r_clock (getr s r)); [discriminate|]. inversion H; subst; clear H. exact Inv.
  - simpl in H. destruct (Nat.eqb (n_timer (getN s n)) 1); [|discriminate]. inversion H; subst; clear H.
    rewrite frames_spawn. unfold all_frames in *. simpl.
    eapply join_transfer; [ | | exact Inv]; [|intros jid; rewrite count_app; simpl; lia].
    intros f Hf. apply in_app_iff in Hf. destruct Hf as [Hf|[<-|[]]]; [left; exact Hf | right; intros; exact I].
  - simpl in H. destruct (Nat.ltb slot (length (s_slots s))); [|discriminate]. inversion H; subst; clear H.
    rewrite frames_spawn. unfold all_frames in *. simpl.
    eapply join_transfer; [ | | exact Inv]; [|intros jid; rewrite count_app; simpl; lia].
    intros f Hf. apply in_app_iff in Hf. destruct Hf as [Hf|[<-|[]]]; [left; exact Hf | right; intros; exact I].
  - simpl in H. destruct (Nat.ltb r (length (s_rrs s))); [|discriminate]. inversion H; subst; clear H. exact Inv.
Qed.

Lemma init_join : forall k progs, join_inv (init k progs).
Proof.
  intros k progs. unfold join_inv, init, all_frames. simpl. split.
  - intros f Hf. assert (G : forall n j g, In g (concat (map snd (init_tasks n j))) -> exists r, g = FRunWait r).
    { induction n as [|n IH]; intros j g Hg; simpl in Hg; [contradiction|]. destruct Hg as [<-|Hg]; [eexists; reflexivity | eapply IH; exact Hg]. }
    destruct (G _ _ _ Hf) as [r ->]. exact I.
  - intros jid. rewrite init_tasks_counts by reflexivity. destruct jid; reflexivity.
Qed.

Lemma reachable_join : forall k progs s, reachable (init k progs) s -> join_inv s.
Proof.
  intros k progs s R. induction R as [|s l s' R IH H]; [apply init_join | eapply step_join; eauto].
Qed.

(** ** the shape of a branch goroutine's stack *)
Definition above_bend_ok (f : frame) : bool :=
  match f with FBranchBegin _ _ => true | _ => script_kind f end.

Definition bends (st : list frame) : list nat :=
  flat_map (fun f => match f with FBranchEnd j => [j] | _ => [] end) st.

Fixpoint jshape (st : list frame) : Prop :=
  match st with
  | [] => True
  | f :: t =>
      (bends t <> [] -> above_bend_ok f = true) /\
      (forall r j j', f = FJoin r j -> In j' (bends t) -> j' < j) /\
      jshape t
  end.

Lemma jshape_app : forall a b, jshape (a ++ b) -> jshape b.
Proof. induction a as [|h t IH]; simpl; intros b H; [exact H | apply IH; apply H]. Qed.

Lemma bends_in : forall st j, In j (bends st) <-> In (FBranchEnd j) st.
Proof.
  induction st as [|f t IH]; intros j; simpl; [tauto|]. rewrite in_app_iff, IH. destruct f; simpl; split; intros H;
    try (destruct H as [H|H]; [contradiction || discriminate | right; exact H]); try tauto.
  - destruct H as [[<-|[]]|H]; [left; reflexivity | right; exact H].
  - destruct H as [H|H]; [left; left; inversion H; reflexivity | right; exact H].
Qed.

Lemma jshape_nonscript : forall f rest, jshape (f :: rest) -> above_bend_ok f = false -> bends rest = [].
Proof.
  intros f rest [H _] N. destruct (bends rest) eqn:E; [reflexivity|]. rewrite H in N; [discriminate | discriminate].
Qed.

Definition stack_j (nj : nat) (st : list frame) : Prop := jshape st /\ forall j, In j (bends st) -> j < nj.

Lemma do_fail_jshape : forall s r stk retry s1 st sp,
  do_fail s r stk retry = Some (s1, st, sp) -> jshape stk ->
  jshape st /\ (forall j, In j (bends st) -> In j (bends stk)) /\ length (s_joins s1) = length (s_joins s) /\
  (forall t, In t sp -> jshape t /\ bends t = []).
Proof.
  intros s r stk retry s1 st sp H Js.
  destruct (do_fail_spec _ _ _ _ _ _ _ H) as [cs [ks [below [term [y [U [N [Sl [R [Y1 [Y2 [Y3 [Y4 [Y5 [Y6 [Y7 [Y8 T]]]]]]]]]]]]]]]]].
  destruct (unwind_split _ _ _ _ _ _ U) as [d [l [E [_ [L _]]]]]. subst stk.
  apply jshape_app in Js. destruct Js as [J1 [_ J3]].
  assert (Be : bends below = []).
  { destruct (bends below) eqn:Q; [reflexivity|]. exfalso. assert (K : above_bend_ok l = true) by (apply J1; discriminate).
    destruct term; simpl in L; [subst l | destruct L as [c ->]]; discriminate. }
  assert (RI : forall t cs0, In t (map (fun c0 => [FRelEnter c0]) cs0) -> jshape t /\ bends t = []).
  { intros t cs0 Ht. apply in_map_iff in Ht. destruct Ht as [x [<- _]]. simpl. repeat split; auto; intros; try discriminate; contradiction. }
  destruct term as [jid|]; simpl in L.
  - subst l. destruct T as [-> [-> [_ [_ Jn]]]]. split; [|split; [|split]].
    + simpl. rewrite Be. repeat split; auto; intros; try discriminate; contradiction.
    + intros j Hj. simpl in Hj. rewrite Be in Hj. rewrite bends_in. apply in_app_iff. right. left.
      destruct Hj as [<-|[]]. reflexivity.
    + rewrite Jn. unfold set_join_failed. apply length_setl.
    + intros t0 Ht. eapply RI; exact Ht.
  - destruct L as [c ->]. destruct T as [-> [Jn Rest]]. split; [|split; [|split]].
    + simpl. rewrite Be. repeat split; auto; intros; try discriminate; contradiction.
    + intros j Hj. simpl in Hj. rewrite Be in Hj. contradiction.
    + rewrite Jn. reflexivity.
    + intros t0 Ht. destruct Rest as [[_ [-> _]]|[_ [-> _]]].
      * apply in_app_iff in Ht. destruct Ht as [Ht|[<-|[]]]; [eapply RI; exact Ht|].
        simpl. repeat split; auto; intros; try discriminate; contradiction.
      * eapply RI; exact Ht.
Qed.

Lemma inv_step_jshape : forall s n k s1 st sp,
  inv_step s n k = Some (s1, st, sp) -> jshape k -> bends k = [] ->
  jshape st /\ bends st = [] /\ s_joins s1 = s_joins s /\ (forall t, In t sp -> jshape t /\ bends t = []).
Proof.
  intros s n k s1 st sp H Jk Bk. unfold inv_step in H.
  destruct (Nat.ltb n (length (s_nodes s))); [|discriminate].
  destruct (n_inv (getN s n)); [inversion H; subst; split; [exact Jk|]; split; [exact Bk|]; split; [reflexivity|]; intros t0 []|].
  destruct (n_hinv (getN s n)) as [r|]; [destruct (r_spawn (getr s r))|]; inversion H; subst; clear H; simpl; rewrite ?Bk;
    (split; [repeat split; auto; intros; try discriminate; try contradiction|]); (split; [reflexivity|]); (split; [reflexivity|]);
    intros t Ht; try contradiction.
  destruct Ht as [<-|[]]. simpl. repeat split; auto; intros; try discriminate; contradiction.
Qed.

Lemma do_add_out_jspawn : forall s n to s1 sp, do_add_out s n to = Some (s1, sp) -> forall t, In t sp -> jshape t /\ bends t = [].
Proof.
  intros s n to s1 sp H t Ht. unfold do_add_out in H.
  destruct (Nat.ltb n (length (s_nodes s)) && Nat.ltb to (length (s_nodes s)) && negb (Nat.eqb n to)); [|discriminate].
  destruct (g_add_out (s_nodes s) n to) as [g [[a b] c]]. inversion H; subst; clear H.
  destruct b, c; simpl in Ht; repeat (destruct Ht as [<-|Ht]); try contradiction;
    simpl; repeat split; auto; intros; try discriminate; contradiction.
Qed.

(* a new stack made of frames [pre] pushed on [rest] *)
Lemma jshape_push_ok : forall pre rest,
  jshape rest -> forallb above_bend_ok pre = true -> (forall r j, ~ In (FJoin r j) pre) -> bends pre = [] ->
  jshape (pre ++ rest) /\ bends (pre ++ rest) = bends rest.
Proof.
  induction pre as [|f t IH]; intros rest Jr Ok Nj Bp; simpl; [split; [exact Jr | reflexivity]|].
  simpl in Ok. apply andb_true_iff in Ok. destruct Ok as [O1 O2].
  assert (Bf : (match f with FBranchEnd j => [j] | _ => [] end) = [] /\ bends t = []).
  { simpl in Bp. destruct f; simpl in *; try (split; [reflexivity | exact Bp]). discriminate. }
  destruct Bf as [Bf Bt].
  destruct (IH rest Jr O2 (fun r j Q => Nj r j (or_intror Q)) Bt) as [I1 I2].
  split.
  - split; [intros _; exact O1|]. split; [|exact I1].
    intros r j j' E. subst f. exfalso. apply (Nj r j). left. reflexivity.
  - unfold bends in *. simpl. rewrite Bf. simpl. exact I2.
Qed.

Lemma jshape_nobend : forall st, bends st = [] -> jshape st.
Proof.
  induction st as [|f t IH]; simpl; intros H; [exact I|].
  assert (Bt : bends t = []) by (unfold bends in *; simpl in H; apply app_eq_nil in H; apply H).
  rewrite Bt. split; [intros Q; contradiction|]. split; [intros r j j' _ []|apply IH; exact Bt].
Qed.

Definition jres (s1 : state) (st : list frame) (sp : list (list frame)) (nj : nat) : Prop :=
  jshape st /\ (forall j, In j (bends st) -> j < length (s_joins s1)) /\ nj <= length (s_joins s1) /\
  (forall t, In t sp -> jshape t /\ forall j, In j (bends t) -> j < length (s_joins s1)).

(* the two ways a leaf is discharged *)
Lemma jres_nobend : forall s1 st sp nj,
  bends st = [] -> nj <= length (s_joins s1) -> (forall t, In t sp -> jshape t /\ bends t = []) -> jres s1 st sp nj.
Proof.
  intros s1 st sp nj B L Hsp. split; [apply jshape_nobend; exact B|]. split; [rewrite B; intros j []|]. split; [exact L|].
  intros t Ht. destruct (Hsp t Ht) as [J Bt]. split; [exact J | rewrite Bt; intros j []].
Qed.

Lemma jres_push : forall s1 pre rest sp nj,
  jshape rest -> (forall j, In j (bends rest) -> j < nj) -> nj <= length (s_joins s1) ->
  forallb above_bend_ok pre = true -> (forall r j, ~ In (FJoin r j) pre) -> bends pre = [] ->
  (forall t, In t sp -> jshape t /\ bends t = []) -> jres s1 (pre ++ rest) sp nj.
Proof.
  intros s1 pre rest sp nj Jr Br L Ok Nj Bp Hsp.
  destruct (jshape_push_ok pre rest Jr Ok Nj Bp) as [J B]. split; [exact J|]. split; [rewrite B; intros j Hj; specialize (Br j Hj); lia|].
  split; [exact L|]. intros t Ht. destruct (Hsp t Ht) as [Jt Bt]. split; [exact Jt | rewrite Bt; intros j []].
Qed.

Lemma step_top_jshape : forall s f rest arg s1 st sp,
  step_top s f rest arg = Some (s1, st, sp) -> jshape (f :: rest) ->
  (forall j, In j (bends (f :: rest)) -> j < length (s_joins s)) ->
  jres s1 st sp (length (s_joins s)).
Proof.
  intros s f rest arg s1 st sp H Js Bd.
  assert (Jr : jshape rest) by apply Js.
  assert (Br : forall j, In j (bends rest) -> j < length (s_joins s)).
  { intros j Hj. apply Bd. unfold bends in *. simpl. apply in_app_iff. right. exact Hj. }
  assert (NoSp : forall t : list frame, In t (@nil (list frame)) -> jshape t /\ bends t = []) by (intros t []).
  unfold step_top in H.
  destruct f; cbv beta iota zeta in H;
    try (assert (Nb := jshape_nonscript _ _ Js eq_refl)).
  - destruct (memb arg l); [|discriminate].
    destruct (inv_step_jshape _ _ _ _ _ _ H) as [J1 [B1 [Jn Sp]]]; [apply jshape_nobend; simpl; exact Nb | simpl; exact Nb|].
    apply jres_nobend; [exact B1 | rewrite Jn; lia | exact Sp].
  - injection H as E1 E2 E3; subst s1 st sp. apply jres_nobend; [simpl; exact Nb | lia | exact NoSp].
  - destruct (inv_step_jshape _ _ _ _ _ _ H) as [J1 [B1 [Jn Sp]]]; [apply jshape_nobend; simpl; exact Nb | simpl; exact Nb|].
    apply jres_nobend; [exact B1 | rewrite Jn; lia | exact Sp].
  - destruct (n_rel (getN s n)); [injection H as E1 E2 E3; subst s1 st sp; apply jres_nobend; [exact Nb | lia | exact NoSp]|].
    destruct (n_hrel (getN s n)) as [[sl|]|]; injection H as E1 E2 E3; subst s1 st sp; (apply jres_nobend; [simpl; exact Nb | simpl; lia | exact NoSp]).
  - destruct (Nat.eqb (slot_res (upd_node s n (inc_cln (getN s n))) slot) n); unfold alloc in H; injection H as E1 E2 E3; subst s1 st sp;
      (apply jres_nobend; [exact Nb | simpl; lia | exact NoSp]).
  - destruct froms as [|from l]; [discriminate|].
    destruct (g_rel_dep (s_nodes s) from n) as [g shrel]. destruct shrel; injection H as E1 E2 E3; subst s1 st sp; (apply jres_nobend; [simpl; exact Nb | simpl; lia | exact NoSp]).
  - destruct (Nat.eqb arg 0); [injection H as E1 E2 E3; subst s1 st sp; apply jres_nobend; [simpl; exact Nb | lia | exact NoSp]|].
    destruct (r_cancel (getr s r)); [|discriminate]. injection H as E1 E2 E3; subst s1 st sp. apply jres_nobend; [exact Nb | lia | exact NoSp].
  - destruct (r_mu (getr s r)); [discriminate|].
    destruct (r_stop (getr s r)); injection H as E1 E2 E3; subst s1 st sp; (apply jres_nobend; [simpl; exact Nb | simpl; lia | exact NoSp]).
  - destruct (Nat.eqb arg 1); [destruct (r_cancel (getr s r)); [|discriminate]; injection H as E1 E2 E3; subst s1 st sp; apply jres_nobend; [exact Nb | simpl; lia | exact NoSp]|].
    destruct (r_clock (getr s r)); [discriminate|]. injection H as E1 E2 E3; subst s1 st sp. apply jres_nobend; [simpl; exact Nb | simpl; lia | exact NoSp].
  - destruct ks as [|k ks']; [injection H as E1 E2 E3; subst s1 st sp; apply jres_nobend; [simpl; exact Nb | simpl; lia | exact NoSp]|].
    destruct (memb arg (k :: ks')); [|discriminate].
    destruct (n_inv (getN s arg)); injection H as E1 E2 E3; subst s1 st sp; (apply jres_nobend; [simpl; exact Nb | simpl; lia | exact NoSp]).
  - unfold alloc in H. injection H as E1 E2 E3; subst s1 st sp. apply jres_nobend; [simpl; exact Nb | simpl; lia | exact NoSp].
  - (* FScript *)
    destruct p as [|o q]; [discriminate|].
    assert (Keep : forall pre sp0 s0, length (s_joins s) <= length (s_joins s0) -> forallb above_bend_ok pre = true -> (forall r0 j, ~ In (FJoin r0 j) pre) -> bends pre = [] ->
                   (forall t, In t sp0 -> jshape t /\ bends t = []) -> jres s0 (pre ++ FScript r c q :: rest) sp0 (length (s_joins s))).
    { intros pre sp0 s0 L Ok Nj Bp Hsp.
      replace (pre ++ FScript r c q :: rest) with ((pre ++ [FScript r c q]) ++ rest) by (rewrite <- app_assoc; reflexivity).
      apply jres_push; auto.
      - rewrite forallb_app, Ok. reflexivity.
      - intros r0 j Hin. apply in_app_iff in Hin. destruct Hin as [Hin|[Q|[]]]; [eapply Nj; exact Hin | discriminate].
      - unfold bends in *. rewrite flat_map_app, Bp. reflexivity. }
    assert (Fail : forall retry, do_fail s r (FScript r c q :: rest) retry = Some (s1, st, sp) -> jres s1 st sp (length (s_joins s))).
    { intros retry HF.
      assert (Js' : jshape (FScript r c q :: rest)).
      { destruct Js as [A [_ C]]. split; [intros _; reflexivity|]. split; [intros r0 j j' Q; discriminate | exact C]. }
      destruct (do_fail_jshape _ _ _ _ _ _ _ HF Js') as [J1 [B1 [Ln Sp]]].
      split; [exact J1|]. split; [|split; [lia|]].
      - intros j Hj. rewrite Ln. apply Br. specialize (B1 j Hj). unfold bends in B1. simpl in B1. exact B1.
      - intros t Ht. destruct (Sp t Ht) as [Jt Bt]. split; [exact Jt | rewrite Bt; intros j []]. }
    destruct o.
    + injection H as E1 E2 E3; subst s1 st sp. apply (Keep [FDepAdd c slot (slot_res s slot)] [] s); auto. intros r0 j [Q|[]]; discriminate.
    + destruct (Nat.eqb arg 0).
      * injection H as E1 E2 E3; subst s1 st sp. apply (Keep [] [] s); auto.
      * unfold alloc in H. injection H as E1 E2 E3; subst s1 st sp. apply (Keep [FTimerReg c (length (s_nodes s))] []); auto. intros r0 j [Q|[]]; discriminate.
    + destruct (Nat.eqb arg 0).
      * destruct (memb key (r_keys (getr s r))); [discriminate|]. injection H as E1 E2 E3; subst s1 st sp.
        apply (Keep [FCacheGet r key p c; FKeyUnlock r key] []); auto. intros r0 j [Q|[Q|[]]]; discriminate.
      * destruct (Nat.eqb arg 2); [injection H as E1 E2 E3; subst s1 st sp; apply (Keep [] [] s); auto|].
        destruct (r_cancel (getr s r)); [|discriminate]. eapply Fail; eauto.
    + destruct (Nat.eqb arg 0); [injection H as E1 E2 E3; subst s1 st sp; apply (Keep [] [] s); auto | eapply Fail; eauto].
    + destruct (Nat.eqb arg 0); [injection H as E1 E2 E3; subst s1 st sp; apply (Keep [] [] s); auto | eapply Fail; eauto].
    + (* OPar: fork; the new join is younger than every branch end below *)
      injection H as E1 E2 E3; subst s1 st sp. simpl s_joins.
      assert (Jq : jshape (FScript r c q :: rest)).
      { destruct Js as [A [_ C]]. split; [intros _; reflexivity|]. split; [intros r0 j j' Q; discriminate | exact C]. }
      split; [|split; [|split]].
      * simpl. split; [intros _; reflexivity|]. split; [|exact Jq].
        intros r0 j j' Q Hj. inversion Q; subst. apply Br. unfold bends in Hj. simpl in Hj. exact Hj.
      * intros j Hj. simpl. rewrite app_length. simpl. unfold bends in Hj. simpl in Hj. specialize (Br j Hj). lia.
      * simpl. rewrite app_length. lia.
      * intros t Ht. destruct (branch_tasks_in _ _ _ _ _ _ Ht) as [idx [b [_ ->]]]. simpl. rewrite app_length. simpl. split.
        -- repeat split; auto; intros; try discriminate; try contradiction.
        -- intros j [<-|[]]. lia.
  - destruct (do_add_out s res c) as [[s2 sp2]|] eqn:A; [|discriminate]. injection H as E1 E2 E3; subst s1 st sp.
    destruct (do_add_out_join _ _ _ _ _ A) as [Jn _].
    apply (jres_push _ [FDepRead c slot] rest); auto; [rewrite Jn; lia | intros r0 j [Q|[]]; discriminate | eapply do_add_out_jspawn; eauto].
  - injection H as E1 E2 E3; subst s1 st sp. apply (jres_push _ [] rest); auto.
  - destruct (n_hrel (getN s res)); [discriminate|]. injection H as E1 E2 E3; subst s1 st sp. apply (jres_push _ [FTimerAdd c res] rest); auto. intros r0 j [Q|[]]; discriminate.
  - destruct (do_add_out s res c) as [[s2 sp2]|] eqn:A; [|discriminate]. injection H as E1 E2 E3; subst s1 st sp.
    destruct (do_add_out_join _ _ _ _ _ A) as [Jn _].
    apply (jres_push _ [] rest); auto; [rewrite Jn; lia | eapply do_add_out_jspawn; eauto].
  - unfold alloc in H. injection H as E1 E2 E3; subst s1 st sp. apply (jres_push _ [FScript r (length (s_nodes s)) p; FCacheSet r key (length (s_nodes s)) parent] rest); auto.
    intros r0 j [Q|[Q|[]]]; discriminate.
  - destruct (cache_get (r_cache (getr s r)) key); injection H as E1 E2 E3; subst s1 st sp; (apply (jres_push _ [FCacheLink child parent] rest); auto; intros r0 j [Q|[]]; discriminate).
  - destruct (do_add_out s child parent) as [[s2 sp2]|] eqn:A; [|discriminate]. injection H as E1 E2 E3; subst s1 st sp.
    destruct (do_add_out_join _ _ _ _ _ A) as [Jn _].
    apply (jres_push _ [] rest); auto; [simpl; rewrite Jn; lia | eapply do_add_out_jspawn; eauto].
  - (* FCacheGet *)
    destruct (cache_get (r_cache (getr s r)) key) as [child|]; [destruct (Nat.eqb child c); [discriminate|]|]; injection H as E1 E2 E3; subst s1 st sp.
    + apply (jres_push _ [FCacheLink child c] rest); auto. intros r0 j [Q|[]]; discriminate.
    + apply (jres_push _ [FChildBegin r key p c] rest); auto. intros r0 j [Q|[]]; discriminate.
  - injection H as E1 E2 E3; subst s1 st sp. apply (jres_push _ [] rest); auto.
  - (* FJoin *)
    destruct (nth jid (s_joins s) (0, false)) as [nb failed]. destruct (Nat.eqb nb 0); [|discriminate].
    destruct failed; [|injection H as E1 E2 E3; subst s1 st sp; apply (jres_push _ [] rest); auto].
    destruct (do_fail_jshape _ _ _ _ _ _ _ H Jr) as [J1 [B1 [Ln Sp]]].
    split; [exact J1|]. split; [|split; [lia|]].
    + intros j Hj. rewrite Ln. apply Br. apply B1. exact Hj.
    + intros t Ht. destruct (Sp t Ht) as [Jt Bt]. split; [exact Jt | rewrite Bt; intros j []].
  - injection H as E1 E2 E3; subst s1 st sp. apply (jres_push _ [] rest); auto.
  - (* FBranchEnd *)
    destruct (nth jid (s_joins s) (0, false)) as [nb failed]. injection H as E1 E2 E3; subst s1 st sp.
    assert (Brest : bends rest = []) by (apply (jshape_nonscript _ _ Js); reflexivity).
    apply jres_nobend; [exact Brest | simpl; rewrite length_setl; lia | exact NoSp].
  - injection H as E1 E2 E3; subst s1 st sp. apply jres_nobend; [simpl; exact Nb | simpl; lia|].
    intros t Ht. destruct (r_comp (getr s r)); simpl in Ht; [destruct Ht as [<-|[]]; simpl; repeat split; auto; intros; try discriminate; contradiction | contradiction].
  - destruct (negb (n_inv (getN s c)) && match n_hinv (getN s c) with Some _ => true | None => false end); [discriminate|].
    destruct (g_handle_inv (s_nodes s) c r) as [g fired]. injection H as E1 E2 E3; subst s1 st sp. apply jres_nobend; [simpl; exact Nb | simpl; lia|].
    intros t Ht. destruct fired; simpl in Ht; [destruct Ht as [<-|[]]; simpl; repeat split; auto; intros; try discriminate; contradiction | contradiction].
  - injection H as E1 E2 E3; subst s1 st sp. apply jres_nobend; [exact Nb | simpl; lia | exact NoSp].
  - destruct cancelled.
    + destruct (r_mu (getr s r)); [discriminate|]. injection H as E1 E2 E3; subst s1 st sp. apply jres_nobend; [exact Nb | simpl; lia|].
      intros t Ht. destruct (r_comp (getr s r)); simpl in Ht; [destruct Ht as [<-|[]]; simpl; repeat split; auto; intros; try discriminate; contradiction | contradiction].
    + injection H as E1 E2 E3; subst s1 st sp. apply jres_nobend; [simpl; exact Nb | simpl; lia | exact NoSp].
  - (* FOutAdd *)
    destruct (Nat.ltb n (length (s_nodes s))); [|discriminate]. unfold g_add_out_released in H. injection H as E1 E2 E3; subst s1 st sp.
    apply jres_nobend; [exact Nb | simpl; lia|].
    intros t Ht. destruct (n_inv (getn (s_nodes s) n)), (is_nil (n_out (getn (s_nodes s) n))); simpl in Ht; repeat (destruct Ht as [<-|Ht]); try contradiction; simpl; repeat split; auto; intros; try discriminate; contradiction.
  - injection H as E1 E2 E3; subst s1 st sp. apply jres_nobend; [exact Nb | lia | exact NoSp].
Qed.

Definition jtasks_ok (s : state) : Prop :=
  forall tid st, In (tid, st) (s_tasks s) -> jshape st /\ forall j, In j (bends st) -> j < length (s_joins s).

Lemma bends_app : forall a b, bends (a ++ b) = bends a ++ bends b.
Proof. intros. unfold bends. apply flat_map_app. Qed.

Lemma single_j : forall f nj, (forall j, f <> FBranchEnd j) -> jshape [f] /\ forall j, In j (bends [f]) -> j < nj.
Proof.
  intros f nj H. split; [simpl; repeat split; auto; intros; contradiction|].
  intros j Hj. apply bends_in in Hj. destruct Hj as [Q|[]]. exfalso. eapply H. exact Q.
Qed.

Lemma step_jtasks : forall s l s', jtasks_ok s -> step s l = Some s' -> jtasks_ok s'.
Proof.
  intros s l s' Inv H. destruct l.
  - unfold step in H.
    destruct (find_task (s_tasks s) tid) as [[|f rest]|] eqn:F; try discriminate.
    destruct (step_top s f rest arg) as [[[s1 st] sp]|] eqn:T; try discriminate.
    inversion H; subst s'; clear H.
    destruct (find_task_split _ _ _ F) as [pre [post [E1 E2]]].
    destruct (step_top_tid _ _ _ _ _ _ _ T) as [Ti Ta].
    assert (Sf := Inv tid (f :: rest)). rewrite E1 in Sf. destruct Sf as [Jf Bf]; [apply in_app_iff; right; left; reflexivity|].
    destruct (step_top_jshape _ _ _ _ _ _ _ T Jf Bf) as [Jst [Bst [Ln Sp]]].
    intros tid' st' Hin. unfold spawn in Hin. simpl in Hin. simpl s_joins. rewrite Ta, E2 in Hin.
    rewrite !in_app_iff in Hin. destruct Hin as [[Hin|[Hin|Hin]]|Hin].
    + destruct (Inv tid' st') as [J B]; [rewrite E1; apply in_app_iff; left; exact Hin|]. split; [exact J | intros j Hj; specialize (B j Hj); lia].
    + unfold task_list in Hin. destruct (norm st) eqn:En; simpl in Hin; [contradiction|]. destruct Hin as [Q|[]]. inversion Q; subst tid' st'.
      destruct (norm_split st) as [d [E _]]. rewrite En in E. rewrite E in Jst, Bst.
      split; [eapply jshape_app; exact Jst|]. intros j Hj. apply Bst. rewrite bends_app. apply in_app_iff. right. exact Hj.
    + destruct (Inv tid' st') as [J B]; [rewrite E1; apply in_app_iff; right; right; exact Hin|]. split; [exact J | intros j Hj; specialize (B j Hj); lia].
    + destruct (number_from_in _ _ _ _ Hin) as [_ Hs]. apply Sp. exact Hs.
  - simpl in H. destruct (Nat.ltb slot (length (s_slots s))); [|discriminate]. inversion H; subst; clear H.
    intros tid st Hin. unfold spawn in Hin. simpl in Hin. apply in_app_iff in Hin. destruct Hin as [Hin|[Q|[]]]; [exact (Inv tid st Hin)|].
    inversion Q; subst. apply single_j. intros j; discriminate.
  - simpl in H. destruct (Nat.ltb slot (length (s_slots s))); [|discriminate]. inversion H; subst; clear H.
    intros tid st Hin. unfold spawn in Hin. simpl in Hin. apply in_app_iff in Hin. destruct Hin as [Hin|[Q|[]]]; [exact (Inv tid st Hin)|].
    inversion Q; subst. apply single_j. intros j; discriminate.
  - simpl in H. destruct (Nat.ltb r (length (s_rrs s))); [|discriminate]. inversion H; subst; clear H.
    intros tid st Hin. unfold spawn in Hin. simpl in Hin. apply in_app_iff in Hin. destruct Hin as [Hin|[Q|[]]]; [exact (Inv tid st Hin)|].
    inversion Q; subst. apply single_j. intros j; discriminate.
  - simpl in H. destruct (Nat.ltb r (length (s_rrs s))); [|discriminate].
    destruct (r_clock (getr s r)); [discriminate|]. inversion H; subst; clear H. exact Inv.
  - simpl in H. destruct (Nat.eqb (n_timer (getN s n)) 1); [|discriminate]. inversion H; subst; clear H.
    intros tid st Hin. unfold spawn in Hin. simpl in Hin. apply in_app_iff in Hin. destruct Hin as [Hin|[Q|[]]]; [exact (Inv tid st Hin)|].
    inversion Q; subst. apply single_j. intros j; discriminate.
  - simpl in H. destruct (Nat.ltb slot (length (s_slots s))); [|discriminate]. inversion H; subst; clear H.
    intros tid st Hin. unfold spawn in Hin. simpl in Hin. apply in_app_iff in Hin. destruct Hin as [Hin|[Q|[]]]; [exact (Inv tid st Hin)|].
    inversion Q; subst. apply single_j. intros j; discriminate.
  - simpl in H. destruct (Nat.ltb r (length (s_rrs s))); [|discriminate]. inversion H; subst; clear H. exact Inv.
Qed.

Lemma init_jtasks : forall k progs, jtasks_ok (init k progs).
Proof.
  intros k progs tid st Hin. unfold init in Hin. simpl in Hin.
  assert (G : forall n j, In (tid, st) (init_tasks n j) -> st = [FRunWait tid]).
  { induction n as [|n IH]; intros j Q; simpl in Q; [contradiction|]. destruct Q as [Q|Q]; [inversion Q; reflexivity | eapply IH; exact Q]. }
  rewrite (G _ _ Hin). apply single_j. intros j; discriminate.
Qed.

Lemma reachable_jtasks : forall k progs s, reachable (init k progs) s -> jtasks_ok s.
Proof.
  intros k progs s R. induction R as [|s l s' R IH H]; [apply init_jtasks | eapply step_jtasks; eauto].
Qed.

(** ** the error return is always possible below a frame of the compute function *)
Definition uw_req (f : frame) : option nat :=
  match f with
  | FScript r _ _ | FJoin r _ | FChildBegin r _ _ _ | FCacheGet r _ _ _ => Some r
  | _ => None
  end.

Fixpoint uwshape (st : list frame) : Prop :=
  match st with
  | [] => True
  | f :: t => (forall r, uw_req f = Some r -> unwind r t <> None) /\ uwshape t
  end.

Lemma uwshape_app : forall a b, uwshape (a ++ b) -> uwshape b.
Proof. induction a as [|h t IH]; simpl; intros b H; [exact H | apply IH; apply H]. Qed.

Lemma uw_single : forall f, uw_req f = None -> uwshape [f].
Proof. intros f H. simpl. split; [intros r Q; congruence | exact I]. Qed.

Lemma do_fail_uw : forall s r stk retry s1 st sp,
  do_fail s r stk retry = Some (s1, st, sp) -> uwshape stk -> uwshape st /\ forall t, In t sp -> uwshape t.
Proof.
  intros s r stk retry s1 st sp H U.
  destruct (do_fail_spec _ _ _ _ _ _ _ H) as [cs [ks [below [term [y [Uw [N [Sl [R [Y1 [Y2 [Y3 [Y4 [Y5 [Y6 [Y7 [Y8 T]]]]]]]]]]]]]]]]].
  destruct (unwind_split _ _ _ _ _ _ Uw) as [d [l [E _]]]. subst stk.
  apply uwshape_app in U. destruct U as [_ Ub].
  assert (RI : forall t cs0, In t (map (fun c0 => [FRelEnter c0]) cs0) -> uwshape t).
  { intros t cs0 Ht. apply in_map_iff in Ht. destruct Ht as [x [<- _]]. apply uw_single. reflexivity. }
  destruct term as [jid|].
  - destruct T as [-> [-> _]]. split; [simpl; split; [intros r0 Q; discriminate | exact Ub] | intros t Ht; eapply RI; exact Ht].
  - destruct T as [-> [_ [[_ [-> _]]|[_ [-> _]]]]]; (split; [simpl; split; [intros r0 Q; discriminate | exact Ub]|]); intros t Ht.
    + apply in_app_iff in Ht. destruct Ht as [Ht|[<-|[]]]; [eapply RI; exact Ht | apply uw_single; reflexivity].
    + eapply RI; exact Ht.
Qed.

Lemma inv_step_uw : forall s n k s1 st sp,
  inv_step s n k = Some (s1, st, sp) -> uwshape k -> uwshape st /\ forall t, In t sp -> uwshape t.
Proof.
  intros s n k s1 st sp H Uk. unfold inv_step in H.
  destruct (Nat.ltb n (length (s_nodes s))); [|discriminate].
  destruct (n_inv (getN s n)); [inversion H; subst; split; [exact Uk | intros t []]|].
  destruct (n_hinv (getN s n)) as [r|]; [destruct (r_spawn (getr s r))|]; inversion H; subst; clear H; simpl;
    (split; [repeat split; auto; intros r0 Q; discriminate|]); intros t Ht; try contradiction.
  destruct Ht as [<-|[]]. apply uw_single. reflexivity.
Qed.

Lemma do_add_out_uw : forall s n to s1 sp, do_add_out s n to = Some (s1, sp) -> forall t, In t sp -> uwshape t.
Proof.
  intros s n to s1 sp H t Ht. unfold do_add_out in H.
  destruct (Nat.ltb n (length (s_nodes s)) && Nat.ltb to (length (s_nodes s)) && negb (Nat.eqb n to)); [|discriminate].
  destruct (g_add_out (s_nodes s) n to) as [g [[a b] c]]. inversion H; subst; clear H.
  destruct b, c; simpl in Ht; repeat (destruct Ht as [<-|Ht]); try contradiction; apply uw_single; reflexivity.
Qed.

Ltac uw_push Ur := simpl; repeat split; auto; try exact Ur; intros ? Q; try discriminate Q.

Lemma step_top_uw : forall s f rest arg s1 st sp,
  step_top s f rest arg = Some (s1, st, sp) -> uwshape (f :: rest) ->
  uwshape st /\ forall t, In t sp -> uwshape t.
Proof.
  intros s f rest arg s1 st sp H U.
  assert (Ur : uwshape rest) by apply U.
  assert (NoSp : forall t : list frame, In t (@nil (list frame)) -> uwshape t) by (intros t []).
  unfold step_top in H.
  destruct f; cbv beta iota zeta in H.
  - destruct (memb arg l); [|discriminate]. eapply inv_step_uw; [exact H|]. uw_push Ur.
  - injection H as E1 E2 E3; subst s1 st sp. split; [uw_push Ur | exact NoSp].
  - eapply inv_step_uw; [exact H|]. uw_push Ur.
  - destruct (n_rel (getN s n)); [injection H as E1 E2 E3; subst s1 st sp; split; [exact Ur | exact NoSp]|].
    destruct (n_hrel (getN s n)) as [[sl|]|]; injection H as E1 E2 E3; subst s1 st sp; (split; [uw_push Ur | exact NoSp]).
  - destruct (Nat.eqb (slot_res (upd_node s n (inc_cln (getN s n))) slot) n); unfold alloc in H; injection H as E1 E2 E3; subst s1 st sp; (split; [exact Ur | exact NoSp]).
  - destruct froms as [|from l]; [discriminate|].
    destruct (g_rel_dep (s_nodes s) from n) as [g shrel]. destruct shrel; injection H as E1 E2 E3; subst s1 st sp; (split; [uw_push Ur | exact NoSp]).
  - destruct (Nat.eqb arg 0); [injection H as E1 E2 E3; subst s1 st sp; split; [uw_push Ur | exact NoSp]|].
    destruct (r_cancel (getr s r)); [|discriminate]. injection H as E1 E2 E3; subst s1 st sp. split; [exact Ur | exact NoSp].
  - destruct (r_mu (getr s r)); [discriminate|]. destruct (r_stop (getr s r)); injection H as E1 E2 E3; subst s1 st sp; (split; [uw_push Ur | exact NoSp]).
  - destruct (Nat.eqb arg 1); [destruct (r_cancel (getr s r)); [|discriminate]; injection H as E1 E2 E3; subst s1 st sp; split; [exact Ur | exact NoSp]|].
    destruct (r_clock (getr s r)); [discriminate|]. injection H as E1 E2 E3; subst s1 st sp. split; [uw_push Ur | exact NoSp].
  - destruct ks as [|k ks']; [injection H as E1 E2 E3; subst s1 st sp; split; [uw_push Ur | exact NoSp]|].
    destruct (memb arg (k :: ks')); [|discriminate]. destruct (n_inv (getN s arg)); injection H as E1 E2 E3; subst s1 st sp; (split; [uw_push Ur | exact NoSp]).
  - (* FBegin *)
    unfold alloc in H. injection H as E1 E2 E3; subst s1 st sp. split; [|exact NoSp].
    simpl. split; [intros r0 Q; inversion Q; subst; rewrite Nat.eqb_refl; discriminate|]. split; [intros r0 Q; discriminate | exact Ur].
  - (* FScript *)
    destruct p as [|o q]; [discriminate|].
    assert (Uq : unwind r rest <> None) by (destruct U as [U1 _]; apply U1; reflexivity).
    assert (Keep : uwshape (FScript r c q :: rest)) by (simpl; split; [intros r0 Q; inversion Q; subst; exact Uq | exact Ur]).
    assert (Fail : forall retry, do_fail s r (FScript r c q :: rest) retry = Some (s1, st, sp) -> uwshape st /\ forall t, In t sp -> uwshape t).
    { intros retry HF. eapply do_fail_uw; eauto. }
    destruct o.
    + injection H as E1 E2 E3; subst s1 st sp. split; [simpl; split; [intros r0 Q; discriminate | exact Keep] | exact NoSp].
    + destruct (Nat.eqb arg 0); [|unfold alloc in H]; injection H as E1 E2 E3; subst s1 st sp;
        (split; [first [exact Keep | simpl; split; [intros r0 Q; discriminate | exact Keep]] | exact NoSp]).
    + destruct (Nat.eqb arg 0).
      * destruct (memb key (r_keys (getr s r))); [discriminate|]. injection H as E1 E2 E3; subst s1 st sp. split; [|exact NoSp].
        split; [intros r0 Q; simpl in Q; inversion Q; subst r0; simpl; rewrite !Nat.eqb_refl; destruct (unwind r rest) as [[[[? ?] ?] ?]|]; [discriminate | congruence]|].
        split; [intros r0 Q; discriminate | exact Keep].
      * destruct (Nat.eqb arg 2); [injection H as E1 E2 E3; subst s1 st sp; split; [exact Keep | exact NoSp]|].
        destruct (r_cancel (getr s r)); [|discriminate]. eapply Fail; eauto.
    + destruct (Nat.eqb arg 0); [injection H as E1 E2 E3; subst s1 st sp; split; [exact Keep | exact NoSp] | eapply Fail; eauto].
    + destruct (Nat.eqb arg 0); [injection H as E1 E2 E3; subst s1 st sp; split; [exact Keep | exact NoSp] | eapply Fail; eauto].
    + (* OPar *)
      injection H as E1 E2 E3; subst s1 st sp. split.
      * simpl. split; [intros r0 Q; inversion Q; subst; rewrite Nat.eqb_refl; exact Uq | exact Keep].
      * intros t Ht. destruct (branch_tasks_in _ _ _ _ _ _ Ht) as [idx [b [_ ->]]]. simpl.
        split; [intros r0 Q; discriminate|]. split; [intros r0 Q; discriminate|]. split; [intros r0 Q; discriminate | exact I].
  - destruct (do_add_out s res c) as [[s2 sp2]|] eqn:A; [|discriminate]. injection H as E1 E2 E3; subst s1 st sp.
    split; [simpl; split; [intros r0 Q; discriminate | exact Ur] | eapply do_add_out_uw; eauto].
  - injection H as E1 E2 E3; subst s1 st sp. split; [exact Ur | exact NoSp].
  - destruct (n_hrel (getN s res)); [discriminate|]. injection H as E1 E2 E3; subst s1 st sp. split; [simpl; split; [intros r0 Q; discriminate | exact Ur] | exact NoSp].
  - destruct (do_add_out s res c) as [[s2 sp2]|] eqn:A; [|discriminate]. injection H as E1 E2 E3; subst s1 st sp.
    split; [exact Ur | eapply do_add_out_uw; eauto].
  - (* FChildBegin *)
    assert (Uq : unwind r rest <> None) by (destruct U as [U1 _]; apply U1; reflexivity).
    unfold alloc in H. injection H as E1 E2 E3; subst s1 st sp. split; [|exact NoSp].
    split; [intros r0 Q; simpl in Q; inversion Q; subst r0; simpl; rewrite !Nat.eqb_refl; destruct (unwind r rest) as [[[[? ?] ?] ?]|]; [discriminate | congruence]|].
    split; [intros r0 Q; discriminate | exact Ur].
  - destruct (cache_get (r_cache (getr s r)) key); injection H as E1 E2 E3; subst s1 st sp; (split; [simpl; split; [intros r0 Q; discriminate | exact Ur] | exact NoSp]).
  - destruct (do_add_out s child parent) as [[s2 sp2]|] eqn:A; [|discriminate]. injection H as E1 E2 E3; subst s1 st sp.
    split; [exact Ur | eapply do_add_out_uw; eauto].
  - (* FCacheGet *)
    assert (Uq : unwind r rest <> None) by (destruct U as [U1 _]; apply U1; reflexivity).
    destruct (cache_get (r_cache (getr s r)) key) as [child|]; [destruct (Nat.eqb child c); [discriminate|]|]; injection H as E1 E2 E3; subst s1 st sp.
    + split; [simpl; split; [intros r0 Q; discriminate | exact Ur] | exact NoSp].
    + split; [simpl; split; [intros r0 Q; inversion Q; subst; exact Uq | exact Ur] | exact NoSp].
  - injection H as E1 E2 E3; subst s1 st sp. split; [exact Ur | exact NoSp].
  - (* FJoin *)
    destruct (nth jid (s_joins s) (0, false)) as [nb failed]. destruct (Nat.eqb nb 0); [|discriminate].
    destruct failed; [eapply do_fail_uw; eauto | injection H as E1 E2 E3; subst s1 st sp; split; [exact Ur | exact NoSp]].
  - injection H as E1 E2 E3; subst s1 st sp. split; [exact Ur | exact NoSp].
  - destruct (nth jid (s_joins s) (0, false)) as [nb failed]. injection H as E1 E2 E3; subst s1 st sp. split; [exact Ur | exact NoSp].
  - injection H as E1 E2 E3; subst s1 st sp. split; [uw_push Ur|].
    intros t Ht. destruct (r_comp (getr s r)); simpl in Ht; [destruct Ht as [<-|[]]; apply uw_single; reflexivity | contradiction].
  - destruct (negb (n_inv (getN s c)) && match n_hinv (getN s c) with Some _ => true | None => false end); [discriminate|].
    destruct (g_handle_inv (s_nodes s) c r) as [g fired]. injection H as E1 E2 E3; subst s1 st sp. split; [uw_push Ur|].
    intros t Ht. destruct fired; simpl in Ht; [destruct Ht as [<-|[]]; apply uw_single; reflexivity | contradiction].
  - injection H as E1 E2 E3; subst s1 st sp. split; [exact Ur | exact NoSp].
  - destruct cancelled.
    + destruct (r_mu (getr s r)); [discriminate|]. injection H as E1 E2 E3; subst s1 st sp. split; [exact Ur|].
      intros t Ht. destruct (r_comp (getr s r)); simpl in Ht; [destruct Ht as [<-|[]]; apply uw_single; reflexivity | contradiction].
    + injection H as E1 E2 E3; subst s1 st sp. split; [uw_push Ur | exact NoSp].
  - (* FOutAdd *)
    destruct (Nat.ltb n (length (s_nodes s))); [|discriminate]. unfold g_add_out_released in H. injection H as E1 E2 E3; subst s1 st sp. split; [exact Ur|].
    intros t Ht. destruct (n_inv (getn (s_nodes s) n)), (is_nil (n_out (getn (s_nodes s) n))); simpl in Ht; repeat (destruct Ht as [<-|Ht]); try contradiction; apply uw_single; reflexivity.
  - injection H as E1 E2 E3; subst s1 st sp. split; [exact Ur | exact NoSp].
Qed.

Definition uwtasks_ok (s : state) : Prop := forall tid st, In (tid, st) (s_tasks s) -> uwshape st.

Lemma step_uwtasks : forall s l s', uwtasks_ok s -> step s l = Some s' -> uwtasks_ok s'.
Proof.
  intros s l s' Inv H. destruct l.
  - unfold step in H.
    destruct (find_task (s_tasks s) tid) as [[|f rest]|] eqn:F; try discriminate.
    destruct (step_top s f rest arg) as [[[s1 st] sp]|] eqn:T; try discriminate.
    inversion H; subst s'; clear H.
    destruct (find_task_split _ _ _ F) as [pre [post [E1 E2]]].
    destruct (step_top_tid _ _ _ _ _ _ _ T) as [Ti Ta].
    assert (Uf : uwshape (f :: rest)) by (apply (Inv tid); rewrite E1; apply in_app_iff; right; left; reflexivity).
    destruct (step_top_uw _ _ _ _ _ _ _ T Uf) as [Ust Usp].
    intros tid' st' Hin. unfold spawn in Hin. simpl in Hin. rewrite Ta, E2 in Hin.
    rewrite !in_app_iff in Hin. destruct Hin as [[Hin|[Hin|Hin]]|Hin].
    + apply (Inv tid'). rewrite E1. apply in_app_iff. left. exact Hin.
    + unfold task_list in Hin. destruct (norm st) eqn:En; simpl in Hin; [contradiction|]. destruct Hin as [Q|[]]. inversion Q; subst tid' st'.
      destruct (norm_split st) as [d [E _]]. rewrite En in E. rewrite E in Ust. eapply uwshape_app. exact Ust.
    + apply (Inv tid'). rewrite E1. apply in_app_iff. right. right. exact Hin.
    + destruct (number_from_in _ _ _ _ Hin) as [_ Hs]. apply Usp. exact Hs.
  - simpl in H. destruct (Nat.ltb slot (length (s_slots s))); [|discriminate]. inversion H; subst; clear H.
    intros tid st Hin. unfold spawn in Hin. simpl in Hin. apply in_app_iff in Hin. destruct Hin as [Hin|[Q|[]]]; [exact (Inv tid st Hin)|].
    inversion Q; subst. apply uw_single. reflexivity.
  - simpl in H. destruct (Nat.ltb slot (length (s_slots s))); [|discriminate]. inversion H; subst; clear H.
    intros tid st Hin. unfold spawn in Hin. simpl in Hin. apply in_app_iff in Hin. destruct Hin as [Hin|[Q|[]]]; [exact (Inv tid st Hin)|].
    inversion Q; subst. apply uw_single. reflexivity.
  - simpl in H. destruct (Nat.ltb r (length (s_rrs s))); [|discriminate]. inversion H; subst; clear H.
    intros tid st Hin. unfold spawn in Hin. simpl in Hin. apply in_app_iff in Hin. destruct Hin as [Hin|[Q|[]]]; [exact (Inv tid st Hin)|].
    inversion Q; subst. apply uw_single. reflexivity.
  - simpl in H. destruct (Nat.ltb r (length (s_rrs s))); [|discriminate].
    destruct (r_clock (getr s r)); [discriminate|]. inversion H; subst; clear H. exact Inv.
  - simpl in H. destruct (Nat.eqb (n_timer (getN s n)) 1); [|discriminate]. inversion H; subst; clear H.
    intros tid st Hin. unfold spawn in Hin. simpl in Hin. apply in_app_iff in Hin. destruct Hin as [Hin|[Q|[]]]; [exact (Inv tid st Hin)|].
    inversion Q; subst. apply uw_single. reflexivity.
  - simpl in H. destruct (Nat.ltb slot (length (s_slots s))); [|discriminate]. inversion H; subst; clear H.
    intros tid st Hin. unfold spawn in Hin. simpl in Hin. apply in_app_iff in Hin. destruct Hin as [Hin|[Q|[]]]; [exact (Inv tid st Hin)|].
    inversion Q; subst. apply uw_single. reflexivity.
  - simpl in H. destruct (Nat.ltb r (length (s_rrs s))); [|discriminate]. inversion H; subst; clear H. exact Inv.
Qed.

Lemma reachable_uwtasks : forall k progs s, reachable (init k progs) s -> uwtasks_ok s.
Proof.
  intros k progs s R. induction R as [|s l s' R IH H]; [|eapply step_uwtasks; eauto].
  intros tid st Hin. unfold init in Hin. simpl in Hin.
  assert (G : forall n j, In (tid, st) (init_tasks n j) -> st = [FRunWait tid]).
  { induction n as [|n IH]; intros j Q; simpl in Q; [contradiction|]. destruct Q as [Q|Q]; [inversion Q; reflexivity | eapply IH; exact Q]. }
  rewrite (G _ _ Hin). apply uw_single. reflexivity.
Qed.
