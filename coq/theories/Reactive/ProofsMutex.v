(** * Reactive/ProofsMutex.v — the Mutex invariant of DESIGN.md A.3: at most one task holds r.mu, hence runs of
    one rerunner never overlap; once [stop] is set no compute is in progress and none ever starts. *)
From Coq Require Import List Arith Bool Lia Permutation.
From Thunder Require Import Reactive.Graph Reactive.Rerunner Reactive.ProofsBase.
Import ListNotations.

(** a frame between r.mu.Lock() and the deferred r.mu.Unlock() of Rerunner.run: exactly one per stack that
    holds r.mu (the frames of the compute function sit above FRunEnd) *)
Definition anchor (r : nat) (f : frame) : bool :=
  match f with
  | FCleanStart r' | FClean r' _ | FBegin r' | FRunEnd r' _ | FArm r' _ | FUnlock r' => Nat.eqb r r'
  | _ => false
  end.

(** ... of which these are before the end of handleInvalidate: a run that is going to compute, is computing, or
    is publishing *)
Definition runner (r : nat) (f : frame) : bool :=
  match f with
  | FCleanStart r' | FClean r' _ | FBegin r' | FRunEnd r' _ | FArm r' _ => Nat.eqb r r'
  | _ => false
  end.

Lemma count_exhausted : forall p d, (forall f, exhausted f = true -> p f = false) -> forallb exhausted d = true -> count p d = 0.
Proof.
  intros p d Hp. induction d as [|h t IH]; simpl; intros H; [reflexivity|].
  apply andb_true_iff in H. destruct H as [H1 H2]. rewrite (Hp _ H1), (IH H2). reflexivity.
Qed.

Lemma exhausted_anchor : forall r f, exhausted f = true -> anchor r f = false.
Proof. intros r f H. destruct f; simpl in *; try discriminate; reflexivity. Qed.
Lemma exhausted_runner : forall r f, exhausted f = true -> runner r f = false.
Proof. intros r f H. destruct f; simpl in *; try discriminate; reflexivity. Qed.

Lemma runner_le_anchor : forall r fr, count (runner r) fr <= count (anchor r) fr.
Proof.
  intros r. induction fr as [|f t IH]; simpl; [lia|].
  assert (K : (if runner r f then 1 else 0) <= (if anchor r f then 1 else 0)).
  { destruct f; simpl; try lia; destruct (Nat.eqb r r0); lia. }
  lia.
Qed.

Definition b2n (b : bool) : nat := if b then 1 else 0.

Definition mutex_on (rrs : list rr) (fr : list frame) : Prop :=
  forall r, r < length rrs ->
    count (anchor r) fr = b2n (r_mu (nth r rrs drr)) /\
    (r_stop (nth r rrs drr) = true -> count (runner r) fr = 0).

Definition mutex_inv (s : state) : Prop := mutex_on (s_rrs s) (all_frames s).

Lemma mutex_on_perm : forall rrs a b, Permutation a b -> mutex_on rrs a -> mutex_on rrs b.
Proof.
  intros rrs a b P H r Hr. destruct (H r Hr) as [H1 H2].
  rewrite <- (count_perm (anchor r) _ _ P), <- (count_perm (runner r) _ _ P). split; assumption.
Qed.

(** updates of a rerunner record that keep mu and stop *)
Definition same_ms (x y : rr) : Prop := r_mu y = r_mu x /\ r_stop y = r_stop x.

Lemma mutex_on_setl : forall rrs fr fr' r0 y,
  same_ms (nth r0 rrs drr) y ->
  (forall r, count (anchor r) fr' = count (anchor r) fr) ->
  (forall r, count (runner r) fr' <= count (runner r) fr) ->
  mutex_on rrs fr -> mutex_on (setl rrs r0 y) fr'.
Proof.
  intros rrs fr fr' r0 y [S1 S2] Ha Hr H r Hlt. rewrite length_setl in Hlt. destruct (H r Hlt) as [H1 H2].
  specialize (Hr r).
  rewrite nth_setl, Ha. destruct (Nat.eqb r0 r && Nat.ltb r0 (length rrs)) eqn:E.
  - apply andb_true_iff in E. destruct E as [E _]. apply Nat.eqb_eq in E. subst r0. rewrite S1, S2.
    split; [assumption|]. intros St. specialize (H2 St). lia.
  - split; [assumption|]. intros St. specialize (H2 St). lia.
Qed.

Lemma mutex_on_frames : forall rrs fr fr',
  (forall r, count (anchor r) fr' = count (anchor r) fr) ->
  (forall r, count (runner r) fr' <= count (runner r) fr) ->
  mutex_on rrs fr -> mutex_on rrs fr'.
Proof.
  intros rrs fr fr' Ha Hr H r Hlt. destruct (H r Hlt) as [H1 H2]. specialize (Hr r). rewrite Ha.
  split; [assumption|]. intros St. specialize (H2 St). lia.
Qed.

Lemma rels_count : forall p cs0, (forall m, p (FRelEnter m) = false) -> count p (concat (map (fun c0 => [FRelEnter c0]) cs0)) = 0.
Proof. intros p cs0 Hp. induction cs0 as [|h t IH]; simpl; [reflexivity|]. rewrite Hp, IH. reflexivity. Qed.

Lemma do_fail_mutex : forall s r stk retry s1 st sp others F0,
  do_fail s r stk retry = Some (s1, st, sp) ->
  (forall r', count (anchor r') F0 = count (anchor r') (stk ++ others)) ->
  (forall r', count (runner r') F0 = count (runner r') (stk ++ others)) ->
  mutex_on (s_rrs s) F0 -> mutex_on (s_rrs s1) (st ++ others ++ concat sp).
Proof.
  intros s r stk retry s1 st sp others F0 H Ha Hr Inv.
  destruct (do_fail_spec _ _ _ _ _ _ _ H) as [cs [ks [below [term [y [U [N [Sl [R [Y1 [Y2 [Y3 [Y4 [Y5 [Y6 [Y7 [Y8 T]]]]]]]]]]]]]]]]].
  destruct (unwind_split _ _ _ _ _ _ U) as [d [l [E [Fd [L _]]]]].
  assert (Da : forall r', count (anchor r') d = 0) by (intros r'; apply (count_zero_forall _ unw_kind); [intros f Hf; destruct f; simpl in *; try discriminate; reflexivity | exact Fd]).
  assert (Dr : forall r', count (runner r') d = 0) by (intros r'; apply (count_zero_forall _ unw_kind); [intros f Hf; destruct f; simpl in *; try discriminate; reflexivity | exact Fd]).
  rewrite R. eapply mutex_on_setl; [split; [rewrite Y1 | rewrite Y3]; reflexivity | | | exact Inv]; intros r';
    rewrite ?Ha, ?Hr, E; rewrite ?count_app; simpl; rewrite ?count_app, ?Da, ?Dr;
    destruct term as [jid|]; simpl in L.
  - subst l. destruct T as [-> [-> _]]. simpl. rewrite ?count_app, rels_count by reflexivity. simpl. lia.
  - destruct L as [c ->]. destruct T as [-> [_ [[_ [-> _]]|[_ [-> _]]]]]; simpl; rewrite ?count_app, ?concat_app, ?count_app, rels_count by reflexivity; simpl; lia.
  - subst l. destruct T as [-> [-> _]]. simpl. rewrite ?count_app, rels_count by reflexivity. simpl. lia.
  - destruct L as [c ->]. destruct T as [-> [_ [[_ [-> _]]|[_ [-> _]]]]]; simpl; rewrite ?count_app, ?concat_app, ?count_app, rels_count by reflexivity; simpl;
      destruct (Nat.eqb r' r); simpl; lia.
Qed.

Lemma do_add_out_rrs : forall s n to s1 sp, do_add_out s n to = Some (s1, sp) ->
  s_rrs s1 = s_rrs s /\ forall p, (forall l, p (FInvList l) = false) -> (forall m, p (FRelEnter m) = false) -> count p (concat sp) = 0.
Proof.
  intros s n to s1 sp H. unfold do_add_out in H.
  destruct (Nat.ltb n (length (s_nodes s)) && Nat.ltb to (length (s_nodes s)) && negb (Nat.eqb n to)); [|discriminate].
  destruct (g_add_out (s_nodes s) n to) as [g [[a b] c]]. inversion H; subst; clear H. split; [reflexivity|].
  intros p P1 P2. destruct b; destruct c; simpl; rewrite ?P1, ?P2; reflexivity.
Qed.

Ltac cnt := simpl; rewrite ?count_app; simpl; rewrite ?Nat.eqb_refl; try lia.

(* a leaf that changes no rerunner and neither adds nor removes anchor frames *)
Ltac plain_leaf Inv :=
  eapply mutex_on_frames; [| |exact Inv]; intros r'; cnt.

(* a leaf that updates rerunner [r0] keeping mu and stop *)
Ltac rr_leaf Inv :=
  eapply mutex_on_setl; [| | |exact Inv]; [split; reflexivity | intros r'; cnt | intros r'; cnt].

Lemma inv_step_counts : forall s n k s1 st sp,
  inv_step s n k = Some (s1, st, sp) ->
  s_rrs s1 = s_rrs s /\
  forall p, (forall l, p (FInvList l) = false) -> (forall r, p (FRunWait r) = false) ->
    count p (st ++ concat sp) = count p k.
Proof.
  intros s n k s1 st sp H. unfold inv_step in H.
  destruct (Nat.ltb n (length (s_nodes s))); [|discriminate].
  destruct (n_inv (getN s n)); [inversion H; subst; split; [reflexivity|]; intros; simpl; rewrite app_nil_r; reflexivity|].
  destruct (n_hinv (getN s n)) as [r|]; [destruct (r_spawn (getr s r))|]; inversion H; subst; clear H;
    (split; [reflexivity|]); intros p P1 P2; simpl; rewrite ?count_app; simpl; rewrite ?P1, ?P2; simpl; lia.
Qed.

Lemma step_top_mutex : forall s f rest arg s1 st sp others,
  step_top s f rest arg = Some (s1, st, sp) ->
  mutex_on (s_rrs s) (f :: rest ++ others) ->
  mutex_on (s_rrs s1) (st ++ others ++ concat sp).
Proof.
  intros s f rest arg s1 st sp others H Inv.
  unfold step_top in H.
  destruct f; cbv beta iota zeta in H.
  - (* FInvList *)
    destruct (memb arg l); [|discriminate].
    destruct (inv_step_counts _ _ _ _ _ _ H) as [R C]. rewrite R.
    eapply mutex_on_frames; [| |exact Inv]; intros r';
      pose proof (C (anchor r') (fun _ => eq_refl) (fun _ => eq_refl)) as C1;
      pose proof (C (runner r') (fun _ => eq_refl) (fun _ => eq_refl)) as C2;
      rewrite count_app in C1, C2; simpl in C1, C2; simpl; rewrite ?count_app in *; simpl; lia.
  - inversion H; subst; clear H. plain_leaf Inv.
  - (* FRelEnter *)
    destruct (inv_step_counts _ _ _ _ _ _ H) as [R C]. rewrite R.
    eapply mutex_on_frames; [| |exact Inv]; intros r';
      pose proof (C (anchor r') (fun _ => eq_refl) (fun _ => eq_refl)) as C1;
      pose proof (C (runner r') (fun _ => eq_refl) (fun _ => eq_refl)) as C2;
      rewrite count_app in C1, C2; simpl in C1, C2; simpl; rewrite ?count_app in *; simpl; lia.
  - destruct (n_rel (getN s n)); [inversion H; subst; clear H; plain_leaf Inv|].
    destruct (n_hrel (getN s n)) as [[sl|]|]; inversion H; subst; clear H; simpl; plain_leaf Inv.
  - destruct (Nat.eqb (slot_res (upd_node s n (inc_cln (getN s n))) slot) n);
      unfold alloc in H; inversion H; subst; clear H; simpl; plain_leaf Inv.
  - destruct froms as [|from l]; [discriminate|].
    destruct (g_rel_dep (s_nodes s) from n) as [g shrel]. destruct shrel; inversion H; subst; clear H; simpl; plain_leaf Inv.
  - (* FRunWait *)
    destruct (Nat.eqb arg 0); [inversion H; subst; clear H; plain_leaf Inv|].
    destruct (r_cancel (getr s r)); [|discriminate]. inversion H; subst; clear H; plain_leaf Inv.
  - (* FRunLock: r.mu.Lock() *)
    destruct (r_mu (getr s r)) eqn:Mu; [discriminate|].
    assert (K : forall b : bool, mutex_on (setl (s_rrs s) r (set_mu (getr s r) true))
                  ((if b then FUnlock r else FCleanStart r) :: rest ++ others) \/ r_stop (getr s r) <> b).
    { intros b. destruct (Bool.bool_dec (r_stop (getr s r)) b) as [Sb|Sb]; [left | right; exact Sb].
      intros r' Hlt. rewrite length_setl in Hlt. destruct (Inv r' Hlt) as [I1 I2]. simpl in I1, I2.
      rewrite nth_setl. destruct (Nat.eqb r r' && Nat.ltb r (length (s_rrs s))) eqn:E.
      - apply andb_true_iff in E. destruct E as [E _]. apply Nat.eqb_eq in E. subst r'.
        unfold getr in Mu, Sb. rewrite Mu in I1. simpl in I1. simpl.
        destruct b; simpl; rewrite Nat.eqb_refl; simpl.
        + split; [lia|]. intros _. apply I2. exact Sb.
        + split; [lia|]. intros St. unfold getr in St. congruence.
      - assert (Nq : Nat.eqb r' r = false).
        { destruct (Nat.eqb r' r) eqn:Q; [|reflexivity]. apply Nat.eqb_eq in Q. subst r'.
          rewrite Nat.eqb_refl in E. simpl in E. apply Nat.ltb_ge in E. lia. }
        destruct b; simpl; rewrite Nq; simpl; split; assumption. }
    destruct (r_stop (getr s r)) eqn:St; inversion H; subst; clear H; simpl.
    + destruct (K true) as [K'|K']; [|congruence]. eapply mutex_on_frames; [| |exact K']; intros r'; cnt.
    + destruct (K false) as [K'|K']; [|congruence]. eapply mutex_on_frames; [| |exact K']; intros r'; cnt.
  - (* FCleanStart *)
    destruct (Nat.eqb arg 1).
    { (* the run gives up: its context was cancelled while it held r.mu; as the deferred unlock *)
      destruct (r_cancel (getr s r)); [|discriminate]. inversion H; subst; clear H. simpl.
      intros r' Hlt. rewrite length_setl in Hlt. destruct (Inv r' Hlt) as [I1 I2]. simpl in I1, I2.
      rewrite nth_setl. destruct (Nat.eqb r r' && Nat.ltb r (length (s_rrs s))) eqn:E.
      + apply andb_true_iff in E. destruct E as [E _]. apply Nat.eqb_eq in E. subst r'.
        rewrite Nat.eqb_refl in I1, I2. simpl.
        assert (B : b2n (r_mu (nth r (s_rrs s) drr)) <= 1) by (destruct (r_mu (nth r (s_rrs s) drr)); simpl; lia).
        rewrite !count_app. simpl. rewrite !count_app in I1, I2. split; [lia|]. intros St. unfold getr in St. specialize (I2 St). lia.
      + assert (Nq : Nat.eqb r' r = false).
        { destruct (Nat.eqb r' r) eqn:Q; [|reflexivity]. apply Nat.eqb_eq in Q. subst r'.
          rewrite Nat.eqb_refl in E. simpl in E. apply Nat.ltb_ge in E. lia. }
        rewrite Nq in I1, I2. rewrite !count_app. simpl. rewrite !count_app in I1, I2. split; [lia |]. intros St. specialize (I2 St). lia. }
    destruct (r_clock (getr s r)); [discriminate|]. inversion H; subst; clear H. simpl. rr_leaf Inv.
  - (* FClean *)
    destruct ks as [|k ks'].
    + inversion H; subst; clear H. simpl. rr_leaf Inv.
    + destruct (memb arg (k :: ks')); [|discriminate].
      destruct (n_inv (getN s arg)); inversion H; subst; clear H; simpl; [rr_leaf Inv | plain_leaf Inv].
  - (* FBegin *)
    unfold alloc in H. inversion H; subst; clear H. simpl. rr_leaf Inv.
  - (* FScript *)
    destruct p as [|o q]; [discriminate|].
    assert (Fail : forall retry, do_fail s r (FScript r c q :: rest) retry = Some (s1, st, sp) ->
                   mutex_on (s_rrs s1) (st ++ others ++ concat sp)).
    { intros retry HF. eapply do_fail_mutex; [exact HF | | | exact Inv]; intros r'; reflexivity. }
    destruct o.
    + inversion H; subst; clear H; simpl; plain_leaf Inv.
    + destruct (Nat.eqb arg 0); [|unfold alloc in H]; inversion H; subst; clear H; simpl; plain_leaf Inv.
    + destruct (Nat.eqb arg 0).
      * destruct (memb key (r_keys (getr s r))); [discriminate|]. inversion H; subst; clear H; simpl. rr_leaf Inv.
      * destruct (Nat.eqb arg 2); [inversion H; subst; clear H; simpl; plain_leaf Inv|].
        destruct (r_cancel (getr s r)); [|discriminate]. eapply Fail; eauto.
    + destruct (Nat.eqb arg 0); [inversion H; subst; clear H; simpl; plain_leaf Inv | eapply Fail; eauto].
    + destruct (Nat.eqb arg 0); [inversion H; subst; clear H; simpl; plain_leaf Inv | eapply Fail; eauto].
    + (* OPar *)
      inversion H; subst; clear H. simpl.
      eapply mutex_on_frames; [| |exact Inv]; intros r'; cnt; rewrite branch_tasks_count by reflexivity; lia.
  - (* FDepAdd *)
    destruct (do_add_out s res c) as [[s2 sp2]|] eqn:A; [|discriminate]. inversion H; subst; clear H.
    destruct (do_add_out_rrs _ _ _ _ _ A) as [R C]. rewrite R.
    eapply mutex_on_frames; [| |exact Inv]; intros r'; cnt; rewrite C by reflexivity; lia.
  - inversion H; subst; clear H. simpl. plain_leaf Inv.
  - destruct (n_hrel (getN s res)); [discriminate|]. inversion H; subst; clear H. simpl. plain_leaf Inv.
  - destruct (do_add_out s res c) as [[s2 sp2]|] eqn:A; [|discriminate]. inversion H; subst; clear H.
    destruct (do_add_out_rrs _ _ _ _ _ A) as [R C]. rewrite R.
    eapply mutex_on_frames; [| |exact Inv]; intros r'; cnt; rewrite C by reflexivity; lia.
  - unfold alloc in H. inversion H; subst; clear H. simpl. plain_leaf Inv.
  - (* FCacheSet *)
    destruct (cache_get (r_cache (getr s r)) key); inversion H; subst; clear H; simpl; [plain_leaf Inv | rr_leaf Inv].
  - (* FCacheLink *)
    destruct (do_add_out s child parent) as [[s2 sp2]|] eqn:A; [|discriminate]. inversion H; subst; clear H.
    destruct (do_add_out_rrs _ _ _ _ _ A) as [R C]. simpl. rewrite R.
    eapply mutex_on_frames; [| |exact Inv]; intros r'; cnt; rewrite C by reflexivity; lia.
  - (* FCacheGet *)
    destruct (cache_get (r_cache (getr s r)) key) as [child|]; [destruct (Nat.eqb child c); [discriminate|]|];
      inversion H; subst; clear H; simpl; plain_leaf Inv.
  - (* FKeyUnlock *) inversion H; subst; clear H. simpl. rr_leaf Inv.
  - (* FJoin *)
    destruct (nth jid (s_joins s) (0, false)) as [nb failed]. destruct (Nat.eqb nb 0); [|discriminate].
    destruct failed; [|inversion H; subst; clear H; plain_leaf Inv].
    eapply do_fail_mutex; [exact H | | | exact Inv]; intros r'; reflexivity.
  - (* FBranchBegin *) inversion H; subst; clear H. plain_leaf Inv.
  - (* FBranchEnd *)
    destruct (nth jid (s_joins s) (0, false)) as [nb failed]. inversion H; subst; clear H. simpl. plain_leaf Inv.
  - (* FRunEnd *)
    inversion H; subst; clear H. simpl.
    eapply mutex_on_setl; [split; reflexivity | | | exact Inv]; intros r'; cnt;
      destruct (r_comp (getr s r)); simpl; lia.
  - (* FArm *)
    destruct (negb (n_inv (getN s c)) && match n_hinv (getN s c) with Some _ => true | None => false end); [discriminate|].
    destruct (g_handle_inv (s_nodes s) c r) as [g fired]. inversion H; subst; clear H. simpl.
    eapply mutex_on_frames; [| |exact Inv]; intros r'; cnt; destruct fired; simpl; lia.
  - (* FUnlock: r.mu.Unlock() *)
    inversion H; subst; clear H. simpl.
    intros r' Hlt. rewrite length_setl in Hlt. destruct (Inv r' Hlt) as [I1 I2]. simpl in I1, I2.
    rewrite nth_setl. destruct (Nat.eqb r r' && Nat.ltb r (length (s_rrs s))) eqn:E.
    + apply andb_true_iff in E. destruct E as [E _]. apply Nat.eqb_eq in E. subst r'.
      rewrite Nat.eqb_refl in I1. simpl.
      assert (B : b2n (r_mu (nth r (s_rrs s) drr)) <= 1) by (destruct (r_mu (nth r (s_rrs s) drr)); simpl; lia).
      rewrite !count_app. simpl. rewrite !count_app in I1, I2. split; [lia|]. intros St. unfold getr in St. specialize (I2 St). lia.
    + assert (Nq : Nat.eqb r' r = false).
      { destruct (Nat.eqb r' r) eqn:Q; [|reflexivity]. apply Nat.eqb_eq in Q. subst r'.
        rewrite Nat.eqb_refl in E. simpl in E. apply Nat.ltb_ge in E. lia. }
      rewrite Nq in I1. rewrite !count_app. simpl. rewrite !count_app in I1, I2. split; [lia |]. intros St. specialize (I2 St). lia.
  - (* FStop *)
    destruct cancelled.
    + destruct (r_mu (getr s r)) eqn:Mu; [discriminate|]. inversion H; subst; clear H. simpl.
      intros r' Hlt. rewrite length_setl in Hlt. destruct (Inv r' Hlt) as [I1 I2]. simpl in I1, I2.
      assert (C0 : forall p, count p (concat (opt_task (r_comp (getr s r)) (fun old => [FRelEnter old]))) = (if r_comp (getr s r) then 0 else 0) + count p (concat (opt_task (r_comp (getr s r)) (fun old => [FRelEnter old])))) by (intros; destruct (r_comp (getr s r)); reflexivity).
      assert (C1 : count (anchor r') (concat (opt_task (r_comp (getr s r)) (fun old => [FRelEnter old]))) = 0) by (destruct (r_comp (getr s r)); reflexivity).
      assert (C2 : count (runner r') (concat (opt_task (r_comp (getr s r)) (fun old => [FRelEnter old]))) = 0) by (destruct (r_comp (getr s r)); reflexivity).
      rewrite nth_setl. rewrite !count_app, C1, C2. rewrite !count_app in I1, I2.
      destruct (Nat.eqb r r' && Nat.ltb r (length (s_rrs s))) eqn:E.
      * apply andb_true_iff in E. destruct E as [E _]. apply Nat.eqb_eq in E. subst r'. simpl.
        unfold getr in *. rewrite Mu in *. simpl in I1. simpl. split; [lia|]. intros _.
        assert (LE := runner_le_anchor r (st ++ others)). rewrite !count_app in LE. lia.
      * split; [lia|]. intros St. specialize (I2 St). lia.
    + inversion H; subst; clear H. simpl. rr_leaf Inv.
  - (* FOutAdd *)
    destruct (Nat.ltb n (length (s_nodes s))); [|discriminate]. unfold g_add_out_released in H. inversion H; subst; clear H. simpl.
    eapply mutex_on_frames; [| |exact Inv]; intros r'; cnt; destruct (n_inv (getn (s_nodes s) n)), (is_nil (n_out (getn (s_nodes s) n))); simpl; lia.
  - (* FPhInv *) inversion H; subst; clear H. plain_leaf Inv.
Qed.

Lemma step_mutex : forall s l s', mutex_inv s -> step s l = Some s' -> mutex_inv s'.
Proof.
  intros s l s' Inv H. unfold mutex_inv in *. destruct l.
  - destruct (step_task_frames _ _ _ _ H) as [f [rest [s1 [st [sp [others [dropped [P1 [T [D1 [D2 [P2 [_ [R _]]]]]]]]]]]]]].
    rewrite R. eapply mutex_on_perm; [apply Permutation_sym; exact P2|].
    assert (K := step_top_mutex _ _ _ _ _ _ _ others T (mutex_on_perm _ _ _ P1 Inv)).
    assert (Cn : forall p, (forall f, exhausted f = true -> p f = false) -> count p st = count p (norm st)).
    { intros p Hp. assert (Q := f_equal (count p) D1). rewrite count_app, (count_exhausted _ _ Hp D2) in Q. exact Q. }
    eapply mutex_on_frames; [| |exact K]; intros r; rewrite !count_app.
    + rewrite (Cn _ (exhausted_anchor r)). reflexivity.
    + rewrite (Cn _ (exhausted_runner r)). lia.
  - simpl in H. destruct (Nat.ltb slot (length (s_slots s))); [|discriminate]. inversion H; subst; clear H.
    rewrite frames_spawn. unfold all_frames in *. simpl. eapply mutex_on_frames; [| |exact Inv]; intros r0; rewrite count_app; simpl; lia.
  - simpl in H. destruct (Nat.ltb slot (length (s_slots s))); [|discriminate]. inversion H; subst; clear H.
    rewrite frames_spawn. unfold all_frames in *. simpl. eapply mutex_on_frames; [| |exact Inv]; intros r0; rewrite count_app; simpl; lia.
  - simpl in H. destruct (Nat.ltb r (length (s_rrs s))); [|discriminate]. inversion H; subst; clear H.
    rewrite frames_spawn. unfold all_frames in *. simpl. eapply mutex_on_frames; [| |exact Inv]; intros r'; rewrite count_app; simpl; lia.
  - simpl in H. destruct (Nat.ltb r (length (s_rrs s))); [|discriminate].
    destruct (r_clock (getr s r)); [discriminate|]. inversion H; subst; clear H. simpl.
    eapply mutex_on_setl; [split; reflexivity | | | exact Inv]; intros r'; reflexivity || lia.
  - simpl in H. destruct (Nat.eqb (n_timer (getN s n)) 1); [|discriminate]. inversion H; subst; clear H.
    rewrite frames_spawn. unfold all_frames in *. simpl. eapply mutex_on_frames; [| |exact Inv]; intros r0; rewrite count_app; simpl; lia.
  - simpl in H. destruct (Nat.ltb slot (length (s_slots s))); [|discriminate]. inversion H; subst; clear H.
    rewrite frames_spawn. unfold all_frames in *. simpl. eapply mutex_on_frames; [| |exact Inv]; intros r0; rewrite count_app; simpl; lia.
  - simpl in H. destruct (Nat.ltb r (length (s_rrs s))); [|discriminate]. inversion H; subst; clear H. simpl.
    eapply mutex_on_setl; [split; reflexivity | | | exact Inv]; intros r'; reflexivity || lia.
Qed.

Lemma init_tasks_counts : forall p n k, (forall r, p (FRunWait r) = false) -> count p (concat (map snd (init_tasks n k))) = 0.
Proof. intros p n. induction n as [|n IH]; intros k Hp; simpl; [reflexivity|]. rewrite Hp, IH by exact Hp. reflexivity. Qed.

Lemma init_mutex : forall k progs, mutex_inv (init k progs).
Proof.
  intros k progs r Hr. unfold init, all_frames in *. simpl in *.
  rewrite !init_tasks_counts by reflexivity. rewrite map_length in Hr.
  assert (E : nth r (map init_rr progs) drr = init_rr (nth r progs ([], true))).
  { change drr with (init_rr ([], true)). apply map_nth. }
  rewrite E. simpl. split; [reflexivity | discriminate].
Qed.

Lemma reachable_mutex : forall k progs s, reachable (init k progs) s -> mutex_inv s.
Proof.
  intros k progs s R. induction R as [|s l s' R IH H]; [apply init_mutex | eapply step_mutex; eauto].
Qed.

(** a computation of rerunner r is in progress: between BeginCompute and Publish *)
Definition computing (r : nat) (f : frame) : bool :=
  match f with FRunEnd r' _ => Nat.eqb r r' | _ => false end.

Lemma computing_le_anchor : forall r fr, count (computing r) fr <= count (anchor r) fr.
Proof.
  intros r. induction fr as [|f t IH]; simpl; [lia|].
  assert (K : (if computing r f then 1 else 0) <= (if anchor r f then 1 else 0)).
  { destruct f; simpl; try lia; destruct (Nat.eqb r r0); lia. }
  lia.
Qed.

Lemma runs_never_overlap_lemma : forall k progs s r,
  reachable (init k progs) s -> r < length (s_rrs s) -> count (computing r) (all_frames s) <= 1.
Proof.
  intros k progs s r R Hr. destruct (reachable_mutex _ _ _ R r Hr) as [H _].
  assert (L := computing_le_anchor r (all_frames s)). destruct (r_mu (nth r (s_rrs s) drr)); simpl in H; lia.
Qed.

Lemma after_stop_lemma : forall k progs s r,
  reachable (init k progs) s -> r < length (s_rrs s) -> r_stop (getr s r) = true ->
  count (runner r) (all_frames s) = 0.
Proof. intros k progs s r R Hr St. destruct (reachable_mutex _ _ _ R r Hr) as [_ H]. apply H. exact St. Qed.

Lemma count_zero_not_in : forall p fr f, count p fr = 0 -> In f fr -> p f = false.
Proof.
  induction fr as [|h t IH]; simpl; intros f H Hin; [contradiction|].
  destruct Hin as [<-|Hin]; [destruct (p h); [discriminate | reflexivity] | apply IH; [destruct (p h); [discriminate | exact H] | exact Hin]].
Qed.

(** stop, once set, stays set *)
Lemma setl_stop : forall rrs r0 y r,
  (r_stop (nth r0 rrs drr) = true -> r_stop y = true) ->
  r_stop (nth r rrs drr) = true -> r_stop (nth r (setl rrs r0 y) drr) = true.
Proof.
  intros rrs r0 y r Hy St. rewrite nth_setl.
  destruct (Nat.eqb r0 r && Nat.ltb r0 (length rrs)) eqn:E; [|exact St].
  apply andb_true_iff in E. destruct E as [E _]. apply Nat.eqb_eq in E. subst. apply Hy. exact St.
Qed.

Lemma do_fail_rrs : forall s r stk b s1 st sp, do_fail s r stk b = Some (s1, st, sp) ->
  exists y, s_rrs s1 = setl (s_rrs s) r y /\ r_stop y = r_stop (getr s r).
Proof.
  intros s r stk b s1 st sp H.
  destruct (do_fail_spec _ _ _ _ _ _ _ H) as [cs [ks [below [term [y [U [N [Sl [R [Y1 [Y2 [Y3 _]]]]]]]]]]]].
  exists y. split; assumption.
Qed.

Lemma step_top_stop : forall s f rest arg s1 st sp r,
  step_top s f rest arg = Some (s1, st, sp) -> r_stop (getr s r) = true -> r_stop (getr s1 r) = true.
Proof.
  intros s f rest arg s1 st sp r H St.
  unfold step_top, alloc in H. unfold getr in *.
  destruct f; cbv beta iota zeta in H; dmatch H;
    repeat match goal with
    | A : do_add_out _ _ _ = Some _ |- _ => apply do_add_out_rrs in A; destruct A as [A _]
    | A : inv_step _ _ _ = Some _ |- _ => apply inv_step_counts in A; destruct A as [A _]
    | A : do_fail _ _ _ _ = Some _ |- _ => apply do_fail_rrs in A; destruct A as [? [A ?]]
    end;
    unfold getr, with_rr, with_nodes, upd_node, with_slot in *; simpl in *;
    try match goal with A : s_rrs _ = _ |- _ => rewrite A end;
    try assumption;
    apply setl_stop; try assumption; simpl; intros; congruence || reflexivity.
Qed.

Lemma step_stop_stable : forall s l s' r,
  step s l = Some s' -> r_stop (getr s r) = true -> r_stop (getr s' r) = true.
Proof.
  intros s l s' r H St. destruct l.
  - destruct (step_task_frames _ _ _ _ H) as [f [rest [s1 [st [sp [others [dropped [_ [T [_ [_ [_ [_ [R _]]]]]]]]]]]]]].
    unfold getr. rewrite R. eapply step_top_stop; eauto.
  - simpl in H. destruct (Nat.ltb slot (length (s_slots s))); [|discriminate]. inversion H; subst; clear H. exact St.
  - simpl in H. destruct (Nat.ltb slot (length (s_slots s))); [|discriminate]. inversion H; subst; clear H. exact St.
  - simpl in H. destruct (Nat.ltb r0 (length (s_rrs s))); [|discriminate]. inversion H; subst; clear H. exact St.
  - simpl in H. destruct (Nat.ltb r0 (length (s_rrs s))); [|discriminate].
    destruct (r_clock (getr s r0)); [discriminate|]. inversion H; subst; clear H.
    unfold getr, with_rr in *. simpl. rewrite nth_setl.
    destruct (Nat.eqb r0 r && Nat.ltb r0 (length (s_rrs s))) eqn:E; [|exact St].
    apply andb_true_iff in E. destruct E as [E _]. apply Nat.eqb_eq in E. subst. exact St.
  - simpl in H. destruct (Nat.eqb (n_timer (getN s n)) 1); [|discriminate]. inversion H; subst; clear H. exact St.
  - simpl in H. destruct (Nat.ltb slot (length (s_slots s))); [|discriminate]. inversion H; subst; clear H. exact St.
  - simpl in H. destruct (Nat.ltb r0 (length (s_rrs s))); [|discriminate]. inversion H; subst; clear H.
    unfold getr, with_rr in *. simpl. rewrite nth_setl.
    destruct (Nat.eqb r0 r && Nat.ltb r0 (length (s_rrs s))) eqn:E; [|exact St].
    apply andb_true_iff in E. destruct E as [E _]. apply Nat.eqb_eq in E. subst. exact St.
Qed.

Lemma run_stop_stable : forall ls s s' r, run s ls = Some s' -> r_stop (getr s r) = true -> r_stop (getr s' r) = true.
Proof.
  induction ls as [|l t IH]; simpl; intros s s' r H St; [inversion H; subst; exact St|].
  destruct (step s l) eqn:E; [|discriminate]. eapply IH; [exact H | eapply step_stop_stable; eauto].
Qed.

Lemma step_rrs_length : forall s l s', step s l = Some s' -> length (s_rrs s') = length (s_rrs s).
Proof.
  intros s l s' H. destruct l.
  - destruct (step_task_frames _ _ _ _ H) as [f [rest [s1 [st [sp [others [dropped [_ [T [_ [_ [_ [_ [R _]]]]]]]]]]]]]].
    rewrite R. clear - T. unfold step_top, alloc in T.
    destruct f; cbv beta iota zeta in T; dmatch T;
      repeat match goal with
      | A : do_add_out _ _ _ = Some _ |- _ => apply do_add_out_rrs in A; destruct A as [A _]
      | A : inv_step _ _ _ = Some _ |- _ => apply inv_step_counts in A; destruct A as [A _]
      | A : do_fail _ _ _ _ = Some _ |- _ => apply do_fail_rrs in A; destruct A as [? [A ?]]
      end;
      unfold with_rr, with_nodes, upd_node, with_slot in *; simpl in *;
      try match goal with A : s_rrs _ = _ |- _ => rewrite A end;
      rewrite ?length_setl; reflexivity.
  - simpl in H. destruct (Nat.ltb slot (length (s_slots s))); [|discriminate]. inversion H; reflexivity.
  - simpl in H. destruct (Nat.ltb slot (length (s_slots s))); [|discriminate]. inversion H; reflexivity.
  - simpl in H. destruct (Nat.ltb r (length (s_rrs s))); [|discriminate]. inversion H; reflexivity.
  - simpl in H. destruct (Nat.ltb r (length (s_rrs s))); [|discriminate].
    destruct (r_clock (getr s r)); [discriminate|]. inversion H; subst. simpl. apply length_setl.
  - simpl in H. destruct (Nat.eqb (n_timer (getN s n)) 1); [|discriminate]. inversion H; reflexivity.
  - simpl in H. destruct (Nat.ltb slot (length (s_slots s))); [|discriminate]. inversion H; reflexivity.
  - simpl in H. destruct (Nat.ltb r (length (s_rrs s))); [|discriminate]. inversion H; subst. simpl. apply length_setl.
Qed.

Lemma run_rrs_length : forall ls s s', run s ls = Some s' -> length (s_rrs s') = length (s_rrs s).
Proof.
  induction ls as [|l t IH]; simpl; intros s s' H; [inversion H; reflexivity|].
  destruct (step s l) eqn:E; [|discriminate]. rewrite (IH _ _ H). eapply step_rrs_length; eauto.
Qed.
