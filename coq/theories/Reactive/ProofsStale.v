(** * Reactive/ProofsStale.v — the Stale invariant of DESIGN.md A.3: a computation that recorded a superseded
    version of a slot is invalid, or an invalidation is on its way to it along its dependency path, or the
    strobe that superseded the version has not taken its snapshot yet. *)
From Coq Require Import List Arith Bool Lia Permutation.
From Thunder Require Import Reactive.Graph Reactive.Rerunner Reactive.ProofsBase Reactive.ProofsEdge
  Reactive.ProofsMutex Reactive.ProofsArmed Reactive.ProofsReach.
Import ListNotations.

Definition sver (slots : list (nat * nat)) (sl : nat) : nat := fst (nth sl slots (0, 0)).
Definition sres (slots : list (nat * nat)) (sl : nat) : nat := snd (nth sl slots (0, 0)).

(** a strobe of R has been requested but its snapshot not yet taken, and n is a dependant of R *)
Definition strobeP (g : graph) (fr : list frame) (n : nat) : Prop :=
  exists R, In (FStrobe R) fr /\ In n (n_out (getn g R)).

(** an invalidation will reach c: some node c depends on is invalid, or about to be marked, or about to be
    strobed *)
Definition doomed (g : graph) (fr : list frame) (c : nat) : Prop :=
  exists n, reach g n c /\ (n_inv (getn g n) = true \/ pending fr n \/ strobeP g fr n).

(** c depends on a through at least one edge *)
Definition reachplus (g : graph) (a c : nat) : Prop :=
  exists m, In m (n_out (getn g a)) /\ reach g m c.

Definition stale_on (g : graph) (slots : list (nat * nat)) (fr : list frame) : Prop :=
  (forall c sl v, In (sl, v) (n_val (getn g c)) ->
     doomed g fr c \/ (v = sver slots sl /\ reachplus g (sres slots sl) c)) /\
  (forall c sl, In (FDepRead c sl) fr -> doomed g fr c \/ reachplus g (sres slots sl) c) /\
  (forall c sl n, In (FDepAdd c sl n) fr ->
     n = sres slots sl \/ n_inv (getn g n) = true \/ pending fr n).

Definition stale_inv (s : state) : Prop := stale_on (s_nodes s) (s_slots s) (all_frames s).

(** ** monotonicity *)
Section Mono.
  Variables (g g' : graph) (fr fr' : list frame).
  Hypothesis E : forall n x, In x (n_out (getn g n)) -> In x (n_out (getn g' n)).
  Hypothesis I : forall n, n_inv (getn g n) = true -> n_inv (getn g' n) = true.
  Hypothesis P : forall x, pending fr x -> pending fr' x \/ n_inv (getn g' x) = true.
  Hypothesis T : forall R, In (FStrobe R) fr ->
      In (FStrobe R) fr' \/ (forall x, In x (n_out (getn g R)) -> pending fr' x \/ n_inv (getn g' x) = true).

  Lemma reach_mono' : forall a c, reach g a c -> reach g' a c.
  Proof. intros a c H. eapply reach_mono; [exact E | exact H]. Qed.

  Lemma reachplus_mono : forall a c, reachplus g a c -> reachplus g' a c.
  Proof. intros a c [m [H1 H2]]. exists m. split; [apply E; exact H1 | apply reach_mono'; exact H2]. Qed.

  Lemma doomed_mono : forall c, doomed g fr c -> doomed g' fr' c.
  Proof.
    intros c [n [Hr [Hi|[Hp|[R [Hs Ho]]]]]]; exists n; (split; [apply reach_mono'; exact Hr|]).
    - left. apply I. exact Hi.
    - destruct (P n Hp) as [K|K]; [right; left; exact K | left; exact K].
    - destruct (T R Hs) as [K|K].
      + right. right. exists R. split; [exact K | apply E; exact Ho].
      + destruct (K n Ho) as [Q|Q]; [right; left; exact Q | left; exact Q].
  Qed.

  (** transfer of the invariant; what is new in the target state (value pairs, FDepRead / FDepAdd frames) has
      to be justified by the caller *)
  Lemma stale_transfer : forall slots,
    (forall c sl v, In (sl, v) (n_val (getn g' c)) -> In (sl, v) (n_val (getn g c)) \/
        (doomed g' fr' c \/ (v = sver slots sl /\ reachplus g' (sres slots sl) c))) ->
    (forall c sl, In (FDepRead c sl) fr' -> In (FDepRead c sl) fr \/
        (doomed g' fr' c \/ reachplus g' (sres slots sl) c)) ->
    (forall c sl n, In (FDepAdd c sl n) fr' -> In (FDepAdd c sl n) fr \/
        (n = sres slots sl \/ n_inv (getn g' n) = true \/ pending fr' n)) ->
    stale_on g slots fr -> stale_on g' slots fr'.
  Proof.
    intros slots N1 N2 N3 [S1 [S2 S3]]. split; [|split].
    - intros c sl v Hin. destruct (N1 c sl v Hin) as [Old|New]; [|exact New].
      destruct (S1 c sl v Old) as [D|[Ev Rp]]; [left; apply doomed_mono; exact D | right; split; [exact Ev | apply reachplus_mono; exact Rp]].
    - intros c sl Hin. destruct (N2 c sl Hin) as [Old|New]; [|exact New].
      destruct (S2 c sl Old) as [D|Rp]; [left; apply doomed_mono; exact D | right; apply reachplus_mono; exact Rp].
    - intros c sl n Hin. destruct (N3 c sl n Hin) as [Old|New]; [|exact New].
      destruct (S3 c sl n Old) as [Q|[Q|Q]]; [left; exact Q | right; left; apply I; exact Q |].
      destruct (P n Q) as [K|K]; [right; right; exact K | right; left; exact K].
  Qed.
End Mono.

(** the plain case: out / inv / val unchanged, claim-carrying frames kept *)
Definition same_oiv (g g' : graph) : Prop :=
  forall n, n_out (getn g' n) = n_out (getn g n) /\ n_inv (getn g' n) = n_inv (getn g n) /\
            n_val (getn g' n) = n_val (getn g n).

Lemma same_oiv_refl : forall g, same_oiv g g.
Proof. intros g n. repeat split. Qed.
Lemma same_oiv_trans : forall a b c, same_oiv a b -> same_oiv b c -> same_oiv a c.
Proof. intros a b c H1 H2 n. destruct (H1 n) as [A1 [A2 A3]], (H2 n) as [B1 [B2 B3]]. repeat split; congruence. Qed.
Lemma same_oiv_setn : forall g i x,
  n_out x = n_out (getn g i) -> n_inv x = n_inv (getn g i) -> n_val x = n_val (getn g i) -> same_oiv g (setn g i x).
Proof.
  intros g i x H1 H2 H3 n. rewrite getn_setn.
  destruct (Nat.eqb i n && Nat.ltb i (length g)) eqn:E; [|repeat split].
  apply andb_true_iff in E. destruct E as [E _]. apply Nat.eqb_eq in E. subst. repeat split; assumption.
Qed.
Lemma same_oiv_alloc : forall g x, n_out x = [] -> n_inv x = false -> n_val x = [] -> same_oiv g (g ++ [x]).
Proof.
  intros g x H1 H2 H3 n. rewrite getn_app_new. destruct (Nat.eqb n (length g)) eqn:E; [|repeat split].
  apply Nat.eqb_eq in E. subst. rewrite getn_out_of_range by lia. repeat split; assumption.
Qed.

Ltac same_oiv_tac :=
  first
    [ apply same_oiv_refl
    | apply same_oiv_setn; reflexivity
    | apply same_oiv_alloc; reflexivity
    | eapply same_oiv_trans;
      [ | first [apply same_oiv_setn; reflexivity | apply same_oiv_alloc; reflexivity] ]; same_oiv_tac ].

(* frames that carry a claim the invariant relies on *)
Definition claim (f : frame) : bool :=
  match f with
  | FInvList _ | FRelEnter _ | FStrobe _ | FDepRead _ _ | FDepAdd _ _ _ => true
  | _ => false
  end.

Lemma stale_plain : forall g g' slots fr fr',
  same_oiv g g' ->
  (forall f, In f fr -> claim f = true -> In f fr') ->
  (forall f, In f fr' -> claim f = true -> In f fr \/ (exists l, f = FInvList l) \/ (exists n, f = FRelEnter n)) ->
  stale_on g slots fr -> stale_on g' slots fr'.
Proof.
  intros g g' slots fr fr' S K1 K2 Inv.
  assert (Pk : forall x, pending fr x -> pending fr' x).
  { intros x [f [Hf Hp]]. exists f. split; [|exact Hp]. apply K1; [exact Hf|]. destruct f; simpl in *; try contradiction; reflexivity. }
  eapply stale_transfer; [ | | | | | | | exact Inv].
  - intros n x Hx. destruct (S n) as [S1 _]. rewrite S1. exact Hx.
  - intros n Hn. destruct (S n) as [_ [S2 _]]. rewrite S2. exact Hn.
  - intros x Hp. left. apply Pk. exact Hp.
  - intros R HR. left. apply K1; [exact HR | reflexivity].
  - intros c sl v Hin. left. destruct (S c) as [_ [_ S3]]. rewrite <- S3. exact Hin.
  - intros c sl Hin. left. destruct (K2 _ Hin eq_refl) as [Q|[[l Q]|[n Q]]]; [exact Q | discriminate | discriminate].
  - intros c sl n Hin. left. destruct (K2 _ Hin eq_refl) as [Q|[[l Q]|[m Q]]]; [exact Q | discriminate | discriminate].
Qed.

(** ** slot changes: Strobe, Invalidate, re-creation of a released resource *)
Lemma stale_slot_change : forall g slots fr fr' sl ver' k,
  sl < length slots ->
  (forall f, In f fr -> claim f = true -> In f fr') ->
  (forall f, In f fr' -> claim f = true -> In f fr \/ (exists l, f = FInvList l) \/ (exists n, f = FRelEnter n) \/ (exists R, f = FStrobe R)) ->
  (forall c, reachplus g (sres slots sl) c -> doomed g fr' c) ->
  (k = sres slots sl \/ n_inv (getn g (sres slots sl)) = true \/ pending fr' (sres slots sl)) ->
  stale_on g slots fr -> stale_on g (setl slots sl (ver', k)) fr'.
Proof.
  intros g slots fr fr' sl ver' k Hsl K1 K2 Hd Hk [S1 [S2 S3]].
  assert (Pk : forall x, pending fr x -> pending fr' x).
  { intros x [f [Hf Hp]]. exists f. split; [|exact Hp]. apply K1; [exact Hf|]. destruct f; simpl in *; try contradiction; reflexivity. }
  assert (Dm : forall c, doomed g fr c -> doomed g fr' c).
  { intros c [n [Hr [Hi|[Hp|[R [Hs Ho]]]]]]; exists n; (split; [exact Hr|]);
      [left; exact Hi | right; left; apply Pk; exact Hp | right; right; exists R; split; [apply K1; [exact Hs | reflexivity] | exact Ho]]. }
  assert (Oth : forall sl', sl' <> sl -> sver (setl slots sl (ver', k)) sl' = sver slots sl' /\ sres (setl slots sl (ver', k)) sl' = sres slots sl').
  { intros sl' N. unfold sver, sres. rewrite nth_setl. assert (E : Nat.eqb sl sl' = false) by (apply Nat.eqb_neq; congruence). rewrite E. split; reflexivity. }
  assert (Self : sres (setl slots sl (ver', k)) sl = k).
  { unfold sres. rewrite nth_setl, Nat.eqb_refl. apply Nat.ltb_lt in Hsl. rewrite Hsl. reflexivity. }
  split; [|split].
  - intros c sl' v Hin. destruct (S1 c sl' v Hin) as [D|[Ev Rp]]; [left; apply Dm; exact D|].
    destruct (Nat.eq_dec sl' sl) as [->|N]; [left; apply Hd; exact Rp|].
    destruct (Oth sl' N) as [O1 O2]. right. rewrite O1, O2. split; assumption.
  - intros c sl' Hin.
    assert (Old : In (FDepRead c sl') fr).
    { destruct (K2 _ Hin eq_refl) as [Q|[[l Q]|[[n Q]|[R Q]]]]; [exact Q | discriminate | discriminate | discriminate]. }
    destruct (S2 c sl' Old) as [D|Rp]; [left; apply Dm; exact D|].
    destruct (Nat.eq_dec sl' sl) as [->|N]; [left; apply Hd; exact Rp|].
    destruct (Oth sl' N) as [_ O2]. right. rewrite O2. exact Rp.
  - intros c sl' n Hin.
    assert (Old : In (FDepAdd c sl' n) fr).
    { destruct (K2 _ Hin eq_refl) as [Q|[[l Q]|[[m Q]|[R Q]]]]; [exact Q | discriminate | discriminate | discriminate]. }
    destruct (S3 c sl' n Old) as [Q|[Q|Q]]; [|right; left; exact Q | right; right; apply Pk; exact Q].
    destruct (Nat.eq_dec sl' sl) as [->|N].
    + subst n. rewrite Self. destruct Hk as [Hk|[Hk|Hk]]; [left; congruence | right; left; exact Hk | right; right; exact Hk].
    + destruct (Oth sl' N) as [_ O2]. left. rewrite O2. exact Q.
Qed.

(** ** release(): an edge into an invalidated node is removed *)
Lemma reach_remove : forall g from n a c,
  reach g a c ->
  let g' := setn g from (set_out (getn g from) (remove_all n (n_out (getn g from)))) in
  reach g' a c \/ reach g' n c.
Proof.
  intros g from n a c H g'. induction H as [a | a m c Hin Hr IH].
  - left. apply reach_refl.
  - destruct IH as [IH|IH]; [|right; exact IH].
    destruct (Nat.eq_dec a from) as [->|Na].
    + destruct (Nat.eq_dec m n) as [->|Nm]; [right; exact IH|].
      left. eapply reach_edge; [|exact IH]. unfold g'. rewrite getn_setn.
      destruct (Nat.eqb from from && Nat.ltb from (length g)) eqn:E; [|exact Hin].
      simpl. apply In_remove_all. split; assumption.
    + left. eapply reach_edge; [|exact IH]. unfold g'. rewrite getn_setn_neq by congruence. exact Hin.
Qed.

Lemma stale_reldep : forall g slots fr fr' from n,
  n_inv (getn g n) = true ->
  (forall f, In f fr -> claim f = true -> In f fr') ->
  (forall f, In f fr' -> claim f = true -> In f fr \/ (exists l, f = FInvList l) \/ (exists m, f = FRelEnter m)) ->
  stale_on g slots fr ->
  stale_on (setn g from (set_out (getn g from) (remove_all n (n_out (getn g from))))) slots fr'.
Proof.
  intros g slots fr fr' from n Hn K1 K2 [S1 [S2 S3]].
  set (g' := setn g from (set_out (getn g from) (remove_all n (n_out (getn g from))))).
  assert (Inv' : forall x, n_inv (getn g' x) = n_inv (getn g x)).
  { intros x. unfold g'. rewrite getn_setn. destruct (Nat.eqb from x && Nat.ltb from (length g)) eqn:E; [|reflexivity].
    apply andb_true_iff in E. destruct E as [E _]. apply Nat.eqb_eq in E. subst x. reflexivity. }
  assert (Val' : forall x, n_val (getn g' x) = n_val (getn g x)).
  { intros x. unfold g'. rewrite getn_setn. destruct (Nat.eqb from x && Nat.ltb from (length g)) eqn:E; [|reflexivity].
    apply andb_true_iff in E. destruct E as [E _]. apply Nat.eqb_eq in E. subst x. reflexivity. }
  assert (Out' : forall a m, In m (n_out (getn g a)) -> In m (n_out (getn g' a)) \/ m = n).
  { intros a m Hin. unfold g'. rewrite getn_setn. destruct (Nat.eqb from a && Nat.ltb from (length g)) eqn:E; [|left; exact Hin].
    apply andb_true_iff in E. destruct E as [E _]. apply Nat.eqb_eq in E. subst a. simpl.
    destruct (Nat.eq_dec m n) as [->|Nm]; [right; reflexivity | left; apply In_remove_all; split; assumption]. }
  assert (Pk : forall x, pending fr x -> pending fr' x).
  { intros x [f [Hf Hp]]. exists f. split; [|exact Hp]. apply K1; [exact Hf|]. destruct f; simpl in *; try contradiction; reflexivity. }
  assert (Dn : forall c, reach g' n c -> doomed g' fr' c).
  { intros c Hr. exists n. split; [exact Hr|]. left. rewrite Inv'. exact Hn. }
  assert (Dm : forall c, doomed g fr c -> doomed g' fr' c).
  { intros c [m [Hr Cause]]. destruct (reach_remove g from n m c Hr) as [Hr'|Hr']; [|apply Dn; exact Hr'].
    fold g' in Hr'. destruct Cause as [Hi|[Hp|[R [Hs Ho]]]].
    - exists m. split; [exact Hr'|]. left. rewrite Inv'. exact Hi.
    - exists m. split; [exact Hr'|]. right. left. apply Pk. exact Hp.
    - destruct (Out' R m Ho) as [Q|Q].
      + exists m. split; [exact Hr'|]. right. right. exists R. split; [apply K1; [exact Hs | reflexivity] | exact Q].
      + subst m. apply Dn. exact Hr'. }
  assert (Rp : forall a c, reachplus g a c -> reachplus g' a c \/ doomed g' fr' c).
  { intros a c [m [Hin Hr]]. destruct (reach_remove g from n m c Hr) as [Hr'|Hr']; [|right; apply Dn; exact Hr'].
    fold g' in Hr'. destruct (Out' a m Hin) as [Q|Q]; [left; exists m; split; assumption|].
    subst m. right. apply Dn. exact Hr'. }
  split; [|split].
  - intros c sl v Hin. rewrite Val' in Hin. destruct (S1 c sl v Hin) as [D|[Ev R]]; [left; apply Dm; exact D|].
    destruct (Rp _ _ R) as [Q|Q]; [right; split; assumption | left; exact Q].
  - intros c sl Hin.
    assert (Old : In (FDepRead c sl) fr).
    { destruct (K2 _ Hin eq_refl) as [Q|[[l Q]|[m Q]]]; [exact Q | discriminate | discriminate]. }
    destruct (S2 c sl Old) as [D|R]; [left; apply Dm; exact D|].
    destruct (Rp _ _ R) as [Q|Q]; [right; exact Q | left; exact Q].
  - intros c sl m Hin.
    assert (Old : In (FDepAdd c sl m) fr).
    { destruct (K2 _ Hin eq_refl) as [Q|[[l Q]|[m' Q]]]; [exact Q | discriminate | discriminate]. }
    destruct (S3 c sl m Old) as [Q|[Q|Q]]; [left; exact Q | right; left; rewrite Inv'; exact Q | right; right; apply Pk; exact Q].
Qed.

Definition claim2 (f : frame) : bool :=
  match f with FDepRead _ _ | FDepAdd _ _ _ => true | _ => false end.

(** ** the critical section of invalidate *)
Lemma inv_step_stale : forall s n k s1 st sp others F0,
  inv_step s n k = Some (s1, st, sp) ->
  (forall x, pending F0 x -> x = n \/ pending (k ++ others) x) ->
  (forall R, In (FStrobe R) F0 -> In (FStrobe R) (k ++ others)) ->
  (forall f, In f (k ++ others) -> claim2 f = true -> In f F0) ->
  stale_on (s_nodes s) (s_slots s) F0 ->
  stale_on (s_nodes s1) (s_slots s1) (st ++ others ++ concat sp).
Proof.
  intros s n k s1 st sp others F0 H HP HS HC Inv. unfold inv_step in H.
  destruct (Nat.ltb n (length (s_nodes s))) eqn:G; [|discriminate]. apply Nat.ltb_lt in G.
  destruct (n_inv (getN s n)) eqn:Ia.
  - injection H as E1 E2 E3. subst s1 st sp. simpl. rewrite app_nil_r.
    eapply stale_transfer; [ | | | | | | | exact Inv].
    + intros m x Hx. exact Hx.
    + intros m Hm. exact Hm.
    + intros x Hp. destruct (HP x Hp) as [->|Q]; [right; exact Ia | left; exact Q].
    + intros R HR. left. apply HS. exact HR.
    + intros c sl v Hin. left. exact Hin.
    + intros c sl Hin. left. apply HC; [exact Hin | reflexivity].
    + intros c sl m Hin. left. apply HC; [exact Hin | reflexivity].
  - assert (Oi : forall m, n_out (getn (g_inv_mark (s_nodes s) n) m) = n_out (getn (s_nodes s) m) /\
                           n_val (getn (g_inv_mark (s_nodes s) n) m) = n_val (getn (s_nodes s) m)).
    { intros m. unfold g_inv_mark. rewrite getn_setn. destruct (Nat.eqb n m && Nat.ltb n (length (s_nodes s))) eqn:E; [|split; reflexivity].
      apply andb_true_iff in E. destruct E as [E _]. apply Nat.eqb_eq in E. subst m. split; reflexivity. }
    assert (Mono : forall x, n_inv (getn (s_nodes s) x) = true -> n_inv (getn (g_inv_mark (s_nodes s) n) x) = true).
    { intros x Hx. unfold g_inv_mark. rewrite getn_setn. destruct (Nat.eqb n x && Nat.ltb n (length (s_nodes s))); [reflexivity | exact Hx]. }
    assert (Self : n_inv (getn (g_inv_mark (s_nodes s) n) n) = true).
    { unfold g_inv_mark. rewrite getn_setn_eq by exact G. reflexivity. }
    assert (K : forall pre sp',
              (forall f, In f pre -> claim f = false) -> (forall f, In f (concat sp') -> claim f = false) ->
              stale_on (g_inv_mark (s_nodes s) n) (s_slots s) ((pre ++ FInvList (n_out (getN s n)) :: k) ++ others ++ concat sp')).
    { intros pre sp' Hpre Hsp.
      assert (Sub : forall f, In f (k ++ others) -> In f ((pre ++ FInvList (n_out (getN s n)) :: k) ++ others ++ concat sp')).
      { intros f Hf. rewrite <- app_assoc. simpl. rewrite !in_app_iff. simpl. rewrite !in_app_iff in *. tauto. }
      assert (C2 : forall f, In f ((pre ++ FInvList (n_out (getN s n)) :: k) ++ others ++ concat sp') -> claim2 f = true -> In f F0).
      { intros f Hf Hc. rewrite <- app_assoc in Hf. simpl in Hf. rewrite ?in_app_iff in Hf. simpl in Hf. rewrite ?in_app_iff in Hf.
        repeat (destruct Hf as [Hf|Hf]);
          try (apply Hpre in Hf; destruct f; simpl in *; discriminate);
          try (apply Hsp in Hf; destruct f; simpl in *; discriminate);
          try (subst f; discriminate);
          try (apply HC; [apply in_app_iff; tauto | exact Hc]). }
      eapply stale_transfer; [ | | | | | | | exact Inv].
      - intros m x Hx. destruct (Oi m) as [O1 _]. rewrite O1. exact Hx.
      - exact Mono.
      - intros x Hp. destruct (HP x Hp) as [->|Q]; [right; exact Self | left].
        eapply pending_incl; [|exact Q]. exact Sub.
      - intros R HR. left. apply Sub. apply HS. exact HR.
      - intros c sl v Hin. left. destruct (Oi c) as [_ O2]. rewrite <- O2. exact Hin.
      - intros c sl Hin. left. apply C2; [exact Hin | reflexivity].
      - intros c sl m Hin. left. apply C2; [exact Hin | reflexivity]. }
    destruct (n_hinv (getN s n)) as [r|].
    + destruct (r_spawn (getr s r)); inversion H; subst; clear H; simpl.
      * specialize (K [] [[FRunWait r]]). simpl in K. apply K; [intros f [] | intros f [<-|[]]; reflexivity].
      * specialize (K [FRunWait r] []). simpl in K. rewrite app_nil_r in *. apply K; [intros f [<-|[]]; reflexivity | intros f []].
    + inversion H; subst; clear H. simpl. specialize (K [] []). simpl in K. rewrite app_nil_r in *. apply K; intros f [].
Qed.

(** ** addOut *)
Lemma g_add_out_stale_facts : forall g n to g' linked shinv shrel,
  g_add_out g n to = (g', (linked, shinv, shrel)) -> n < length g -> to < length g -> n <> to ->
  (forall m x, In x (n_out (getn g m)) -> In x (n_out (getn g' m))) /\
  (forall m, n_inv (getn g' m) = n_inv (getn g m)) /\
  (forall m, n_val (getn g' m) = n_val (getn g m)) /\
  (n_rel (getn g to) = false -> In to (n_out (getn g' n))).
Proof.
  intros g n to g' linked shinv shrel H Ln Lt Nq.
  destruct (g_add_out_spec _ _ _ _ _ _ _ H Ln Lt Nq) as [L [I [O [On Sh]]]].
  split; [|split; [exact I|split]].
  - intros m x Hx. destruct (Nat.eq_dec m n) as [->|Nm]; [apply On; left; exact Hx | rewrite O by exact Nm; exact Hx].
  - intros m. unfold g_add_out in H. destruct (negb (n_rel (getn g to))) eqn:Lk; inversion H; subst; clear H.
    + rewrite !getn_setn, !length_setn.
      destruct (Nat.eqb to m && Nat.ltb to (length g)) eqn:E1.
      * apply andb_true_iff in E1. destruct E1 as [E1 _]. apply Nat.eqb_eq in E1. subst m.
        simpl. apply Nat.eqb_neq in Nq. rewrite Nq. reflexivity.
      * destruct (Nat.eqb n m && Nat.ltb n (length g)) eqn:E2; [|reflexivity].
        apply andb_true_iff in E2. destruct E2 as [E2 _]. apply Nat.eqb_eq in E2. subst m. reflexivity.
    + rewrite getn_setn. destruct (Nat.eqb n m && Nat.ltb n (length g)) eqn:E2; [|reflexivity].
      apply andb_true_iff in E2. destruct E2 as [E2 _]. apply Nat.eqb_eq in E2. subst m. reflexivity.
  - intros Rl. apply On. right. split; [|reflexivity].
    unfold g_add_out in H. rewrite Rl in H. simpl in H. inversion H. reflexivity.
Qed.

(** what addOut n to gives the dependant: it is linked below n, or it is released (hence invalid) *)
Lemma do_add_out_stale : forall s n to s1 sp,
  do_add_out s n to = Some (s1, sp) ->
  (forall x, n_rel (getn (s_nodes s) x) = true -> n_inv (getn (s_nodes s) x) = true) ->
  s_slots s1 = s_slots s /\
  (forall m x, In x (n_out (getn (s_nodes s) m)) -> In x (n_out (getn (s_nodes s1) m))) /\
  (forall m, n_inv (getn (s_nodes s1) m) = n_inv (getn (s_nodes s) m)) /\
  (forall m, n_val (getn (s_nodes s1) m) = n_val (getn (s_nodes s) m)) /\
  (forall f, In f (concat sp) -> claim2 f = false /\ (forall R, f <> FStrobe R)) /\
  (n_inv (getn (s_nodes s1) to) = true \/ In to (n_out (getn (s_nodes s1) n))).
Proof.
  intros s n to s1 sp H A. unfold do_add_out in H.
  destruct (Nat.ltb n (length (s_nodes s)) && Nat.ltb to (length (s_nodes s)) && negb (Nat.eqb n to)) eqn:G; [|discriminate].
  apply andb_true_iff in G. destruct G as [G Nq]. apply negb_true_iff in Nq. apply Nat.eqb_neq in Nq.
  apply andb_true_iff in G. destruct G as [G1 G2]. apply Nat.ltb_lt in G1. apply Nat.ltb_lt in G2.
  destruct (g_add_out (s_nodes s) n to) as [g [[linked shinv] shrel]] eqn:Ad.
  inversion H; subst; clear H. simpl.
  destruct (g_add_out_stale_facts _ _ _ _ _ _ _ Ad G1 G2 Nq) as [E [I [V Lk]]].
  split; [reflexivity|]. split; [exact E|]. split; [exact I|]. split; [exact V|]. split.
  - intros f Hf. destruct shinv, shrel; simpl in Hf; repeat (destruct Hf as [<-|Hf]; [split; [reflexivity | intros R; discriminate]|]); contradiction.
  - destruct (n_rel (getn (s_nodes s) to)) eqn:Rl; [left; rewrite I; apply A; exact Rl | right; apply Lk; reflexivity].
Qed.

Lemma do_fail_stale : forall s r stk retry s1 st sp others F0,
  do_fail s r stk retry = Some (s1, st, sp) ->
  (forall f, In f F0 -> claim f = true -> In f (stk ++ others)) ->
  (forall f, In f (stk ++ others) -> claim f = true -> In f F0) ->
  stale_on (s_nodes s) (s_slots s) F0 -> stale_on (s_nodes s1) (s_slots s1) (st ++ others ++ concat sp).
Proof.
  intros s r stk retry s1 st sp others F0 H K1 K2 Inv.
  destruct (do_fail_spec _ _ _ _ _ _ _ H) as [cs [ks [below [term [y [U [N [Sl [R [Y1 [Y2 [Y3 [Y4 [Y5 [Y6 [Y7 [Y8 T]]]]]]]]]]]]]]]]].
  destruct (unwind_split _ _ _ _ _ _ U) as [d [l [E [Fd [L _]]]]].
  assert (RI : forall f cs0, In f (concat (map (fun c0 => [FRelEnter c0]) cs0)) -> exists x, f = FRelEnter x).
  { intros f cs0. induction cs0 as [|h t IH]; simpl; [intros []|]. intros [<-|Hf]; [eexists; reflexivity | apply IH; exact Hf]. }
  assert (Cl : forall f, In f stk -> claim f = true -> In f below).
  { intros f Hf Hc. rewrite E in Hf. apply in_app_iff in Hf. destruct Hf as [Hf|[<-|Hf]]; [| |exact Hf].
    - rewrite forallb_forall in Fd. specialize (Fd f Hf). destruct f; simpl in *; discriminate.
    - destruct term; simpl in L; [subst l; discriminate | destruct L as [c ->]; discriminate]. }
  assert (Sub : forall f, In f below -> In f stk) by (intros f Hf; rewrite E; apply in_app_iff; right; right; exact Hf).
  rewrite N, Sl. eapply stale_plain; [apply same_oiv_refl | | | exact Inv].
  - intros f Hf Hc. specialize (K1 f Hf Hc). apply in_app_iff in K1. rewrite !in_app_iff.
    destruct K1 as [Q|Q]; [left | right; left; exact Q].
    destruct term; [destruct T as [-> _] | destruct T as [-> _]]; right; apply Cl; assumption.
  - intros f Hf Hc. rewrite !in_app_iff in Hf. destruct Hf as [Hf|[Hf|Hf]].
    + destruct term; [destruct T as [-> _] | destruct T as [-> _]]; simpl in Hf;
        (destruct Hf as [<-|Hf]; [discriminate | left; apply K2; [apply in_app_iff; left; apply Sub; exact Hf | exact Hc]]).
    + left. apply K2; [apply in_app_iff; right; exact Hf | exact Hc].
    + right. right. destruct term.
      * destruct T as [_ [-> _]]. apply RI in Hf. exact Hf.
      * destruct T as [_ [_ [[_ [-> _]]|[_ [-> _]]]]].
        -- rewrite concat_app in Hf. apply in_app_iff in Hf. destruct Hf as [Hf|[<-|[]]]; [apply RI in Hf; exact Hf | discriminate].
        -- apply RI in Hf. exact Hf.
Qed.

Ltac k1_tac :=
  let f := fresh "f" in let Hf := fresh "Hf" in let Hc := fresh "Hc" in
  intros f Hf Hc; simpl in Hf; destruct Hf as [Hf|Hf]; [subst f; simpl in Hc; discriminate Hc|];
  simpl; rewrite ?in_app_iff in *; simpl; tauto.

Ltac k2_tac :=
  let f := fresh "f" in let Hf := fresh "Hf" in let Hc := fresh "Hc" in
  intros f Hf Hc; simpl in Hf; rewrite ?in_app_iff in Hf; simpl in Hf;
  repeat (destruct Hf as [Hf|Hf]); try contradiction;
  try (subst f; simpl in Hc; discriminate Hc);
  try (subst f; right; eauto; fail);
  left; simpl; rewrite ?in_app_iff; tauto.

Ltac stale_leaf Inv :=
  eapply stale_plain; [ | | | exact Inv]; [unfold getN; same_oiv_tac | k1_tac | k2_tac].

Lemma setl_out_of_range : forall A (l : list A) i x, length l <= i -> setl l i x = l.
Proof.
  induction l as [|h t IH]; intros i x H; [destruct i; reflexivity|].
  destruct i as [|i]; simpl in *; [lia|]. rewrite IH by lia. reflexivity.
Qed.

Lemma reachplus_reach : forall g a c, reachplus g a c -> reach g a c.
Proof. intros g a c [m [H1 H2]]. eapply reach_edge; eauto. Qed.

Definition claim1 (f : frame) : bool :=
  match f with FInvList _ | FRelEnter _ | FStrobe _ => true | _ => false end.

(** frames change, the graph does not: supports of "doomed" are kept, no new dependency claims appear *)
Lemma stale_frames : forall g slots fr fr',
  (forall f, In f fr -> claim1 f = true -> In f fr') ->
  (forall f, In f fr' -> claim2 f = true -> In f fr) ->
  stale_on g slots fr -> stale_on g slots fr'.
Proof.
  intros g slots fr fr' K1 K2 Inv.
  eapply stale_transfer; [ | | | | | | | exact Inv].
  - intros n x Hx. exact Hx.
  - intros n Hn. exact Hn.
  - intros x [f [Hf Hp]]. left. exists f. split; [|exact Hp]. apply K1; [exact Hf|]. destruct f; simpl in *; try contradiction; reflexivity.
  - intros R HR. left. apply K1; [exact HR | reflexivity].
  - intros c sl v Hin. left. exact Hin.
  - intros c sl Hin. left. apply K2; [exact Hin | reflexivity].
  - intros c sl n Hin. left. apply K2; [exact Hin | reflexivity].
Qed.

(** a computation's value grows by pairs that are justified *)
Lemma stale_add_val : forall g slots fr p extra,
  (forall sl v, In (sl, v) extra -> doomed g fr p \/ (v = sver slots sl /\ reachplus g (sres slots sl) p)) ->
  stale_on g slots fr -> stale_on (setn g p (add_val (getn g p) extra)) slots fr.
Proof.
  intros g slots fr p extra Hx Inv.
  set (g' := setn g p (add_val (getn g p) extra)).
  assert (Oi : forall m, n_out (getn g' m) = n_out (getn g m) /\ n_inv (getn g' m) = n_inv (getn g m)).
  { intros m. unfold g'. rewrite getn_setn. destruct (Nat.eqb p m && Nat.ltb p (length g)) eqn:E; [|split; reflexivity].
    apply andb_true_iff in E. destruct E as [E _]. apply Nat.eqb_eq in E. subst m. split; reflexivity. }
  assert (E1 : forall n x, In x (n_out (getn g n)) -> In x (n_out (getn g' n))) by (intros n x Hx'; destruct (Oi n) as [O1 _]; rewrite O1; exact Hx').
  assert (I1 : forall n, n_inv (getn g n) = true -> n_inv (getn g' n) = true) by (intros n Hn; destruct (Oi n) as [_ O2]; rewrite O2; exact Hn).
  assert (P1 : forall x, pending fr x -> pending fr x \/ n_inv (getn g' x) = true) by (intros x Hp; left; exact Hp).
  assert (T1 : forall R, In (FStrobe R) fr -> In (FStrobe R) fr \/ (forall x, In x (n_out (getn g R)) -> pending fr x \/ n_inv (getn g' x) = true)) by (intros R HR; left; exact HR).
  eapply (stale_transfer g g' fr fr E1 I1 P1 T1); [ | | | exact Inv].
  - intros c sl v Hin. unfold g' in Hin. rewrite getn_setn in Hin.
    destruct (Nat.eqb p c && Nat.ltb p (length g)) eqn:E; [|left; exact Hin].
    apply andb_true_iff in E. destruct E as [E _]. apply Nat.eqb_eq in E. subst c. simpl in Hin.
    apply in_app_iff in Hin. destruct Hin as [Hin|Hin]; [left; exact Hin | right].
    destruct (Hx sl v Hin) as [D|[Ev Rp]].
    + left. eapply (doomed_mono g g' fr fr E1 I1 P1 T1). exact D.
    + right. split; [exact Ev | eapply (reachplus_mono g g' E1); exact Rp].
  - intros c sl Hin. left. exact Hin.
  - intros c sl n Hin. left. exact Hin.
Qed.

Lemma stale_add_out : forall s n to s2 sp2 fr,
  do_add_out s n to = Some (s2, sp2) ->
  (forall x, n_rel (getn (s_nodes s) x) = true -> n_inv (getn (s_nodes s) x) = true) ->
  stale_on (s_nodes s) (s_slots s) fr ->
  stale_on (s_nodes s2) (s_slots s2) (fr ++ concat sp2) /\
  (forall c, doomed (s_nodes s) fr c -> doomed (s_nodes s2) (fr ++ concat sp2) c) /\
  (forall a c, reachplus (s_nodes s) a c -> reachplus (s_nodes s2) a c) /\
  (forall m, n_inv (getn (s_nodes s2) m) = n_inv (getn (s_nodes s) m)) /\
  (forall m, n_val (getn (s_nodes s2) m) = n_val (getn (s_nodes s) m)) /\
  (n_inv (getn (s_nodes s2) to) = true \/ In to (n_out (getn (s_nodes s2) n))).
Proof.
  intros s n to s2 sp2 fr H A Inv.
  destruct (do_add_out_stale _ _ _ _ _ H A) as [Sl [E [I [V [Sp Lk]]]]]. rewrite Sl.
  assert (I1 : forall m, n_inv (getn (s_nodes s) m) = true -> n_inv (getn (s_nodes s2) m) = true) by (intros m Hm; rewrite I; exact Hm).
  assert (P1 : forall x, pending fr x -> pending (fr ++ concat sp2) x \/ n_inv (getn (s_nodes s2) x) = true).
  { intros x Hp. left. eapply pending_incl; [|exact Hp]. intros f Hf. apply in_app_iff. left. exact Hf. }
  assert (T1 : forall R, In (FStrobe R) fr -> In (FStrobe R) (fr ++ concat sp2) \/
                (forall x, In x (n_out (getn (s_nodes s) R)) -> pending (fr ++ concat sp2) x \/ n_inv (getn (s_nodes s2) x) = true)).
  { intros R HR. left. apply in_app_iff. left. exact HR. }
  split; [|split; [|split; [|split; [exact I | split; [exact V | exact Lk]]]]].
  - eapply (stale_transfer _ _ _ _ E I1 P1 T1); [ | | | exact Inv].
    + intros c sl v Hin. left. rewrite <- V. exact Hin.
    + intros c sl Hin. left. apply in_app_iff in Hin. destruct Hin as [Hin|Hin]; [exact Hin|].
      destruct (Sp _ Hin) as [Q _]. discriminate.
    + intros c sl m Hin. left. apply in_app_iff in Hin. destruct Hin as [Hin|Hin]; [exact Hin|].
      destruct (Sp _ Hin) as [Q _]. discriminate.
  - intros c D. eapply (doomed_mono _ _ _ _ E I1 P1 T1). exact D.
  - intros a c R. eapply (reachplus_mono _ _ E). exact R.
Qed.

Lemma step_top_stale : forall s f rest arg s1 st sp others,
  step_top s f rest arg = Some (s1, st, sp) ->
  armed_on (s_nodes s) (s_rrs s) (f :: rest ++ others) ->
  stale_on (s_nodes s) (s_slots s) (f :: rest ++ others) ->
  stale_on (s_nodes s1) (s_slots s1) (st ++ others ++ concat sp).
Proof.
  intros s f rest arg s1 st sp others H Ar Inv.
  unfold step_top in H.
  destruct f; cbv beta iota zeta in H.
  - (* FInvList *)
    destruct (memb arg l) eqn:G1; [|discriminate]. apply memb_In in G1.
    eapply inv_step_stale; [exact H | | | | exact Inv].
    + intros x [g [Hin Hp]]. simpl in Hin. destruct Hin as [<-|Hin].
      * simpl in Hp. destruct (Nat.eq_dec x arg) as [->|Nq]; [left; reflexivity|].
        right. exists (FInvList (remove1 arg l)). split; [left; reflexivity | simpl; apply In_remove1_neq; assumption].
      * right. exists g. split; [|exact Hp]. simpl. right. exact Hin.
    + intros R [Q|Q]; [discriminate | right; exact Q].
    + intros f [<-|Hf] Hc; [discriminate | right; exact Hf].
  - (* FStrobe: the snapshot *)
    injection H as E1 E2 E3. subst s1 st sp. simpl. rewrite app_nil_r.
    eapply stale_transfer; [ | | | | | | | exact Inv].
    + intros m x Hx. exact Hx.
    + intros m Hm. exact Hm.
    + intros x [g [Hin Hp]]. left. simpl in Hin. destruct Hin as [<-|Hin]; [simpl in Hp; contradiction|].
      exists g. split; [right; exact Hin | exact Hp].
    + intros R [Q|Q].
      * injection Q as Q. subst R. right. intros x Hx. left. exists (FInvList (n_out (getN s n))). split; [left; reflexivity | exact Hx].
      * left. right. exact Q.
    + intros c sl v Hin. left. exact Hin.
    + intros c sl [Q|Q]; [discriminate | left; right; exact Q].
    + intros c sl m [Q|Q]; [discriminate | left; right; exact Q].
  - (* FRelEnter *)
    eapply inv_step_stale; [exact H | | | | exact Inv].
    + intros x [g [Hin Hp]]. simpl in Hin. destruct Hin as [<-|Hin].
      * simpl in Hp. left. congruence.
      * right. exists g. split; [|exact Hp]. simpl. right. exact Hin.
    + intros R [Q|Q]; [discriminate | right; exact Q].
    + intros f [<-|Hf] Hc; [discriminate | right; exact Hf].
  - (* FRelMark *)
    destruct (n_rel (getN s n)); [inversion H; subst; clear H; stale_leaf Inv|].
    unfold g_rel_mark in H.
    destruct (n_hrel (getN s n)) as [[sl|]|]; inversion H; subst; clear H; simpl; stale_leaf Inv.
  - (* FCleanup *)
    assert (In_n : n_inv (getn (s_nodes s) n) = true).
    { destruct Ar as [_ [B _]]. apply (B (FCleanup n slot)). left. reflexivity. }
    unfold alloc in H. simpl in H.
    destruct (Nat.eqb (slot_res (upd_node s n (inc_cln (getN s n))) slot) n) eqn:Es.
    + injection H as E1 E2 E3. subst s1 st sp. simpl. rewrite app_nil_r.
      apply Nat.eqb_eq in Es. unfold slot_res in Es. simpl in Es. fold (sres (s_slots s) slot) in Es.
      unfold slot_ver. simpl. fold (sver (s_slots s) slot).
      eapply stale_plain with (g := s_nodes s) (fr := rest ++ others);
        [unfold getN; same_oiv_tac | intros f Hf _; exact Hf | intros f Hf _; left; exact Hf |].
      destruct (Nat.lt_ge_cases slot (length (s_slots s))) as [Ls|Ls].
      * eapply stale_slot_change; [exact Ls | | | | | exact Inv].
        -- k1_tac.
        -- k2_tac.
        -- intros c Rp. rewrite Es in Rp. exists n. split; [apply reachplus_reach; exact Rp | left; exact In_n].
        -- right. left. rewrite Es. exact In_n.
      * rewrite setl_out_of_range by exact Ls. stale_leaf Inv.
    + injection H as E1 E2 E3. subst s1 st sp. simpl. stale_leaf Inv.
  - (* FRelDeps *)
    destruct froms as [|from l]; [discriminate|].
    assert (In_n : n_inv (getn (s_nodes s) n) = true).
    { destruct Ar as [_ [B _]]. apply (B (FRelDeps n (from :: l))). left. reflexivity. }
    unfold g_rel_dep in H. cbv beta iota zeta in H.
    destruct (is_nil (remove_all n (n_out (getn (s_nodes s) from)))); injection H as E1 E2 E3; subst s1 st sp; simpl;
      (eapply stale_reldep; [ | | | exact Inv]; [exact In_n | k1_tac | k2_tac]).
  - (* FRunWait *)
    destruct (Nat.eqb arg 0); [inversion H; subst; clear H; stale_leaf Inv|].
    destruct (r_cancel (getr s r)); [|discriminate]. inversion H; subst; clear H; stale_leaf Inv.
  - destruct (r_mu (getr s r)); [discriminate|].
    destruct (r_stop (getr s r)); inversion H; subst; clear H; simpl; stale_leaf Inv.
  - destruct (Nat.eqb arg 1); [destruct (r_cancel (getr s r)); [|discriminate] | destruct (r_clock (getr s r)); [discriminate|]];
      inversion H; subst; clear H; simpl; stale_leaf Inv.
  - destruct ks as [|k ks'].
    + inversion H; subst; clear H. simpl. stale_leaf Inv.
    + destruct (memb arg (k :: ks')); [|discriminate].
      destruct (n_inv (getN s arg)); inversion H; subst; clear H; simpl; stale_leaf Inv.
  - unfold alloc in H. inversion H; subst; clear H. simpl. stale_leaf Inv.
  - (* FScript *)
    destruct p as [|o q]; [discriminate|].
    assert (Fail : forall retry, do_fail s r (FScript r c q :: rest) retry = Some (s1, st, sp) ->
                   stale_on (s_nodes s1) (s_slots s1) (st ++ others ++ concat sp)).
    { intros retry HF. eapply do_fail_stale; [exact HF | | | exact Inv].
      - intros f Hf Hc. simpl in Hf. destruct Hf as [<-|Hf]; [discriminate | simpl; right; exact Hf].
      - intros f Hf Hc. simpl in Hf. destruct Hf as [<-|Hf]; [discriminate | right; exact Hf]. }
    destruct o.
    + (* ODep: the compute function reads the slot's current resource *)
      injection H as E1 E2 E3. subst s1 st sp. simpl. rewrite app_nil_r.
      eapply stale_transfer; [ | | | | | | | exact Inv].
      * intros m x Hx. exact Hx.
      * intros m Hm. exact Hm.
      * intros x [g [Hin Hp]]. left. simpl in Hin. destruct Hin as [<-|Hin]; [simpl in Hp; contradiction|].
        exists g. split; [right; right; exact Hin | exact Hp].
      * intros R [Q|Q]; [discriminate | left; right; right; exact Q].
      * intros c0 sl v Hin. left. exact Hin.
      * intros c0 sl [Q|[Q|Q]]; [discriminate | discriminate | left; right; exact Q].
      * intros c0 sl m [Q|[Q|Q]]; [|discriminate | left; right; exact Q].
        injection Q as Q1 Q2 Q3. subst c0 sl m. right. left. reflexivity.
    + destruct (Nat.eqb arg 0); [|unfold alloc in H]; inversion H; subst; clear H; simpl; stale_leaf Inv.
    + destruct (Nat.eqb arg 0).
      * destruct (memb key (r_keys (getr s r))); [discriminate|]. inversion H; subst; clear H; simpl; stale_leaf Inv.
      * destruct (Nat.eqb arg 2); [inversion H; subst; clear H; simpl; stale_leaf Inv|].
        destruct (r_cancel (getr s r)); [|discriminate]. eapply Fail; eauto.
    + destruct (Nat.eqb arg 0); [inversion H; subst; clear H; simpl; stale_leaf Inv | eapply Fail; eauto].
    + destruct (Nat.eqb arg 0); [inversion H; subst; clear H; simpl; stale_leaf Inv | eapply Fail; eauto].
    + (* OPar *)
      inversion H; subst; clear H. simpl.
      eapply stale_plain; [ | | | exact Inv]; [apply same_oiv_refl | k1_tac | ].
      intros f Hf Hc. simpl in Hf. rewrite ?in_app_iff in Hf. destruct Hf as [<-|[<-|[Hf|[Hf|Hf]]]];
        [discriminate | discriminate | left; right; apply in_app_iff; tauto | left; right; apply in_app_iff; tauto |].
      exfalso. apply in_concat in Hf. destruct Hf as [t [Ht Hf]]. destruct (branch_tasks_in _ _ _ _ _ _ Ht) as [idx [b [_ ->]]].
      simpl in Hf. destruct Hf as [<-|[<-|[<-|[]]]]; discriminate.
  - (* FDepAdd: AddDependency *)
    destruct (do_add_out s res c) as [[s2 sp2]|] eqn:A; [|discriminate]. injection H as E1 E2 E3. subst s1 st sp.
    destruct Ar as [Arel _].
    destruct (stale_add_out _ _ _ _ _ _ A Arel Inv) as [K [Dm [Rm [I2 [_ Lk]]]]].
    destruct Inv as [_ [_ S3]]. specialize (S3 c slot res (or_introl eq_refl)).
    assert (Sl : s_slots s2 = s_slots s) by (destruct (do_add_out_stale _ _ _ _ _ A Arel) as [Q _]; exact Q).
    eapply stale_transfer with (g := s_nodes s2) (fr := (FDepAdd c slot res :: rest ++ others) ++ concat sp2); [ | | | | | | | exact K].
    + intros m x Hx. exact Hx.
    + intros m Hm. exact Hm.
    + intros x [g [Hin Hp]]. left. exists g. split; [|exact Hp]. simpl in Hin. destruct Hin as [<-|Hin]; [simpl in Hp; contradiction|].
      simpl. right. rewrite <- app_assoc in Hin. exact Hin.
    + intros R HR. left. simpl in HR. destruct HR as [Q|Q]; [discriminate|]. simpl. right. rewrite <- app_assoc in Q. exact Q.
    + intros c0 sl v Hin. left. exact Hin.
    + intros c0 sl Hin. simpl in Hin. destruct Hin as [Q|Hin].
      * injection Q as Q1 Q2. subst c0 sl. right. rewrite Sl.
        destruct Lk as [Lk|Lk].
        -- left. exists c. split; [apply reach_refl | left; exact Lk].
        -- destruct S3 as [Q|[Q|Q]].
           ++ right. rewrite <- Q. exists c. split; [exact Lk | apply reach_refl].
           ++ left. exists res. split; [eapply reach_edge; [exact Lk | apply reach_refl] | left; rewrite I2; exact Q].
           ++ left. exists res. split; [eapply reach_edge; [exact Lk | apply reach_refl] | right; left].
              destruct Q as [g [Hin Hp]]. exists g. split; [|exact Hp]. simpl in Hin. destruct Hin as [<-|Hin]; [simpl in Hp; contradiction|].
              simpl. right. rewrite !in_app_iff in *. tauto.
      * left. right. rewrite <- app_assoc. exact Hin.
    + intros c0 sl m Hin. left. simpl in Hin. destruct Hin as [Q|Hin]; [discriminate|]. right. rewrite <- app_assoc. exact Hin.
  - (* FDepRead: the version is read *)
    injection H as E1 E2 E3. subst s1 st sp. simpl. rewrite app_nil_r.
    eapply stale_frames with (fr := FDepRead c slot :: rest ++ others).
    + intros f [<-|Hf] Hc; [discriminate | exact Hf].
    + intros f Hf Hc. right. exact Hf.
    + unfold getN. apply stale_add_val; [|exact Inv].
      intros sl v [Q|[]]. injection Q as Q1 Q2. subst sl v.
      destruct Inv as [_ [S2 _]]. destruct (S2 c slot (or_introl eq_refl)) as [D|Rp]; [left; exact D | right; split; [reflexivity | exact Rp]].
  - (* FTimerReg *)
    destruct (n_hrel (getN s res)); [discriminate|]. inversion H; subst; clear H. simpl.
    unfold g_handle_rel. destruct (n_rel (getn (s_nodes s) res)); simpl; stale_leaf Inv.
  - (* FTimerAdd *)
    destruct (do_add_out s res c) as [[s2 sp2]|] eqn:A; [|discriminate]. injection H as E1 E2 E3. subst s1 st sp.
    destruct Ar as [Arel _].
    destruct (stale_add_out _ _ _ _ _ _ A Arel Inv) as [K _].
    eapply stale_frames; [ | | exact K].
    + intros f Hf Hc. simpl in Hf. destruct Hf as [<-|Hf]; [discriminate|]. rewrite <- app_assoc in Hf. exact Hf.
    + intros f Hf Hc. simpl. right. rewrite <- app_assoc. exact Hf.
  - (* FChildBegin *)
    unfold alloc in H. inversion H; subst; clear H. simpl. stale_leaf Inv.
  - (* FCacheSet *)
    destruct (cache_get (r_cache (getr s r)) key); inversion H; subst; clear H; simpl; stale_leaf Inv.
  - (* FCacheLink: the child's value enters the parent's *)
    destruct (do_add_out s child parent) as [[s2 sp2]|] eqn:A; [|discriminate]. injection H as E1 E2 E3. subst s1 st sp.
    destruct Ar as [Arel _].
    destruct (stale_add_out _ _ _ _ _ _ A Arel Inv) as [K [Dm [Rm [I2 [V2 Lk]]]]].
    simpl. unfold getN.
    eapply stale_frames with (fr := (FCacheLink child parent :: rest ++ others) ++ concat sp2).
    + intros f Hf Hc. simpl in Hf. destruct Hf as [<-|Hf]; [discriminate|]. rewrite <- app_assoc in Hf. exact Hf.
    + intros f Hf Hc. simpl. right. rewrite <- app_assoc. exact Hf.
    + apply stale_add_val; [|exact K].
      intros sl v Hin. destruct K as [S1 _]. destruct (S1 child sl v Hin) as [D|[Ev Rp]].
      * left. destruct Lk as [Lk|Lk]; [exists parent; split; [apply reach_refl | left; exact Lk]|].
        destruct D as [m [Hr Cause]]. exists m. split; [|exact Cause].
        eapply reach_trans; [exact Hr | eapply reach_edge; [exact Lk | apply reach_refl]].
      * destruct Lk as [Lk|Lk]; [left; exists parent; split; [apply reach_refl | left; exact Lk]|].
        right. split; [exact Ev|]. destruct Rp as [m [H1 H2]]. exists m. split; [exact H1|].
        eapply reach_trans; [exact H2 | eapply reach_edge; [exact Lk | apply reach_refl]].
  - (* FCacheGet *)
    destruct (cache_get (r_cache (getr s r)) key) as [child|]; [destruct (Nat.eqb child c); [discriminate|]|];
      inversion H; subst; clear H; simpl; stale_leaf Inv.
  - (* FKeyUnlock *) inversion H; subst; clear H. simpl. stale_leaf Inv.
  - (* FJoin *)
    destruct (nth jid (s_joins s) (0, false)) as [nb failed]. destruct (Nat.eqb nb 0); [|discriminate].
    destruct failed; [|inversion H; subst; clear H; stale_leaf Inv].
    eapply do_fail_stale; [exact H | | | exact Inv].
    + intros f Hf Hc. simpl in Hf. destruct Hf as [<-|Hf]; [discriminate | exact Hf].
    + intros f Hf Hc. right. exact Hf.
  - (* FBranchBegin *) inversion H; subst; clear H. stale_leaf Inv.
  - (* FBranchEnd *)
    destruct (nth jid (s_joins s) (0, false)) as [nb failed]. inversion H; subst; clear H. simpl. stale_leaf Inv.
  - (* FRunEnd *)
    inversion H; subst; clear H. simpl.
    eapply stale_plain; [ | | | exact Inv]; [apply same_oiv_refl | k1_tac | ].
    intros f Hf Hc. simpl in Hf. rewrite ?in_app_iff in Hf. destruct Hf as [<-|[Hf|[Hf|Hf]]];
      [discriminate | left; right; apply in_app_iff; tauto | left; right; apply in_app_iff; tauto |].
    destruct (r_comp (getr s r)); simpl in Hf; [destruct Hf as [<-|[]]; right; right; eauto | contradiction].
  - (* FArm *)
    destruct (negb (n_inv (getN s c)) && match n_hinv (getN s c) with Some _ => true | None => false end); [discriminate|].
    unfold g_handle_inv in H. destruct (n_inv (getn (s_nodes s) c)); inversion H; subst; clear H; simpl; stale_leaf Inv.
  - (* FUnlock *) inversion H; subst; clear H. simpl. stale_leaf Inv.
  - (* FStop *)
    destruct cancelled.
    + destruct (r_mu (getr s r)); [discriminate|]. inversion H; subst; clear H. simpl.
      eapply stale_plain; [ | | | exact Inv]; [apply same_oiv_refl | k1_tac | ].
      intros f Hf Hc. rewrite ?in_app_iff in Hf. destruct Hf as [Hf|[Hf|Hf]];
        [left; right; apply in_app_iff; tauto | left; right; apply in_app_iff; tauto |].
      destruct (r_comp (getr s r)); simpl in Hf; [destruct Hf as [<-|[]]; right; right; eauto | contradiction].
    + inversion H; subst; clear H. simpl. stale_leaf Inv.
  - (* FOutAdd *)
    destruct (Nat.ltb n (length (s_nodes s))); [|discriminate]. unfold g_add_out_released in H. inversion H; subst; clear H. simpl.
    eapply stale_plain; [ | | | exact Inv]; [same_oiv_tac | k1_tac | ].
    intros f Hf Hc. rewrite ?in_app_iff in Hf. destruct Hf as [Hf|[Hf|Hf]]; [left; right; apply in_app_iff; tauto | left; right; apply in_app_iff; tauto |].
    destruct (n_inv (getn (s_nodes s) n)), (is_nil (n_out (getn (s_nodes s) n))); simpl in Hf;
      repeat (destruct Hf as [<-|Hf]); try contradiction; try discriminate; right; right; eauto.
  - (* FPhInv *) inversion H; subst; clear H. stale_leaf Inv.
Qed.

Lemma stale_on_perm : forall g slots a b, Permutation a b -> stale_on g slots a -> stale_on g slots b.
Proof.
  intros g slots a b P. apply stale_frames.
  - intros f Hf _. eapply Permutation_in; eauto.
  - intros f Hf _. eapply Permutation_in; [apply Permutation_sym; exact P | exact Hf].
Qed.

Lemma stale_drop_exhausted : forall g slots dropped X Y,
  forallb exhausted dropped = true -> stale_on g slots ((dropped ++ X) ++ Y) -> stale_on g slots (X ++ Y).
Proof.
  intros g slots dropped X Y D Inv. rewrite forallb_forall in D.
  eapply stale_transfer; [ | | | | | | | exact Inv].
  - intros n x Hx. exact Hx.
  - intros n Hn. exact Hn.
  - intros x Hp. left. eapply pending_drop_exhausted; [apply forallb_forall; exact D | exact Hp].
  - intros R HR. left. rewrite <- app_assoc in HR. apply in_app_iff in HR. destruct HR as [HR|HR]; [|exact HR].
    apply D in HR. discriminate.
  - intros c sl v Hin. left. exact Hin.
  - intros c sl Hin. left. rewrite <- app_assoc. apply in_app_iff. right. exact Hin.
  - intros c sl n Hin. left. rewrite <- app_assoc. apply in_app_iff. right. exact Hin.
Qed.

Lemma step_stale : forall s l s', armed_inv s -> stale_inv s -> step s l = Some s' -> stale_inv s'.
Proof.
  intros s l s' Ar Inv H. unfold stale_inv, armed_inv in *. destruct l.
  - destruct (step_task_frames _ _ _ _ H) as [f [rest [s1 [st [sp [others [dropped [P1 [T [D1 [D2 [P2 [N [_ [Sl _]]]]]]]]]]]]]]].
    rewrite N, Sl. eapply stale_on_perm; [apply Permutation_sym; exact P2|].
    assert (K := step_top_stale _ _ _ _ _ _ _ others T (armed_on_perm _ _ _ _ P1 Ar) (stale_on_perm _ _ _ _ P1 Inv)).
    rewrite D1 in K. eapply stale_drop_exhausted; [exact D2 | exact K].
  - (* Strobe of a slot: version+1, go res.strobe() *)
    simpl in H. destruct (Nat.ltb slot (length (s_slots s))) eqn:L; [|discriminate]. apply Nat.ltb_lt in L.
    inversion H; subst; clear H. rewrite frames_spawn. unfold all_frames in *. simpl.
    unfold slot_ver, slot_res. fold (sver (s_slots s) slot). fold (sres (s_slots s) slot).
    eapply stale_slot_change; [exact L | | | | left; reflexivity | exact Inv].
    + intros f Hf _. apply in_app_iff. left. exact Hf.
    + intros f Hf Hc. apply in_app_iff in Hf. destruct Hf as [Hf|[<-|[]]]; [left; exact Hf | right; right; right; eauto].
    + intros c [m [H1 H2]]. exists m. split; [exact H2|]. right. right. exists (sres (s_slots s) slot).
      split; [apply in_app_iff; right; left; reflexivity | exact H1].
  - (* Invalidate of a slot: version+1, go res.invalidate(), the slot gets a fresh resource *)
    simpl in H. destruct (Nat.ltb slot (length (s_slots s))) eqn:L; [|discriminate]. apply Nat.ltb_lt in L.
    inversion H; subst; clear H. rewrite frames_spawn. unfold all_frames in *. simpl.
    unfold slot_ver, slot_res. fold (sver (s_slots s) slot). fold (sres (s_slots s) slot).
    eapply stale_plain with (g := s_nodes s) (fr := concat (map snd (s_tasks s)) ++ [FInvList [sres (s_slots s) slot]]);
      [same_oiv_tac | intros f Hf _; exact Hf | intros f Hf _; left; exact Hf |].
    eapply stale_slot_change; [exact L | | | | | exact Inv].
    + intros f Hf _. apply in_app_iff. left. exact Hf.
    + intros f Hf Hc. apply in_app_iff in Hf. destruct Hf as [Hf|[<-|[]]]; [left; exact Hf | right; left; eauto].
    + intros c Rp. exists (sres (s_slots s) slot). split; [apply reachplus_reach; exact Rp|]. right. left.
      exists (FInvList [sres (s_slots s) slot]). split; [apply in_app_iff; right; left; reflexivity | left; reflexivity].
    + right. right. exists (FInvList [sres (s_slots s) slot]). split; [apply in_app_iff; right; left; reflexivity | left; reflexivity].
  - simpl in H. destruct (Nat.ltb r (length (s_rrs s))); [|discriminate]. inversion H; subst; clear H.
    rewrite frames_spawn. unfold all_frames in *. simpl.
    eapply stale_frames; [ | | exact Inv].
    + intros f Hf _. apply in_app_iff. left. exact Hf.
    + intros f Hf Hc. apply in_app_iff in Hf. destruct Hf as [Hf|[<-|[]]]; [exact Hf | discriminate].
  - simpl in H. destruct (Nat.ltb r (length (s_rrs s))); [|discriminate].
    destruct (r_clock (getr s r)); [discriminate|]. inversion H; subst; clear H. exact Inv.
  - simpl in H. destruct (Nat.eqb (n_timer (getN s n)) 1); [|discriminate]. inversion H; subst; clear H.
    rewrite frames_spawn. unfold all_frames in *. simpl.
    eapply stale_plain; [ | | | exact Inv].
    + unfold getN. same_oiv_tac.
    + intros f Hf _. apply in_app_iff. left. exact Hf.
    + intros f Hf Hc. apply in_app_iff in Hf. destruct Hf as [Hf|[<-|[]]]; [left; exact Hf | right; left; eauto].
  - simpl in H. destruct (Nat.ltb slot (length (s_slots s))); [|discriminate]. inversion H; subst; clear H.
    rewrite frames_spawn. unfold all_frames in *. simpl.
    eapply stale_frames; [ | | exact Inv].
    + intros f Hf _. apply in_app_iff. left. exact Hf.
    + intros f Hf Hc. apply in_app_iff in Hf. destruct Hf as [Hf|[<-|[]]]; [exact Hf | discriminate].
  - simpl in H. destruct (Nat.ltb r (length (s_rrs s))); [|discriminate]. inversion H; subst; clear H. exact Inv.
Qed.

Lemma init_nodes_val : forall k j n, n_val (getn (init_nodes k j) n) = [].
Proof.
  induction k as [|k IH]; intros j n; simpl.
  - unfold getn. destruct n; reflexivity.
  - destruct n as [|n]; [reflexivity|]. apply (IH (S j) n).
Qed.

Lemma init_stale : forall k progs, stale_inv (init k progs).
Proof.
  intros k progs. unfold stale_inv, init, all_frames. simpl. split; [|split].
  - intros c sl v Hin. rewrite init_nodes_val in Hin. contradiction.
  - intros c sl Hin. destruct (init_tasks_frames _ _ _ Hin) as [r Q]. discriminate.
  - intros c sl n Hin. destruct (init_tasks_frames _ _ _ Hin) as [r Q]. discriminate.
Qed.

Lemma reachable_stale : forall k progs s, reachable (init k progs) s -> stale_inv s.
Proof.
  intros k progs s R. induction R as [|s l s' R IH H]; [apply init_stale|].
  eapply step_stale; [eapply reachable_armed; exact R | exact IH | exact H].
Qed.

(** every version a valid computation recorded is current at quiescence *)
Lemma quiescent_valid_current : forall k progs s c sl v,
  reachable (init k progs) s -> quiescent s ->
  n_inv (getN s c) = false -> In (sl, v) (n_val (getN s c)) -> v = slot_ver s sl.
Proof.
  intros k progs s c sl v R Q Hc Hin. destruct (reachable_stale _ _ _ R) as [S1 _].
  destruct (S1 c sl v Hin) as [[n [Hr Cause]]|[Ev _]]; [|exact Ev].
  exfalso. unfold quiescent in Q. unfold all_frames in Cause. rewrite Q in Cause. simpl in Cause.
  destruct Cause as [Hi|[[f [[] _]]|[R0 [[] _]]]].
  rewrite (quiescent_reach_closed _ _ _ R Q _ _ Hr Hi) in Hc. discriminate.
Qed.

(** NO LOST INVALIDATION: at quiescence the published computation of a rerunner that was neither stopped nor
    has failed recorded only current versions, directly or through cached children *)
Lemma no_lost_invalidation_lemma : forall k progs s r,
  reachable (init k progs) s -> quiescent s -> r < length (s_rrs s) ->
  r_cancel (getr s r) = false -> r_failed (getr s r) = false ->
  exists c, r_comp (getr s r) = Some c /\
    forall sl v, In (sl, v) (n_val (getN s c)) -> v = slot_ver s sl.
Proof.
  intros k progs s r R Q Hr X1 X2.
  destruct (quiescent_armed _ _ _ _ R Q Hr X1 X2) as [c [E1 [_ E3]]].
  exists c. split; [exact E1|]. intros sl v Hin. eapply quiescent_valid_current; eauto.
Qed.
