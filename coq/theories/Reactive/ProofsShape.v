(** * Reactive/ProofsShape.v — the shape of a goroutine's stack: whatever sits above a frame of Rerunner.run's
    critical section (between r.mu.Lock and the deferred Unlock) is a frame of the compute function; tasks
    have distinct ids, non-empty stacks and a top frame that has work to do. *)
From Coq Require Import List Arith Bool Lia Permutation.
From Thunder Require Import Reactive.Graph Reactive.Rerunner Reactive.ProofsBase.
Import ListNotations.

Definition is_anchor (f : frame) : bool :=
  match f with
  | FCleanStart _ | FClean _ _ | FBegin _ | FRunEnd _ _ | FArm _ _ | FUnlock _ => true
  | _ => false
  end.

Definition script_kind (f : frame) : bool :=
  match f with
  | FScript _ _ _ | FDepAdd _ _ _ | FDepRead _ _ | FTimerReg _ _ | FTimerAdd _ _
  | FChildBegin _ _ _ _ | FCacheSet _ _ _ _ | FCacheLink _ _ | FCacheGet _ _ _ _ | FKeyUnlock _ _ | FJoin _ _ => true
  | _ => false
  end.

Definition has_anchor (st : list frame) : bool := existsb is_anchor st.

Fixpoint shape (st : list frame) : Prop :=
  match st with
  | [] => True
  | f :: t => (has_anchor t = true -> script_kind f = true) /\ shape t
  end.

Definition stack_ok (st : list frame) : Prop := st <> [] /\ norm st = st /\ shape st.

Lemma shape_app : forall a b, shape (a ++ b) -> shape b.
Proof. induction a as [|h t IH]; simpl; intros b H; [exact H | apply IH; apply H]. Qed.

Lemma norm_idem : forall st, norm (norm st) = norm st.
Proof.
  induction st as [|f t IH]; [reflexivity|].
  destruct f; try reflexivity.
  - destruct l; [exact IH | reflexivity].
  - destruct froms; [exact IH | reflexivity].
  - destruct p; [exact IH | reflexivity].
Qed.

Lemma shape_norm : forall st, shape st -> shape (norm st).
Proof.
  intros st H. destruct (norm_split st) as [d [E _]]. rewrite E in H. eapply shape_app. exact H.
Qed.

Lemma stack_ok_norm : forall st, shape st -> norm st <> [] -> stack_ok (norm st).
Proof. intros st H N. split; [exact N|]. split; [apply norm_idem | apply shape_norm; exact H]. Qed.

Lemma has_anchor_false_nonscript : forall f rest, shape (f :: rest) -> script_kind f = false -> has_anchor rest = false.
Proof.
  intros f rest [H _] N. destruct (has_anchor rest) eqn:E; [|reflexivity]. rewrite (H eq_refl) in N. discriminate.
Qed.

Lemma unwind_shape : forall r stk cs ks below term,
  unwind r stk = Some (cs, ks, below, term) -> shape stk -> shape below /\ has_anchor below = false.
Proof.
  intros r stk cs ks below term H Sh.
  destruct (unwind_split _ _ _ _ _ _ H) as [d [l [E [_ [L _]]]]]. subst stk.
  apply shape_app in Sh. destruct Sh as [S1 S2]. split; [exact S2|].
  destruct (has_anchor below) eqn:A; [|reflexivity]. specialize (S1 eq_refl).
  destruct term; simpl in L; [subst l | destruct L as [c ->]]; discriminate.
Qed.

Lemma inv_step_shape : forall s n k s1 st sp,
  inv_step s n k = Some (s1, st, sp) -> shape k -> has_anchor k = false ->
  shape st /\ forall t, In t sp -> stack_ok t.
Proof.
  intros s n k s1 st sp H Sk Ha. unfold inv_step in H.
  destruct (Nat.ltb n (length (s_nodes s))); [|discriminate].
  destruct (n_inv (getN s n)); [inversion H; subst; split; [exact Sk | intros t []]|].
  destruct (n_hinv (getN s n)) as [r|]; [destruct (r_spawn (getr s r))|]; inversion H; subst; clear H; simpl;
    rewrite ?Ha; simpl; (split; [repeat split; auto; intros; discriminate|]); intros t Ht; try contradiction.
  destruct Ht as [<-|[]]. split; [discriminate|]. split; [reflexivity|]. simpl. split; [intros; discriminate | exact I].
Qed.

Lemma do_add_out_spawn_ok : forall s n to s1 sp, do_add_out s n to = Some (s1, sp) -> forall t, In t sp -> stack_ok t.
Proof.
  intros s n to s1 sp H t Ht. unfold do_add_out in H.
  destruct (Nat.ltb n (length (s_nodes s)) && Nat.ltb to (length (s_nodes s)) && negb (Nat.eqb n to)); [|discriminate].
  destruct (g_add_out (s_nodes s) n to) as [g [[a b] c]]. inversion H; subst; clear H.
  destruct b, c; simpl in Ht; repeat (destruct Ht as [<-|Ht]); try contradiction;
    (split; [discriminate|]; split; [reflexivity|]; simpl; split; [intros; discriminate | exact I]).
Qed.

Ltac single_ok := split; [discriminate|]; split; [reflexivity|]; simpl; split; [intros; discriminate | exact I].

Lemma do_fail_shape : forall s r stk retry s1 st sp,
  do_fail s r stk retry = Some (s1, st, sp) -> shape stk -> shape st /\ forall t, In t sp -> stack_ok t.
Proof.
  intros s r stk retry s1 st sp H Sh.
  destruct (do_fail_spec _ _ _ _ _ _ _ H) as [cs [ks [below [term [y [U [N [Sl [R [Y1 [Y2 [Y3 [Y4 [Y5 [Y6 [Y7 [Y8 T]]]]]]]]]]]]]]]]].
  destruct (unwind_shape _ _ _ _ _ _ U Sh) as [Sb Ab].
  assert (RI : forall t cs0, In t (map (fun c0 => [FRelEnter c0]) cs0) -> stack_ok t).
  { intros t cs0 Ht. apply in_map_iff in Ht. destruct Ht as [x [<- _]]. single_ok. }
  destruct term as [jid|].
  - destruct T as [-> [-> _]]. simpl. rewrite Ab. split; [split; [intros; discriminate | exact Sb] | intros t Ht; eapply RI; exact Ht].
  - destruct T as [-> [_ [[_ [-> _]]|[_ [-> _]]]]]; simpl; rewrite Ab; (split; [split; [intros; discriminate | exact Sb]|]); intros t Ht.
    + apply in_app_iff in Ht. destruct Ht as [Ht|[<-|[]]]; [eapply RI; exact Ht | single_ok].
    + eapply RI; exact Ht.
Qed.

Lemma step_top_shape : forall s f rest arg s1 st sp,
  step_top s f rest arg = Some (s1, st, sp) -> shape (f :: rest) ->
  shape st /\ forall t, In t sp -> stack_ok t.
Proof.
  intros s f rest arg s1 st sp H Sh.
  assert (Sr : shape rest) by apply Sh.
  unfold step_top in H.
  destruct f; cbv beta iota zeta in H;
    try (assert (Na := has_anchor_false_nonscript _ _ Sh eq_refl)).
  - destruct (memb arg l); [|discriminate]. eapply inv_step_shape; [exact H | | ].
    + simpl. rewrite Na. split; [intros; discriminate | exact Sr].
    + simpl. exact Na.
  - inversion H; subst; clear H. simpl. rewrite Na. split; [split; [intros; discriminate | exact Sr] | intros t []].
  - eapply inv_step_shape; [exact H | | ].
    + simpl. rewrite Na. split; [intros; discriminate | exact Sr].
    + simpl. exact Na.
  - destruct (n_rel (getN s n)); [inversion H; subst; split; [exact Sr | intros t []]|].
    destruct (n_hrel (getN s n)) as [[sl|]|]; inversion H; subst; clear H; simpl; rewrite ?Na; simpl;
      (split; [repeat split; auto; intros; discriminate | intros t []]).
  - destruct (Nat.eqb (slot_res (upd_node s n (inc_cln (getN s n))) slot) n); unfold alloc in H; inversion H; subst;
      (split; [exact Sr | intros t []]).
  - destruct froms as [|from l]; [discriminate|].
    destruct (g_rel_dep (s_nodes s) from n) as [g shrel]. destruct shrel; inversion H; subst; clear H; simpl; rewrite ?Na; simpl;
      (split; [repeat split; auto; intros; discriminate | intros t []]).
  - destruct (Nat.eqb arg 0); [inversion H; subst; simpl; rewrite Na; split; [split; [intros; discriminate | exact Sr] | intros t []]|].
    destruct (r_cancel (getr s r)); [|discriminate]. inversion H; subst. split; [exact Sr | intros t []].
  - destruct (r_mu (getr s r)); [discriminate|].
    destruct (r_stop (getr s r)); inversion H; subst; simpl; rewrite Na; (split; [split; [intros; discriminate | exact Sr] | intros t []]).
  - destruct (Nat.eqb arg 1); [destruct (r_cancel (getr s r)); [|discriminate]; inversion H; subst; split; [exact Sr | intros t []]|].
    destruct (r_clock (getr s r)); [discriminate|]. inversion H; subst. simpl. rewrite Na. split; [split; [intros; discriminate | exact Sr] | intros t []].
  - destruct ks as [|k ks'].
    + inversion H; subst. simpl. rewrite Na. split; [split; [intros; discriminate | exact Sr] | intros t []].
    + destruct (memb arg (k :: ks')); [|discriminate].
      destruct (n_inv (getN s arg)); inversion H; subst; simpl; rewrite Na; (split; [split; [intros; discriminate | exact Sr] | intros t []]).
  - unfold alloc in H. inversion H; subst. simpl. rewrite Na. simpl.
    split; [split; [intros; reflexivity | split; [intros; discriminate | exact Sr]] | intros t []].
  - (* FScript *)
    destruct p as [|o q]; [discriminate|].
    assert (Keep : shape (FScript r c q :: rest)) by (split; [intros; reflexivity | exact Sr]).
    assert (Fail : forall retry, do_fail s r (FScript r c q :: rest) retry = Some (s1, st, sp) -> shape st /\ forall t, In t sp -> stack_ok t).
    { intros retry HF. eapply do_fail_shape; eauto. }
    destruct o.
    + inversion H; subst. simpl. split; [split; [intros; reflexivity | exact Keep] | intros t []].
    + destruct (Nat.eqb arg 0); [|unfold alloc in H]; inversion H; subst; simpl;
        (split; [first [exact Keep | split; [intros; reflexivity | exact Keep]] | intros t []]).
    + destruct (Nat.eqb arg 0).
      * destruct (memb key (r_keys (getr s r))); [discriminate|]. inversion H; subst. simpl.
        split; [split; [intros; reflexivity | split; [intros; reflexivity | exact Keep]] | intros t []].
      * destruct (Nat.eqb arg 2); [inversion H; subst; split; [exact Keep | intros t []]|].
        destruct (r_cancel (getr s r)); [|discriminate]. eapply Fail; eauto.
    + destruct (Nat.eqb arg 0); [inversion H; subst; split; [exact Keep | intros t []] | eapply Fail; eauto].
    + destruct (Nat.eqb arg 0); [inversion H; subst; split; [exact Keep | intros t []] | eapply Fail; eauto].
    + (* OPar *)
      inversion H; subst. simpl. split; [split; [intros; reflexivity | exact Keep]|].
      intros t Ht. destruct (branch_tasks_in _ _ _ _ _ _ Ht) as [idx [b [_ ->]]].
      split; [discriminate|]. split; [reflexivity|]. simpl. repeat split; intros; discriminate.
  - destruct (do_add_out s res c) as [[s2 sp2]|] eqn:A; [|discriminate]. inversion H; subst.
    split; [split; [intros; reflexivity | exact Sr] | eapply do_add_out_spawn_ok; eauto].
  - inversion H; subst. split; [exact Sr | intros t []].
  - destruct (n_hrel (getN s res)); [discriminate|]. inversion H; subst. split; [split; [intros; reflexivity | exact Sr] | intros t []].
  - destruct (do_add_out s res c) as [[s2 sp2]|] eqn:A; [|discriminate]. inversion H; subst.
    split; [exact Sr | eapply do_add_out_spawn_ok; eauto].
  - unfold alloc in H. inversion H; subst. simpl.
    split; [split; [intros; reflexivity | split; [intros; reflexivity | exact Sr]] | intros t []].
  - destruct (cache_get (r_cache (getr s r)) key); inversion H; subst; (split; [split; [intros; reflexivity | exact Sr] | intros t []]).
  - destruct (do_add_out s child parent) as [[s2 sp2]|] eqn:A; [|discriminate]. inversion H; subst.
    split; [exact Sr | eapply do_add_out_spawn_ok; eauto].
  - (* FCacheGet *)
    destruct (cache_get (r_cache (getr s r)) key) as [child|]; [destruct (Nat.eqb child c); [discriminate|]|];
      inversion H; subst; (split; [split; [intros; reflexivity | exact Sr] | intros t []]).
  - (* FKeyUnlock *) inversion H; subst. split; [exact Sr | intros t []].
  - (* FJoin *)
    destruct (nth jid (s_joins s) (0, false)) as [nb failed]. destruct (Nat.eqb nb 0); [|discriminate].
    destruct failed; [eapply do_fail_shape; eauto | inversion H; subst; split; [exact Sr | intros t []]].
  - (* FBranchBegin *) inversion H; subst. split; [exact Sr | intros t []].
  - (* FBranchEnd *)
    destruct (nth jid (s_joins s) (0, false)) as [nb failed]. inversion H; subst. split; [exact Sr | intros t []].
  - inversion H; subst. simpl. rewrite Na. split; [split; [intros; discriminate | exact Sr]|].
    intros t Ht. destruct (r_comp (getr s r)); simpl in Ht; [destruct Ht as [<-|[]]; single_ok | contradiction].
  - destruct (negb (n_inv (getN s c)) && match n_hinv (getN s c) with Some _ => true | None => false end); [discriminate|].
    destruct (g_handle_inv (s_nodes s) c r) as [g fired]. inversion H; subst. simpl. rewrite Na.
    split; [split; [intros; discriminate | exact Sr]|]. intros t Ht. destruct fired; simpl in Ht; [destruct Ht as [<-|[]]; single_ok | contradiction].
  - inversion H; subst. split; [exact Sr | intros t []].
  - destruct cancelled.
    + destruct (r_mu (getr s r)); [discriminate|]. inversion H; subst. split; [exact Sr|].
      intros t Ht. destruct (r_comp (getr s r)); simpl in Ht; [destruct Ht as [<-|[]]; single_ok | contradiction].
    + inversion H; subst. simpl. rewrite Na. split; [split; [intros; discriminate | exact Sr] | intros t []].
  - (* FOutAdd *)
    destruct (Nat.ltb n (length (s_nodes s))); [|discriminate]. unfold g_add_out_released in H. inversion H; subst. split; [exact Sr|].
    intros t Ht. destruct (n_inv (getn (s_nodes s) n)), (is_nil (n_out (getn (s_nodes s) n))); simpl in Ht;
      repeat (destruct Ht as [<-|Ht]); try contradiction; single_ok.
  - inversion H; subst. split; [exact Sr | intros t []].
Qed.

Definition tasks_ok (s : state) : Prop :=
  NoDup (map fst (s_tasks s)) /\
  forall tid st, In (tid, st) (s_tasks s) -> tid < s_tid s /\ stack_ok st.

Lemma number_from_fst : forall sp k, map fst (number_from k sp) = seq k (length sp).
Proof. induction sp as [|h t IH]; intros k; simpl; [reflexivity | rewrite IH; reflexivity]. Qed.

Lemma number_from_in : forall sp k tid st, In (tid, st) (number_from k sp) -> k <= tid < k + length sp /\ In st sp.
Proof.
  induction sp as [|h t IH]; intros k tid st H; simpl in H; [contradiction|].
  destruct H as [H|H]; [inversion H; subst; simpl; split; [lia | left; reflexivity]|].
  destruct (IH _ _ _ H) as [A B]. simpl. split; [lia | right; exact B].
Qed.

Lemma NoDup_app_intro : forall A (a b : list A),
  NoDup a -> NoDup b -> (forall x, In x a -> In x b -> False) -> NoDup (a ++ b).
Proof.
  induction a as [|h t IH]; intros b Ha Hb Hd; simpl; [exact Hb|].
  inversion Ha; subst. constructor.
  - intros Hin. apply in_app_iff in Hin. destruct Hin as [Hin|Hin]; [contradiction | eapply Hd; [left; reflexivity | exact Hin]].
  - apply IH; [assumption | assumption | intros x Hx Hy; eapply Hd; [right; exact Hx | exact Hy]].
Qed.

Lemma NoDup_app_elim : forall A (a b : list A),
  NoDup (a ++ b) -> NoDup a /\ NoDup b /\ (forall x, In x a -> In x b -> False).
Proof.
  induction a as [|h t IH]; intros b H; simpl in *; [split; [constructor | split; [exact H | intros x []]]|].
  inversion H; subst. destruct (IH _ H3) as [I1 [I2 I3]]. split; [|split; [exact I2|]].
  - constructor; [intros Q; apply H2; apply in_app_iff; left; exact Q | exact I1].
  - intros x [->|Hx] Hy; [apply H2; apply in_app_iff; right; exact Hy | eapply I3; eauto].
Qed.

Lemma spawn_tasks_ok : forall s sp,
  tasks_ok s -> (forall t, In t sp -> stack_ok t) -> tasks_ok (spawn s sp).
Proof.
  intros s sp [Nd Ok] Hsp. unfold tasks_ok, spawn. simpl. split.
  - rewrite map_app, number_from_fst. apply NoDup_app_intro; [exact Nd | apply seq_NoDup|].
    intros x Hx Hy. apply in_seq in Hy. apply in_map_iff in Hx. destruct Hx as [[tid st] [E Hin]]. simpl in E. subst x.
    destruct (Ok _ _ Hin) as [Lt _]. lia.
  - intros tid st Hin. apply in_app_iff in Hin. destruct Hin as [Hin|Hin].
    + destruct (Ok _ _ Hin) as [Lt So]. split; [lia | exact So].
    + destruct (number_from_in _ _ _ _ Hin) as [Rg Hs]. split; [lia | apply Hsp; exact Hs].
Qed.

Lemma step_top_tid : forall s f rest arg s1 st sp, step_top s f rest arg = Some (s1, st, sp) -> s_tid s1 = s_tid s /\ s_tasks s1 = s_tasks s.
Proof.
  intros s f rest arg s1 st sp H.
  assert (A6 : forall x n to y sp0, do_add_out x n to = Some (y, sp0) -> s_tid y = s_tid x /\ s_tasks y = s_tasks x).
  { intros x n to y sp0 HH. unfold do_add_out in HH.
    destruct (Nat.ltb n (length (s_nodes x)) && Nat.ltb to (length (s_nodes x)) && negb (Nat.eqb n to)); [|discriminate].
    destruct (g_add_out (s_nodes x) n to) as [g [[a b] c]]. inversion HH. split; reflexivity. }
  assert (A7 : forall x r stk b y st' sp', do_fail x r stk b = Some (y, st', sp') -> s_tid y = s_tid x /\ s_tasks y = s_tasks x).
  { intros x r stk b y st' sp' HH. unfold do_fail in HH. destruct (unwind r stk) as [[[[cs ks] below] [jid|]]|]; [| |discriminate].
    - inversion HH; split; reflexivity.
    - destruct b; inversion HH; split; reflexivity. }
  assert (A8 : forall x n k y st' sp', inv_step x n k = Some (y, st', sp') -> s_tid y = s_tid x /\ s_tasks y = s_tasks x).
  { intros x n k y st' sp' HH. unfold inv_step in HH.
    destruct (Nat.ltb n (length (s_nodes x))); [|discriminate].
    destruct (n_inv (getN x n)); [inversion HH; split; reflexivity|].
    destruct (n_hinv (getN x n)) as [r|]; [destruct (r_spawn (getr x r))|]; inversion HH; split; reflexivity. }
  unfold step_top, alloc in H.
  destruct f; cbv beta iota zeta in H; dmatch H;
    repeat match goal with
    | A : do_add_out _ _ _ = Some _ |- _ => apply A6 in A; destruct A as [? ?]
    | A : inv_step _ _ _ = Some _ |- _ => apply A8 in A; destruct A as [? ?]
    | A : do_fail _ _ _ _ = Some _ |- _ => apply A7 in A; destruct A as [? ?]
    end; simpl in *; try (split; reflexivity); try (split; assumption); try (split; congruence).
Qed.

Lemma step_tasks_ok : forall s l s', tasks_ok s -> step s l = Some s' -> tasks_ok s'.
Proof.
  intros s l s' Inv H. destruct l.
  - unfold step in H.
    destruct (find_task (s_tasks s) tid) as [[|f rest]|] eqn:F; try discriminate.
    destruct (step_top s f rest arg) as [[[s1 st] sp]|] eqn:T; try discriminate.
    inversion H; subst s'; clear H.
    destruct (find_task_split _ _ _ F) as [pre [post [E1 E2]]].
    destruct (step_top_tid _ _ _ _ _ _ _ T) as [Ti Ta].
    destruct Inv as [Nd Ok].
    assert (Sf : stack_ok (f :: rest)) by (apply (Ok tid); rewrite E1; apply in_app_iff; right; left; reflexivity).
    destruct (step_top_shape _ _ _ _ _ _ _ T (proj2 (proj2 Sf))) as [Sst Ssp].
    apply spawn_tasks_ok; [|exact Ssp].
    unfold tasks_ok. simpl. rewrite Ta, E2, Ti. rewrite E1 in Nd, Ok. split.
    + rewrite !map_app in *. simpl in Nd. apply NoDup_remove in Nd. destruct Nd as [Nd Ni].
      unfold task_list. destruct (norm st) eqn:En; simpl; [exact Nd|].
      destruct (NoDup_app_elim _ _ _ Nd) as [N1 [N2 N3]].
      apply NoDup_app_intro; [exact N1 | constructor; [intros Q; apply Ni; apply in_app_iff; right; exact Q | exact N2]|].
      intros x Hx [Hy|Hy]; [subst x; apply Ni; apply in_app_iff; left; exact Hx | eapply N3; eauto].
    + intros tid' st' Hin. rewrite !in_app_iff in Hin. destruct Hin as [Hin|[Hin|Hin]].
      * apply Ok. apply in_app_iff. left. exact Hin.
      * unfold task_list in Hin. destruct (norm st) eqn:En; simpl in Hin; [contradiction|]. destruct Hin as [Q|[]]. inversion Q; subst.
        split; [apply (Ok tid' (f :: rest)); apply in_app_iff; right; left; reflexivity|].
        rewrite <- En. apply stack_ok_norm; [exact Sst | rewrite En; discriminate].
      * apply Ok. apply in_app_iff. right. right. exact Hin.
  - simpl in H. destruct (Nat.ltb slot (length (s_slots s))); [|discriminate]. inversion H; subst; clear H.
    apply spawn_tasks_ok; [exact Inv | intros t [<-|[]]; single_ok].
  - simpl in H. destruct (Nat.ltb slot (length (s_slots s))); [|discriminate]. inversion H; subst; clear H.
    apply spawn_tasks_ok; [exact Inv | intros t [<-|[]]; single_ok].
  - simpl in H. destruct (Nat.ltb r (length (s_rrs s))); [|discriminate]. inversion H; subst; clear H.
    apply spawn_tasks_ok; [exact Inv | intros t [<-|[]]; single_ok].
  - simpl in H. destruct (Nat.ltb r (length (s_rrs s))); [|discriminate].
    destruct (r_clock (getr s r)); [discriminate|]. inversion H; subst; clear H. exact Inv.
  - simpl in H. destruct (Nat.eqb (n_timer (getN s n)) 1); [|discriminate]. inversion H; subst; clear H.
    apply spawn_tasks_ok; [exact Inv | intros t [<-|[]]; single_ok].
  - simpl in H. destruct (Nat.ltb slot (length (s_slots s))); [|discriminate]. inversion H; subst; clear H.
    apply spawn_tasks_ok; [exact Inv | intros t [<-|[]]; single_ok].
  - simpl in H. destruct (Nat.ltb r (length (s_rrs s))); [|discriminate]. inversion H; subst; clear H. exact Inv.
Qed.

Lemma init_tasks_ok : forall k progs, tasks_ok (init k progs).
Proof.
  intros k progs. unfold tasks_ok, init. simpl.
  assert (G : forall n j, map fst (init_tasks n j) = seq j n /\ forall tid st, In (tid, st) (init_tasks n j) -> j <= tid < j + n /\ st = [FRunWait tid]).
  { induction n as [|n IH]; intros j; simpl; [split; [reflexivity | intros tid st []]|].
    destruct (IH (S j)) as [I1 I2]. rewrite I1. split; [reflexivity|].
    intros tid st [Q|Q]; [inversion Q; subst; split; [lia | reflexivity] | destruct (I2 _ _ Q) as [A B]; split; [lia | exact B]]. }
  destruct (G (length progs) 0) as [G1 G2]. rewrite G1. split; [apply seq_NoDup|].
  intros tid st Hin. destruct (G2 _ _ Hin) as [A ->]. split; [lia | single_ok].
Qed.

Lemma reachable_tasks_ok : forall k progs s, reachable (init k progs) s -> tasks_ok s.
Proof.
  intros k progs s R. induction R as [|s l s' R IH H]; [apply init_tasks_ok | eapply step_tasks_ok; eauto].
Qed.
