(** * Reactive/ProofsLink.v — the two halves of an edge agree: a dependant in [out] has the dependency in its
    [in] list, and a dependant that has been released is on its way out of every [out] set it is in.  Hence at
    quiescence [out n] is exactly the set of unreleased computations that registered n. *)
From Coq Require Import List Arith Bool Lia Permutation.
From Thunder Require Import Reactive.Graph Reactive.Rerunner Reactive.ProofsBase Reactive.ProofsEdge Reactive.ProofsMutex Reactive.ProofsRefcount.
Import ListNotations.

Definition link_on (g : graph) (fr : list frame) : Prop :=
  (forall n m, In m (n_out (getn g n)) -> In n (n_ins (getn g m))) /\
  (forall n m, In m (n_out (getn g n)) -> n_rel (getn g m) = true ->
     exists froms, In (FRelDeps m froms) fr /\ In n froms).

Definition link_inv (s : state) : Prop := link_on (s_nodes s) (all_frames s).

(** graphs that agree on out, in, released *)
Definition same_link (g g' : graph) : Prop :=
  forall m, n_out (getn g' m) = n_out (getn g m) /\ n_ins (getn g' m) = n_ins (getn g m) /\
            n_rel (getn g' m) = n_rel (getn g m).

Lemma same_link_refl : forall g, same_link g g.
Proof. intros g m. repeat split. Qed.

Lemma same_link_trans : forall a b c, same_link a b -> same_link b c -> same_link a c.
Proof.
  intros a b c H1 H2 m. destruct (H1 m) as [A1 [A2 A3]], (H2 m) as [B1 [B2 B3]]. repeat split; congruence.
Qed.

Lemma same_link_setn : forall g i x,
  n_out x = n_out (getn g i) -> n_ins x = n_ins (getn g i) -> n_rel x = n_rel (getn g i) -> same_link g (setn g i x).
Proof.
  intros g i x H1 H2 H3 m. rewrite getn_setn.
  destruct (Nat.eqb i m && Nat.ltb i (length g)) eqn:E; [|repeat split].
  apply andb_true_iff in E. destruct E as [E _]. apply Nat.eqb_eq in E. subst. repeat split; assumption.
Qed.

Lemma same_link_alloc : forall g x, n_out x = [] -> n_ins x = [] -> n_rel x = false -> same_link g (g ++ [x]).
Proof.
  intros g x H1 H2 H3 m. rewrite getn_app_new. destruct (Nat.eqb m (length g)) eqn:E; [|repeat split].
  apply Nat.eqb_eq in E. subst m. rewrite getn_out_of_range by lia. rewrite H1, H2, H3. repeat split.
Qed.

Ltac same_link_tac :=
  first
    [ apply same_link_refl
    | apply same_link_setn; reflexivity
    | apply same_link_alloc; reflexivity
    | eapply same_link_trans; [ | first [apply same_link_setn; reflexivity | apply same_link_alloc; reflexivity] ]; same_link_tac ].

(** every pending walk over in-edges survives *)
Definition keeps (fr fr' : list frame) : Prop :=
  forall m froms, froms <> [] -> In (FRelDeps m froms) fr -> In (FRelDeps m froms) fr'.

Lemma link_same : forall g g' fr fr', same_link g g' -> keeps fr fr' -> link_on g fr -> link_on g' fr'.
Proof.
  intros g g' fr fr' S K [A B]. split.
  - intros n m Hin. destruct (S n) as [S1 _], (S m) as [_ [S2 _]]. rewrite S1 in Hin. rewrite S2. apply A. exact Hin.
  - intros n m Hin Hr. destruct (S n) as [S1 _], (S m) as [_ [_ S3]]. rewrite S1 in Hin. rewrite S3 in Hr.
    destruct (B n m Hin Hr) as [froms [F1 F2]]. exists froms. split; [|exact F2].
    apply K; [intros Q; subst; contradiction | exact F1].
Qed.

Lemma link_on_perm : forall g a b, Permutation a b -> link_on g a -> link_on g b.
Proof.
  intros g a b P [A B]. split; [exact A|]. intros n m Hin Hr. destruct (B n m Hin Hr) as [froms [F1 F2]].
  exists froms. split; [eapply Permutation_in; eauto | exact F2].
Qed.

(** ** what the sub-operations keep *)
Lemma inv_step_link : forall s n k s1 st sp,
  inv_step s n k = Some (s1, st, sp) ->
  same_link (s_nodes s) (s_nodes s1) /\ (forall x, In x k -> In x st).
Proof.
  intros s n k s1 st sp H. unfold inv_step in H.
  destruct (Nat.ltb n (length (s_nodes s))); [|discriminate].
  destruct (n_inv (getN s n)); [inversion H; subst; split; [apply same_link_refl | auto]|].
  destruct (n_hinv (getN s n)) as [r|]; [destruct (r_spawn (getr s r))|]; inversion H; subst; clear H; simpl;
    (split; [unfold g_inv_mark; same_link_tac | intros x Hx; simpl; auto]).
Qed.

Lemma do_fail_link : forall s r stk b s1 st sp,
  do_fail s r stk b = Some (s1, st, sp) ->
  s_nodes s1 = s_nodes s /\ forall m froms, In (FRelDeps m froms) stk -> In (FRelDeps m froms) st.
Proof.
  intros s r stk b s1 st sp H.
  destruct (do_fail_spec _ _ _ _ _ _ _ H) as [cs [ks [below [term [y [U [N [Sl [R [Y1 [Y2 [Y3 [Y4 [Y5 [Y6 [Y7 [Y8 T]]]]]]]]]]]]]]]]].
  destruct (unwind_split _ _ _ _ _ _ U) as [d [l [E [Fd [L _]]]]].
  split; [exact N|]. intros m froms Hin. rewrite E in Hin. apply in_app_iff in Hin.
  assert (Bl : In (FRelDeps m froms) below -> In (FRelDeps m froms) st).
  { intros Q. destruct term as [jid|]; [destruct T as [-> _] | destruct T as [-> _]]; right; exact Q. }
  destruct Hin as [Hin|[Hin|Hin]]; [| |apply Bl; exact Hin].
  - exfalso. rewrite forallb_forall in Fd. specialize (Fd _ Hin). discriminate.
  - exfalso. destruct term as [jid|]; simpl in L; [subst l; discriminate | destruct L as [c ->]; discriminate].
Qed.

Lemma g_add_out_ins : forall g n to g' linked shinv shrel,
  g_add_out g n to = (g', (linked, shinv, shrel)) -> n < length g -> to < length g -> n <> to ->
  (forall m, n_rel (getn g' m) = n_rel (getn g m)) /\
  (forall m x, In x (n_ins (getn g m)) -> In x (n_ins (getn g' m))) /\
  (linked = true -> In n (n_ins (getn g' to))) /\
  linked = negb (n_rel (getn g to)).
Proof.
  intros g n to g' linked shinv shrel H Ln Lt Nq. unfold g_add_out in H.
  assert (Nq' : Nat.eqb n to = false) by (apply Nat.eqb_neq; exact Nq).
  destruct (negb (n_rel (getn g to))) eqn:Lk; inversion H; subst; clear H.
  - split; [|split; [|split; [|reflexivity]]].
    + intros m. rewrite !getn_setn, !length_setn.
      destruct (Nat.eqb to m && Nat.ltb to (length g)) eqn:E1.
      * apply andb_true_iff in E1. destruct E1 as [E1 _]. apply Nat.eqb_eq in E1. subst m. simpl. rewrite Nq'. reflexivity.
      * destruct (Nat.eqb n m && Nat.ltb n (length g)) eqn:E2; [|reflexivity].
        apply andb_true_iff in E2. destruct E2 as [E2 _]. apply Nat.eqb_eq in E2. subst m. reflexivity.
    + intros m x Hx. rewrite !getn_setn, !length_setn.
      destruct (Nat.eqb to m && Nat.ltb to (length g)) eqn:E1.
      * apply andb_true_iff in E1. destruct E1 as [E1 _]. apply Nat.eqb_eq in E1. subst m. simpl. rewrite Nq'. simpl.
        apply in_app_iff. left. exact Hx.
      * destruct (Nat.eqb n m && Nat.ltb n (length g)) eqn:E2; [|exact Hx].
        apply andb_true_iff in E2. destruct E2 as [E2 _]. apply Nat.eqb_eq in E2. subst m. exact Hx.
    + intros _. rewrite getn_setn_eq by (rewrite length_setn; exact Lt). simpl. apply in_app_iff. right. left. reflexivity.
  - split; [|split; [|split; [discriminate | reflexivity]]].
    + intros m. rewrite getn_setn. destruct (Nat.eqb n m && Nat.ltb n (length g)) eqn:E2; [|reflexivity].
      apply andb_true_iff in E2. destruct E2 as [E2 _]. apply Nat.eqb_eq in E2. subst m. reflexivity.
    + intros m x Hx. rewrite getn_setn. destruct (Nat.eqb n m && Nat.ltb n (length g)) eqn:E2; [|exact Hx].
      apply andb_true_iff in E2. destruct E2 as [E2 _]. apply Nat.eqb_eq in E2. subst m. exact Hx.
Qed.

Lemma do_add_out_link : forall s n to s1 sp fr,
  do_add_out s n to = Some (s1, sp) -> link_on (s_nodes s) fr -> link_on (s_nodes s1) fr.
Proof.
  intros s n to s1 sp fr H [A B]. unfold do_add_out in H.
  destruct (Nat.ltb n (length (s_nodes s)) && Nat.ltb to (length (s_nodes s)) && negb (Nat.eqb n to)) eqn:G; [|discriminate].
  apply andb_true_iff in G. destruct G as [G Nq]. apply negb_true_iff in Nq. apply Nat.eqb_neq in Nq.
  apply andb_true_iff in G. destruct G as [G1 G2]. apply Nat.ltb_lt in G1. apply Nat.ltb_lt in G2.
  destruct (g_add_out (s_nodes s) n to) as [g [[linked shinv] shrel]] eqn:E.
  inversion H; subst; clear H. simpl.
  destruct (Reactive.ProofsEdge.g_add_out_spec _ _ _ _ _ _ _ E G1 G2 Nq) as [_ [_ [O1 [O2 _]]]].
  destruct (g_add_out_ins _ _ _ _ _ _ _ E G1 G2 Nq) as [R1 [I1 [I2 Lk]]].
  assert (Pair : forall x m, In m (n_out (getn g x)) -> In m (n_out (getn (s_nodes s) x)) \/ (x = n /\ m = to /\ linked = true)).
  { intros x m Hin. destruct (Nat.eq_dec x n) as [->|Nx]; [|left; rewrite <- (O1 x Nx); exact Hin].
    apply O2 in Hin. destruct Hin as [Hin|[L ->]]; [left; exact Hin | right; auto]. }
  split.
  - intros x m Hin. destruct (Pair x m Hin) as [Old|[-> [-> L]]]; [apply I1; apply A; exact Old | apply I2; exact L].
  - intros x m Hin Hr. rewrite R1 in Hr. destruct (Pair x m Hin) as [Old|[-> [-> L]]]; [apply B; assumption|].
    exfalso. rewrite Lk, Hr in L. discriminate.
Qed.

Lemma link_leaf : forall g g' f rest others st sp,
  same_link g g' -> (forall m froms, f <> FRelDeps m froms) ->
  (forall m froms, In (FRelDeps m froms) rest -> In (FRelDeps m froms) st) ->
  link_on g (f :: rest ++ others) -> link_on g' (st ++ others ++ concat sp).
Proof.
  intros g g' f rest others st sp S Nf K Inv. eapply link_same; [exact S | | exact Inv].
  intros m froms _ Hin. destruct Hin as [Q|Hin]; [exfalso; eapply Nf; eauto|].
  apply in_app_iff in Hin. rewrite !in_app_iff. destruct Hin as [Hin|Hin]; [left; apply K; exact Hin | right; left; exact Hin].
Qed.

Ltac leaf Inv := eapply link_leaf; [ | | | exact Inv]; [unfold getN, g_inv_mark, g_handle_rel, g_handle_inv, g_add_out_released; same_link_tac | intros; discriminate | intros; simpl; tauto].

Lemma link_fail : forall s r stk b s1 st sp f rest others,
  do_fail s r stk b = Some (s1, st, sp) ->
  (forall m froms, f <> FRelDeps m froms) ->
  (forall m froms, In (FRelDeps m froms) rest -> In (FRelDeps m froms) stk) ->
  link_on (s_nodes s) (f :: rest ++ others) -> link_on (s_nodes s1) (st ++ others ++ concat sp).
Proof.
  intros s r stk b s1 st sp f rest others H Nf K Inv. destruct (do_fail_link _ _ _ _ _ _ _ H) as [N D]. rewrite N.
  eapply link_leaf; [apply same_link_refl | exact Nf | | exact Inv]. intros m froms Q. apply D. apply K. exact Q.
Qed.

Lemma step_top_link : forall s f rest arg s1 st sp others,
  step_top s f rest arg = Some (s1, st, sp) ->
  link_on (s_nodes s) (f :: rest ++ others) ->
  link_on (s_nodes s1) (st ++ others ++ concat sp).
Proof.
  intros s f rest arg s1 st sp others H Inv.
  unfold step_top, alloc in H.
  destruct f; cbv beta iota zeta in H.
  - (* FInvList *)
    destruct (memb arg l); [|discriminate]. destruct (inv_step_link _ _ _ _ _ _ H) as [S K].
    eapply link_leaf; [ | | | exact Inv]; [exact S | intros; discriminate|]. intros m froms Q. apply K. right. exact Q.
  - inversion H; subst; clear H. leaf Inv.
  - (* FRelEnter *)
    destruct (inv_step_link _ _ _ _ _ _ H) as [S K].
    eapply link_leaf; [ | | | exact Inv]; [exact S | intros; discriminate|]. intros m froms Q. apply K. right. exact Q.
  - (* FRelMark *)
    destruct (n_rel (getN s n)) eqn:Rl; [inversion H; subst; clear H; leaf Inv|].
    assert (Core : forall g' st',
              (forall m, n_out (getn g' m) = n_out (getn (s_nodes s) m) /\ n_ins (getn g' m) = n_ins (getn (s_nodes s) m)) ->
              (forall m, n_rel (getn g' m) = true -> n_rel (getn (s_nodes s) m) = true \/ m = n) ->
              In (FRelDeps n (n_ins (getN s n))) st' ->
              (forall m froms, In (FRelDeps m froms) rest -> In (FRelDeps m froms) st') ->
              link_on g' (st' ++ others ++ concat [])).
    { intros g' st' Same Rel Wit K. destruct Inv as [A B]. split.
      - intros x m Hin. destruct (Same x) as [S1 _], (Same m) as [_ S2]. rewrite S1 in Hin. rewrite S2. apply A. exact Hin.
      - intros x m Hin Hr. destruct (Same x) as [S1 _]. rewrite S1 in Hin.
        destruct (Rel m Hr) as [Old| ->].
        + destruct (B x m Hin Old) as [froms [F1 F2]]. exists froms. split; [|exact F2].
          destruct F1 as [Q|F1]; [discriminate|]. apply in_app_iff in F1. rewrite !in_app_iff.
          destruct F1 as [F1|F1]; [left; apply K; exact F1 | right; left; exact F1].
        + exists (n_ins (getN s n)). split; [apply in_app_iff; left; exact Wit | apply A; exact Hin]. }
    assert (SameMark : forall m, n_out (getn (g_rel_mark (s_nodes s) n) m) = n_out (getn (s_nodes s) m) /\
                                 n_ins (getn (g_rel_mark (s_nodes s) n) m) = n_ins (getn (s_nodes s) m)).
    { intros m. unfold g_rel_mark. rewrite getn_setn. destruct (Nat.eqb n m && Nat.ltb n (length (s_nodes s))) eqn:E; [|split; reflexivity].
      apply andb_true_iff in E. destruct E as [E _]. apply Nat.eqb_eq in E. subst m. split; reflexivity. }
    assert (RelMark : forall m, n_rel (getn (g_rel_mark (s_nodes s) n) m) = true -> n_rel (getn (s_nodes s) m) = true \/ m = n).
    { intros m. unfold g_rel_mark. rewrite getn_setn. destruct (Nat.eqb n m && Nat.ltb n (length (s_nodes s))) eqn:E; [|auto].
      apply andb_true_iff in E. destruct E as [E _]. apply Nat.eqb_eq in E. subst m. auto. }
    destruct (n_hrel (getN s n)) as [[sl|]|]; inversion H; subst; clear H; simpl s_nodes.
    + apply Core; [exact SameMark | exact RelMark | right; left; reflexivity | intros; simpl; tauto].
    + apply Core; [| | left; reflexivity | intros; simpl; tauto].
      * intros m. rewrite getn_setn. destruct (SameMark m) as [S1 S2].
        destruct (Nat.eqb n m && Nat.ltb n (length (g_rel_mark (s_nodes s) n))) eqn:E; [|split; assumption].
        apply andb_true_iff in E. destruct E as [E _]. apply Nat.eqb_eq in E. subst m. unfold getN. simpl. split; assumption.
      * intros m. rewrite getn_setn. destruct (Nat.eqb n m && Nat.ltb n (length (g_rel_mark (s_nodes s) n))) eqn:E; [|apply RelMark].
        apply andb_true_iff in E. destruct E as [E _]. apply Nat.eqb_eq in E. subst m. auto.
    + apply Core; [exact SameMark | exact RelMark | left; reflexivity | intros; simpl; tauto].
  - (* FCleanup *)
    destruct (Nat.eqb (slot_res (upd_node s n (inc_cln (getN s n))) slot) n); inversion H; subst; clear H; simpl s_nodes; leaf Inv.
  - (* FRelDeps *)
    destruct froms as [|from l]; [discriminate|].
    destruct (g_rel_dep (s_nodes s) from n) as [g' shrel] eqn:E. unfold g_rel_dep in E. inversion E; subst g'; clear E.
    set (g' := setn (s_nodes s) from (set_out (getn (s_nodes s) from) (remove_all n (n_out (getn (s_nodes s) from))))) in *.
    assert (O : forall x m, In m (n_out (getn g' x)) -> In m (n_out (getn (s_nodes s) x)) /\ (x = from -> m <> n)).
    { intros x m Hin. unfold g' in Hin. rewrite getn_setn in Hin.
      destruct (Nat.eqb from x && Nat.ltb from (length (s_nodes s))) eqn:E.
      - apply andb_true_iff in E. destruct E as [E _]. apply Nat.eqb_eq in E. subst x. simpl in Hin.
        apply In_remove_all in Hin. destruct Hin as [Hq1 Hq2]. split; [exact Hq1 | intros _; exact Hq2].
      - split; [exact Hin|]. intros ->. rewrite Nat.eqb_refl in E. simpl in E. apply Nat.ltb_ge in E.
        rewrite getn_out_of_range in Hin by exact E. contradiction. }
    assert (IR : forall m, n_ins (getn g' m) = n_ins (getn (s_nodes s) m) /\ n_rel (getn g' m) = n_rel (getn (s_nodes s) m)).
    { intros m. unfold g'. rewrite getn_setn. destruct (Nat.eqb from m && Nat.ltb from (length (s_nodes s))) eqn:E; [|split; reflexivity].
      apply andb_true_iff in E. destruct E as [E _]. apply Nat.eqb_eq in E. subst m. split; reflexivity. }
    assert (Goal : forall st', In (FRelDeps n l) st' \/ l = [] -> (forall m froms, In (FRelDeps m froms) rest -> In (FRelDeps m froms) st') ->
                   link_on g' (st' ++ others ++ concat [])).
    { intros st' Wit K. destruct Inv as [A B]. split.
      - intros x m Hin. destruct (O x m Hin) as [Old _]. destruct (IR m) as [I1 _]. rewrite I1. apply A. exact Old.
      - intros x m Hin Hr. destruct (O x m Hin) as [Old Ne]. destruct (IR m) as [_ I2]. rewrite I2 in Hr.
        destruct (B x m Old Hr) as [froms [F1 F2]].
        destruct F1 as [Q|F1].
        + inversion Q; subst; clear Q. destruct F2 as [->|F2]; [exfalso; apply Ne; reflexivity|].
          exists l. split; [|exact F2]. destruct Wit as [Wit| ->]; [apply in_app_iff; left; exact Wit | contradiction].
        + exists froms. split; [|exact F2]. apply in_app_iff in F1. rewrite !in_app_iff.
          destruct F1 as [F1|F1]; [left; apply K; exact F1 | right; left; exact F1]. }
    destruct shrel; inversion H; subst; clear H; simpl s_nodes; fold g'.
    + apply Goal; [left; right; left; reflexivity | intros; simpl; tauto].
    + apply Goal; [left; left; reflexivity | intros; simpl; tauto].
  - (* FRunWait *) dmatch H; leaf Inv.
  - dmatch H; simpl s_nodes; leaf Inv.
  - dmatch H; simpl s_nodes; leaf Inv.
  - dmatch H; simpl s_nodes; leaf Inv.
  - (* FBegin *) inversion H; subst; clear H. simpl s_nodes. leaf Inv.
  - (* FScript *)
    destruct p as [|o q]; [discriminate|].
    assert (Df : forall b s2 st2 sp2, do_fail s r (FScript r c q :: rest) b = Some (s2, st2, sp2) ->
                 link_on (s_nodes s2) (st2 ++ others ++ concat sp2)).
    { intros b s2 st2 sp2 Hf. eapply link_fail; [exact Hf | | | exact Inv]; [intros; discriminate | intros; simpl; tauto]. }
    destruct o; dmatch H; simpl s_nodes; try (eapply Df; eassumption); leaf Inv.
  - (* FDepAdd *)
    destruct (do_add_out s res c) as [[s2 sp2]|] eqn:A; [|discriminate]. inversion H; subst; clear H.
    assert (L := do_add_out_link _ _ _ _ _ _ A Inv).
    eapply link_leaf; [ | | | exact L]; [apply same_link_refl | intros; discriminate | intros; simpl; tauto].
  - inversion H; subst; clear H. simpl s_nodes. leaf Inv.
  - destruct (n_hrel (getN s res)); [discriminate|]. inversion H; subst; clear H. simpl s_nodes. unfold g_handle_rel.
    destruct (n_rel (getn (s_nodes s) res)); simpl fst; leaf Inv.
  - destruct (do_add_out s res c) as [[s2 sp2]|] eqn:A; [|discriminate]. inversion H; subst; clear H.
    assert (L := do_add_out_link _ _ _ _ _ _ A Inv).
    eapply link_leaf; [ | | | exact L]; [apply same_link_refl | intros; discriminate | intros; simpl; tauto].
  - inversion H; subst; clear H. simpl s_nodes. leaf Inv.
  - dmatch H; simpl s_nodes; leaf Inv.
  - (* FCacheLink *)
    destruct (do_add_out s child parent) as [[s2 sp2]|] eqn:A; [|discriminate]. inversion H; subst; clear H.
    assert (L := do_add_out_link _ _ _ _ _ _ A Inv). simpl s_nodes.
    eapply link_leaf; [ | | | exact L]; [unfold getN; same_link_tac | intros; discriminate | intros; simpl; tauto].
  - dmatch H; leaf Inv.
  - inversion H; subst; clear H. simpl s_nodes. leaf Inv.
  - (* FJoin *)
    destruct (nth jid (s_joins s) (0, false)) as [nb failed]. destruct (Nat.eqb nb 0); [|discriminate].
    destruct failed; [|inversion H; subst; clear H; leaf Inv].
    eapply link_fail; [exact H | | | exact Inv]; [intros; discriminate | intros; tauto].
  - inversion H; subst; clear H. leaf Inv.
  - destruct (nth jid (s_joins s) (0, false)) as [nb failed]. inversion H; subst; clear H. simpl s_nodes. leaf Inv.
  - inversion H; subst; clear H. simpl s_nodes. leaf Inv.
  - (* FArm *)
    destruct (negb (n_inv (getN s c)) && match n_hinv (getN s c) with Some _ => true | None => false end); [discriminate|].
    destruct (g_handle_inv (s_nodes s) c r) as [g' fired] eqn:E. unfold g_handle_inv in E.
    destruct (n_inv (getn (s_nodes s) c)); inversion E; subst; clear E; inversion H; subst; clear H; simpl s_nodes; leaf Inv.
  - inversion H; subst; clear H. simpl s_nodes. leaf Inv.
  - dmatch H; simpl s_nodes; leaf Inv.
  - (* FOutAdd *)
    destruct (Nat.ltb n (length (s_nodes s))); [|discriminate].
    destruct (g_add_out_released (s_nodes s) n) as [g' [shinv shrel]] eqn:E. unfold g_add_out_released in E.
    inversion E; subst; clear E. inversion H; subst; clear H. simpl s_nodes. leaf Inv.
  - inversion H; subst; clear H. leaf Inv.
Qed.

Lemma link_drop_exhausted : forall g dropped X Y,
  forallb exhausted dropped = true -> link_on g ((dropped ++ X) ++ Y) -> link_on g (X ++ Y).
Proof.
  intros g dropped X Y D [A B]. split; [exact A|]. intros n m Hin Hr. destruct (B n m Hin Hr) as [froms [F1 F2]].
  exists froms. split; [|exact F2]. rewrite <- app_assoc in F1. apply in_app_iff in F1. destruct F1 as [F1|F1]; [|exact F1].
  exfalso. rewrite forallb_forall in D. specialize (D _ F1). simpl in D. destruct froms; [contradiction | discriminate].
Qed.

Lemma link_spawn_env : forall g g' fr extra,
  same_link g g' -> link_on g fr -> link_on g' (fr ++ extra).
Proof.
  intros g g' fr extra S Inv. eapply link_same; [exact S | | exact Inv].
  intros m froms _ Hin. apply in_app_iff. left. exact Hin.
Qed.

Lemma step_link : forall s l s', link_inv s -> step s l = Some s' -> link_inv s'.
Proof.
  intros s l s' Inv H. unfold link_inv in *. destruct l.
  - destruct (step_task_frames _ _ _ _ H) as [f [rest [s1 [st [sp [others [dropped [P1 [T [D1 [D2 [P2 [N _]]]]]]]]]]]]].
    rewrite N. eapply link_on_perm; [apply Permutation_sym; exact P2|].
    apply (link_drop_exhausted _ dropped); [exact D2|]. rewrite <- D1.
    eapply step_top_link; [exact T|]. eapply link_on_perm; [exact P1 | exact Inv].
  - simpl in H. destruct (Nat.ltb slot (length (s_slots s))); [|discriminate]. inversion H; subst; clear H.
    rewrite frames_spawn. simpl s_nodes. eapply link_spawn_env; [|exact Inv]; apply same_link_refl.
  - simpl in H. destruct (Nat.ltb slot (length (s_slots s))); [|discriminate]. inversion H; subst; clear H.
    rewrite frames_spawn. simpl s_nodes. eapply link_spawn_env; [|exact Inv]; same_link_tac.
  - simpl in H. destruct (Nat.ltb r (length (s_rrs s))); [|discriminate]. inversion H; subst; clear H.
    rewrite frames_spawn. simpl s_nodes. eapply link_spawn_env; [|exact Inv]; apply same_link_refl.
  - simpl in H. destruct (Nat.ltb r (length (s_rrs s))); [|discriminate].
    destruct (r_clock (getr s r)); [discriminate|]. inversion H; subst; clear H. exact Inv.
  - simpl in H. destruct (Nat.eqb (n_timer (getN s n)) 1); [|discriminate]. inversion H; subst; clear H.
    rewrite frames_spawn. simpl s_nodes. eapply link_spawn_env; [|exact Inv]; unfold getN; same_link_tac.
  - simpl in H. destruct (Nat.ltb slot (length (s_slots s))); [|discriminate]. inversion H; subst; clear H.
    rewrite frames_spawn. simpl s_nodes. eapply link_spawn_env; [|exact Inv]; apply same_link_refl.
  - simpl in H. destruct (Nat.ltb r (length (s_rrs s))); [|discriminate]. inversion H; subst; clear H. exact Inv.
Qed.

Lemma init_link : forall k progs, link_inv (init k progs).
Proof.
  intros k progs. split; intros n m Hin; simpl in Hin; rewrite init_nodes_out in Hin; contradiction.
Qed.

Lemma reachable_link : forall k progs s, reachable (init k progs) s -> link_inv s.
Proof.
  intros k progs s R. induction R as [|s l s' R IH H]; [apply init_link | eapply step_link; eauto].
Qed.

(** at quiescence [out n] is exactly the set of unreleased computations that registered n *)
Lemma quiescent_out_registered : forall k progs s n m,
  reachable (init k progs) s -> quiescent s ->
  In m (n_out (getN s n)) -> In n (n_ins (getN s m)) /\ n_rel (getN s m) = false.
Proof.
  intros k progs s n m R Q Hin. destruct (reachable_link _ _ _ R) as [A B]. split; [apply A; exact Hin|].
  destruct (n_rel (getN s m)) eqn:Rl; [|reflexivity].
  destruct (B n m Hin Rl) as [froms [F _]]. unfold all_frames in F. unfold quiescent in Q. rewrite Q in F. contradiction.
Qed.

(** "... has its cleanup callback run exactly once after the last computation depending on it is superseded or
    stopped": at quiescence, a resource that received an addOut and every registrant of which (every node m with
    n in m.in: the computations whose AddDependency / adoption linked them below n) has been released
    (superseded, stopped or failed) is released itself and its callback ran exactly once. *)
Lemma cleanup_after_last_registrant_lemma : forall k progs s n,
  reachable (init k progs) s -> quiescent s ->
  n_had (getN s n) = true -> n_hrel (getN s n) <> None ->
  (forall m, In n (n_ins (getN s m)) -> n_rel (getN s m) = true) ->
  n_out (getN s n) = [] /\ n_rel (getN s n) = true /\ n_cln (getN s n) = 1.
Proof.
  intros k progs s n R Q Hh Hr All.
  assert (O : n_out (getN s n) = []).
  { destruct (n_out (getN s n)) as [|m t] eqn:E; [reflexivity|]. exfalso.
    assert (Hin : In m (n_out (getN s n))) by (rewrite E; left; reflexivity).
    destruct (quiescent_out_registered _ _ _ _ _ R Q Hin) as [I Rl]. rewrite (All m I) in Rl. discriminate. }
  split; [exact O|]. exact (cleanup_exactly_once_lemma _ _ _ _ R Q Hh O Hr).
Qed.

(** conversely, while an unreleased registrant exists the resource keeps it in [out] (and so is not released
    by anybody: [release_decided_only_when_no_dependant]) — at quiescence *)
Lemma quiescent_registrant_in_out_or_released : forall k progs s n m,
  reachable (init k progs) s -> quiescent s -> In m (n_out (getN s n)) -> n_rel (getN s m) = false.
Proof. intros k progs s n m R Q Hin. exact (proj2 (quiescent_out_registered _ _ _ _ _ R Q Hin)). Qed.
