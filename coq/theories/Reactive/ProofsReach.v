(** * Reactive/ProofsReach.v — dependency paths: [reach g n c] = c depends on n through a chain of [out] edges. *)
From Coq Require Import List Arith Bool Lia.
From Thunder Require Import Reactive.Graph Reactive.Rerunner Reactive.ProofsBase Reactive.ProofsEdge.
Import ListNotations.

Inductive reach (g : graph) : nat -> nat -> Prop :=
| reach_refl : forall a, reach g a a
| reach_edge : forall a m c, In m (n_out (getn g a)) -> reach g m c -> reach g a c.

Lemma reach_trans : forall g a b c, reach g a b -> reach g b c -> reach g a c.
Proof. intros g a b c H. induction H; intros K; [exact K | eapply reach_edge; eauto]. Qed.

Lemma reach_mono : forall g g' a c,
  (forall n x, In x (n_out (getn g n)) -> In x (n_out (getn g' n))) -> reach g a c -> reach g' a c.
Proof. intros g g' a c M H. induction H; [apply reach_refl | eapply reach_edge; eauto]. Qed.

(** at quiescence invalidation is closed under dependency paths *)
Lemma quiescent_reach_closed : forall k progs s,
  reachable (init k progs) s -> quiescent s ->
  forall n c, reach (s_nodes s) n c -> n_inv (getN s n) = true -> n_inv (getN s c) = true.
Proof.
  intros k progs s R Q n c H. induction H as [a | a m c Hin Hr IH]; intros Hi; [exact Hi|].
  apply IH. eapply quiescent_closed; eauto.
Qed.
