(** * Reactive/ProofsOut.v — the value a rerunner published is a prefix of the value of its current computation
    (values only grow, and a rerunner's output is set together with its computation). *)
From Coq Require Import List Arith Bool Lia Permutation.
From Thunder Require Import Reactive.Graph Reactive.Rerunner Reactive.ProofsBase.
Import ListNotations.

Definition val_ext (g g' : graph) : Prop :=
  forall c, exists ext, n_val (getn g' c) = n_val (getn g c) ++ ext.

Lemma val_ext_refl : forall g, val_ext g g.
Proof. intros g c. exists []. rewrite app_nil_r. reflexivity. Qed.

Lemma val_ext_trans : forall a b c, val_ext a b -> val_ext b c -> val_ext a c.
Proof.
  intros a b c H1 H2 n. destruct (H1 n) as [e1 E1], (H2 n) as [e2 E2]. exists (e1 ++ e2).
  rewrite E2, E1, app_assoc. reflexivity.
Qed.

Lemma val_ext_setn : forall g i x ext, n_val x = n_val (getn g i) ++ ext -> val_ext g (setn g i x).
Proof.
  intros g i x ext H c. rewrite getn_setn. destruct (Nat.eqb i c && Nat.ltb i (length g)) eqn:E.
  - apply andb_true_iff in E. destruct E as [E _]. apply Nat.eqb_eq in E. subst. exists ext. exact H.
  - exists []. rewrite app_nil_r. reflexivity.
Qed.

Lemma val_ext_alloc : forall g x, val_ext g (g ++ [x]).
Proof.
  intros g x c. rewrite getn_app_new. destruct (Nat.eqb c (length g)) eqn:E.
  - apply Nat.eqb_eq in E. subst. rewrite getn_out_of_range by lia. exists (n_val x). reflexivity.
  - exists []. rewrite app_nil_r. reflexivity.
Qed.

Ltac val_ext_tac :=
  first
    [ apply val_ext_refl
    | apply val_ext_alloc
    | eapply val_ext_setn; simpl; first [rewrite app_nil_r; reflexivity | reflexivity]
    | eapply val_ext_trans;
      [ | first [apply val_ext_alloc | eapply val_ext_setn; simpl; first [rewrite app_nil_r; reflexivity | reflexivity]] ]; val_ext_tac ].

Lemma g_add_out_val : forall g n to g' r, g_add_out g n to = (g', r) -> val_ext g g'.
Proof.
  intros g n to g' r H. unfold g_add_out in H. destruct (negb (n_rel (getn g to))); inversion H; subst; clear H; val_ext_tac.
Qed.

Lemma do_add_out_val : forall s n to s1 sp, do_add_out s n to = Some (s1, sp) -> val_ext (s_nodes s) (s_nodes s1) /\ s_rrs s1 = s_rrs s.
Proof.
  intros s n to s1 sp H. unfold do_add_out in H.
  destruct (Nat.ltb n (length (s_nodes s)) && Nat.ltb to (length (s_nodes s)) && negb (Nat.eqb n to)); [|discriminate].
  destruct (g_add_out (s_nodes s) n to) as [g [[a b] c]] eqn:A. inversion H; subst; clear H. simpl.
  split; [eapply g_add_out_val; eauto | reflexivity].
Qed.

Lemma inv_step_val : forall s n k s1 st sp, inv_step s n k = Some (s1, st, sp) -> val_ext (s_nodes s) (s_nodes s1) /\ s_rrs s1 = s_rrs s.
Proof.
  intros s n k s1 st sp H. unfold inv_step in H.
  destruct (Nat.ltb n (length (s_nodes s))); [|discriminate].
  destruct (n_inv (getN s n)); [inversion H; subst; split; [apply val_ext_refl | reflexivity]|].
  destruct (n_hinv (getN s n)) as [r|]; [destruct (r_spawn (getr s r))|]; inversion H; subst; clear H; simpl;
    (split; [unfold g_inv_mark; val_ext_tac | reflexivity]).
Qed.

(** rerunners: the published output is a prefix of the current computation's value *)
Definition out_rr (g : graph) (x : rr) : Prop :=
  forall c, r_comp x = Some c -> exists v ext, r_out x = Some v /\ n_val (getn g c) = v ++ ext.

Definition out_on (g : graph) (rrs : list rr) : Prop := forall r, out_rr g (nth r rrs drr).

Lemma out_rr_ext : forall g g' x, val_ext g g' -> out_rr g x -> out_rr g' x.
Proof.
  intros g g' x V H c Hc. destruct (H c Hc) as [v [ext [E1 E2]]]. destruct (V c) as [e E].
  exists v, (ext ++ e). split; [exact E1|]. rewrite E, E2, app_assoc. reflexivity.
Qed.

Lemma out_on_setl : forall g g' rrs r0 y,
  val_ext g g' -> out_rr g' y -> out_on g rrs -> out_on g' (setl rrs r0 y).
Proof.
  intros g g' rrs r0 y V Hy H r. rewrite nth_setl.
  destruct (Nat.eqb r0 r && Nat.ltb r0 (length rrs)); [exact Hy | eapply out_rr_ext; [exact V | apply H]].
Qed.

Lemma out_on_ext : forall g g' rrs, val_ext g g' -> out_on g rrs -> out_on g' rrs.
Proof. intros g g' rrs V H r. eapply out_rr_ext; [exact V | apply H]. Qed.

(* an update of a rerunner record that keeps computation and output *)
Lemma out_rr_same : forall g x y, r_comp y = r_comp x -> r_out y = r_out x -> out_rr g x -> out_rr g y.
Proof. intros g x y E1 E2 H c Hc. rewrite E1 in Hc. rewrite E2. apply H. exact Hc. Qed.

Lemma do_fail_out : forall s r stk b s1 st sp, do_fail s r stk b = Some (s1, st, sp) ->
  s_nodes s1 = s_nodes s /\ exists y, s_rrs s1 = setl (s_rrs s) r y /\ r_comp y = r_comp (getr s r) /\ r_out y = r_out (getr s r).
Proof.
  intros s r stk b s1 st sp H.
  destruct (do_fail_spec _ _ _ _ _ _ _ H) as [cs [ks [below [term [y [U [N [Sl [R [Y1 [Y2 [Y3 [Y4 [Y5 [Y6 [Y7 [Y8 T]]]]]]]]]]]]]]]]].
  split; [exact N|]. exists y. repeat split; assumption.
Qed.

Lemma step_top_out : forall s f rest arg s1 st sp,
  step_top s f rest arg = Some (s1, st, sp) ->
  out_on (s_nodes s) (s_rrs s) -> out_on (s_nodes s1) (s_rrs s1).
Proof.
  intros s f rest arg s1 st sp H Inv.
  unfold step_top, alloc in H.
  destruct f; cbv beta iota zeta in H; dmatch H;
    repeat match goal with
    | A : do_add_out _ _ _ = Some _ |- _ => apply do_add_out_val in A; destruct A as [? A]
    | A : inv_step _ _ _ = Some _ |- _ => apply inv_step_val in A; destruct A as [? A]
    | A : do_fail _ _ _ _ = Some _ |- _ => apply do_fail_out in A; destruct A as [? [? [A [? ?]]]]
    end;
    unfold getr, getN, with_rr, with_nodes, upd_node, with_slot, g_rel_mark, g_rel_dep, g_handle_rel, g_handle_inv in *; simpl in *;
    repeat match goal with
    | A : s_rrs _ = _ |- _ => rewrite A; clear A
    | A : s_nodes _ = _ |- _ => rewrite A; clear A
    | A : (_, _) = (_, _) |- _ => inversion A; subst; clear A
    end;
    first
    [ (eapply out_on_ext; [|exact Inv]; solve [val_ext_tac | assumption])
    | (eapply out_on_setl; [ | | exact Inv]; [ solve [val_ext_tac | assumption] | ];
       first [ (eapply out_rr_same; [eassumption | eassumption | apply Inv])
             | (let c' := fresh "c'" in let Hc' := fresh "Hc'" in
                intros c' Hc'; simpl in Hc';
                first [ discriminate Hc'
                      | (simpl; refine (out_rr_ext _ _ _ _ (Inv _) c' Hc'); solve [val_ext_tac | assumption])
                      | idtac ]) ])
    | idtac ].
  - (* FTimerReg *)
    destruct (n_rel (getn (s_nodes s) res)); simpl; (eapply out_on_ext; [|exact Inv]); val_ext_tac.
  - (* FCacheLink *)
    eapply out_on_ext; [eapply val_ext_trans; [eassumption | val_ext_tac] | exact Inv].
  - (* publish *)
    inversion Hc'; subst. simpl. eexists. exists []. split; [reflexivity | rewrite app_nil_r; reflexivity].
  - (* FArm *)
    match goal with A : (if ?b then _ else _) = (_, _) |- _ => destruct b; inversion A; subst end;
      (eapply out_on_ext; [|exact Inv]); val_ext_tac.
  - (* FOutAdd *)
    match goal with A : g_add_out_released _ _ = _ |- _ => unfold g_add_out_released in A; inversion A; subst end.
    eapply out_on_ext; [|exact Inv]. val_ext_tac.
Qed.

Definition out_inv (s : state) : Prop := out_on (s_nodes s) (s_rrs s).

Lemma step_out : forall s l s', out_inv s -> step s l = Some s' -> out_inv s'.
Proof.
  intros s l s' Inv H. unfold out_inv in *. destruct l.
  - destruct (step_task_frames _ _ _ _ H) as [f [rest [s1 [st [sp [others [dropped [_ [T [_ [_ [_ [N [R _]]]]]]]]]]]]]].
    rewrite N, R. eapply step_top_out; eauto.
  - simpl in H. destruct (Nat.ltb slot (length (s_slots s))); [|discriminate]. inversion H; subst; clear H. exact Inv.
  - simpl in H. destruct (Nat.ltb slot (length (s_slots s))); [|discriminate]. inversion H; subst; clear H. simpl.
    eapply out_on_ext; [apply val_ext_alloc | exact Inv].
  - simpl in H. destruct (Nat.ltb r (length (s_rrs s))); [|discriminate]. inversion H; subst; clear H. exact Inv.
  - simpl in H. destruct (Nat.ltb r (length (s_rrs s))); [|discriminate].
    destruct (r_clock (getr s r)); [discriminate|]. inversion H; subst; clear H. simpl.
    eapply out_on_setl; [apply val_ext_refl | | exact Inv].
    eapply out_rr_same; [ | | apply Inv]; reflexivity.
  - simpl in H. destruct (Nat.eqb (n_timer (getN s n)) 1); [|discriminate]. inversion H; subst; clear H. simpl.
    eapply out_on_ext; [|exact Inv]. unfold getN. val_ext_tac.
  - simpl in H. destruct (Nat.ltb slot (length (s_slots s))); [|discriminate]. inversion H; subst; clear H. exact Inv.
  - simpl in H. destruct (Nat.ltb r (length (s_rrs s))); [|discriminate]. inversion H; subst; clear H. simpl.
    eapply out_on_setl; [apply val_ext_refl | | exact Inv].
    eapply out_rr_same; [ | | apply Inv]; reflexivity.
Qed.

Lemma init_out : forall k progs, out_inv (init k progs).
Proof.
  intros k progs r c Hc. unfold init in Hc. simpl in Hc.
  destruct (Nat.lt_ge_cases r (length (map init_rr progs))) as [L|L].
  - assert (E : nth r (map init_rr progs) drr = init_rr (nth r progs ([], true))).
    { change drr with (init_rr ([], true)). apply map_nth. }
    rewrite E in Hc. discriminate.
  - rewrite nth_overflow in Hc by exact L. discriminate.
Qed.

Lemma reachable_out : forall k progs s, reachable (init k progs) s -> out_inv s.
Proof.
  intros k progs s R. induction R as [|s l s' R IH H]; [apply init_out | eapply step_out; eauto].
Qed.
