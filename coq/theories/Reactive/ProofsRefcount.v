(** * Reactive/ProofsRefcount.v — the Refcount invariant of DESIGN.md A.3: [released] is set at most once and
    the afterRelease callback runs at most once; a node that received an addOut and whose [out] is empty is
    released or somebody is on the way to release it. *)
From Coq Require Import List Arith Bool Lia Permutation.
From Thunder Require Import Reactive.Graph Reactive.Rerunner Reactive.ProofsBase Reactive.ProofsMutex.
Import ListNotations.

(** the Cleanup callback of node n is running *)
Definition cleanup_of (n : nat) (f : frame) : bool :=
  match f with FCleanup n' _ => Nat.eqb n n' | _ => false end.

(** a task is inside release() on node n, before the critical section that sets [released] *)
Definition relpend (n : nat) (f : frame) : bool :=
  match f with FRelEnter n' | FRelMark n' => Nat.eqb n n' | _ => false end.

Definition is_some {A} (o : option A) : bool := match o with Some _ => true | None => false end.

Definition ref_on (g : graph) (fr : list frame) : Prop :=
  forall n,
    n_cln (getn g n) + count (cleanup_of n) fr = b2n (n_rel (getn g n) && is_some (n_hrel (getn g n))) /\
    (n_had (getn g n) = true -> n_out (getn g n) = [] ->
       n_rel (getn g n) = true \/ 0 < count (relpend n) fr).

Definition ref_inv (s : state) : Prop := ref_on (s_nodes s) (all_frames s).

Lemma ref_on_perm : forall g a b, Permutation a b -> ref_on g a -> ref_on g b.
Proof.
  intros g a b P H n. destruct (H n) as [H1 H2].
  rewrite <- (count_perm (cleanup_of n) _ _ P), <- (count_perm (relpend n) _ _ P). split; assumption.
Qed.

(** graphs that agree on the fields the invariant reads *)
Definition same_ref (g g' : graph) : Prop :=
  forall n, n_cln (getn g' n) = n_cln (getn g n) /\ n_rel (getn g' n) = n_rel (getn g n) /\
            n_hrel (getn g' n) = n_hrel (getn g n) /\ n_had (getn g' n) = n_had (getn g n) /\
            n_out (getn g' n) = n_out (getn g n).

Lemma same_ref_refl : forall g, same_ref g g.
Proof. intros g n. repeat split. Qed.

Lemma same_ref_trans : forall a b c, same_ref a b -> same_ref b c -> same_ref a c.
Proof.
  intros a b c H1 H2 n. destruct (H1 n) as [A1 [A2 [A3 [A4 A5]]]], (H2 n) as [B1 [B2 [B3 [B4 B5]]]].
  repeat split; congruence.
Qed.

Lemma same_ref_setn : forall g i x,
  n_cln x = n_cln (getn g i) -> n_rel x = n_rel (getn g i) -> n_hrel x = n_hrel (getn g i) ->
  n_had x = n_had (getn g i) -> n_out x = n_out (getn g i) -> same_ref g (setn g i x).
Proof.
  intros g i x H1 H2 H3 H4 H5 n. rewrite getn_setn.
  destruct (Nat.eqb i n && Nat.ltb i (length g)) eqn:E; [|repeat split].
  apply andb_true_iff in E. destruct E as [E _]. apply Nat.eqb_eq in E. subst. repeat split; assumption.
Qed.

(* a fresh node: never cleaned, not released, no addOut yet *)
Definition fresh_node (x : node) : Prop := n_cln x = 0 /\ n_rel x = false /\ n_had x = false.

Lemma ref_on_alloc : forall g fr x, fresh_node x -> ref_on g fr -> ref_on (g ++ [x]) fr.
Proof.
  intros g fr x [F1 [F2 F3]] H n. destruct (H n) as [H1 H2]. rewrite getn_app_new.
  destruct (Nat.eqb n (length g)) eqn:E; [|split; assumption].
  apply Nat.eqb_eq in E. subst n. rewrite getn_out_of_range in H1 by lia. simpl in H1.
  rewrite F1, F2, F3. simpl. split; [exact H1 | discriminate].
Qed.

Lemma ref_on_same : forall g g' fr fr',
  same_ref g g' ->
  (forall n, count (cleanup_of n) fr' = count (cleanup_of n) fr) ->
  (forall n, count (relpend n) fr <= count (relpend n) fr') ->
  ref_on g fr -> ref_on g' fr'.
Proof.
  intros g g' fr fr' S Hc Hr H n. destruct (H n) as [H1 H2]. destruct (S n) as [S1 [S2 [S3 [S4 S5]]]].
  rewrite S1, S2, S3, S4, S5, Hc. split; [exact H1|].
  intros Hh Ho. destruct (H2 Hh Ho) as [K|K]; [left; exact K | right]. specialize (Hr n). lia.
Qed.

Ltac same_ref_tac :=
  first
    [ apply same_ref_refl
    | apply same_ref_setn; reflexivity
    | eapply same_ref_trans; [ | apply same_ref_setn; reflexivity ]; same_ref_tac ].

Lemma do_fail_ref : forall s r stk retry s1 st sp others,
  do_fail s r stk retry = Some (s1, st, sp) ->
  s_nodes s1 = s_nodes s /\
  (forall n, count (cleanup_of n) (st ++ others ++ concat sp) = count (cleanup_of n) (stk ++ others)) /\
  (forall n, count (relpend n) (stk ++ others) <= count (relpend n) (st ++ others ++ concat sp)).
Proof.
  intros s r stk retry s1 st sp others H.
  destruct (do_fail_spec _ _ _ _ _ _ _ H) as [cs [ks [below [term [y [U [N [Sl [R [Y1 [Y2 [Y3 [Y4 [Y5 [Y6 [Y7 [Y8 T]]]]]]]]]]]]]]]]].
  destruct (unwind_split _ _ _ _ _ _ U) as [d [l [E [Fd [L _]]]]].
  assert (D1 : forall n, count (cleanup_of n) d = 0) by (intros n; apply (count_zero_forall _ unw_kind); [intros f Hf; destruct f; simpl in *; try discriminate; reflexivity | exact Fd]).
  assert (D2 : forall n, count (relpend n) d = 0) by (intros n; apply (count_zero_forall _ unw_kind); [intros f Hf; destruct f; simpl in *; try discriminate; reflexivity | exact Fd]).
  assert (RC : forall n cs0, count (cleanup_of n) (concat (map (fun c0 => [FRelEnter c0]) cs0)) = 0).
  { intros n cs0. induction cs0 as [|h t IH]; simpl; [reflexivity | exact IH]. }
  split; [exact N|]. subst stk.
  destruct term as [jid|]; simpl in L.
  - subst l. destruct T as [-> [-> _]]. split; intros n; simpl; rewrite ?count_app; simpl; rewrite ?count_app, ?RC, ?D1, ?D2; simpl; lia.
  - destruct L as [c ->]. destruct T as [-> [_ [[_ [-> _]]|[_ [-> _]]]]]; split; intros n; simpl; rewrite ?count_app; simpl;
      rewrite ?count_app, ?concat_app, ?count_app, ?RC, ?D1, ?D2; simpl; lia.
Qed.

Lemma g_add_out_ref : forall g n to g' linked shinv shrel,
  g_add_out g n to = (g', (linked, shinv, shrel)) -> n < length g -> to < length g -> n <> to ->
  (forall m, n_cln (getn g' m) = n_cln (getn g m) /\ n_rel (getn g' m) = n_rel (getn g m) /\
             n_hrel (getn g' m) = n_hrel (getn g m)) /\
  (forall m, m <> n -> n_had (getn g' m) = n_had (getn g m) /\ n_out (getn g' m) = n_out (getn g m)) /\
  (n_out (getn g' n) = [] -> shrel = true).
Proof.
  intros g n to g' linked shinv shrel H Ln Lt Nq. unfold g_add_out in H.
  assert (Nq' : Nat.eqb to n = false) by (apply Nat.eqb_neq; congruence).
  destruct (negb (n_rel (getn g to))) eqn:Lk; inversion H; subst; clear H.
  - split; [|split].
    + intros m. rewrite !getn_setn, !length_setn.
      destruct (Nat.eqb to m && Nat.ltb to (length g)) eqn:E1.
      * apply andb_true_iff in E1. destruct E1 as [E1 _]. apply Nat.eqb_eq in E1. subst m.
        simpl. apply Nat.eqb_neq in Nq. rewrite Nq. simpl. repeat split.
      * destruct (Nat.eqb n m && Nat.ltb n (length g)) eqn:E2; [|repeat split].
        apply andb_true_iff in E2. destruct E2 as [E2 _]. apply Nat.eqb_eq in E2. subst m. repeat split.
    + intros m Hm. rewrite !getn_setn, !length_setn.
      assert (E2 : Nat.eqb n m = false) by (apply Nat.eqb_neq; congruence). rewrite E2. simpl.
      destruct (Nat.eqb to m && Nat.ltb to (length g)) eqn:E1; [|repeat split].
      apply andb_true_iff in E1. destruct E1 as [E1 _]. apply Nat.eqb_eq in E1. subst m. rewrite E2. simpl. repeat split.
    + rewrite !getn_setn, !length_setn. rewrite Nq'. simpl. rewrite Nat.eqb_refl.
      apply Nat.ltb_lt in Ln. rewrite Ln. simpl. intros E. rewrite E. reflexivity.
  - split; [|split].
    + intros m. rewrite !getn_setn.
      destruct (Nat.eqb n m && Nat.ltb n (length g)) eqn:E2; [|repeat split].
      apply andb_true_iff in E2. destruct E2 as [E2 _]. apply Nat.eqb_eq in E2. subst m. repeat split.
    + intros m Hm. rewrite !getn_setn.
      assert (E2 : Nat.eqb n m = false) by (apply Nat.eqb_neq; congruence). rewrite E2. repeat split.
    + rewrite getn_setn_eq by exact Ln. simpl. intros E. rewrite E. reflexivity.
Qed.

Lemma do_add_out_ref : forall s n to s1 sp fr,
  do_add_out s n to = Some (s1, sp) -> ref_on (s_nodes s) fr -> ref_on (s_nodes s1) (fr ++ concat sp).
Proof.
  intros s n to s1 sp fr H Inv. unfold do_add_out in H.
  destruct (Nat.ltb n (length (s_nodes s)) && Nat.ltb to (length (s_nodes s)) && negb (Nat.eqb n to)) eqn:G; [|discriminate].
  apply andb_true_iff in G. destruct G as [G Nq]. apply negb_true_iff in Nq. apply Nat.eqb_neq in Nq.
  apply andb_true_iff in G. destruct G as [G1 G2]. apply Nat.ltb_lt in G1. apply Nat.ltb_lt in G2.
  destruct (g_add_out (s_nodes s) n to) as [g [[linked shinv] shrel]] eqn:A.
  inversion H; subst; clear H. simpl.
  destruct (g_add_out_ref _ _ _ _ _ _ _ A G1 G2 Nq) as [F1 [F2 F3]].
  intros m. destruct (Inv m) as [I1 I2]. destruct (F1 m) as [A1 [A2 A3]]. rewrite A1, A2, A3.
  rewrite ?count_app.
  assert (C1 : count (cleanup_of m) (concat ((if shinv then [[FInvList [to]]] else []) ++ (if shrel then [[FRelEnter n]] else []))) = 0)
    by (destruct shinv, shrel; reflexivity).
  rewrite C1. split; [lia|].
  destruct (Nat.eq_dec m n) as [->|Nm].
  - intros _ Ho. right. rewrite (F3 Ho). destruct shinv; simpl; rewrite Nat.eqb_refl; lia.
  - destruct (F2 m Nm) as [B1 B2]. rewrite B1, B2. intros Hh Ho. destruct (I2 Hh Ho) as [K|K]; [left; exact K | right; lia].
Qed.

Lemma ref_relmark_timer : forall g n fr ins,
  n_rel (getn g n) = false -> n_hrel (getn g n) = Some HTimer ->
  ref_on g (FRelMark n :: fr) ->
  ref_on (setn (setn g n (set_rel (getn g n))) n (inc_cln (getn (setn g n (set_rel (getn g n))) n)))
         (FRelDeps n ins :: fr).
Proof.
  intros g n fr ins Rl Hr Inv.
  assert (Ln : n < length g).
  { destruct (Nat.lt_ge_cases n (length g)) as [L|L]; [exact L|]. rewrite getn_out_of_range in Hr by exact L. discriminate. }
  rewrite (getn_setn_eq _ _ _ Ln).
  intros m. destruct (Inv m) as [I1 I2]. simpl in I1, I2. simpl.
  destruct (Nat.eq_dec m n) as [->|Nm].
  - rewrite getn_setn_eq by (rewrite length_setn; exact Ln). simpl. rewrite ?Nat.eqb_refl in *.
    rewrite Rl, Hr in *. simpl in *. split; [lia|]. intros _ _. left. reflexivity.
  - rewrite !getn_setn_neq by congruence. assert (E : Nat.eqb m n = false) by (apply Nat.eqb_neq; exact Nm).
    rewrite E in I2. simpl in I2. split; [exact I1 | exact I2].
Qed.

Ltac cnt2 := simpl; rewrite ?count_app; simpl; rewrite ?Nat.eqb_refl; try lia.

(* a leaf that leaves the graph fields alone and keeps all cleanup / release frames *)
Ltac ref_leaf Inv :=
  eapply ref_on_same; [| | |exact Inv]; [unfold getN; same_ref_tac | intros n'; cnt2 | intros n'; cnt2].

Lemma inv_step_ref : forall s n k s1 st sp others F0,
  inv_step s n k = Some (s1, st, sp) ->
  (forall m, count (cleanup_of m) F0 = count (cleanup_of m) (k ++ others)) ->
  (forall m, count (relpend m) F0 <= count (relpend m) (k ++ others)) ->
  ref_on (s_nodes s) F0 -> ref_on (s_nodes s1) (st ++ others ++ concat sp).
Proof.
  intros s n k s1 st sp others F0 H Hc Hr Inv. unfold inv_step in H.
  destruct (Nat.ltb n (length (s_nodes s))); [|discriminate].
  destruct (n_inv (getN s n)).
  - inversion H; subst; clear H. eapply ref_on_same; [apply same_ref_refl | | | exact Inv]; intros m; simpl; rewrite ?app_nil_r; auto.
  - destruct (n_hinv (getN s n)) as [r|]; [destruct (r_spawn (getr s r))|]; inversion H; subst; clear H; simpl;
      unfold g_inv_mark; (eapply ref_on_same; [ | | | exact Inv]; [unfold getN; same_ref_tac | |]); intros m;
      specialize (Hc m); specialize (Hr m); simpl; rewrite ?count_app in *; simpl; lia.
Qed.

Lemma step_top_ref : forall s f rest arg s1 st sp others,
  step_top s f rest arg = Some (s1, st, sp) ->
  ref_on (s_nodes s) (f :: rest ++ others) ->
  ref_on (s_nodes s1) (st ++ others ++ concat sp).
Proof.
  intros s f rest arg s1 st sp others H Inv.
  unfold step_top in H.
  destruct f; cbv beta iota zeta in H.
  - (* FInvList *)
    destruct (memb arg l); [|discriminate].
    eapply inv_step_ref; [exact H | | | exact Inv]; intros m; cnt2.
  - inversion H; subst; clear H. ref_leaf Inv.
  - (* FRelEnter *)
    eapply inv_step_ref; [exact H | | | exact Inv]; intros m; cnt2.
  - (* FRelMark *)
    destruct (n_rel (getN s n)) eqn:Rl.
    + inversion H; subst; clear H.
      intros m. destruct (Inv m) as [I1 I2]. simpl in I1, I2. rewrite ?count_app in *. simpl. rewrite ?count_app. split; [lia|].
      intros Hh Ho. destruct (Nat.eqb m n) eqn:E.
      * apply Nat.eqb_eq in E. subst m. left. exact Rl.
      * destruct (I2 Hh Ho) as [K|K]; [left; exact K | right; lia].
    + assert (K : forall (x : node) fr',
                 n_rel x = true -> n_had x = n_had (getN s n) -> n_out x = n_out (getN s n) ->
                 (forall m, count (relpend m) (rest ++ others) <= count (relpend m) fr') ->
                 (forall m, n_cln (if Nat.eqb n m && Nat.ltb n (length (s_nodes s)) then x else getN s m) + count (cleanup_of m) fr' =
                            b2n (n_rel (if Nat.eqb n m && Nat.ltb n (length (s_nodes s)) then x else getN s m) &&
                                 is_some (n_hrel (if Nat.eqb n m && Nat.ltb n (length (s_nodes s)) then x else getN s m)))) ->
                 ref_on (setn (s_nodes s) n x) fr').
      { intros x fr' X1 X2 X3 Hr Hc m. rewrite getn_setn. split; [apply Hc|].
        destruct (Inv m) as [_ I2]. simpl in I2. specialize (Hr m).
        destruct (Nat.eqb n m && Nat.ltb n (length (s_nodes s))) eqn:E.
        - intros _ _. left. exact X1.
        - intros Hh Ho. destruct (I2 Hh Ho) as [Q|Q]; [left; exact Q | right].
          destruct (Nat.eqb m n) eqn:E2; [|lia].
          apply Nat.eqb_eq in E2. subst m. rewrite Nat.eqb_refl in E. simpl in E. apply Nat.ltb_ge in E.
          unfold getN in Hh. rewrite getn_out_of_range in Hh by exact E. discriminate. }
      unfold g_rel_mark in H.
      destruct (n_hrel (getN s n)) as [[sl|]|] eqn:Hr; inversion H; subst; clear H; simpl.
      * apply K; try reflexivity.
        -- intros m. cnt2.
        -- intros m. destruct (Inv m) as [I1 _]. simpl in I1. rewrite ?count_app in *. simpl. rewrite ?count_app.
           destruct (Nat.eqb n m && Nat.ltb n (length (s_nodes s))) eqn:E.
           ++ apply andb_true_iff in E. destruct E as [E _]. apply Nat.eqb_eq in E. subst m. simpl.
              unfold getN in *. rewrite Rl, Hr in *. rewrite Nat.eqb_refl. simpl in *. lia.
           ++ assert (Nq : Nat.eqb m n = false).
              { destruct (Nat.eqb m n) eqn:Q; [|reflexivity]. apply Nat.eqb_eq in Q. subst m.
                rewrite Nat.eqb_refl in E. simpl in E. apply Nat.ltb_ge in E.
                exfalso. unfold getN in Hr. rewrite getn_out_of_range in Hr by exact E. discriminate. }
              rewrite Nq. simpl. unfold getN in *. lia.
      * (* HTimer: timer.Stop() runs inside the step *)
        unfold getN in *. simpl.
        eapply ref_on_same; [apply same_ref_refl | | | apply (ref_relmark_timer _ _ _ (n_ins (getn (s_nodes s) n)) Rl Hr Inv)];
          intros n'; cnt2.
      * apply K; try reflexivity.
        -- intros m. cnt2.
        -- intros m. destruct (Inv m) as [I1 _]. simpl in I1. rewrite ?count_app in *. simpl. rewrite ?count_app.
           destruct (Nat.eqb n m && Nat.ltb n (length (s_nodes s))) eqn:E.
           ++ apply andb_true_iff in E. destruct E as [E _]. apply Nat.eqb_eq in E. subst m. simpl.
              unfold getN in *. rewrite Rl, Hr in *. simpl in *. lia.
           ++ unfold getN in *. simpl. lia.
  - (* FCleanup: the callback runs *)
    assert (K : ref_on (setn (s_nodes s) n (inc_cln (getN s n))) (rest ++ others)).
    { intros m. destruct (Inv m) as [I1 I2]. simpl in I1, I2. rewrite getn_setn.
      destruct (Nat.eqb n m && Nat.ltb n (length (s_nodes s))) eqn:E.
      - apply andb_true_iff in E. destruct E as [E _]. apply Nat.eqb_eq in E. subst m. rewrite Nat.eqb_refl in I1.
        unfold getN. simpl. split; [lia | exact I2].
      - assert (C : count (cleanup_of m) (rest ++ others) <= (if Nat.eqb m n then 1 else 0) + count (cleanup_of m) (rest ++ others)) by lia.
        destruct (Nat.eqb m n) eqn:E2; [|split; [lia | exact I2]].
        apply Nat.eqb_eq in E2. subst m. rewrite Nat.eqb_refl in E. simpl in E. apply Nat.ltb_ge in E.
        rewrite getn_out_of_range in I1 by exact E. simpl in I1. lia. }
    destruct (Nat.eqb (slot_res (upd_node s n (inc_cln (getN s n))) slot) n);
      unfold alloc in H; inversion H; subst; clear H; simpl.
    + eapply ref_on_same; [apply same_ref_refl | | | apply ref_on_alloc; [repeat split | exact K]]; intros n'; cnt2.
    + eapply ref_on_same; [apply same_ref_refl | | | exact K]; intros n'; cnt2.
  - (* FRelDeps *)
    destruct froms as [|from l]; [discriminate|].
    unfold g_rel_dep in H. cbv beta iota zeta in H.
    assert (K : forall fr', (forall m, count (cleanup_of m) fr' = count (cleanup_of m) (rest ++ others)) ->
                 (forall m, count (relpend m) (rest ++ others) <= count (relpend m) fr') ->
                 (is_nil (remove_all n (n_out (getn (s_nodes s) from))) = true -> 0 < count (relpend from) fr') ->
                 ref_on (setn (s_nodes s) from (set_out (getn (s_nodes s) from) (remove_all n (n_out (getn (s_nodes s) from))))) fr').
    { intros fr' Hc Hr Hn m. destruct (Inv m) as [I1 I2]. simpl in I1, I2. rewrite getn_setn, Hc.
      destruct (Nat.eqb from m && Nat.ltb from (length (s_nodes s))) eqn:E.
      - apply andb_true_iff in E. destruct E as [E _]. apply Nat.eqb_eq in E. subst m. simpl. split; [exact I1|].
        intros _ Ho. right. apply Hn. rewrite Ho. reflexivity.
      - split; [exact I1|]. intros Hh Ho. destruct (I2 Hh Ho) as [Q|Q]; [left; exact Q | right]. specialize (Hr m). lia. }
    destruct (is_nil (remove_all n (n_out (getn (s_nodes s) from)))) eqn:Nl; inversion H; subst; clear H; simpl; apply K.
    + intros m. cnt2.
    + intros m. cnt2.
    + intros _. cnt2.
    + intros m. cnt2.
    + intros m. cnt2.
    + discriminate.
  - (* FRunWait *)
    destruct (Nat.eqb arg 0); [inversion H; subst; clear H; ref_leaf Inv|].
    destruct (r_cancel (getr s r)); [|discriminate]. inversion H; subst; clear H; ref_leaf Inv.
  - destruct (r_mu (getr s r)); [discriminate|].
    destruct (r_stop (getr s r)); inversion H; subst; clear H; simpl; ref_leaf Inv.
  - destruct (Nat.eqb arg 1); [destruct (r_cancel (getr s r)); [|discriminate] | destruct (r_clock (getr s r)); [discriminate|]];
      inversion H; subst; clear H; simpl; ref_leaf Inv.
  - destruct ks as [|k ks'].
    + inversion H; subst; clear H. simpl. ref_leaf Inv.
    + destruct (memb arg (k :: ks')); [|discriminate].
      destruct (n_inv (getN s arg)); inversion H; subst; clear H; simpl; ref_leaf Inv.
  - (* FBegin *)
    unfold alloc in H. inversion H; subst; clear H. simpl.
    eapply ref_on_same; [apply same_ref_refl | | | apply ref_on_alloc; [repeat split | exact Inv]]; intros n'; cnt2.
  - (* FScript *)
    destruct p as [|o q]; [discriminate|].
    assert (Fail : forall retry, do_fail s r (FScript r c q :: rest) retry = Some (s1, st, sp) ->
                   ref_on (s_nodes s1) (st ++ others ++ concat sp)).
    { intros retry HF. destruct (do_fail_ref _ _ _ _ _ _ _ others HF) as [N [C1 C2]]. rewrite N.
      eapply ref_on_same; [apply same_ref_refl | | | exact Inv].
      - intros n'. rewrite C1. reflexivity.
      - intros n'. specialize (C2 n'). simpl in *. lia. }
    destruct o.
    + inversion H; subst; clear H; simpl; ref_leaf Inv.
    + destruct (Nat.eqb arg 0).
      * inversion H; subst; clear H; simpl; ref_leaf Inv.
      * unfold alloc in H; inversion H; subst; clear H; simpl.
        eapply ref_on_same; [apply same_ref_refl | | | apply ref_on_alloc; [repeat split | exact Inv]]; intros n'; cnt2.
    + destruct (Nat.eqb arg 0).
      * destruct (memb key (r_keys (getr s r))); [discriminate|]. inversion H; subst; clear H; simpl; ref_leaf Inv.
      * destruct (Nat.eqb arg 2); [inversion H; subst; clear H; simpl; ref_leaf Inv|].
        destruct (r_cancel (getr s r)); [|discriminate]. eapply Fail; eauto.
    + destruct (Nat.eqb arg 0); [inversion H; subst; clear H; simpl; ref_leaf Inv | eapply Fail; eauto].
    + destruct (Nat.eqb arg 0); [inversion H; subst; clear H; simpl; ref_leaf Inv | eapply Fail; eauto].
    + (* OPar *)
      inversion H; subst; clear H. simpl.
      eapply ref_on_same; [apply same_ref_refl | | | exact Inv]; intros n'; cnt2; rewrite branch_tasks_count by reflexivity; lia.
  - (* FDepAdd *)
    destruct (do_add_out s res c) as [[s2 sp2]|] eqn:A; [|discriminate]. inversion H; subst; clear H.
    assert (K := do_add_out_ref _ _ _ _ _ _ A Inv).
    eapply ref_on_same; [apply same_ref_refl | | | exact K]; intros n'; cnt2.
  - (* FDepRead *) inversion H; subst; clear H. simpl. ref_leaf Inv.
  - (* FTimerReg *)
    destruct (n_hrel (getN s res)) eqn:Hr; [discriminate|]. inversion H; subst; clear H. simpl.
    unfold g_handle_rel.
    intros m. destruct (Inv m) as [I1 I2]. simpl in I1, I2. cnt2. rewrite ?count_app in I1, I2. rewrite ?Nat.add_0_r.
    destruct (n_rel (getn (s_nodes s) res)) eqn:Rl; simpl; rewrite getn_setn;
      (destruct (Nat.eqb res m && Nat.ltb res (length (s_nodes s))) eqn:E; [|split; [lia | exact I2]]);
      apply andb_true_iff in E; destruct E as [E _]; apply Nat.eqb_eq in E; subst m; simpl;
      unfold getN in *; rewrite Rl, Hr in *; simpl in *; (split; [lia|]).
    + intros _ _. left. reflexivity.
    + intros Hh Ho. destruct (I2 Hh Ho) as [Q|Q]; [discriminate Q | right; exact Q].
  - (* FTimerAdd *)
    destruct (do_add_out s res c) as [[s2 sp2]|] eqn:A; [|discriminate]. inversion H; subst; clear H.
    assert (K := do_add_out_ref _ _ _ _ _ _ A Inv).
    eapply ref_on_same; [apply same_ref_refl | | | exact K]; intros n'; cnt2.
  - (* FChildBegin *)
    unfold alloc in H. inversion H; subst; clear H. simpl.
    eapply ref_on_same; [apply same_ref_refl | | | apply ref_on_alloc; [repeat split | exact Inv]]; intros n'; cnt2.
  - destruct (cache_get (r_cache (getr s r)) key); inversion H; subst; clear H; simpl; ref_leaf Inv.
  - (* FCacheLink *)
    destruct (do_add_out s child parent) as [[s2 sp2]|] eqn:A; [|discriminate]. inversion H; subst; clear H.
    assert (K := do_add_out_ref _ _ _ _ _ _ A Inv). simpl.
    eapply ref_on_same; [ | | | exact K]; [unfold getN; same_ref_tac | intros n'; cnt2 | intros n'; cnt2].
  - (* FCacheGet *)
    destruct (cache_get (r_cache (getr s r)) key) as [child|]; [destruct (Nat.eqb child c); [discriminate|]|];
      inversion H; subst; clear H; simpl; ref_leaf Inv.
  - (* FKeyUnlock *) inversion H; subst; clear H. simpl. ref_leaf Inv.
  - (* FJoin *)
    destruct (nth jid (s_joins s) (0, false)) as [nb failed]. destruct (Nat.eqb nb 0); [|discriminate].
    destruct failed; [|inversion H; subst; clear H; ref_leaf Inv].
    destruct (do_fail_ref _ _ _ _ _ _ _ others H) as [N [C1 C2]]. rewrite N.
    eapply ref_on_same; [apply same_ref_refl | | | exact Inv].
    + intros n'. rewrite C1. reflexivity.
    + intros n'. specialize (C2 n'). simpl in *. lia.
  - (* FBranchBegin *) inversion H; subst; clear H. ref_leaf Inv.
  - (* FBranchEnd *)
    destruct (nth jid (s_joins s) (0, false)) as [nb failed]. inversion H; subst; clear H. simpl. ref_leaf Inv.
  - (* FRunEnd *)
    inversion H; subst; clear H. simpl.
    eapply ref_on_same; [apply same_ref_refl | | | exact Inv]; intros n'; cnt2; destruct (r_comp (getr s r)); simpl; lia.
  - (* FArm *)
    destruct (negb (n_inv (getN s c)) && match n_hinv (getN s c) with Some _ => true | None => false end); [discriminate|].
    destruct (g_handle_inv (s_nodes s) c r) as [g fired] eqn:GH. inversion H; subst; clear H. simpl.
    unfold g_handle_inv in GH. destruct (n_inv (getn (s_nodes s) c)); inversion GH; subst; clear GH;
      (eapply ref_on_same; [ | | | exact Inv]; [same_ref_tac | intros n'; cnt2 | intros n'; cnt2]).
  - inversion H; subst; clear H. simpl. ref_leaf Inv.
  - destruct cancelled.
    + destruct (r_mu (getr s r)); [discriminate|]. inversion H; subst; clear H. simpl.
      eapply ref_on_same; [apply same_ref_refl | | | exact Inv]; intros n'; cnt2; destruct (r_comp (getr s r)); simpl; lia.
    + inversion H; subst; clear H. simpl. ref_leaf Inv.
  - (* FOutAdd: addOut with a released dependant nobody else knows *)
    destruct (Nat.ltb n (length (s_nodes s))) eqn:Ln; [|discriminate]. apply Nat.ltb_lt in Ln.
    unfold g_add_out_released in H. inversion H; subst; clear H. simpl.
    intros m. destruct (Inv m) as [I1 I2]. simpl in I1, I2. rewrite getn_setn.
    assert (C1 : forall p, (p FPhInv = false) -> (forall x, p (FRelEnter x) = false) ->
                 count p (concat ((if n_inv (getn (s_nodes s) n) then [[FPhInv]] else []) ++ (if is_nil (n_out (getn (s_nodes s) n)) then [[FRelEnter n]] else []))) = 0).
    { intros p P1 P2. destruct (n_inv (getn (s_nodes s) n)), (is_nil (n_out (getn (s_nodes s) n))); simpl; rewrite ?P1, ?P2; reflexivity. }
    rewrite ?count_app in *. rewrite (C1 (cleanup_of m)) by reflexivity.
    destruct (Nat.eqb n m && Nat.ltb n (length (s_nodes s))) eqn:E.
    + apply andb_true_iff in E. destruct E as [E _]. apply Nat.eqb_eq in E. subst m. simpl. split; [lia|].
      intros _ Ho. right. rewrite Ho. simpl. destruct (n_inv (getn (s_nodes s) n)); simpl; rewrite Nat.eqb_refl; lia.
    + split; [lia|]. intros Hh Ho. destruct (I2 Hh Ho) as [K|K]; [left; exact K | right; lia].
  - (* FPhInv *) inversion H; subst; clear H. ref_leaf Inv.
Qed.

Lemma exhausted_cleanup : forall n f, exhausted f = true -> cleanup_of n f = false.
Proof. intros n f H. destruct f; simpl in *; try discriminate; reflexivity. Qed.
Lemma exhausted_relpend : forall n f, exhausted f = true -> relpend n f = false.
Proof. intros n f H. destruct f; simpl in *; try discriminate; reflexivity. Qed.

Lemma step_ref : forall s l s', ref_inv s -> step s l = Some s' -> ref_inv s'.
Proof.
  intros s l s' Inv H. unfold ref_inv in *. destruct l.
  - destruct (step_task_frames _ _ _ _ H) as [f [rest [s1 [st [sp [others [dropped [P1 [T [D1 [D2 [P2 [N _]]]]]]]]]]]]].
    rewrite N. eapply ref_on_perm; [apply Permutation_sym; exact P2|].
    assert (K := step_top_ref _ _ _ _ _ _ _ others T (ref_on_perm _ _ _ P1 Inv)).
    assert (Cn : forall p, (forall f, exhausted f = true -> p f = false) -> count p st = count p (norm st)).
    { intros p Hp. assert (Q := f_equal (count p) D1). rewrite count_app, (count_exhausted _ _ Hp D2) in Q. exact Q. }
    eapply ref_on_same; [apply same_ref_refl | | | exact K]; intros n; rewrite !count_app.
    + rewrite (Cn _ (exhausted_cleanup n)). reflexivity.
    + rewrite (Cn _ (exhausted_relpend n)). lia.
  - simpl in H. destruct (Nat.ltb slot (length (s_slots s))); [|discriminate]. inversion H; subst; clear H.
    rewrite frames_spawn. unfold all_frames in *. simpl.
    eapply ref_on_same; [apply same_ref_refl | | | exact Inv]; intros n; rewrite count_app; simpl; lia.
  - simpl in H. destruct (Nat.ltb slot (length (s_slots s))); [|discriminate]. inversion H; subst; clear H.
    rewrite frames_spawn. unfold all_frames in *. simpl.
    eapply ref_on_same; [apply same_ref_refl | | | apply ref_on_alloc; [repeat split | exact Inv]]; intros n; rewrite count_app; simpl; lia.
  - simpl in H. destruct (Nat.ltb r (length (s_rrs s))); [|discriminate]. inversion H; subst; clear H.
    rewrite frames_spawn. unfold all_frames in *. simpl.
    eapply ref_on_same; [apply same_ref_refl | | | exact Inv]; intros n; rewrite count_app; simpl; lia.
  - simpl in H. destruct (Nat.ltb r (length (s_rrs s))); [|discriminate].
    destruct (r_clock (getr s r)); [discriminate|]. inversion H; subst; clear H. exact Inv.
  - simpl in H. destruct (Nat.eqb (n_timer (getN s n)) 1); [|discriminate]. inversion H; subst; clear H.
    rewrite frames_spawn. unfold all_frames in *. simpl.
    eapply ref_on_same; [ | | | exact Inv]; [unfold getN; same_ref_tac | |]; intros n'; rewrite count_app; simpl; lia.
  - simpl in H. destruct (Nat.ltb slot (length (s_slots s))); [|discriminate]. inversion H; subst; clear H.
    rewrite frames_spawn. unfold all_frames in *. simpl.
    eapply ref_on_same; [apply same_ref_refl | | | exact Inv]; intros n; rewrite count_app; simpl; lia.
  - simpl in H. destruct (Nat.ltb r (length (s_rrs s))); [|discriminate]. inversion H; subst; clear H. exact Inv.
Qed.

Lemma init_nodes_fields : forall k j n,
  n_cln (getn (init_nodes k j) n) = 0 /\ n_rel (getn (init_nodes k j) n) = false /\ n_had (getn (init_nodes k j) n) = false.
Proof.
  induction k as [|k IH]; intros j n; simpl.
  - unfold getn. destruct n; repeat split.
  - destruct n as [|n]; [repeat split|]. apply (IH (S j) n).
Qed.

Lemma init_ref : forall k progs, ref_inv (init k progs).
Proof.
  intros k progs n. unfold init, all_frames. simpl.
  destruct (init_nodes_fields k 0 n) as [F1 [F2 F3]]. rewrite F1, F2, F3.
  rewrite init_tasks_counts by reflexivity. simpl. split; [reflexivity | discriminate].
Qed.

Lemma reachable_ref : forall k progs s, reachable (init k progs) s -> ref_inv s.
Proof.
  intros k progs s R. induction R as [|s l s' R IH H]; [apply init_ref | eapply step_ref; eauto].
Qed.

(** the afterRelease callback of a node never runs twice, under any schedule *)
Lemma cleanup_at_most_once_lemma : forall k progs s n,
  reachable (init k progs) s -> n_cln (getN s n) <= 1.
Proof.
  intros k progs s n R. destruct (reachable_ref _ _ _ R n) as [H _]. unfold getN.
  destruct (n_rel (getn (s_nodes s) n) && is_some (n_hrel (getn (s_nodes s) n))); simpl in H; lia.
Qed.

(** it ran only if the node is released *)
Lemma cleanup_only_released_lemma : forall k progs s n,
  reachable (init k progs) s -> n_cln (getN s n) = 1 -> n_rel (getN s n) = true.
Proof.
  intros k progs s n R C. destruct (reachable_ref _ _ _ R n) as [H _]. unfold getN in *.
  destruct (n_rel (getn (s_nodes s) n)); [reflexivity|]. simpl in H. lia.
Qed.

(** at quiescence every node with a registered callback that received an addOut and has no dependant left
    has been released and its callback has run exactly once *)
Lemma cleanup_exactly_once_lemma : forall k progs s n,
  reachable (init k progs) s -> quiescent s ->
  n_had (getN s n) = true -> n_out (getN s n) = [] -> n_hrel (getN s n) <> None ->
  n_rel (getN s n) = true /\ n_cln (getN s n) = 1.
Proof.
  intros k progs s n R Q Hh Ho Hr. destruct (reachable_ref _ _ _ R n) as [H1 H2]. unfold getN in *.
  unfold quiescent in Q. unfold all_frames in *. rewrite Q in *. simpl in *.
  destruct (H2 Hh Ho) as [K|K]; [|lia]. split; [exact K|]. rewrite K in H1.
  destruct (n_hrel (getn (s_nodes s) n)); [simpl in H1; lia | congruence].
Qed.

(** the two places where the release of a node is decided (graph.go:129 and :163) decide it only when the node
    has no dependant left *)
Lemma release_decided_only_when_no_dependant :
  (forall g from n g', g_rel_dep g from n = (g', true) -> n_out (getn g' from) = []) /\
  (forall g n to g' linked shinv, g_add_out g n to = (g', (linked, shinv, true)) -> n <> to -> n_out (getn g' n) = []).
Proof.
  split.
  - intros g from n g' H. unfold g_rel_dep in H. inversion H; subst; clear H. rewrite getn_setn.
    destruct (Nat.eqb from from && Nat.ltb from (length g)) eqn:E.
    + simpl. apply is_nil_true. assumption.
    + rewrite Nat.eqb_refl in E. simpl in E. apply Nat.ltb_ge in E. rewrite getn_out_of_range by exact E. reflexivity.
  - intros g n to g' linked shinv H Nq. unfold g_add_out in H.
    assert (Nq' : Nat.eqb to n = false) by (apply Nat.eqb_neq; congruence).
    destruct (negb (n_rel (getn g to))); inversion H; subst; clear H.
    + rewrite !getn_setn, !length_setn. rewrite Nq'. simpl.
      destruct (Nat.eqb n n && Nat.ltb n (length g)) eqn:E.
      * simpl. apply is_nil_true. assumption.
      * rewrite Nat.eqb_refl in E. simpl in E. apply Nat.ltb_ge in E. rewrite getn_out_of_range by exact E. reflexivity.
    + rewrite getn_setn. destruct (Nat.eqb n n && Nat.ltb n (length g)) eqn:E.
      * simpl. apply is_nil_true. assumption.
      * rewrite Nat.eqb_refl in E. simpl in E. apply Nat.ltb_ge in E. rewrite getn_out_of_range by exact E. reflexivity.
Qed.
