(** * Reactive/ProofsLiveness.v — "eventually", for every scheduler: the number of task labels between two
    expiries of re-run intervals is bounded by the measure; when no such label is left every goroutine is a run
    asleep on its interval; in such a state every live rerunner holds a current computation or has a re-run
    scheduled. *)
From Coq Require Import List Arith Bool Lia Permutation.
From Thunder Require Import Reactive.Graph Reactive.Rerunner Reactive.ProofsBase Reactive.ProofsEdge
  Reactive.ProofsMutex Reactive.ProofsArmed Reactive.ProofsClosed Reactive.ProofsShape Reactive.ProofsJoin
  Reactive.ProofsProgress Reactive.Measure Reactive.ProofsMeasure Reactive.ProofsCacheKeys.
Import ListNotations.

(** ** the cost of a re-run does not grow along task labels *)
Lemma max_runlock_ext : forall a b, length a = length b ->
  (forall r, r_prog (nth r a drr) = r_prog (nth r b drr)) -> max_runlock a = max_runlock b.
Proof.
  induction a as [|x t IH]; intros [|y u] L H; simpl in L; try discriminate; [reflexivity|].
  cbn [max_runlock]. assert (H0 := H 0). simpl in H0. rewrite H0. f_equal. apply IH; [lia|]. intros r. exact (H (S r)).
Qed.

Lemma step_max_runlock : forall s l s', step s l = Some s' -> max_runlock (s_rrs s') = max_runlock (s_rrs s).
Proof.
  intros s l s' H. apply max_runlock_ext; [eapply step_rrs_length; eauto|].
  intros r. exact (step_prog _ _ _ r H).
Qed.

Lemma internal_is_task : forall l, is_internal l = true -> exists tid arg, l = LTask tid arg.
Proof. intros [tid arg| | | | | | |] H; try discriminate. eexists; eexists; reflexivity. Qed.

(** one task label: the measure pays for it, except that an expiry is granted the cost of a re-run *)
Lemma task_label_paid : forall s tid arg s',
  cache_bounded s -> step s (LTask tid arg) = Some s' ->
  mu s' + 1 <= mu s + (if is_expiry s (LTask tid arg) then rerun_cost s else 0) /\ rerun_cost s' <= rerun_cost s.
Proof.
  intros s tid arg s' Cb H.
  assert (Mx := step_max_runlock _ _ _ H).
  destruct (is_expiry s (LTask tid arg)) eqn:E.
  - destruct (mu_expiry _ _ _ _ H E) as [A B]. split; [exact A|]. unfold rerun_cost. rewrite Mx. apply Nat.mul_le_mono_r. exact B.
  - destruct (mu_decreases _ _ _ _ H Cb E) as [A B]. split; [lia|]. unfold rerun_cost. rewrite Mx. apply Nat.mul_le_mono_r. exact B.
Qed.

(** EVERY SCHEDULE of task labels from a reachable state: its length is bounded by the measure of the state
    plus the cost of one re-run per expiry of a re-run interval that it contains. *)
Lemma irun_bounded : forall k progs ls s s' n,
  reachable (init k progs) s -> irun s ls = Some (s', n) ->
  length ls + mu s' <= mu s + n * rerun_cost s /\ reachable (init k progs) s'.
Proof.
  intros k progs. induction ls as [|l t IH]; intros s s' n R H; simpl in H.
  - inversion H; subst. split; [simpl; lia | exact R].
  - destruct (is_internal l) eqn:I; [|discriminate].
    destruct (internal_is_task _ I) as [tid [arg ->]].
    destruct (step s (LTask tid arg)) as [s1|] eqn:S; [|discriminate].
    destruct (irun s1 t) as [[s2 m]|] eqn:Ir; [|discriminate].
    remember (is_expiry s (LTask tid arg)) as e eqn:Ee. inversion H; subst s2 n; clear H.
    assert (R1 : reachable (init k progs) s1) by (eapply reach_step; eauto).
    destruct (IH _ _ _ R1 Ir) as [A B]. split; [|exact B].
    destruct (task_label_paid _ _ _ _ (reachable_cache_bounded _ _ _ R) S) as [P Q].
    assert (Q2 := Nat.mul_le_mono_l _ _ m Q).
    rewrite <- Ee in P. destruct e; cbn [length]; lia.
Qed.

(** ** progress, sharpened: unless every goroutine is a run asleep on its interval, some task label other than
    an expiry is enabled *)
Definition awake_step (s : state) : Prop :=
  exists tid arg s', step s (LTask tid arg) = Some s' /\ is_expiry s (LTask tid arg) = false.

Definition not_wait (f : frame) : Prop := forall r, f <> FRunWait r.

Lemma task_awake_step : forall s tid f rest,
  invs s -> In (tid, f :: rest) (s_tasks s) -> blocked s f = false -> not_wait f -> awake_step s.
Proof.
  intros s tid f rest I Hin Nb Nw.
  destruct (task_can_step _ _ _ _ I Hin Nb) as [arg [s' Q]]. exists tid, arg, s'. split; [exact Q|].
  destruct (i_tasks s I) as [Nd _]. unfold is_expiry. rewrite (find_task_in _ _ _ Nd Hin).
  destruct f; try reflexivity. exfalso. eapply Nw. reflexivity.
Qed.

Lemma join_waiter_aw : forall n s tid r jid rest,
  invs s -> In (tid, FJoin r jid :: rest) (s_tasks s) -> length (s_joins s) - jid <= n -> awake_step s.
Proof.
  induction n as [|n IH]; intros s tid r jid rest I Hin Hn.
  - exfalso. destruct (i_join s I) as [A _]. assert (K := A (FJoin r jid) (in_all_frames _ _ _ _ Hin (or_introl eq_refl))). simpl in K. lia.
  - destruct (blocked s (FJoin r jid)) eqn:B; [|eapply task_awake_step; [exact I | exact Hin | exact B | intros r0 Q; discriminate]].
    simpl in B. apply negb_true_iff in B. apply Nat.eqb_neq in B.
    destruct (i_join s I) as [A Cn]. specialize (Cn jid).
    assert (Hb : exists b, In b (all_frames s) /\ is_bend jid b = true).
    { assert (Pos : 0 < count (is_bend jid) (all_frames s)) by lia. clear - Pos.
      induction (all_frames s) as [|g t IHt]; simpl in Pos; [lia|].
      destruct (is_bend jid g) eqn:E; [exists g; split; [left; reflexivity | exact E]|].
      destruct (IHt Pos) as [b [B1 B2]]. exists b. split; [right; exact B1 | exact B2]. }
    destruct Hb as [b [Bin Bb]]. destruct b; simpl in Bb; try discriminate. apply Nat.eqb_eq in Bb. subst jid0.
    destruct (all_frames_in _ _ Bin) as [tid' [st' [Hin' Hst']]].
    destruct (i_tasks s I) as [Nd Ok]. destruct (Ok _ _ Hin') as [_ [Nst _]].
    destruct st' as [|f' rest']; [congruence|].
    destruct (i_jtasks s I _ _ Hin') as [Js Bd].
    destruct Hst' as [Q|Hst'].
    { subst f'. eapply task_awake_step; [exact I | exact Hin' | reflexivity | intros r0 Q; discriminate]. }
    assert (Inb : In jid (bends rest')) by (apply bends_in; exact Hst').
    destruct Js as [J1 [J2 _]].
    assert (Ok' : above_bend_ok f' = true) by (apply J1; intros Q; rewrite Q in Inb; contradiction).
    destruct (blocked s f') eqn:Bf.
    + destruct f'; simpl in Bf, Ok'; try discriminate.
      assert (Lt : jid < jid0) by (eapply J2; [reflexivity | exact Inb]).
      eapply (IH s tid' r0 jid0 rest'); [exact I | exact Hin'|].
      assert (K := A (FJoin r0 jid0) (in_all_frames _ _ _ _ Hin' (or_introl eq_refl))). simpl in K. lia.
    + eapply task_awake_step; [exact I | exact Hin' | exact Bf|]. intros r0 Q. subst f'. simpl in Ok'. discriminate.
Qed.

Lemma progress_aw : forall s tid0 f0 rest0,
  invs s -> In (tid0, f0 :: rest0) (s_tasks s) -> not_wait f0 -> awake_step s.
Proof.
  intros s tid0 f0 rest0 I Hin0 Nw0.
  destruct (i_tasks s I) as [Nd Ok].
  destruct (blocked s f0) eqn:B0; [|eapply task_awake_step; [exact I | exact Hin0 | exact B0 | exact Nw0]].
  assert (Cases : (exists r, r_mu (getr s r) = true) \/ exists r jid, f0 = FJoin r jid).
  { destruct f0; simpl in B0; try discriminate; [left; eexists; exact B0 | right; eexists; eexists; reflexivity | destruct cancelled; [left; eexists; exact B0 | discriminate]]. }
  destruct Cases as [[r Mu]|[r [jid ->]]]; [|eapply (join_waiter_aw _ s tid0 r jid rest0); [exact I | exact Hin0 | apply Nat.le_refl]].
  assert (Lr : r < length (s_rrs s)).
  { destruct (Nat.lt_ge_cases r (length (s_rrs s))) as [L|L]; [exact L|]. unfold getr in Mu. rewrite nth_overflow in Mu by exact L. discriminate. }
  destruct (i_mutex s I r Lr) as [M1 _]. unfold getr in Mu. rewrite Mu in M1. simpl in M1.
  assert (Ha : exists a, In a (all_frames s) /\ anchor r a = true).
  { clear - M1. induction (all_frames s) as [|g t IH]; simpl in M1; [discriminate|].
    destruct (anchor r g) eqn:A; [exists g; split; [left; reflexivity | exact A]|].
    destruct (IH M1) as [a [A1 A2]]. exists a. split; [right; exact A1 | exact A2]. }
  destruct Ha as [a [Ain Aa]]. destruct (all_frames_in _ _ Ain) as [tid [st [Hin Hst]]].
  destruct (Ok _ _ Hin) as [_ [Nst [_ Sh]]].
  destruct st as [|f rest]; [congruence|].
  assert (Kind : is_anchor f = true \/ script_kind f = true).
  { destruct Hst as [Q|Hst]; [subst a; left; eapply anchor_is_anchor; eauto|].
    destruct Sh as [S1 _]. right. apply S1. eapply has_anchor_in; [exact Hst | eapply anchor_is_anchor; eauto]. }
  destruct (blocked s f) eqn:Bf.
  - assert (Fj : exists r' j', f = FJoin r' j').
    { destruct f; simpl in Bf; try discriminate; destruct Kind as [Q|Q]; simpl in Q; try discriminate. eexists; eexists; reflexivity. }
    destruct Fj as [r' [j' ->]]. eapply (join_waiter_aw _ s tid r' j' rest); [exact I | exact Hin | apply Nat.le_refl].
  - eapply task_awake_step; [exact I | exact Hin | exact Bf|]. intros r0 Q. subst f. destruct Kind as [Q|Q]; simpl in Q; discriminate.
Qed.

(** a state in which no task label other than an expiry is enabled is settled *)
Lemma stuck_is_settled : forall s,
  invs s ->
  (forall tid arg s', step s (LTask tid arg) = Some s' -> is_expiry s (LTask tid arg) = true) ->
  settled s = true.
Proof.
  intros s I Stuck. unfold settled. apply forallb_forall. intros [tid st] Hin.
  destruct (i_tasks s I) as [Nd Ok]. destruct (Ok _ _ Hin) as [_ [Nst _]].
  destruct st as [|f rest]; [congruence|]. unfold asleep_task. simpl.
  destruct f; try reflexivity;
    (exfalso; assert (Nw : not_wait ltac:(match goal with H : In (_, ?f :: _) _ |- _ => exact f end)) by (intros r0 Q; discriminate);
     destruct (progress_aw _ _ _ _ I Hin Nw) as [t [a [s' [S E]]]]; rewrite (Stuck _ _ _ S) in E; discriminate).
Qed.

(** ** dormant states: every frame left is a sleeping run (or an emptied walk beneath one) *)
From Thunder Require Import Reactive.ProofsReach Reactive.ProofsStale.

Lemma dormant_frames : forall s, dormant s = true -> forall f, In f (all_frames s) -> idle_frame f = true.
Proof. intros s D f Hf. unfold dormant in D. rewrite forallb_forall in D. apply D. exact Hf. Qed.

Lemma idle_no_pending : forall fr to, (forall f, In f fr -> idle_frame f = true) -> ~ pending fr to.
Proof.
  intros fr to H [f [Hf P]]. specialize (H f Hf). destruct f; simpl in *; try discriminate; try contradiction.
  destruct l; [contradiction | discriminate].
Qed.

Lemma idle_no_strobe : forall g fr n, (forall f, In f fr -> idle_frame f = true) -> ~ strobeP g fr n.
Proof. intros g fr n H [R [Hf _]]. specialize (H _ Hf). discriminate. Qed.

Lemma idle_runish : forall r fr, (forall f, In f fr -> idle_frame f = true) -> 0 < count (runish r) fr -> In (FRunWait r) fr.
Proof.
  intros r fr. induction fr as [|f t IH]; simpl; intros H P; [lia|].
  destruct (runish r f) eqn:E.
  - left. assert (Q := H f (or_introl eq_refl)). destruct f; simpl in *; try discriminate.
    apply Nat.eqb_eq in E. subst. reflexivity.
  - right. apply IH; [intros g Hg; apply H; right; exact Hg | lia].
Qed.

Lemma dormant_closed : forall k progs s,
  reachable (init k progs) s -> dormant s = true ->
  forall n c, reach (s_nodes s) n c -> n_inv (getN s n) = true -> n_inv (getN s c) = true.
Proof.
  intros k progs s R D n c H. assert (Idle := dormant_frames _ D).
  induction H as [a | a m c Hin Hr IH]; intros Hi; [exact Hi|].
  apply IH. destruct (reachable_edge _ _ _ R) as [_ E].
  destruct (E a m Hin Hi) as [Q|Q]; [exact Q | exfalso; eapply idle_no_pending; eauto].
Qed.

Lemma dormant_valid_current : forall k progs s c sl v,
  reachable (init k progs) s -> dormant s = true ->
  n_inv (getN s c) = false -> In (sl, v) (n_val (getN s c)) -> v = slot_ver s sl.
Proof.
  intros k progs s c sl v R D Hc Hin. assert (Idle := dormant_frames _ D).
  destruct (reachable_stale _ _ _ R) as [S1 _].
  destruct (S1 c sl v Hin) as [[n [Hr Cause]]|[Ev _]]; [|exact Ev].
  exfalso. destruct Cause as [Hi|[P|P]].
  - rewrite (dormant_closed _ _ _ R D _ _ Hr Hi) in Hc. discriminate.
  - eapply idle_no_pending; eauto.
  - eapply idle_no_strobe; eauto.
Qed.

(** NO LOST INVALIDATION, WITHOUT WAITING FOR QUIESCENCE: in a dormant state a rerunner that is neither
    cancelled nor failed either has a re-run scheduled (a run of it is asleep on its interval) or holds an
    armed, valid computation all of whose recorded versions are current. *)
Lemma dormant_no_lost_invalidation : forall k progs s r,
  reachable (init k progs) s -> dormant s = true -> r < length (s_rrs s) ->
  r_cancel (getr s r) = false -> r_failed (getr s r) = false ->
  In (FRunWait r) (all_frames s) \/
  exists c, r_comp (getr s r) = Some c /\ n_hinv (getN s c) = Some r /\ n_inv (getN s c) = false /\
    forall sl v, In (sl, v) (n_val (getN s c)) -> v = slot_ver s sl.
Proof.
  intros k progs s r R D Hr X1 X2. assert (Idle := dormant_frames _ D).
  destruct (reachable_armed _ _ _ R) as [_ [_ C]].
  destruct (C r Hr) as [_ C2]. unfold getr in *. specialize (C2 X1 X2).
  destruct (r_comp (nth r (s_rrs s) drr)) as [c|]; [|left; eapply idle_runish; eauto].
  destruct C2 as [[Q1 Q2]|Q']; [|left; eapply idle_runish; eauto].
  right. exists c. split; [reflexivity|]. split; [exact Q1|]. split; [exact Q2|].
  intros sl v Hin. eapply dormant_valid_current; eauto.
Qed.

(** a quiescent state is dormant and settled *)
Lemma quiescent_dormant : forall s, quiescent s -> dormant s = true /\ settled s = true.
Proof. intros s Q. unfold quiescent in Q. unfold dormant, settled, frames_of. rewrite Q. split; reflexivity. Qed.

(** the composite: every maximal execution between expiries is finite and ends settled *)
Lemma every_execution_settles_lemma : forall k progs s ls s' n,
  progs_ok k progs -> reachable (init k progs) s ->
  irun s ls = Some (s', n) -> no_self_hit s' ->
  (forall tid arg s'', step s' (LTask tid arg) = Some s'' -> is_expiry s' (LTask tid arg) = true) ->
  length ls <= mu s + n * rerun_cost s /\ settled s' = true.
Proof.
  intros k progs s ls s' n Pk R H Ns St. destruct (irun_bounded k progs ls s s' n R H) as [A R'].
  split; [lia|]. apply stuck_is_settled; [eapply reachable_invs; eauto | exact St].
Qed.

Lemma no_awake_label_means_settled_lemma : forall k progs s,
  progs_ok k progs -> reachable (init k progs) s -> no_self_hit s ->
  (forall tid arg s', step s (LTask tid arg) = Some s' -> is_expiry s (LTask tid arg) = true) ->
  settled s = true.
Proof. intros k progs s Pk R Ns St. apply stuck_is_settled; [eapply reachable_invs; eauto | exact St]. Qed.

Lemma measure_decreases_lemma : forall k progs s tid arg s',
  reachable (init k progs) s -> step s (LTask tid arg) = Some s' -> is_expiry s (LTask tid arg) = false ->
  mu s' < mu s.
Proof.
  intros k progs s tid arg s' R H E.
  exact (proj1 (mu_decreases s tid arg s' H (reachable_cache_bounded k progs s R) E)).
Qed.

Lemma expiry_cost_lemma : forall s tid arg s',
  step s (LTask tid arg) = Some s' -> is_expiry s (LTask tid arg) = true -> mu s' + 1 <= mu s + rerun_cost s.
Proof. intros s tid arg s' H E. exact (proj1 (mu_expiry s tid arg s' H E)). Qed.

Lemma every_schedule_is_bounded_lemma : forall k progs s ls s' n,
  reachable (init k progs) s -> irun s ls = Some (s', n) -> length ls + mu s' <= mu s + n * rerun_cost s.
Proof. intros k progs s ls s' n R H. exact (proj1 (irun_bounded k progs ls s s' n R H)). Qed.
