(** * Reactive/Replay.v — trace conformance: the event log recorded from the implementation (one event per
    critical section, logged inside the lock, so log order is real order) must be a run of the model, and
    every recorded observable must be what the model predicts.  Definitions only. *)
From Coq Require Import List Arith Bool.
From Thunder Require Import Reactive.Graph Reactive.Rerunner.
Import ListNotations.

Inductive ekind :=
| KInvNoop (n : nat)                                 (* reactive.invalidate.noop *)
| KInvMark (n : nat) (out : list nat) (h : bool)     (* reactive.invalidate.mark: snapshot of out, afterInvalidate != nil *)
| KStrobe (n : nat) (out : list nat)                 (* reactive.strobe.snapshot *)
| KRelEnter (n : nat)                                (* reactive.release.enter *)
| KRelNoop (n : nat)                                 (* reactive.release.noop *)
| KRelMark (n : nat) (h : bool) (nins : nat)         (* reactive.release.mark: afterRelease != nil, len(in) *)
| KCleanup (n : nat) (fresh : option nat)            (* harness Cleanup callback; the slot's new resource if re-created *)
| KRelDep (from n : nat) (sh : bool)                 (* reactive.release.dep: shouldRelease *)
| KAddOut (n to : nat) (linked shinv shrel : bool)   (* reactive.addOut *)
| KRunProceed (r : nat)                              (* reactive.run.proceed *)
| KRunLocked (r : nat) (stop : bool)                 (* reactive.run.locked *)
| KCleanStart (r len : nat)                          (* reactive.cache.clean *)
| KCleanEntry (child : nat) (inv : bool)             (* reactive.node.Invalidated under cleanInvalidated *)
| KCleanEnd (r : nat)                                (* reactive.cache.cleaned *)
| KBegin (c : nat)                                   (* reactive.compute.begin *)
| KPick (sl res : nat)                               (* harness: the compute function reads the slot's resource *)
| KRead (sl ver : nat)                               (* harness: the compute function reads the slot's version *)
| KTimerNew (res : nat)                              (* reactive.InvalidateAfter.new *)
| KTimerReg (res : nat) (released : bool)            (* reactive.handleRelease on an InvalidateAfter resource *)
| KSkip                                              (* harness: OTimer / OFail / ORetry skipped (budget) *)
| KCacheGet (key : nat) (child : option nat)         (* reactive.cache.get *)
| KCacheSet (key child : nat) (stored : bool)        (* reactive.cache.set *)
| KFail (cs : list nat) (retry : bool)               (* error return: reactive.cache.lockerr / compute.fail* / run.failed|retry *)
| KPublish (r c : nat) (hadold : bool) (out : list (nat * nat)) (* reactive.run.publish + value returned by f *)
| KArm (c : nat) (wasinv : bool)                     (* reactive.handleInvalidate *)
| KUnlock (r : nat)                                  (* reactive.run.unlock *)
| KKeyLock (key : nat)                               (* reactive.cache.locked: cache.locker.Lock returned nil *)
| KKeyUnlock (key : nat)                             (* reactive.cache.unlock: deferred cache.locker.Unlock *)
| KFork (jid n : nat)                                (* harness: the compute function starts n goroutines *)
| KBranchBegin (jid idx : nat)                       (* harness: first action of a branch goroutine *)
| KBranchEnd (jid : nat)                             (* harness: a branch goroutine returns *)
| KJoin (jid : nat)                                  (* harness: all branches returned, none with an error *)
| KJoinFail (jid : nat) (cs : list nat)              (* harness: all branches returned, one with an error: the compute function returns it *)
| KOutAdd (n : nat) (shinv shrel : bool)             (* reactive.addOut with a released dependant nobody else knows (AddDependency outside a rerunner) *)
| KPhInv                                             (* reactive.invalidate.* on that placeholder *)
| KStopCancel (r : nat)                              (* reactive.stop.cancel *)
| KStopMark (r : nat) (hadcomp : bool).              (* reactive.stop.mark *)

(** what the harness reads from the real objects at a quiescent point (by reflection on the pointers the hooks
    handed over): a node's flags, edge sets and handlers; a rerunner's computation, stop flag, context, cache
    entries and held per-key locks *)
Record nobs := mk_nobs { o_inv : bool; o_rel : bool; o_out : list nat; o_ins : list nat; o_hinv : bool; o_hrel : bool }.
Record robs := mk_robs { o_comp : option nat; o_stop : bool; o_cancel : bool; o_cache : list (nat * nat); o_held : list nat }.

Inductive event :=
| EDump (ns : list nobs) (rs : list robs)
| ETask (gid : nat) (k : ekind)
| EStrobe (sl ver : nat)
| EInvalidate (sl ver fresh : nat)
| EStop (r : nat)
| EPurge (r : nat)
| ETimer (n : nat)
| EOutside (sl res : nat)
| ECancel (r : nat).

Definition is_some {A} (o : option A) : bool := match o with Some _ => true | None => false end.

Fixpoint subset (a b : list nat) : bool :=
  match a with [] => true | x :: t => memb x b && subset t b end.
Definition same_set (a b : list nat) : bool := Nat.eqb (length a) (length b) && subset a b && subset b a.

Definition opt_nat_eqb (a b : option nat) : bool :=
  match a, b with
  | Some x, Some y => Nat.eqb x y
  | None, None => true
  | _, _ => false
  end.
Fixpoint list_nat_eqb (a b : list nat) : bool :=
  match a, b with
  | [], [] => true
  | x :: s, y :: t => Nat.eqb x y && list_nat_eqb s t
  | _, _ => false
  end.
Fixpoint val_eqb (a b : list (nat * nat)) : bool :=
  match a, b with
  | [], [] => true
  | (x1, x2) :: s, (y1, y2) :: t => Nat.eqb x1 y1 && Nat.eqb x2 y2 && val_eqb s t
  | _, _ => false
  end.

(* with goroutines inside a compute function the order in which pairs enter a value is the order of the
   events; the harness joins its branches' results in branch order: compare as multisets *)
Definition pair_leb (a b : nat * nat) : bool :=
  Nat.ltb (fst a) (fst b) || (Nat.eqb (fst a) (fst b) && Nat.leb (snd a) (snd b)).
Fixpoint val_insert (x : nat * nat) (l : list (nat * nat)) : list (nat * nat) :=
  match l with
  | [] => [x]
  | h :: t => if pair_leb x h then x :: l else h :: val_insert x t
  end.
Definition val_sort (l : list (nat * nat)) : list (nat * nat) := fold_right val_insert [] l.
Definition val_meqb (a b : list (nat * nat)) : bool := val_eqb (val_sort a) (val_sort b).

(** the real state against the model's.  [node.in] is set to nil when a node has been released (graph.go:137):
    compared for unreleased nodes only, as a multiset. *)
Fixpoint nat_insert (x : nat) (l : list nat) : list nat :=
  match l with [] => [x] | h :: t => if Nat.leb x h then x :: l else h :: nat_insert x t end.
Definition nat_sort (l : list nat) : list nat := fold_right nat_insert [] l.

Definition node_obs_ok (x : node) (o : nobs) : bool :=
  Bool.eqb (n_inv x) (o_inv o) && Bool.eqb (n_rel x) (o_rel o) && same_set (n_out x) (o_out o) &&
  (n_rel x || list_nat_eqb (nat_sort (n_ins x)) (nat_sort (o_ins o))) &&
  Bool.eqb (is_some (n_hinv x)) (o_hinv o) && Bool.eqb (is_some (n_hrel x)) (o_hrel o).

Definition rr_obs_ok (x : rr) (o : robs) : bool :=
  opt_nat_eqb (r_comp x) (o_comp o) && Bool.eqb (r_stop x) (o_stop o) && Bool.eqb (r_cancel x) (o_cancel o) &&
  val_meqb (r_cache x) (o_cache o) && same_set (r_keys x) (o_held o) && negb (r_mu x) && negb (r_clock x).

Fixpoint all2 {A B} (p : A -> B -> bool) (a : list A) (b : list B) : bool :=
  match a, b with
  | [], [] => true
  | x :: s, y :: t => p x y && all2 p s t
  | _, _ => false
  end.

Definition dump_ok (s : state) (ns : list nobs) (rs : list robs) : bool :=
  all2 node_obs_ok (s_nodes s) ns && all2 rr_obs_ok (s_rrs s) rs.

(** Does event kind [k] name the critical section frame [f] stands at?  If so, the label argument. *)
Definition match_arg (f : frame) (k : ekind) : option nat :=
  match f, k with
  | FInvList l, KInvNoop n => if memb n l then Some n else None
  | FInvList l, KInvMark n _ _ => if memb n l then Some n else None
  | FStrobe n, KStrobe n' _ => if Nat.eqb n n' then Some 0 else None
  | FRelEnter n, KRelEnter n' => if Nat.eqb n n' then Some 0 else None
  | FRelEnter n, KInvNoop n' => if Nat.eqb n n' then Some 0 else None
  | FRelEnter n, KInvMark n' _ _ => if Nat.eqb n n' then Some 0 else None
  | FRelMark n, KRelNoop n' => if Nat.eqb n n' then Some 0 else None
  | FRelMark n, KRelMark n' _ _ => if Nat.eqb n n' then Some 0 else None
  | FCleanup n _, KCleanup n' _ => if Nat.eqb n n' then Some 0 else None
  | FRelDeps n (from :: _), KRelDep from' n' _ => if Nat.eqb n n' && Nat.eqb from from' then Some 0 else None
  | FRunWait r, KRunProceed r' => if Nat.eqb r r' then Some 0 else None
  | FRunLock r, KRunLocked r' _ => if Nat.eqb r r' then Some 0 else None
  | FCleanStart r, KCleanStart r' _ => if Nat.eqb r r' then Some 0 else None
  | FCleanStart r, KUnlock r' => if Nat.eqb r r' then Some 1 else None   (* the run gave up during the write-then-read delay: its context is cancelled *)
  | FClean r ks, KCleanEntry child _ => if memb child ks then Some child else None
  | FClean r [], KCleanEnd r' => if Nat.eqb r r' then Some 0 else None
  | FBegin _, KBegin _ => Some 0
  | FChildBegin _ _ _ _, KBegin _ => Some 0
  | FScript _ _ (ODep sl :: _), KPick sl' _ => if Nat.eqb sl sl' then Some 0 else None
  | FScript _ _ (OTimer :: _), KTimerNew _ => Some 1
  | FScript _ _ (OTimer :: _), KSkip => Some 0
  | FTimerReg _ n, KTimerReg n' _ => if Nat.eqb n n' then Some 0 else None
  | FScript _ _ (OCache key _ :: _), KKeyLock key' => if Nat.eqb key key' then Some 0 else None
  | FCacheGet _ key _ _, KCacheGet key' _ => if Nat.eqb key key' then Some 0 else None
  | FKeyUnlock _ key, KKeyUnlock key' => if Nat.eqb key key' then Some 0 else None
  | FScript _ _ (OPar _ :: _), KFork _ _ => Some 0
  | FBranchBegin jid idx, KBranchBegin jid' idx' => if Nat.eqb jid jid' && Nat.eqb idx idx' then Some 0 else None
  | FBranchEnd jid, KBranchEnd jid' => if Nat.eqb jid jid' then Some 0 else None
  | FJoin _ jid, KJoin jid' => if Nat.eqb jid jid' then Some 0 else None
  | FJoin _ jid, KJoinFail jid' _ => if Nat.eqb jid jid' then Some 0 else None
  | FScript _ _ (OCache _ _ :: _), KFail _ false => Some 1
  | FScript _ _ (OCache _ _ :: _), KSkip => Some 2
  | FScript _ _ (OFail :: _), KSkip => Some 0
  | FScript _ _ (OFail :: _), KFail _ false => Some 1
  | FScript _ _ (ORetry :: _), KSkip => Some 0
  | FScript _ _ (ORetry :: _), KFail _ true => Some 1
  | FDepAdd c _ n, KAddOut n' to _ _ _ => if Nat.eqb n n' && Nat.eqb c to then Some 0 else None
  | FDepRead _ sl, KRead sl' _ => if Nat.eqb sl sl' then Some 0 else None
  | FTimerAdd c n, KAddOut n' to _ _ _ => if Nat.eqb n n' && Nat.eqb c to then Some 0 else None
  | FCacheLink child parent, KAddOut n' to _ _ _ => if Nat.eqb child n' && Nat.eqb parent to then Some 0 else None
  | FCacheSet _ key child _, KCacheSet key' child' _ => if Nat.eqb key key' && Nat.eqb child child' then Some 0 else None
  | FRunEnd r c, KPublish r' c' _ _ => if Nat.eqb r r' && Nat.eqb c c' then Some 0 else None
  | FArm _ c, KArm c' _ => if Nat.eqb c c' then Some 0 else None
  | FUnlock r, KUnlock r' => if Nat.eqb r r' then Some 0 else None
  | FStop r false, KStopCancel r' => if Nat.eqb r r' then Some 0 else None
  | FStop r true, KStopMark r' _ => if Nat.eqb r r' then Some 0 else None
  | FOutAdd n, KOutAdd n' _ _ => if Nat.eqb n n' then Some 0 else None
  | FPhInv, KPhInv => Some 0
  | _, _ => None
  end.

(** The recorded observables against the model's state just before the step. *)
Definition obs_ok (s : state) (f : frame) (rest : list frame) (k : ekind) : bool :=
  match k with
  | KInvNoop n => n_inv (getN s n)
  | KInvMark n out h =>
      negb (n_inv (getN s n)) && same_set out (n_out (getN s n)) && Bool.eqb h (is_some (n_hinv (getN s n)))
  | KStrobe n out => same_set out (n_out (getN s n))
  | KRelEnter _ => true
  | KRelNoop n => n_rel (getN s n)
  | KRelMark n h nins =>
      negb (n_rel (getN s n)) && Bool.eqb h (is_some (n_hrel (getN s n))) && Nat.eqb nins (length (n_ins (getN s n)))
  | KCleanup n fresh =>
      match f with
      | FCleanup _ sl => opt_nat_eqb fresh (if Nat.eqb (slot_res s sl) n then Some (length (s_nodes s)) else None)
      | _ => false
      end
  | KRelDep from n sh => Bool.eqb sh (snd (g_rel_dep (s_nodes s) from n))
  | KAddOut n to linked shinv shrel =>
      let '(_, (a, b, c)) := g_add_out (s_nodes s) n to in
      Bool.eqb a linked && Bool.eqb b shinv && Bool.eqb c shrel
  | KRunProceed _ => true
  | KRunLocked r stop => Bool.eqb stop (r_stop (getr s r))
  | KCleanStart r len => Nat.eqb len (length (r_cache (getr s r)))
  | KCleanEntry child inv => Bool.eqb inv (n_inv (getN s child))
  | KCleanEnd _ => true
  | KBegin c => Nat.eqb c (length (s_nodes s))
  | KPick sl res => Nat.eqb res (slot_res s sl)
  | KRead sl ver => Nat.eqb ver (slot_ver s sl)
  | KTimerNew res => Nat.eqb res (length (s_nodes s))
  | KTimerReg n released => Bool.eqb released (n_rel (getN s n))
  | KSkip => true
  | KCacheGet key child =>
      match f with
      | FCacheGet r _ _ _ => opt_nat_eqb child (cache_get (r_cache (getr s r)) key)
      | _ => false
      end
  | KKeyLock _ => true
  | KKeyUnlock _ => true
  | KFork jid n =>
      match f with
      | FScript _ _ (OPar bs :: _) => Nat.eqb jid (length (s_joins s)) && Nat.eqb n (length bs)
      | _ => false
      end
  | KBranchBegin _ _ => true
  | KBranchEnd _ => true
  | KJoin jid => negb (snd (nth jid (s_joins s) (0, false)))
  | KJoinFail jid cs =>
      snd (nth jid (s_joins s) (0, false)) &&
      match match f with FJoin r _ => unwind r rest | _ => None end with
      | Some (cs', _, _, _) => list_nat_eqb cs cs'
      | None => false
      end
  | KCacheSet key child stored =>
      match f with
      | FCacheSet r _ _ _ => Bool.eqb stored (negb (is_some (cache_get (r_cache (getr s r)) key)))
      | _ => false
      end
  | KFail cs _ =>
      match match f with FScript r _ _ => unwind r rest | _ => None end with
      | Some (cs', _, _, _) => list_nat_eqb cs cs'
      | None => false
      end
  | KPublish r c hadold out =>
      Bool.eqb hadold (is_some (r_comp (getr s r))) && val_meqb out (n_val (getN s c))
  | KArm c wasinv => Bool.eqb wasinv (n_inv (getN s c))
  | KUnlock _ => true
  | KStopCancel _ => true
  | KOutAdd n shinv shrel =>
      let '(_, (a, c)) := g_add_out_released (s_nodes s) n in Bool.eqb a shinv && Bool.eqb c shrel
  | KPhInv => true
  | KStopMark r had => Bool.eqb had (is_some (r_comp (getr s r)))
  end.

(** gid -> tid bindings *)
Fixpoint lookup (b : list (nat * nat)) (g : nat) : option nat :=
  match b with
  | [] => None
  | (g', t) :: r => if Nat.eqb g g' then Some t else lookup r g
  end.

Definition bound_tid (b : list (nat * nat)) (t : nat) : bool := existsb (fun p => Nat.eqb (snd p) t) b.

(* a release() goroutine announces itself with release.enter before anything else, so a fresh goroutine whose
   first event is an invalidate event is not one *)
Definition match_unbound (f : frame) (k : ekind) : option nat :=
  match f, k with
  | FRelEnter _, KInvNoop _ => None
  | FRelEnter _, KInvMark _ _ _ => None
  | _, _ => match_arg f k
  end.

Definition is_rel_enter (k : ekind) : bool := match k with KRelEnter _ => true | _ => false end.

(* first live task not yet bound to a goroutine whose top frame matches k *)
Fixpoint find_unbound (b : list (nat * nat)) (ts : list (nat * list frame)) (k : ekind) : option nat :=
  match ts with
  | [] => None
  | (t, f :: _) :: r =>
      if negb (bound_tid b t) && is_some (match_unbound f k) then Some t else find_unbound b r k
  | _ :: r => find_unbound b r k
  end.

Definition is_proceed (k : ekind) : bool := match k with KRunProceed _ => true | _ => false end.

(* A goroutine whose Rerunner.run returned at the ctx check (rerunner.go:367-369) leaves no event: if the
   task's top frame is FRunWait r, r's context is cancelled and the event is not run.proceed, the return is
   taken silently. *)
Definition silent_return (s : state) (tid : nat) (k : ekind) : state :=
  match find_task (s_tasks s) tid with
  | Some (FRunWait r :: _) =>
      if negb (is_proceed k) && r_cancel (getr s r)
      then match step s (LTask tid 1) with Some s' => s' | None => s end
      else s
  | _ => s
  end.

Definition task_event (s : state) (b : list (nat * nat)) (gid : nat) (k : ekind)
  : option (state * list (nat * nat)) + nat :=
  let s0 := match lookup b gid with Some t => silent_return s t k | None => s end in
  let bt := match lookup b gid with
            | Some t => match find_task (s_tasks s0) t with Some _ => Some (t, b) | None => None end
            | None => None
            end in
  let bt' := match bt with
             | Some x => Some x
             | None => match find_unbound b (s_tasks s0) k with
                       | Some t => Some (t, (gid, t) :: b)
                       | None => None
                       end
             end in
  match bt' with
  | None => inr 1
  | Some (t, b') =>
      match find_task (s_tasks s0) t with
      | Some (f :: rest) =>
          match match_arg f k with
          | None => inr 1
          | Some arg =>
              if is_rel_enter k then inl (Some (s0, b'))   (* release.enter is not a critical section: it only identifies the goroutine *)
              else
              if obs_ok s0 f rest k then
                match step s0 (LTask t arg) with
                | Some s1 => inl (Some (s1, b'))
                | None => inr 2
                end
              else inr 3
          end
      | _ => inr 1
      end
  end.

(** the state hypothesis of the progress theorem, evaluated on every state the replay visits *)
Definition frame_self_hit (s : state) (f : frame) : bool :=
  match f with
  | FCacheGet r key _ c => opt_nat_eqb (cache_get (r_cache (getr s r)) key) (Some c)
  | _ => false
  end.
Definition no_self_hitb (s : state) : bool := negb (existsb (frame_self_hit s) (concat (map snd (s_tasks s)))).

(** replay: [inl s] = accepted, final state; [inr (code, index)] =
    1 no task can be at that critical section; 2 the section is not enabled in the model;
    3 a recorded observable differs; 4 an environment event is not enabled or its observable differs;
    7 a cache lookup is about to return the computation that performs it (hypothesis of the progress theorem);
    8 the state read from the real graph / rerunners / caches at a quiescent point differs from the model's *)
Fixpoint replay (s : state) (b : list (nat * nat)) (i : nat) (es : list event) : state + (nat * nat) :=
  match es with
  | [] => inl s
  | e :: t =>
      match e with
      | EDump ns rs => if dump_ok s ns rs then replay s b (S i) t else inr (8, i)
      | ETask gid k =>
          match task_event s b gid k with
          | inl (Some (s1, b1)) => if no_self_hitb s1 then replay s1 b1 (S i) t else inr (7, i)
          | inl None => inr (1, i)
          | inr c => inr (c, i)
          end
      | EStrobe sl ver =>
          if Nat.eqb ver (S (slot_ver s sl)) then
            match step s (LStrobe sl) with Some s1 => replay s1 b (S i) t | None => inr (4, i) end
          else inr (4, i)
      | EInvalidate sl ver fresh =>
          if Nat.eqb ver (S (slot_ver s sl)) && Nat.eqb fresh (length (s_nodes s)) then
            match step s (LInvalidate sl) with Some s1 => replay s1 b (S i) t | None => inr (4, i) end
          else inr (4, i)
      | EStop r => match step s (LStop r) with Some s1 => replay s1 b (S i) t | None => inr (4, i) end
      | EPurge r => match step s (LPurge r) with Some s1 => replay s1 b (S i) t | None => inr (4, i) end
      | ETimer n => match step s (LTimer n) with Some s1 => replay s1 b (S i) t | None => inr (4, i) end
      | EOutside sl res =>
          if Nat.eqb res (slot_res s sl) then
            match step s (LOutside sl) with Some s1 => replay s1 b (S i) t | None => inr (4, i) end
          else inr (4, i)
      | ECancel r => match step s (LCancel r) with Some s1 => replay s1 b (S i) t | None => inr (4, i) end
      end
  end.

(** at the end of a log taken at quiescence the only tasks the model may still hold are runs that return
    silently because their rerunner's context is cancelled *)
Definition leftover_ok (s : state) : bool :=
  forallb (fun t => match snd t with
                    | FRunWait r :: rest => r_cancel (getr s r) && is_nil (norm rest)
                    | _ => false
                    end) (s_tasks s).

Record case := mk_case {
  c_slots  : nat;
  c_progs  : list (list op * bool);
  c_events : list event;
  c_outs   : list (option (list (nat * nat)));   (* last value each rerunner's compute function returned and published *)
  c_vers   : list nat                             (* final version of each slot *)
}.

Fixpoint outs_eqb (a : list rr) (b : list (option (list (nat * nat)))) : bool :=
  match a, b with
  | [], [] => true
  | x :: s, y :: t =>
      match r_out x, y with
      | Some u, Some v => val_meqb u v
      | None, None => true
      | _, _ => false
      end && outs_eqb s t
  | _, _ => false
  end.

(** component codes of a mismatch: [code; event index] for replay failures (codes 1-4),
    [5] the model still has work to do at the end of a log taken at quiescence,
    [6] final outputs / versions differ. *)
Definition check_case (c : case) : list nat :=
  match replay (init (c_slots c) (c_progs c)) [] 0 (c_events c) with
  | inr (code, i) => [code; i]
  | inl s =>
      (if leftover_ok s then [] else [5]) ++
      (if outs_eqb (s_rrs s) (c_outs c) && list_nat_eqb (map fst (s_slots s)) (c_vers c) then [] else [6])
  end.

Fixpoint mismatches_from_sparse (_ : nat) (cs : list (nat * case)) : list (nat * list nat) :=
  match cs with
  | [] => []
  | (i, c) :: t => match check_case c with
                   | [] => mismatches_from_sparse 0 t
                   | l => (i, l) :: mismatches_from_sparse 0 t
                   end
  end.
