(** * Reactive/Graph.v — executable model of reactive/graph.go (nodes, edges, flags, handlers)

    Only definitions (the model must keep running when a proof breaks).  One function per
    critical section of graph.go; the task/continuation structure that sequences them lives in
    Reactive/Rerunner.v.

    graph.go:38-49   node            -> [node]
    graph.go:60-72   strobe          -> snapshot [n_out] (frame FStrobe in Rerunner.v)
    graph.go:75-104  invalidate      -> [g_inv_mark]
    graph.go:106-138 release         -> [g_rel_mark], [g_rel_dep]
    graph.go:141-174 addOut          -> [g_add_out]
    graph.go:176-187 handleInvalidate-> [g_handle_inv]
    graph.go:189-200 handleRelease   -> [g_handle_rel] (for harness-made resources merged into allocation, [new_res]) *)
From Coq Require Import List Arith Bool.
Import ListNotations.

(** afterRelease handlers that exist in the harness world: the Cleanup callback of a slot's
    resource (re-creates the slot's resource) and the [timer.Stop] of InvalidateAfter. *)
Inductive relh := HSlot (slot : nat) | HTimer.

Record node := mkNode {
  n_ins   : list nat;          (* node.in: dependencies, append-only, duplicates possible *)
  n_out   : list nat;          (* node.out: dependants, a set *)
  n_inv   : bool;              (* node.invalidated *)
  n_rel   : bool;              (* node.released *)
  n_hinv  : option nat;        (* afterInvalidate = rerun closure of rerunner r *)
  n_hrel  : option relh;       (* afterRelease *)
  n_cln   : nat;               (* ghost: how many times the afterRelease callback ran *)
  n_had   : bool;              (* ghost: received at least one addOut call as the dependency *)
  n_val   : list (nat * nat);  (* computation.value: (slot, version) pairs read, cached children included *)
  n_timer : nat                (* 0: not a timer resource; 1: InvalidateAfter timer not fired; 2: fired *)
}.

Definition dnode : node := mkNode [] [] false false None None 0 false [] 0.

Definition graph := list node.

Definition getn (g : graph) (i : nat) : node := nth i g dnode.

Fixpoint setn (g : graph) (i : nat) (x : node) : graph :=
  match g, i with
  | [], _ => []
  | _ :: t, 0 => x :: t
  | h :: t, S j => h :: setn t j x
  end.

Definition memb (x : nat) (l : list nat) : bool := existsb (Nat.eqb x) l.

Fixpoint remove1 (x : nat) (l : list nat) : list nat :=
  match l with
  | [] => []
  | h :: t => if Nat.eqb x h then t else h :: remove1 x t
  end.

Fixpoint remove_all (x : nat) (l : list nat) : list nat :=
  match l with
  | [] => []
  | h :: t => if Nat.eqb x h then remove_all x t else h :: remove_all x t
  end.

Definition add_set (x : nat) (l : list nat) : list nat := if memb x l then l else l ++ [x].

Definition is_nil {A} (l : list A) : bool := match l with [] => true | _ => false end.

(* field updates *)
Definition set_inv (x : node) : node :=
  mkNode (n_ins x) (n_out x) true (n_rel x) (n_hinv x) (n_hrel x) (n_cln x) (n_had x) (n_val x) (n_timer x).
Definition set_rel (x : node) : node :=
  mkNode (n_ins x) (n_out x) (n_inv x) true (n_hinv x) (n_hrel x) (n_cln x) (n_had x) (n_val x) (n_timer x).
Definition set_out (x : node) (o : list nat) : node :=
  mkNode (n_ins x) o (n_inv x) (n_rel x) (n_hinv x) (n_hrel x) (n_cln x) (n_had x) (n_val x) (n_timer x).
Definition set_out_had (x : node) (o : list nat) : node :=
  mkNode (n_ins x) o (n_inv x) (n_rel x) (n_hinv x) (n_hrel x) (n_cln x) true (n_val x) (n_timer x).
Definition add_in (x : node) (i : nat) : node :=
  mkNode (n_ins x ++ [i]) (n_out x) (n_inv x) (n_rel x) (n_hinv x) (n_hrel x) (n_cln x) (n_had x) (n_val x) (n_timer x).
Definition set_hinv (x : node) (r : nat) : node :=
  mkNode (n_ins x) (n_out x) (n_inv x) (n_rel x) (Some r) (n_hrel x) (n_cln x) (n_had x) (n_val x) (n_timer x).
Definition set_hrel (x : node) (h : relh) : node :=
  mkNode (n_ins x) (n_out x) (n_inv x) (n_rel x) (n_hinv x) (Some h) (n_cln x) (n_had x) (n_val x) (n_timer x).
Definition inc_cln (x : node) : node :=
  mkNode (n_ins x) (n_out x) (n_inv x) (n_rel x) (n_hinv x) (n_hrel x) (S (n_cln x)) (n_had x) (n_val x) (n_timer x).
Definition add_val (x : node) (v : list (nat * nat)) : node :=
  mkNode (n_ins x) (n_out x) (n_inv x) (n_rel x) (n_hinv x) (n_hrel x) (n_cln x) (n_had x) (n_val x ++ v) (n_timer x).
Definition set_timer (x : node) (t : nat) : node :=
  mkNode (n_ins x) (n_out x) (n_inv x) (n_rel x) (n_hinv x) (n_hrel x) (n_cln x) (n_had x) (n_val x) t.

(** fresh nodes *)
Definition new_comp : node := dnode.
(* NewResource + Cleanup(f) on the fresh, unshared node (handleRelease's critical section cannot be
   contended and the node is not released: it stores the handler) *)
Definition new_res (h : relh) (timer : nat) : node := mkNode [] [] false false None (Some h) 0 false [] timer.

(* the fresh Resource of InvalidateAfter (util.go:11-12): the timer is armed before Cleanup is called *)
Definition new_timer : node := mkNode [] [] false false None None 0 false [] 1.

(** graph.go:189-200 handleRelease: the callback runs at once (go f()) if the node is released already *)
Definition g_handle_rel (g : graph) (n : nat) (h : relh) : graph * bool :=
  if n_rel (getn g n) then (setn g n (inc_cln (set_hrel (getn g n) h)), true) else (setn g n (set_hrel (getn g n) h), false).

(** graph.go:77-94, the critical section of [invalidate] on a node that is not yet invalid. *)
Definition g_inv_mark (g : graph) (n : nat) : graph := setn g n (set_inv (getn g n)).

(** graph.go:110-117 *)
Definition g_rel_mark (g : graph) (n : nat) : graph := setn g n (set_rel (getn g n)).

(** graph.go:127-130: delete n from from.out; shouldRelease := len(from.out) == 0 *)
Definition g_rel_dep (g : graph) (from n : nat) : graph * bool :=
  let o := remove_all n (n_out (getn g from)) in
  (setn g from (set_out (getn g from) o), is_nil o).

(** graph.go:144-166: the two-lock critical section of addOut.
    Returns the graph and (linked, shouldInvalidate, shouldRelease). *)
Definition g_add_out (g : graph) (n to : nat) : graph * (bool * bool * bool) :=
  let nn := getn g n in
  let tn := getn g to in
  let linked := negb (n_rel tn) in
  let o := if linked then add_set to (n_out nn) else n_out nn in
  let g1 := setn g n (set_out_had nn o) in
  let g2 := if linked then setn g1 to (add_in (getn g1 to) n) else g1 in
  (g2, (linked, n_inv nn && negb (n_inv tn), is_nil o)).

(** addOut n to where [to] is a node that is released already and known to nobody else: the placeholder
    [&node{released: true}] of AddDependency outside a rerunner (rerunner.go:201-204).  Nothing is linked;
    returns the graph and (shouldInvalidate, shouldRelease).  The placeholder is valid, so it is "invalidated"
    when n is invalid. *)
Definition g_add_out_released (g : graph) (n : nat) : graph * (bool * bool) :=
  let nn := getn g n in
  (setn g n (set_out_had nn (n_out nn)), (n_inv nn, is_nil (n_out nn))).

(** graph.go:177-186 *)
Definition g_handle_inv (g : graph) (n r : nat) : graph * bool :=
  if n_inv (getn g n) then (g, true) else (setn g n (set_hinv (getn g n) r), false).
