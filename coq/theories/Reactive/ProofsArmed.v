(** * Reactive/ProofsArmed.v — the Armed invariant of DESIGN.md A.3: if the published computation of a rerunner
    is invalid then a task that will run it again exists, unless the rerunner was stopped or failed; with
    [released -> invalidated] and the facts about Stop that it needs. *)
From Coq Require Import List Arith Bool Lia Permutation.
From Thunder Require Import Reactive.Graph Reactive.Rerunner Reactive.ProofsBase Reactive.ProofsMutex.
Import ListNotations.

(** a frame of a run of rerunner r that has not given up: it will publish a new computation and arm it, or
    fail, or find the context cancelled *)
Definition runish (r : nat) (f : frame) : bool :=
  match f with
  | FRunWait r' | FRunLock r' | FCleanStart r' | FClean r' _ | FBegin r' | FRunEnd r' _ | FArm r' _ => Nat.eqb r r'
  | _ => false
  end.

Definition fr_ok (g : graph) (rrs : list rr) (f : frame) : Prop :=
  match f with
  | FRelMark n | FRelDeps n _ | FCleanup n _ => n_inv (getn g n) = true
  | FRunEnd _ c => c < length g
  | FArm r c => c < length g /\ (r < length rrs -> r_comp (nth r rrs drr) = Some c)
  | FStop r true => r < length rrs -> r_cancel (nth r rrs drr) = true
  | _ => True
  end.

Definition armed_rr (g : graph) (fr : list frame) (r : nat) (x : rr) : Prop :=
  (r_stop x = true -> r_cancel x = true) /\
  (r_cancel x = false -> r_failed x = false ->
     match r_comp x with
     | Some c => (n_hinv (getn g c) = Some r /\ n_inv (getn g c) = false) \/ 0 < count (runish r) fr
     | None => 0 < count (runish r) fr
     end).

Definition armed_on (g : graph) (rrs : list rr) (fr : list frame) : Prop :=
  (forall n, n_rel (getn g n) = true -> n_inv (getn g n) = true) /\
  (forall f, In f fr -> fr_ok g rrs f) /\
  (forall r, r < length rrs -> armed_rr g fr r (nth r rrs drr)).

Definition armed_inv (s : state) : Prop := armed_on (s_nodes s) (s_rrs s) (all_frames s).

Lemma armed_on_perm : forall g rrs a b, Permutation a b -> armed_on g rrs a -> armed_on g rrs b.
Proof.
  intros g rrs a b P [A [B C]]. split; [exact A|]. split.
  - intros f Hf. apply B. eapply Permutation_in; [apply Permutation_sym; exact P | exact Hf].
  - intros r Hr. destruct (C r Hr) as [C1 C2]. split; [exact C1|]. rewrite <- (count_perm (runish r) _ _ P). exact C2.
Qed.

(** graphs that agree on invalidated / afterInvalidate / released *)
Definition same_ihr (g g' : graph) : Prop :=
  forall n, n_inv (getn g' n) = n_inv (getn g n) /\ n_hinv (getn g' n) = n_hinv (getn g n) /\
            n_rel (getn g' n) = n_rel (getn g n).

Lemma same_ihr_refl : forall g, same_ihr g g.
Proof. intros g n. repeat split. Qed.
Lemma same_ihr_trans : forall a b c, same_ihr a b -> same_ihr b c -> same_ihr a c.
Proof. intros a b c H1 H2 n. destruct (H1 n) as [A1 [A2 A3]], (H2 n) as [B1 [B2 B3]]. repeat split; congruence. Qed.
Lemma same_ihr_setn : forall g i x,
  n_inv x = n_inv (getn g i) -> n_hinv x = n_hinv (getn g i) -> n_rel x = n_rel (getn g i) -> same_ihr g (setn g i x).
Proof.
  intros g i x H1 H2 H3 n. rewrite getn_setn.
  destruct (Nat.eqb i n && Nat.ltb i (length g)) eqn:E; [|repeat split].
  apply andb_true_iff in E. destruct E as [E _]. apply Nat.eqb_eq in E. subst. repeat split; assumption.
Qed.
Lemma same_ihr_alloc : forall g x, n_inv x = false -> n_hinv x = None -> n_rel x = false -> same_ihr g (g ++ [x]).
Proof.
  intros g x H1 H2 H3 n. rewrite getn_app_new. destruct (Nat.eqb n (length g)) eqn:E; [|repeat split].
  apply Nat.eqb_eq in E. subst. rewrite getn_out_of_range by lia. repeat split; assumption.
Qed.

Ltac same_ihr_tac :=
  first
    [ apply same_ihr_refl
    | apply same_ihr_setn; reflexivity
    | apply same_ihr_alloc; reflexivity
    | eapply same_ihr_trans;
      [ | first [apply same_ihr_setn; reflexivity | apply same_ihr_alloc; reflexivity] ]; same_ihr_tac ].

(** rerunner records that agree on stop and computation, and whose cancel / failed flags are unchanged or newly set *)
Definition same_rr (x y : rr) : Prop :=
  r_stop y = r_stop x /\ r_comp y = r_comp x /\
  (r_cancel y = r_cancel x \/ r_cancel y = true) /\ (r_failed y = r_failed x \/ r_failed y = true).

Definition same_rrs (rrs rrs' : list rr) : Prop :=
  length rrs' = length rrs /\ forall r, same_rr (nth r rrs drr) (nth r rrs' drr).

Lemma same_rr_refl : forall x, same_rr x x.
Proof. intros. repeat split; left; reflexivity. Qed.

Lemma same_rrs_refl : forall rrs, same_rrs rrs rrs.
Proof. intros. split; [reflexivity|]. intros r. apply same_rr_refl. Qed.

Lemma same_rrs_setl : forall rrs r0 y, same_rr (nth r0 rrs drr) y -> same_rrs rrs (setl rrs r0 y).
Proof.
  intros rrs r0 y S. split; [apply length_setl|]. intros r. rewrite nth_setl.
  destruct (Nat.eqb r0 r && Nat.ltb r0 (length rrs)) eqn:E; [|apply same_rr_refl].
  apply andb_true_iff in E. destruct E as [E _]. apply Nat.eqb_eq in E. subst. exact S.
Qed.

Lemma fr_ok_transfer : forall g g' rrs rrs' f,
  same_ihr g g' -> length g <= length g' -> same_rrs rrs rrs' -> fr_ok g rrs f -> fr_ok g' rrs' f.
Proof.
  intros g g' rrs rrs' f S Lg [L R] H. destruct f; simpl in *; auto;
    try (destruct (S n) as [S1 _]; rewrite S1; exact H).
  - lia.
  - destruct H as [H1 H2]. split; [lia|]. intros Hr. rewrite L in Hr. destruct (R r) as [_ [R2 _]]. rewrite R2. apply H2. exact Hr.
  - destruct cancelled; auto. intros Hr. rewrite L in Hr. destruct (R r) as [_ [_ [[R3|R3] _]]]; [rewrite R3; apply H; exact Hr | exact R3].
Qed.

(** the work-horse: nothing the invariant reads changes (flags that exempt a rerunner may get set), old frames
    are kept or new ones are fine, and no run frame of a rerunner that is still obliged disappears *)
Lemma armed_transfer : forall g g' rrs rrs' fr fr',
  same_ihr g g' -> length g <= length g' -> same_rrs rrs rrs' ->
  (forall f, In f fr' -> In f fr \/ fr_ok g' rrs' f) ->
  (forall r, r < length rrs -> r_cancel (nth r rrs' drr) = false -> r_failed (nth r rrs' drr) = false ->
             count (runish r) fr <= count (runish r) fr') ->
  armed_on g rrs fr -> armed_on g' rrs' fr'.
Proof.
  intros g g' rrs rrs' fr fr' S Lg R Hf Hc [A [B C]]. split; [|split].
  - intros n Hn. destruct (S n) as [S1 [_ S3]]. rewrite S1. apply A. rewrite <- S3. exact Hn.
  - intros f Hin. destruct (Hf f Hin) as [K|K]; [|exact K]. eapply fr_ok_transfer; eauto.
  - destruct R as [L R]. intros r Hr. rewrite L in Hr. destruct (C r Hr) as [C1 C2].
    destruct (R r) as [R1 [R2 [R3 R4]]]. unfold armed_rr. rewrite R1, R2. split.
    + intros St. destruct R3 as [R3|R3]; [rewrite R3; apply C1; exact St | exact R3].
    + intros X1 X2. specialize (Hc r Hr X1 X2).
      assert (Y1 : r_cancel (nth r rrs drr) = false) by (destruct R3 as [R3|R3]; congruence).
      assert (Y2 : r_failed (nth r rrs drr) = false) by (destruct R4 as [R4|R4]; congruence).
      specialize (C2 Y1 Y2).
      destruct (r_comp (nth r rrs drr)) as [c|]; [|lia].
      destruct (S c) as [S1 [S2 _]]. rewrite S1, S2. destruct C2 as [K|K]; [left; exact K | right; lia].
Qed.

Lemma do_fail_armed : forall s r stk retry s1 st sp others F0,
  do_fail s r stk retry = Some (s1, st, sp) ->
  (forall f, In f (stk ++ others) -> In f F0 \/ (forall g rrs, fr_ok g rrs f)) ->
  (forall r', count (runish r') F0 <= count (runish r') (stk ++ others)) ->
  armed_on (s_nodes s) (s_rrs s) F0 -> armed_on (s_nodes s1) (s_rrs s1) (st ++ others ++ concat sp).
Proof.
  intros s r stk retry s1 st sp others F0 H Hf Hc Inv.
  destruct (do_fail_spec _ _ _ _ _ _ _ H) as [cs [ks [below [term [y [U [N [Sl [R [Y1 [Y2 [Y3 [Y4 [Y5 [Y6 [Y7 [Y8 T]]]]]]]]]]]]]]]]].
  destruct (unwind_split _ _ _ _ _ _ U) as [d [l [E [Fd [L _]]]]].
  assert (Dr : forall r', count (runish r') d = 0) by (intros r'; apply (count_zero_forall _ unw_kind); [intros f Hf'; destruct f; simpl in *; try discriminate; reflexivity | exact Fd]).
  assert (RC : forall r' cs0, count (runish r') (concat (map (fun c0 => [FRelEnter c0]) cs0)) = 0).
  { intros r' cs0. induction cs0 as [|h t IH]; simpl; [reflexivity | exact IH]. }
  assert (RI : forall f cs0, In f (concat (map (fun c0 => [FRelEnter c0]) cs0)) -> exists x, f = FRelEnter x).
  { intros f cs0. induction cs0 as [|h t IH]; simpl; [intros []|]. intros [<-|Hf']; [eexists; reflexivity | apply IH; exact Hf']. }
  assert (Sub : forall f, In f below -> In f stk) by (intros f Hf'; rewrite E; apply in_app_iff; right; right; exact Hf').
  rewrite N, R.
  assert (Fa : r_failed y = r_failed (getr s r) \/ r_failed y = true).
  { destruct term; [destruct T as [_ [_ [_ [Q _]]]]; left; exact Q | destruct T as [_ [_ [[_ [_ [_ Q]]]|[_ [_ [_ Q]]]]]]; [left | right]; exact Q]. }
  eapply armed_transfer; [apply same_ihr_refl | lia | apply same_rrs_setl | | | exact Inv].
  - unfold getr in *. repeat split; [congruence | congruence | left; congruence | destruct Fa as [Q|Q]; [left | right]; congruence].
  - intros f Hin. rewrite !in_app_iff in Hin. destruct Hin as [Hin|[Hin|Hin]].
    + destruct term as [jid|]; [destruct T as [-> _] | destruct T as [-> _]]; simpl in Hin;
        (destruct Hin as [<-|Hin]; [right; exact I | destruct (Hf f) as [Q|Q]; [apply in_app_iff; left; apply Sub; exact Hin | left; exact Q | right; apply Q]]).
    + destruct (Hf f) as [Q|Q]; [apply in_app_iff; right; exact Hin | left; exact Q | right; apply Q].
    + right. destruct term as [jid|].
      * destruct T as [_ [-> _]]. destruct (RI _ _ Hin) as [x ->]. exact I.
      * destruct T as [_ [_ [[_ [-> _]]|[_ [-> _]]]]].
        -- rewrite concat_app in Hin. apply in_app_iff in Hin. destruct Hin as [Hin|[<-|[]]]; [destruct (RI _ _ Hin) as [x ->]; exact I | exact I].
        -- destruct (RI _ _ Hin) as [x ->]. exact I.
  - intros r' Hr' X1 X2. specialize (Hc r'). rewrite E in Hc. rewrite ?count_app in Hc. simpl in Hc. rewrite ?count_app, Dr in Hc.
    rewrite ?count_app.
    destruct term as [jid|]; simpl in L.
    + subst l. destruct T as [-> [-> _]]. simpl in *. rewrite RC. lia.
    + destruct L as [c ->]. simpl in Hc.
      destruct T as [-> [_ [[_ [-> _]]|[_ [-> [_ Q]]]]]]; simpl; rewrite ?concat_app, ?count_app, RC; simpl.
      * destruct (Nat.eqb r' r); lia.
      * destruct (Nat.eqb r' r) eqn:Er; [|lia]. apply Nat.eqb_eq in Er. subst r'. exfalso.
        rewrite nth_setl, Nat.eqb_refl in X2. apply Nat.ltb_lt in Hr'. rewrite Hr' in X2. simpl in X2. congruence.
Qed.

Lemma do_add_out_armed : forall s n to s1 sp,
  do_add_out s n to = Some (s1, sp) ->
  same_ihr (s_nodes s) (s_nodes s1) /\ s_rrs s1 = s_rrs s /\
  (forall f, In f (concat sp) -> exists x, f = FInvList [x] \/ f = FRelEnter x).
Proof.
  intros s n to s1 sp H. unfold do_add_out in H.
  destruct (Nat.ltb n (length (s_nodes s)) && Nat.ltb to (length (s_nodes s)) && negb (Nat.eqb n to)) eqn:G; [|discriminate].
  destruct (g_add_out (s_nodes s) n to) as [g [[linked shinv] shrel]] eqn:A.
  inversion H; subst; clear H. simpl. split; [|split; [reflexivity|]].
  - unfold g_add_out in A. destruct (negb (n_rel (getn (s_nodes s) to))); inversion A; subst; clear A; simpl; same_ihr_tac.
  - intros f Hf. destruct shinv, shrel; simpl in Hf; repeat (destruct Hf as [<-|Hf]; [eexists; eauto|]); contradiction.
Qed.

Ltac cnt3 := simpl; rewrite ?count_app; simpl; rewrite ?Nat.eqb_refl; try lia.

(* frames kept / harmless new frames *)
Ltac frames_ok :=
  let f := fresh "f" in let Hf := fresh "Hf" in
  intros f Hf; simpl in Hf; rewrite ?in_app_iff in Hf; simpl in Hf;
  repeat match goal with
  | H : _ \/ _ |- _ => destruct H as [H|H]
  | H : False |- _ => contradiction
  end;
  try (left; simpl; rewrite ?in_app_iff; tauto);
  try (subst f; right; simpl; auto; fail).

Ltac len_tac := simpl; rewrite ?app_length, ?length_setn; simpl; lia.

Ltac armed_leaf Inv :=
  eapply armed_transfer; [ | | | | | exact Inv];
  [ unfold getN; same_ihr_tac
  | len_tac
  | first [apply same_rrs_refl | apply same_rrs_setl; repeat split; left; reflexivity]
  | frames_ok
  | intros r' _ _ _; cnt3 ].

Lemma fr_ok_unmark : forall g rrs n f,
  n_inv (getn g n) = true -> fr_ok (g_inv_mark g n) rrs f -> fr_ok g rrs f.
Proof.
  intros g rrs n f Hn H. unfold g_inv_mark in H.
  assert (E : forall m, n_inv (getn (setn g n (set_inv (getn g n))) m) = true -> n_inv (getn g m) = true).
  { intros m Hm. rewrite getn_setn in Hm. destruct (Nat.eqb n m && Nat.ltb n (length g)) eqn:Q; [|exact Hm].
    apply andb_true_iff in Q. destruct Q as [Q _]. apply Nat.eqb_eq in Q. subst m. exact Hn. }
  destruct f; simpl in *; rewrite ?length_setn in H; auto.
Qed.

(** the critical section of invalidate *)
Lemma inv_step_armed : forall s n k s1 st sp others F0,
  inv_step s n k = Some (s1, st, sp) ->
  (forall f, In f (k ++ others) -> In f F0 \/ fr_ok (g_inv_mark (s_nodes s) n) (s_rrs s) f) ->
  (forall r, count (runish r) F0 <= count (runish r) (k ++ others)) ->
  armed_on (s_nodes s) (s_rrs s) F0 ->
  armed_on (s_nodes s1) (s_rrs s1) (st ++ others ++ concat sp).
Proof.
  intros s n k s1 st sp others F0 H Hk Hc Inv. unfold inv_step in H.
  destruct (Nat.ltb n (length (s_nodes s))) eqn:G; [|discriminate]. apply Nat.ltb_lt in G.
  assert (Mono : forall x, n_inv (getn (s_nodes s) x) = true -> n_inv (getn (g_inv_mark (s_nodes s) n) x) = true).
  { intros x Hx. unfold g_inv_mark. rewrite getn_setn. destruct (Nat.eqb n x && Nat.ltb n (length (s_nodes s))); [reflexivity | exact Hx]. }
  assert (Oth : forall x, x <> n -> getn (g_inv_mark (s_nodes s) n) x = getn (s_nodes s) x).
  { intros x Hx. unfold g_inv_mark. apply getn_setn_neq. congruence. }
  assert (Self : getn (g_inv_mark (s_nodes s) n) n = set_inv (getn (s_nodes s) n)).
  { unfold g_inv_mark. apply getn_setn_eq. exact G. }
  assert (FrMono : forall f, fr_ok (s_nodes s) (s_rrs s) f -> fr_ok (g_inv_mark (s_nodes s) n) (s_rrs s) f).
  { intros f Hf. destruct f; simpl in *; auto; unfold g_inv_mark; rewrite ?length_setn; auto. }
  destruct (n_inv (getN s n)) eqn:Ia.
  - injection H as E1 E2 E3. subst s1 st sp. simpl. rewrite app_nil_r.
    destruct Inv as [A [B C]]. split; [exact A|]. split.
    + intros f Hf. destruct (Hk f Hf) as [K|K]; [apply B; exact K|]. eapply fr_ok_unmark; [exact Ia | exact K].
    + intros r Hr. destruct (C r Hr) as [C1 C2]. split; [exact C1|]. intros X1 X2. specialize (C2 X1 X2). specialize (Hc r).
      destruct (r_comp (nth r (s_rrs s) drr)); [destruct C2 as [K|K]; [left; exact K | right; lia] | lia].
  - (* n becomes invalid; its handler, if any, starts a run *)
    assert (K : forall sp' pre,
              (forall r, n_hinv (getN s n) = Some r -> 0 < count (runish r) (pre ++ concat sp')) ->
              (forall f, In f pre -> exists r, f = FRunWait r) ->
              (forall f, In f (concat sp') -> exists r, f = FRunWait r) ->
              armed_on (g_inv_mark (s_nodes s) n) (s_rrs s) ((pre ++ FInvList (n_out (getN s n)) :: k) ++ others ++ concat sp')).
    { intros sp' pre Hh Hpre Hsp. destruct Inv as [A [B C]]. split; [|split].
      - intros x Hx. destruct (Nat.eq_dec x n) as [->|Nx]; [rewrite Self; reflexivity|].
        rewrite Oth in * by exact Nx. apply A. exact Hx.
      - intros f Hf. rewrite <- app_assoc in Hf. simpl in Hf. rewrite ?in_app_iff in Hf. simpl in Hf. rewrite ?in_app_iff in Hf.
        assert (Kk : In f (k ++ others) -> fr_ok (g_inv_mark (s_nodes s) n) (s_rrs s) f)
          by (intros Q; destruct (Hk f Q) as [Z|Z]; [apply FrMono, B; exact Z | exact Z]).
        repeat (destruct Hf as [Hf|Hf]);
          try (destruct (Hpre f Hf) as [r0 ->]; exact I);
          try (destruct (Hsp f Hf) as [r0 ->]; exact I);
          try (subst f; exact I);
          try (apply Kk; apply in_app_iff; tauto).
      - intros r Hr. destruct (C r Hr) as [C1 C2]. split; [exact C1|]. intros X1 X2. specialize (C2 X1 X2). specialize (Hc r).
        assert (Cnt : count (runish r) F0 + count (runish r) (pre ++ concat sp') <=
                      count (runish r) ((pre ++ FInvList (n_out (getN s n)) :: k) ++ others ++ concat sp')).
        { rewrite ?count_app in *. simpl. rewrite ?count_app in *. simpl. lia. }
        destruct (r_comp (nth r (s_rrs s) drr)) as [c|]; [|lia].
        destruct C2 as [[Q1 Q2]|Q]; [|right; lia].
        destruct (Nat.eq_dec c n) as [->|Nc].
        + right. specialize (Hh r Q1). lia.
        + left. rewrite Oth by exact Nc. split; assumption. }
    destruct (n_hinv (getN s n)) as [r|] eqn:Hn.
    + destruct (r_spawn (getr s r)); inversion H; subst; clear H.
      * specialize (K [[FRunWait r]] []). simpl in K. apply K.
        -- intros r0 E. inversion E; subst. rewrite Nat.eqb_refl. lia.
        -- intros f [].
        -- intros f [<-|[]]. eexists; reflexivity.
      * specialize (K [] [FRunWait r]). simpl in K. rewrite app_nil_r in K. simpl. rewrite app_nil_r. apply K.
        -- intros r0 E. inversion E; subst. rewrite Nat.eqb_refl. lia.
        -- intros f [<-|[]]. eexists; reflexivity.
        -- intros f [].
    + inversion H; subst; clear H. specialize (K [] []). simpl in K. rewrite app_nil_r in K. simpl. rewrite app_nil_r. apply K.
      * intros r0 E. discriminate.
      * intros f [].
      * intros f [].
Qed.

Lemma inv_step_guard : forall s n k s1 st sp, inv_step s n k = Some (s1, st, sp) -> n < length (s_nodes s).
Proof.
  intros s n k s1 st sp H. unfold inv_step in H.
  destruct (Nat.ltb n (length (s_nodes s))) eqn:G; [apply Nat.ltb_lt; exact G | discriminate].
Qed.

Lemma anchor_zero_no_arm : forall r fr, count (anchor r) fr = 0 -> forall c, ~ In (FArm r c) fr.
Proof.
  intros r fr H c Hin. assert (K := count_zero_not_in _ _ _ H Hin). simpl in K. rewrite Nat.eqb_refl in K. discriminate.
Qed.

Lemma do_add_out_edge_len : forall s n to s1 sp, do_add_out s n to = Some (s1, sp) -> length (s_nodes s1) = length (s_nodes s).
Proof.
  intros s n to s1 sp H. unfold do_add_out in H.
  destruct (Nat.ltb n (length (s_nodes s)) && Nat.ltb to (length (s_nodes s)) && negb (Nat.eqb n to)); [|discriminate].
  destruct (g_add_out (s_nodes s) n to) as [g [[a b0] c0]] eqn:A. inversion H; subst; clear H. simpl.
  unfold g_add_out in A. destruct (negb (n_rel (getn (s_nodes s) to))); inversion A; subst; rewrite ?length_setn; reflexivity.
Qed.

Lemma step_top_armed : forall s f rest arg s1 st sp others,
  step_top s f rest arg = Some (s1, st, sp) ->
  mutex_on (s_rrs s) (f :: rest ++ others) ->
  armed_on (s_nodes s) (s_rrs s) (f :: rest ++ others) ->
  armed_on (s_nodes s1) (s_rrs s1) (st ++ others ++ concat sp).
Proof.
  intros s f rest arg s1 st sp others H Mx Inv.
  unfold step_top in H.
  destruct f; cbv beta iota zeta in H.
  - (* FInvList *)
    destruct (memb arg l); [|discriminate].
    eapply inv_step_armed; [exact H | | | exact Inv].
    + intros f Hf. simpl in Hf. destruct Hf as [<-|Hf]; [right; exact I | left; right; exact Hf].
    + intros r'. cnt3.
  - (* FStrobe *) inversion H; subst; clear H. armed_leaf Inv.
  - (* FRelEnter *)
    assert (G := inv_step_guard _ _ _ _ _ _ H).
    eapply inv_step_armed; [exact H | | | exact Inv].
    + intros f Hf. simpl in Hf. destruct Hf as [<-|Hf]; [right | left; right; exact Hf].
      simpl. unfold g_inv_mark. rewrite getn_setn_eq by exact G. reflexivity.
    + intros r'. cnt3.
  - (* FRelMark *)
    destruct (n_rel (getN s n)) eqn:Rl; [inversion H; subst; clear H; armed_leaf Inv|].
    assert (In_n : n_inv (getn (s_nodes s) n) = true).
    { destruct Inv as [_ [B _]]. apply (B (FRelMark n)). left. reflexivity. }
    assert (K : forall g' fr',
              (forall x, n_inv (getn g' x) = n_inv (getn (s_nodes s) x) /\ n_hinv (getn g' x) = n_hinv (getn (s_nodes s) x)) ->
              (forall x, x <> n -> n_rel (getn g' x) = n_rel (getn (s_nodes s) x)) ->
              length (s_nodes s) <= length g' ->
              (forall f, In f fr' -> In f (rest ++ others) \/ fr_ok g' (s_rrs s) f) ->
              (forall r, count (runish r) (rest ++ others) <= count (runish r) fr') ->
              armed_on g' (s_rrs s) fr').
    { intros g' fr' S1 S2 Lg Hf Hc. destruct Inv as [A [B C]]. split; [|split].
      - intros x Hx. destruct (S1 x) as [E1 _]. rewrite E1. destruct (Nat.eq_dec x n) as [->|Nx]; [exact In_n|].
        apply A. rewrite <- (S2 x Nx). exact Hx.
      - intros f Hin. destruct (Hf f Hin) as [Q|Q]; [|exact Q].
        assert (Q' := B f (or_intror Q)).
        destruct f; simpl in *; auto; try (destruct (S1 n0) as [E1 _]; rewrite E1; exact Q'); try lia.
        destruct Q' as [Q1 Q2]. split; [lia | exact Q2].
      - intros r Hr. destruct (C r Hr) as [C1 C2]. split; [exact C1|]. intros X1 X2. specialize (C2 X1 X2). specialize (Hc r).
        simpl in C2.
        destruct (r_comp (nth r (s_rrs s) drr)) as [c|]; [|lia].
        destruct (S1 c) as [E1 E2]. rewrite E1, E2. destruct C2 as [Q|Q]; [left; exact Q | right; lia]. }
    assert (Sm : forall x, n_inv (getn (g_rel_mark (s_nodes s) n) x) = n_inv (getn (s_nodes s) x) /\
                           n_hinv (getn (g_rel_mark (s_nodes s) n) x) = n_hinv (getn (s_nodes s) x)).
    { intros x. unfold g_rel_mark. rewrite getn_setn. destruct (Nat.eqb n x && Nat.ltb n (length (s_nodes s))) eqn:E; [|split; reflexivity].
      apply andb_true_iff in E. destruct E as [E _]. apply Nat.eqb_eq in E. subst x. split; reflexivity. }
    assert (Sr : forall x, x <> n -> n_rel (getn (g_rel_mark (s_nodes s) n) x) = n_rel (getn (s_nodes s) x)).
    { intros x Nx. unfold g_rel_mark. rewrite getn_setn_neq by congruence. reflexivity. }
    destruct (n_hrel (getN s n)) as [[sl|]|] eqn:Hr; inversion H; subst; clear H; simpl.
    + apply K; auto.
      * unfold g_rel_mark. rewrite length_setn. lia.
      * intros f Hf. simpl in Hf. destruct Hf as [<-|[<-|Hf]]; [right | right | left; rewrite app_nil_r in Hf; exact Hf];
          simpl; destruct (Sm n) as [E _]; rewrite E; exact In_n.
      * intros r'. cnt3.
    + apply K.
      * intros x. unfold getN. simpl. rewrite getn_setn.
        destruct (Nat.eqb n x && Nat.ltb n (length (g_rel_mark (s_nodes s) n))) eqn:E; [|apply Sm].
        apply andb_true_iff in E. destruct E as [E _]. apply Nat.eqb_eq in E. subst x. simpl. apply Sm.
      * intros x Nx. unfold getN. simpl. rewrite getn_setn_neq by congruence. apply Sr. exact Nx.
      * rewrite length_setn. unfold g_rel_mark. rewrite length_setn. lia.
      * intros f Hf. simpl in Hf. destruct Hf as [<-|Hf]; [right | left; rewrite app_nil_r in Hf; exact Hf].
        simpl. unfold getN. simpl. rewrite getn_setn.
        destruct (Nat.eqb n n && Nat.ltb n (length (g_rel_mark (s_nodes s) n))); simpl; destruct (Sm n) as [E _]; rewrite E; exact In_n.
      * intros r'. cnt3.
    + apply K; auto.
      * unfold g_rel_mark. rewrite length_setn. lia.
      * intros f Hf. simpl in Hf. destruct Hf as [<-|Hf]; [right | left; rewrite app_nil_r in Hf; exact Hf].
        simpl; destruct (Sm n) as [E _]; rewrite E; exact In_n.
      * intros r'. cnt3.
  - (* FCleanup *)
    destruct (Nat.eqb (slot_res (upd_node s n (inc_cln (getN s n))) slot) n);
      unfold alloc in H; inversion H; subst; clear H; simpl; armed_leaf Inv.
  - (* FRelDeps *)
    destruct froms as [|from l]; [discriminate|].
    assert (In_n : n_inv (getn (s_nodes s) n) = true).
    { destruct Inv as [_ [B _]]. apply (B (FRelDeps n (from :: l))). left. reflexivity. }
    unfold g_rel_dep in H. cbv beta iota zeta in H.
    assert (Keep : n_inv (getn (setn (s_nodes s) from (set_out (getn (s_nodes s) from) (remove_all n (n_out (getn (s_nodes s) from))))) n) = true).
    { rewrite getn_setn. destruct (Nat.eqb from n && Nat.ltb from (length (s_nodes s))) eqn:E; [|exact In_n].
      apply andb_true_iff in E. destruct E as [E _]. apply Nat.eqb_eq in E. subst from. exact In_n. }
    destruct (is_nil (remove_all n (n_out (getn (s_nodes s) from)))); inversion H; subst; clear H; simpl;
      (eapply armed_transfer; [ | | | | | exact Inv];
       [ same_ihr_tac | len_tac | apply same_rrs_refl | | intros r' _ _ _; cnt3 ]);
      intros f Hf; simpl in Hf; rewrite ?in_app_iff in Hf; simpl in Hf;
      repeat (destruct Hf as [Hf|Hf]); try contradiction;
      try (subst f; right; simpl; auto; fail);
      try (left; simpl; rewrite ?in_app_iff; tauto).
  - (* FRunWait *)
    destruct (Nat.eqb arg 0); [inversion H; subst; clear H; armed_leaf Inv|].
    destruct (r_cancel (getr s r)) eqn:Cn; [|discriminate]. inversion H; subst; clear H.
    eapply armed_transfer; [ | | | | | exact Inv]; [apply same_ihr_refl | lia | apply same_rrs_refl | frames_ok | ].
    intros r' Hr' X1 _. simpl. destruct (Nat.eqb r' r) eqn:E; [|rewrite ?count_app; simpl; lia].
    apply Nat.eqb_eq in E. subst r'. unfold getr in Cn. congruence.
  - (* FRunLock *)
    destruct (r_mu (getr s r)); [discriminate|].
    destruct (r_stop (getr s r)) eqn:St; inversion H; subst; clear H; simpl.
    + eapply armed_transfer; [ | | | | | exact Inv]; [apply same_ihr_refl | lia | apply same_rrs_setl; repeat split; left; reflexivity | frames_ok | ].
      intros r' Hr' X1 _. simpl. destruct (Nat.eqb r' r) eqn:E; [|rewrite ?count_app; simpl; lia].
      apply Nat.eqb_eq in E. subst r'. exfalso.
      destruct Inv as [_ [_ C]]. destruct (C r Hr') as [C1 _]. unfold getr in St. specialize (C1 St).
      rewrite nth_setl in X1. rewrite Nat.eqb_refl in X1. apply Nat.ltb_lt in Hr'. rewrite Hr' in X1. simpl in X1. unfold getr in X1. congruence.
    + armed_leaf Inv.
  - (* FCleanStart *)
    destruct (Nat.eqb arg 1).
    { (* the run gives up: only a cancelled rerunner's run does *)
      destruct (r_cancel (getr s r)) eqn:Cn; [|discriminate]. inversion H; subst; clear H. simpl.
      eapply armed_transfer; [ | | | | | exact Inv]; [apply same_ihr_refl | lia | apply same_rrs_setl; repeat split; left; reflexivity | frames_ok | ].
      intros r' Hr' X1 _. simpl. destruct (Nat.eqb r' r) eqn:E; [|rewrite ?count_app; simpl; lia].
      apply Nat.eqb_eq in E. subst r'. exfalso.
      rewrite nth_setl in X1. rewrite Nat.eqb_refl in X1. apply Nat.ltb_lt in Hr'. rewrite Hr' in X1. simpl in X1. unfold getr in *. congruence. }
    destruct (r_clock (getr s r)); [discriminate|]. inversion H; subst; clear H. simpl. armed_leaf Inv.
  - (* FClean *)
    destruct ks as [|k ks'].
    + inversion H; subst; clear H. simpl. armed_leaf Inv.
    + destruct (memb arg (k :: ks')); [|discriminate].
      destruct (n_inv (getN s arg)); inversion H; subst; clear H; simpl; armed_leaf Inv.
  - (* FBegin *)
    unfold alloc in H. inversion H; subst; clear H. simpl.
    eapply armed_transfer; [ | | | | | exact Inv];
      [ same_ihr_tac | len_tac | apply same_rrs_setl; repeat split; left; reflexivity | | intros r' _ _ _; cnt3 ].
    intros f Hf. simpl in Hf. destruct Hf as [<-|[<-|Hf]]; [right; exact I | right; simpl; rewrite app_length; simpl; lia | left; right; rewrite app_nil_r in Hf; exact Hf].
  - (* FScript *)
    destruct p as [|o q]; [discriminate|].
    assert (Fail : forall retry, do_fail s r (FScript r c q :: rest) retry = Some (s1, st, sp) ->
                   armed_on (s_nodes s1) (s_rrs s1) (st ++ others ++ concat sp)).
    { intros retry HF. eapply do_fail_armed; [exact HF | | | exact Inv].
      - intros f Hf. simpl in Hf. destruct Hf as [<-|Hf]; [right; intros; exact I | left; right; exact Hf].
      - intros r'. simpl. lia. }
    destruct o.
    + inversion H; subst; clear H; simpl; armed_leaf Inv.
    + destruct (Nat.eqb arg 0); [|unfold alloc in H]; inversion H; subst; clear H; simpl; armed_leaf Inv.
    + destruct (Nat.eqb arg 0).
      * destruct (memb key (r_keys (getr s r))); [discriminate|]. inversion H; subst; clear H; simpl; armed_leaf Inv.
      * destruct (Nat.eqb arg 2); [inversion H; subst; clear H; simpl; armed_leaf Inv|].
        destruct (r_cancel (getr s r)); [|discriminate]. eapply Fail; eauto.
    + destruct (Nat.eqb arg 0); [inversion H; subst; clear H; simpl; armed_leaf Inv | eapply Fail; eauto].
    + destruct (Nat.eqb arg 0); [inversion H; subst; clear H; simpl; armed_leaf Inv | eapply Fail; eauto].
    + (* OPar *)
      inversion H; subst; clear H. simpl.
      eapply armed_transfer; [ | | | | | exact Inv]; [apply same_ihr_refl | lia | apply same_rrs_refl | | intros r' _ _ _; cnt3].
      intros f Hf. simpl in Hf. rewrite ?in_app_iff in Hf. destruct Hf as [<-|[<-|[Hf|[Hf|Hf]]]];
        [right; exact I | right; exact I | left; right; apply in_app_iff; tauto | left; right; apply in_app_iff; tauto |].
      right. apply in_concat in Hf. destruct Hf as [t [Ht Hf]]. destruct (branch_tasks_in _ _ _ _ _ _ Ht) as [idx [b [_ ->]]].
      simpl in Hf. destruct Hf as [<-|[<-|[<-|[]]]]; exact I.
  - (* FDepAdd *)
    destruct (do_add_out s res c) as [[s2 sp2]|] eqn:A; [|discriminate]. inversion H; subst; clear H.
    destruct (do_add_out_armed _ _ _ _ _ A) as [S [R Sp]]. rewrite R.
    eapply armed_transfer; [ | | | | | exact Inv]; [exact S | | apply same_rrs_refl | | intros r' _ _ _ ].
    + apply do_add_out_edge_len in A. lia.
    + intros f Hf. simpl in Hf. rewrite ?in_app_iff in Hf. destruct Hf as [<-|[Hf|[Hf|Hf]]];
        [right; exact I | left; right; apply in_app_iff; tauto | left; right; apply in_app_iff; tauto |].
      destruct (Sp f Hf) as [x [->| ->]]; right; exact I.
    + cnt3.
  - (* FDepRead *) inversion H; subst; clear H. simpl. armed_leaf Inv.
  - (* FTimerReg *)
    destruct (n_hrel (getN s res)); [discriminate|]. inversion H; subst; clear H. simpl.
    unfold g_handle_rel. destruct (n_rel (getn (s_nodes s) res)); simpl; armed_leaf Inv.
  - (* FTimerAdd *)
    destruct (do_add_out s res c) as [[s2 sp2]|] eqn:A; [|discriminate]. inversion H; subst; clear H.
    destruct (do_add_out_armed _ _ _ _ _ A) as [S [R Sp]]. rewrite R.
    eapply armed_transfer; [ | | | | | exact Inv]; [exact S | | apply same_rrs_refl | | intros r' _ _ _ ].
    + apply do_add_out_edge_len in A. lia.
    + intros f Hf. rewrite ?in_app_iff in Hf. destruct Hf as [Hf|[Hf|Hf]];
        [left; right; apply in_app_iff; tauto | left; right; apply in_app_iff; tauto |].
      destruct (Sp f Hf) as [x [->| ->]]; right; exact I.
    + cnt3.
  - (* FChildBegin *)
    unfold alloc in H. inversion H; subst; clear H. simpl. armed_leaf Inv.
  - (* FCacheSet *)
    destruct (cache_get (r_cache (getr s r)) key); inversion H; subst; clear H; simpl; armed_leaf Inv.
  - (* FCacheLink *)
    destruct (do_add_out s child parent) as [[s2 sp2]|] eqn:A; [|discriminate]. inversion H; subst; clear H.
    destruct (do_add_out_armed _ _ _ _ _ A) as [S [R Sp]]. simpl. rewrite R.
    eapply armed_transfer; [ | | | | | exact Inv]; [ | | apply same_rrs_refl | | intros r' _ _ _ ].
    + eapply same_ihr_trans; [exact S|]. unfold getN. same_ihr_tac.
    + rewrite length_setn. apply do_add_out_edge_len in A. lia.
    + intros f Hf. rewrite ?in_app_iff in Hf. destruct Hf as [Hf|[Hf|Hf]];
        [left; right; apply in_app_iff; tauto | left; right; apply in_app_iff; tauto |].
      destruct (Sp f Hf) as [x [->| ->]]; right; exact I.
    + cnt3.
  - (* FCacheGet *)
    destruct (cache_get (r_cache (getr s r)) key) as [child|]; [destruct (Nat.eqb child c); [discriminate|]|];
      inversion H; subst; clear H; simpl; armed_leaf Inv.
  - (* FKeyUnlock *) inversion H; subst; clear H. simpl. armed_leaf Inv.
  - (* FJoin *)
    destruct (nth jid (s_joins s) (0, false)) as [nb failed]. destruct (Nat.eqb nb 0); [|discriminate].
    destruct failed; [|inversion H; subst; clear H; armed_leaf Inv].
    eapply do_fail_armed; [exact H | | | exact Inv].
    + intros f Hf. left. right. exact Hf.
    + intros r'. simpl. lia.
  - (* FBranchBegin *) inversion H; subst; clear H. armed_leaf Inv.
  - (* FBranchEnd *)
    destruct (nth jid (s_joins s) (0, false)) as [nb failed]. inversion H; subst; clear H. simpl. armed_leaf Inv.
  - (* FRunEnd: publish *)
    inversion H; subst; clear H. simpl.
    destruct Inv as [A [B C]].
    assert (Cl : c < length (s_nodes s)) by (apply (B (FRunEnd r c)); left; reflexivity).
    assert (NoArm : r < length (s_rrs s) -> forall c', ~ In (FArm r c') (rest ++ others)).
    { intros Hr. apply anchor_zero_no_arm. destruct (Mx r Hr) as [M1 _]. simpl in M1. rewrite Nat.eqb_refl in M1.
      destruct (r_mu (nth r (s_rrs s) drr)); simpl in M1; lia. }
    assert (Sp : forall f, In f (concat (opt_task (r_comp (getr s r)) (fun old => [FRelEnter old]))) -> exists x, f = FRelEnter x).
    { intros f Hf. destruct (r_comp (getr s r)); simpl in Hf; [destruct Hf as [<-|[]]; eexists; reflexivity | contradiction]. }
    assert (SpC : forall r', count (runish r') (concat (opt_task (r_comp (getr s r)) (fun old => [FRelEnter old]))) = 0).
    { intros r'. destruct (r_comp (getr s r)); reflexivity. }
    split; [exact A|]. split.
    + intros f Hf. simpl in Hf. rewrite ?in_app_iff in Hf. destruct Hf as [<-|[Hf|[Hf|Hf]]].
      * simpl. split; [exact Cl|]. rewrite length_setl. intros Hr. rewrite nth_setl, Nat.eqb_refl.
        apply Nat.ltb_lt in Hr. rewrite Hr. reflexivity.
      * assert (Q := B f (or_intror (proj2 (in_app_iff _ _ _) (or_introl Hf)))).
        destruct f; simpl in *; auto; rewrite ?length_setl.
        -- destruct Q as [Q1 Q2]. split; [exact Q1|]. intros Hr. rewrite nth_setl.
           destruct (Nat.eqb r r0 && Nat.ltb r (length (s_rrs s))) eqn:E; [|apply Q2; exact Hr].
           apply andb_true_iff in E. destruct E as [E _]. apply Nat.eqb_eq in E. subst r0.
           exfalso. eapply NoArm; [exact Hr | apply in_app_iff; left; exact Hf].
        -- destruct cancelled; auto. intros Hr. rewrite nth_setl.
           destruct (Nat.eqb r r0 && Nat.ltb r (length (s_rrs s))) eqn:E; [|apply Q; exact Hr].
           apply andb_true_iff in E. destruct E as [E _]. apply Nat.eqb_eq in E. subst r0. simpl. apply Q. exact Hr.
      * assert (Q := B f (or_intror (proj2 (in_app_iff _ _ _) (or_intror Hf)))).
        destruct f; simpl in *; auto; rewrite ?length_setl.
        -- destruct Q as [Q1 Q2]. split; [exact Q1|]. intros Hr. rewrite nth_setl.
           destruct (Nat.eqb r r0 && Nat.ltb r (length (s_rrs s))) eqn:E; [|apply Q2; exact Hr].
           apply andb_true_iff in E. destruct E as [E _]. apply Nat.eqb_eq in E. subst r0.
           exfalso. eapply NoArm; [exact Hr | apply in_app_iff; right; exact Hf].
        -- destruct cancelled; auto. intros Hr. rewrite nth_setl.
           destruct (Nat.eqb r r0 && Nat.ltb r (length (s_rrs s))) eqn:E; [|apply Q; exact Hr].
           apply andb_true_iff in E. destruct E as [E _]. apply Nat.eqb_eq in E. subst r0. simpl. apply Q. exact Hr.
      * destruct (Sp f Hf) as [x ->]. exact I.
    + intros r' Hr'. rewrite length_setl in Hr'. destruct (C r' Hr') as [C1 C2]. rewrite nth_setl.
      destruct (Nat.eqb r r' && Nat.ltb r (length (s_rrs s))) eqn:E.
      * apply andb_true_iff in E. destruct E as [E _]. apply Nat.eqb_eq in E. subst r'.
        unfold armed_rr, getr. simpl. split; [exact C1|]. intros _ _. right. rewrite Nat.eqb_refl. lia.
      * assert (Nq : Nat.eqb r' r = false).
        { destruct (Nat.eqb r' r) eqn:Q; [|reflexivity]. apply Nat.eqb_eq in Q. subst r'.
          rewrite Nat.eqb_refl in E. simpl in E. apply Nat.ltb_ge in E. lia. }
        unfold armed_rr in *. split; [exact C1|]. intros X1 X2. specialize (C2 X1 X2).
        simpl in C2. rewrite Nq in C2. simpl. rewrite Nq. rewrite ?count_app, SpC in *. simpl in *.
        destruct (r_comp (nth r' (s_rrs s) drr)); [destruct C2 as [Q|Q]; [left; exact Q | right; lia] | lia].
  - (* FArm: handleInvalidate *)
    destruct (negb (n_inv (getN s c)) && match n_hinv (getN s c) with Some _ => true | None => false end) eqn:Gd; [discriminate|].
    unfold g_handle_inv in H. unfold getN in Gd.
    destruct (n_inv (getn (s_nodes s) c)) eqn:Ic; inversion H; subst; clear H; simpl.
    + (* already invalid: go f() *)
      eapply armed_transfer; [ | | | | | exact Inv]; [apply same_ihr_refl | lia | apply same_rrs_refl | frames_ok | intros r' _ _ _; cnt3].
    + simpl in Gd. destruct (n_hinv (getn (s_nodes s) c)) eqn:Hc; [discriminate|]. clear Gd.
      destruct Inv as [A [B C]].
      destruct (B (FArm r c) (or_introl eq_refl)) as [Cl Cm].
      assert (Gi : forall x, n_inv (getn (setn (s_nodes s) c (set_hinv (getn (s_nodes s) c) r)) x) = n_inv (getn (s_nodes s) x) /\
                             n_rel (getn (setn (s_nodes s) c (set_hinv (getn (s_nodes s) c) r)) x) = n_rel (getn (s_nodes s) x)).
      { intros x. rewrite getn_setn. destruct (Nat.eqb c x && Nat.ltb c (length (s_nodes s))) eqn:E; [|split; reflexivity].
        apply andb_true_iff in E. destruct E as [E _]. apply Nat.eqb_eq in E. subst x. split; reflexivity. }
      split; [|split].
      * intros x Hx. destruct (Gi x) as [G1 G2]. rewrite G1. apply A. rewrite <- G2. exact Hx.
      * intros f Hf. rewrite app_nil_r in Hf. simpl in Hf. destruct Hf as [<-|Hf]; [exact I|].
        assert (Q := B f (or_intror Hf)).
        destruct f; simpl in *; auto; rewrite ?length_setn; try (destruct (Gi n) as [G1 _]; rewrite G1; exact Q); exact Q.
      * intros r' Hr'. destruct (C r' Hr') as [C1 C2]. split; [exact C1|]. intros X1 X2. specialize (C2 X1 X2).
        rewrite app_nil_r. simpl in C2. simpl.
        destruct (Nat.eqb r' r) eqn:E.
        -- apply Nat.eqb_eq in E. subst r'. rewrite (Cm Hr'). left.
           rewrite getn_setn_eq by exact Cl. simpl. split; [reflexivity | exact Ic].
        -- simpl in C2. destruct (r_comp (nth r' (s_rrs s) drr)) as [c2|]; [|exact C2].
           destruct C2 as [[Q1 Q2]|Q]; [|right; exact Q]. left.
           destruct (Nat.eq_dec c2 c) as [->|Nc]; [congruence|].
           rewrite getn_setn_neq by congruence. split; assumption.
  - (* FUnlock *) inversion H; subst; clear H. simpl. armed_leaf Inv.
  - (* FStop *)
    destruct cancelled.
    + (* the critical section of Stop *)
      destruct (r_mu (getr s r)) eqn:Mu; [discriminate|]. inversion H; subst; clear H. simpl.
      destruct Inv as [A [B C]].
      assert (Cn : r < length (s_rrs s) -> r_cancel (nth r (s_rrs s) drr) = true) by (apply (B (FStop r true)); left; reflexivity).
      assert (NoArm : r < length (s_rrs s) -> forall c', ~ In (FArm r c') (st ++ others)).
      { intros Hr. apply anchor_zero_no_arm. destruct (Mx r Hr) as [M1 _]. simpl in M1.
        unfold getr in Mu. rewrite Mu in M1. simpl in M1. exact M1. }
      assert (Sp : forall f, In f (concat (opt_task (r_comp (getr s r)) (fun old => [FRelEnter old]))) -> exists x, f = FRelEnter x).
      { intros f Hf. destruct (r_comp (getr s r)); simpl in Hf; [destruct Hf as [<-|[]]; eexists; reflexivity | contradiction]. }
      assert (SpC : forall r', count (runish r') (concat (opt_task (r_comp (getr s r)) (fun old => [FRelEnter old]))) = 0).
      { intros r'. destruct (r_comp (getr s r)); reflexivity. }
      split; [exact A|]. split.
      * intros f Hf. rewrite ?in_app_iff in Hf. destruct Hf as [Hf|[Hf|Hf]]; [| |destruct (Sp f Hf) as [x ->]; exact I].
        -- assert (Q := B f (or_intror (proj2 (in_app_iff _ _ _) (or_introl Hf)))).
           destruct f; simpl in *; auto; rewrite ?length_setl.
           ++ destruct Q as [Q1 Q2]. split; [exact Q1|]. intros Hr. rewrite nth_setl.
              destruct (Nat.eqb r r0 && Nat.ltb r (length (s_rrs s))) eqn:E; [|apply Q2; exact Hr].
              apply andb_true_iff in E. destruct E as [E _]. apply Nat.eqb_eq in E. subst r0.
              exfalso. eapply NoArm; [exact Hr | apply in_app_iff; left; exact Hf].
           ++ destruct cancelled; auto. intros Hr. rewrite nth_setl.
              destruct (Nat.eqb r r0 && Nat.ltb r (length (s_rrs s))) eqn:E; [|apply Q; exact Hr].
              apply andb_true_iff in E. destruct E as [E _]. apply Nat.eqb_eq in E. subst r0. simpl. apply Q. exact Hr.
        -- assert (Q := B f (or_intror (proj2 (in_app_iff _ _ _) (or_intror Hf)))).
           destruct f; simpl in *; auto; rewrite ?length_setl.
           ++ destruct Q as [Q1 Q2]. split; [exact Q1|]. intros Hr. rewrite nth_setl.
              destruct (Nat.eqb r r0 && Nat.ltb r (length (s_rrs s))) eqn:E; [|apply Q2; exact Hr].
              apply andb_true_iff in E. destruct E as [E _]. apply Nat.eqb_eq in E. subst r0.
              exfalso. eapply NoArm; [exact Hr | apply in_app_iff; right; exact Hf].
           ++ destruct cancelled; auto. intros Hr. rewrite nth_setl.
              destruct (Nat.eqb r r0 && Nat.ltb r (length (s_rrs s))) eqn:E; [|apply Q; exact Hr].
              apply andb_true_iff in E. destruct E as [E _]. apply Nat.eqb_eq in E. subst r0. simpl. apply Q. exact Hr.
      * intros r' Hr'. rewrite length_setl in Hr'. destruct (C r' Hr') as [C1 C2]. rewrite nth_setl.
        destruct (Nat.eqb r r' && Nat.ltb r (length (s_rrs s))) eqn:E.
        -- apply andb_true_iff in E. destruct E as [E _]. apply Nat.eqb_eq in E. subst r'.
           unfold armed_rr, getr. simpl. rewrite (Cn Hr'). split; [reflexivity | discriminate].
        -- unfold armed_rr in *. split; [exact C1|]. intros X1 X2. specialize (C2 X1 X2).
           simpl in C2. rewrite ?count_app, SpC in *. simpl.
           destruct (r_comp (nth r' (s_rrs s) drr)); [destruct C2 as [Q|Q]; [left; exact Q | right; lia] | lia].
    + (* cancelCtx *)
      inversion H; subst; clear H. simpl.
      eapply armed_transfer; [ | | | | | exact Inv];
        [apply same_ihr_refl | lia | apply same_rrs_setl; repeat split; (left; reflexivity) || (right; reflexivity) | | intros r' _ _ _; cnt3].
      intros f Hf. simpl in Hf. destruct Hf as [<-|Hf]; [right | left; right; rewrite app_nil_r in Hf; exact Hf].
      simpl. rewrite length_setl. intros Hr. rewrite nth_setl, Nat.eqb_refl. apply Nat.ltb_lt in Hr. rewrite Hr. reflexivity.
  - (* FOutAdd *)
    destruct (Nat.ltb n (length (s_nodes s))); [|discriminate]. unfold g_add_out_released in H. inversion H; subst; clear H. simpl.
    eapply armed_transfer; [ | | | | | exact Inv]; [same_ihr_tac | len_tac | apply same_rrs_refl | | intros r' _ _ _; cnt3].
    intros f Hf. rewrite ?in_app_iff in Hf. destruct Hf as [Hf|[Hf|Hf]]; [left; right; apply in_app_iff; tauto | left; right; apply in_app_iff; tauto |].
    right. destruct (n_inv (getn (s_nodes s) n)), (is_nil (n_out (getn (s_nodes s) n))); simpl in Hf;
      repeat (destruct Hf as [<-|Hf]); try contradiction; exact I.
  - (* FPhInv *) inversion H; subst; clear H. armed_leaf Inv.
Qed.

Lemma exhausted_runish : forall r f, exhausted f = true -> runish r f = false.
Proof. intros r f H. destruct f; simpl in *; try discriminate; reflexivity. Qed.

Lemma step_armed : forall s l s', mutex_inv s -> armed_inv s -> step s l = Some s' -> armed_inv s'.
Proof.
  intros s l s' Mx Inv H. unfold armed_inv, mutex_inv in *. destruct l.
  - destruct (step_task_frames _ _ _ _ H) as [f [rest [s1 [st [sp [others [dropped [P1 [T [D1 [D2 [P2 [N [R _]]]]]]]]]]]]]].
    rewrite N, R. eapply armed_on_perm; [apply Permutation_sym; exact P2|].
    assert (K := step_top_armed _ _ _ _ _ _ _ others T (mutex_on_perm _ _ _ P1 Mx) (armed_on_perm _ _ _ _ P1 Inv)).
    assert (Cn : forall p, (forall f, exhausted f = true -> p f = false) -> count p st = count p (norm st)).
    { intros p Hp. assert (Q := f_equal (count p) D1). rewrite count_app, (count_exhausted _ _ Hp D2) in Q. exact Q. }
    eapply armed_transfer; [apply same_ihr_refl | lia | apply same_rrs_refl | | | exact K].
    + intros f0 Hf. left. rewrite D1. rewrite !in_app_iff in *. tauto.
    + intros r _ _ _. rewrite !count_app, (Cn _ (exhausted_runish r)). lia.
  - simpl in H. destruct (Nat.ltb slot (length (s_slots s))); [|discriminate]. inversion H; subst; clear H.
    rewrite frames_spawn. unfold all_frames in *. simpl.
    eapply armed_transfer; [ | | | | | exact Inv]; [apply same_ihr_refl | lia | apply same_rrs_refl | | intros r _ _ _; rewrite count_app; lia].
    intros f Hf. apply in_app_iff in Hf. destruct Hf as [Hf|[<-|[]]]; [left; exact Hf | right; exact I].
  - simpl in H. destruct (Nat.ltb slot (length (s_slots s))); [|discriminate]. inversion H; subst; clear H.
    rewrite frames_spawn. unfold all_frames in *. simpl.
    eapply armed_transfer; [ | | | | | exact Inv]; [same_ihr_tac | len_tac | apply same_rrs_refl | | intros r _ _ _; rewrite count_app; lia].
    intros f Hf. apply in_app_iff in Hf. destruct Hf as [Hf|[<-|[]]]; [left; exact Hf | right; exact I].
  - simpl in H. destruct (Nat.ltb r (length (s_rrs s))); [|discriminate]. inversion H; subst; clear H.
    rewrite frames_spawn. unfold all_frames in *. simpl.
    eapply armed_transfer; [ | | | | | exact Inv]; [apply same_ihr_refl | lia | apply same_rrs_refl | | intros r' _ _ _; rewrite count_app; lia].
    intros f Hf. apply in_app_iff in Hf. destruct Hf as [Hf|[<-|[]]]; [left; exact Hf | right; exact I].
  - simpl in H. destruct (Nat.ltb r (length (s_rrs s))); [|discriminate].
    destruct (r_clock (getr s r)); [discriminate|]. inversion H; subst; clear H. unfold all_frames in *. simpl.
    eapply armed_transfer; [ | | | | | exact Inv];
      [apply same_ihr_refl | lia | apply same_rrs_setl; repeat split; left; reflexivity | intros f Hf; left; exact Hf | intros r' _ _ _; lia].
  - simpl in H. destruct (Nat.eqb (n_timer (getN s n)) 1); [|discriminate]. inversion H; subst; clear H.
    rewrite frames_spawn. unfold all_frames in *. simpl.
    eapply armed_transfer; [ | | | | | exact Inv]; [unfold getN; same_ihr_tac | len_tac | apply same_rrs_refl | | intros r _ _ _; rewrite count_app; lia].
    intros f Hf. apply in_app_iff in Hf. destruct Hf as [Hf|[<-|[]]]; [left; exact Hf | right; exact I].
  - simpl in H. destruct (Nat.ltb slot (length (s_slots s))); [|discriminate]. inversion H; subst; clear H.
    rewrite frames_spawn. unfold all_frames in *. simpl.
    eapply armed_transfer; [ | | | | | exact Inv]; [apply same_ihr_refl | lia | apply same_rrs_refl | | intros r' _ _ _; rewrite count_app; lia].
    intros f Hf. apply in_app_iff in Hf. destruct Hf as [Hf|[<-|[]]]; [left; exact Hf | right; exact I].
  - simpl in H. destruct (Nat.ltb r (length (s_rrs s))); [|discriminate]. inversion H; subst; clear H. unfold all_frames in *. simpl.
    eapply armed_transfer; [ | | | | | exact Inv];
      [apply same_ihr_refl | lia | apply same_rrs_setl; repeat split; (left; reflexivity) || (right; reflexivity) | intros f Hf; left; exact Hf | intros r' _ _ _; lia].
Qed.

Lemma init_nodes_rel : forall k j n, n_rel (getn (init_nodes k j) n) = false /\ n_hinv (getn (init_nodes k j) n) = None.
Proof.
  induction k as [|k IH]; intros j n; simpl.
  - unfold getn. destruct n; split; reflexivity.
  - destruct n as [|n]; [split; reflexivity|]. apply (IH (S j) n).
Qed.

Lemma init_tasks_frames : forall n k f, In f (concat (map snd (init_tasks n k))) -> exists r, f = FRunWait r.
Proof.
  induction n as [|n IH]; intros k f Hf; simpl in Hf; [contradiction|].
  destruct Hf as [<-|Hf]; [eexists; reflexivity | eapply IH; exact Hf].
Qed.

Lemma init_tasks_runish : forall n k r, k <= r -> r < k + n -> 0 < count (runish r) (concat (map snd (init_tasks n k))).
Proof.
  induction n as [|n IH]; intros k r H1 H2; [lia|]. simpl.
  destruct (Nat.eqb r k) eqn:E; [lia|]. apply Nat.eqb_neq in E.
  assert (K := IH (S k) r). simpl in K. lia.
Qed.

Lemma init_armed : forall k progs, armed_inv (init k progs).
Proof.
  intros k progs. unfold armed_inv, init, all_frames. simpl. split; [|split].
  - intros n Hn. destruct (init_nodes_rel k 0 n) as [E _]. congruence.
  - intros f Hf. destruct (init_tasks_frames _ _ _ Hf) as [r ->]. exact I.
  - intros r Hr. rewrite map_length in Hr.
    assert (E : nth r (map init_rr progs) drr = init_rr (nth r progs ([], true))).
    { change drr with (init_rr ([], true)). apply map_nth. }
    rewrite E. unfold armed_rr. simpl. split; [discriminate|]. intros _ _. apply init_tasks_runish; lia.
Qed.

Lemma reachable_armed : forall k progs s, reachable (init k progs) s -> armed_inv s.
Proof.
  intros k progs s R. induction R as [|s l s' R IH H]; [apply init_armed|].
  eapply step_armed; [eapply reachable_mutex; exact R | exact IH | exact H].
Qed.

(** At quiescence a rerunner that was neither stopped nor has failed holds a published computation which is
    armed (its handler will start a run) and valid. *)
Lemma quiescent_armed : forall k progs s r,
  reachable (init k progs) s -> quiescent s -> r < length (s_rrs s) ->
  r_cancel (getr s r) = false -> r_failed (getr s r) = false ->
  exists c, r_comp (getr s r) = Some c /\ n_hinv (getN s c) = Some r /\ n_inv (getN s c) = false.
Proof.
  intros k progs s r R Q Hr X1 X2. destruct (reachable_armed _ _ _ R) as [_ [_ C]].
  destruct (C r Hr) as [_ C2]. unfold getr in *. specialize (C2 X1 X2).
  unfold quiescent in Q. unfold all_frames in C2. rewrite Q in C2. simpl in C2.
  destruct (r_comp (nth r (s_rrs s) drr)) as [c|]; [|lia].
  destruct C2 as [[Q1 Q2]|Q']; [|lia]. exists c. unfold getN. auto.
Qed.

(** Stop marks the rerunner cancelled before it marks it stopped *)
Lemma stop_implies_cancel : forall k progs s r,
  reachable (init k progs) s -> r < length (s_rrs s) -> r_stop (getr s r) = true -> r_cancel (getr s r) = true.
Proof.
  intros k progs s r R Hr St. destruct (reachable_armed _ _ _ R) as [_ [_ C]]. destruct (C r Hr) as [C1 _]. apply C1. exact St.
Qed.
