(** * Reactive/Drive.v — a deterministic scheduler for the model (definitions only): runs tasks in list order
    until nothing is enabled.  Used to build the non-vacuity examples of Props/C04.v and Props/C08.v. *)
From Coq Require Import List Arith Bool.
From Thunder Require Import Reactive.Graph Reactive.Rerunner.
Import ListNotations.

(* the label argument that takes the plain branch: first node of an invalidate list / first cache entry to
   test; 0 = wait returned normally, budgeted operations skipped *)
Definition default_arg (st : list frame) : nat :=
  match st with
  | FInvList (x :: _) :: _ => x
  | FClean _ (x :: _) :: _ => x
  | _ => 0
  end.

Fixpoint first_enabled (s : state) (ts : list (nat * list frame)) : option label :=
  match ts with
  | [] => None
  | (tid, st) :: t =>
      match step s (LTask tid (default_arg st)) with
      | Some _ => Some (LTask tid (default_arg st))
      | None => first_enabled s t
      end
  end.

Fixpoint drive (fuel : nat) (s : state) : list label :=
  match fuel with
  | 0 => []
  | S k =>
      match first_enabled s (s_tasks s) with
      | None => []
      | Some l => match step s l with Some s' => l :: drive k s' | None => [] end
      end
  end.

Definition run_to_quiet (fuel : nat) (s : state) : state :=
  match run s (drive fuel s) with Some s' => s' | None => s end.

(** the same scheduler, never scheduling task [skip] (an unfair scheduler that starves one goroutine) *)
Fixpoint first_enabled_skip (skip : nat) (s : state) (ts : list (nat * list frame)) : option label :=
  match ts with
  | [] => None
  | (tid, st) :: t =>
      if Nat.eqb tid skip then first_enabled_skip skip s t
      else match step s (LTask tid (default_arg st)) with
           | Some _ => Some (LTask tid (default_arg st))
           | None => first_enabled_skip skip s t
           end
  end.

Fixpoint drive_skip (fuel skip : nat) (s : state) : list label :=
  match fuel with
  | 0 => []
  | S k =>
      match first_enabled_skip skip s (s_tasks s) with
      | None => []
      | Some l => match step s l with Some s' => l :: drive_skip k skip s' | None => [] end
      end
  end.
