(** * Reactive/ProofsOwnership.v — who holds what.  The dependency graph is ranked (acyclic); every computation
    node that has not been released is the current computation of a rerunner, or is depended upon, or a goroutine
    is about to publish / store / link / release it.  Hence at quiescence every unreleased node is, through a
    chain of dependants, a dependency of the current computation of a rerunner that has not been stopped: a
    stopped rerunner holds nothing. *)
From Coq Require Import List Arith Bool Lia Permutation.
From Thunder Require Import Reactive.Graph Reactive.Rerunner Reactive.ProofsBase Reactive.ProofsEdge Reactive.ProofsReach
  Reactive.ProofsMutex Reactive.ProofsArmed Reactive.ProofsRefcount Reactive.ProofsClosed Reactive.ProofsShape Reactive.ProofsJoin
  Reactive.ProofsProgress Reactive.ProofsLink Reactive.ProofsSeg Reactive.ProofsRun.
Import ListNotations.

(** ** the graph: dependants are computations, a node with dependants was used as a dependency, ranks grow along edges *)
Definition graph_ok (g : graph) : Prop :=
  (forall n m, In m (n_out (getn g n)) -> n_had (getn g n) = true) /\
  (forall n m, In m (n_out (getn g n)) -> m < length g /\ n_hrel (getn g m) = None /\ n_timer (getn g m) = 0) /\
  (exists rk : nat -> nat, forall n m, In m (n_out (getn g n)) -> rk n < rk m).

(** graphs that agree on out / had / hrel / timer of the existing nodes; new nodes have no dependants *)
Definition same4 (g g' : graph) : Prop :=
  length g <= length g' /\
  (forall n, n < length g -> n_out (getn g' n) = n_out (getn g n) /\ n_had (getn g' n) = n_had (getn g n) /\
                             n_hrel (getn g' n) = n_hrel (getn g n) /\ n_timer (getn g' n) = n_timer (getn g n)) /\
  (forall n, length g <= n -> n_out (getn g' n) = []).

Lemma same4_refl : forall g, same4 g g.
Proof. intros g. split; [lia|]. split; [intros n _; repeat split|]. intros n Hn. rewrite getn_out_of_range by exact Hn. reflexivity. Qed.

Lemma same4_trans : forall a b c, same4 a b -> same4 b c -> same4 a c.
Proof.
  intros a b c [L1 [H1 N1]] [L2 [H2 N2]]. split; [lia|]. split.
  - intros n Hn. destruct (H1 n Hn) as [A1 [A2 [A3 A4]]]. destruct (H2 n ltac:(lia)) as [B1 [B2 [B3 B4]]]. repeat split; congruence.
  - intros n Hn. destruct (Nat.lt_ge_cases n (length b)) as [Lb|Lb]; [|apply N2; exact Lb].
    destruct (H2 n Lb) as [B1 _]. rewrite B1. apply N1. exact Hn.
Qed.

Lemma same4_setn : forall g i x,
  n_out x = n_out (getn g i) -> n_had x = n_had (getn g i) -> n_hrel x = n_hrel (getn g i) -> n_timer x = n_timer (getn g i) ->
  same4 g (setn g i x).
Proof.
  intros g i x H1 H2 H3 H4. split; [rewrite length_setn; lia|]. split.
  - intros n _. rewrite getn_setn. destruct (Nat.eqb i n && Nat.ltb i (length g)) eqn:E; [|repeat split].
    apply andb_true_iff in E. destruct E as [E _]. apply Nat.eqb_eq in E. subst. repeat split; assumption.
  - intros n Hn. rewrite getn_setn. destruct (Nat.eqb i n && Nat.ltb i (length g)) eqn:E.
    + apply andb_true_iff in E. destruct E as [E1 E2]. apply Nat.eqb_eq in E1. apply Nat.ltb_lt in E2. lia.
    + rewrite getn_out_of_range by exact Hn. reflexivity.
Qed.

Lemma same4_alloc : forall g x, n_out x = [] -> same4 g (g ++ [x]).
Proof.
  intros g x Ho. split; [rewrite app_length; simpl; lia|]. split.
  - intros n Hn. rewrite getn_app_new. assert (E : Nat.eqb n (length g) = false) by (apply Nat.eqb_neq; lia). rewrite E. repeat split.
  - intros n Hn. rewrite getn_app_new. destruct (Nat.eqb n (length g)); [exact Ho|]. rewrite getn_out_of_range by exact Hn. reflexivity.
Qed.

Ltac same4_tac :=
  first
    [ apply same4_refl
    | apply same4_setn; reflexivity
    | apply same4_alloc; reflexivity
    | eapply same4_trans; [ | first [apply same4_setn; reflexivity | apply same4_alloc; reflexivity] ]; same4_tac ].

Lemma graph_same4 : forall g g', same4 g g' -> graph_ok g -> graph_ok g'.
Proof.
  intros g g' [L [S Nw]] [OH [OC [rk RK]]].
  assert (Old : forall n m, In m (n_out (getn g' n)) -> n < length g /\ In m (n_out (getn g n))).
  { intros n m Hin. destruct (Nat.lt_ge_cases n (length g)) as [Ln|Ln]; [|rewrite (Nw n Ln) in Hin; contradiction].
    destruct (S n Ln) as [S1 _]. rewrite S1 in Hin. split; assumption. }
  split; [|split].
  - intros n m Hin. destruct (Old _ _ Hin) as [Ln Ho]. destruct (S n Ln) as [_ [S2 _]]. rewrite S2. eapply OH; exact Ho.
  - intros n m Hin. destruct (Old _ _ Hin) as [Ln Ho]. destruct (OC _ _ Ho) as [Lm [C1 C2]].
    destruct (S m Lm) as [_ [_ [S3 S4]]]. rewrite S3, S4. split; [lia | split; assumption].
  - exists rk. intros n m Hin. destruct (Old _ _ Hin) as [_ Ho]. apply RK. exact Ho.
Qed.

(** out sets only shrink, the other fields stay: the walk of release over in-edges *)
Lemma graph_shrink : forall g i o,
  (forall m, In m o -> In m (n_out (getn g i))) -> graph_ok g -> graph_ok (setn g i (set_out (getn g i) o)).
Proof.
  intros g i o Sub [OH [OC [rk RK]]].
  assert (Old : forall n m, In m (n_out (getn (setn g i (set_out (getn g i) o)) n)) -> In m (n_out (getn g n))).
  { intros n m Hin. rewrite getn_setn in Hin. destruct (Nat.eqb i n && Nat.ltb i (length g)) eqn:E; [|exact Hin].
    apply andb_true_iff in E. destruct E as [E _]. apply Nat.eqb_eq in E. subst. simpl in Hin. apply Sub. exact Hin. }
  assert (Fl : forall n, n_had (getn (setn g i (set_out (getn g i) o)) n) = n_had (getn g n) /\
                         n_hrel (getn (setn g i (set_out (getn g i) o)) n) = n_hrel (getn g n) /\
                         n_timer (getn (setn g i (set_out (getn g i) o)) n) = n_timer (getn g n)).
  { intros n. rewrite getn_setn. destruct (Nat.eqb i n && Nat.ltb i (length g)) eqn:E; [|repeat split].
    apply andb_true_iff in E. destruct E as [E _]. apply Nat.eqb_eq in E. subst. repeat split. }
  split; [|split].
  - intros n m Hin. destruct (Fl n) as [F1 _]. rewrite F1. eapply OH. apply Old. exact Hin.
  - intros n m Hin. destruct (OC _ _ (Old _ _ Hin)) as [Lm [C1 C2]]. destruct (Fl m) as [_ [F2 F3]]. rewrite F2, F3, length_setn. auto.
  - exists rk. intros n m Hin. apply RK. apply Old. exact Hin.
Qed.

(** addOut: the dependant has no out-edge yet *)
Lemma graph_add_out : forall g n to g' linked shinv shrel,
  g_add_out g n to = (g', (linked, shinv, shrel)) -> n < length g -> to < length g -> n <> to ->
  fresh3 (getn g to) -> graph_ok g -> graph_ok g'.
Proof.
  intros g n to g' linked shinv shrel A Ln Lt Nq [F1 [F2 F3]] [OH [OC [rk RK]]].
  destruct (g_add_out_spec _ _ _ _ _ _ _ A Ln Lt Nq) as [Lg [_ [O1 [O2 _]]]].
  destruct (g_add_out_ref _ _ _ _ _ _ _ A Ln Lt Nq) as [G1 [G2 _]].
  assert (Tm : forall m, n_timer (getn g' m) = n_timer (getn g m)).
  { intros m. unfold g_add_out in A. destruct (negb (n_rel (getn g to))); inversion A; subst; clear A; rewrite ?getn_setn, ?length_setn;
      repeat match goal with |- context [if ?b then _ else _] => let E := fresh "E" in destruct b eqn:E; simpl end;
      repeat match goal with E : _ && _ = true |- _ => apply andb_true_iff in E; destruct E as [E _]; apply Nat.eqb_eq in E; subst end;
      reflexivity. }
  assert (Hn : n_had (getn g' n) = true).
  { unfold g_add_out in A. destruct (negb (n_rel (getn g to))); inversion A; subst; clear A.
    - rewrite getn_setn_neq by congruence. rewrite getn_setn_eq by exact Ln. reflexivity.
    - rewrite getn_setn_eq by exact Ln. reflexivity. }
  assert (NoOut : n_out (getn g to) = []).
  { destruct (n_out (getn g to)) as [|x t] eqn:E; [reflexivity|]. assert (Q := OH to x). rewrite E in Q. specialize (Q (or_introl eq_refl)). congruence. }
  assert (Pair : forall a b, In b (n_out (getn g' a)) -> In b (n_out (getn g a)) \/ (a = n /\ b = to)).
  { intros a b Hin. destruct (Nat.eq_dec a n) as [->|Na]; [|left; rewrite <- (O1 a Na); exact Hin].
    apply O2 in Hin. destruct Hin as [Hin|[_ ->]]; [left; exact Hin | right; auto]. }
  split; [|split].
  - intros a b Hin. destruct (Pair _ _ Hin) as [Old|[-> _]]; [|exact Hn].
    destruct (Nat.eq_dec a n) as [->|Na]; [exact Hn|]. destruct (G2 a Na) as [B1 _]. rewrite B1. eapply OH; exact Old.
  - intros a b Hin. rewrite Lg. destruct (G1 b) as [_ [_ B3]]. rewrite B3, Tm.
    destruct (Pair _ _ Hin) as [Old|[_ ->]]; [apply (OC _ _ Old) | auto].
  - exists (fun x => if Nat.eqb x to then Nat.max (rk to) (S (rk n)) else rk x).
    intros a b Hin. assert (Ea : Nat.eqb a to = false).
    { apply Nat.eqb_neq. intros ->. destruct (Pair _ _ Hin) as [Old|[Q _]]; [rewrite NoOut in Old; contradiction | congruence]. }
    rewrite Ea. destruct (Pair _ _ Hin) as [Old|[-> ->]].
    + specialize (RK _ _ Old). destruct (Nat.eqb b to) eqn:Eb; [apply Nat.eqb_eq in Eb; subst b|]; lia.
    + rewrite Nat.eqb_refl. lia.
Qed.

Lemma graph_setn_gen : forall g i x,
  n_out x = n_out (getn g i) -> (n_had (getn g i) = true -> n_had x = true) ->
  (n_hrel x = n_hrel (getn g i) /\ n_timer x = n_timer (getn g i)) \/ n_timer (getn g i) <> 0 ->
  graph_ok g -> graph_ok (setn g i x).
Proof.
  intros g i x Ho Hh Hf [OH [OC [rk RK]]].
  assert (Old : forall n m, In m (n_out (getn (setn g i x) n)) -> In m (n_out (getn g n))).
  { intros n m Hin. rewrite getn_setn in Hin. destruct (Nat.eqb i n && Nat.ltb i (length g)) eqn:E; [|exact Hin].
    apply andb_true_iff in E. destruct E as [E _]. apply Nat.eqb_eq in E. subst. rewrite Ho in Hin. exact Hin. }
  split; [|split].
  - intros n m Hin. assert (Q := OH _ _ (Old _ _ Hin)). rewrite getn_setn. destruct (Nat.eqb i n && Nat.ltb i (length g)) eqn:E; [|exact Q].
    apply andb_true_iff in E. destruct E as [E _]. apply Nat.eqb_eq in E. subst. apply Hh. exact Q.
  - intros n m Hin. destruct (OC _ _ (Old _ _ Hin)) as [Lm [C1 C2]]. rewrite length_setn. split; [exact Lm|].
    rewrite getn_setn. destruct (Nat.eqb i m && Nat.ltb i (length g)) eqn:E; [|split; assumption].
    apply andb_true_iff in E. destruct E as [E _]. apply Nat.eqb_eq in E. subst.
    destruct Hf as [[F1 F2]|F]; [rewrite F1, F2; split; assumption | contradiction].
  - exists rk. intros n m Hin. apply RK. apply Old. exact Hin.
Qed.

Lemma inv_step_same4 : forall s n k s1 st sp, inv_step s n k = Some (s1, st, sp) -> same4 (s_nodes s) (s_nodes s1).
Proof.
  intros s n k s1 st sp H. unfold inv_step in H.
  destruct (Nat.ltb n (length (s_nodes s))); [|discriminate].
  destruct (n_inv (getN s n)); [inversion H; subst; apply same4_refl|].
  destruct (n_hinv (getN s n)) as [r|]; [destruct (r_spawn (getr s r))|]; inversion H; subst; simpl; unfold g_inv_mark; same4_tac.
Qed.

Lemma do_add_out_graph : forall s n to s1 sp,
  do_add_out s n to = Some (s1, sp) -> fresh3 (getn (s_nodes s) to) -> graph_ok (s_nodes s) -> graph_ok (s_nodes s1).
Proof.
  intros s n to s1 sp H Fr G. unfold do_add_out in H.
  destruct (Nat.ltb n (length (s_nodes s)) && Nat.ltb to (length (s_nodes s)) && negb (Nat.eqb n to)) eqn:Gd; [|discriminate].
  apply andb_true_iff in Gd. destruct Gd as [Gd Nq]. apply negb_true_iff in Nq. apply Nat.eqb_neq in Nq.
  apply andb_true_iff in Gd. destruct Gd as [G1 G2]. apply Nat.ltb_lt in G1. apply Nat.ltb_lt in G2.
  destruct (g_add_out (s_nodes s) n to) as [g [[linked shinv] shrel]] eqn:A. inversion H; subst; clear H. simpl.
  eapply graph_add_out; eauto.
Qed.

Ltac gleaf G := eapply graph_same4; [|exact G]; unfold getN, g_inv_mark, g_rel_mark, g_handle_inv; same4_tac.

Lemma step_top_graph : forall s f rest arg s1 st sp,
  step_top s f rest arg = Some (s1, st, sp) ->
  frame_ok (s_nodes s) (length (s_slots s)) f ->
  (forall m, runs f = Some m -> fresh3 (getn (s_nodes s) m)) ->
  graph_ok (s_nodes s) -> graph_ok (s_nodes s1).
Proof.
  intros s f rest arg s1 st sp H Fo Fr G.
  unfold step_top, alloc in H.
  destruct f; cbv beta iota zeta in H.
  - destruct (memb arg l); [|discriminate]. eapply graph_same4; [|exact G]; eapply inv_step_same4; exact H.
  - inversion H; subst; clear H. exact G.
  - eapply graph_same4; [|exact G]; eapply inv_step_same4; exact H.
  - destruct (n_rel (getN s n)); [inversion H; subst; clear H; exact G|].
    destruct (n_hrel (getN s n)) as [[sl|]|]; inversion H; subst; clear H; simpl s_nodes; gleaf G.
  - destruct (Nat.eqb (slot_res (upd_node s n (inc_cln (getN s n))) slot) n); inversion H; subst; clear H; simpl s_nodes; gleaf G.
  - destruct froms as [|from l]; [discriminate|].
    destruct (g_rel_dep (s_nodes s) from n) as [g' shrel] eqn:E. unfold g_rel_dep in E. inversion E; subst g'; clear E.
    assert (G' : graph_ok (setn (s_nodes s) from (set_out (getn (s_nodes s) from) (remove_all n (n_out (getn (s_nodes s) from)))))).
    { apply graph_shrink; [|exact G]. intros m Hm. apply In_remove_all in Hm. apply Hm. }
    destruct shrel; inversion H; subst; clear H; exact G'.
  - dmatch H; exact G.
  - dmatch H; exact G.
  - dmatch H; exact G.
  - dmatch H; exact G.
  - inversion H; subst; clear H. simpl s_nodes. gleaf G.
  - destruct p as [|o q]; [discriminate|].
    destruct o; dmatch H; simpl s_nodes;
      try (match goal with A : do_fail _ _ _ _ = Some _ |- _ => rewrite (do_fail_nodes _ _ _ _ _ _ _ A) end);
      try exact G; gleaf G.
  - (* FDepAdd *)
    destruct (do_add_out s res c) as [[s2 sp2]|] eqn:A; [|discriminate]. inversion H; subst; clear H.
    eapply do_add_out_graph; [exact A | apply Fr; reflexivity | exact G].
  - inversion H; subst; clear H. simpl s_nodes. gleaf G.
  - (* FTimerReg: the handler is registered on a node that is nobody's dependant *)
    destruct (n_hrel (getN s res)); [discriminate|]. inversion H; subst; clear H. simpl s_nodes. simpl in Fo.
    unfold g_handle_rel. destruct (n_rel (getn (s_nodes s) res)); simpl fst;
      (apply graph_setn_gen; [reflexivity | intros Q; exact Q | right; apply Fo | exact G]).
  - destruct (do_add_out s res c) as [[s2 sp2]|] eqn:A; [|discriminate]. inversion H; subst; clear H.
    eapply do_add_out_graph; [exact A | apply Fr; reflexivity | exact G].
  - inversion H; subst; clear H. simpl s_nodes. gleaf G.
  - dmatch H; exact G.
  - (* FCacheLink *)
    destruct (do_add_out s child parent) as [[s2 sp2]|] eqn:A; [|discriminate]. inversion H; subst; clear H. simpl s_nodes.
    assert (G2 := do_add_out_graph _ _ _ _ _ A (Fr _ eq_refl) G). gleaf G2.
  - dmatch H; exact G.
  - inversion H; subst; clear H. exact G.
  - destruct (nth jid (s_joins s) (0, false)) as [nb failed]. destruct (Nat.eqb nb 0); [|discriminate].
    destruct failed; [rewrite (do_fail_nodes _ _ _ _ _ _ _ H); exact G | inversion H; subst; clear H; exact G].
  - inversion H; subst; clear H. exact G.
  - destruct (nth jid (s_joins s) (0, false)) as [nb failed]. inversion H; subst; clear H. exact G.
  - inversion H; subst; clear H. exact G.
  - destruct (negb (n_inv (getN s c)) && match n_hinv (getN s c) with Some _ => true | None => false end); [discriminate|].
    destruct (g_handle_inv (s_nodes s) c r) as [g' fired] eqn:E. unfold g_handle_inv in E.
    destruct (n_inv (getn (s_nodes s) c)); inversion E; subst; clear E; inversion H; subst; clear H; simpl s_nodes; [exact G | gleaf G].
  - inversion H; subst; clear H. exact G.
  - dmatch H; exact G.
  - (* FOutAdd *)
    destruct (Nat.ltb n (length (s_nodes s))); [|discriminate].
    destruct (g_add_out_released (s_nodes s) n) as [g' [shinv shrel]] eqn:E. unfold g_add_out_released in E.
    inversion E; subst; clear E. inversion H; subst; clear H. simpl s_nodes.
    apply graph_setn_gen; [reflexivity | reflexivity | left; split; reflexivity | exact G].
  - inversion H; subst; clear H. exact G.
Qed.

Definition graph_inv (s : state) : Prop := graph_ok (s_nodes s).

Lemma step_graph : forall s l s', closed_inv s -> run_inv s -> graph_inv s -> step s l = Some s' -> graph_inv s'.
Proof.
  intros s l s' Cl Rn G H. unfold graph_inv in *. destruct l.
  - destruct (step_task_frames _ _ _ _ H) as [f [rest [s1 [st [sp [others [dropped [P1 [T [_ [_ [_ [N _]]]]]]]]]]]]].
    assert (Fin : In f (all_frames s)) by (eapply Permutation_in; [apply Permutation_sym; exact P1 | left; reflexivity]).
    rewrite N. eapply step_top_graph; [exact T | | | exact G].
    + destruct Cl as [_ [_ [C _]]]. apply C. exact Fin.
    + intros m R. destruct Rn as [R1 _]. apply (R1 f m Fin R).
  - simpl in H. destruct (Nat.ltb slot (length (s_slots s))); [|discriminate]. inversion H; subst; clear H. exact G.
  - simpl in H. destruct (Nat.ltb slot (length (s_slots s))); [|discriminate]. inversion H; subst; clear H. simpl.
    eapply graph_same4; [|exact G]. apply same4_alloc. reflexivity.
  - simpl in H. destruct (Nat.ltb r (length (s_rrs s))); [|discriminate]. inversion H; subst; clear H. exact G.
  - simpl in H. destruct (Nat.ltb r (length (s_rrs s))); [|discriminate].
    destruct (r_clock (getr s r)); [discriminate|]. inversion H; subst; clear H. exact G.
  - simpl in H. destruct (Nat.eqb (n_timer (getN s n)) 1) eqn:Tm; [|discriminate]. inversion H; subst; clear H. simpl.
    apply graph_setn_gen; [reflexivity | intros Q; exact Q | right | exact G]. apply Nat.eqb_eq in Tm. unfold getN in *. lia.
  - simpl in H. destruct (Nat.ltb slot (length (s_slots s))); [|discriminate]. inversion H; subst; clear H. exact G.
  - simpl in H. destruct (Nat.ltb r (length (s_rrs s))); [|discriminate]. inversion H; subst; clear H. exact G.
Qed.

Lemma init_graph : forall k progs, graph_inv (init k progs).
Proof.
  intros k progs. unfold graph_inv, graph_ok, init. simpl.
  split; [|split]; [intros n m Hin | intros n m Hin | exists (fun _ => 0); intros n m Hin]; rewrite init_nodes_out in Hin; contradiction.
Qed.

Lemma reachable_graph : forall k progs s, progs_ok k progs -> reachable (init k progs) s -> graph_inv s.
Proof.
  intros k progs s Pk R. induction R as [|s l s' R IH H]; [apply init_graph|].
  eapply step_graph; [eapply reachable_closed | eapply reachable_run | exact IH | exact H]; eauto.
Qed.

(** ** rerunner numbers in frames and rerun handlers name existing rerunners *)
Definition rf (f : frame) : option nat :=
  match f with
  | FRunWait r | FRunLock r | FCleanStart r | FClean r _ | FBegin r | FScript r _ _ | FChildBegin r _ _ _
  | FCacheSet r _ _ _ | FCacheGet r _ _ _ | FKeyUnlock r _ | FJoin r _ | FRunEnd r _ | FArm r _ | FUnlock r | FStop r _ => Some r
  | _ => None
  end.

Definition rin_on (g : graph) (nr : nat) (fr : list frame) : Prop :=
  (forall f r, In f fr -> rf f = Some r -> r < nr) /\ (forall n r, n_hinv (getn g n) = Some r -> r < nr).
Definition rin_inv (s : state) : Prop := rin_on (s_nodes s) (length (s_rrs s)) (all_frames s).

Definition hin (g g' : graph) (extra : option nat) : Prop :=
  forall n r, n_hinv (getn g' n) = Some r -> n_hinv (getn g n) = Some r \/ extra = Some r.

Lemma hin_refl : forall g e, hin g g e.
Proof. intros g e n r H. left. exact H. Qed.
Lemma hin_trans : forall a b c e, hin a b e -> hin b c e -> hin a c e.
Proof. intros a b c e H1 H2 n r H. destruct (H2 n r H) as [Q|Q]; [apply H1; exact Q | right; exact Q]. Qed.
Lemma hin_setn : forall g i x e, (forall r, n_hinv x = Some r -> n_hinv (getn g i) = Some r \/ e = Some r) -> hin g (setn g i x) e.
Proof.
  intros g i x e Hx n r H. rewrite getn_setn in H. destruct (Nat.eqb i n && Nat.ltb i (length g)) eqn:E; [|left; exact H].
  apply andb_true_iff in E. destruct E as [E _]. apply Nat.eqb_eq in E. subst. apply Hx. exact H.
Qed.
Lemma hin_alloc : forall g x e, n_hinv x = None -> hin g (g ++ [x]) e.
Proof.
  intros g x e Hx n r H. rewrite getn_app_new in H. destruct (Nat.eqb n (length g)); [congruence | left; exact H].
Qed.

Ltac hin_tac :=
  first
    [ apply hin_refl
    | apply hin_setn; simpl; intros r0 Q; first [left; exact Q | right; exact Q | right; congruence | discriminate]
    | apply hin_alloc; reflexivity
    | eapply hin_trans; [ | first [apply hin_setn; simpl; intros r0 Q; first [left; exact Q | right; exact Q | right; congruence | discriminate] | apply hin_alloc; reflexivity] ]; hin_tac ].

Lemma inv_step_rin : forall s n k s1 st sp x r,
  inv_step s n k = Some (s1, st, sp) -> In x (st ++ concat sp) -> rf x = Some r ->
  In x k \/ exists m, n_hinv (getN s m) = Some r.
Proof.
  intros s n k s1 st sp x r H Hx Rx. unfold inv_step in H.
  destruct (Nat.ltb n (length (s_nodes s))); [|discriminate].
  destruct (n_inv (getN s n)); [inversion H; subst; simpl in Hx; rewrite app_nil_r in Hx; left; exact Hx|].
  destruct (n_hinv (getN s n)) as [r'|] eqn:Hh; [destruct (r_spawn (getr s r'))|]; inversion H; subst; clear H;
    simpl in Hx; rewrite ?in_app_iff in Hx; simpl in Hx;
    repeat (destruct Hx as [Hx|Hx]); try contradiction; try (left; exact Hx); subst x; simpl in Rx; try discriminate;
    inversion Rx; subst; right; exists n; exact Hh.
Qed.

Lemma inv_step_hin : forall s n k s1 st sp e, inv_step s n k = Some (s1, st, sp) -> hin (s_nodes s) (s_nodes s1) e.
Proof.
  intros s n k s1 st sp e H. unfold inv_step in H.
  destruct (Nat.ltb n (length (s_nodes s))); [|discriminate].
  destruct (n_inv (getN s n)); [inversion H; subst; apply hin_refl|].
  destruct (n_hinv (getN s n)) as [r|]; [destruct (r_spawn (getr s r))|]; inversion H; subst; simpl; unfold g_inv_mark; hin_tac.
Qed.

Lemma do_add_out_hin : forall s n to s1 sp e, do_add_out s n to = Some (s1, sp) -> hin (s_nodes s) (s_nodes s1) e.
Proof.
  intros s n to s1 sp e H. unfold do_add_out in H.
  destruct (Nat.ltb n (length (s_nodes s)) && Nat.ltb to (length (s_nodes s)) && negb (Nat.eqb n to)); [|discriminate].
  destruct (g_add_out (s_nodes s) n to) as [g [[a b] c]] eqn:A. inversion H; subst; clear H. simpl.
  unfold g_add_out in A. destruct (negb (n_rel (getn (s_nodes s) to))); inversion A; subst; clear A; hin_tac.
Qed.

Lemma do_fail_rin : forall s r stk b s1 st sp x r',
  do_fail s r stk b = Some (s1, st, sp) -> In x (st ++ concat sp) -> rf x = Some r' -> In x stk \/ r' = r.
Proof.
  intros s r stk b s1 st sp x r' H Hx Rx.
  destruct (do_fail_spec _ _ _ _ _ _ _ H) as [cs [ks [below [term [y [U [N [Sl [R [Y1 [Y2 [Y3 [Y4 [Y5 [Y6 [Y7 [Y8 T]]]]]]]]]]]]]]]]].
  destruct (unwind_split _ _ _ _ _ _ U) as [d [l [E [Fd [L _]]]]].
  assert (Rl : forall cs0, In x (concat (map (fun c => [FRelEnter c]) cs0)) -> False).
  { induction cs0 as [|h t IH]; simpl; [tauto|]. intros [<-|Q]; [discriminate | apply IH; exact Q]. }
  assert (Bl : In x below -> In x stk) by (intros Q; rewrite E; apply in_app_iff; right; right; exact Q).
  apply in_app_iff in Hx.
  destruct term as [jid|]; simpl in L.
  - subst l. destruct T as [-> [-> _]]. destruct Hx as [[<-|Hx]|Hx]; [discriminate | left; apply Bl; exact Hx | exfalso; eapply Rl; exact Hx].
  - destruct T as [-> [_ [[_ [-> _]]|[_ [-> _]]]]].
    + destruct Hx as [[<-|Hx]|Hx]; [right; inversion Rx; reflexivity | left; apply Bl; exact Hx|].
      rewrite concat_app in Hx. apply in_app_iff in Hx. destruct Hx as [Hx|Hx]; [exfalso; eapply Rl; exact Hx|].
      simpl in Hx. destruct Hx as [<-|[]]. right. inversion Rx. reflexivity.
    + destruct Hx as [[<-|Hx]|Hx]; [right; inversion Rx; reflexivity | left; apply Bl; exact Hx | exfalso; eapply Rl; exact Hx].
Qed.

Lemma do_add_out_rf : forall s n to s1 sp x, do_add_out s n to = Some (s1, sp) -> In x (concat sp) -> rf x = None.
Proof.
  intros s n to s1 sp x H Hx. unfold do_add_out in H.
  destruct (Nat.ltb n (length (s_nodes s)) && Nat.ltb to (length (s_nodes s)) && negb (Nat.eqb n to)); [|discriminate].
  destruct (g_add_out (s_nodes s) n to) as [g [[a b] c]]. inversion H; subst; clear H.
  destruct b; destruct c; simpl in Hx; repeat (destruct Hx as [Hx|Hx]); try contradiction; subst x; reflexivity.
Qed.

Ltac rin_split Hx :=
  simpl in Hx; rewrite ?in_app_iff in Hx; simpl in Hx;
  repeat match type of Hx with context [match ?z with _ => _ end] => destruct z end;
  simpl in Hx;
  repeat (destruct Hx as [Hx|Hx]); try contradiction; try (left; exact Hx);
  subst; simpl in *; try discriminate; try (right; left; assumption).

Lemma step_top_rin : forall s f rest arg s1 st sp x r,
  step_top s f rest arg = Some (s1, st, sp) -> In x (st ++ concat sp) -> rf x = Some r ->
  In x rest \/ rf f = Some r \/ exists m, n_hinv (getN s m) = Some r.
Proof.
  intros s f rest arg s1 st sp x r H Hx Rx.
  unfold step_top, alloc, opt_task in H.
  destruct f; cbv beta iota zeta in H.
  - destruct (memb arg l); [|discriminate]. destruct (inv_step_rin _ _ _ _ _ _ _ _ H Hx Rx) as [Q|Q]; [|right; right; exact Q].
    destruct Q as [<-|Q]; [discriminate | left; exact Q].
  - inversion H; subst; clear H. rin_split Hx.
  - destruct (inv_step_rin _ _ _ _ _ _ _ _ H Hx Rx) as [Q|Q]; [|right; right; exact Q].
    destruct Q as [<-|Q]; [discriminate | left; exact Q].
  - dmatch H; rin_split Hx.
  - dmatch H; rin_split Hx.
  - dmatch H; rin_split Hx.
  - dmatch H; rin_split Hx.
  - dmatch H; rin_split Hx.
  - dmatch H; rin_split Hx.
  - dmatch H; rin_split Hx.
  - inversion H; subst; clear H. rin_split Hx.
  - destruct p as [|o q]; [discriminate|].
    assert (Df : forall b s2 st2 sp2, do_fail s r0 (FScript r0 c q :: rest) b = Some (s2, st2, sp2) ->
                 In x (st2 ++ concat sp2) -> In x rest \/ rf (FScript r0 c (o :: q)) = Some r \/ exists m, n_hinv (getN s m) = Some r).
    { intros b s2 st2 sp2 Hf Hx2. destruct (do_fail_rin _ _ _ _ _ _ _ _ _ Hf Hx2 Rx) as [[<-|Q]|Q]; [right; left; exact Rx | left; exact Q | right; left; simpl; congruence]. }
    destruct o.
    + inversion H; subst; clear H. rin_split Hx.
    + dmatch H; rin_split Hx.
    + destruct (Nat.eqb arg 0).
      * destruct (memb key (r_keys (getr s r0))); [discriminate|]. inversion H; subst; clear H. rin_split Hx.
      * destruct (Nat.eqb arg 2); [inversion H; subst; clear H; rin_split Hx|].
        destruct (r_cancel (getr s r0)); [|discriminate]. eapply Df; eauto.
    + destruct (Nat.eqb arg 0); [inversion H; subst; clear H; rin_split Hx | eapply Df; eauto].
    + destruct (Nat.eqb arg 0); [inversion H; subst; clear H; rin_split Hx | eapply Df; eauto].
    + inversion H; subst; clear H.
      simpl in Hx. destruct Hx as [<-|[<-|Hx]]; [right; left; exact Rx | right; left; exact Rx|].
      apply in_app_iff in Hx. destruct Hx as [Hx|Hx]; [left; exact Hx|].
      apply in_concat in Hx. destruct Hx as [t [Ht Hxt]].
      destruct (branch_tasks_in _ _ _ _ _ _ Ht) as [idx [b [Hb ->]]].
      simpl in Hxt. destruct Hxt as [<-|[<-|[<-|[]]]]; simpl in Rx; try discriminate. right. left. exact Rx.
  - destruct (do_add_out s res c) as [[s2 sp2]|] eqn:A; [|discriminate]. inversion H; subst; clear H.
    simpl in Hx. destruct Hx as [<-|Hx]; [discriminate|]. apply in_app_iff in Hx.
    destruct Hx as [Hx|Hx]; [left; exact Hx|]. rewrite (do_add_out_rf _ _ _ _ _ _ A Hx) in Rx. discriminate.
  - inversion H; subst; clear H. rin_split Hx.
  - dmatch H; rin_split Hx.
  - destruct (do_add_out s res c) as [[s2 sp2]|] eqn:A; [|discriminate]. inversion H; subst; clear H.
    apply in_app_iff in Hx. destruct Hx as [Hx|Hx]; [left; exact Hx|]. rewrite (do_add_out_rf _ _ _ _ _ _ A Hx) in Rx. discriminate.
  - inversion H; subst; clear H. rin_split Hx.
  - dmatch H; rin_split Hx.
  - destruct (do_add_out s child parent) as [[s2 sp2]|] eqn:A; [|discriminate]. inversion H; subst; clear H.
    apply in_app_iff in Hx. destruct Hx as [Hx|Hx]; [left; exact Hx|]. rewrite (do_add_out_rf _ _ _ _ _ _ A Hx) in Rx. discriminate.
  - dmatch H; rin_split Hx.
  - inversion H; subst; clear H. rin_split Hx.
  - destruct (nth jid (s_joins s) (0, false)) as [nb failed]. destruct (Nat.eqb nb 0); [|discriminate].
    destruct failed; [|inversion H; subst; clear H; rin_split Hx].
    destruct (do_fail_rin _ _ _ _ _ _ _ _ _ H Hx Rx) as [Q|Q]; [left; exact Q | right; left; simpl; congruence].
  - inversion H; subst; clear H. rin_split Hx.
  - destruct (nth jid (s_joins s) (0, false)) as [nb failed]. inversion H; subst; clear H. rin_split Hx.
  - dmatch H; rin_split Hx.
  - dmatch H; rin_split Hx.
  - inversion H; subst; clear H. rin_split Hx.
  - dmatch H; rin_split Hx.
  - dmatch H; rin_split Hx.
  - inversion H; subst; clear H. rin_split Hx.
Qed.

Lemma step_top_hin : forall s f rest arg s1 st sp,
  step_top s f rest arg = Some (s1, st, sp) -> hin (s_nodes s) (s_nodes s1) (rf f).
Proof.
  intros s f rest arg s1 st sp H. unfold step_top, alloc in H.
  destruct f; cbv beta iota zeta in H; dmatch H;
    repeat match goal with
    | A : do_add_out _ _ _ = Some _ |- _ => apply (do_add_out_hin _ _ _ _ _ None) in A
    | A : inv_step _ _ _ = Some _ |- _ => apply (inv_step_hin _ _ _ _ _ _ None) in A
    | A : do_fail _ _ _ _ = Some _ |- _ => apply do_fail_nodes in A
    end;
    unfold g_rel_mark, g_handle_rel, g_handle_inv, g_rel_dep, g_add_out_released, upd_node, with_nodes, with_rr, with_slot, with_joins, getN in *;
    simpl in *;
    repeat match goal with
    | A : context [if ?b then _ else _] |- _ => destruct b
    | |- context [if ?b then _ else _] => destruct b
    end;
    repeat match goal with A : (_, _) = (_, _) |- _ => inversion A; subst; clear A end;
    simpl in *;
    try (match goal with A : s_nodes _ = s_nodes _ |- _ => rewrite A; apply hin_refl end);
    try assumption;
    try hin_tac;
    try (eapply hin_trans; [eassumption | hin_tac]).
Qed.

Lemma step_rin : forall s l s', rin_inv s -> step s l = Some s' -> rin_inv s'.
Proof.
  intros s l s' [A B] H. unfold rin_inv, rin_on in *. rewrite (step_rrs_length _ _ _ H). destruct l.
  - destruct (step_task_frames _ _ _ _ H) as [f [rest [s1 [st [sp [others [dropped [P1 [T [D1 [D2 [P2 [N _]]]]]]]]]]]]].
    assert (Fin : In f (all_frames s)) by (eapply Permutation_in; [apply Permutation_sym; exact P1 | left; reflexivity]).
    assert (Old : forall x, In x (rest ++ others) -> In x (all_frames s)) by (intros x Hx; eapply Permutation_in; [apply Permutation_sym; exact P1 | right; exact Hx]).
    split.
    + intros x r Hx Rx. assert (Hx' := Permutation_in _ P2 Hx). rewrite !in_app_iff in Hx'.
      assert (Nw : In x (st ++ concat sp) -> r < length (s_rrs s)).
      { intros Q. destruct (step_top_rin _ _ _ _ _ _ _ _ _ T Q Rx) as [Q'|[Q'|[m Q']]].
        - eapply A; [apply Old; apply in_app_iff; left; exact Q' | exact Rx].
        - eapply A; [exact Fin | exact Q'].
        - eapply B; exact Q'. }
      destruct Hx' as [Q|[Q|Q]]; [apply Nw; apply in_app_iff; left; apply in_norm; exact Q | eapply A; [apply Old; apply in_app_iff; right; exact Q | exact Rx] | apply Nw; apply in_app_iff; right; exact Q].
    + intros n r Hh. rewrite N in Hh. destruct (step_top_hin _ _ _ _ _ _ _ T n r Hh) as [Q|Q]; [eapply B; exact Q | eapply A; [exact Fin | exact Q]].
  - simpl in H. destruct (Nat.ltb slot (length (s_slots s))); [|discriminate]. inversion H; subst; clear H. rewrite frames_spawn. simpl.
    split; [|exact B]. intros x r Hx Rx. apply in_app_iff in Hx. destruct Hx as [Hx|[<-|[]]]; [eapply A; eauto | discriminate].
  - simpl in H. destruct (Nat.ltb slot (length (s_slots s))); [|discriminate]. inversion H; subst; clear H. rewrite frames_spawn. simpl.
    split; [intros x r Hx Rx; apply in_app_iff in Hx; destruct Hx as [Hx|[<-|[]]]; [eapply A; eauto | discriminate]|].
    intros n r Hh. rewrite getn_app_new in Hh. destruct (Nat.eqb n (length (s_nodes s))); [discriminate | eapply B; exact Hh].
  - simpl in H. destruct (Nat.ltb r (length (s_rrs s))) eqn:Lr; [|discriminate]. inversion H; subst; clear H. rewrite frames_spawn. simpl.
    split; [|exact B]. intros x r0 Hx Rx. apply in_app_iff in Hx. destruct Hx as [Hx|[<-|[]]]; [eapply A; eauto|].
    inversion Rx; subst. apply Nat.ltb_lt. exact Lr.
  - simpl in H. destruct (Nat.ltb r (length (s_rrs s))); [|discriminate].
    destruct (r_clock (getr s r)); [discriminate|]. inversion H; subst; clear H. split; assumption.
  - simpl in H. destruct (Nat.eqb (n_timer (getN s n)) 1); [|discriminate]. inversion H; subst; clear H. rewrite frames_spawn. simpl.
    split; [intros x r Hx Rx; apply in_app_iff in Hx; destruct Hx as [Hx|[<-|[]]]; [eapply A; eauto | discriminate]|].
    intros m r Hh. rewrite getn_setn in Hh. destruct (Nat.eqb n m && Nat.ltb n (length (s_nodes s))) eqn:E; [|eapply B; exact Hh].
    apply andb_true_iff in E. destruct E as [E _]. apply Nat.eqb_eq in E. subst. simpl in Hh. eapply B. exact Hh.
  - simpl in H. destruct (Nat.ltb slot (length (s_slots s))); [|discriminate]. inversion H; subst; clear H. rewrite frames_spawn. simpl.
    split; [|exact B]. intros x r Hx Rx. apply in_app_iff in Hx. destruct Hx as [Hx|[<-|[]]]; [eapply A; eauto | discriminate].
  - simpl in H. destruct (Nat.ltb r (length (s_rrs s))); [|discriminate]. inversion H; subst; clear H. split; assumption.
Qed.

Lemma init_rin : forall k progs, rin_inv (init k progs).
Proof.
  intros k progs. unfold rin_inv, rin_on, all_frames, init. simpl. rewrite map_length. split.
  - intros f r Hf Rf. assert (G : forall n j, In f (concat (map snd (init_tasks n j))) -> rf f = Some r -> j <= r < j + n).
    { induction n as [|n IH]; intros j Q Rq; simpl in Q; [contradiction|]. destruct Q as [<-|Q]; [inversion Rq; lia | specialize (IH _ Q Rq); lia]. }
    specialize (G _ _ Hf Rf). lia.
  - intros n r Hh. destruct (init_nodes_rel (k) 0 n) as [_ Q]. rewrite Q in Hh. discriminate.
Qed.

Lemma reachable_rin : forall k progs s, reachable (init k progs) s -> rin_inv s.
Proof. intros k progs s R. induction R as [|s l s' R IH H]; [apply init_rin | eapply step_rin; eauto]. Qed.

(** ** flags only go up *)
Definition mono4 (g g' : graph) : Prop :=
  forall c, c < length g ->
    (n_rel (getn g c) = true -> n_rel (getn g' c) = true) /\ (n_had (getn g c) = true -> n_had (getn g' c) = true) /\
    (n_hrel (getn g c) <> None -> n_hrel (getn g' c) <> None) /\ (n_timer (getn g c) <> 0 -> n_timer (getn g' c) <> 0).

Lemma mono4_refl : forall g, mono4 g g.
Proof. intros g c _. repeat split; auto. Qed.
Lemma mono4_trans : forall a b c, length a <= length b -> mono4 a b -> mono4 b c -> mono4 a c.
Proof.
  intros a b c L H1 H2 x Hx. destruct (H1 x Hx) as [A1 [A2 [A3 A4]]]. destruct (H2 x ltac:(lia)) as [B1 [B2 [B3 B4]]]. repeat split; auto.
Qed.
Lemma mono4_setn : forall g i x,
  (n_rel (getn g i) = true -> n_rel x = true) -> (n_had (getn g i) = true -> n_had x = true) ->
  (n_hrel (getn g i) <> None -> n_hrel x <> None) -> (n_timer (getn g i) <> 0 -> n_timer x <> 0) -> mono4 g (setn g i x).
Proof.
  intros g i x H1 H2 H3 H4 c _. rewrite getn_setn. destruct (Nat.eqb i c && Nat.ltb i (length g)) eqn:E; [|repeat split; auto].
  apply andb_true_iff in E. destruct E as [E _]. apply Nat.eqb_eq in E. subst. repeat split; assumption.
Qed.
Lemma mono4_alloc : forall g x, mono4 g (g ++ [x]).
Proof.
  intros g x c Hc. rewrite getn_app_new. assert (E : Nat.eqb c (length g) = false) by (apply Nat.eqb_neq; lia). rewrite E. repeat split; auto.
Qed.

Ltac m4s := apply mono4_setn; simpl; intros Q; first [exact Q | reflexivity | discriminate].
Ltac mono4_tac :=
  first
    [ apply mono4_refl
    | m4s
    | apply mono4_alloc
    | eapply mono4_trans; [ | | first [m4s | apply mono4_alloc] ]; [rewrite ?length_setn, ?app_length; simpl; lia | mono4_tac] ].

Lemma inv_step_mono4 : forall s n k s1 st sp, inv_step s n k = Some (s1, st, sp) -> mono4 (s_nodes s) (s_nodes s1).
Proof.
  intros s n k s1 st sp H. unfold inv_step in H.
  destruct (Nat.ltb n (length (s_nodes s))); [|discriminate].
  destruct (n_inv (getN s n)); [inversion H; subst; apply mono4_refl|].
  destruct (n_hinv (getN s n)) as [r|]; [destruct (r_spawn (getr s r))|]; inversion H; subst; simpl; unfold g_inv_mark; mono4_tac.
Qed.

Lemma do_add_out_mono4 : forall s n to s1 sp, do_add_out s n to = Some (s1, sp) ->
  mono4 (s_nodes s) (s_nodes s1) /\ n_had (getn (s_nodes s1) n) = true.
Proof.
  intros s n to s1 sp H. unfold do_add_out in H.
  destruct (Nat.ltb n (length (s_nodes s)) && Nat.ltb to (length (s_nodes s)) && negb (Nat.eqb n to)) eqn:Gd; [|discriminate].
  apply andb_true_iff in Gd. destruct Gd as [Gd Nq]. apply negb_true_iff in Nq. apply Nat.eqb_neq in Nq.
  apply andb_true_iff in Gd. destruct Gd as [G1 G2]. apply Nat.ltb_lt in G1. apply Nat.ltb_lt in G2.
  destruct (g_add_out (s_nodes s) n to) as [g [[a b] c]] eqn:A. inversion H; subst; clear H. simpl.
  unfold g_add_out in A. destruct (negb (n_rel (getn (s_nodes s) to))); inversion A; subst; clear A.
  - split; [mono4_tac|]. rewrite getn_setn_neq by congruence. rewrite getn_setn_eq by exact G1. reflexivity.
  - split; [mono4_tac|]. rewrite getn_setn_eq by exact G1. reflexivity.
Qed.

Lemma step_top_mono4 : forall s f rest arg s1 st sp,
  step_top s f rest arg = Some (s1, st, sp) -> mono4 (s_nodes s) (s_nodes s1).
Proof.
  intros s f rest arg s1 st sp H. unfold step_top, alloc in H.
  destruct f; cbv beta iota zeta in H; dmatch H;
    repeat match goal with
    | A : do_add_out _ _ _ = Some _ |- _ => let L := fresh "L" in assert (L := do_add_out_edge_len _ _ _ _ _ A); apply do_add_out_mono4 in A; destruct A as [A _]
    | A : inv_step _ _ _ = Some _ |- _ => apply inv_step_mono4 in A
    | A : do_fail _ _ _ _ = Some _ |- _ => apply do_fail_nodes in A
    end;
    unfold g_rel_mark, g_handle_rel, g_handle_inv, g_rel_dep, g_add_out_released, upd_node, with_nodes, with_rr, with_slot, with_joins, getN in *;
    simpl in *;
    repeat match goal with
    | A : context [if ?b then _ else _] |- _ => destruct b
    | |- context [if ?b then _ else _] => destruct b
    end;
    repeat match goal with A : (_, _) = (_, _) |- _ => inversion A; subst; clear A end;
    simpl in *;
    try (match goal with A : s_nodes _ = s_nodes _ |- _ => rewrite A; apply mono4_refl end);
    try assumption;
    try mono4_tac;
    try (eapply mono4_trans; [ | eassumption | mono4_tac]; lia).
Qed.

(** ** the error return hands every computation it abandons to release() *)
Lemma unwind_homes : forall r stk cs ks below term,
  unwind r stk = Some (cs, ks, below, term) ->
  forall x c, In x stk -> is_home c x = true -> In x below \/ In c cs.
Proof.
  induction stk as [|h t IH]; simpl; intros cs ks below term H x c Hx Hc; [contradiction|].
  destruct h; try discriminate.
  - destruct (Nat.eqb r r0); [|discriminate]. destruct Hx as [<-|Hx]; [discriminate|]. eapply IH; eauto.
  - destruct (Nat.eqb r r0); [|discriminate]. destruct (unwind r t) as [[[[cs' ks'] b'] t']|] eqn:U; [|discriminate].
    inversion H; subst; clear H. destruct Hx as [<-|Hx].
    + right. unfold is_home in Hc. simpl in Hc. apply Nat.eqb_eq in Hc. subst. left. reflexivity.
    + destruct (IH _ _ _ _ eq_refl x c Hx Hc) as [Q|Q]; [left; exact Q | right; right; exact Q].
  - destruct (Nat.eqb r r0); [|discriminate]. destruct (unwind r t) as [[[[cs' ks'] b'] t']|] eqn:U; [|discriminate].
    inversion H; subst; clear H. destruct Hx as [<-|Hx]; [discriminate|]. eapply IH; eauto.
  - inversion H; subst; clear H. destruct Hx as [<-|Hx]; [discriminate | left; exact Hx].
  - destruct (Nat.eqb r r0); [|discriminate]. inversion H; subst; clear H. destruct Hx as [<-|Hx]; [|left; exact Hx].
    right. unfold is_home in Hc. simpl in Hc. apply Nat.eqb_eq in Hc. subst. left. reflexivity.
Qed.

Lemma do_fail_homes : forall s r stk b s1 st sp x c,
  do_fail s r stk b = Some (s1, st, sp) -> In x stk -> is_home c x = true -> In x st \/ In (FRelEnter c) (concat sp).
Proof.
  intros s r stk b s1 st sp x c H Hx Hc. unfold do_fail in H.
  destruct (unwind r stk) as [[[[cs ks] below] term]|] eqn:U; [|discriminate].
  assert (Rl : forall cs0, In c cs0 -> In (FRelEnter c) (concat (map (fun c0 => [FRelEnter c0]) cs0))).
  { induction cs0 as [|h t IH]; simpl; [tauto|]. intros [->|Q]; [left; reflexivity | right; apply IH; exact Q]. }
  destruct (unwind_homes _ _ _ _ _ _ U x c Hx Hc) as [Q|Q].
  - left. destruct term as [jid|]; [inversion H; subst; right; exact Q | destruct b; inversion H; subst; right; exact Q].
  - right. destruct term as [jid|]; [inversion H; subst; apply Rl; exact Q|].
    destruct b; inversion H; subst; [rewrite concat_app; apply in_app_iff; left|]; apply Rl; exact Q.
Qed.

(** a rerunner's computation changes only by publishing or stopping, and the old one goes to release() *)
Lemma setl_comp : forall rrs r0 y r c,
  r_comp y = r_comp (nth r0 rrs drr) -> r_comp (nth r rrs drr) = Some c -> r_comp (nth r (setl rrs r0 y) drr) = Some c.
Proof.
  intros rrs r0 y r c Hy H. rewrite nth_setl. destruct (Nat.eqb r0 r && Nat.ltb r0 (length rrs)) eqn:E; [|exact H].
  apply andb_true_iff in E. destruct E as [E _]. apply Nat.eqb_eq in E. subst. rewrite Hy. exact H.
Qed.

Lemma do_fail_comp : forall s r stk b s1 st sp, do_fail s r stk b = Some (s1, st, sp) ->
  exists y, s_rrs s1 = setl (s_rrs s) r y /\ r_comp y = r_comp (getr s r).
Proof.
  intros s r stk b s1 st sp H.
  destruct (do_fail_spec _ _ _ _ _ _ _ H) as [cs [ks [below [term [y [U [N [Sl [R [Y1 [Y2 _]]]]]]]]]]].
  exists y. split; assumption.
Qed.

Lemma step_top_comp : forall s f rest arg s1 st sp r c,
  step_top s f rest arg = Some (s1, st, sp) -> r_comp (getr s r) = Some c ->
  r_comp (getr s1 r) = Some c \/ In (FRelEnter c) (concat sp).
Proof.
  intros s f rest arg s1 st sp r c H Hc.
  unfold step_top, alloc, opt_task in H. unfold getr in *.
  destruct f; cbv beta iota zeta in H; dmatch H;
    repeat match goal with
    | A : do_add_out _ _ _ = Some _ |- _ => apply do_add_out_rrs in A; destruct A as [A _]
    | A : inv_step _ _ _ = Some _ |- _ => apply inv_step_counts in A; destruct A as [A _]
    | A : do_fail _ _ _ _ = Some _ |- _ => apply do_fail_comp in A; destruct A as [? [A ?]]
    end;
    unfold getr, with_rr, with_nodes, upd_node, with_slot, with_joins in *; simpl in *;
    try match goal with A : s_rrs _ = _ |- _ => rewrite A end;
    try (left; exact Hc);
    try (left; apply setl_comp; [reflexivity || assumption | exact Hc]);
    (* publish / stop *)
    rewrite nth_setl;
    match goal with |- context [if ?b then _ else _] => destruct b eqn:E end; try (left; exact Hc);
    apply andb_true_iff in E; destruct E as [E _]; apply Nat.eqb_eq in E; subst; simpl;
    right; rewrite Hc; simpl; left; reflexivity.
Qed.

Lemma publish_sets : forall s r c rest arg s1 st sp,
  step_top s (FRunEnd r c) rest arg = Some (s1, st, sp) -> r < length (s_rrs s) -> r_comp (getr s1 r) = Some c.
Proof.
  intros s r c rest arg s1 st sp H Lr. simpl in H. inversion H; subst; clear H. unfold getr, with_rr. simpl.
  rewrite nth_setl, Nat.eqb_refl. apply Nat.ltb_lt in Lr. rewrite Lr. reflexivity.
Qed.

(** ** every computation node that has not been released has a holder *)
Definition holds (c : nat) (f : frame) : Prop :=
  is_home c f = true \/ (exists p, f = FCacheLink c p) \/ relpend c f = true.

Definition own_on (g : graph) (rrs : list rr) (fr : list frame) : Prop :=
  forall c, c < length g -> n_hrel (getn g c) = None -> n_timer (getn g c) = 0 ->
    n_rel (getn g c) = false -> n_had (getn g c) = false ->
    (exists r, r < length rrs /\ r_comp (nth r rrs drr) = Some c) \/ (exists f, In f fr /\ holds c f).

Definition own_inv (s : state) : Prop := own_on (s_nodes s) (s_rrs s) (all_frames s).

Lemma holds_not_exhausted : forall c f, holds c f -> exhausted f = false.
Proof. intros c f [H|[[p E]|H]]; [| subst f; reflexivity |]; destruct f; simpl in *; try discriminate; reflexivity. Qed.

Lemma in_norm_keep : forall st x, In x st -> exhausted x = false -> In x (norm st).
Proof.
  intros st x Hx Ne. destruct (norm_split st) as [d [E D]]. rewrite E in Hx. apply in_app_iff in Hx. destruct Hx as [Hx|Hx]; [|exact Hx].
  rewrite forallb_forall in D. rewrite (D _ Hx) in Ne. discriminate.
Qed.

(** a node allocated by the step that looks like a computation has its home on the new stack *)
Lemma step_top_alloc : forall s f rest arg s1 st sp c,
  step_top s f rest arg = Some (s1, st, sp) ->
  length (s_nodes s) <= c -> c < length (s_nodes s1) ->
  n_hrel (getn (s_nodes s1) c) = None -> n_timer (getn (s_nodes s1) c) = 0 ->
  exists x, In x st /\ is_home c x = true.
Proof.
  intros s f rest arg s1 st sp c H L1 L2 Hh Ht.
  assert (Ne : length (s_nodes s1) <> length (s_nodes s)) by lia.
  unfold step_top, alloc in H.
  Ltac len_same H Ne :=
    exfalso; apply Ne; dmatch H;
    repeat match goal with
    | A : do_add_out _ _ _ = Some _ |- _ => apply do_add_out_edge_len in A
    | A : inv_step _ _ _ = Some _ |- _ => apply inv_step_len in A
    | A : do_fail _ _ _ _ = Some _ |- _ => apply do_fail_nodes in A
    end;
    unfold g_rel_mark, g_handle_rel, g_handle_inv, g_rel_dep, g_add_out_released, upd_node, with_nodes, with_rr, with_slot, with_joins, getN in *;
    simpl in *;
    repeat match goal with
    | A : context [if ?b then _ else _] |- _ => destruct b
    | |- context [if ?b then _ else _] => destruct b
    end;
    repeat match goal with A : (_, _) = (_, _) |- _ => inversion A; subst; clear A end;
    simpl in *; rewrite ?length_setn in *; try reflexivity; try congruence.
  destruct f; cbv beta iota zeta in H.
  - len_same H Ne.
  - len_same H Ne.
  - len_same H Ne.
  - len_same H Ne.
  - (* FCleanup: the fresh resource has a handler *)
    destruct (Nat.eqb (slot_res (upd_node s n (inc_cln (getN s n))) slot) n); inversion H; subst; clear H; simpl in *.
    + exfalso. rewrite app_length, length_setn in L2. simpl in L2. assert (Ec : c = length (s_nodes s)) by lia. subst c.
      rewrite getn_app_new, length_setn, Nat.eqb_refl in Hh. discriminate.
    + exfalso. apply Ne. apply length_setn.
  - len_same H Ne.
  - len_same H Ne.
  - len_same H Ne.
  - len_same H Ne.
  - len_same H Ne.
  - (* FBegin *)
    inversion H; subst; clear H. simpl in *. rewrite app_length in L2. simpl in L2. assert (Ec : c = length (s_nodes s)) by lia. subst c.
    eexists. split; [right; left; reflexivity | unfold is_home; simpl; apply Nat.eqb_refl].
  - (* FScript: only InvalidateAfter allocates, and its resource has its timer armed *)
    destruct p as [|o q]; [discriminate|]. destruct o.
    + len_same H Ne.
    + destruct (Nat.eqb arg 0); inversion H; subst; clear H; simpl in *; [exfalso; apply Ne; reflexivity|].
      exfalso. rewrite app_length in L2. simpl in L2. assert (Ec : c = length (s_nodes s)) by lia. subst c.
      rewrite getn_app_new, Nat.eqb_refl in Ht. discriminate.
    + len_same H Ne.
    + len_same H Ne.
    + len_same H Ne.
    + len_same H Ne.
  - len_same H Ne.
  - len_same H Ne.
  - len_same H Ne.
  - len_same H Ne.
  - (* FChildBegin *)
    inversion H; subst; clear H. simpl in *. rewrite app_length in L2. simpl in L2. assert (Ec : c = length (s_nodes s)) by lia. subst c.
    eexists. split; [right; left; reflexivity | unfold is_home; simpl; apply Nat.eqb_refl].
  - len_same H Ne.
  - len_same H Ne.
  - len_same H Ne.
  - len_same H Ne.
  - len_same H Ne.
  - len_same H Ne.
  - len_same H Ne.
  - len_same H Ne.
  - len_same H Ne.
  - len_same H Ne.
  - len_same H Ne.
  - len_same H Ne.
  - len_same H Ne.
Qed.

Lemma do_fail_holds : forall s r stk b s1 st sp x c,
  do_fail s r stk b = Some (s1, st, sp) -> In x stk -> holds c x -> In x st \/ In (FRelEnter c) (concat sp).
Proof.
  intros s r stk b s1 st sp x c H Hx [Hh|Hh]; [eapply do_fail_homes; eauto|]. left.
  destruct (do_fail_spec _ _ _ _ _ _ _ H) as [cs [ks [below [term [y [U [N [Sl [R [Y1 [Y2 [Y3 [Y4 [Y5 [Y6 [Y7 [Y8 T]]]]]]]]]]]]]]]]].
  destruct (unwind_split _ _ _ _ _ _ U) as [d [l [E [Fd [L _]]]]].
  assert (Bl : In x below -> In x st).
  { intros Q. destruct term as [jid|]; [destruct T as [-> _] | destruct T as [-> _]]; right; exact Q. }
  rewrite E in Hx. apply in_app_iff in Hx. destruct Hx as [Hx|[Hx|Hx]]; [| |apply Bl; exact Hx].
  - exfalso. rewrite forallb_forall in Fd. specialize (Fd _ Hx). destruct Hh as [[p ->]|Hh]; [discriminate | destruct x; simpl in *; discriminate].
  - exfalso. subst x. destruct term as [jid|]; simpl in L; [subst l | destruct L as [c0 ->]]; destruct Hh as [[p Q]|Hh]; discriminate.
Qed.

Lemma step_top_rest_holds : forall s f rest arg s1 st sp x c,
  step_top s f rest arg = Some (s1, st, sp) -> In x rest -> holds c x -> In x st \/ In (FRelEnter c) (concat sp).
Proof.
  intros s f rest arg s1 st sp x c H Hx Hh.
  unfold step_top, alloc in H.
  destruct f; cbv beta iota zeta in H; dmatch H;
    try (left; simpl; tauto);
    try (match goal with A : inv_step _ _ _ = Some _ |- _ => left; apply (proj2 (inv_step_link _ _ _ _ _ _ A)); right; exact Hx end);
    try (match goal with A : do_fail _ _ (_ :: rest) _ = Some _ |- _ => eapply do_fail_holds; [exact A | right; exact Hx | exact Hh] end);
    try (match goal with A : do_fail _ _ rest _ = Some _ |- _ => eapply do_fail_holds; [exact A | exact Hx | exact Hh] end).
Qed.

(** what the stepping frame, if it holds c, turns into *)
Lemma step_top_top_holds : forall s f rest arg s1 st sp c,
  step_top s f rest arg = Some (s1, st, sp) -> holds c f -> c < length (s_nodes s) ->
  (forall r, rf f = Some r -> r < length (s_rrs s)) ->
  (exists r, r < length (s_rrs s) /\ r_comp (getr s1 r) = Some c) \/
  (exists x, In x st /\ holds c x) \/
  n_had (getn (s_nodes s1) c) = true \/ n_rel (getn (s_nodes s1) c) = true.
Proof.
  intros s f rest arg s1 st sp c H Hh Lc Rin.
  destruct Hh as [Hh|[[p ->]|Hh]].
  - (* a home *)
    destruct f; unfold is_home in Hh; simpl in Hh; try discriminate; apply Nat.eqb_eq in Hh; subst.
    + (* FCacheSet *) simpl in H. right. left. exists (FCacheLink child parent). split; [|right; left; eexists; reflexivity].
      destruct (cache_get (r_cache (getr s r)) key); inversion H; subst; left; reflexivity.
    + (* FRunEnd *) left. exists r. split; [apply Rin; reflexivity|]. eapply publish_sets; [exact H | apply Rin; reflexivity].
  - (* FCacheLink c p: c is now a dependency *)
    simpl in H. destruct (do_add_out s c p) as [[s2 sp2]|] eqn:A; [|discriminate]. inversion H; subst; clear H.
    right. right. left. destruct (do_add_out_mono4 _ _ _ _ _ A) as [_ Hd]. simpl. unfold getN.
    rewrite getn_setn. destruct (Nat.eqb p c && Nat.ltb p (length (s_nodes s2))) eqn:E; [|exact Hd].
    apply andb_true_iff in E. destruct E as [E _]. apply Nat.eqb_eq in E. subst. simpl. exact Hd.
  - destruct f; simpl in Hh; try discriminate; apply Nat.eqb_eq in Hh; subst.
    + (* FRelEnter *) simpl in H. right. left. exists (FRelMark n). split; [|right; right; simpl; apply Nat.eqb_refl].
      apply (proj2 (inv_step_link _ _ _ _ _ _ H)). left. reflexivity.
    + (* FRelMark *) right. right. right. simpl in H. destruct (n_rel (getN s n)) eqn:Rl; [inversion H; subst; exact Rl|].
      destruct (n_hrel (getN s n)) as [[sl|]|]; inversion H; subst; clear H; simpl; unfold g_rel_mark, getN; simpl;
        rewrite ?getn_setn_eq by (rewrite ?length_setn; exact Lc); simpl;
        rewrite ?getn_setn_eq by (rewrite ?length_setn; exact Lc); reflexivity.
Qed.

Lemma task_own : forall s tid arg s',
  rin_inv s -> own_inv s -> step s (LTask tid arg) = Some s' -> own_inv s'.
Proof.
  intros s tid arg s' [RA RB] Own H.
  destruct (step_task_frames _ _ _ _ H) as [f [rest [s1 [st [sp [others [dropped [P1 [T [D1 [D2 [P2 [N [R _]]]]]]]]]]]]]].
  assert (Fin : In f (all_frames s)) by (eapply Permutation_in; [apply Permutation_sym; exact P1 | left; reflexivity]).
  assert (Ln := step_top_len _ _ _ _ _ _ _ T).
  assert (M4 := step_top_mono4 _ _ _ _ _ _ _ T).
  assert (Lr := step_rrs_length _ _ _ H).
  assert (InNew : forall x, In x st -> exhausted x = false -> In x (all_frames s')).
  { intros x Hx Ne. eapply Permutation_in; [apply Permutation_sym; exact P2|]. apply in_app_iff. left. apply in_norm_keep; assumption. }
  assert (InSp : forall x, In x (concat sp) -> In x (all_frames s')).
  { intros x Hx. eapply Permutation_in; [apply Permutation_sym; exact P2|]. rewrite !in_app_iff. right. right. exact Hx. }
  assert (RelHolds : forall c, In (FRelEnter c) (concat sp) -> exists x, In x (all_frames s') /\ holds c x).
  { intros c Q. exists (FRelEnter c). split; [apply InSp; exact Q | right; right; simpl; apply Nat.eqb_refl]. }
  unfold own_inv, own_on. rewrite N, R. rewrite <- R, Lr, R.
  intros c Lc Hh Ht Hr Hd.
  destruct (Nat.lt_ge_cases c (length (s_nodes s))) as [Lo|Lo].
  - (* an old node *)
    destruct (M4 c Lo) as [M1 [M2 [M3 M5]]].
    assert (O1 : n_rel (getn (s_nodes s) c) = false) by (destruct (n_rel (getn (s_nodes s) c)); [rewrite M1 in Hr by reflexivity; discriminate | reflexivity]).
    assert (O2 : n_had (getn (s_nodes s) c) = false) by (destruct (n_had (getn (s_nodes s) c)); [rewrite M2 in Hd by reflexivity; discriminate | reflexivity]).
    assert (O3 : n_hrel (getn (s_nodes s) c) = None) by (destruct (n_hrel (getn (s_nodes s) c)) eqn:E; [exfalso; apply M3; [discriminate | exact Hh] | reflexivity]).
    assert (O4 : n_timer (getn (s_nodes s) c) = 0) by (destruct (n_timer (getn (s_nodes s) c)) eqn:E; [reflexivity | exfalso; apply M5; [discriminate | exact Ht]]).
    destruct (Own c Lo O3 O4 O1 O2) as [[r [Lrr Hc]]|[x [Hx Hhx]]].
    + destruct (step_top_comp _ _ _ _ _ _ _ r c T Hc) as [Q|Q]; [left; exists r; split; [exact Lrr | exact Q] | right; apply RelHolds; exact Q].
    + assert (Hx' := Permutation_in _ P1 Hx). destruct Hx' as [<-|Hx'].
      * destruct (step_top_top_holds _ _ _ _ _ _ _ c T Hhx Lo (fun r Q => RA f r Fin Q)) as [[r [Q1 Q2]]|[[y [Y1 Y2]]|[Q|Q]]].
        -- left. exists r. split; assumption.
        -- right. exists y. split; [apply InNew; [exact Y1 | eapply holds_not_exhausted; exact Y2] | exact Y2].
        -- congruence.
        -- congruence.
      * apply in_app_iff in Hx'. destruct Hx' as [Hx'|Hx'].
        -- destruct (step_top_rest_holds _ _ _ _ _ _ _ x c T Hx' Hhx) as [Q|Q]; [|right; apply RelHolds; exact Q].
           right. exists x. split; [apply InNew; [exact Q | eapply holds_not_exhausted; exact Hhx] | exact Hhx].
        -- right. exists x. split; [|exact Hhx]. eapply Permutation_in; [apply Permutation_sym; exact P2|]. rewrite !in_app_iff. right. left. exact Hx'.
  - (* a node the step allocated *)
    destruct (step_top_alloc _ _ _ _ _ _ _ c T Lo Lc Hh Ht) as [x [X1 X2]].
    right. exists x. split; [apply InNew; [exact X1 | eapply holds_not_exhausted; left; exact X2] | left; exact X2].
Qed.

Lemma env_own : forall g g' rrs rrs' fr extra,
  own_on g rrs fr ->
  (forall c, c < length g' -> n_hrel (getn g' c) = None -> n_timer (getn g' c) = 0 -> n_rel (getn g' c) = false -> n_had (getn g' c) = false ->
     c < length g /\ n_hrel (getn g c) = None /\ n_timer (getn g c) = 0 /\ n_rel (getn g c) = false /\ n_had (getn g c) = false) ->
  length rrs' = length rrs -> (forall r, r_comp (nth r rrs' drr) = r_comp (nth r rrs drr)) ->
  own_on g' rrs' (fr ++ extra).
Proof.
  intros g g' rrs rrs' fr extra Own Hg Lr Hc c Lc A1 A2 A3 A4.
  destruct (Hg c Lc A1 A2 A3 A4) as [L [B1 [B2 [B3 B4]]]].
  destruct (Own c L B1 B2 B3 B4) as [[r [Q1 Q2]]|[x [Q1 Q2]]].
  - left. exists r. split; [lia | rewrite Hc; exact Q2].
  - right. exists x. split; [apply in_app_iff; left; exact Q1 | exact Q2].
Qed.

Lemma step_own : forall s l s', rin_inv s -> own_inv s -> step s l = Some s' -> own_inv s'.
Proof.
  intros s l s' Ri Own H. destruct l.
  - eapply task_own; eauto.
  - simpl in H. destruct (Nat.ltb slot (length (s_slots s))); [|discriminate]. inversion H; subst; clear H.
    unfold own_inv. rewrite frames_spawn. simpl.
    apply (env_own (s_nodes s) _ (s_rrs s) _ (all_frames s)); [exact Own | intros c L A B C D; auto | reflexivity | reflexivity].
  - simpl in H. destruct (Nat.ltb slot (length (s_slots s))); [|discriminate]. inversion H; subst; clear H.
    unfold own_inv. rewrite frames_spawn. simpl.
    apply (env_own (s_nodes s) _ (s_rrs s) _ (all_frames s)); [exact Own | | reflexivity | reflexivity].
    intros c L A B C D. rewrite getn_app_new in *. destruct (Nat.eqb c (length (s_nodes s))) eqn:E; [discriminate|].
    apply Nat.eqb_neq in E. rewrite app_length in L. simpl in L. repeat split; auto. lia.
  - simpl in H. destruct (Nat.ltb r (length (s_rrs s))); [|discriminate]. inversion H; subst; clear H.
    unfold own_inv. rewrite frames_spawn. simpl.
    apply (env_own (s_nodes s) _ (s_rrs s) _ (all_frames s)); [exact Own | intros c L A B C D; auto | reflexivity | reflexivity].
  - simpl in H. destruct (Nat.ltb r (length (s_rrs s))); [|discriminate].
    destruct (r_clock (getr s r)); [discriminate|]. inversion H; subst; clear H.
    unfold own_inv. simpl. rewrite <- (app_nil_r (all_frames _)).
    apply (env_own (s_nodes s) _ (s_rrs s) _ (all_frames s)); [exact Own | intros c L A B C D; auto | apply length_setl|].
    intros r0. rewrite nth_setl. destruct (Nat.eqb r r0 && Nat.ltb r (length (s_rrs s))) eqn:E; [|reflexivity].
    apply andb_true_iff in E. destruct E as [E _]. apply Nat.eqb_eq in E. subst. reflexivity.
  - simpl in H. destruct (Nat.eqb (n_timer (getN s n)) 1) eqn:Tm; [|discriminate]. inversion H; subst; clear H.
    unfold own_inv. rewrite frames_spawn. simpl.
    apply (env_own (s_nodes s) _ (s_rrs s) _ (all_frames s)); [exact Own | | reflexivity | reflexivity].
    intros c L A B C D. rewrite length_setn in L. rewrite getn_setn in *.
    destruct (Nat.eqb n c && Nat.ltb n (length (s_nodes s))) eqn:E; [simpl in B; discriminate | auto].
  - simpl in H. destruct (Nat.ltb slot (length (s_slots s))); [|discriminate]. inversion H; subst; clear H.
    unfold own_inv. rewrite frames_spawn. simpl.
    apply (env_own (s_nodes s) _ (s_rrs s) _ (all_frames s)); [exact Own | intros c L A B C D; auto | reflexivity | reflexivity].
  - simpl in H. destruct (Nat.ltb r (length (s_rrs s))); [|discriminate]. inversion H; subst; clear H.
    unfold own_inv. simpl. rewrite <- (app_nil_r (all_frames _)).
    apply (env_own (s_nodes s) _ (s_rrs s) _ (all_frames s)); [exact Own | intros c L A B C D; auto | apply length_setl|].
    intros r0. rewrite nth_setl. destruct (Nat.eqb r r0 && Nat.ltb r (length (s_rrs s))) eqn:E; [|reflexivity].
    apply andb_true_iff in E. destruct E as [E _]. apply Nat.eqb_eq in E. subst. reflexivity.
Qed.

Lemma init_own : forall k progs, own_inv (init k progs).
Proof.
  intros k progs c Lc Hh. exfalso. unfold init in *. simpl in *.
  assert (G : forall n j i, i < length (init_nodes n j) -> n_hrel (getn (init_nodes n j) i) <> None).
  { induction n as [|n IH]; intros j i Li; simpl in *; [lia|]. destruct i as [|i]; [unfold getn; simpl; discriminate|].
    apply (IH (S j) i). lia. }
  exact (G _ _ _ Lc Hh).
Qed.

Lemma reachable_own : forall k progs s, reachable (init k progs) s -> own_inv s.
Proof.
  intros k progs s R. induction R as [|s l s' R IH H]; [apply init_own|].
  eapply step_own; [eapply reachable_rin; exact R | exact IH | exact H].
Qed.

(** ** a stopped rerunner holds no computation *)
Definition sc (x : rr) : Prop := r_stop x = true -> r_comp x = None.

Lemma setl_sc : forall rrs r0 y r, (sc (nth r0 rrs drr) -> sc y) -> sc (nth r rrs drr) -> sc (nth r (setl rrs r0 y) drr).
Proof.
  intros rrs r0 y r Hy H. rewrite nth_setl. destruct (Nat.eqb r0 r && Nat.ltb r0 (length rrs)) eqn:E; [|exact H].
  apply andb_true_iff in E. destruct E as [E _]. apply Nat.eqb_eq in E. subst. apply Hy. exact H.
Qed.

Lemma do_fail_sc : forall s r stk b s1 st sp, do_fail s r stk b = Some (s1, st, sp) ->
  exists y, s_rrs s1 = setl (s_rrs s) r y /\ r_comp y = r_comp (getr s r) /\ r_stop y = r_stop (getr s r).
Proof.
  intros s r stk b s1 st sp H.
  destruct (do_fail_spec _ _ _ _ _ _ _ H) as [cs [ks [below [term [y [U [N [Sl [R [Y1 [Y2 [Y3 _]]]]]]]]]]]].
  exists y. repeat split; assumption.
Qed.

Lemma step_top_sc : forall s f rest arg s1 st sp r,
  step_top s f rest arg = Some (s1, st, sp) -> sc (getr s r) ->
  (r_stop (getr s r) = true -> forall c, f <> FRunEnd r c) -> sc (getr s1 r).
Proof.
  intros s f rest arg s1 st sp r H Sc Nf.
  unfold step_top, alloc in H. unfold getr in *.
  destruct f; cbv beta iota zeta in H; dmatch H;
    repeat match goal with
    | A : do_add_out _ _ _ = Some _ |- _ => apply do_add_out_rrs in A; destruct A as [A _]
    | A : inv_step _ _ _ = Some _ |- _ => apply inv_step_counts in A; destruct A as [A _]
    | A : do_fail _ _ _ _ = Some _ |- _ => apply do_fail_sc in A; destruct A as [? [A [? ?]]]
    end;
    unfold getr, with_rr, with_nodes, upd_node, with_slot, with_joins in *; simpl in *;
    try match goal with A : s_rrs _ = _ |- _ => rewrite A end;
    try exact Sc;
    try (apply setl_sc; [|exact Sc]; unfold sc; simpl; intros Q1 Q2; first [reflexivity | solve [auto] | congruence | (repeat match goal with A : r_comp _ = r_comp _ |- _ => rewrite A end; repeat match goal with A : r_stop _ = r_stop _ |- _ => rewrite A in * end; solve [auto])]).
  (* publish *)
  rewrite nth_setl. destruct (Nat.eqb r0 r && Nat.ltb r0 (length (s_rrs s))) eqn:E; [|exact Sc].
  apply andb_true_iff in E. destruct E as [E _]. apply Nat.eqb_eq in E. subst r0. unfold sc. simpl. intros St.
  exfalso. eapply Nf; [exact St | reflexivity].
Qed.

Lemma step_sc : forall s l s', mutex_inv s -> (forall r, sc (getr s r)) -> step s l = Some s' -> forall r, sc (getr s' r).
Proof.
  intros s l s' Mx Sc H r. destruct l.
  - destruct (step_task_frames _ _ _ _ H) as [f [rest [s1 [st [sp [others [dropped [P1 [T [_ [_ [_ [_ [R _]]]]]]]]]]]]]].
    unfold getr. rewrite R. eapply step_top_sc; [exact T | apply Sc|].
    intros St c E. subst f.
    destruct (Nat.lt_ge_cases r (length (s_rrs s))) as [L|L]; [|unfold getr in St; rewrite nth_overflow in St by exact L; discriminate].
    destruct (Mx r L) as [_ M2]. specialize (M2 St). rewrite (count_perm _ _ _ P1) in M2. simpl in M2. rewrite Nat.eqb_refl in M2. lia.
  - simpl in H. destruct (Nat.ltb slot (length (s_slots s))); [|discriminate]. inversion H; subst; clear H. apply Sc.
  - simpl in H. destruct (Nat.ltb slot (length (s_slots s))); [|discriminate]. inversion H; subst; clear H. apply Sc.
  - simpl in H. destruct (Nat.ltb r0 (length (s_rrs s))); [|discriminate]. inversion H; subst; clear H. apply Sc.
  - simpl in H. destruct (Nat.ltb r0 (length (s_rrs s))); [|discriminate].
    destruct (r_clock (getr s r0)); [discriminate|]. inversion H; subst; clear H. unfold getr, with_rr. simpl.
    apply setl_sc; [|apply Sc]. unfold sc. simpl. auto.
  - simpl in H. destruct (Nat.eqb (n_timer (getN s n)) 1); [|discriminate]. inversion H; subst; clear H. apply Sc.
  - simpl in H. destruct (Nat.ltb slot (length (s_slots s))); [|discriminate]. inversion H; subst; clear H. apply Sc.
  - simpl in H. destruct (Nat.ltb r0 (length (s_rrs s))); [|discriminate]. inversion H; subst; clear H. unfold getr, with_rr. simpl.
    apply setl_sc; [|apply Sc]. unfold sc. simpl. auto.
Qed.

Lemma reachable_sc : forall k progs s r, reachable (init k progs) s -> sc (getr s r).
Proof.
  intros k progs s r R. revert r. induction R as [|s l s' R IH H]; intros r.
  - unfold sc, getr, init. simpl. intros St. exfalso.
    assert (G : forall ps i, r_stop (nth i (map init_rr ps) drr) = false) by (induction ps as [|p t IHp]; intros [|i]; simpl; auto).
    rewrite G in St. discriminate.
  - eapply step_sc; [eapply reachable_mutex; exact R | exact IH | exact H].
Qed.

(** ** at quiescence *)
Fixpoint maxrk (rk : nat -> nat) (n : nat) : nat := match n with 0 => 0 | S k => Nat.max (rk k) (maxrk rk k) end.
Lemma maxrk_ge : forall rk n x, x < n -> rk x <= maxrk rk n.
Proof. induction n as [|n IH]; intros x Hx; [lia|]. simpl. destruct (Nat.eq_dec x n) as [->|Ne]; [lia | specialize (IH x ltac:(lia)); lia]. Qed.

(** EVERY UNRELEASED NODE IS HELD BY A LIVE RERUNNER: at quiescence a node that has not been released and is a
    computation (no release handler, no timer) or was used as a dependency is, through a chain of dependants, a
    dependency of the current computation of a rerunner that has not been stopped. *)
Lemma held_by_live_lemma : forall k progs s,
  progs_ok k progs -> reachable (init k progs) s -> quiescent s ->
  forall x, x < length (s_nodes s) -> n_rel (getN s x) = false ->
    n_had (getN s x) = true \/ (n_hrel (getN s x) = None /\ n_timer (getN s x) = 0) ->
    exists r top, r < length (s_rrs s) /\ r_stop (getr s r) = false /\ r_comp (getr s r) = Some top /\ reach (s_nodes s) x top.
Proof.
  intros k progs s Pk R Q.
  destruct (reachable_graph _ _ _ Pk R) as [OH [OC [rk RK]]].
  assert (Own := reachable_own _ _ _ R). assert (Rf := reachable_ref _ _ _ R).
  assert (Fr : all_frames s = []) by (unfold all_frames; unfold quiescent in Q; rewrite Q; reflexivity).
  assert (Main : forall n x, maxrk rk (length (s_nodes s)) - rk x < n -> x < length (s_nodes s) -> n_rel (getN s x) = false ->
            n_had (getN s x) = true \/ (n_hrel (getN s x) = None /\ n_timer (getN s x) = 0) ->
            exists r top, r < length (s_rrs s) /\ r_stop (getr s r) = false /\ r_comp (getr s r) = Some top /\ reach (s_nodes s) x top).
  { induction n as [|n IH]; intros x Hn Lx Rl Kd; [lia|].
    destruct (n_had (getN s x)) eqn:Hd.
    - (* used as a dependency: it still has a dependant *)
      destruct (n_out (getN s x)) as [|m t] eqn:Eo.
      + exfalso. destruct (Rf x) as [_ R2]. unfold getN in *. destruct (R2 Hd Eo) as [Q1|Q1]; [congruence | rewrite Fr in Q1; simpl in Q1; lia].
      + assert (Hm : In m (n_out (getN s x))) by (rewrite Eo; left; reflexivity).
        destruct (quiescent_out_registered _ _ _ _ _ R Q Hm) as [_ Rm].
        destruct (OC x m Hm) as [Lm [C1 C2]]. assert (Rk := RK x m Hm).
        assert (Bm := maxrk_ge rk _ _ Lm).
        destruct (IH m ltac:(lia) Lm Rm (or_intror (conj C1 C2))) as [r [top [A1 [A2 [A3 A4]]]]].
        exists r, top. repeat split; auto. eapply reach_edge; [exact Hm | exact A4].
    - (* never a dependency: a computation nobody adopted: the current computation of its rerunner *)
      destruct Kd as [Kd|[K1 K2]]; [discriminate|].
      destruct (Own x Lx K1 K2 Rl Hd) as [[r [Lr Hc]]|[f [Hf _]]]; [|rewrite Fr in Hf; contradiction].
      exists r, x. split; [exact Lr|]. split; [|split; [exact Hc | apply reach_refl]].
      destruct (r_stop (getr s r)) eqn:St; [|reflexivity]. assert (Sc := reachable_sc _ _ _ r R St). unfold getr in *. congruence. }
  intros x Lx Rl Kd. eapply (Main (S (maxrk rk (length (s_nodes s)) - rk x))); auto.
Qed.

(** A STOPPED RERUNNER HOLDS NOTHING AT QUIESCENCE: it has no computation, and whatever has not been released
    is held by the current computation of a rerunner that has not been stopped — every resource that was depended
    upon is either released with exactly one Cleanup call, or a dependency of such a computation. *)
Lemma stopped_holds_nothing_lemma : forall k progs s r0,
  progs_ok k progs -> reachable (init k progs) s -> quiescent s -> r_stop (getr s r0) = true ->
  r_comp (getr s r0) = None /\
  (forall x, x < length (s_nodes s) -> n_rel (getN s x) = false ->
     n_had (getN s x) = true \/ (n_hrel (getN s x) = None /\ n_timer (getN s x) = 0) ->
     exists r top, r <> r0 /\ r_stop (getr s r) = false /\ r_comp (getr s r) = Some top /\ reach (s_nodes s) x top) /\
  (forall n, n_had (getN s n) = true -> n_hrel (getN s n) <> None ->
     (n_rel (getN s n) = true /\ n_cln (getN s n) = 1) \/
     exists r top, r <> r0 /\ r_stop (getr s r) = false /\ r_comp (getr s r) = Some top /\ reach (s_nodes s) n top).
Proof.
  intros k progs s r0 Pk R Q St.
  assert (Held : forall x, x < length (s_nodes s) -> n_rel (getN s x) = false ->
     n_had (getN s x) = true \/ (n_hrel (getN s x) = None /\ n_timer (getN s x) = 0) ->
     exists r top, r <> r0 /\ r_stop (getr s r) = false /\ r_comp (getr s r) = Some top /\ reach (s_nodes s) x top).
  { intros x Lx Rl Kd. destruct (held_by_live_lemma _ _ _ Pk R Q x Lx Rl Kd) as [r [top [A1 [A2 [A3 A4]]]]].
    exists r, top. repeat split; auto. intros ->. congruence. }
  split; [exact (reachable_sc _ _ _ r0 R St)|]. split; [exact Held|].
  intros n Hd Hh. destruct (n_rel (getN s n)) eqn:Rl.
  - left. split; [reflexivity|]. destruct (reachable_ref _ _ _ R n) as [R1 _]. unfold getN in *.
    assert (Fr : all_frames s = []) by (unfold all_frames; unfold quiescent in Q; rewrite Q; reflexivity).
    rewrite Fr, Rl in R1. simpl in R1. destruct (n_hrel (getn (s_nodes s) n)); [simpl in R1; lia | congruence].
  - right. apply Held; [|exact Rl | left; exact Hd].
    destruct (Nat.lt_ge_cases n (length (s_nodes s))) as [L|L]; [exact L|]. unfold getN in Hd. rewrite getn_out_of_range in Hd by exact L. discriminate.
Qed.

(** ... in particular, when every rerunner has been stopped, everything is released and every Cleanup ran once *)
Lemma all_stopped_all_released_lemma : forall k progs s,
  progs_ok k progs -> reachable (init k progs) s -> quiescent s ->
  (forall r, r < length (s_rrs s) -> r_stop (getr s r) = true) ->
  forall n, n < length (s_nodes s) ->
    (n_had (getN s n) = true \/ (n_hrel (getN s n) = None /\ n_timer (getN s n) = 0)) ->
    n_rel (getN s n) = true /\ (n_hrel (getN s n) <> None -> n_cln (getN s n) = 1).
Proof.
  intros k progs s Pk R Q All n Ln Kd.
  assert (Rl : n_rel (getN s n) = true).
  { destruct (n_rel (getN s n)) eqn:E; [reflexivity|]. exfalso.
    destruct (held_by_live_lemma _ _ _ Pk R Q n Ln E Kd) as [r [top [A1 [A2 _]]]]. rewrite (All r A1) in A2. discriminate. }
  split; [exact Rl|]. intros Hh. destruct (reachable_ref _ _ _ R n) as [R1 _]. unfold getN in *.
  assert (Fr : all_frames s = []) by (unfold all_frames; unfold quiescent in Q; rewrite Q; reflexivity).
  rewrite Fr, Rl in R1. simpl in R1. destruct (n_hrel (getn (s_nodes s) n)); [simpl in R1; lia | congruence].
Qed.

(** ** the progress theorems without the hypothesis [no_self_hit] *)
From Thunder Require Import Reactive.Measure Reactive.ProofsMeasure Reactive.ProofsCacheKeys Reactive.ProofsLiveness.

Lemma progress_full_lemma : forall k progs s,
  progs_ok k progs -> reachable (init k progs) s -> ~ quiescent s ->
  exists tid arg s', step s (LTask tid arg) = Some s'.
Proof. intros k progs s Pk R Nq. apply (progress_lemma k progs s Pk R (reachable_no_self_hit _ _ _ Pk R)). exact Nq. Qed.

Lemma no_awake_label_means_settled_full : forall k progs s,
  progs_ok k progs -> reachable (init k progs) s ->
  (forall tid arg s', step s (LTask tid arg) = Some s' -> is_expiry s (LTask tid arg) = true) -> settled s = true.
Proof. intros k progs s Pk R St. eapply no_awake_label_means_settled_lemma; eauto. eapply reachable_no_self_hit; eauto. Qed.

Lemma every_execution_settles_full : forall k progs s ls s' n,
  progs_ok k progs -> reachable (init k progs) s -> irun s ls = Some (s', n) ->
  (forall tid arg s'', step s' (LTask tid arg) = Some s'' -> is_expiry s' (LTask tid arg) = true) ->
  length ls <= mu s + n * rerun_cost s /\ settled s' = true.
Proof.
  intros k progs s ls s' n Pk R H St. eapply every_execution_settles_lemma; eauto.
  eapply reachable_no_self_hit; [exact Pk|]. exact (proj2 (irun_bounded k progs ls s s' n R H)).
Qed.
