(** * Reactive/ProofsProgress.v — progress: in every reachable state that is not quiescent some task label is
    enabled (no deadlock).  Compute functions are finite scripts, so "user compute terminates" is built in;
    programs only name existing slots. *)
From Coq Require Import List Arith Bool Lia Permutation.
From Thunder Require Import Reactive.Graph Reactive.Rerunner Reactive.ProofsBase Reactive.ProofsEdge
  Reactive.ProofsMutex Reactive.ProofsArmed Reactive.ProofsClosed Reactive.ProofsShape.
Import ListNotations.

(** the only labels with a blocking enabling condition: r.mu.Lock() in Rerunner.run and in Stop *)
Definition blocked (s : state) (f : frame) : bool :=
  match f with
  | FRunLock r => r_mu (getr s r)
  | FStop r true => r_mu (getr s r)
  | _ => false
  end.

Lemma do_add_out_enabled : forall s n to,
  n < length (s_nodes s) -> to < length (s_nodes s) -> n <> to -> exists s1 sp, do_add_out s n to = Some (s1, sp).
Proof.
  intros s n to H1 H2 H3. unfold do_add_out.
  apply Nat.ltb_lt in H1. apply Nat.ltb_lt in H2. apply Nat.eqb_neq in H3. rewrite H1, H2, H3. simpl.
  destruct (g_add_out (s_nodes s) n to) as [g [[a b] c]]. eexists. eexists. reflexivity.
Qed.

Lemma inv_step_enabled : forall s n k, n < length (s_nodes s) -> exists s1 st sp, inv_step s n k = Some (s1, st, sp).
Proof.
  intros s n k H. unfold inv_step. apply Nat.ltb_lt in H. rewrite H.
  destruct (n_inv (getN s n)); [do 3 eexists; reflexivity|].
  destruct (n_hinv (getN s n)) as [r|]; [destruct (r_spawn (getr s r))|]; do 3 eexists; reflexivity.
Qed.

Lemma clean_le_anchor : forall r fr,
  count (is_clean r) fr + count (fun f => match f with FCleanStart r' => Nat.eqb r r' | _ => false end) fr <= count (anchor r) fr.
Proof.
  intros r. induction fr as [|f t IH]; simpl; [lia|].
  destruct f; simpl; try lia; destruct (Nat.eqb r r0); simpl; lia.
Qed.

(** a top frame that is not waiting for r.mu has an enabled label *)
Lemma top_enabled : forall s f rest,
  closed_on (s_nodes s) (s_slots s) (s_rrs s) (all_frames s) ->
  mutex_on (s_rrs s) (all_frames s) ->
  In f (all_frames s) -> norm (f :: rest) = f :: rest -> blocked s f = false ->
  exists arg r, step_top s f rest arg = Some r.
Proof.
  intros s f rest [A [B [C [D [E F]]]]] Mx Hin Nm Nb.
  assert (Fo := C f Hin). unfold step_top.
  destruct f; simpl in Fo.
  - destruct l as [|x l']; [simpl in Nm; destruct rest; try discriminate; exfalso; clear - Nm;
      (* norm of FInvList [] :: rest is norm rest, which is a suffix of rest and cannot be FInvList [] :: rest *)
      assert (K : forall st, length (norm st) <= length st) by
        (induction st as [|g t IH]; simpl; [lia|]; destruct g; simpl; try lia;
         [destruct l; simpl; lia | destruct froms; simpl; lia | destruct p; simpl; lia]);
      match type of Nm with norm ?a = ?b => assert (Q := K a); rewrite Nm in Q; simpl in Q; lia end|].
    exists x. simpl. rewrite Nat.eqb_refl. simpl.
    destruct (inv_step_enabled s x (FInvList (remove1 x (x :: l')) :: rest) (Fo x (or_introl eq_refl))) as [s1 [st [sp Q]]].
    simpl in Q. rewrite Nat.eqb_refl in Q. eexists. exact Q.
  - exists 0. eexists. reflexivity.
  - exists 0. destruct (inv_step_enabled s n (FRelMark n :: rest) Fo) as [s1 [st [sp Q]]]. eexists. exact Q.
  - exists 0. destruct (n_rel (getN s n)); [eexists; reflexivity|].
    destruct (n_hrel (getN s n)) as [[sl|]|]; eexists; reflexivity.
  - exists 0. unfold alloc. destruct (Nat.eqb (slot_res (upd_node s n (inc_cln (getN s n))) slot) n); eexists; reflexivity.
  - destruct froms as [|from l].
    + exfalso. simpl in Nm.
      assert (K : forall st, length (norm st) <= length st) by
        (induction st as [|g t IH]; simpl; [lia|]; destruct g; simpl; try lia;
         [destruct l; simpl; lia | destruct froms; simpl; lia | destruct p; simpl; lia]).
      assert (Q := K rest). rewrite Nm in Q. simpl in Q. lia.
    + exists 0. destruct (g_rel_dep (s_nodes s) from n) as [g shrel]. destruct shrel; eexists; reflexivity.
  - exists 0. simpl. eexists. reflexivity.
  - exists 0. simpl in Nb. rewrite Nb. destruct (r_stop (getr s r)); eexists; reflexivity.
  - (* FCleanStart: cache.mu is free, because this very task holds r.mu and is not cleaning *)
    exists 0.
    assert (Ck : r_clock (getr s r) = false).
    { destruct (Nat.lt_ge_cases r (length (s_rrs s))) as [L|L]; [|unfold getr; rewrite nth_overflow by exact L; reflexivity].
      destruct (F r L) as [_ [_ [_ F4]]]. destruct (Mx r L) as [M1 _].
      assert (Q := clean_le_anchor r (all_frames s)).
      assert (One : 1 <= count (fun f => match f with FCleanStart r' => Nat.eqb r r' | _ => false end) (all_frames s)).
      { clear - Hin. induction (all_frames s) as [|g t IH]; [contradiction|]. simpl. destruct Hin as [->|Hin]; [rewrite Nat.eqb_refl; lia | specialize (IH Hin); lia]. }
      unfold getr. destruct (r_clock (nth r (s_rrs s) drr)); [|reflexivity].
      simpl in F4. destruct (r_mu (nth r (s_rrs s) drr)); simpl in M1; lia. }
    rewrite Ck. eexists. reflexivity.
  - destruct ks as [|k ks']; [exists 0; eexists; reflexivity|].
    exists k. simpl. rewrite Nat.eqb_refl. simpl. destruct (n_inv (getN s k)); eexists; reflexivity.
  - exists 0. unfold alloc. eexists. reflexivity.
  - destruct p as [|o q].
    + exfalso. simpl in Nm.
      assert (K : forall st, length (norm st) <= length st) by
        (induction st as [|g t IH]; simpl; [lia|]; destruct g; simpl; try lia;
         [destruct l; simpl; lia | destruct froms; simpl; lia | destruct p; simpl; lia]).
      assert (Q := K rest). rewrite Nm in Q. simpl in Q. lia.
    + destruct o; [exists 0 | exists 0 | exists 2 | exists 0 | exists 0]; simpl; eexists; reflexivity.
  - exists 0. destruct Fo as [F1 [[F2 F3] [F4 F5]]].
    assert (Ne : res <> c) by (intros Q; subst; congruence).
    destruct (do_add_out_enabled s res c F4 F1 Ne) as [s1 [sp Q]]. rewrite Q. eexists. reflexivity.
  - exists 0. eexists. reflexivity.
  - exists 0. destruct Fo as [F1 [F2 [F3 [F4 F5]]]]. unfold getN. rewrite F5. eexists. reflexivity.
  - exists 0. destruct Fo as [F1 [F2 F3]].
    destruct (do_add_out_enabled s res c F2 F1 F3) as [s1 [sp Q]]. rewrite Q. eexists. reflexivity.
  - exists 0. unfold alloc. eexists. reflexivity.
  - exists 0. destruct (cache_get (r_cache (getr s r)) key); eexists; reflexivity.
  - exists 0. destruct Fo as [F1 [F2 F3]].
    destruct (do_add_out_enabled s child parent F1 F2 F3) as [s1 [sp Q]]. rewrite Q. eexists. reflexivity.
  - exists 0. eexists. reflexivity.
  - exists 0. destruct Fo as [F1 F2]. unfold getN. rewrite F2. rewrite andb_false_r.
    destruct (g_handle_inv (s_nodes s) c r) as [g fired]. eexists. reflexivity.
  - exists 0. eexists. reflexivity.
  - exists 0. destruct cancelled; [simpl in Nb; rewrite Nb|]; eexists; reflexivity.
Qed.

Lemma find_task_in : forall ts tid st, NoDup (map fst ts) -> In (tid, st) ts -> find_task ts tid = Some st.
Proof.
  induction ts as [|[i st0] t IH]; simpl; intros tid st Nd Hin; [contradiction|].
  inversion Nd; subst. destruct Hin as [Q|Q].
  - inversion Q; subst. rewrite Nat.eqb_refl. reflexivity.
  - destruct (Nat.eqb i tid) eqn:E; [|apply IH; assumption].
    apply Nat.eqb_eq in E. subst i. exfalso. apply H1. apply in_map_iff. exists (tid, st). split; [reflexivity | exact Q].
Qed.

Lemma in_all_frames : forall s tid st f, In (tid, st) (s_tasks s) -> In f st -> In f (all_frames s).
Proof.
  intros s tid st f Ht Hf. unfold all_frames. apply in_concat. exists st. split; [|exact Hf].
  apply in_map_iff. exists (tid, st). split; [reflexivity | exact Ht].
Qed.

Lemma all_frames_in : forall s f, In f (all_frames s) -> exists tid st, In (tid, st) (s_tasks s) /\ In f st.
Proof.
  intros s f H. unfold all_frames in H. apply in_concat in H. destruct H as [st [H1 H2]].
  apply in_map_iff in H1. destruct H1 as [[tid st'] [E H1]]. simpl in E. subst st'. exists tid, st. split; assumption.
Qed.

Lemma anchor_is_anchor : forall r f, anchor r f = true -> is_anchor f = true.
Proof. intros r f H. destruct f; simpl in *; try discriminate; reflexivity. Qed.

Lemma blocked_not_anchor_script : forall s f, blocked s f = true -> is_anchor f = false /\ script_kind f = false.
Proof. intros s f H. destruct f; simpl in *; try discriminate; split; reflexivity. Qed.

Lemma has_anchor_in : forall st f, In f st -> is_anchor f = true -> has_anchor st = true.
Proof. intros st f Hin Ha. unfold has_anchor. apply existsb_exists. exists f. split; assumption. Qed.

(** a task whose top frame is not blocked can take a step *)
Lemma task_can_step : forall s tid f rest,
  closed_inv s -> mutex_inv s -> tasks_ok s ->
  In (tid, f :: rest) (s_tasks s) -> blocked s f = false ->
  exists arg s', step s (LTask tid arg) = Some s'.
Proof.
  intros s tid f rest Cl Mx [Nd Ok] Hin Nb.
  destruct (Ok _ _ Hin) as [_ [_ [Nm _]]].
  destruct (top_enabled s f rest Cl Mx (in_all_frames _ _ _ _ Hin (or_introl eq_refl)) Nm Nb) as [arg [[[s1 st] sp] T]].
  exists arg. unfold step. rewrite (find_task_in _ _ _ Nd Hin), T. eexists. reflexivity.
Qed.

(** PROGRESS *)
Lemma progress_lemma : forall k progs s,
  progs_ok k progs -> reachable (init k progs) s -> s_tasks s <> [] ->
  exists tid arg s', step s (LTask tid arg) = Some s'.
Proof.
  intros k progs s Pk R Ne.
  assert (Cl := reachable_closed _ _ _ Pk R). assert (Mx := reachable_mutex _ _ _ R). assert (Tk := reachable_tasks_ok _ _ _ R).
  destruct (s_tasks s) as [|[tid0 st0] ts] eqn:Ets; [congruence|].
  assert (Hin0 : In (tid0, st0) (s_tasks s)) by (rewrite Ets; left; reflexivity).
  destruct Tk as [Nd Ok]. destruct (Ok _ _ Hin0) as [_ [Ne0 _]].
  destruct st0 as [|f0 rest0]; [congruence|].
  destruct (blocked s f0) eqn:B0.
  - (* waiting for r.mu: the holder can step *)
    assert (Hr : exists r, r_mu (getr s r) = true) by (destruct f0; simpl in B0; try discriminate; [|destruct cancelled; try discriminate]; eexists; exact B0).
    destruct Hr as [r Mu].
    assert (Lr : r < length (s_rrs s)).
    { destruct (Nat.lt_ge_cases r (length (s_rrs s))) as [L|L]; [exact L|]. unfold getr in Mu. rewrite nth_overflow in Mu by exact L. discriminate. }
    destruct (Mx r Lr) as [M1 _]. unfold getr in Mu. rewrite Mu in M1. simpl in M1.
    assert (Ha : exists a, In a (all_frames s) /\ anchor r a = true).
    { clear - M1. induction (all_frames s) as [|g t IH]; simpl in M1; [discriminate|].
      destruct (anchor r g) eqn:A; [exists g; split; [left; reflexivity | exact A]|].
      destruct (IH M1) as [a [A1 A2]]. exists a. split; [right; exact A1 | exact A2]. }
    destruct Ha as [a [Ain Aa]]. destruct (all_frames_in _ _ Ain) as [tid [st [Hin Hst]]].
    destruct (Ok _ _ Hin) as [_ [Nst [_ Sh]]].
    destruct st as [|f rest]; [congruence|].
    assert (Nb : blocked s f = false).
    { destruct (blocked s f) eqn:Bf; [|reflexivity]. exfalso.
      destruct (blocked_not_anchor_script _ _ Bf) as [Na Ns].
      destruct Hst as [<-|Hst]; [rewrite (anchor_is_anchor _ _ Aa) in Na; discriminate|].
      destruct Sh as [S1 _]. rewrite (S1 (has_anchor_in _ _ Hst (anchor_is_anchor _ _ Aa))) in Ns. discriminate. }
    destruct (task_can_step s tid f rest Cl Mx (conj Nd Ok) Hin Nb) as [arg [s' Q]]. exists tid, arg, s'. exact Q.
  - destruct (task_can_step s tid0 f0 rest0 Cl Mx (conj Nd Ok) Hin0 B0) as [arg [s' Q]]. exists tid0, arg, s'. exact Q.
Qed.
