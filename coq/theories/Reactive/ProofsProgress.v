(** * Reactive/ProofsProgress.v — progress: in every reachable state that is not quiescent some task label is
    enabled (no deadlock).  Compute functions are finite scripts, so "user compute terminates" is built in;
    programs only name existing slots. *)
From Coq Require Import List Arith Bool Lia Permutation.
From Thunder Require Import Reactive.Graph Reactive.Rerunner Reactive.ProofsBase Reactive.ProofsEdge
  Reactive.ProofsMutex Reactive.ProofsArmed Reactive.ProofsClosed Reactive.ProofsShape Reactive.ProofsJoin.
Import ListNotations.

(** the labels that wait: r.mu.Lock() in Rerunner.run and in Stop, and the join of branch goroutines *)
Definition blocked (s : state) (f : frame) : bool :=
  match f with
  | FRunLock r => r_mu (getr s r)
  | FStop r true => r_mu (getr s r)
  | FJoin _ jid => negb (Nat.eqb (fst (nth jid (s_joins s) (0, false))) 0)
  | _ => false
  end.

(** A cache lookup never returns the computation that is doing the lookup (a computation is stored when its
    function has returned).  This is not proved for the model; it is a hypothesis of [progress] and is checked
    on every state of every replayed trace. *)
Definition no_self_hit (s : state) : Prop :=
  forall r key body c, In (FCacheGet r key body c) (all_frames s) -> cache_get (r_cache (getr s r)) key <> Some c.

Lemma do_add_out_enabled : forall s n to,
  n < length (s_nodes s) -> to < length (s_nodes s) -> n <> to -> exists s1 sp, do_add_out s n to = Some (s1, sp).
Proof.
  intros s n to H1 H2 H3. unfold do_add_out.
  apply Nat.ltb_lt in H1. apply Nat.ltb_lt in H2. apply Nat.eqb_neq in H3. rewrite H1, H2, H3. simpl.
  destruct (g_add_out (s_nodes s) n to) as [g [[a b] c]]. eexists. eexists. reflexivity.
Qed.

Lemma inv_step_enabled : forall s n k, n < length (s_nodes s) -> exists s1 st sp, inv_step s n k = Some (s1, st, sp).
Proof.
  intros s n k H. unfold inv_step. apply Nat.ltb_lt in H. rewrite H.
  destruct (n_inv (getN s n)); [do 3 eexists; reflexivity|].
  destruct (n_hinv (getN s n)) as [r|]; [destruct (r_spawn (getr s r))|]; do 3 eexists; reflexivity.
Qed.

Lemma clean_le_anchor : forall r fr,
  count (is_clean r) fr + count (fun f => match f with FCleanStart r' => Nat.eqb r r' | _ => false end) fr <= count (anchor r) fr.
Proof.
  intros r. induction fr as [|f t IH]; simpl; [lia|].
  destruct f; simpl; try lia; destruct (Nat.eqb r r0); simpl; lia.
Qed.

(** a top frame that is not waiting for r.mu has an enabled label *)
Lemma top_enabled : forall s f rest,
  closed_on (s_nodes s) (s_slots s) (s_rrs s) (all_frames s) ->
  mutex_on (s_rrs s) (all_frames s) ->
  no_self_hit s -> uwshape (f :: rest) ->
  In f (all_frames s) -> norm (f :: rest) = f :: rest -> blocked s f = false ->
  exists arg r, step_top s f rest arg = Some r.
Proof.
  intros s f rest [A [B [C [D [E F]]]]] Mx Ns Uw Hin Nm Nb.
  assert (Fo := C f Hin). unfold step_top.
  destruct f; simpl in Fo.
  - destruct l as [|x l']; [simpl in Nm; destruct rest; try discriminate; exfalso; clear - Nm;
      (* norm of FInvList [] :: rest is norm rest, which is a suffix of rest and cannot be FInvList [] :: rest *)
      assert (K : forall st, length (norm st) <= length st) by
        (induction st as [|g t IH]; simpl; [lia|]; destruct g; simpl; try lia;
         [destruct l; simpl; lia | destruct froms; simpl; lia | destruct p; simpl; lia]);
      match type of Nm with norm ?a = ?b => assert (Q := K a); rewrite Nm in Q; simpl in Q; lia end|].
    exists x. simpl. rewrite Nat.eqb_refl. simpl.
    destruct (inv_step_enabled s x (FInvList (remove1 x (x :: l')) :: rest) (Fo x (or_introl eq_refl))) as [s1 [st [sp Q]]].
    simpl in Q. rewrite Nat.eqb_refl in Q. eexists. exact Q.
  - exists 0. eexists. reflexivity.
  - exists 0. destruct (inv_step_enabled s n (FRelMark n :: rest) Fo) as [s1 [st [sp Q]]]. eexists. exact Q.
  - exists 0. destruct (n_rel (getN s n)); [eexists; reflexivity|].
    destruct (n_hrel (getN s n)) as [[sl|]|]; eexists; reflexivity.
  - exists 0. unfold alloc. destruct (Nat.eqb (slot_res (upd_node s n (inc_cln (getN s n))) slot) n); eexists; reflexivity.
  - destruct froms as [|from l].
    + exfalso. simpl in Nm.
      assert (K : forall st, length (norm st) <= length st) by
        (induction st as [|g t IH]; simpl; [lia|]; destruct g; simpl; try lia;
         [destruct l; simpl; lia | destruct froms; simpl; lia | destruct p; simpl; lia]).
      assert (Q := K rest). rewrite Nm in Q. simpl in Q. lia.
    + exists 0. destruct (g_rel_dep (s_nodes s) from n) as [g shrel]. destruct shrel; eexists; reflexivity.
  - exists 0. simpl. eexists. reflexivity.
  - exists 0. simpl in Nb. rewrite Nb. destruct (r_stop (getr s r)); eexists; reflexivity.
  - (* FCleanStart: cache.mu is free, because this very task holds r.mu and is not cleaning *)
    exists 0.
    assert (Ck : r_clock (getr s r) = false).
    { destruct (Nat.lt_ge_cases r (length (s_rrs s))) as [L|L]; [|unfold getr; rewrite nth_overflow by exact L; reflexivity].
      destruct (F r L) as [_ [_ [_ F4]]]. destruct (Mx r L) as [M1 _].
      assert (Q := clean_le_anchor r (all_frames s)).
      assert (One : 1 <= count (fun f => match f with FCleanStart r' => Nat.eqb r r' | _ => false end) (all_frames s)).
      { clear - Hin. induction (all_frames s) as [|g t IH]; [contradiction|]. simpl. destruct Hin as [->|Hin]; [rewrite Nat.eqb_refl; lia | specialize (IH Hin); lia]. }
      unfold getr. destruct (r_clock (nth r (s_rrs s) drr)); [|reflexivity].
      simpl in F4. destruct (r_mu (nth r (s_rrs s) drr)); simpl in M1; lia. }
    rewrite Ck. eexists. reflexivity.
  - destruct ks as [|k ks']; [exists 0; eexists; reflexivity|].
    exists k. simpl. rewrite Nat.eqb_refl. simpl. destruct (n_inv (getN s k)); eexists; reflexivity.
  - exists 0. unfold alloc. eexists. reflexivity.
  - destruct p as [|o q].
    + exfalso. simpl in Nm.
      assert (K : forall st, length (norm st) <= length st) by
        (induction st as [|g t IH]; simpl; [lia|]; destruct g; simpl; try lia;
         [destruct l; simpl; lia | destruct froms; simpl; lia | destruct p; simpl; lia]).
      assert (Q := K rest). rewrite Nm in Q. simpl in Q. lia.
    + destruct o; [exists 0 | exists 0 | exists 2 | exists 0 | exists 0 | exists 0]; simpl; eexists; reflexivity.
  - exists 0. destruct Fo as [F1 [[F2 F3] [F4 F5]]].
    assert (Ne : res <> c) by (intros Q; subst; congruence).
    destruct (do_add_out_enabled s res c F4 F1 Ne) as [s1 [sp Q]]. rewrite Q. eexists. reflexivity.
  - exists 0. eexists. reflexivity.
  - exists 0. destruct Fo as [F1 [F2 [F3 [F4 F5]]]]. unfold getN. rewrite F5. eexists. reflexivity.
  - exists 0. destruct Fo as [F1 [F2 F3]].
    destruct (do_add_out_enabled s res c F2 F1 F3) as [s1 [sp Q]]. rewrite Q. eexists. reflexivity.
  - exists 0. unfold alloc. eexists. reflexivity.
  - exists 0. destruct (cache_get (r_cache (getr s r)) key); eexists; reflexivity.
  - exists 0. destruct Fo as [F1 [F2 F3]].
    destruct (do_add_out_enabled s child parent F1 F2 F3) as [s1 [sp Q]]. rewrite Q. eexists. reflexivity.
  - (* FCacheGet *)
    exists 0. destruct (cache_get (r_cache (getr s r)) key) as [child|] eqn:Cg; [|eexists; reflexivity].
    destruct (Nat.eqb child c) eqn:Ec; [|eexists; reflexivity].
    apply Nat.eqb_eq in Ec. subst child. exfalso. eapply Ns; eauto.
  - exists 0. eexists. reflexivity.
  - (* FJoin *)
    exists 0. simpl in Nb. destruct (nth jid (s_joins s) (0, false)) as [nb failed]. simpl in Nb.
    apply negb_false_iff in Nb. rewrite Nb. destruct failed; [|eexists; reflexivity].
    unfold do_fail. destruct Uw as [U1 _]. specialize (U1 r eq_refl).
    destruct (unwind r rest) as [[[[cs ks] below] [j|]]|]; [eexists; reflexivity | eexists; reflexivity | congruence].
  - exists 0. eexists. reflexivity.
  - exists 0. destruct (nth jid (s_joins s) (0, false)) as [nb failed]. eexists. reflexivity.
  - exists 0. eexists. reflexivity.
  - exists 0. destruct Fo as [F1 F2]. unfold getN. rewrite F2. rewrite andb_false_r.
    destruct (g_handle_inv (s_nodes s) c r) as [g fired]. eexists. reflexivity.
  - exists 0. eexists. reflexivity.
  - exists 0. destruct cancelled; [simpl in Nb; rewrite Nb|]; eexists; reflexivity.
  - (* FOutAdd *)
    exists 0. apply Nat.ltb_lt in Fo. rewrite Fo. destruct (g_add_out_released (s_nodes s) n) as [g [a b]]. eexists. reflexivity.
  - exists 0. eexists. reflexivity.
Qed.

Lemma find_task_in : forall ts tid st, NoDup (map fst ts) -> In (tid, st) ts -> find_task ts tid = Some st.
Proof.
  induction ts as [|[i st0] t IH]; simpl; intros tid st Nd Hin; [contradiction|].
  inversion Nd; subst. destruct Hin as [Q|Q].
  - inversion Q; subst. rewrite Nat.eqb_refl. reflexivity.
  - destruct (Nat.eqb i tid) eqn:E; [|apply IH; assumption].
    apply Nat.eqb_eq in E. subst i. exfalso. apply H1. apply in_map_iff. exists (tid, st). split; [reflexivity | exact Q].
Qed.

Lemma in_all_frames : forall s tid st f, In (tid, st) (s_tasks s) -> In f st -> In f (all_frames s).
Proof.
  intros s tid st f Ht Hf. unfold all_frames. apply in_concat. exists st. split; [|exact Hf].
  apply in_map_iff. exists (tid, st). split; [reflexivity | exact Ht].
Qed.

Lemma all_frames_in : forall s f, In f (all_frames s) -> exists tid st, In (tid, st) (s_tasks s) /\ In f st.
Proof.
  intros s f H. unfold all_frames in H. apply in_concat in H. destruct H as [st [H1 H2]].
  apply in_map_iff in H1. destruct H1 as [[tid st'] [E H1]]. simpl in E. subst st'. exists tid, st. split; assumption.
Qed.

Lemma anchor_is_anchor : forall r f, anchor r f = true -> is_anchor f = true.
Proof. intros r f H. destruct f; simpl in *; try discriminate; reflexivity. Qed.

Lemma has_anchor_in : forall st f, In f st -> is_anchor f = true -> has_anchor st = true.
Proof. intros st f Hin Ha. unfold has_anchor. apply existsb_exists. exists f. split; assumption. Qed.

Record invs (s : state) : Prop := {
  i_closed : closed_inv s; i_mutex : mutex_inv s; i_tasks : tasks_ok s; i_join : join_inv s;
  i_jtasks : jtasks_ok s; i_uw : uwtasks_ok s; i_self : no_self_hit s }.

(** a task whose top frame is not waiting can take a step *)
Lemma task_can_step : forall s tid f rest,
  invs s -> In (tid, f :: rest) (s_tasks s) -> blocked s f = false ->
  exists arg s', step s (LTask tid arg) = Some s'.
Proof.
  intros s tid f rest I Hin Nb. destruct (i_tasks s I) as [Nd Ok].
  destruct (Ok _ _ Hin) as [_ [_ [Nm _]]].
  destruct (top_enabled s f rest (i_closed s I) (i_mutex s I) (i_self s I) (i_uw s I _ _ Hin)
              (in_all_frames _ _ _ _ Hin (or_introl eq_refl)) Nm Nb) as [arg [[[s1 st] sp] T]].
  exists arg. unfold step. rewrite (find_task_in _ _ _ Nd Hin), T. eexists. reflexivity.
Qed.

Definition can_step (s : state) : Prop := exists tid arg s', step s (LTask tid arg) = Some s'.

(** a task waiting for a join: one of the branch goroutines it waits for can step, or waits for a younger join *)
Lemma join_waiter : forall n s tid r jid rest,
  invs s -> In (tid, FJoin r jid :: rest) (s_tasks s) -> length (s_joins s) - jid <= n -> can_step s.
Proof.
  induction n as [|n IH]; intros s tid r jid rest I Hin Hn.
  - exfalso. destruct (i_join s I) as [A _]. assert (K := A (FJoin r jid) (in_all_frames _ _ _ _ Hin (or_introl eq_refl))). simpl in K. lia.
  - destruct (blocked s (FJoin r jid)) eqn:B; [|destruct (task_can_step _ _ _ _ I Hin B) as [arg [s' Q]]; exists tid, arg, s'; exact Q].
    simpl in B. apply negb_true_iff in B. apply Nat.eqb_neq in B.
    destruct (i_join s I) as [A Cn]. specialize (Cn jid).
    assert (Hb : exists b, In b (all_frames s) /\ is_bend jid b = true).
    { assert (Pos : 0 < count (is_bend jid) (all_frames s)) by lia. clear - Pos.
      induction (all_frames s) as [|g t IHt]; simpl in Pos; [lia|].
      destruct (is_bend jid g) eqn:E; [exists g; split; [left; reflexivity | exact E]|].
      destruct (IHt Pos) as [b [B1 B2]]. exists b. split; [right; exact B1 | exact B2]. }
    destruct Hb as [b [Bin Bb]]. destruct b; simpl in Bb; try discriminate. apply Nat.eqb_eq in Bb. subst jid0.
    destruct (all_frames_in _ _ Bin) as [tid' [st' [Hin' Hst']]].
    destruct (i_tasks s I) as [Nd Ok]. destruct (Ok _ _ Hin') as [_ [Nst _]].
    destruct st' as [|f' rest']; [congruence|].
    destruct (blocked s f') eqn:Bf; [|destruct (task_can_step _ _ _ _ I Hin' Bf) as [arg [s' Q]]; exists tid', arg, s'; exact Q].
    destruct (i_jtasks s I _ _ Hin') as [Js Bd].
    destruct Hst' as [Q|Hst']; [subst f'; simpl in Bf; discriminate|].
    assert (Inb : In jid (bends rest')) by (apply bends_in; exact Hst').
    destruct Js as [J1 [J2 _]].
    assert (Ok' : above_bend_ok f' = true) by (apply J1; intros Q; rewrite Q in Inb; contradiction).
    destruct f'; simpl in Bf, Ok'; try discriminate.
    (* the branch goroutine itself waits for a younger join *)
    assert (Lt : jid < jid0) by (eapply J2; [reflexivity | exact Inb]).
    eapply (IH s tid' r0 jid0 rest'); [exact I | exact Hin'|].
    assert (K := A (FJoin r0 jid0) (in_all_frames _ _ _ _ Hin' (or_introl eq_refl))). simpl in K. lia.
Qed.

(** PROGRESS *)
Lemma progress_invs : forall s, invs s -> s_tasks s <> [] -> can_step s.
Proof.
  intros s I Ne.
  destruct (s_tasks s) as [|[tid0 st0] ts] eqn:Ets; [congruence|].
  assert (Hin0 : In (tid0, st0) (s_tasks s)) by (rewrite Ets; left; reflexivity).
  destruct (i_tasks s I) as [Nd Ok]. destruct (Ok _ _ Hin0) as [_ [Ne0 _]].
  destruct st0 as [|f0 rest0]; [congruence|].
  destruct (blocked s f0) eqn:B0; [|destruct (task_can_step _ _ _ _ I Hin0 B0) as [arg [s' Q]]; exists tid0, arg, s'; exact Q].
  assert (Cases : (exists r, r_mu (getr s r) = true) \/ exists r jid, f0 = FJoin r jid).
  { destruct f0; simpl in B0; try discriminate; [left; eexists; exact B0 | right; eexists; eexists; reflexivity | destruct cancelled; [left; eexists; exact B0 | discriminate]]. }
  destruct Cases as [[r Mu]|[r [jid ->]]]; [|eapply (join_waiter _ s tid0 r jid rest0); [exact I | exact Hin0 | apply Nat.le_refl]].
  (* waiting for r.mu: the holder can step, or waits for a join *)
  assert (Lr : r < length (s_rrs s)).
  { destruct (Nat.lt_ge_cases r (length (s_rrs s))) as [L|L]; [exact L|]. unfold getr in Mu. rewrite nth_overflow in Mu by exact L. discriminate. }
  destruct (i_mutex s I r Lr) as [M1 _]. unfold getr in Mu. rewrite Mu in M1. simpl in M1.
  assert (Ha : exists a, In a (all_frames s) /\ anchor r a = true).
  { clear - M1. induction (all_frames s) as [|g t IH]; simpl in M1; [discriminate|].
    destruct (anchor r g) eqn:A; [exists g; split; [left; reflexivity | exact A]|].
    destruct (IH M1) as [a [A1 A2]]. exists a. split; [right; exact A1 | exact A2]. }
  destruct Ha as [a [Ain Aa]]. destruct (all_frames_in _ _ Ain) as [tid [st [Hin Hst]]].
  destruct (Ok _ _ Hin) as [_ [Nst [_ Sh]]].
  destruct st as [|f rest]; [congruence|].
  destruct (blocked s f) eqn:Bf; [|destruct (task_can_step _ _ _ _ I Hin Bf) as [arg [s' Q]]; exists tid, arg, s'; exact Q].
  assert (Fj : exists r' j', f = FJoin r' j').
  { destruct Hst as [Q|Hst]; [subst a; destruct f; simpl in Aa, Bf; try discriminate|].
    destruct Sh as [S1 _]. assert (Sk := S1 (has_anchor_in _ _ Hst (anchor_is_anchor _ _ Aa))).
    destruct f; simpl in Sk, Bf; try discriminate. eexists; eexists; reflexivity. }
  destruct Fj as [r' [j' ->]]. eapply (join_waiter _ s tid r' j' rest); [exact I | exact Hin | apply Nat.le_refl].
Qed.

Lemma reachable_invs : forall k progs s,
  progs_ok k progs -> reachable (init k progs) s -> no_self_hit s -> invs s.
Proof.
  intros k progs s Pk R Ns. constructor.
  - eapply reachable_closed; eauto.
  - eapply reachable_mutex; eauto.
  - eapply reachable_tasks_ok; eauto.
  - eapply reachable_join; eauto.
  - eapply reachable_jtasks; eauto.
  - eapply reachable_uwtasks; eauto.
  - exact Ns.
Qed.

Lemma progress_lemma : forall k progs s,
  progs_ok k progs -> reachable (init k progs) s -> no_self_hit s -> s_tasks s <> [] ->
  exists tid arg s', step s (LTask tid arg) = Some s'.
Proof. intros k progs s Pk R Ns Ne. apply progress_invs; [eapply reachable_invs; eauto | exact Ne]. Qed.
