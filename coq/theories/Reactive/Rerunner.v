(** * Reactive/Rerunner.v — executable labelled transition system for reactive/graph.go +
    reactive/rerunner.go (Rerunner.run / Stop / Cache / PurgeCache / InvalidateAfter).

    Only definitions.  A *task* is a goroutine: a stack of continuation frames (invalidate, release and a
    non-spawning afterInvalidate -> r.run() recurse synchronously).  One label = one critical section of the
    Go code (a node-lock block, an r.mu / cache.mu block, one atomic read) executed by one task, or one
    action of the environment (the harness: Strobe / Invalidate of a slot, Stop, PurgeCache, a timer firing).

    rerunner.go:95-104  cleanInvalidated   FCleanStart / FClean (one label per entry) / CleanEnd
    rerunner.go:121-126 purgeCache         LPurge, and inside the retry branch of Fail
    rerunner.go:240-260 run(ctx,f)         FBegin / FChildBegin (fresh computation node), Fail
    rerunner.go:262-289 Cache              OCache: KeyLock (per-key ctxMutex), FCacheGet (hit -> FCacheLink; miss -> FChildBegin ... FCacheSet,
                                           FCacheLink), FKeyUnlock; OPar: goroutines inside one compute function (FJoin / FBranchBegin / FBranchEnd)
    rerunner.go:356-439 Rerunner.run       FRunWait, FRunLock, FCleanStart.., FBegin, FRunEnd (publish), FArm, FUnlock
    rerunner.go:441-452 Stop               FStop false (cancelCtx), FStop true (the r.mu section)
    util.go:10-15       InvalidateAfter    OTimer: TimerNew (NewResource+AfterFunc), FTimerReg (Cleanup), FTimerAdd (AddDependency), LTimer (fires)

    Not modelled: flushCh / RerunImmediately (it only shortens a wait),
    the durations of minRerunInterval / retryDelay / WriteThenReadDelay (a waiting run is simply a task whose
    Wait label is enabled), dependencySet bookkeeping. *)
From Coq Require Import List Arith Bool.
From Thunder Require Import Reactive.Graph.
Import ListNotations.

(** User compute functions: what the harness's ComputeFuncs do. *)
Inductive op :=
| ODep (slot : nat)                 (* AddDependency(slot's current resource) then read the slot's version *)
| OTimer                            (* InvalidateAfter(tiny) — may be skipped when the harness's budget is used up *)
| OCache (key : nat) (p : list op)  (* reactive.Cache(ctx, key, p) — a compute function may leave the call out in some runs *)
| OFail                             (* return a non-retry error (or skip, by budget) *)
| ORetry                            (* return RetrySentinelError (or skip, by budget) *)
| OPar (bs : list (list op)).       (* run the branches on goroutines of their own, same ctx / computation; wait for all;
                                       return an error if one of them did *)

Inductive frame :=
(* graph.go *)
| FInvList (l : list nat)                  (* call invalidate() on every node of l, in any order *)
| FStrobe (n : nat)                        (* strobe: snapshot still to be taken *)
| FRelEnter (n : nat)                      (* release() entered: n.invalidate() is next *)
| FRelMark (n : nat)                       (* release(): the nested invalidate returned; check/set released *)
| FCleanup (n slot : nat)                  (* afterRelease of a slot resource running *)
| FRelDeps (n : nat) (froms : list nat)    (* release(): loop over n.in *)
(* Rerunner.run *)
| FRunWait (r : nat)
| FRunLock (r : nat)
| FCleanStart (r : nat)
| FClean (r : nat) (ks : list nat)         (* cached children still to be tested *)
| FBegin (r : nat)
| FScript (r c : nat) (p : list op)        (* compute function of computation c, remaining ops *)
| FDepAdd (c slot res : nat)
| FDepRead (c slot : nat)
| FTimerReg (c res : nat)                  (* InvalidateAfter: r.Cleanup(timer.Stop) *)
| FTimerAdd (c res : nat)
| FChildBegin (r key : nat) (p : list op) (parent : nat)
| FCacheSet (r key child parent : nat)
| FCacheLink (child parent : nat)
| FCacheGet (r key : nat) (p : list op) (c : nat)  (* Cache: the per-key lock is held, cache.get is next *)
| FKeyUnlock (r key : nat)                 (* Cache: deferred cache.locker.Unlock(key) *)
| FJoin (r jid : nat)                      (* the compute function waits for its branches *)
| FBranchBegin (jid idx : nat)             (* first action of the idx-th branch goroutine of join jid *)
| FBranchEnd (jid : nat)                   (* a branch goroutine returns *)
| FRunEnd (r c : nat)                      (* run(ctx,f) returned: publish *)
| FArm (r c : nat)                         (* handleInvalidate(c, rerun) *)
| FUnlock (r : nat)
(* Stop *)
| FStop (r : nat) (cancelled : bool)
(* AddDependency from a context without a rerunner *)
| FOutAdd (n : nat)                        (* addOut(n, &node{released: true}) *)
| FPhInv.                                  (* go placeholder.invalidate(): touches nothing *)

Record rr := mkRR {
  r_mu     : bool;                 (* r.mu held *)
  r_comp   : option nat;           (* r.computation *)
  r_stop   : bool;                 (* r.stop *)
  r_cancel : bool;                 (* r.ctx cancelled *)
  r_failed : bool;                 (* ghost: a run returned a non-retry error *)
  r_cache  : list (nat * nat);     (* cache.computations: key -> child computation node *)
  r_clock  : bool;                 (* cache.mu held by cleanInvalidated *)
  r_prog   : list op;              (* r.f *)
  r_spawn  : bool;                 (* alwaysSpawnGoroutine *)
  r_out    : option (list (nat * nat));  (* ghost: value of the last published computation *)
  r_runs   : nat;                  (* ghost: number of computations begun *)
  r_keys   : list nat              (* cache.locker: keys whose per-key lock is held *)
}.

Definition drr : rr := mkRR false None false false false [] false [] true None 0 [].

Record state := mkState {
  s_nodes : graph;
  s_rrs   : list rr;
  s_slots : list (nat * nat);          (* slot -> (version, current resource node) *)
  s_tasks : list (nat * list frame);   (* live tasks by id *)
  s_tid   : nat;                       (* next task id *)
  s_joins : list (nat * bool)          (* joins of parallel branches: (branches still running, one of them failed) *)
}.

Inductive label :=
| LTask (tid arg : nat)        (* task tid executes the critical section its top frame stands at *)
| LStrobe (slot : nat)         (* env: version+1; go res.strobe() *)
| LInvalidate (slot : nat)     (* env: version+1; go res.invalidate(); the slot gets a fresh resource *)
| LStop (r : nat)              (* env: somebody calls r.Stop() *)
| LPurge (r : nat)             (* env: PurgeCache(ctx of r) *)
| LTimer (n : nat)             (* env: the timer of InvalidateAfter resource n fires: go n.invalidate() *)
| LOutside (slot : nat)        (* env: AddDependency(context.Background(), the slot's resource): no computation registers *)
| LCancel (r : nat).           (* env: the context the rerunner was created with is cancelled (without Stop) *)

(** ** accessors *)
Definition getr (s : state) (r : nat) : rr := nth r (s_rrs s) drr.
Definition getN (s : state) (n : nat) : node := getn (s_nodes s) n.
Definition slot_ver (s : state) (sl : nat) : nat := fst (nth sl (s_slots s) (0, 0)).
Definition slot_res (s : state) (sl : nat) : nat := snd (nth sl (s_slots s) (0, 0)).

Fixpoint setl {A} (l : list A) (i : nat) (x : A) : list A :=
  match l, i with
  | [], _ => []
  | _ :: t, 0 => x :: t
  | h :: t, S j => h :: setl t j x
  end.

Definition with_nodes (s : state) (g : graph) : state := mkState g (s_rrs s) (s_slots s) (s_tasks s) (s_tid s) (s_joins s).
Definition with_rr (s : state) (r : nat) (x : rr) : state :=
  mkState (s_nodes s) (setl (s_rrs s) r x) (s_slots s) (s_tasks s) (s_tid s) (s_joins s).
Definition with_slot (s : state) (sl : nat) (x : nat * nat) : state :=
  mkState (s_nodes s) (s_rrs s) (setl (s_slots s) sl x) (s_tasks s) (s_tid s) (s_joins s).
Definition with_tasks (s : state) (t : list (nat * list frame)) (k : nat) : state :=
  mkState (s_nodes s) (s_rrs s) (s_slots s) t k (s_joins s).
Definition with_joins (s : state) (j : list (nat * bool)) : state :=
  mkState (s_nodes s) (s_rrs s) (s_slots s) (s_tasks s) (s_tid s) j.
Definition upd_node (s : state) (n : nat) (x : node) : state := with_nodes s (setn (s_nodes s) n x).
Definition alloc (s : state) (x : node) : state * nat := (with_nodes s (s_nodes s ++ [x]), length (s_nodes s)).

Definition set_mu (x : rr) (b : bool) : rr :=
  mkRR b (r_comp x) (r_stop x) (r_cancel x) (r_failed x) (r_cache x) (r_clock x) (r_prog x) (r_spawn x) (r_out x) (r_runs x) (r_keys x).
Definition set_clock (x : rr) (b : bool) : rr :=
  mkRR (r_mu x) (r_comp x) (r_stop x) (r_cancel x) (r_failed x) (r_cache x) b (r_prog x) (r_spawn x) (r_out x) (r_runs x) (r_keys x).
Definition set_cache (x : rr) (c : list (nat * nat)) : rr :=
  mkRR (r_mu x) (r_comp x) (r_stop x) (r_cancel x) (r_failed x) c (r_clock x) (r_prog x) (r_spawn x) (r_out x) (r_runs x) (r_keys x).
Definition set_cancel (x : rr) : rr :=
  mkRR (r_mu x) (r_comp x) (r_stop x) true (r_failed x) (r_cache x) (r_clock x) (r_prog x) (r_spawn x) (r_out x) (r_runs x) (r_keys x).
Definition set_failed (x : rr) : rr :=
  mkRR (r_mu x) (r_comp x) (r_stop x) (r_cancel x) true (r_cache x) (r_clock x) (r_prog x) (r_spawn x) (r_out x) (r_runs x) (r_keys x).
Definition set_stopped (x : rr) : rr :=
  mkRR (r_mu x) None true (r_cancel x) (r_failed x) (r_cache x) (r_clock x) (r_prog x) (r_spawn x) (r_out x) (r_runs x) (r_keys x).
Definition set_published (x : rr) (c : nat) (v : list (nat * nat)) : rr :=
  mkRR (r_mu x) (Some c) (r_stop x) (r_cancel x) (r_failed x) (r_cache x) (r_clock x) (r_prog x) (r_spawn x) (Some v) (r_runs x) (r_keys x).
Definition set_keys (x : rr) (k : list nat) : rr :=
  mkRR (r_mu x) (r_comp x) (r_stop x) (r_cancel x) (r_failed x) (r_cache x) (r_clock x) (r_prog x) (r_spawn x) (r_out x) (r_runs x) k.
Definition inc_runs (x : rr) : rr :=
  mkRR (r_mu x) (r_comp x) (r_stop x) (r_cancel x) (r_failed x) (r_cache x) (r_clock x) (r_prog x) (r_spawn x) (r_out x) (S (r_runs x)) (r_keys x).

Fixpoint cache_get (c : list (nat * nat)) (k : nat) : option nat :=
  match c with
  | [] => None
  | (k', v) :: t => if Nat.eqb k k' then Some v else cache_get t k
  end.
Definition cache_drop_child (c : list (nat * nat)) (child : nat) : list (nat * nat) :=
  filter (fun kv => negb (Nat.eqb (snd kv) child)) c.

(** ** one step of a task *)

(* the result of executing the critical section at the top frame: new shared state (tasks untouched),
   the task's new stack, newly spawned goroutines *)
Definition result := option (state * list frame * list (list frame)).

Definition opt_task {A} (o : option A) (f : A -> list frame) : list (list frame) :=
  match o with Some x => [f x] | None => [] end.

(** addOut n to, executed by the current task (graph.go:141-174).  A label that names a node which does not
    exist is not a label of the program (Go has no dangling pointers): rejected.  addOut(n, n) locks n.mu
    twice and never returns: not enabled. *)
Definition do_add_out (s : state) (n to : nat) : option (state * list (list frame)) :=
  if Nat.ltb n (length (s_nodes s)) && Nat.ltb to (length (s_nodes s)) && negb (Nat.eqb n to) then
    let '(g, (linked, shinv, shrel)) := g_add_out (s_nodes s) n to in
    Some (with_nodes s g,
          (if shinv then [[FInvList [to]]] else []) ++ (if shrel then [[FRelEnter n]] else []))
  else None.

(** run() returned an error somewhere inside the compute function of rerunner r: every computation that is
    open on this stack is released (rerunner.go:252-255, through Cache's error return :281-284) and the per-key
    locks taken on the way are given back (deferred Unlock, :274), down to and including the rerunner's own
    computation (:400) — or down to the end of the branch goroutine, if the error happened on one.  Returns
    those computations (innermost first), the keys, the frames below, and the join of the branch if any.  The
    frames of one run all carry the run's rerunner; a stack on which they do not is not a stack of the Go
    program and is rejected. *)
Fixpoint unwind (r : nat) (st : list frame) : option (list nat * list nat * list frame * option nat) :=
  match st with
  | [] => None
  | FRunEnd r' c :: rest => if Nat.eqb r r' then Some ([c], [], rest, None) else None
  | FBranchEnd jid :: rest => Some ([], [], rest, Some jid)
  | FCacheSet r' _ child _ :: rest =>
      if Nat.eqb r r' then
        match unwind r rest with Some (cs, ks, below, t) => Some (child :: cs, ks, below, t) | None => None end
      else None
  | FKeyUnlock r' key :: rest =>
      if Nat.eqb r r' then
        match unwind r rest with Some (cs, ks, below, t) => Some (cs, key :: ks, below, t) | None => None end
      else None
  | FScript r' _ _ :: rest => if Nat.eqb r r' then unwind r rest else None
  | _ => None
  end.

Fixpoint remove_keys (ks held : list nat) : list nat :=
  match ks with [] => held | k :: t => remove_keys t (remove1 k held) end.

Definition set_join_failed (j : list (nat * bool)) (jid : nat) : list (nat * bool) :=
  setl j jid (fst (nth jid j (0, false)), true).

Definition do_fail (s : state) (r : nat) (st : list frame) (retry : bool) : result :=
  match unwind r st with
  | None => None
  | Some (cs, ks, below, term) =>
      let x := getr s r in
      let x1 := set_keys x (remove_keys ks (r_keys x)) in
      let rels := map (fun c => [FRelEnter c]) cs in
      match term with
      | None =>
          if retry
          then Some (with_rr s r (set_cache x1 []), FUnlock r :: below, rels ++ [[FRunWait r]])
          else Some (with_rr s r (set_failed x1), FUnlock r :: below, rels)
      | Some jid =>
          (* the branch goroutine returns the error to the compute function, which will return it after the join *)
          Some (with_joins (with_rr s r x1) (set_join_failed (s_joins s) jid), FBranchEnd jid :: below, rels)
      end
  end.

(** The critical section of [invalidate] on node n and the handler call that follows it (graph.go:77-98);
    [k] is what the caller does afterwards.  If n was valid: mark, snapshot [out]; a non-spawning rerun handler
    runs r.run() on this very stack before the snapshot is walked. *)
Definition inv_step (s : state) (n : nat) (k : list frame) : result :=
  if Nat.ltb n (length (s_nodes s)) then
    let nd := getN s n in
    if n_inv nd then Some (s, k, [])
    else
      let s' := with_nodes s (g_inv_mark (s_nodes s) n) in
      match n_hinv nd with
      | Some r =>
          if r_spawn (getr s r)
          then Some (s', FInvList (n_out nd) :: k, [[FRunWait r]])
          else Some (s', FRunWait r :: FInvList (n_out nd) :: k, [])
      | None => Some (s', FInvList (n_out nd) :: k, [])
      end
  else None.

Fixpoint branch_tasks (jid r c : nat) (bs : list (list op)) (i : nat) : list (list frame) :=
  match bs with
  | [] => []
  | b :: t => [FBranchBegin jid i; FScript r c b; FBranchEnd jid] :: branch_tasks jid r c t (S i)
  end.

Definition step_top (s : state) (f : frame) (rest : list frame) (arg : nat) : result :=
  match f with
  (* --- graph.go --- *)
  | FInvList l =>
      (* invalidate() on node arg, one of the nodes still to do *)
      if memb arg l then inv_step s arg (FInvList (remove1 arg l) :: rest) else None
  | FStrobe n => Some (s, FInvList (n_out (getN s n)) :: rest, [])
  | FRelEnter n =>
      (* release() starts with n.invalidate() (graph.go:107): its critical section on n is the first one *)
      inv_step s n (FRelMark n :: rest)
  | FRelMark n =>
      let nd := getN s n in
      if n_rel nd then Some (s, rest, [])
      else
        let s' := with_nodes s (g_rel_mark (s_nodes s) n) in
        match n_hrel nd with
        | Some (HSlot sl) => Some (s', FCleanup n sl :: FRelDeps n (n_ins nd) :: rest, [])
        | Some HTimer => Some (upd_node s' n (inc_cln (getN s' n)), FRelDeps n (n_ins nd) :: rest, [])
        | None => Some (s', FRelDeps n (n_ins nd) :: rest, [])
        end
  | FCleanup n sl =>
      (* the harness's Cleanup callback: count, and give the slot a fresh resource if n is still its resource *)
      let s1 := upd_node s n (inc_cln (getN s n)) in
      if Nat.eqb (slot_res s1 sl) n
      then let '(s2, k) := alloc s1 (new_res (HSlot sl) 0) in
           Some (with_slot s2 sl (slot_ver s2 sl, k), rest, [])
      else Some (s1, rest, [])
  | FRelDeps n froms =>
      match froms with
      | [] => None
      | from :: l =>
          let '(g, shrel) := g_rel_dep (s_nodes s) from n in
          if shrel then Some (with_nodes s g, FRelEnter from :: FRelDeps n l :: rest, [])
          else Some (with_nodes s g, FRelDeps n l :: rest, [])
      end
  (* --- Rerunner.run --- *)
  | FRunWait r =>
      (* rerunner.go:361-369: arg 0 = the select returned and ctx.Err() was nil; arg 1 = ctx cancelled: return *)
      if Nat.eqb arg 0 then Some (s, FRunLock r :: rest, [])
      else if r_cancel (getr s r) then Some (s, rest, []) else None
  | FRunLock r =>
      (* rerunner.go:378-384.  The write-then-read delay of a re-run (rerunner.go:386-389, time.Sleep with r.mu
         held) lies between this label and CleanStart and is no label of its own: while it lasts r.mu is held, so
         Stop's critical section and other runs of r are not enabled, and nothing else reads or writes r's state. *)
      let x := getr s r in
      if r_mu x then None
      else if r_stop x then Some (with_rr s r (set_mu x true), FUnlock r :: rest, [])
      else Some (with_rr s r (set_mu x true), FCleanStart r :: rest, [])
  | FCleanStart r =>
      (* rerunner.go:386-390.  arg 1: the run gives up because r.ctx was cancelled while it held r.mu (a variant of
         the write-then-read delay that selects on ctx.Done() returns here through the deferred unlock; the code
         as it is sleeps the delay out and never takes this branch) *)
      let x := getr s r in
      if Nat.eqb arg 1 then (if r_cancel x then Some (with_rr s r (set_mu x false), rest, []) else None)
      else if r_clock x then None
      else Some (with_rr s r (set_clock x true), FClean r (map snd (r_cache x)) :: rest, [])
  | FClean r ks =>
      let x := getr s r in
      match ks with
      | [] => Some (with_rr s r (set_clock x false), FBegin r :: rest, [])
      | _ =>
          if memb arg ks then
            if n_inv (getN s arg)
            then Some (with_rr s r (set_cache x (cache_drop_child (r_cache x) arg)), FClean r (remove1 arg ks) :: rest, [])
            else Some (s, FClean r (remove1 arg ks) :: rest, [])
          else None
      end
  | FBegin r =>
      let '(s1, c) := alloc s new_comp in
      let x := getr s1 r in
      Some (with_rr s1 r (inc_runs x), FScript r c (r_prog x) :: FRunEnd r c :: rest, [])
  | FScript r c p =>
      match p with
      | [] => None
      | ODep sl :: q => Some (s, FDepAdd c sl (slot_res s sl) :: FScript r c q :: rest, [])
      | OTimer :: q =>
          if Nat.eqb arg 0 then Some (s, FScript r c q :: rest, [])
          else let '(s1, k) := alloc s new_timer in
               Some (s1, FTimerReg c k :: FScript r c q :: rest, [])
      | OCache key body :: q =>
          (* rerunner.go:271-274: cache.locker.Lock(ctx, key); arg 0 = acquired (the key must be free),
             arg 1 = ctx.Done() won the select, arg 2 = the compute function does not call Cache this time *)
          if Nat.eqb arg 0 then
            let x := getr s r in
            if memb key (r_keys x) then None
            else Some (with_rr s r (set_keys x (key :: r_keys x)),
                       FCacheGet r key body c :: FKeyUnlock r key :: FScript r c q :: rest, [])
          else if Nat.eqb arg 2 then Some (s, FScript r c q :: rest, [])
          else if r_cancel (getr s r) then do_fail s r (FScript r c q :: rest) false else None
      | OFail :: q =>
          if Nat.eqb arg 0 then Some (s, FScript r c q :: rest, [])
          else do_fail s r (FScript r c q :: rest) false
      | ORetry :: q =>
          if Nat.eqb arg 0 then Some (s, FScript r c q :: rest, [])
          else do_fail s r (FScript r c q :: rest) true
      | OPar bs :: q =>
          let jid := length (s_joins s) in
          Some (with_joins s (s_joins s ++ [(length bs, false)]),
                FJoin r jid :: FScript r c q :: rest,
                branch_tasks jid r c bs 0)
      end
  | FDepAdd c sl n =>
      match do_add_out s n c with Some (s1, sp) => Some (s1, FDepRead c sl :: rest, sp) | None => None end
  | FDepRead c sl =>
      Some (upd_node s c (add_val (getN s c) [(sl, slot_ver s sl)]), rest, [])
  | FTimerReg c n =>
      (* a second handleRelease on a node panics (graph.go:194-196) or runs another callback: not a behaviour
         of InvalidateAfter, whose resource is fresh *)
      match n_hrel (getN s n) with
      | Some _ => None
      | None => Some (with_nodes s (fst (g_handle_rel (s_nodes s) n HTimer)), FTimerAdd c n :: rest, [])
      end
  | FTimerAdd c n =>
      match do_add_out s n c with Some (s1, sp) => Some (s1, rest, sp) | None => None end
  | FChildBegin r key body parent =>
      let '(s1, k) := alloc s new_comp in
      Some (s1, FScript r k body :: FCacheSet r key k parent :: rest, [])
  | FCacheSet r key child parent =>
      let x := getr s r in
      match cache_get (r_cache x) key with
      | Some _ => Some (s, FCacheLink child parent :: rest, [])
      | None => Some (with_rr s r (set_cache x (r_cache x ++ [(key, child)])), FCacheLink child parent :: rest, [])
      end
  | FCacheLink child parent =>
      match do_add_out s child parent with
      | Some (s1, sp) => Some (upd_node s1 parent (add_val (getN s1 parent) (n_val (getN s1 child))), rest, sp)
      | None => None
      end
  | FCacheGet r key body c =>
      (* rerunner.go:276-281: cache.get under cache.mu *)
      match cache_get (r_cache (getr s r)) key with
      | Some child =>
          (* the cache cannot hold the computation that is running (it is stored when it has returned) *)
          if Nat.eqb child c then None else Some (s, FCacheLink child c :: rest, [])
      | None => Some (s, FChildBegin r key body c :: rest, [])
      end
  | FKeyUnlock r key =>
      let x := getr s r in Some (with_rr s r (set_keys x (remove1 key (r_keys x))), rest, [])
  | FJoin r jid =>
      let '(n, failed) := nth jid (s_joins s) (0, false) in
      if Nat.eqb n 0 then (if failed then do_fail s r rest false else Some (s, rest, [])) else None
  | FBranchBegin _ _ => Some (s, rest, [])
  | FBranchEnd jid =>
      let '(n, failed) := nth jid (s_joins s) (0, false) in
      Some (with_joins s (setl (s_joins s) jid (Nat.pred n, failed)), rest, [])
  | FRunEnd r c =>
      (* rerunner.go:421-427 *)
      let x := getr s r in
      Some (with_rr s r (set_published x c (n_val (getN s c))), FArm r c :: rest,
            opt_task (r_comp x) (fun old => [FRelEnter old]))
  | FArm r c =>
      (* rerunner.go:431-437 = handleInvalidate *)
      (* a second handler on a valid node panics (graph.go:181-183): not a behaviour of the rerunner, whose
         computation node is fresh *)
      if negb (n_inv (getN s c)) && (match n_hinv (getN s c) with Some _ => true | None => false end) then None
      else
        let '(g, fired) := g_handle_inv (s_nodes s) c r in
        Some (with_nodes s g, FUnlock r :: rest, if fired then [[FRunWait r]] else [])
  | FUnlock r => Some (with_rr s r (set_mu (getr s r) false), rest, [])
  (* --- Stop --- *)
  | FStop r false => Some (with_rr s r (set_cancel (getr s r)), FStop r true :: rest, [])
  | FStop r true =>
      let x := getr s r in
      if r_mu x then None
      else Some (with_rr s r (set_stopped x), rest, opt_task (r_comp x) (fun old => [FRelEnter old]))
  | FOutAdd n =>
      (* rerunner.go:201-204 -> graph.go:141-174 with a released dependant that nobody else knows *)
      if Nat.ltb n (length (s_nodes s)) then
        let '(g, (shinv, shrel)) := g_add_out_released (s_nodes s) n in
        Some (with_nodes s g, rest, (if shinv then [[FPhInv]] else []) ++ (if shrel then [[FRelEnter n]] else []))
      else None
  | FPhInv => Some (s, rest, [])
  end.

(** frames whose work is finished are popped without a label *)
Fixpoint norm (st : list frame) : list frame :=
  match st with
  | FInvList [] :: t => norm t
  | FRelDeps _ [] :: t => norm t
  | FScript _ _ [] :: t => norm t
  | _ => st
  end.

Fixpoint find_task (ts : list (nat * list frame)) (tid : nat) : option (list frame) :=
  match ts with
  | [] => None
  | (i, st) :: t => if Nat.eqb i tid then Some st else find_task t tid
  end.

Fixpoint replace_task (ts : list (nat * list frame)) (tid : nat) (st : list frame) : list (nat * list frame) :=
  match ts with
  | [] => []
  | (i, st0) :: t =>
      if Nat.eqb i tid then (match st with [] => t | _ => (i, st) :: t end)
      else (i, st0) :: replace_task t tid st
  end.

Fixpoint number_from (k : nat) (sp : list (list frame)) : list (nat * list frame) :=
  match sp with
  | [] => []
  | st :: t => (k, st) :: number_from (S k) t
  end.

Definition spawn (s : state) (sp : list (list frame)) : state :=
  with_tasks s (s_tasks s ++ number_from (s_tid s) sp) (s_tid s + length sp).

Definition step (s : state) (l : label) : option state :=
  match l with
  | LTask tid arg =>
      match find_task (s_tasks s) tid with
      | Some (f :: rest) =>
          match step_top s f rest arg with
          | Some (s1, st, sp) =>
              Some (spawn (with_tasks s1 (replace_task (s_tasks s1) tid (norm st)) (s_tid s1)) sp)
          | None => None
          end
      | _ => None
      end
  | LStrobe sl =>
      if Nat.ltb sl (length (s_slots s)) then
        Some (spawn (with_slot s sl (S (slot_ver s sl), slot_res s sl)) [[FStrobe (slot_res s sl)]])
      else None
  | LInvalidate sl =>
      if Nat.ltb sl (length (s_slots s)) then
        let old := slot_res s sl in
        let '(s1, k) := alloc s (new_res (HSlot sl) 0) in
        Some (spawn (with_slot s1 sl (S (slot_ver s sl), k)) [[FInvList [old]]])
      else None
  | LStop r =>
      if Nat.ltb r (length (s_rrs s)) then Some (spawn s [[FStop r false]]) else None
  | LPurge r =>
      if Nat.ltb r (length (s_rrs s)) then
        let x := getr s r in
        if r_clock x then None else Some (with_rr s r (set_cache x []))
      else None
  | LTimer n =>
      if Nat.eqb (n_timer (getN s n)) 1
      then Some (spawn (upd_node s n (set_timer (getN s n) 2)) [[FInvList [n]]])
      else None
  | LOutside sl =>
      if Nat.ltb sl (length (s_slots s)) then Some (spawn s [[FOutAdd (slot_res s sl)]]) else None
  | LCancel r =>
      if Nat.ltb r (length (s_rrs s)) then Some (with_rr s r (set_cancel (getr s r))) else None
  end.

Fixpoint run (s : state) (ls : list label) : option state :=
  match ls with
  | [] => Some s
  | l :: t => match step s l with Some s' => run s' t | None => None end
  end.

(** ** initial states: [nslots] slots, each with a fresh resource (version 0), and one rerunner per program;
    NewRerunner does [go r.run()]. *)
Fixpoint init_slots (n k : nat) : list (nat * nat) :=
  match n with 0 => [] | S m => (0, k) :: init_slots m (S k) end.
Fixpoint init_nodes (n k : nat) : graph :=
  match n with 0 => [] | S m => new_res (HSlot k) 0 :: init_nodes m (S k) end.
Fixpoint init_tasks (n k : nat) : list (nat * list frame) :=
  match n with 0 => [] | S m => (k, [FRunWait k]) :: init_tasks m (S k) end.

Definition init_rr (ps : list op * bool) : rr := mkRR false None false false false [] false (fst ps) (snd ps) None 0 [].

Definition init (nslots : nat) (progs : list (list op * bool)) : state :=
  mkState (init_nodes nslots 0) (map init_rr progs) (init_slots nslots 0)
          (init_tasks (length progs) 0) (length progs) [].

Definition quiescent (s : state) : Prop := s_tasks s = [].
Definition quiescentb (s : state) : bool := is_nil (s_tasks s).
