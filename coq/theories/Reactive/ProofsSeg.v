(** * Reactive/ProofsSeg.v — the segments of a goroutine's stack.  The frames of one computation are contiguous
    and end at the computation's *home*: the frame that will publish it (FRunEnd), store it in the cache
    (FCacheSet) or, on a goroutine started inside a compute function, the end of the branch (FBranchEnd), which
    waits for a join standing directly above the computation's script on another stack.  Hence: when the home of
    a computation is at the top of its stack, no frame anywhere works for that computation any more. *)
From Coq Require Import List Arith Bool Lia Permutation.
From Thunder Require Import Reactive.Graph Reactive.Rerunner Reactive.ProofsBase Reactive.ProofsMutex
  Reactive.ProofsArmed Reactive.ProofsShape Reactive.ProofsJoin.
Import ListNotations.

Inductive fkind := KComp (c : nat) | KNeut | KSet (child parent : nat) | KEnd (c : nat) | KBend (jid : nat) | KPlain.

Definition kind (f : frame) : fkind :=
  match f with
  | FScript _ c _ | FDepAdd c _ _ | FDepRead c _ | FTimerReg c _ | FTimerAdd c _ | FCacheGet _ _ _ c
  | FChildBegin _ _ _ c | FCacheLink _ c => KComp c
  | FCacheSet _ _ ch p => KSet ch p
  | FKeyUnlock _ _ | FJoin _ _ | FBranchBegin _ _ => KNeut
  | FRunEnd _ c => KEnd c
  | FBranchEnd j => KBend j
  | _ => KPlain
  end.

(** the computation a frame works for *)
Definition runs (f : frame) : option nat :=
  match kind f with KComp c => Some c | KSet _ p => Some p | _ => None end.

(** the computation whose home the frame is *)
Definition is_home (m : nat) (f : frame) : bool :=
  match kind f with KSet ch _ => Nat.eqb m ch | KEnd c => Nat.eqb m c | _ => false end.

Definition plain (f : frame) : bool := match kind f with KPlain => true | _ => false end.

Definition cur_ok (cur : option nat) (c : nat) : Prop := cur = None \/ cur = Some c.

Fixpoint seg (cur : option nat) (st : list frame) : Prop :=
  match st with
  | [] => cur = None
  | f :: t =>
      match kind f with
      | KComp c => cur_ok cur c /\ seg (Some c) t
      | KNeut => seg cur t
      | KSet ch p => cur_ok cur ch /\ seg (Some p) t
      | KEnd c => cur_ok cur c /\ forallb plain t = true
      | KBend _ => t = []
      | KPlain => cur = None /\ forallb plain t = true
      end
  end.

(** where the scan ends when it reaches the end of a branch: (computation of the lowest segment, join) *)
Fixpoint walk (cur : option nat) (st : list frame) : option (option nat * nat) :=
  match st with
  | [] => None
  | f :: t =>
      match kind f with
      | KComp c => walk (Some c) t
      | KNeut => walk cur t
      | KSet _ p => walk (Some p) t
      | KEnd _ => None
      | KBend j => Some (cur, j)
      | KPlain => None
      end
  end.

Lemma plain_seg : forall t, forallb plain t = true -> seg None t.
Proof.
  induction t as [|f t IH]; simpl; intros H; [reflexivity|].
  apply andb_true_iff in H. destruct H as [H1 H2]. unfold plain in H1. destruct (kind f); try discriminate. split; [reflexivity | exact H2].
Qed.

Lemma seg_weaken : forall st cur, seg cur st -> seg None st.
Proof.
  induction st as [|f t IH]; simpl; intros cur H; [reflexivity|].
  destruct (kind f).
  - destruct H as [_ H]. split; [left; reflexivity | exact H].
  - eapply IH; exact H.
  - destruct H as [_ H]. split; [left; reflexivity | exact H].
  - destruct H as [_ H]. split; [left; reflexivity | exact H].
  - exact H.
  - destruct H as [_ H]. split; [reflexivity | exact H].
Qed.

Lemma seg_norm : forall st, seg None st -> seg None (norm st).
Proof.
  induction st as [|f t IH]; simpl; intros H; [exact H|].
  destruct f; try exact H.
  - destruct l; [|exact H]. simpl in H. apply IH. apply plain_seg. apply H.
  - destruct froms; [|exact H]. simpl in H. apply IH. apply plain_seg. apply H.
  - destruct p; [|exact H]. simpl in H. apply IH. eapply seg_weaken. apply H.
Qed.

Lemma walk_bend : forall st cur c j, walk cur st = Some (c, j) -> In (FBranchEnd j) st.
Proof.
  induction st as [|f t IH]; simpl; intros cur c j H; [discriminate|].
  destruct f; simpl in H; try discriminate; try (right; eapply IH; exact H).
  inversion H; subst. left. reflexivity.
Qed.

(** a result that names a computation does not depend on where the scan started *)
Lemma walk_indep : forall st cur cur' m j, walk cur st = Some (Some m, j) -> cur <> Some m -> walk cur' st = Some (Some m, j).
Proof.
  induction st as [|f t IH]; simpl; intros cur cur' m j H N; [discriminate|].
  destruct (kind f); try discriminate; try exact H.
  - eapply IH; eauto.
  - inversion H; subst. exfalso. apply N. reflexivity.
Qed.

Lemma plain_walk : forall t cur, forallb plain t = true -> walk cur t = None.
Proof.
  destruct t as [|f t]; simpl; intros cur H; [reflexivity|]. apply andb_true_iff in H. destruct H as [H _].
  unfold plain in H. destruct (kind f); try discriminate. reflexivity.
Qed.

Lemma plain_norm : forall t, forallb plain t = true -> forallb plain (norm t) = true.
Proof.
  induction t as [|f t IH]; simpl; intros H; [reflexivity|]. apply andb_true_iff in H. destruct H as [H1 H2].
  destruct f; simpl in *; try discriminate; try (rewrite H2; reflexivity).
  - destruct l; [apply IH; exact H2 | simpl; rewrite H2; reflexivity].
  - destruct froms; [apply IH; exact H2 | simpl; rewrite H2; reflexivity].
Qed.

Lemma walk_norm : forall st m j, seg None st -> walk None (norm st) = Some (Some m, j) -> walk None st = Some (Some m, j).
Proof.
  induction st as [|f t IH]; simpl; intros m j S H; [exact H|].
  destruct f; try exact H.
  - destruct l; [|exact H]. exfalso. simpl in S. rewrite (plain_walk _ _ (plain_norm _ (proj2 S))) in H. discriminate.
  - destruct froms; [|exact H]. exfalso. simpl in S. rewrite (plain_walk _ _ (plain_norm _ (proj2 S))) in H. discriminate.
  - destruct p; [|exact H]. simpl. simpl in S. specialize (IH _ _ (seg_weaken _ _ (proj2 S)) H). eapply walk_indep; [exact IH | discriminate].
Qed.

(** scanning down from a frame that works for m: the home of m, or the end of a branch whose lowest segment is m's *)
Lemma seg_down : forall post m, seg (Some m) post ->
  1 <= count (is_home m) post \/ exists j, walk (Some m) post = Some (Some m, j).
Proof.
  induction post as [|f t IH]; simpl; intros m H; [discriminate|].
  assert (E : is_home m f = match kind f with KSet ch _ => Nat.eqb m ch | KEnd c => Nat.eqb m c | _ => false end) by reflexivity.
  rewrite E. clear E. destruct (kind f) eqn:K.
  - destruct H as [[Q|Q] H]; [discriminate|]. inversion Q; subst c. destruct (IH _ H) as [A|A]; [left; lia | right; exact A].
  - destruct (IH _ H) as [A|A]; [left; lia | right; exact A].
  - destruct H as [[Q|Q] H]; [discriminate|]. inversion Q; subst child. left. rewrite Nat.eqb_refl. lia.
  - destruct H as [[Q|Q] H]; [discriminate|]. inversion Q; subst c. left. rewrite Nat.eqb_refl. lia.
  - right. exists jid. reflexivity.
  - destruct H as [Q _]. discriminate.
Qed.

Lemma seg_split : forall pre f post cur m, seg cur (pre ++ f :: post) -> runs f = Some m ->
  seg (Some m) post /\ walk cur (pre ++ f :: post) = walk (Some m) post.
Proof.
  induction pre as [|g t IH]; simpl; intros f post cur m H R.
  - unfold runs in R. destruct (kind f); try discriminate; inversion R; subst; destruct H as [_ H]; split; auto.
  - destruct (kind g) eqn:K.
    + destruct H as [_ H]. apply (IH _ _ _ _ H R).
    + apply (IH _ _ _ _ H R).
    + destruct H as [_ H]. apply (IH _ _ _ _ H R).
    + exfalso. destruct H as [_ H]. rewrite forallb_app in H. apply andb_true_iff in H. destruct H as [_ H]. simpl in H.
      apply andb_true_iff in H. destruct H as [H _]. unfold plain in H. unfold runs in R. destruct (kind f); discriminate.
    + exfalso. destruct t; discriminate.
    + exfalso. destruct H as [_ H]. rewrite forallb_app in H. apply andb_true_iff in H. destruct H as [_ H]. simpl in H.
      apply andb_true_iff in H. destruct H as [H _]. unfold plain in H. unfold runs in R. destruct (kind f); discriminate.
Qed.

(** ** one step, one stack *)
Lemma inv_step_plain : forall s n k s1 st sp,
  inv_step s n k = Some (s1, st, sp) -> forallb plain k = true ->
  forallb plain st = true /\ forall t, In t sp -> forallb plain t = true.
Proof.
  intros s n k s1 st sp H P. unfold inv_step in H.
  destruct (Nat.ltb n (length (s_nodes s))); [|discriminate].
  destruct (n_inv (getN s n)); [inversion H; subst; split; [exact P | intros t []]|].
  destruct (n_hinv (getN s n)) as [r|]; [destruct (r_spawn (getr s r))|]; inversion H; subst; clear H; simpl; rewrite P;
    (split; [reflexivity|]); intros t Ht; simpl in Ht; repeat (destruct Ht as [<-|Ht]); try contradiction; reflexivity.
Qed.

Lemma do_add_out_plain : forall s n to s1 sp,
  do_add_out s n to = Some (s1, sp) -> forall t, In t sp -> forallb plain t = true.
Proof.
  intros s n to s1 sp H t Ht. unfold do_add_out in H.
  destruct (Nat.ltb n (length (s_nodes s)) && Nat.ltb to (length (s_nodes s)) && negb (Nat.eqb n to)); [|discriminate].
  destruct (g_add_out (s_nodes s) n to) as [g [[a b] c]]. inversion H; subst; clear H.
  destruct b; destruct c; simpl in Ht; repeat (destruct Ht as [<-|Ht]); try contradiction; reflexivity.
Qed.

Lemma unwind_seg : forall r stk cur cs ks below term,
  unwind r stk = Some (cs, ks, below, term) -> seg cur stk ->
  match term with None => forallb plain below = true | Some _ => below = [] end.
Proof.
  induction stk as [|h t IH]; simpl; intros cur cs ks below term H S; [discriminate|].
  destruct h; try discriminate; simpl in S.
  - destruct (Nat.eqb r r0); [|discriminate]. destruct S as [_ S]. eapply IH; eauto.
  - destruct (Nat.eqb r r0); [|discriminate]. destruct (unwind r t) as [[[[cs' ks'] b'] t']|] eqn:U; [|discriminate].
    inversion H; subst; clear H. destruct S as [_ S]. eapply IH; eauto.
  - destruct (Nat.eqb r r0); [|discriminate]. destruct (unwind r t) as [[[[cs' ks'] b'] t']|] eqn:U; [|discriminate].
    inversion H; subst; clear H. eapply IH; eauto.
  - subst t. inversion H; subst; reflexivity.
  - destruct (Nat.eqb r r0); [|discriminate]. inversion H; subst; clear H. apply S.
Qed.

Lemma rels_plain : forall cs t, In t (map (fun c => [FRelEnter c]) cs) -> forallb plain t = true.
Proof. intros cs t Ht. apply in_map_iff in Ht. destruct Ht as [x [<- _]]. reflexivity. Qed.

Lemma do_fail_seg : forall s r stk retry s1 st sp cur,
  do_fail s r stk retry = Some (s1, st, sp) -> seg cur stk ->
  seg None st /\ (forall m j, walk None st <> Some (Some m, j)) /\ forall t, In t sp -> forallb plain t = true.
Proof.
  intros s r stk retry s1 st sp cur H S. unfold do_fail in H.
  destruct (unwind r stk) as [[[[cs ks] below] term]|] eqn:U; [|discriminate].
  assert (B := unwind_seg _ _ _ _ _ _ _ U S).
  destruct term as [jid|].
  - subst below. inversion H; subst; clear H. simpl. split; [reflexivity|]. split; [intros m j Q; discriminate|].
    intros t Ht. eapply rels_plain; exact Ht.
  - destruct retry; inversion H; subst; clear H; simpl; (split; [split; [reflexivity | exact B]|]); (split; [intros m j Q; discriminate|]);
      intros t Ht; rewrite ?in_app_iff in Ht.
    + destruct Ht as [Ht|[<-|[]]]; [eapply rels_plain; exact Ht | reflexivity].
    + eapply rels_plain; exact Ht.
Qed.

Definition join_wit (st : list frame) (m j : nat) : Prop :=
  exists r q post, st = FJoin r j :: FScript r m q :: post.

Ltac segt :=
  simpl; repeat split; try (left; reflexivity); try (right; reflexivity); try assumption; try reflexivity;
  try (eapply seg_weaken; eassumption); try (apply plain_seg; assumption).

Lemma step_top_seg : forall s f rest arg s1 st sp,
  step_top s f rest arg = Some (s1, st, sp) -> seg None (f :: rest) ->
  seg None st /\
  (forall m j, walk None st = Some (Some m, j) -> walk None (f :: rest) = Some (Some m, j)) /\
  (forall t, In t sp -> seg None t /\ forall m j, walk None t = Some (Some m, j) -> join_wit st m j).
Proof.
  intros s f rest arg s1 st sp H S.
  assert (PlainSp : forall (sp0 : list (list frame)), (forall t, In t sp0 -> forallb plain t = true) ->
            forall t, In t sp0 -> seg None t /\ forall m j, walk None t = Some (Some m, j) -> join_wit st m j).
  { intros sp0 P t Ht. specialize (P t Ht). split; [apply plain_seg; exact P|]. intros m j Q. rewrite (plain_walk _ _ P) in Q. discriminate. }
  assert (NoSp : forall t, In t (@nil (list frame)) -> seg None t /\ forall m j, walk None t = Some (Some m, j) -> join_wit st m j) by (intros t []).
  assert (PR : forallb plain st = true -> (forall t, In t sp -> forallb plain t = true) ->
          seg None st /\
          (forall m j, walk None st = Some (Some m, j) -> walk None (f :: rest) = Some (Some m, j)) /\
          (forall t, In t sp -> seg None t /\ forall m j, walk None t = Some (Some m, j) -> join_wit st m j)).
  { intros P1 P2. split; [apply plain_seg; exact P1|]. split; [intros m j Q; rewrite (plain_walk _ _ P1) in Q; discriminate|].
    apply PlainSp. exact P2. }
  unfold step_top, alloc, opt_task in H.
  destruct f; cbv beta iota zeta in H; simpl in S.
  - (* FInvList *) destruct S as [_ P]. destruct (memb arg l); [|discriminate].
    destruct (inv_step_plain _ _ _ _ _ _ H) as [A B]; [simpl; exact P|]. apply PR; assumption.
  - destruct S as [_ P]. inversion H; subst; clear H. apply PR; [simpl; exact P | intros t []].
  - (* FRelEnter *) destruct S as [_ P]. destruct (inv_step_plain _ _ _ _ _ _ H) as [A B]; [simpl; exact P|]. apply PR; assumption.
  - (* FRelMark *) destruct S as [_ P]. destruct (n_rel (getN s n)); [inversion H; subst; clear H; apply PR; [exact P | intros t []]|].
    destruct (n_hrel (getN s n)) as [[sl|]|]; inversion H; subst; clear H; (apply PR; [simpl; exact P | intros t []]).
  - (* FCleanup *) destruct S as [_ P].
    destruct (Nat.eqb (slot_res (upd_node s n (inc_cln (getN s n))) slot) n); inversion H; subst; clear H; (apply PR; [exact P | intros t []]).
  - (* FRelDeps *) destruct S as [_ P]. destruct froms as [|from l]; [discriminate|].
    destruct (g_rel_dep (s_nodes s) from n) as [g shrel]. destruct shrel; inversion H; subst; clear H; (apply PR; [simpl; exact P | intros t []]).
  - (* FRunWait *) destruct S as [_ P]. destruct (Nat.eqb arg 0); [inversion H; subst; clear H; apply PR; [simpl; exact P | intros t []]|].
    destruct (r_cancel (getr s r)); [|discriminate]. inversion H; subst; clear H. apply PR; [exact P | intros t []].
  - (* FRunLock *) destruct S as [_ P]. destruct (r_mu (getr s r)); [discriminate|].
    destruct (r_stop (getr s r)); inversion H; subst; clear H; (apply PR; [simpl; exact P | intros t []]).
  - (* FCleanStart *) destruct S as [_ P].
    destruct (Nat.eqb arg 1); [destruct (r_cancel (getr s r)); [|discriminate]; inversion H; subst; clear H; apply PR; [exact P | intros t []]|].
    destruct (r_clock (getr s r)); [discriminate|]. inversion H; subst; clear H. apply PR; [simpl; exact P | intros t []].
  - (* FClean *) destruct S as [_ P]. destruct ks as [|k0 ks']; [inversion H; subst; clear H; apply PR; [simpl; exact P | intros t []]|].
    destruct (memb arg (k0 :: ks')); [|discriminate].
    destruct (n_inv (getN s arg)); inversion H; subst; clear H; (apply PR; [simpl; exact P | intros t []]).
  - (* FBegin *) destruct S as [_ P]. inversion H; subst; clear H.
    split; [segt|]. split; [intros m j Q; simpl in Q; discriminate | exact NoSp].
  - (* FScript *)
    destruct S as [_ Sr]. destruct p as [|o q]; [discriminate|].
    assert (Sq : seg None (FScript r c q :: rest)) by (simpl; split; [left; reflexivity | exact Sr]).
    assert (Df : forall b, do_fail s r (FScript r c q :: rest) b = Some (s1, st, sp) ->
              seg None st /\
              (forall m j, walk None st = Some (Some m, j) -> walk None (FScript r c (o :: q) :: rest) = Some (Some m, j)) /\
              (forall t, In t sp -> seg None t /\ forall m j, walk None t = Some (Some m, j) -> join_wit st m j)).
    { intros b Hf. destruct (do_fail_seg _ _ _ _ _ _ _ _ Hf Sq) as [A [B C]]. split; [exact A|]. split; [intros m j Q; exfalso; eapply B; exact Q|].
      apply PlainSp. exact C. }
    destruct o.
    + inversion H; subst; clear H. split; [segt|]. split; [intros m j Q; exact Q | exact NoSp].
    + destruct (Nat.eqb arg 0); inversion H; subst; clear H; (split; [segt|]); (split; [intros m j Q; exact Q | exact NoSp]).
    + destruct (Nat.eqb arg 0).
      * destruct (memb key (r_keys (getr s r))); [discriminate|]. inversion H; subst; clear H.
        split; [segt|]. split; [intros m j Q; exact Q | exact NoSp].
      * destruct (Nat.eqb arg 2); [inversion H; subst; clear H; split; [segt|]; split; [intros m j Q; exact Q | exact NoSp]|].
        destruct (r_cancel (getr s r)); [|discriminate]. apply (Df false). exact H.
    + destruct (Nat.eqb arg 0); [inversion H; subst; clear H; split; [segt|]; split; [intros m j Q; exact Q | exact NoSp]|].
      apply (Df false). exact H.
    + destruct (Nat.eqb arg 0); [inversion H; subst; clear H; split; [segt|]; split; [intros m j Q; exact Q | exact NoSp]|].
      apply (Df true). exact H.
    + inversion H; subst; clear H. split; [segt|]. split; [intros m j Q; exact Q|].
      intros t Ht. destruct (branch_tasks_in _ _ _ _ _ _ Ht) as [idx [b [Hb ->]]]. split; [segt|].
      intros m j Q. simpl in Q. inversion Q; subst. exists r, q, rest. reflexivity.
  - (* FDepAdd *)
    destruct S as [_ Sr]. destruct (do_add_out s res c) as [[s2 sp2]|] eqn:A; [|discriminate]. inversion H; subst; clear H.
    split; [segt|]. split; [intros m j Q; exact Q|]. apply PlainSp. eapply do_add_out_plain; exact A.
  - (* FDepRead *)
    destruct S as [_ Sr]. inversion H; subst; clear H. split; [segt|]. split; [|exact NoSp].
    intros m j Q. simpl. eapply walk_indep; [exact Q | discriminate].
  - (* FTimerReg *)
    destruct S as [_ Sr]. destruct (n_hrel (getN s res)); [discriminate|]. inversion H; subst; clear H.
    split; [segt|]. split; [intros m j Q; exact Q | exact NoSp].
  - (* FTimerAdd *)
    destruct S as [_ Sr]. destruct (do_add_out s res c) as [[s2 sp2]|] eqn:A; [|discriminate]. inversion H; subst; clear H.
    split; [segt|]. split; [intros m j Q; simpl; eapply walk_indep; [exact Q | discriminate]|]. apply PlainSp. eapply do_add_out_plain; exact A.
  - (* FChildBegin *)
    destruct S as [_ Sr]. inversion H; subst; clear H. split; [segt|]. split; [intros m j Q; exact Q | exact NoSp].
  - (* FCacheSet *)
    destruct S as [_ Sr]. destruct (cache_get (r_cache (getr s r)) key); inversion H; subst; clear H;
      (split; [segt|]); (split; [intros m j Q; exact Q | exact NoSp]).
  - (* FCacheLink *)
    destruct S as [_ Sr]. destruct (do_add_out s child parent) as [[s2 sp2]|] eqn:A; [|discriminate]. inversion H; subst; clear H.
    split; [segt|]. split; [intros m j Q; simpl; eapply walk_indep; [exact Q | discriminate]|]. apply PlainSp. eapply do_add_out_plain; exact A.
  - (* FCacheGet *)
    destruct S as [_ Sr]. destruct (cache_get (r_cache (getr s r)) key) as [child|].
    + destruct (Nat.eqb child c); [discriminate|]. inversion H; subst; clear H. split; [segt|]. split; [intros m j Q; exact Q | exact NoSp].
    + inversion H; subst; clear H. split; [segt|]. split; [intros m j Q; exact Q | exact NoSp].
  - (* FKeyUnlock *)
    inversion H; subst; clear H. split; [exact S|]. split; [intros m j Q; exact Q | exact NoSp].
  - (* FJoin *)
    destruct (nth jid (s_joins s) (0, false)) as [nb failed]. destruct (Nat.eqb nb 0); [|discriminate].
    destruct failed.
    + destruct (do_fail_seg _ _ _ _ _ _ _ _ H S) as [A [B C]]. split; [exact A|]. split; [intros m j Q; exfalso; eapply B; exact Q|].
      apply PlainSp. exact C.
    + inversion H; subst; clear H. split; [exact S|]. split; [intros m j Q; exact Q | exact NoSp].
  - (* FBranchBegin *)
    inversion H; subst; clear H. split; [exact S|]. split; [intros m j Q; exact Q | exact NoSp].
  - (* FBranchEnd *)
    destruct (nth jid (s_joins s) (0, false)) as [nb failed]. inversion H; subst; clear H.
    split; [reflexivity|]. split; [intros m j Q; discriminate | exact NoSp].
  - (* FRunEnd *)
    destruct S as [_ P]. destruct (r_comp (getr s r)); inversion H; subst; clear H;
      (apply PR; [simpl; exact P | intros t Ht; simpl in Ht; repeat (destruct Ht as [<-|Ht]); try contradiction; reflexivity]).
  - (* FArm *)
    destruct S as [_ P].
    destruct (negb (n_inv (getN s c)) && match n_hinv (getN s c) with Some _ => true | None => false end); [discriminate|].
    destruct (g_handle_inv (s_nodes s) c r) as [g' fired]. inversion H; subst; clear H.
    apply PR; [simpl; exact P | intros t Ht; destruct fired; simpl in Ht; repeat (destruct Ht as [<-|Ht]); try contradiction; reflexivity].
  - (* FUnlock *) destruct S as [_ P]. inversion H; subst; clear H. apply PR; [exact P | intros t []].
  - (* FStop *)
    destruct S as [_ P]. destruct cancelled.
    + destruct (r_mu (getr s r)); [discriminate|]. destruct (r_comp (getr s r)); inversion H; subst; clear H;
        (apply PR; [exact P | intros t Ht; simpl in Ht; repeat (destruct Ht as [<-|Ht]); try contradiction; reflexivity]).
    + inversion H; subst; clear H. apply PR; [simpl; exact P | intros t []].
  - (* FOutAdd *)
    destruct S as [_ P]. destruct (Nat.ltb n (length (s_nodes s))); [|discriminate].
    destruct (g_add_out_released (s_nodes s) n) as [g' [shinv shrel]]. inversion H; subst; clear H.
    apply PR; [exact P | intros t Ht; destruct shinv, shrel; simpl in Ht; repeat (destruct Ht as [<-|Ht]); try contradiction; reflexivity].
  - (* FPhInv *) destruct S as [_ P]. inversion H; subst; clear H. apply PR; [exact P | intros t []].
Qed.

(** ** the tasks after one step *)
Lemma in_pre_post_neq : forall (pre post : list (nat * list frame)) tid x tid' st',
  NoDup (map fst (pre ++ (tid, x) :: post)) -> In (tid', st') (pre ++ post) -> tid' <> tid.
Proof.
  intros pre post tid x tid' st' Nd Hin Q. subst tid'. rewrite map_app in Nd. simpl in Nd. apply NoDup_remove_2 in Nd.
  apply Nd. rewrite <- map_app. apply in_map_iff. exists (tid, st'). split; [reflexivity | exact Hin].
Qed.

Lemma task_step_tasks : forall s tid arg s', tasks_ok s -> step s (LTask tid arg) = Some s' ->
  exists f rest s1 st sp,
    In (tid, f :: rest) (s_tasks s) /\ step_top s f rest arg = Some (s1, st, sp) /\
    s_joins s' = s_joins s1 /\ s_nodes s' = s_nodes s1 /\ s_rrs s' = s_rrs s1 /\
    (forall tid' st', In (tid', st') (s_tasks s') ->
       (In (tid', st') (s_tasks s) /\ tid' <> tid) \/ (tid' = tid /\ st' = norm st /\ norm st <> []) \/ In st' sp) /\
    (forall tid' st', In (tid', st') (s_tasks s) -> tid' <> tid -> In (tid', st') (s_tasks s')) /\
    (norm st <> [] -> In (tid, norm st) (s_tasks s')).
Proof.
  intros s tid arg s' [Nd Ok] H. unfold step in H.
  destruct (find_task (s_tasks s) tid) as [[|f rest]|] eqn:F; try discriminate.
  destruct (step_top s f rest arg) as [[[s1 st] sp]|] eqn:T; try discriminate.
  inversion H; subst s'; clear H.
  destruct (find_task_split _ _ _ F) as [pre [post [E1 E2]]].
  destruct (step_top_tid _ _ _ _ _ _ _ T) as [Ti Ta].
  exists f, rest, s1, st, sp.
  split; [rewrite E1; apply in_app_iff; right; left; reflexivity|]. split; [exact T|].
  split; [reflexivity|]. split; [reflexivity|]. split; [reflexivity|].
  unfold spawn. simpl. rewrite Ta, E2. rewrite E1 in Nd.
  split; [|split].
  - intros tid' st' Hin. rewrite !in_app_iff in Hin. destruct Hin as [[Hin|[Hin|Hin]]|Hin].
    + left. split; [rewrite E1; apply in_app_iff; left; exact Hin|]. eapply in_pre_post_neq; [exact Nd | apply in_app_iff; left; exact Hin].
    + right. left. unfold task_list in Hin. destruct (norm st) eqn:En; simpl in Hin; [contradiction|]. destruct Hin as [Q|[]]. inversion Q; subst.
      split; [reflexivity|]. split; [reflexivity | discriminate].
    + left. split; [rewrite E1; apply in_app_iff; right; right; exact Hin|]. eapply in_pre_post_neq; [exact Nd | apply in_app_iff; right; exact Hin].
    + right. right. destruct (number_from_in _ _ _ _ Hin) as [_ Hs]. exact Hs.
  - intros tid' st' Hin Ne. rewrite E1 in Hin. rewrite !in_app_iff. apply in_app_iff in Hin. left.
    destruct Hin as [Hin|[Q|Hin]]; [left; exact Hin | inversion Q; subst; congruence | right; right; exact Hin].
  - intros Nn. rewrite !in_app_iff. left. right. left. unfold task_list. destruct (norm st); [congruence | left; reflexivity].
Qed.

(** counting frames of one or two tasks among all frames *)
Lemma count_task_le : forall p (ts : list (nat * list frame)) tid st,
  In (tid, st) ts -> count p st <= count p (concat (map snd ts)).
Proof.
  induction ts as [|[i x] t IH]; simpl; intros tid st Hin; [contradiction|]. rewrite count_app.
  destruct Hin as [Q|Hin]; [inversion Q; subst; lia | specialize (IH _ _ Hin); lia].
Qed.

Lemma count_two_tasks : forall p (ts : list (nat * list frame)) t1 s1 t2 s2,
  In (t1, s1) ts -> In (t2, s2) ts -> t1 <> t2 -> count p s1 + count p s2 <= count p (concat (map snd ts)).
Proof.
  induction ts as [|[i x] t IH]; simpl; intros t1 s1 t2 s2 H1 H2 Ne; [contradiction|]. rewrite count_app.
  destruct H1 as [Q1|H1]; destruct H2 as [Q2|H2].
  - inversion Q1; inversion Q2; subst. congruence.
  - inversion Q1; subst. assert (A := count_task_le p _ _ _ H2). lia.
  - inversion Q2; subst. assert (A := count_task_le p _ _ _ H1). lia.
  - specialize (IH _ _ _ _ H1 H2 Ne). lia.
Qed.

(** ** node lists only grow *)
Lemma inv_step_len : forall s n k s1 st sp, inv_step s n k = Some (s1, st, sp) -> length (s_nodes s1) = length (s_nodes s).
Proof.
  intros s n k s1 st sp H. unfold inv_step in H.
  destruct (Nat.ltb n (length (s_nodes s))); [|discriminate].
  destruct (n_inv (getN s n)); [inversion H; reflexivity|].
  destruct (n_hinv (getN s n)) as [r|]; [destruct (r_spawn (getr s r))|]; inversion H; subst; simpl; unfold g_inv_mark; apply length_setn.
Qed.

Lemma do_fail_nodes : forall s r stk b s1 st sp, do_fail s r stk b = Some (s1, st, sp) -> s_nodes s1 = s_nodes s.
Proof.
  intros s r stk b s1 st sp H.
  destruct (do_fail_spec _ _ _ _ _ _ _ H) as [cs [ks [below [term [y [U [N _]]]]]]]. exact N.
Qed.

Lemma step_top_len : forall s f rest arg s1 st sp,
  step_top s f rest arg = Some (s1, st, sp) -> length (s_nodes s) <= length (s_nodes s1).
Proof.
  intros s f rest arg s1 st sp H. unfold step_top, alloc in H.
  destruct f; cbv beta iota zeta in H; dmatch H;
    repeat match goal with
    | A : do_add_out _ _ _ = Some _ |- _ => apply do_add_out_edge_len in A
    | A : inv_step _ _ _ = Some _ |- _ => apply inv_step_len in A
    | A : do_fail _ _ _ _ = Some _ |- _ => apply do_fail_nodes in A
    end;
    unfold g_rel_mark, g_handle_rel, g_handle_inv, g_rel_dep, g_add_out_released, upd_node, with_nodes, with_rr, with_slot, with_joins in *;
    simpl in *;
    repeat match goal with
    | A : context [if ?b then _ else _] |- _ => destruct b
    | |- context [if ?b then _ else _] => destruct b
    end;
    repeat match goal with A : (_, _) = (_, _) |- _ => inversion A; subst; clear A end;
    simpl in *; rewrite ?length_setn, ?app_length, ?length_setn in *; simpl; try lia; try congruence;
    try (match goal with A : s_nodes _ = s_nodes _ |- _ => rewrite A; lia end).
Qed.

(** ** every computation has at most one home *)
Definition home_on (g : graph) (fr : list frame) : Prop :=
  (forall m, count (is_home m) fr <= 1) /\ (forall m, length g <= m -> count (is_home m) fr = 0).
Definition home_inv (s : state) : Prop := home_on (s_nodes s) (all_frames s).

Lemma do_fail_home : forall s r stk b s1 st sp m,
  do_fail s r stk b = Some (s1, st, sp) -> count (is_home m) (st ++ concat sp) <= count (is_home m) stk.
Proof.
  intros s r stk b s1 st sp m H.
  destruct (do_fail_spec _ _ _ _ _ _ _ H) as [cs [ks [below [term [y [U [N [Sl [R [Y1 [Y2 [Y3 [Y4 [Y5 [Y6 [Y7 [Y8 T]]]]]]]]]]]]]]]]].
  destruct (unwind_split _ _ _ _ _ _ U) as [d [l [E [Fd [L _]]]]].
  rewrite E, !count_app. simpl.
  destruct term as [jid|]; simpl in L.
  - subst l. destruct T as [-> [-> _]]. simpl. rewrite rels_count by reflexivity. lia.
  - destruct L as [c ->]. destruct T as [-> [_ [[_ [-> _]]|[_ [-> _]]]]]; simpl; rewrite ?concat_app, ?count_app, rels_count by reflexivity; simpl; lia.
Qed.

Lemma step_top_home : forall s f rest arg s1 st sp m,
  step_top s f rest arg = Some (s1, st, sp) ->
  count (is_home m) (st ++ concat sp) <=
  count (is_home m) (f :: rest) + (if Nat.leb (length (s_nodes s)) m && Nat.ltb m (length (s_nodes s1)) then 1 else 0).
Proof.
  intros s f rest arg s1 st sp m H. unfold step_top, alloc, opt_task in H.
  destruct f; cbv beta iota zeta in H; dmatch H;
    repeat match goal with
    | A : do_add_out _ _ _ = Some _ |- _ => apply do_add_out_rrs in A; destruct A as [_ A]; specialize (A (is_home m) (fun _ => eq_refl) (fun _ => eq_refl))
    | A : inv_step _ _ _ = Some _ |- _ => apply inv_step_counts in A; destruct A as [_ A]; specialize (A (is_home m) (fun _ => eq_refl) (fun _ => eq_refl))
    | A : do_fail _ _ _ _ = Some _ |- _ => apply (do_fail_home _ _ _ _ _ _ _ m) in A
    end;
    simpl in *; rewrite ?count_app in *; simpl in *; rewrite ?branch_tasks_count by reflexivity;
    repeat match goal with |- context [count _ (concat match ?x with _ => _ end)] => destruct x; simpl end;
    repeat match goal with |- context [if ?b then _ else _] => is_var b; destruct b; simpl end;
    try lia;
    (* the two allocations of a computation *)
    unfold is_home at 1; simpl; rewrite ?app_length; simpl;
    repeat match goal with |- context [Nat.eqb ?a ?b] => destruct (Nat.eqb a b) eqn:? end;
    repeat match goal with A : Nat.eqb _ _ = true |- _ => apply Nat.eqb_eq in A; subst end;
    rewrite ?Nat.leb_refl; simpl;
    repeat match goal with |- context [Nat.ltb ?a ?b] => let E := fresh in destruct (Nat.ltb a b) eqn:E; [|apply Nat.ltb_ge in E; lia] end;
    simpl; try lia.
Qed.

Lemma count_exh_home : forall m d, forallb exhausted d = true -> count (is_home m) d = 0.
Proof.
  intros m d. apply (count_zero_forall _ exhausted). intros f Hf. destruct f; simpl in Hf; try discriminate; reflexivity.
Qed.

Lemma home_env : forall g g' fr extra,
  home_on g fr -> length g <= length g' -> (forall m, count (is_home m) extra = 0) -> home_on g' (fr ++ extra).
Proof.
  intros g g' fr extra [A B] L Z. split; intros m; rewrite count_app, Z; [specialize (A m); lia|].
  intros Hm. rewrite (B m) by lia. reflexivity.
Qed.

Lemma step_home : forall s l s', home_inv s -> step s l = Some s' -> home_inv s'.
Proof.
  intros s l s' [A B] H. unfold home_inv, home_on in *. destruct l.
  - destruct (step_task_frames _ _ _ _ H) as [f [rest [s1 [st [sp [others [dropped [P1 [T [D1 [D2 [P2 [N _]]]]]]]]]]]]].
    assert (Ln := step_top_len _ _ _ _ _ _ _ T). rewrite N.
    assert (Cnt : forall m, count (is_home m) (all_frames s') <=
                  count (is_home m) (all_frames s) + (if Nat.leb (length (s_nodes s)) m && Nat.ltb m (length (s_nodes s1)) then 1 else 0)).
    { intros m. rewrite (count_perm _ _ _ P1), (count_perm _ _ _ P2).
      assert (Q := step_top_home _ _ _ _ _ _ _ m T). rewrite D1 in Q at 1. rewrite !count_app in *. simpl in *.
      rewrite (count_exh_home _ _ D2) in Q. rewrite !count_app. lia. }
    split.
    + intros m. specialize (Cnt m). specialize (A m). destruct (Nat.leb (length (s_nodes s)) m) eqn:E; simpl in Cnt; [|lia].
      apply Nat.leb_le in E. rewrite (B m E) in Cnt. destruct (Nat.ltb m (length (s_nodes s1))); lia.
    + intros m Hm. specialize (Cnt m). assert (E : Nat.ltb m (length (s_nodes s1)) = false) by (apply Nat.ltb_ge; exact Hm).
      rewrite E, andb_false_r in Cnt. rewrite (B m) in Cnt by lia. lia.
  - simpl in H. destruct (Nat.ltb slot (length (s_slots s))); [|discriminate]. inversion H; subst; clear H.
    rewrite frames_spawn. apply (home_env (s_nodes s) _ (all_frames s) [FStrobe (slot_res s slot)]); [split; assumption | simpl; lia | reflexivity].
  - simpl in H. destruct (Nat.ltb slot (length (s_slots s))); [|discriminate]. inversion H; subst; clear H.
    rewrite frames_spawn. apply (home_env (s_nodes s) _ (all_frames s) [FInvList [slot_res s slot]]); [split; assumption | simpl; rewrite app_length; lia | reflexivity].
  - simpl in H. destruct (Nat.ltb r (length (s_rrs s))); [|discriminate]. inversion H; subst; clear H.
    rewrite frames_spawn. apply (home_env (s_nodes s) _ (all_frames s) [FStop r false]); [split; assumption | simpl; lia | reflexivity].
  - simpl in H. destruct (Nat.ltb r (length (s_rrs s))); [|discriminate].
    destruct (r_clock (getr s r)); [discriminate|]. inversion H; subst; clear H. split; assumption.
  - simpl in H. destruct (Nat.eqb (n_timer (getN s n)) 1); [|discriminate]. inversion H; subst; clear H.
    rewrite frames_spawn. apply (home_env (s_nodes s) _ (all_frames s) [FInvList [n]]); [split; assumption | simpl; rewrite length_setn; lia | reflexivity].
  - simpl in H. destruct (Nat.ltb slot (length (s_slots s))); [|discriminate]. inversion H; subst; clear H.
    rewrite frames_spawn. apply (home_env (s_nodes s) _ (all_frames s) [FOutAdd (slot_res s slot)]); [split; assumption | simpl; lia | reflexivity].
  - simpl in H. destruct (Nat.ltb r (length (s_rrs s))); [|discriminate]. inversion H; subst; clear H. split; assumption.
Qed.

Lemma init_home : forall k progs, home_inv (init k progs).
Proof.
  intros k progs. unfold home_inv, home_on, all_frames, init. simpl.
  assert (Z : forall m, count (is_home m) (concat (map snd (init_tasks (length progs) 0))) = 0)
    by (intros m; apply init_tasks_counts; reflexivity).
  split; intros m; rewrite Z; lia.
Qed.

Lemma reachable_home : forall k progs s, reachable (init k progs) s -> home_inv s.
Proof. intros k progs s R. induction R as [|s l s' R IH H]; [apply init_home | eapply step_home; eauto]. Qed.

(** ** the segment invariant of all tasks *)
Definition seg_inv (s : state) : Prop :=
  (forall tid st, In (tid, st) (s_tasks s) -> seg None st) /\
  (forall tid st m j, In (tid, st) (s_tasks s) -> walk None st = Some (Some m, j) ->
     exists tid2 st2, In (tid2, st2) (s_tasks s) /\ join_wit st2 m j).

Lemma tasks_functional : forall (ts : list (nat * list frame)) t a b, NoDup (map fst ts) -> In (t, a) ts -> In (t, b) ts -> a = b.
Proof.
  induction ts as [|[i x] r IH]; simpl; intros t a b Nd Ha Hb; [contradiction|]. inversion Nd; subst.
  destruct Ha as [Qa|Ha]; destruct Hb as [Qb|Hb].
  - congruence.
  - inversion Qa; subst. exfalso. apply H1. apply in_map_iff. exists (t, b). split; [reflexivity | exact Hb].
  - inversion Qb; subst. exfalso. apply H1. apply in_map_iff. exists (t, a). split; [reflexivity | exact Ha].
  - eapply IH; eauto.
Qed.

Lemma join_step_zero : forall s r j rest arg res,
  step_top s (FJoin r j) rest arg = Some res -> fst (nth j (s_joins s) (0, false)) = 0.
Proof.
  intros s r j rest arg res H. simpl in H. destruct (nth j (s_joins s) (0, false)) as [nb failed]. simpl.
  destruct (Nat.eqb nb 0) eqn:E; [apply Nat.eqb_eq in E; exact E | discriminate].
Qed.

Lemma bend_count_pos : forall s tid st j, In (tid, st) (s_tasks s) -> In (FBranchEnd j) st -> 1 <= count (is_bend j) (all_frames s).
Proof.
  intros s tid st j Hin Hb. assert (A := count_task_le (is_bend j) _ _ _ Hin). unfold all_frames.
  assert (B : 1 <= count (is_bend j) st).
  { clear - Hb. induction st as [|f t IH]; [contradiction|]. simpl. destruct Hb as [->|Hb]; [simpl; rewrite Nat.eqb_refl; lia | specialize (IH Hb); lia]. }
  lia.
Qed.

Lemma env_seg : forall s f, plain f = true -> seg_inv s -> seg_inv (spawn s [[f]]).
Proof.
  intros s f P [A B]. unfold seg_inv, spawn. simpl. split.
  - intros tid st Hin. apply in_app_iff in Hin. destruct Hin as [Hin|[Q|[]]]; [eapply A; exact Hin|].
    inversion Q; subst. apply plain_seg. simpl. rewrite P. reflexivity.
  - intros tid st m j Hin W. apply in_app_iff in Hin. destruct Hin as [Hin|[Q|[]]].
    + destruct (B _ _ _ _ Hin W) as [t2 [s2 [H2 J2]]]. exists t2, s2. split; [apply in_app_iff; left; exact H2 | exact J2].
    + inversion Q; subst. rewrite plain_walk in W by (simpl; rewrite P; reflexivity). discriminate.
Qed.

Lemma step_seg : forall s l s',
  tasks_ok s -> jtasks_ok s -> join_inv s -> seg_inv s -> step s l = Some s' -> seg_inv s'.
Proof.
  intros s l s' Tk Jt Jn [A B] H. destruct l.
  - destruct (task_step_tasks _ _ _ _ Tk H) as [f [rest [s1 [st [sp [Hf [T [_ [_ [_ [Cases [Keep Mine]]]]]]]]]]]].
    destruct (step_top_seg _ _ _ _ _ _ _ T (A _ _ Hf)) as [S1 [W1 Csp]].
    assert (Persist : forall tid2 st2 m j, In (tid2, st2) (s_tasks s) -> join_wit st2 m j ->
              (exists tid' st', In (tid', st') (s_tasks s) /\ tid' <> tid /\ In (FBranchEnd j) st') ->
              In (tid2, st2) (s_tasks s')).
    { intros tid2 st2 m j H2 [r [q [post E]]] [tid' [st' [H' [Ne Hb]]]].
      destruct (Nat.eq_dec tid2 tid) as [->|Nq]; [|apply Keep; assumption].
      exfalso. assert (Eq := tasks_functional _ _ _ _ (proj1 Tk) H2 Hf). subst st2. inversion Eq; subst f rest.
      assert (Z := join_step_zero _ _ _ _ _ _ T).
      assert (P := bend_count_pos _ _ _ _ H' Hb). destruct Jn as [_ Jc]. rewrite (Jc j) in P. lia. }
    split.
    + intros tid' st' Hin. destruct (Cases _ _ Hin) as [[Old _]|[[_ [-> _]]|New]]; [eapply A; exact Old | apply seg_norm; exact S1 | apply (Csp _ New)].
    + intros tid' st' m j Hin W. destruct (Cases _ _ Hin) as [[Old Ne]|[[-> [-> Nn]]|New]].
      * destruct (B _ _ _ _ Old W) as [t2 [s2 [H2 J2]]]. exists t2, s2. split; [|exact J2].
        eapply Persist; [exact H2 | exact J2|]. exists tid', st'. split; [exact Old|]. split; [exact Ne | eapply walk_bend; exact W].
      * assert (W0 := W1 _ _ (walk_norm _ _ _ S1 W)).
        destruct (B _ _ _ _ Hf W0) as [t2 [s2 [H2 J2]]]. exists t2, s2. split; [|exact J2].
        destruct (Nat.eq_dec t2 tid) as [->|Nq]; [|apply Keep; assumption].
        exfalso. assert (Eq := tasks_functional _ _ _ _ (proj1 Tk) H2 Hf). subst s2. destruct J2 as [r [q [post E]]]. inversion E; subst f rest.
        destruct (Jt _ _ Hf) as [[_ [J2' _]] _].
        assert (Hb0 := walk_bend _ _ _ _ W0). destruct Hb0 as [Q|Hb0]; [discriminate|].
        assert (Hb : In j (bends (FScript r m q :: post))) by (apply bends_in; exact Hb0).
        specialize (J2' r j j eq_refl Hb). lia.
      * destruct (Csp _ New) as [_ Wt]. specialize (Wt _ _ W). exists tid, st. 
        assert (Nst : norm st = st) by (destruct Wt as [r [q [post ->]]]; reflexivity).
        split; [|exact Wt]. rewrite <- Nst. apply Mine. rewrite Nst. destruct Wt as [r [q [post ->]]]. discriminate.
  - simpl in H. destruct (Nat.ltb slot (length (s_slots s))); [|discriminate]. inversion H; subst; clear H.
    assert (Q := env_seg (with_slot s slot (S (slot_ver s slot), slot_res s slot)) (FStrobe (slot_res s slot)) eq_refl). apply Q. split; assumption.
  - simpl in H. destruct (Nat.ltb slot (length (s_slots s))); [|discriminate]. inversion H; subst; clear H.
    apply (env_seg _ (FInvList [slot_res s slot]) eq_refl). split; assumption.
  - simpl in H. destruct (Nat.ltb r (length (s_rrs s))); [|discriminate]. inversion H; subst; clear H.
    apply (env_seg _ (FStop r false) eq_refl). split; assumption.
  - simpl in H. destruct (Nat.ltb r (length (s_rrs s))); [|discriminate].
    destruct (r_clock (getr s r)); [discriminate|]. inversion H; subst; clear H. split; assumption.
  - simpl in H. destruct (Nat.eqb (n_timer (getN s n)) 1); [|discriminate]. inversion H; subst; clear H.
    apply (env_seg _ (FInvList [n]) eq_refl). split; assumption.
  - simpl in H. destruct (Nat.ltb slot (length (s_slots s))); [|discriminate]. inversion H; subst; clear H.
    apply (env_seg _ (FOutAdd (slot_res s slot)) eq_refl). split; assumption.
  - simpl in H. destruct (Nat.ltb r (length (s_rrs s))); [|discriminate]. inversion H; subst; clear H. split; assumption.
Qed.

Lemma init_tasks_single : forall n j tid st, In (tid, st) (init_tasks n j) -> st = [FRunWait tid].
Proof.
  induction n as [|n IH]; intros j tid st Q; simpl in Q; [contradiction|].
  destruct Q as [Q|Q]; [inversion Q; reflexivity | eapply IH; exact Q].
Qed.

Lemma init_seg : forall k progs, seg_inv (init k progs).
Proof.
  intros k progs. unfold seg_inv, init. simpl. split.
  - intros tid st Hin. rewrite (init_tasks_single _ _ _ _ Hin). simpl. auto.
  - intros tid st m j Hin W. rewrite (init_tasks_single _ _ _ _ Hin) in W. discriminate.
Qed.

Lemma reachable_seg : forall k progs s, reachable (init k progs) s -> seg_inv s.
Proof.
  intros k progs s R. induction R as [|s l s' R IH H]; [apply init_seg|].
  eapply step_seg; [eapply reachable_tasks_ok | eapply reachable_jtasks | eapply reachable_join | exact IH | exact H]; exact R.
Qed.

(** ** when the home of a computation is at the top of its stack nobody works for the computation any more *)
Section NoRun.
Variable s : state.
Hypothesis Tk : tasks_ok s.
Hypothesis Jt : jtasks_ok s.
Hypothesis Sg : seg_inv s.
Hypothesis Hm : home_inv s.
Variables (tid0 : nat) (h : frame) (rest0 : list frame) (m : nat).
Hypothesis H0 : In (tid0, h :: rest0) (s_tasks s).
Hypothesis Hh : is_home m h = true.

Lemma no_second_home : forall tid pre f post,
  In (tid, pre ++ f :: post) (s_tasks s) -> 1 <= count (is_home m) post -> False.
Proof.
  intros tid pre f post Hin C. destruct Hm as [A _]. specialize (A m). unfold all_frames in A.
  destruct (Nat.eq_dec tid tid0) as [->|Ne].
  - assert (E := tasks_functional _ _ _ _ (proj1 Tk) Hin H0).
    assert (Q := count_task_le (is_home m) _ _ _ Hin). rewrite count_app in Q. simpl in Q.
    destruct pre as [|g pre']; simpl in E; inversion E; subst.
    + rewrite Hh in Q. lia.
    + simpl in Q. rewrite Hh in Q. lia.
  - assert (Q := count_two_tasks (is_home m) _ _ _ _ _ H0 Hin (fun e => Ne (eq_sym e))). simpl in Q. rewrite Hh in Q.
    rewrite count_app in Q. simpl in Q. lia.
Qed.

Lemma no_branch_base : forall j tid st, In (tid, st) (s_tasks s) -> walk None st = Some (Some m, j) -> False.
Proof.
  induction j as [j IH] using lt_wf_ind. intros tid st Hin W.
  destruct Sg as [S1 S2]. destruct (S2 _ _ _ _ Hin W) as [tid2 [st2 [H2 [r [q [post E]]]]]]. subst st2.
  assert (Sst := S1 _ _ H2).
  destruct (seg_split [FJoin r j] (FScript r m q) post None m Sst eq_refl) as [Sp Wk]. simpl in Wk.
  destruct (seg_down _ _ Sp) as [C|[j2 W2]].
  - exact (no_second_home tid2 [FJoin r j] (FScript r m q) post H2 C).
  - destruct (Jt _ _ H2) as [[_ [J2 _]] _].
    assert (Hb : In j2 (bends (FScript r m q :: post))).
    { apply bends_in. right. eapply walk_bend. exact W2. }
    specialize (J2 r j j2 eq_refl Hb).
    eapply (IH j2 J2 tid2 (FJoin r j :: FScript r m q :: post) H2). simpl. exact W2.
Qed.

Lemma home_top_no_run : forall tid st f, In (tid, st) (s_tasks s) -> In f st -> runs f <> Some m.
Proof.
  intros tid st f Hin Hf R. destruct (in_split _ _ Hf) as [pre [post E]]. subst st.
  destruct Sg as [S1 _]. destruct (seg_split pre f post None m (S1 _ _ Hin) R) as [Sp Wk].
  destruct (seg_down _ _ Sp) as [C|[j W]].
  - exact (no_second_home tid pre f post Hin C).
  - eapply no_branch_base; [exact Hin | rewrite Wk; exact W].
Qed.

End NoRun.
