(** * Reactive/ProofsClosed.v — closedness: every node id held in a frame, an edge list, a cache, a slot or
    a rerunner names an existing node; the side conditions of the guarded labels (addOut between distinct
    existing nodes, first handler on a fresh node) hold of every frame; cache.mu bookkeeping. *)
From Coq Require Import List Arith Bool Lia Permutation.
From Thunder Require Import Reactive.Graph Reactive.Rerunner Reactive.ProofsBase Reactive.ProofsEdge
  Reactive.ProofsMutex Reactive.ProofsArmed.
Import ListNotations.

(** programs only name existing slots *)
Fixpoint op_ok (k : nat) (o : op) : bool :=
  match o with
  | ODep sl => Nat.ltb sl k
  | OCache _ body => (fix go (l : list op) : bool := match l with [] => true | x :: t => op_ok k x && go t end) body
  | OPar bs =>
      (fix gob (ll : list (list op)) : bool :=
         match ll with
         | [] => true
         | b :: t => (fix go (l : list op) : bool := match l with [] => true | x :: u => op_ok k x && go u end) b && gob t
         end) bs
  | _ => true
  end.
Definition prog_ok (k : nat) (p : list op) : bool := forallb (op_ok k) p.

Lemma op_ok_cache : forall k key body, op_ok k (OCache key body) = prog_ok k body.
Proof. intros k key body. simpl. induction body as [|x t IH]; simpl; [reflexivity | rewrite IH; reflexivity]. Qed.

Lemma op_ok_par : forall k bs, op_ok k (OPar bs) = forallb (prog_ok k) bs.
Proof.
  intros k bs. simpl. induction bs as [|b t IH]; simpl; [reflexivity|]. rewrite IH. reflexivity.
Qed.

Lemma prog_ok_cons : forall k o p, prog_ok k (o :: p) = true -> op_ok k o = true /\ prog_ok k p = true.
Proof. intros k o p H. simpl in H. apply andb_true_iff in H. exact H. Qed.

(** a computation node: no release handler, not a timer resource *)
Definition comp_kind (g : graph) (c : nat) : Prop := n_hrel (getn g c) = None /\ n_timer (getn g c) = 0.

Definition frame_ok (g : graph) (k : nat) (f : frame) : Prop :=
  let N := length g in
  match f with
  | FInvList l => forall x, In x l -> x < N
  | FRelEnter n => n < N
  | FRelDeps _ froms => forall x, In x froms -> x < N
  | FScript _ c p => c < N /\ comp_kind g c /\ prog_ok k p = true
  | FDepAdd c _ n => c < N /\ comp_kind g c /\ n < N /\ n_hrel (getn g n) <> None
  | FTimerReg c n => c < N /\ n < N /\ n <> c /\ n_timer (getn g n) <> 0 /\ n_hrel (getn g n) = None
  | FTimerAdd c n => c < N /\ n < N /\ n <> c
  | FChildBegin _ _ body parent => parent < N /\ comp_kind g parent /\ prog_ok k body = true
  | FCacheSet _ _ child parent => child < N /\ parent < N /\ child <> parent
  | FCacheLink child parent => child < N /\ parent < N /\ child <> parent
  | FCacheGet _ _ body c => c < N /\ comp_kind g c /\ prog_ok k body = true
  | FRunEnd _ c => c < N /\ n_hinv (getn g c) = None
  | FArm _ c => c < N /\ n_hinv (getn g c) = None
  | FOutAdd n => n < N
  | _ => True
  end.

Definition is_treg (n : nat) (f : frame) : bool := match f with FTimerReg _ n' => Nat.eqb n n' | _ => false end.
Definition is_end (c : nat) (f : frame) : bool :=
  match f with FRunEnd _ c' | FArm _ c' => Nat.eqb c c' | _ => false end.
Definition is_clean (r : nat) (f : frame) : bool := match f with FClean r' _ => Nat.eqb r r' | _ => false end.

Definition rr_ok (g : graph) (k : nat) (fr : list frame) (r : nat) (x : rr) : Prop :=
  (forall c, r_comp x = Some c -> c < length g) /\
  (forall key child, In (key, child) (r_cache x) -> child < length g) /\
  prog_ok k (r_prog x) = true /\
  count (is_clean r) fr = b2n (r_clock x).

Definition closed_on (g : graph) (slots : list (nat * nat)) (rrs : list rr) (fr : list frame) : Prop :=
  (forall n x, In x (n_ins (getn g n)) -> x < length g) /\
  (forall sl, sl < length slots -> snd (nth sl slots (0, 0)) < length g /\ n_hrel (getn g (snd (nth sl slots (0, 0)))) <> None) /\
  (forall f, In f fr -> frame_ok g (length slots) f) /\
  (forall n, count (is_treg n) fr <= 1) /\
  (forall c, count (is_end c) fr <= 1) /\
  (forall r, r < length rrs -> rr_ok g (length slots) fr r (nth r rrs drr)).

Definition closed_inv (s : state) : Prop := closed_on (s_nodes s) (s_slots s) (s_rrs s) (all_frames s).

Lemma closed_on_perm : forall g slots rrs a b, Permutation a b -> closed_on g slots rrs a -> closed_on g slots rrs b.
Proof.
  intros g slots rrs a b P [A [B [C [D [E F]]]]]. split; [exact A|]. split; [exact B|]. split; [|split; [|split]].
  - intros f Hf. apply C. eapply Permutation_in; [apply Permutation_sym; exact P | exact Hf].
  - intros n. rewrite <- (count_perm _ _ _ P). apply D.
  - intros c. rewrite <- (count_perm _ _ _ P). apply E.
  - intros r Hr. destruct (F r Hr) as [F1 [F2 [F3 F4]]]. repeat split; auto. rewrite <- (count_perm _ _ _ P). exact F4.
Qed.

(** graphs that agree on what frame_ok reads, on existing nodes *)
Definition same_cl (g g' : graph) : Prop :=
  length g <= length g' /\
  forall n, n < length g ->
    n_hrel (getn g' n) = n_hrel (getn g n) /\ n_hinv (getn g' n) = n_hinv (getn g n) /\
    (n_timer (getn g' n) = 0 <-> n_timer (getn g n) = 0).

Lemma same_cl_refl : forall g, same_cl g g.
Proof. intros g. split; [lia|]. intros n _. repeat split; auto. Qed.

Lemma same_cl_trans : forall a b c, same_cl a b -> same_cl b c -> same_cl a c.
Proof.
  intros a b c [L1 H1] [L2 H2]. split; [lia|]. intros n Hn.
  destruct (H1 n Hn) as [A1 [A2 A3]]. destruct (H2 n ltac:(lia)) as [B1 [B2 B3]]. split; [congruence|]. split; [congruence|]. tauto.
Qed.

Lemma same_cl_setn : forall g i x,
  n_hrel x = n_hrel (getn g i) -> n_hinv x = n_hinv (getn g i) -> (n_timer x = 0 <-> n_timer (getn g i) = 0) -> same_cl g (setn g i x).
Proof.
  intros g i x H1 H2 H3. split; [rewrite length_setn; lia|]. intros n _. rewrite getn_setn.
  destruct (Nat.eqb i n && Nat.ltb i (length g)) eqn:E; [|repeat split; auto].
  apply andb_true_iff in E. destruct E as [E _]. apply Nat.eqb_eq in E. subst. repeat split; try assumption; apply H3.
Qed.

Lemma same_cl_alloc : forall g x, same_cl g (g ++ [x]).
Proof.
  intros g x. split; [rewrite app_length; simpl; lia|]. intros n Hn. rewrite getn_app_new.
  assert (E : Nat.eqb n (length g) = false) by (apply Nat.eqb_neq; lia). rewrite E. repeat split; auto.
Qed.

Ltac setn_cl := apply same_cl_setn; [reflexivity | reflexivity | simpl; tauto].
Ltac same_cl_tac :=
  first
    [ apply same_cl_refl
    | setn_cl
    | apply same_cl_alloc
    | eapply same_cl_trans; [ | first [setn_cl | apply same_cl_alloc] ]; same_cl_tac ].

Lemma frame_ok_same : forall g g' k f, same_cl g g' -> frame_ok g k f -> frame_ok g' k f.
Proof.
  intros g g' k f [L S] H. unfold frame_ok, comp_kind in *. destruct f; auto.
  - intros x Hx. specialize (H x Hx). lia.
  - lia.
  - intros x Hx. specialize (H x Hx). lia.
  - destruct H as [H1 [[H2 H3] H4]]. destruct (S c H1) as [S1 [_ S3]]. rewrite S1. repeat split; auto; try lia; try (apply S3; exact H3).
  - destruct H as [H1 [[H2 H3] [H4 H5]]]. destruct (S c H1) as [S1 [_ S3]]. destruct (S res H4) as [T1 _].
    rewrite S1, T1. repeat split; auto; try lia; try (apply S3; exact H3).
  - destruct H as [H1 [H2 [H3 [H4 H5]]]]. destruct (S res H2) as [T1 [_ T3]]. rewrite T1. repeat split; auto; try lia;
    try (intros Q; apply H4; apply T3; exact Q).
  - destruct H as [H1 [H2 H3]]. repeat split; auto; lia.
  - destruct H as [H1 [[H2 H3] H4]]. destruct (S parent H1) as [S1 [_ S3]]. rewrite S1. repeat split; auto; try lia; try (apply S3; exact H3).
  - destruct H as [H1 [H2 H3]]. repeat split; auto; lia.
  - destruct H as [H1 [H2 H3]]. repeat split; auto; lia.
  - destruct H as [H1 [[H2 H3] H4]]. destruct (S c H1) as [S1 [_ S3]]. rewrite S1. repeat split; auto; try lia; try (apply S3; exact H3).
  - destruct H as [H1 H2]. destruct (S c H1) as [_ [S2 _]]. rewrite S2. split; [lia | exact H2].
  - destruct H as [H1 H2]. destruct (S c H1) as [_ [S2 _]]. rewrite S2. split; [lia | exact H2].
  - lia.
Qed.

(** in-edge lists only shrink or stay *)
Definition same_ins (g g' : graph) : Prop := forall n x, In x (n_ins (getn g' n)) -> In x (n_ins (getn g n)).
Lemma same_ins_refl : forall g, same_ins g g.
Proof. intros g n x H. exact H. Qed.
Lemma same_ins_trans : forall a b c, same_ins a b -> same_ins b c -> same_ins a c.
Proof. intros a b c H1 H2 n x H. apply H1, H2. exact H. Qed.
Lemma same_ins_setn : forall g i x, n_ins x = n_ins (getn g i) -> same_ins g (setn g i x).
Proof.
  intros g i x H n y Hy. rewrite getn_setn in Hy. destruct (Nat.eqb i n && Nat.ltb i (length g)) eqn:E; [|exact Hy].
  apply andb_true_iff in E. destruct E as [E _]. apply Nat.eqb_eq in E. subst. rewrite <- H. exact Hy.
Qed.
Lemma same_ins_alloc : forall g x, n_ins x = [] -> same_ins g (g ++ [x]).
Proof.
  intros g x H n y Hy. rewrite getn_app_new in Hy. destruct (Nat.eqb n (length g)); [rewrite H in Hy; contradiction | exact Hy].
Qed.
Ltac same_ins_tac :=
  first
    [ apply same_ins_refl
    | apply same_ins_setn; reflexivity
    | apply same_ins_alloc; reflexivity
    | eapply same_ins_trans; [ | first [apply same_ins_setn; reflexivity | apply same_ins_alloc; reflexivity] ]; same_ins_tac ].

(** rerunner records that agree on what rr_ok reads *)
Definition same_rc (x y : rr) : Prop :=
  r_comp y = r_comp x /\ r_cache y = r_cache x /\ r_prog y = r_prog x /\ r_clock y = r_clock x.

(** ids that do not exist yet are not mentioned by any frame *)
Lemma fresh_treg : forall g k fr n, (forall f, In f fr -> frame_ok g k f) -> length g <= n -> count (is_treg n) fr = 0.
Proof.
  intros g k fr n H L. induction fr as [|f t IH]; [reflexivity|]. simpl.
  rewrite IH by (intros f' Hf'; apply H; right; exact Hf').
  assert (K := H f (or_introl eq_refl)). destruct f; simpl in *; try reflexivity.
  destruct (Nat.eqb n res) eqn:E; [|reflexivity]. apply Nat.eqb_eq in E. subst. lia.
Qed.

Lemma fresh_end : forall g k fr c, (forall f, In f fr -> frame_ok g k f) -> length g <= c -> count (is_end c) fr = 0.
Proof.
  intros g k fr c H L. induction fr as [|f t IH]; [reflexivity|]. simpl.
  rewrite IH by (intros f' Hf'; apply H; right; exact Hf').
  assert (K := H f (or_introl eq_refl)). destruct f; simpl in *; try reflexivity;
    (destruct (Nat.eqb c c0) eqn:E; [|reflexivity]); apply Nat.eqb_eq in E; subst; lia.
Qed.

(** the work-horse *)
Lemma closed_transfer : forall g g' slots slots' rrs rrs' fr fr',
  same_cl g g' ->
  (forall n x, In x (n_ins (getn g' n)) -> In x (n_ins (getn g n)) \/ x < length g') ->
  length slots' = length slots ->
  (forall sl, sl < length slots -> snd (nth sl slots' (0, 0)) = snd (nth sl slots (0, 0)) \/
     (snd (nth sl slots' (0, 0)) < length g' /\ n_hrel (getn g' (snd (nth sl slots' (0, 0)))) <> None)) ->
  length rrs' = length rrs ->
  (forall r, r < length rrs ->
     (same_rc (nth r rrs drr) (nth r rrs' drr) /\ count (is_clean r) fr' = count (is_clean r) fr) \/
     rr_ok g' (length slots) fr' r (nth r rrs' drr)) ->
  (forall f, In f fr' -> In f fr \/ frame_ok g' (length slots) f) ->
  (forall n, count (is_treg n) fr' <= count (is_treg n) fr \/ (length g <= n /\ count (is_treg n) fr' <= 1)) ->
  (forall c, count (is_end c) fr' <= count (is_end c) fr \/ (length g <= c /\ count (is_end c) fr' <= 1)) ->
  closed_on g slots rrs fr -> closed_on g' slots' rrs' fr'.
Proof.
  intros g g' slots slots' rrs rrs' fr fr' S Hi Ls Hs L R Hf Ht He [A [B [C [D [E F]]]]].
  destruct S as [Lg Sn]. unfold closed_on. rewrite Ls. split; [|split; [|split; [|split; [|split]]]].
  - intros n x Hx. destruct (Hi n x Hx) as [K|K]; [specialize (A n x K); lia | exact K].
  - intros sl Hsl. destruct (Hs sl Hsl) as [K|K]; [|exact K]. rewrite K.
    destruct (B sl Hsl) as [B1 B2]. destruct (Sn _ B1) as [S1 _]. rewrite S1. split; [lia | exact B2].
  - intros f Hin. destruct (Hf f Hin) as [K|K]; [|exact K]. eapply frame_ok_same; [split; [exact Lg | exact Sn] | apply C; exact K].
  - intros n. specialize (D n). destruct (Ht n) as [K|[_ K]]; lia.
  - intros c. specialize (E c). destruct (He c) as [K|[_ K]]; lia.
  - intros r Hr. rewrite L in Hr. destruct (R r Hr) as [[[R1 [R2 [R3 R4]]] Hc]|K]; [|exact K].
    destruct (F r Hr) as [F1 [F2 [F3 F4]]]. unfold rr_ok. rewrite R1, R2, R3, R4, Hc. repeat split; auto.
    + intros c Hc'. specialize (F1 c Hc'). lia.
    + intros key child Hk. specialize (F2 key child Hk). lia.
Qed.

(** ** sub-operations *)
Lemma inv_step_closed : forall s n k s1 st sp,
  inv_step s n k = Some (s1, st, sp) ->
  (forall m x, In x (n_out (getn (s_nodes s) m)) -> x < length (s_nodes s)) ->
  same_cl (s_nodes s) (s_nodes s1) /\ same_ins (s_nodes s) (s_nodes s1) /\ s_slots s1 = s_slots s /\
  (forall f, In f (st ++ concat sp) -> In f k \/ frame_ok (s_nodes s1) (length (s_slots s)) f).
Proof.
  intros s n k s1 st sp H Oc. unfold inv_step in H.
  destruct (Nat.ltb n (length (s_nodes s))); [|discriminate].
  destruct (n_inv (getN s n)).
  - injection H as E1 E2 E3. subst s1 st sp. simpl. rewrite app_nil_r.
    split; [apply same_cl_refl|]. split; [apply same_ins_refl|]. split; [reflexivity|]. intros f Hf. left. exact Hf.
  - assert (Fo : frame_ok (g_inv_mark (s_nodes s) n) (length (s_slots s)) (FInvList (n_out (getN s n)))).
    { simpl. intros x Hx. unfold g_inv_mark. rewrite length_setn. eapply Oc. exact Hx. }
    destruct (n_hinv (getN s n)) as [r|]; [destruct (r_spawn (getr s r))|]; injection H as E1 E2 E3; subst s1 st sp; simpl;
      (split; [unfold g_inv_mark; same_cl_tac|]); (split; [unfold g_inv_mark; same_ins_tac|]); (split; [reflexivity|]);
      intros f Hf; rewrite ?in_app_iff in Hf; simpl in Hf;
      repeat (destruct Hf as [Hf|Hf]); try contradiction; try (subst f; right; first [exact Fo | exact I]); try (left; exact Hf).
Qed.

Lemma do_add_out_closed : forall s n to s1 sp,
  do_add_out s n to = Some (s1, sp) ->
  same_cl (s_nodes s) (s_nodes s1) /\
  (forall m x, In x (n_ins (getn (s_nodes s1) m)) -> In x (n_ins (getn (s_nodes s) m)) \/ x < length (s_nodes s1)) /\
  s_slots s1 = s_slots s /\ s_rrs s1 = s_rrs s /\
  (forall f, In f (concat sp) -> frame_ok (s_nodes s1) (length (s_slots s)) f) /\
  (forall p, (forall l, p (FInvList l) = false) -> (forall m, p (FRelEnter m) = false) -> count p (concat sp) = 0).
Proof.
  intros s n to s1 sp H. destruct (do_add_out_rrs _ _ _ _ _ H) as [R C]. unfold do_add_out in H.
  destruct (Nat.ltb n (length (s_nodes s)) && Nat.ltb to (length (s_nodes s)) && negb (Nat.eqb n to)) eqn:G; [|discriminate].
  apply andb_true_iff in G. destruct G as [G Nq]. apply andb_true_iff in G. destruct G as [G1 G2].
  apply Nat.ltb_lt in G1. apply Nat.ltb_lt in G2.
  destruct (g_add_out (s_nodes s) n to) as [g [[linked shinv] shrel]] eqn:A.
  injection H as E1 E2. subst s1 sp. simpl.
  assert (Lg : length g = length (s_nodes s)).
  { unfold g_add_out in A. destruct (negb (n_rel (getn (s_nodes s) to))); inversion A; subst; rewrite ?length_setn; reflexivity. }
  split; [|split; [|split; [reflexivity | split; [reflexivity | split; [|exact C]]]]].
  - unfold g_add_out in A. destruct (negb (n_rel (getn (s_nodes s) to))); inversion A; subst; clear A; same_cl_tac.
  - intros m x Hx. unfold g_add_out in A. destruct (negb (n_rel (getn (s_nodes s) to))); inversion A; subst; clear A.
    + rewrite getn_setn in Hx. destruct (Nat.eqb to m && Nat.ltb to (length (setn (s_nodes s) n (set_out_had (getn (s_nodes s) n) (add_set to (n_out (getn (s_nodes s) n))))))) eqn:E.
      * apply andb_true_iff in E. destruct E as [E _]. apply Nat.eqb_eq in E. subst m. simpl in Hx. apply in_app_iff in Hx.
        destruct Hx as [Hx|[<-|[]]]; [|right; rewrite !length_setn; exact G1].
        left. rewrite getn_setn in Hx. destruct (Nat.eqb n to && Nat.ltb n (length (s_nodes s))) eqn:E2; [|exact Hx].
        apply andb_true_iff in E2. destruct E2 as [E2 _]. apply Nat.eqb_eq in E2. subst. exact Hx.
      * left. rewrite getn_setn in Hx. destruct (Nat.eqb n m && Nat.ltb n (length (s_nodes s))) eqn:E2; [|exact Hx].
        apply andb_true_iff in E2. destruct E2 as [E2 _]. apply Nat.eqb_eq in E2. subst. exact Hx.
    + left. rewrite getn_setn in Hx. destruct (Nat.eqb n m && Nat.ltb n (length (s_nodes s))) eqn:E2; [|exact Hx].
      apply andb_true_iff in E2. destruct E2 as [E2 _]. apply Nat.eqb_eq in E2. subst. exact Hx.
  - intros f Hf. destruct shinv, shrel; simpl in Hf; repeat (destruct Hf as [<-|Hf]); try contradiction; simpl; rewrite Lg;
      try (intros x [<-|[]]); assumption.
Qed.

Lemma unwind_closed : forall g k r stk cs ks below term,
  unwind r stk = Some (cs, ks, below, term) -> (forall f, In f stk -> frame_ok g k f) ->
  (forall c, In c cs -> c < length g) /\ (forall f, In f below -> In f stk) /\
  (forall p, count p below <= count p stk) /\
  (forall p, (forall f, unw_kind f = true -> p f = false) -> (forall a b, p (FRunEnd a b) = false) -> (forall a, p (FBranchEnd a) = false) ->
             count p stk = count p below).
Proof.
  intros g k r stk cs ks below term H Ok.
  destruct (unwind_split _ _ _ _ _ _ H) as [d [l [E [Fd [L C]]]]]. subst stk. split; [|split; [|split]].
  - intros c Hc. destruct (C c Hc) as [[a [k' [q Q]]]|Q].
    + assert (K := Ok (FCacheSet a k' c q)). simpl in K. apply K. apply in_app_iff. left. exact Q.
    + assert (K := Ok l). rewrite Q in K. simpl in K. apply K. apply in_app_iff. right. left. reflexivity.
  - intros f Hf. apply in_app_iff. right. right. exact Hf.
  - intros p. rewrite count_app. simpl. lia.
  - intros p P1 P2 P3. rewrite count_app. simpl. rewrite (count_zero_forall p unw_kind d P1 Fd).
    destruct term; simpl in L; [subst l; rewrite P3 | destruct L as [c ->]; rewrite P2]; reflexivity.
Qed.

Ltac ccnt := simpl; rewrite ?count_app; simpl; rewrite ?Nat.eqb_refl; try lia.

Ltac rrs_same :=
  let r' := fresh "r'" in let Hr := fresh "Hr" in
  intros r' Hr; left; split; [|ccnt]; simpl; rewrite ?nth_setl;
  first
    [ match goal with
      | |- context [Nat.eqb ?a ?b && Nat.ltb ?a ?c] =>
          let E := fresh "E" in
          destruct (Nat.eqb a b && Nat.ltb a c) eqn:E;
          [apply andb_true_iff in E; destruct E as [E _]; apply Nat.eqb_eq in E; subst|]; repeat split
      end
    | repeat split ].

(* frames: kept ones go left; the new ones are left to the caller *)
Ltac frames_keep :=
  let f := fresh "f" in let Hf := fresh "Hf" in
  intros f Hf; simpl in Hf; rewrite ?in_app_iff in Hf; simpl in Hf;
  repeat (destruct Hf as [Hf|Hf]); try contradiction;
  try (left; simpl; rewrite ?in_app_iff; tauto);
  try (subst f; right; simpl; exact I).

Ltac closed_leaf Inv :=
  eapply closed_transfer; [ | | | | | | | | | exact Inv];
  [ unfold getN; same_cl_tac
  | let n' := fresh in let x' := fresh in let Hx' := fresh in
    intros n' x' Hx'; left; refine ((_ : same_ins _ _) n' x' Hx'); unfold getN; same_ins_tac
  | reflexivity
  | let sl' := fresh in intros sl' _; left; reflexivity
  | simpl; rewrite ?length_setl; reflexivity
  | rrs_same
  | frames_keep
  | let n' := fresh in intros n'; left; ccnt
  | let c' := fresh in intros c'; left; ccnt ].

Lemma rr_premise_setl : forall g' k rrs fr fr' r y,
  (forall r', r' <> r -> count (is_clean r') fr' = count (is_clean r') fr) ->
  (r < length rrs -> rr_ok g' k fr' r y) ->
  forall r', r' < length rrs ->
    (same_rc (nth r' rrs drr) (nth r' (setl rrs r y) drr) /\ count (is_clean r') fr' = count (is_clean r') fr) \/
    rr_ok g' k fr' r' (nth r' (setl rrs r y) drr).
Proof.
  intros g' k rrs fr fr' r y Hc Hy r' Hr. rewrite nth_setl.
  destruct (Nat.eqb r r' && Nat.ltb r (length rrs)) eqn:E.
  - apply andb_true_iff in E. destruct E as [E _]. apply Nat.eqb_eq in E. subst r'. right. apply Hy. exact Hr.
  - left. split; [repeat split|]. apply Hc. intros Q. subst r'. rewrite Nat.eqb_refl in E. simpl in E. apply Nat.ltb_ge in E. lia.
Qed.

Lemma cache_get_In : forall c k v, cache_get c k = Some v -> In (k, v) c.
Proof.
  induction c as [|[k' v'] t IH]; simpl; intros k v H; [discriminate|].
  destruct (Nat.eqb k k') eqn:E; [apply Nat.eqb_eq in E; inversion H; subst; left; reflexivity | right; apply IH; exact H].
Qed.

Lemma do_fail_closed : forall s r stk retry s1 st sp others F0,
  do_fail s r stk retry = Some (s1, st, sp) ->
  (forall f, In f stk -> frame_ok (s_nodes s) (length (s_slots s)) f) ->
  (forall f, In f (stk ++ others) -> In f F0 \/ frame_ok (s_nodes s) (length (s_slots s)) f) ->
  (forall n, count (is_treg n) (stk ++ others) <= count (is_treg n) F0) ->
  (forall c, count (is_end c) (stk ++ others) <= count (is_end c) F0) ->
  (forall r', count (is_clean r') (stk ++ others) = count (is_clean r') F0) ->
  closed_on (s_nodes s) (s_slots s) (s_rrs s) F0 ->
  closed_on (s_nodes s1) (s_slots s1) (s_rrs s1) (st ++ others ++ concat sp).
Proof.
  intros s r stk retry s1 st sp others F0 H Ok Hf Ht He Hc Inv.
  destruct (do_fail_spec _ _ _ _ _ _ _ H) as [cs [ks [below [term [y [U [N [Sl [R [Y1 [Y2 [Y3 [Y4 [Y5 [Y6 [Y7 [Y8 T]]]]]]]]]]]]]]]]].
  destruct (unwind_closed _ _ _ _ _ _ _ _ U Ok) as [Uc [Ub [Ule Ueq]]].
  assert (RI : forall f cs0, (forall c0, In c0 cs0 -> c0 < length (s_nodes s)) -> In f (concat (map (fun c0 => [FRelEnter c0]) cs0)) -> frame_ok (s_nodes s) (length (s_slots s)) f).
  { intros f cs0 Hcs. induction cs0 as [|h t IH]; simpl; [intros []|]. intros [<-|Hf']; [simpl; apply Hcs; left; reflexivity | apply IH; [intros c0 H0; apply Hcs; right; exact H0 | exact Hf']]. }
  assert (RC : forall p cs0, (forall m, p (FRelEnter m) = false) -> count p (concat (map (fun c0 => [FRelEnter c0]) cs0)) = 0).
  { intros p cs0 Hp. induction cs0 as [|h t IH]; simpl; [reflexivity|]. rewrite Hp, IH. reflexivity. }
  assert (Shape : exists top extra, st = top :: below /\ sp = map (fun c => [FRelEnter c]) cs ++ extra /\
                  (top = FUnlock r \/ exists jid, top = FBranchEnd jid) /\ (extra = [] \/ extra = [[FRunWait r]]) /\
                  (r_cache y = r_cache (getr s r) \/ r_cache y = [])).
  { destruct term as [jid|].
    - destruct T as [-> [-> [Q _]]]. exists (FBranchEnd jid), []. rewrite app_nil_r. repeat split; auto. right. eexists; reflexivity.
    - destruct T as [-> [_ [[_ [-> [Q _]]]|[_ [-> [Q _]]]]]].
      + exists (FUnlock r), [[FRunWait r]]. repeat split; auto.
      + exists (FUnlock r), []. rewrite app_nil_r. repeat split; auto. }
  destruct Shape as [top [extra [-> [-> [Ht' [Hx Hcache]]]]]].
  assert (Ptop : forall p, (forall a, p (FUnlock a) = false) -> (forall a, p (FBranchEnd a) = false) -> p top = false).
  { intros p P1 P2. destruct Ht' as [->|[jid ->]]; auto. }
  assert (Pext : forall p, (forall a, p (FRunWait a) = false) -> count p (concat extra) = 0).
  { intros p P1. destruct Hx as [->| ->]; simpl; rewrite ?P1; reflexivity. }
  rewrite N, Sl, R.
  eapply closed_transfer; [apply same_cl_refl | intros n' x' Hx'; left; exact Hx' | reflexivity | intros sl' _; left; reflexivity
    | apply length_setl | | | | | exact Inv].
  - assert (Ceq : forall r', count (is_clean r') ((top :: below) ++ others ++ concat (map (fun c => [FRelEnter c]) cs ++ extra)) = count (is_clean r') F0).
    { intros r'. rewrite <- Hc. simpl. rewrite (Ptop (is_clean r')) by reflexivity. rewrite ?count_app, ?concat_app, ?count_app, RC, Pext by reflexivity.
      rewrite (Ueq (is_clean r')); [lia | intros f Hk; destruct f; simpl in *; try discriminate; reflexivity | reflexivity | reflexivity]. }
    apply rr_premise_setl; [intros r' _; apply Ceq|].
    intros Hr. destruct Inv as [_ [_ [_ [_ [_ F]]]]]. destruct (F r Hr) as [F1 [F2 [F3 F4]]]. unfold getr in *.
    unfold rr_ok. rewrite Y2, Y5, Y6, Ceq. repeat split; auto.
    intros key child Hin. destruct Hcache as [Q|Q]; rewrite Q in Hin; [eapply F2; eauto | contradiction].
  - intros f Hin. simpl in Hin. rewrite ?in_app_iff, ?concat_app, ?in_app_iff in Hin.
    destruct Hin as [<-|[Hin|[Hin|[Hin|Hin]]]].
    + right. destruct Ht' as [->|[jid ->]]; exact I.
    + apply Hf. apply in_app_iff. left. apply Ub. exact Hin.
    + apply Hf. apply in_app_iff. right. exact Hin.
    + right. eapply RI; [exact Uc | exact Hin].
    + right. destruct Hx as [->| ->]; simpl in Hin; [contradiction | destruct Hin as [<-|[]]; exact I].
  - intros n'. left. specialize (Ht n'). specialize (Ule (is_treg n')). simpl. rewrite (Ptop (is_treg n')) by reflexivity.
    rewrite ?count_app, ?concat_app, ?count_app, RC, Pext in * by reflexivity. lia.
  - intros c'. left. specialize (He c'). specialize (Ule (is_end c')). simpl. rewrite (Ptop (is_end c')) by reflexivity.
    rewrite ?count_app, ?concat_app, ?count_app, RC, Pext in * by reflexivity. lia.
Qed.

Definition out_closed (g : graph) : Prop := forall m x, In x (n_out (getn g m)) -> x < length g.

Lemma step_top_closed : forall s f rest arg s1 st sp others,
  step_top s f rest arg = Some (s1, st, sp) ->
  out_closed (s_nodes s) ->
  closed_on (s_nodes s) (s_slots s) (s_rrs s) (f :: rest ++ others) ->
  closed_on (s_nodes s1) (s_slots s1) (s_rrs s1) (st ++ others ++ concat sp).
Proof.
  intros s f rest arg s1 st sp others H Oc Inv.
  unfold step_top in H.
  destruct f; cbv beta iota zeta in H.
  - (* FInvList *)
    destruct (memb arg l) eqn:G1; [|discriminate].
    destruct (inv_step_closed _ _ _ _ _ _ H Oc) as [S [Si [Sl Fr]]].
    destruct (inv_step_counts _ _ _ _ _ _ H) as [R C]. rewrite R, Sl.
    eapply closed_transfer; [exact S | intros n' x' Hx'; left; apply Si; exact Hx' | reflexivity | intros sl' _; left; reflexivity
      | reflexivity | | | | | exact Inv].
    + intros r' _. left. split; [repeat split|]. pose proof (C (is_clean r') (fun _ => eq_refl) (fun _ => eq_refl)) as C1.
      rewrite count_app in C1. simpl in C1. simpl. rewrite ?count_app in *. lia.
    + intros f Hf. rewrite !in_app_iff in Hf.
      assert (Q : In f (st ++ concat sp) \/ In f others) by (rewrite in_app_iff; tauto). clear Hf.
      destruct Q as [Q|Q]; [|left; right; apply in_app_iff; right; exact Q].
      destruct (Fr f Q) as [K|K]; [|right; exact K].
      simpl in K. destruct K as [<-|K]; [|left; right; apply in_app_iff; left; exact K].
      right. simpl. intros x Hx. destruct S as [Lg _].
      destruct Inv as [_ [_ [C0 _]]]. specialize (C0 (FInvList l) (or_introl eq_refl) x (In_remove1 _ _ _ Hx)). lia.
    + intros n'. left. pose proof (C (is_treg n') (fun _ => eq_refl) (fun _ => eq_refl)) as C1.
      rewrite count_app in C1. simpl in C1. simpl. rewrite ?count_app in *. lia.
    + intros c'. left. pose proof (C (is_end c') (fun _ => eq_refl) (fun _ => eq_refl)) as C1.
      rewrite count_app in C1. simpl in C1. simpl. rewrite ?count_app in *. lia.
  - (* FStrobe *)
    injection H as E1 E2 E3. subst s1 st sp. closed_leaf Inv.
    subst f. right. simpl. intros x Hx. eapply Oc. exact Hx.
  - (* FRelEnter *)
    destruct (inv_step_closed _ _ _ _ _ _ H Oc) as [S [Si [Sl Fr]]].
    destruct (inv_step_counts _ _ _ _ _ _ H) as [R C]. rewrite R, Sl.
    eapply closed_transfer; [exact S | intros n' x' Hx'; left; apply Si; exact Hx' | reflexivity | intros sl' _; left; reflexivity
      | reflexivity | | | | | exact Inv].
    + intros r' _. left. split; [repeat split|]. pose proof (C (is_clean r') (fun _ => eq_refl) (fun _ => eq_refl)) as C1.
      rewrite count_app in C1. simpl in C1. simpl. rewrite ?count_app in *. lia.
    + intros f Hf. rewrite !in_app_iff in Hf.
      assert (Q : In f (st ++ concat sp) \/ In f others) by (rewrite in_app_iff; tauto). clear Hf.
      destruct Q as [Q|Q]; [|left; right; apply in_app_iff; right; exact Q].
      destruct (Fr f Q) as [K|K]; [|right; exact K].
      simpl in K. destruct K as [<-|K]; [right; exact I | left; right; apply in_app_iff; left; exact K].
    + intros n'. left. pose proof (C (is_treg n') (fun _ => eq_refl) (fun _ => eq_refl)) as C1.
      rewrite count_app in C1. simpl in C1. simpl. rewrite ?count_app in *. lia.
    + intros c'. left. pose proof (C (is_end c') (fun _ => eq_refl) (fun _ => eq_refl)) as C1.
      rewrite count_app in C1. simpl in C1. simpl. rewrite ?count_app in *. lia.
  - (* FRelMark *)
    destruct (n_rel (getN s n)); [injection H as E1 E2 E3; subst s1 st sp; closed_leaf Inv|].
    assert (Ic : forall x, In x (n_ins (getN s n)) -> x < length (s_nodes s)) by (destruct Inv as [A _]; apply A).
    unfold g_rel_mark in H.
    destruct (n_hrel (getN s n)) as [[sl|]|]; injection H as E1 E2 E3; subst s1 st sp; simpl; closed_leaf Inv;
      subst f; right; simpl; rewrite ?length_setn; exact Ic.
  - (* FCleanup *)
    unfold alloc in H. simpl in H.
    destruct (Nat.eqb (slot_res (upd_node s n (inc_cln (getN s n))) slot) n).
    + injection H as E1 E2 E3. subst s1 st sp. simpl.
      eapply closed_transfer; [ | | | | | | | | | exact Inv];
        [ unfold getN; same_cl_tac
        | intros n' x' Hx'; left; refine ((_ : same_ins _ _) n' x' Hx'); unfold getN; same_ins_tac
        | apply length_setl
        |
        | reflexivity
        | rrs_same
        | frames_keep
        | intros n'; left; ccnt
        | intros c'; left; ccnt ].
      intros sl' Hsl. rewrite nth_setl. destruct (Nat.eqb slot sl' && Nat.ltb slot (length (s_slots s))); [|left; reflexivity].
      right. simpl. rewrite app_length, length_setn. simpl. split; [lia|].
      rewrite getn_app_new, length_setn, Nat.eqb_refl. simpl. discriminate.
    + injection H as E1 E2 E3. subst s1 st sp. simpl. closed_leaf Inv.
  - (* FRelDeps *)
    destruct froms as [|from l]; [discriminate|].
    assert (Fc : forall x, In x (from :: l) -> x < length (s_nodes s)).
    { destruct Inv as [_ [_ [C _]]]. apply (C (FRelDeps n (from :: l))). left. reflexivity. }
    unfold g_rel_dep in H. cbv beta iota zeta in H.
    destruct (is_nil (remove_all n (n_out (getn (s_nodes s) from)))); injection H as E1 E2 E3; subst s1 st sp; simpl; closed_leaf Inv;
      subst f; right; simpl; rewrite ?length_setn; try (apply Fc; left; reflexivity); intros x Hx; apply Fc; right; exact Hx.
  - (* FRunWait *)
    destruct (Nat.eqb arg 0); [injection H as E1 E2 E3; subst s1 st sp; closed_leaf Inv|].
    destruct (r_cancel (getr s r)); [|discriminate]. injection H as E1 E2 E3; subst s1 st sp; closed_leaf Inv.
  - (* FRunLock *)
    destruct (r_mu (getr s r)); [discriminate|].
    destruct (r_stop (getr s r)); injection H as E1 E2 E3; subst s1 st sp; simpl; closed_leaf Inv.
  - (* FCleanStart: cache.mu taken *)
    destruct (Nat.eqb arg 1).
    { destruct (r_cancel (getr s r)); [|discriminate]. injection H as E1 E2 E3. subst s1 st sp. simpl. closed_leaf Inv. }
    destruct (r_clock (getr s r)) eqn:Ck; [discriminate|]. injection H as E1 E2 E3. subst s1 st sp. simpl.
    eapply closed_transfer; [ | | | | | | | | | exact Inv];
      [ apply same_cl_refl | intros n' x' Hx'; left; exact Hx' | reflexivity | intros sl' _; left; reflexivity
      | apply length_setl | | frames_keep | intros n'; left; ccnt | intros c'; left; ccnt ].
    apply rr_premise_setl.
    + intros r' Nr. simpl. assert (E : Nat.eqb r' r = false) by (apply Nat.eqb_neq; exact Nr). rewrite E. ccnt.
    + intros Hr. destruct Inv as [_ [_ [_ [_ [_ F]]]]]. destruct (F r Hr) as [F1 [F2 [F3 F4]]].
      unfold getr in *. rewrite Ck in F4. simpl in F4. unfold rr_ok. simpl. rewrite Nat.eqb_refl.
      repeat split; auto. rewrite ?count_app in *. simpl. lia.
  - (* FClean *)
    destruct ks as [|k ks'].
    + (* cache.mu released *)
      injection H as E1 E2 E3. subst s1 st sp. simpl.
      eapply closed_transfer; [ | | | | | | | | | exact Inv];
        [ apply same_cl_refl | intros n' x' Hx'; left; exact Hx' | reflexivity | intros sl' _; left; reflexivity
        | apply length_setl | | frames_keep | intros n'; left; ccnt | intros c'; left; ccnt ].
      apply rr_premise_setl.
      * intros r' Nr. simpl. assert (E : Nat.eqb r' r = false) by (apply Nat.eqb_neq; exact Nr). rewrite E. ccnt.
      * intros Hr. destruct Inv as [_ [_ [_ [_ [_ F]]]]]. destruct (F r Hr) as [F1 [F2 [F3 F4]]].
        unfold getr in *. simpl in F4. rewrite Nat.eqb_refl in F4. unfold rr_ok. simpl.
        assert (B : b2n (r_clock (nth r (s_rrs s) drr)) <= 1) by (destruct (r_clock (nth r (s_rrs s) drr)); simpl; lia).
        repeat split; auto. rewrite ?count_app in *. simpl in *. lia.
    + destruct (memb arg (k :: ks')); [|discriminate].
      destruct (n_inv (getN s arg)); injection H as E1 E2 E3; subst s1 st sp; simpl; [|closed_leaf Inv].
      eapply closed_transfer; [ | | | | | | | | | exact Inv];
        [ apply same_cl_refl | intros n' x' Hx'; left; exact Hx' | reflexivity | intros sl' _; left; reflexivity
        | apply length_setl | | frames_keep | intros n'; left; ccnt | intros c'; left; ccnt ].
      apply rr_premise_setl.
      * intros r' Nr. ccnt.
      * intros Hr. destruct Inv as [_ [_ [_ [_ [_ F]]]]]. destruct (F r Hr) as [F1 [F2 [F3 F4]]].
        unfold getr in *. unfold rr_ok. simpl. repeat split; auto.
        -- intros key child Hin. unfold cache_drop_child in Hin. apply filter_In in Hin. destruct Hin as [Hin _]. eapply F2; eauto.
        -- simpl in F4. rewrite ?count_app in *. simpl. lia.
  - (* FBegin: a fresh computation node *)
    unfold alloc in H. injection H as E1 E2 E3. subst s1 st sp. simpl.
    assert (Pk : r < length (s_rrs s) -> prog_ok (length (s_slots s)) (r_prog (getr s r)) = true).
    { intros Hr. destruct Inv as [_ [_ [_ [_ [_ F]]]]]. destruct (F r Hr) as [_ [_ [F3 _]]]. exact F3. }
    assert (Pk' : prog_ok (length (s_slots s)) (r_prog (getr s r)) = true).
    { destruct (Nat.lt_ge_cases r (length (s_rrs s))) as [L|L]; [apply Pk; exact L|]. unfold getr. rewrite nth_overflow by exact L. reflexivity. }
    assert (Fr : forall f, In f (FBegin r :: rest ++ others) -> frame_ok (s_nodes s) (length (s_slots s)) f) by (destruct Inv as [_ [_ [C _]]]; exact C).
    eapply closed_transfer; [ | | | | | | | | | exact Inv];
      [ same_cl_tac
      | intros n' x' Hx'; left; refine ((_ : same_ins _ _) n' x' Hx'); same_ins_tac
      | reflexivity | intros sl' _; left; reflexivity
      | simpl; rewrite ?length_setl; reflexivity
      | rrs_same
      | frames_keep
      | intros n'; left; ccnt
      | ].
    + subst f. right. simpl. unfold comp_kind. rewrite app_length, getn_app_new, Nat.eqb_refl. simpl.
      split; [lia|]. split; [split; reflexivity | exact Pk'].
    + subst f. right. simpl. rewrite app_length, getn_app_new, Nat.eqb_refl. simpl. split; [lia | reflexivity].
    + intros c'. destruct (Nat.lt_ge_cases c' (length (s_nodes s))) as [L|L].
      * left. simpl. assert (E : Nat.eqb c' (length (s_nodes s)) = false) by (apply Nat.eqb_neq; lia). rewrite E. ccnt.
      * right. split; [exact L|]. simpl. rewrite ?count_app.
        assert (Z := fresh_end _ _ _ c' Fr L). simpl in Z. rewrite ?count_app in Z.
        destruct (Nat.eqb c' (length (s_nodes s))); simpl; lia.
  - (* FScript *)
    destruct p as [|o q]; [discriminate|].
    assert (Fr : forall f, In f (FScript r c (o :: q) :: rest ++ others) -> frame_ok (s_nodes s) (length (s_slots s)) f) by (destruct Inv as [_ [_ [C _]]]; exact C).
    destruct (Fr _ (or_introl eq_refl)) as [Cl [Ck Pk]]. destruct (prog_ok_cons _ _ _ Pk) as [Po Pq].
    assert (Fq : frame_ok (s_nodes s) (length (s_slots s)) (FScript r c q)) by (simpl; auto).
    assert (Fail : forall retry, do_fail s r (FScript r c q :: rest) retry = Some (s1, st, sp) ->
                   closed_on (s_nodes s1) (s_slots s1) (s_rrs s1) (st ++ others ++ concat sp)).
    { intros retry HF. eapply do_fail_closed; [exact HF | | | | | | exact Inv].
      - intros f [<-|Hf]; [exact Fq | apply Fr; right; apply in_app_iff; left; exact Hf].
      - intros f Hf. simpl in Hf. destruct Hf as [<-|Hf]; [right; exact Fq | left; right; exact Hf].
      - intros n'. simpl. lia.
      - intros c'. simpl. lia.
      - intros r'. simpl. reflexivity. }
    assert (Leaf : forall fs, (forall f, In f fs -> frame_ok (s_nodes s) (length (s_slots s)) f) ->
                   (forall n', count (is_treg n') fs = 0) -> (forall c', count (is_end c') fs = 0) -> (forall r', count (is_clean r') fs = 0) ->
                   closed_on (s_nodes s) (s_slots s) (s_rrs s) ((fs ++ FScript r c q :: rest) ++ others ++ [])).
    { intros fs Hfs T0 E0 C0.
      eapply closed_transfer; [apply same_cl_refl | intros n' x' Hx'; left; exact Hx' | reflexivity | intros sl' _; left; reflexivity
        | reflexivity | | | | | exact Inv].
      - intros r' _. left. split; [repeat split|]. simpl. rewrite ?count_app, C0. simpl. rewrite ?count_app. lia.
      - intros f Hf. rewrite <- app_assoc in Hf. simpl in Hf. rewrite ?in_app_iff in Hf. simpl in Hf. rewrite ?in_app_iff in Hf.
        destruct Hf as [Hf|[<-|[Hf|[Hf|[]]]]]; [right; apply Hfs; exact Hf | right; exact Fq
          | left; right; apply in_app_iff; left; exact Hf | left; right; apply in_app_iff; right; exact Hf].
      - intros n'. left. simpl. rewrite ?count_app, T0. simpl. rewrite ?count_app. lia.
      - intros c'. left. simpl. rewrite ?count_app, E0. simpl. rewrite ?count_app. lia. }
    destruct o.
    + (* ODep *)
      injection H as E1 E2 E3. subst s1 st sp.
      apply (Leaf [FDepAdd c slot (slot_res s slot)]); try (intros; reflexivity).
      intros f [<-|[]]. simpl in Po. apply Nat.ltb_lt in Po.
      destruct Inv as [_ [B _]]. destruct (B slot Po) as [B1 B2]. simpl. unfold slot_res. auto.
    + (* OTimer *)
      destruct (Nat.eqb arg 0).
      * injection H as E1 E2 E3. subst s1 st sp. apply (Leaf []); try (intros; reflexivity). intros f [].
      * unfold alloc in H. injection H as E1 E2 E3. subst s1 st sp. simpl.
        eapply closed_transfer; [ | | | | | | | | | exact Inv];
          [ same_cl_tac
          | intros n' x' Hx'; left; refine ((_ : same_ins _ _) n' x' Hx'); same_ins_tac
          | reflexivity | intros sl' _; left; reflexivity | reflexivity
          | rrs_same | frames_keep | | intros c'; left; ccnt ].
        -- subst f. right. simpl. rewrite app_length, getn_app_new, Nat.eqb_refl. simpl. repeat split; try lia; discriminate.
        -- subst f. right. eapply frame_ok_same; [apply same_cl_alloc | exact Fq].
        -- intros n'. destruct (Nat.lt_ge_cases n' (length (s_nodes s))) as [L|L].
           ++ left. simpl. assert (E : Nat.eqb n' (length (s_nodes s)) = false) by (apply Nat.eqb_neq; lia). rewrite E. ccnt.
           ++ right. split; [exact L|]. simpl. rewrite ?count_app.
              assert (Z := fresh_treg _ _ _ n' Fr L). simpl in Z. rewrite ?count_app in Z.
              destruct (Nat.eqb n' (length (s_nodes s))); simpl; lia.
    + (* OCache *)
      destruct (Nat.eqb arg 0).
      * (* the per-key lock is taken *)
        destruct (memb key (r_keys (getr s r))); [discriminate|]. injection H as E1 E2 E3. subst s1 st sp. simpl.
        eapply closed_transfer; [ | | | | | | | | | exact Inv];
          [ apply same_cl_refl | intros n' x' Hx'; left; exact Hx' | reflexivity | intros sl' _; left; reflexivity
          | apply length_setl | rrs_same | frames_keep | intros n'; left; ccnt | intros c'; left; ccnt ].
        -- subst f. right. simpl. rewrite op_ok_cache in Po. auto.
        -- subst f. right. exact Fq.
      * destruct (Nat.eqb arg 2); [injection H as E1 E2 E3; subst s1 st sp; apply (Leaf []); try (intros; reflexivity); intros f []|].
        destruct (r_cancel (getr s r)); [|discriminate]. eapply Fail; eauto.
    + destruct (Nat.eqb arg 0); [injection H as E1 E2 E3; subst s1 st sp; apply (Leaf []); try (intros; reflexivity); intros f [] | eapply Fail; eauto].
    + destruct (Nat.eqb arg 0); [injection H as E1 E2 E3; subst s1 st sp; apply (Leaf []); try (intros; reflexivity); intros f [] | eapply Fail; eauto].
    + (* OPar *)
      injection H as E1 E2 E3. subst s1 st sp. simpl. rewrite op_ok_par in Po.
      eapply closed_transfer; [apply same_cl_refl | intros n' x' Hx'; left; exact Hx' | reflexivity | intros sl' _; left; reflexivity
        | reflexivity | | | | | exact Inv].
      * intros r' _. left. split; [repeat split|]. simpl. rewrite ?count_app, branch_tasks_count by reflexivity. simpl. lia.
      * intros f Hf. simpl in Hf. rewrite ?in_app_iff in Hf. destruct Hf as [<-|[<-|[Hf|[Hf|Hf]]]];
          [right; exact I | right; exact Fq | left; right; apply in_app_iff; tauto | left; right; apply in_app_iff; tauto |].
        right. apply in_concat in Hf. destruct Hf as [t [Ht Hf]]. destruct (branch_tasks_in _ _ _ _ _ _ Ht) as [idx [b [Hb ->]]].
        simpl in Hf. destruct Hf as [<-|[<-|[<-|[]]]]; simpl; auto.
        split; [exact Cl|]. split; [exact Ck|]. rewrite forallb_forall in Po. apply Po. exact Hb.
      * intros n'. left. simpl. rewrite ?count_app, branch_tasks_count by reflexivity. simpl. lia.
      * intros c'. left. simpl. rewrite ?count_app, branch_tasks_count by reflexivity. simpl. lia.
  - (* FDepAdd *)
    destruct (do_add_out s res c) as [[s2 sp2]|] eqn:A; [|discriminate]. injection H as E1 E2 E3. subst s1 st sp.
    destruct (do_add_out_closed _ _ _ _ _ A) as [S [Si [Sl [R [Sp Cz]]]]]. rewrite Sl, R.
    eapply closed_transfer; [exact S | exact Si | reflexivity | intros sl' _; left; reflexivity | reflexivity | | | | | exact Inv].
    + intros r' _. left. split; [repeat split|]. simpl. rewrite ?count_app, (Cz (is_clean r')) by reflexivity. lia.
    + intros f Hf. simpl in Hf. rewrite ?in_app_iff in Hf. destruct Hf as [<-|[Hf|[Hf|Hf]]];
        [right; exact I | left; right; apply in_app_iff; tauto | left; right; apply in_app_iff; tauto | right; apply Sp; exact Hf].
    + intros n'. left. simpl. rewrite ?count_app, (Cz (is_treg n')) by reflexivity. lia.
    + intros c'. left. simpl. rewrite ?count_app, (Cz (is_end c')) by reflexivity. lia.
  - (* FDepRead *) injection H as E1 E2 E3. subst s1 st sp. simpl. closed_leaf Inv.
  - (* FTimerReg: Cleanup registered on the fresh timer resource *)
    destruct (n_hrel (getN s res)) eqn:Hr; [discriminate|]. injection H as E1 E2 E3. subst s1 st sp. simpl.
    destruct Inv as [A [B [C [D [E F]]]]].
    destruct (C _ (or_introl eq_refl)) as [C1 [C2 [C3 [C4 C5]]]].
    assert (Uniq : forall f, In f (rest ++ others) -> is_treg res f = false).
    { intros f Hf. specialize (D res). simpl in D. rewrite Nat.eqb_refl in D. apply (count_zero_not_in _ (rest ++ others)); [lia | exact Hf]. }
    set (g' := fst (g_handle_rel (s_nodes s) res HTimer)).
    assert (Lg : length g' = length (s_nodes s)).
    { unfold g', g_handle_rel. destruct (n_rel (getn (s_nodes s) res)); simpl; apply length_setn. }
    assert (Oth : forall m, m <> res -> getn g' m = getn (s_nodes s) m).
    { intros m Nm. unfold g', g_handle_rel. destruct (n_rel (getn (s_nodes s) res)); simpl; apply getn_setn_neq; congruence. }
    assert (Self : n_hrel (getn g' res) <> None /\ n_hinv (getn g' res) = n_hinv (getn (s_nodes s) res) /\
                   n_timer (getn g' res) = n_timer (getn (s_nodes s) res) /\ n_ins (getn g' res) = n_ins (getn (s_nodes s) res)).
    { unfold g', g_handle_rel. destruct (n_rel (getn (s_nodes s) res)); simpl; rewrite getn_setn_eq by exact C2; simpl; repeat split; discriminate. }
    destruct Self as [Sf1 [Sf2 [Sf3 Sf4]]].
    assert (Fk : forall f, frame_ok (s_nodes s) (length (s_slots s)) f -> is_treg res f = false -> frame_ok g' (length (s_slots s)) f).
    { intros f Hf Nt. unfold frame_ok, comp_kind in *. rewrite Lg. destruct f; auto.
      - destruct Hf as [H1 [[H2 H3] H4]]. assert (c0 <> res) by (intros Q; subst; unfold getN in *; congruence). rewrite Oth by assumption. auto.
      - destruct Hf as [H1 [[H2 H3] [H4 H5]]]. assert (c0 <> res) by (intros Q; subst; unfold getN in *; congruence). rewrite (Oth c0) by assumption.
        repeat split; auto. destruct (Nat.eq_dec res0 res) as [->|Nq]; [exact Sf1 | rewrite Oth by exact Nq; exact H5].
      - simpl in Nt. assert (res0 <> res) by (intros Q; subst; rewrite Nat.eqb_refl in Nt; discriminate). rewrite Oth by assumption. exact Hf.
      - destruct Hf as [H1 [[H2 H3] H4]]. assert (parent <> res) by (intros Q; subst; unfold getN in *; congruence). rewrite Oth by assumption. auto.
      - destruct Hf as [H1 [[H2 H3] H4]]. assert (c0 <> res) by (intros Q; subst; unfold getN in *; congruence). rewrite Oth by assumption. auto.
      - destruct Hf as [H1 H2]. split; [exact H1|]. destruct (Nat.eq_dec c0 res) as [->|Nq]; [rewrite Sf2; exact H2 | rewrite Oth by exact Nq; exact H2].
      - destruct Hf as [H1 H2]. split; [exact H1|]. destruct (Nat.eq_dec c0 res) as [->|Nq]; [rewrite Sf2; exact H2 | rewrite Oth by exact Nq; exact H2]. }
    unfold closed_on. fold g'. rewrite Lg. split; [|split; [|split; [|split; [|split]]]].
    + intros m x Hx. destruct (Nat.eq_dec m res) as [->|Nq]; [rewrite Sf4 in Hx | rewrite Oth in Hx by exact Nq]; eapply A; eauto.
    + intros sl Hsl. destruct (B sl Hsl) as [B1 B2]. split; [exact B1|].
      destruct (Nat.eq_dec (snd (nth sl (s_slots s) (0, 0))) res) as [Q|Nq]; [rewrite Q; exact Sf1 | rewrite Oth by exact Nq; exact B2].
    + intros f Hf. rewrite app_nil_r in Hf. simpl in Hf. destruct Hf as [<-|Hf].
      * simpl. rewrite Lg. repeat split; auto.
      * apply Fk; [apply C; right; exact Hf | apply Uniq; exact Hf].
    + intros n'. specialize (D n'). simpl in D. rewrite app_nil_r. simpl. lia.
    + intros c'. specialize (E c'). simpl in E. rewrite app_nil_r. simpl. lia.
    + intros r' Hr'. destruct (F r' Hr') as [F1 [F2 [F3 F4]]]. unfold rr_ok. rewrite Lg, app_nil_r. simpl in F4. simpl. repeat split; auto.
  - (* FTimerAdd *)
    destruct (do_add_out s res c) as [[s2 sp2]|] eqn:A; [|discriminate]. injection H as E1 E2 E3. subst s1 st sp.
    destruct (do_add_out_closed _ _ _ _ _ A) as [S [Si [Sl [R [Sp Cz]]]]]. rewrite Sl, R.
    eapply closed_transfer; [exact S | exact Si | reflexivity | intros sl' _; left; reflexivity | reflexivity | | | | | exact Inv].
    + intros r' _. left. split; [repeat split|]. simpl. rewrite ?count_app, (Cz (is_clean r')) by reflexivity. lia.
    + intros f Hf. rewrite ?in_app_iff in Hf. destruct Hf as [Hf|[Hf|Hf]];
        [left; right; apply in_app_iff; tauto | left; right; apply in_app_iff; tauto | right; apply Sp; exact Hf].
    + intros n'. left. simpl. rewrite ?count_app, (Cz (is_treg n')) by reflexivity. lia.
    + intros c'. left. simpl. rewrite ?count_app, (Cz (is_end c')) by reflexivity. lia.
  - (* FChildBegin: a fresh child computation *)
    unfold alloc in H. injection H as E1 E2 E3. subst s1 st sp. simpl.
    assert (Fr : forall f, In f (FChildBegin r key p parent :: rest ++ others) -> frame_ok (s_nodes s) (length (s_slots s)) f) by (destruct Inv as [_ [_ [C _]]]; exact C).
    destruct (Fr _ (or_introl eq_refl)) as [Pl [Pk Pp]].
    eapply closed_transfer; [ | | | | | | | | | exact Inv];
      [ same_cl_tac
      | intros n' x' Hx'; left; refine ((_ : same_ins _ _) n' x' Hx'); same_ins_tac
      | reflexivity | intros sl' _; left; reflexivity | reflexivity
      | rrs_same | frames_keep | intros n'; left; ccnt | intros c'; left; ccnt ].
    + subst f. right. simpl. unfold comp_kind. rewrite app_length, getn_app_new, Nat.eqb_refl. simpl.
      split; [lia|]. split; [split; reflexivity | exact Pp].
    + subst f. right. simpl. rewrite app_length. simpl. repeat split; lia.
  - (* FCacheSet *)
    assert (Fr : forall f, In f (FCacheSet r key child parent :: rest ++ others) -> frame_ok (s_nodes s) (length (s_slots s)) f) by (destruct Inv as [_ [_ [C _]]]; exact C).
    destruct (Fr _ (or_introl eq_refl)) as [Cl [Pl Ne]].
    destruct (cache_get (r_cache (getr s r)) key); injection H as E1 E2 E3; subst s1 st sp; simpl.
    + closed_leaf Inv. subst f. right. simpl. auto.
    + eapply closed_transfer; [ | | | | | | | | | exact Inv];
        [ apply same_cl_refl | intros n' x' Hx'; left; exact Hx' | reflexivity | intros sl' _; left; reflexivity
        | apply length_setl | | frames_keep | intros n'; left; ccnt | intros c'; left; ccnt ].
      * apply rr_premise_setl; [intros r' _; ccnt|].
        intros Hr. destruct Inv as [_ [_ [_ [_ [_ F]]]]]. destruct (F r Hr) as [F1 [F2 [F3 F4]]].
        unfold getr in *. unfold rr_ok. simpl. repeat split; auto.
        -- intros k' ch Hin. apply in_app_iff in Hin. destruct Hin as [Hin|[Q|[]]]; [eapply F2; eauto | inversion Q; subst; exact Cl].
        -- simpl in F4. rewrite ?count_app in *. simpl. lia.
      * subst f. right. simpl. auto.
  - (* FCacheLink *)
    destruct (do_add_out s child parent) as [[s2 sp2]|] eqn:A; [|discriminate]. injection H as E1 E2 E3. subst s1 st sp.
    destruct (do_add_out_closed _ _ _ _ _ A) as [S [Si [Sl [R [Sp Cz]]]]]. simpl. rewrite Sl, R.
    assert (S' : same_cl (s_nodes s2) (setn (s_nodes s2) parent (add_val (getN s2 parent) (n_val (getN s2 child))))) by (unfold getN; same_cl_tac).
    eapply closed_transfer; [eapply same_cl_trans; [exact S | exact S'] | | reflexivity | intros sl' _; left; reflexivity | reflexivity | | | | | exact Inv].
    + intros m x Hx. rewrite length_setn.
      assert (Q : In x (n_ins (getn (s_nodes s2) m))).
      { refine ((_ : same_ins _ _) m x Hx). unfold getN. same_ins_tac. }
      apply Si. exact Q.
    + intros r' _. left. split; [repeat split|]. simpl. rewrite ?count_app, (Cz (is_clean r')) by reflexivity. lia.
    + intros f Hf. rewrite ?in_app_iff in Hf. destruct Hf as [Hf|[Hf|Hf]];
        [left; right; apply in_app_iff; tauto | left; right; apply in_app_iff; tauto |].
      right. eapply frame_ok_same; [exact S' | apply Sp; exact Hf].
    + intros n'. left. simpl. rewrite ?count_app, (Cz (is_treg n')) by reflexivity. lia.
    + intros c'. left. simpl. rewrite ?count_app, (Cz (is_end c')) by reflexivity. lia.
  - (* FCacheGet *)
    assert (Fr : forall f, In f (FCacheGet r key p c :: rest ++ others) -> frame_ok (s_nodes s) (length (s_slots s)) f) by (destruct Inv as [_ [_ [C _]]]; exact C).
    destruct (Fr _ (or_introl eq_refl)) as [Cl [Ck Pp]].
    destruct (cache_get (r_cache (getr s r)) key) as [child|] eqn:Cg.
    + destruct (Nat.eqb child c) eqn:Ec; [discriminate|]. apply Nat.eqb_neq in Ec.
      injection H as E1 E2 E3. subst s1 st sp. closed_leaf Inv.
      subst f. right. simpl. split; [|split; [exact Cl | exact Ec]].
      destruct (Nat.lt_ge_cases r (length (s_rrs s))) as [L|L].
      * destruct Inv as [_ [_ [_ [_ [_ F]]]]]. destruct (F r L) as [_ [F2 _]]. eapply F2. apply cache_get_In. exact Cg.
      * unfold getr in Cg. rewrite nth_overflow in Cg by exact L. discriminate.
    + injection H as E1 E2 E3. subst s1 st sp. closed_leaf Inv. subst f. right. simpl. auto.
  - (* FKeyUnlock *) injection H as E1 E2 E3. subst s1 st sp. simpl. closed_leaf Inv.
  - (* FJoin *)
    destruct (nth jid (s_joins s) (0, false)) as [nb failed]. destruct (Nat.eqb nb 0); [|discriminate].
    destruct failed; [|injection H as E1 E2 E3; subst s1 st sp; closed_leaf Inv].
    assert (Fr : forall f, In f (FJoin r jid :: rest ++ others) -> frame_ok (s_nodes s) (length (s_slots s)) f) by (destruct Inv as [_ [_ [C _]]]; exact C).
    eapply do_fail_closed; [exact H | | | | | | exact Inv].
    + intros f Hf. apply Fr. right. apply in_app_iff. left. exact Hf.
    + intros f Hf. left. right. exact Hf.
    + intros n'. simpl. lia.
    + intros c'. simpl. lia.
    + intros r'. simpl. reflexivity.
  - (* FBranchBegin *) injection H as E1 E2 E3. subst s1 st sp. closed_leaf Inv.
  - (* FBranchEnd *)
    destruct (nth jid (s_joins s) (0, false)) as [nb failed]. injection H as E1 E2 E3. subst s1 st sp. simpl. closed_leaf Inv.
  - (* FRunEnd: publish *)
    injection H as E1 E2 E3. subst s1 st sp. simpl.
    assert (Fr : forall f, In f (FRunEnd r c :: rest ++ others) -> frame_ok (s_nodes s) (length (s_slots s)) f) by (destruct Inv as [_ [_ [C _]]]; exact C).
    destruct (Fr _ (or_introl eq_refl)) as [Cl Hn].
    assert (Old : forall old, r_comp (getr s r) = Some old -> old < length (s_nodes s)).
    { intros old Ho. destruct (Nat.lt_ge_cases r (length (s_rrs s))) as [L|L].
      - destruct Inv as [_ [_ [_ [_ [_ F]]]]]. destruct (F r L) as [F1 _]. apply F1. exact Ho.
      - unfold getr in Ho. rewrite nth_overflow in Ho by exact L. discriminate. }
    assert (SpC : forall p, (forall m, p (FRelEnter m) = false) -> count p (concat (opt_task (r_comp (getr s r)) (fun old => [FRelEnter old]))) = 0).
    { intros p Hp. destruct (r_comp (getr s r)); simpl; rewrite ?Hp; reflexivity. }
    eapply closed_transfer; [apply same_cl_refl | intros n' x' Hx'; left; exact Hx' | reflexivity | intros sl' _; left; reflexivity
      | apply length_setl | | | | | exact Inv].
    + apply rr_premise_setl; [intros r' _; simpl; rewrite ?count_app, SpC by reflexivity; simpl; lia|].
      intros Hr. destruct Inv as [_ [_ [_ [_ [_ F]]]]]. destruct (F r Hr) as [F1 [F2 [F3 F4]]].
      unfold getr in *. unfold rr_ok. simpl. repeat split; auto.
      * intros c' Q. inversion Q; subst. exact Cl.
      * simpl in F4. rewrite ?count_app, SpC in * by reflexivity. simpl. lia.
    + intros f Hf. simpl in Hf. rewrite ?in_app_iff in Hf. destruct Hf as [<-|[Hf|[Hf|Hf]]];
        [right; simpl; auto | left; right; apply in_app_iff; tauto | left; right; apply in_app_iff; tauto |].
      right. destruct (r_comp (getr s r)) as [old|] eqn:Ro; simpl in Hf; [destruct Hf as [<-|[]]; simpl; apply Old; reflexivity | contradiction].
    + intros n'. left. simpl. rewrite ?count_app, SpC by reflexivity. lia.
    + intros c'. left. simpl. rewrite ?count_app, SpC by reflexivity. lia.
  - (* FArm: handleInvalidate *)
    destruct (negb (n_inv (getN s c)) && match n_hinv (getN s c) with Some _ => true | None => false end) eqn:Gd; [discriminate|].
    unfold g_handle_inv in H. unfold getN in Gd.
    destruct (n_inv (getn (s_nodes s) c)) eqn:Ic; injection H as E1 E2 E3; subst s1 st sp; simpl.
    + closed_leaf Inv.
    + destruct Inv as [A [B [C [D [E F]]]]].
      destruct (C _ (or_introl eq_refl)) as [Cl Hn].
      assert (Uniq : forall f, In f (rest ++ others) -> is_end c f = false).
      { intros f Hf. specialize (E c). simpl in E. rewrite Nat.eqb_refl in E. apply (count_zero_not_in _ (rest ++ others)); [lia | exact Hf]. }
      set (g' := setn (s_nodes s) c (set_hinv (getn (s_nodes s) c) r)).
      assert (Lg : length g' = length (s_nodes s)) by apply length_setn.
      assert (Oth : forall m, m <> c -> getn g' m = getn (s_nodes s) m) by (intros m Nm; apply getn_setn_neq; congruence).
      assert (Self : getn g' c = set_hinv (getn (s_nodes s) c) r) by (apply getn_setn_eq; exact Cl).
      assert (Hk : forall m, n_hrel (getn g' m) = n_hrel (getn (s_nodes s) m) /\ n_timer (getn g' m) = n_timer (getn (s_nodes s) m) /\
                             n_ins (getn g' m) = n_ins (getn (s_nodes s) m)).
      { intros m. destruct (Nat.eq_dec m c) as [->|Nq]; [rewrite Self; repeat split | rewrite Oth by exact Nq; repeat split]. }
      assert (Fk : forall f, frame_ok (s_nodes s) (length (s_slots s)) f -> is_end c f = false -> frame_ok g' (length (s_slots s)) f).
      { intros f Hf Nt. unfold frame_ok, comp_kind in *. rewrite Lg. destruct f; auto.
        - destruct (Hk c0) as [K1 [K2 _]]. rewrite K1, K2. exact Hf.
        - destruct (Hk c0) as [K1 [K2 _]]. destruct (Hk res) as [K3 _]. rewrite K1, K2, K3. exact Hf.
        - destruct (Hk res) as [K1 [K2 _]]. rewrite K1, K2. exact Hf.
        - destruct (Hk parent) as [K1 [K2 _]]. rewrite K1, K2. exact Hf.
        - destruct (Hk c0) as [K1 [K2 _]]. rewrite K1, K2. exact Hf.
        - simpl in Nt. assert (c0 <> c) by (intros Q; subst; rewrite Nat.eqb_refl in Nt; discriminate). rewrite Oth by assumption. exact Hf.
        - simpl in Nt. assert (c0 <> c) by (intros Q; subst; rewrite Nat.eqb_refl in Nt; discriminate). rewrite Oth by assumption. exact Hf. }
      unfold closed_on. fold g'. rewrite Lg. split; [|split; [|split; [|split; [|split]]]].
      * intros m x Hx. destruct (Hk m) as [_ [_ K3]]. rewrite K3 in Hx. eapply A; eauto.
      * intros sl Hsl. destruct (B sl Hsl) as [B1 B2]. split; [exact B1|]. destruct (Hk (snd (nth sl (s_slots s) (0, 0)))) as [K1 _]. rewrite K1. exact B2.
      * intros f Hf. rewrite app_nil_r in Hf. simpl in Hf. destruct Hf as [<-|Hf]; [exact I|].
        apply Fk; [apply C; right; exact Hf | apply Uniq; exact Hf].
      * intros n'. specialize (D n'). simpl in D. rewrite app_nil_r. simpl. lia.
      * intros c'. specialize (E c'). simpl in E. rewrite app_nil_r. simpl. destruct (Nat.eqb c' c); lia.
      * intros r' Hr'. destruct (F r' Hr') as [F1 [F2 [F3 F4]]]. unfold rr_ok. rewrite Lg, app_nil_r. simpl in F4. simpl. repeat split; auto.
  - (* FUnlock *) injection H as E1 E2 E3. subst s1 st sp. simpl. closed_leaf Inv.
  - (* FStop *)
    destruct cancelled.
    + destruct (r_mu (getr s r)); [discriminate|]. injection H as E1 E2 E3. subst s1 st sp. simpl.
      assert (Old : forall old, r_comp (getr s r) = Some old -> old < length (s_nodes s)).
      { intros old Ho. destruct (Nat.lt_ge_cases r (length (s_rrs s))) as [L|L].
        - destruct Inv as [_ [_ [_ [_ [_ F]]]]]. destruct (F r L) as [F1 _]. apply F1. exact Ho.
        - unfold getr in Ho. rewrite nth_overflow in Ho by exact L. discriminate. }
      assert (SpC : forall p, (forall m, p (FRelEnter m) = false) -> count p (concat (opt_task (r_comp (getr s r)) (fun old => [FRelEnter old]))) = 0).
      { intros p Hp. destruct (r_comp (getr s r)); simpl; rewrite ?Hp; reflexivity. }
      eapply closed_transfer; [apply same_cl_refl | intros n' x' Hx'; left; exact Hx' | reflexivity | intros sl' _; left; reflexivity
        | apply length_setl | | | | | exact Inv].
      * apply rr_premise_setl; [intros r' _; simpl; rewrite ?count_app, SpC by reflexivity; simpl; lia|].
        intros Hr. destruct Inv as [_ [_ [_ [_ [_ F]]]]]. destruct (F r Hr) as [F1 [F2 [F3 F4]]].
        unfold getr in *. unfold rr_ok. simpl. repeat split; auto.
        -- intros c' Q. discriminate.
        -- simpl in F4. rewrite ?count_app, SpC in * by reflexivity. simpl. lia.
      * intros f Hf. rewrite ?in_app_iff in Hf. destruct Hf as [Hf|[Hf|Hf]];
          [left; right; apply in_app_iff; tauto | left; right; apply in_app_iff; tauto |].
        right. destruct (r_comp (getr s r)) as [old|] eqn:Ro; simpl in Hf; [destruct Hf as [<-|[]]; simpl; apply Old; reflexivity | contradiction].
      * intros n'. left. simpl. rewrite ?count_app, SpC by reflexivity. lia.
      * intros c'. left. simpl. rewrite ?count_app, SpC by reflexivity. lia.
    + injection H as E1 E2 E3. subst s1 st sp. simpl. closed_leaf Inv.
  - (* FOutAdd *)
    destruct (Nat.ltb n (length (s_nodes s))) eqn:Ln; [|discriminate]. apply Nat.ltb_lt in Ln.
    unfold g_add_out_released in H. injection H as E1 E2 E3. subst s1 st sp. simpl.
    assert (SpC : forall p, p FPhInv = false -> (forall x, p (FRelEnter x) = false) ->
                  count p (concat ((if n_inv (getn (s_nodes s) n) then [[FPhInv]] else []) ++ (if is_nil (n_out (getn (s_nodes s) n)) then [[FRelEnter n]] else []))) = 0).
    { intros p P1 P2. destruct (n_inv (getn (s_nodes s) n)), (is_nil (n_out (getn (s_nodes s) n))); simpl; rewrite ?P1, ?P2; reflexivity. }
    eapply closed_transfer; [ | | | | | | | | | exact Inv];
      [ same_cl_tac
      | intros n' x' Hx'; left; refine ((_ : same_ins _ _) n' x' Hx'); same_ins_tac
      | reflexivity | intros sl' _; left; reflexivity | reflexivity | | | | ].
    + intros r' _. left. split; [repeat split|]. simpl. rewrite ?count_app, SpC by reflexivity. lia.
    + intros f Hf. rewrite ?in_app_iff in Hf. destruct Hf as [Hf|[Hf|Hf]]; [left; right; apply in_app_iff; tauto | left; right; apply in_app_iff; tauto |].
      right. destruct (n_inv (getn (s_nodes s) n)), (is_nil (n_out (getn (s_nodes s) n))); simpl in Hf;
        repeat (destruct Hf as [<-|Hf]); try contradiction; simpl; rewrite ?length_setn; auto.
    + intros n'. left. simpl. rewrite ?count_app, SpC by reflexivity. lia.
    + intros c'. left. simpl. rewrite ?count_app, SpC by reflexivity. lia.
  - (* FPhInv *) injection H as E1 E2 E3. subst s1 st sp. closed_leaf Inv.
Qed.

Lemma exhausted_cl : forall f, exhausted f = true -> (forall n, is_treg n f = false) /\ (forall c, is_end c f = false) /\ (forall r, is_clean r f = false).
Proof. intros f H. destruct f; simpl in *; try discriminate; repeat split; reflexivity. Qed.

Lemma step_closed : forall s l s', edge_inv s -> closed_inv s -> step s l = Some s' -> closed_inv s'.
Proof.
  intros s l s' Ed Inv H. unfold closed_inv in *. destruct Ed as [Oc _]. destruct l.
  - destruct (step_task_frames _ _ _ _ H) as [f [rest [s1 [st [sp [others [dropped [P1 [T [D1 [D2 [P2 [N [R [Sl _]]]]]]]]]]]]]]].
    rewrite N, R, Sl. eapply closed_on_perm; [apply Permutation_sym; exact P2|].
    assert (K := step_top_closed _ _ _ _ _ _ _ others T Oc (closed_on_perm _ _ _ _ _ P1 Inv)).
    assert (Cn : forall p, (forall f, exhausted f = true -> p f = false) -> count p st = count p (norm st)).
    { intros p Hp. assert (Q := f_equal (count p) D1). rewrite count_app, (count_exhausted _ _ Hp D2) in Q. exact Q. }
    eapply closed_transfer; [apply same_cl_refl | intros n' x' Hx'; left; exact Hx' | reflexivity | intros sl' _; left; reflexivity
      | reflexivity | | | | | exact K].
    + intros r' _. left. split; [repeat split|]. rewrite !count_app. rewrite (Cn (is_clean r')); [reflexivity|].
      intros f0 Hf0. apply exhausted_cl. exact Hf0.
    + intros f0 Hf. left. rewrite D1. rewrite !in_app_iff in *. tauto.
    + intros n'. left. rewrite !count_app. rewrite (Cn (is_treg n')); [lia|]. intros f0 Hf0. apply exhausted_cl. exact Hf0.
    + intros c'. left. rewrite !count_app. rewrite (Cn (is_end c')); [lia|]. intros f0 Hf0. apply exhausted_cl. exact Hf0.
  - (* Strobe *)
    simpl in H. destruct (Nat.ltb slot (length (s_slots s))) eqn:L; [|discriminate]. inversion H; subst; clear H.
    rewrite frames_spawn. unfold all_frames in *. simpl.
    eapply closed_transfer; [apply same_cl_refl | intros n' x' Hx'; left; exact Hx' | apply length_setl | | reflexivity | | | | | exact Inv].
    + intros sl' _. left. rewrite nth_setl. destruct (Nat.eqb slot sl' && Nat.ltb slot (length (s_slots s))) eqn:E; [|reflexivity].
      apply andb_true_iff in E. destruct E as [E _]. apply Nat.eqb_eq in E. subst. reflexivity.
    + intros r' _. left. split; [repeat split|]. rewrite count_app. simpl. lia.
    + intros f Hf. apply in_app_iff in Hf. destruct Hf as [Hf|[<-|[]]]; [left; exact Hf | right; exact I].
    + intros n'. left. rewrite count_app. simpl. lia.
    + intros c'. left. rewrite count_app. simpl. lia.
  - (* Invalidate *)
    simpl in H. destruct (Nat.ltb slot (length (s_slots s))) eqn:L; [|discriminate]. apply Nat.ltb_lt in L.
    inversion H; subst; clear H. rewrite frames_spawn. unfold all_frames in *. simpl.
    assert (Bo : slot_res s slot < length (s_nodes s)) by (destruct Inv as [_ [B _]]; destruct (B slot L) as [B1 _]; exact B1).
    eapply closed_transfer; [ | | | | | | | | | exact Inv];
      [same_cl_tac | intros n' x' Hx'; left; refine ((_ : same_ins _ _) n' x' Hx'); same_ins_tac
      | apply length_setl | | reflexivity | | | | ].
    + intros sl' _. rewrite nth_setl. destruct (Nat.eqb slot sl' && Nat.ltb slot (length (s_slots s))); [|left; reflexivity].
      right. simpl. rewrite app_length, getn_app_new, Nat.eqb_refl. simpl. split; [lia | discriminate].
    + intros r' _. left. split; [repeat split|]. rewrite count_app. simpl. lia.
    + intros f Hf. apply in_app_iff in Hf. destruct Hf as [Hf|[<-|[]]]; [left; exact Hf | right].
      simpl. intros x [<-|[]]. rewrite app_length. simpl. lia.
    + intros n'. left. rewrite count_app. simpl. lia.
    + intros c'. left. rewrite count_app. simpl. lia.
  - simpl in H. destruct (Nat.ltb r (length (s_rrs s))); [|discriminate]. inversion H; subst; clear H.
    rewrite frames_spawn. unfold all_frames in *. simpl.
    eapply closed_transfer; [apply same_cl_refl | intros n' x' Hx'; left; exact Hx' | reflexivity | intros sl' _; left; reflexivity | reflexivity | | | | | exact Inv].
    + intros r' _. left. split; [repeat split|]. rewrite count_app. simpl. lia.
    + intros f Hf. apply in_app_iff in Hf. destruct Hf as [Hf|[<-|[]]]; [left; exact Hf | right; exact I].
    + intros n'. left. rewrite count_app. simpl. lia.
    + intros c'. left. rewrite count_app. simpl. lia.
  - (* PurgeCache *)
    simpl in H. destruct (Nat.ltb r (length (s_rrs s))); [|discriminate].
    destruct (r_clock (getr s r)); [discriminate|]. inversion H; subst; clear H. unfold all_frames in *. simpl.
    eapply closed_transfer; [apply same_cl_refl | intros n' x' Hx'; left; exact Hx' | reflexivity | intros sl' _; left; reflexivity
      | apply length_setl | | intros f Hf; left; exact Hf | intros n'; left; lia | intros c'; left; lia | exact Inv].
    apply rr_premise_setl; [intros r' _; reflexivity|].
    intros Hr. destruct Inv as [_ [_ [_ [_ [_ F]]]]]. destruct (F r Hr) as [F1 [F2 [F3 F4]]].
    unfold getr in *. unfold rr_ok. simpl. repeat split; auto. intros k' ch [].
  - (* timer *)
    simpl in H. destruct (Nat.eqb (n_timer (getN s n)) 1) eqn:Tm; [|discriminate]. inversion H; subst; clear H.
    rewrite frames_spawn. unfold all_frames in *. simpl. apply Nat.eqb_eq in Tm.
    assert (Ln : n < length (s_nodes s)).
    { destruct (Nat.lt_ge_cases n (length (s_nodes s))) as [Q|Q]; [exact Q|]. unfold getN in Tm. rewrite getn_out_of_range in Tm by exact Q. discriminate. }
    eapply closed_transfer; [ | | | | | | | | | exact Inv];
      [ | intros n' x' Hx'; left; refine ((_ : same_ins _ _) n' x' Hx'); unfold getN; same_ins_tac
      | reflexivity | intros sl' _; left; reflexivity | reflexivity | | | | ].
    + unfold getN. apply same_cl_setn; [reflexivity | reflexivity |]. simpl. unfold getN in Tm. rewrite Tm. split; discriminate.
    + intros r' _. left. split; [repeat split|]. rewrite count_app. simpl. lia.
    + intros f Hf. apply in_app_iff in Hf. destruct Hf as [Hf|[<-|[]]]; [left; exact Hf | right].
      simpl. intros x [<-|[]]. rewrite length_setn. exact Ln.
    + intros n'. left. rewrite count_app. simpl. lia.
    + intros c'. left. rewrite count_app. simpl. lia.
  - (* AddDependency outside a rerunner *)
    simpl in H. destruct (Nat.ltb slot (length (s_slots s))) eqn:L; [|discriminate]. apply Nat.ltb_lt in L.
    inversion H; subst; clear H. rewrite frames_spawn. unfold all_frames in *. simpl.
    assert (Bo : slot_res s slot < length (s_nodes s)) by (destruct Inv as [_ [B _]]; destruct (B slot L) as [B1 _]; exact B1).
    eapply closed_transfer; [apply same_cl_refl | intros n' x' Hx'; left; exact Hx' | reflexivity | intros sl' _; left; reflexivity | reflexivity | | | | | exact Inv].
    + intros r' _. left. split; [repeat split|]. rewrite count_app. simpl. lia.
    + intros f Hf. apply in_app_iff in Hf. destruct Hf as [Hf|[<-|[]]]; [left; exact Hf | right; exact Bo].
    + intros n'. left. rewrite count_app. simpl. lia.
    + intros c'. left. rewrite count_app. simpl. lia.
  - simpl in H. destruct (Nat.ltb r (length (s_rrs s))); [|discriminate]. inversion H; subst; clear H. unfold all_frames in *. simpl.
    eapply closed_transfer; [apply same_cl_refl | intros n' x' Hx'; left; exact Hx' | reflexivity | intros sl' _; left; reflexivity
      | apply length_setl | | intros f Hf; left; exact Hf | intros n'; left; lia | intros c'; left; lia | exact Inv].
    apply rr_premise_setl; [intros r' _; reflexivity|].
    intros Hr. destruct Inv as [_ [_ [_ [_ [_ F]]]]]. destruct (F r Hr) as [F1 [F2 [F3 F4]]].
    unfold getr in *. unfold rr_ok. simpl. repeat split; auto.
Qed.

Lemma init_nodes_length : forall k j, length (init_nodes k j) = k.
Proof. induction k as [|k IH]; intros j; simpl; [reflexivity | rewrite IH; reflexivity]. Qed.
Lemma init_slots_length : forall k j, length (init_slots k j) = k.
Proof. induction k as [|k IH]; intros j; simpl; [reflexivity | rewrite IH; reflexivity]. Qed.
Lemma init_slots_nth : forall k j sl, sl < k -> snd (nth sl (init_slots k j) (0, 0)) = j + sl.
Proof.
  induction k as [|k IH]; intros j sl H; [lia|]. destruct sl as [|sl]; simpl; [lia|]. rewrite IH by lia. lia.
Qed.
Lemma init_nodes_hrel : forall k j n, n < k -> n_hrel (getn (init_nodes k j) n) <> None.
Proof.
  induction k as [|k IH]; intros j n H; [lia|]. destruct n as [|n]; simpl; [discriminate|]. apply (IH (S j) n). lia.
Qed.
Lemma init_nodes_ins : forall k j n, n_ins (getn (init_nodes k j) n) = [].
Proof.
  induction k as [|k IH]; intros j n; simpl; [unfold getn; destruct n; reflexivity|]. destruct n as [|n]; [reflexivity | apply (IH (S j) n)].
Qed.

Definition progs_ok (k : nat) (progs : list (list op * bool)) : Prop := forall p, In p progs -> prog_ok k (fst p) = true.

Lemma init_closed : forall k progs, progs_ok k progs -> closed_inv (init k progs).
Proof.
  intros k progs Pk. unfold closed_inv, init, all_frames. simpl.
  unfold closed_on. rewrite init_nodes_length, init_slots_length, map_length.
  split; [|split; [|split; [|split; [|split]]]].
  - intros n x Hx. rewrite init_nodes_ins in Hx. contradiction.
  - intros sl Hsl. rewrite init_slots_nth by exact Hsl. simpl. split; [exact Hsl | apply init_nodes_hrel; exact Hsl].
  - intros f Hf. destruct (ProofsArmed.init_tasks_frames _ _ _ Hf) as [r ->]. exact I.
  - intros n. rewrite init_tasks_counts by reflexivity. lia.
  - intros c. rewrite init_tasks_counts by reflexivity. lia.
  - intros r Hr.
    assert (E : nth r (map init_rr progs) drr = init_rr (nth r progs ([], true))).
    { change drr with (init_rr ([], true)). apply map_nth. }
    rewrite E. unfold rr_ok. simpl. repeat split; try discriminate.
    + intros key child [].
    + apply Pk. apply nth_In. exact Hr.
    + apply init_tasks_counts. reflexivity.
Qed.

Lemma reachable_closed : forall k progs s, progs_ok k progs -> reachable (init k progs) s -> closed_inv s.
Proof.
  intros k progs s Pk R. induction R as [|s l s' R IH H]; [apply init_closed; exact Pk|].
  eapply step_closed; [eapply reachable_edge; exact R | exact IH | exact H].
Qed.
