(** * Reactive/Measure.v — a work measure for the transition system of Reactive/Rerunner.v (definitions only).

    [mu s] bounds the number of task labels the system can still execute before every remaining goroutine is a
    run of a rerunner asleep on its re-run interval (rerunner.go:358-366: the timer of minRerunInterval /
    retryDelay; the model's label "the select returned", [FRunWait] with argument 0).  That label is the only
    task label which does not decrease the measure: it adds the cost of one run of the rerunner
    ([rerun_cost]).  The environment's labels (Strobe, Invalidate, Stop, PurgeCache, a timer of InvalidateAfter
    firing, AddDependency outside a rerunner, cancellation) are not covered: they inject new work.

    The measure is a sum of
    - a weight per continuation frame (what the frame can still execute itself, and what it can spawn),
    - a potential per node: a valid node can still be marked invalid once, which walks its [out] set and runs its
      rerun handler; a node that is not released can still be released once, which walks its [in] list,
    - for a pending strobe, the size of the [out] set it is going to snapshot.
    Weights of the frames of Rerunner.run and of compute functions are multiplied by [K] = 1 + the number of
    pending strobes, because every addOut enlarges the snapshot each of them will take. *)
From Coq Require Import List Arith Bool.
From Thunder Require Import Reactive.Graph Reactive.Rerunner.
Import ListNotations.

(** cost of a compute function, in units *)
Fixpoint op_cost (o : op) : nat :=
  match o with
  | ODep _ => 12
  | OTimer => 13
  | OCache _ body => 15 + (fix go (l : list op) : nat := match l with [] => 0 | x :: t => op_cost x + go t end) body
  | OFail => 1
  | ORetry => 1
  | OPar bs =>
      2 + (fix gob (ll : list (list op)) : nat :=
             match ll with
             | [] => 0
             | b :: t => 2 + (fix go (l : list op) : nat := match l with [] => 0 | x :: u => op_cost x + go u end) b + gob t
             end) bs
  end.
Fixpoint prog_cost (p : list op) : nat := match p with [] => 0 | x :: t => op_cost x + prog_cost t end.
Fixpoint branches_cost (bs : list (list op)) : nat := match bs with [] => 0 | b :: t => 2 + prog_cost b + branches_cost t end.

(** the keys of the reactive.Cache calls in a compute function; their number is an upper bound of the size of
    the rerunner's cache *)
Fixpoint op_keyl (o : op) : list nat :=
  match o with
  | OCache key body => key :: (fix go (l : list op) : list nat := match l with [] => [] | x :: t => op_keyl x ++ go t end) body
  | OPar bs =>
      (fix gob (ll : list (list op)) : list nat :=
         match ll with
         | [] => []
         | b :: t => (fix go (l : list op) : list nat := match l with [] => [] | x :: u => op_keyl x ++ go u end) b ++ gob t
         end) bs
  | _ => []
  end.
Fixpoint prog_keyl (p : list op) : list nat := match p with [] => [] | x :: t => op_keyl x ++ prog_keyl t end.
Fixpoint branches_keyl (bs : list (list op)) : list nat := match bs with [] => [] | b :: t => prog_keyl b ++ branches_keyl t end.
Definition prog_keys (p : list op) : nat := length (prog_keyl p).

Definition u_runend : nat := 7.
Definition u_begin (p : list op) : nat := 1 + prog_cost p + u_runend.
Definition u_cleanstart (p : list op) : nat := 2 + prog_keys p + u_begin p.
Definition u_runlock (p : list op) : nat := 1 + u_cleanstart p.

(** weight of a frame; [pr r] = the compute function of rerunner r *)
Definition fw (K : nat) (pr : nat -> list op) (f : frame) : nat :=
  match f with
  | FInvList l => length l
  | FStrobe _ => 1
  | FRelEnter _ => 3
  | FRelMark _ => 2
  | FCleanup _ _ => 1
  | FRelDeps _ l => 4 * length l
  | FRunWait _ => 1
  | FRunLock r => K * u_runlock (pr r)
  | FCleanStart r => K * u_cleanstart (pr r)
  | FClean r ks => K * (1 + length ks + u_begin (pr r))
  | FBegin r => K * u_begin (pr r)
  | FScript _ _ p => K * prog_cost p
  | FDepAdd _ _ _ => K * 11
  | FDepRead _ _ => K * 1
  | FTimerReg _ _ => K * 12
  | FTimerAdd _ _ => K * 10
  | FChildBegin _ _ body _ => K * (12 + prog_cost body)
  | FCacheSet _ _ _ _ => K * 11
  | FCacheLink _ _ => K * 10
  | FCacheGet _ _ body _ => K * (13 + prog_cost body)
  | FKeyUnlock _ _ => K * 1
  | FJoin _ _ => K * 1
  | FBranchBegin _ _ => K * 1
  | FBranchEnd _ => K * 1
  | FRunEnd _ _ => K * u_runend
  | FArm _ _ => K * 3
  | FUnlock _ => K * 1
  | FStop _ false => 5
  | FStop _ true => 4
  | FOutAdd _ => 5
  | FPhInv => 1
  end.

(** the snapshot a pending strobe is going to take *)
Definition sw (g : graph) (f : frame) : nat :=
  match f with FStrobe n => length (n_out (getn g n)) | _ => 0 end.

Definition is_strobe (f : frame) : bool := match f with FStrobe _ => true | _ => false end.

Fixpoint sumf (w : frame -> nat) (fr : list frame) : nat :=
  match fr with [] => 0 | f :: t => w f + sumf w t end.

(** potential of a node *)
Definition np (x : node) : nat :=
  (if n_inv x then 0 else length (n_out x) + (match n_hinv x with Some _ => 1 | None => 0 end)) +
  (if n_rel x then 0 else 4 * length (n_ins x)).
Fixpoint np_sum (g : graph) : nat := match g with [] => 0 | x :: t => np x + np_sum t end.

Definition frames_of (s : state) : list frame := concat (map snd (s_tasks s)).
Definition progs_of (s : state) (r : nat) : list op := r_prog (getr s r).

Definition mu_k (K : nat) (s : state) : nat :=
  sumf (fw K (progs_of s)) (frames_of s) + sumf (sw (s_nodes s)) (frames_of s) + np_sum (s_nodes s).

Fixpoint count_strobes (fr : list frame) : nat :=
  match fr with [] => 0 | f :: t => (if is_strobe f then 1 else 0) + count_strobes t end.

Definition kof (s : state) : nat := 1 + count_strobes (frames_of s).

Definition mu (s : state) : nat := mu_k (kof s) s.

(** what one expiry of a re-run interval can add: the cost of one run of the most expensive rerunner *)
Fixpoint max_runlock (rrs : list rr) : nat :=
  match rrs with [] => u_runlock [] | x :: t => Nat.max (u_runlock (r_prog x)) (max_runlock t) end.
Definition rerun_cost (s : state) : nat := kof s * max_runlock (s_rrs s).

(** the label "a run asleep on its re-run interval wakes up" *)
Definition is_expiry (s : state) (l : label) : bool :=
  match l with
  | LTask tid arg =>
      match find_task (s_tasks s) tid with
      | Some (FRunWait _ :: _) => Nat.eqb arg 0
      | _ => false
      end
  | _ => false
  end.

Definition is_internal (l : label) : bool := match l with LTask _ _ => true | _ => false end.

(** run a schedule of task labels only; count the expiries *)
Fixpoint irun (s : state) (ls : list label) : option (state * nat) :=
  match ls with
  | [] => Some (s, 0)
  | l :: t =>
      if is_internal l then
        match step s l with
        | Some s' =>
            match irun s' t with
            | Some (s'', n) => Some (s'', (if is_expiry s l then 1 else 0) + n)
            | None => None
            end
        | None => None
        end
      else None
  end.

(** every remaining goroutine is a run asleep on its interval *)
Definition asleep_task (t : nat * list frame) : bool :=
  match snd t with FRunWait _ :: _ => true | _ => false end.
Definition settled (s : state) : bool := forallb asleep_task (s_tasks s).

(** ... and nothing is left beneath the sleeping runs (with alwaysSpawnGoroutine = false a run sleeps on the
    stack of the invalidate() walk that started it: the rest of that walk waits for it) *)
Definition idle_frame (f : frame) : bool :=
  match f with
  | FRunWait _ => true
  | FInvList [] => true
  | FRelDeps _ [] => true
  | FScript _ _ [] => true
  | _ => false
  end.
Definition dormant (s : state) : bool := forallb idle_frame (frames_of s).

(** the cache holds at most one entry per reactive.Cache call of the compute function *)
Definition cache_bounded (s : state) : Prop :=
  forall r, length (r_cache (getr s r)) <= prog_keys (r_prog (getr s r)).
