(** * Reactive/ProofsBase.v — lemmas shared by the invariant proofs: lists, node/rerunner updates,
    the frame multiset of a state before and after a step. *)
From Coq Require Import List Arith Bool Lia Permutation.
From Thunder Require Import Reactive.Graph Reactive.Rerunner.
Import ListNotations.

(** ** lists *)
Lemma memb_In : forall x l, memb x l = true <-> In x l.
Proof.
  intros x l. unfold memb. rewrite existsb_exists. split.
  - intros [y [Hy E]]. apply Nat.eqb_eq in E. subst. exact Hy.
  - intros H. exists x. split; [exact H | apply Nat.eqb_refl].
Qed.

Lemma In_remove1 : forall x y l, In y (remove1 x l) -> In y l.
Proof.
  induction l as [|h t IH]; simpl; intros H; [exact H|].
  destruct (Nat.eqb x h); [right; exact H|].
  destruct H as [H|H]; [left; exact H | right; apply IH; exact H].
Qed.

Lemma In_remove1_neq : forall x y l, In y l -> y <> x -> In y (remove1 x l).
Proof.
  induction l as [|h t IH]; simpl; intros H N; [exact H|].
  destruct (Nat.eqb x h) eqn:E.
  - apply Nat.eqb_eq in E. subst h. destruct H as [H|H]; [congruence | exact H].
  - destruct H as [H|H]; [left; exact H | right; apply IH; assumption].
Qed.

Lemma In_remove_all : forall x y l, In y (remove_all x l) <-> In y l /\ y <> x.
Proof.
  induction l as [|h t IH]; simpl; [tauto|].
  destruct (Nat.eqb x h) eqn:E.
  - apply Nat.eqb_eq in E. subst h. rewrite IH. split; [tauto|]. intros [[H|H] N]; [congruence | tauto].
  - apply Nat.eqb_neq in E. simpl. rewrite IH. split.
    + intros [H|[H N]]; [subst; split; [left; reflexivity | congruence] | tauto].
    + intros [[H|H] N]; tauto.
Qed.

Lemma In_add_set : forall x y l, In y (add_set x l) <-> In y l \/ y = x.
Proof.
  intros x y l. unfold add_set. destruct (memb x l) eqn:E.
  - apply memb_In in E. split; [tauto|]. intros [H|H]; [exact H | subst; exact E].
  - rewrite in_app_iff. simpl. split; [intros [H|[H|[]]]; [tauto | right; congruence] | intros [H|H]; [tauto | right; left; congruence]].
Qed.

Lemma is_nil_true : forall A (l : list A), is_nil l = true <-> l = [].
Proof. intros A [|h t]; simpl; split; congruence. Qed.

(** ** graph updates *)
Lemma length_setn : forall g i x, length (setn g i x) = length g.
Proof. induction g as [|h t IH]; intros [|i] x; simpl; auto. Qed.

Lemma getn_setn : forall g i j x,
  getn (setn g i x) j = if Nat.eqb i j && Nat.ltb i (length g) then x else getn g j.
Proof.
  unfold getn. induction g as [|h t IH]; intros i j x.
  - simpl. rewrite andb_false_r. reflexivity.
  - destruct i as [|i]; destruct j as [|j]; simpl; try reflexivity.
    rewrite IH. change (Nat.ltb (S i) (S (length t))) with (Nat.ltb i (length t)). reflexivity.
Qed.

Lemma getn_setn_eq : forall g i x, i < length g -> getn (setn g i x) i = x.
Proof.
  intros. rewrite getn_setn, Nat.eqb_refl. apply Nat.ltb_lt in H. rewrite H. reflexivity.
Qed.

Lemma getn_setn_neq : forall g i j x, i <> j -> getn (setn g i x) j = getn g j.
Proof.
  intros. rewrite getn_setn. apply Nat.eqb_neq in H. rewrite H. reflexivity.
Qed.

Lemma getn_out_of_range : forall g i, length g <= i -> getn g i = dnode.
Proof. intros. unfold getn. apply nth_overflow. exact H. Qed.

Lemma getn_app_new : forall g x j,
  getn (g ++ [x]) j = if Nat.eqb j (length g) then x else getn g j.
Proof.
  intros g x j. unfold getn. destruct (Nat.eqb j (length g)) eqn:E.
  - apply Nat.eqb_eq in E. subst. rewrite app_nth2, Nat.sub_diag; auto.
  - apply Nat.eqb_neq in E. destruct (Nat.lt_ge_cases j (length g)).
    + rewrite app_nth1; auto.
    + rewrite !nth_overflow; auto; rewrite ?app_length; simpl; lia.
Qed.

Lemma length_setl : forall A (l : list A) i x, length (setl l i x) = length l.
Proof. induction l as [|h t IH]; intros [|i] x; simpl; auto. Qed.

Lemma nth_setl : forall A (l : list A) i j x d,
  nth j (setl l i x) d = if Nat.eqb i j && Nat.ltb i (length l) then x else nth j l d.
Proof.
  induction l as [|h t IH]; intros i j x d.
  - simpl. rewrite andb_false_r. reflexivity.
  - destruct i as [|i]; destruct j as [|j]; simpl; try reflexivity.
    rewrite IH. change (Nat.ltb (S i) (S (length t))) with (Nat.ltb i (length t)). reflexivity.
Qed.

(** ** frames of a state *)
Definition all_frames (s : state) : list frame := concat (map snd (s_tasks s)).

Definition task_list (tid : nat) (st : list frame) : list (nat * list frame) :=
  match st with [] => [] | _ => [(tid, st)] end.

Lemma find_task_split : forall ts tid st,
  find_task ts tid = Some st ->
  exists pre post, ts = pre ++ (tid, st) :: post /\
    forall st', replace_task ts tid st' = pre ++ task_list tid st' ++ post.
Proof.
  induction ts as [|[i st0] t IH]; simpl; intros tid st H; [discriminate|].
  destruct (Nat.eqb i tid) eqn:E.
  - apply Nat.eqb_eq in E. subst i. inversion H; subst. exists [], t. split; [reflexivity|].
    intros st'. destruct st'; reflexivity.
  - destruct (IH _ _ H) as [pre [post [E1 E2]]]. exists ((i, st0) :: pre), post. split.
    + simpl. rewrite E1. reflexivity.
    + intros st'. simpl. rewrite E2. reflexivity.
Qed.

Lemma frames_number_from : forall sp k, concat (map snd (number_from k sp)) = concat sp.
Proof. induction sp as [|h t IH]; intros k; simpl; [reflexivity | rewrite IH; reflexivity]. Qed.

Lemma frames_task_list : forall tid st, concat (map snd (task_list tid st)) = st.
Proof. intros tid [|f t]; simpl; [reflexivity | rewrite app_nil_r; reflexivity]. Qed.

(* norm drops a prefix of exhausted frames *)
Definition exhausted (f : frame) : bool :=
  match f with
  | FInvList [] => true
  | FRelDeps _ [] => true
  | FScript _ _ [] => true
  | _ => false
  end.

Lemma norm_split : forall st, exists dropped, st = dropped ++ norm st /\ forallb exhausted dropped = true.
Proof.
  induction st as [|f t IH]; [exists []; split; reflexivity|].
  destruct IH as [d [E1 E2]].
  assert (K : (exists dr, f :: t = dr ++ norm (f :: t) /\ forallb exhausted dr = true)).
  { destruct f; try (exists []; split; reflexivity).
    - destruct l; [|exists []; split; reflexivity]. exists (FInvList [] :: d). simpl. rewrite E2. split; [f_equal; exact E1 | reflexivity].
    - destruct froms; [|exists []; split; reflexivity]. exists (FRelDeps n [] :: d). simpl. rewrite E2. split; [f_equal; exact E1 | reflexivity].
    - destruct p; [|exists []; split; reflexivity]. exists (FScript r c [] :: d). simpl. rewrite E2. split; [f_equal; exact E1 | reflexivity]. }
  exact K.
Qed.

(** The step of a task, seen on the frame multiset: the task's top frame [f] and the rest of its stack
    [rest] are replaced by the new stack (normalised) and the spawned tasks' frames; everything else
    ([others]) is untouched. *)
Lemma step_task_frames : forall s tid arg s',
  step s (LTask tid arg) = Some s' ->
  exists f rest s1 st sp others dropped,
    Permutation (all_frames s) (f :: rest ++ others) /\
    step_top s f rest arg = Some (s1, st, sp) /\
    st = dropped ++ norm st /\ forallb exhausted dropped = true /\
    Permutation (all_frames s') (norm st ++ others ++ concat sp) /\
    s_nodes s' = s_nodes s1 /\ s_rrs s' = s_rrs s1 /\ s_slots s' = s_slots s1.
Proof.
  intros s tid arg s' H. unfold step in H.
  destruct (find_task (s_tasks s) tid) as [[|f rest]|] eqn:F; try discriminate.
  destruct (step_top s f rest arg) as [[[s1 st] sp]|] eqn:T; try discriminate.
  inversion H; subst s'; clear H.
  destruct (find_task_split _ _ _ F) as [pre [post [E1 E2]]].
  destruct (norm_split st) as [dropped [D1 D2]].
  exists f, rest, s1, st, sp, (concat (map snd pre) ++ concat (map snd post)), dropped.
  assert (TS : s_tasks s1 = s_tasks s).
  { clear - T. unfold step_top in T.
    assert (A1 : forall x g, s_tasks (with_nodes x g) = s_tasks x) by reflexivity.
    assert (A2 : forall x r y, s_tasks (with_rr x r y) = s_tasks x) by reflexivity.
    assert (A3 : forall x r y, s_tasks (with_slot x r y) = s_tasks x) by reflexivity.
    assert (A4 : forall x n y, s_tasks (upd_node x n y) = s_tasks x) by reflexivity.
    assert (A5 : forall x y, s_tasks (fst (alloc x y)) = s_tasks x) by reflexivity.
    assert (A6 : forall x n to y sp, do_add_out x n to = Some (y, sp) -> s_tasks y = s_tasks x).
    { intros x n to y sp0 HH. unfold do_add_out in HH.
      destruct (Nat.ltb n (length (s_nodes x)) && Nat.ltb to (length (s_nodes x)) && negb (Nat.eqb n to)); [|discriminate].
      destruct (g_add_out (s_nodes x) n to) as [g [[a b] c]]. inversion HH. reflexivity. }
    assert (A7 : forall x r stk b y st' sp', do_fail x r stk b = Some (y, st', sp') -> s_tasks y = s_tasks x).
    { intros x r stk b y st' sp' HH. unfold do_fail in HH. destruct (unwind r stk) as [[cs below]|]; [|discriminate].
      destruct b; inversion HH; reflexivity. }
    assert (A8 : forall x n k y st' sp', inv_step x n k = Some (y, st', sp') -> s_tasks y = s_tasks x).
    { intros x n k y st' sp' HH. unfold inv_step in HH.
      destruct (Nat.ltb n (length (s_nodes x))); [|discriminate].
      destruct (n_inv (getN x n)); [inversion HH; reflexivity|].
      destruct (n_hinv (getN x n)) as [r|]; [destruct (r_spawn (getr x r))|]; inversion HH; reflexivity. }
    destruct f;
      repeat match type of T with
      | inv_step _ _ _ = Some _ => apply A8 in T; exact T
      | Some _ = Some _ => inversion T; subst; clear T
      | None = Some _ => discriminate T
      | do_fail _ _ _ _ = Some _ => apply A7 in T; exact T
      | context [match ?x with _ => _ end] => destruct x eqn:?
      | context [if ?x then _ else _] => destruct x eqn:?
      end;
      try reflexivity;
      repeat match goal with
      | H : do_add_out _ _ _ = Some _ |- _ => apply A6 in H
      | H : alloc ?x ?y = (_, _) |- _ => let K := fresh in assert (K := A5 x y); rewrite H in K; simpl in K; clear H
      end; simpl in *; try congruence. }
  repeat split.
  - unfold all_frames. rewrite E1. rewrite map_app, concat_app. simpl.
    apply Permutation_sym. apply Permutation_cons_app.
    apply Permutation_app_swap_app.
  - exact T.
  - exact D1.
  - exact D2.
  - unfold all_frames, spawn. simpl. rewrite TS, E2.
    rewrite !map_app, !concat_app, frames_task_list, frames_number_from.
    rewrite <- !app_assoc. apply Permutation_app_swap_app.
Qed.

(** steps of the environment only add tasks *)
Lemma frames_spawn : forall s sp, all_frames (spawn s sp) = all_frames s ++ concat sp.
Proof.
  intros. unfold all_frames, spawn. simpl. rewrite map_app, concat_app, frames_number_from. reflexivity.
Qed.

(** reachability *)
Inductive reachable (s0 : state) : state -> Prop :=
| reach_init : reachable s0 s0
| reach_step : forall s l s', reachable s0 s -> step s l = Some s' -> reachable s0 s'.

Lemma run_reachable : forall ls s0 s s', reachable s0 s -> run s ls = Some s' -> reachable s0 s'.
Proof.
  induction ls as [|l t IH]; simpl; intros s0 s s' R H.
  - inversion H; subst. exact R.
  - destruct (step s l) eqn:E; [|discriminate]. eapply IH; [eapply reach_step; eauto | exact H].
Qed.

(** destruct every [match] / [if] of a hypothesis *)
Ltac dmatch H :=
  repeat match type of H with
  | Some _ = Some _ => inversion H; subst; clear H
  | None = Some _ => discriminate H
  | context [match ?x with _ => _ end] => destruct x eqn:?
  | context [if ?x then _ else _] => destruct x eqn:?
  end.
