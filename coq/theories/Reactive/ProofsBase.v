(** * Reactive/ProofsBase.v — lemmas shared by the invariant proofs: lists, node/rerunner updates,
    the frame multiset of a state before and after a step. *)
From Coq Require Import List Arith Bool Lia Permutation.
From Thunder Require Import Reactive.Graph Reactive.Rerunner.
Import ListNotations.

(** ** lists *)
Lemma memb_In : forall x l, memb x l = true <-> In x l.
Proof.
  intros x l. unfold memb. rewrite existsb_exists. split.
  - intros [y [Hy E]]. apply Nat.eqb_eq in E. subst. exact Hy.
  - intros H. exists x. split; [exact H | apply Nat.eqb_refl].
Qed.

Lemma In_remove1 : forall x y l, In y (remove1 x l) -> In y l.
Proof.
  induction l as [|h t IH]; simpl; intros H; [exact H|].
  destruct (Nat.eqb x h); [right; exact H|].
  destruct H as [H|H]; [left; exact H | right; apply IH; exact H].
Qed.

Lemma In_remove1_neq : forall x y l, In y l -> y <> x -> In y (remove1 x l).
Proof.
  induction l as [|h t IH]; simpl; intros H N; [exact H|].
  destruct (Nat.eqb x h) eqn:E.
  - apply Nat.eqb_eq in E. subst h. destruct H as [H|H]; [congruence | exact H].
  - destruct H as [H|H]; [left; exact H | right; apply IH; assumption].
Qed.

Lemma In_remove_all : forall x y l, In y (remove_all x l) <-> In y l /\ y <> x.
Proof.
  induction l as [|h t IH]; simpl; [tauto|].
  destruct (Nat.eqb x h) eqn:E.
  - apply Nat.eqb_eq in E. subst h. rewrite IH. split; [tauto|]. intros [[H|H] N]; [congruence | tauto].
  - apply Nat.eqb_neq in E. simpl. rewrite IH. split.
    + intros [H|[H N]]; [subst; split; [left; reflexivity | congruence] | tauto].
    + intros [[H|H] N]; tauto.
Qed.

Lemma In_add_set : forall x y l, In y (add_set x l) <-> In y l \/ y = x.
Proof.
  intros x y l. unfold add_set. destruct (memb x l) eqn:E.
  - apply memb_In in E. split; [tauto|]. intros [H|H]; [exact H | subst; exact E].
  - rewrite in_app_iff. simpl. split; [intros [H|[H|[]]]; [tauto | right; congruence] | intros [H|H]; [tauto | right; left; congruence]].
Qed.

Lemma is_nil_true : forall A (l : list A), is_nil l = true <-> l = [].
Proof. intros A [|h t]; simpl; split; congruence. Qed.

(** ** graph updates *)
Lemma length_setn : forall g i x, length (setn g i x) = length g.
Proof. induction g as [|h t IH]; intros [|i] x; simpl; auto. Qed.

Lemma getn_setn : forall g i j x,
  getn (setn g i x) j = if Nat.eqb i j && Nat.ltb i (length g) then x else getn g j.
Proof.
  unfold getn. induction g as [|h t IH]; intros i j x.
  - simpl. rewrite andb_false_r. reflexivity.
  - destruct i as [|i]; destruct j as [|j]; simpl; try reflexivity.
    rewrite IH. change (Nat.ltb (S i) (S (length t))) with (Nat.ltb i (length t)). reflexivity.
Qed.

Lemma getn_setn_eq : forall g i x, i < length g -> getn (setn g i x) i = x.
Proof.
  intros. rewrite getn_setn, Nat.eqb_refl. apply Nat.ltb_lt in H. rewrite H. reflexivity.
Qed.

Lemma getn_setn_neq : forall g i j x, i <> j -> getn (setn g i x) j = getn g j.
Proof.
  intros. rewrite getn_setn. apply Nat.eqb_neq in H. rewrite H. reflexivity.
Qed.

Lemma getn_out_of_range : forall g i, length g <= i -> getn g i = dnode.
Proof. intros. unfold getn. apply nth_overflow. exact H. Qed.

Lemma getn_app_new : forall g x j,
  getn (g ++ [x]) j = if Nat.eqb j (length g) then x else getn g j.
Proof.
  intros g x j. unfold getn. destruct (Nat.eqb j (length g)) eqn:E.
  - apply Nat.eqb_eq in E. subst. rewrite app_nth2, Nat.sub_diag; auto.
  - apply Nat.eqb_neq in E. destruct (Nat.lt_ge_cases j (length g)).
    + rewrite app_nth1; auto.
    + rewrite !nth_overflow; auto; rewrite ?app_length; simpl; lia.
Qed.

Lemma length_setl : forall A (l : list A) i x, length (setl l i x) = length l.
Proof. induction l as [|h t IH]; intros [|i] x; simpl; auto. Qed.

Lemma nth_setl : forall A (l : list A) i j x d,
  nth j (setl l i x) d = if Nat.eqb i j && Nat.ltb i (length l) then x else nth j l d.
Proof.
  induction l as [|h t IH]; intros i j x d.
  - simpl. rewrite andb_false_r. reflexivity.
  - destruct i as [|i]; destruct j as [|j]; simpl; try reflexivity.
    rewrite IH. change (Nat.ltb (S i) (S (length t))) with (Nat.ltb i (length t)). reflexivity.
Qed.

(** ** frames of a state *)
Definition all_frames (s : state) : list frame := concat (map snd (s_tasks s)).

Definition task_list (tid : nat) (st : list frame) : list (nat * list frame) :=
  match st with [] => [] | _ => [(tid, st)] end.

Lemma find_task_split : forall ts tid st,
  find_task ts tid = Some st ->
  exists pre post, ts = pre ++ (tid, st) :: post /\
    forall st', replace_task ts tid st' = pre ++ task_list tid st' ++ post.
Proof.
  induction ts as [|[i st0] t IH]; simpl; intros tid st H; [discriminate|].
  destruct (Nat.eqb i tid) eqn:E.
  - apply Nat.eqb_eq in E. subst i. inversion H; subst. exists [], t. split; [reflexivity|].
    intros st'. destruct st'; reflexivity.
  - destruct (IH _ _ H) as [pre [post [E1 E2]]]. exists ((i, st0) :: pre), post. split.
    + simpl. rewrite E1. reflexivity.
    + intros st'. simpl. rewrite E2. reflexivity.
Qed.

Lemma frames_number_from : forall sp k, concat (map snd (number_from k sp)) = concat sp.
Proof. induction sp as [|h t IH]; intros k; simpl; [reflexivity | rewrite IH; reflexivity]. Qed.

Lemma frames_task_list : forall tid st, concat (map snd (task_list tid st)) = st.
Proof. intros tid [|f t]; simpl; [reflexivity | rewrite app_nil_r; reflexivity]. Qed.

(* norm drops a prefix of exhausted frames *)
Definition exhausted (f : frame) : bool :=
  match f with
  | FInvList [] => true
  | FRelDeps _ [] => true
  | FScript _ _ [] => true
  | _ => false
  end.

Lemma norm_split : forall st, exists dropped, st = dropped ++ norm st /\ forallb exhausted dropped = true.
Proof.
  induction st as [|f t IH]; [exists []; split; reflexivity|].
  destruct IH as [d [E1 E2]].
  assert (K : (exists dr, f :: t = dr ++ norm (f :: t) /\ forallb exhausted dr = true)).
  { destruct f; try (exists []; split; reflexivity).
    - destruct l; [|exists []; split; reflexivity]. exists (FInvList [] :: d). simpl. rewrite E2. split; [f_equal; exact E1 | reflexivity].
    - destruct froms; [|exists []; split; reflexivity]. exists (FRelDeps n [] :: d). simpl. rewrite E2. split; [f_equal; exact E1 | reflexivity].
    - destruct p; [|exists []; split; reflexivity]. exists (FScript r c [] :: d). simpl. rewrite E2. split; [f_equal; exact E1 | reflexivity]. }
  exact K.
Qed.

(** The step of a task, seen on the frame multiset: the task's top frame [f] and the rest of its stack
    [rest] are replaced by the new stack (normalised) and the spawned tasks' frames; everything else
    ([others]) is untouched. *)
Lemma step_task_frames : forall s tid arg s',
  step s (LTask tid arg) = Some s' ->
  exists f rest s1 st sp others dropped,
    Permutation (all_frames s) (f :: rest ++ others) /\
    step_top s f rest arg = Some (s1, st, sp) /\
    st = dropped ++ norm st /\ forallb exhausted dropped = true /\
    Permutation (all_frames s') (norm st ++ others ++ concat sp) /\
    s_nodes s' = s_nodes s1 /\ s_rrs s' = s_rrs s1 /\ s_slots s' = s_slots s1 /\ s_joins s' = s_joins s1.
Proof.
  intros s tid arg s' H. unfold step in H.
  destruct (find_task (s_tasks s) tid) as [[|f rest]|] eqn:F; try discriminate.
  destruct (step_top s f rest arg) as [[[s1 st] sp]|] eqn:T; try discriminate.
  inversion H; subst s'; clear H.
  destruct (find_task_split _ _ _ F) as [pre [post [E1 E2]]].
  destruct (norm_split st) as [dropped [D1 D2]].
  exists f, rest, s1, st, sp, (concat (map snd pre) ++ concat (map snd post)), dropped.
  assert (TS : s_tasks s1 = s_tasks s).
  { clear - T. unfold step_top in T.
    assert (A1 : forall x g, s_tasks (with_nodes x g) = s_tasks x) by reflexivity.
    assert (A2 : forall x r y, s_tasks (with_rr x r y) = s_tasks x) by reflexivity.
    assert (A3 : forall x r y, s_tasks (with_slot x r y) = s_tasks x) by reflexivity.
    assert (A4 : forall x n y, s_tasks (upd_node x n y) = s_tasks x) by reflexivity.
    assert (A5 : forall x y, s_tasks (fst (alloc x y)) = s_tasks x) by reflexivity.
    assert (A6 : forall x n to y sp, do_add_out x n to = Some (y, sp) -> s_tasks y = s_tasks x).
    { intros x n to y sp0 HH. unfold do_add_out in HH.
      destruct (Nat.ltb n (length (s_nodes x)) && Nat.ltb to (length (s_nodes x)) && negb (Nat.eqb n to)); [|discriminate].
      destruct (g_add_out (s_nodes x) n to) as [g [[a b] c]]. inversion HH. reflexivity. }
    assert (A7 : forall x r stk b y st' sp', do_fail x r stk b = Some (y, st', sp') -> s_tasks y = s_tasks x).
    { intros x r stk b y st' sp' HH. unfold do_fail in HH. destruct (unwind r stk) as [[[[cs ks] below] [jid|]]|]; [| |discriminate].
      - inversion HH; reflexivity.
      - destruct b; inversion HH; reflexivity. }
    assert (A8 : forall x n k y st' sp', inv_step x n k = Some (y, st', sp') -> s_tasks y = s_tasks x).
    { intros x n k y st' sp' HH. unfold inv_step in HH.
      destruct (Nat.ltb n (length (s_nodes x))); [|discriminate].
      destruct (n_inv (getN x n)); [inversion HH; reflexivity|].
      destruct (n_hinv (getN x n)) as [r|]; [destruct (r_spawn (getr x r))|]; inversion HH; reflexivity. }
    destruct f;
      repeat match type of T with
      | inv_step _ _ _ = Some _ => apply A8 in T; exact T
      | Some _ = Some _ => inversion T; subst; clear T
      | None = Some _ => discriminate T
      | do_fail _ _ _ _ = Some _ => apply A7 in T; exact T
      | context [match ?x with _ => _ end] => destruct x eqn:?
      | context [if ?x then _ else _] => destruct x eqn:?
      end;
      try reflexivity;
      repeat match goal with
      | H : do_add_out _ _ _ = Some _ |- _ => apply A6 in H
      | H : alloc ?x ?y = (_, _) |- _ => let K := fresh in assert (K := A5 x y); rewrite H in K; simpl in K; clear H
      end; simpl in *; try congruence. }
  repeat split.
  - unfold all_frames. rewrite E1. rewrite map_app, concat_app. simpl.
    apply Permutation_sym. apply Permutation_cons_app.
    apply Permutation_app_swap_app.
  - exact T.
  - exact D1.
  - exact D2.
  - unfold all_frames, spawn. simpl. rewrite TS, E2.
    rewrite !map_app, !concat_app, frames_task_list, frames_number_from.
    rewrite <- !app_assoc. apply Permutation_app_swap_app.
Qed.

(** steps of the environment only add tasks *)
Lemma frames_spawn : forall s sp, all_frames (spawn s sp) = all_frames s ++ concat sp.
Proof.
  intros. unfold all_frames, spawn. simpl. rewrite map_app, concat_app, frames_number_from. reflexivity.
Qed.

(** ** counting frames *)
Fixpoint count (p : frame -> bool) (fr : list frame) : nat :=
  match fr with
  | [] => 0
  | f :: t => (if p f then 1 else 0) + count p t
  end.

Lemma count_app : forall p a b, count p (a ++ b) = count p a + count p b.
Proof. induction a as [|h t IH]; intros b; simpl; [reflexivity | rewrite IH; lia]. Qed.

Lemma count_perm : forall p a b, Permutation a b -> count p a = count p b.
Proof. intros p a b P. induction P; simpl; lia. Qed.

Lemma count_zero_forall : forall p q d, (forall f, q f = true -> p f = false) -> forallb q d = true -> count p d = 0.
Proof.
  intros p q d Hp. induction d as [|h t IH]; simpl; intros H; [reflexivity|].
  apply andb_true_iff in H. destruct H as [H1 H2]. rewrite (Hp _ H1), (IH H2). reflexivity.
Qed.

Lemma branch_tasks_count : forall p jid r c bs i,
  (forall a b, p (FBranchBegin a b) = false) -> (forall a b d, p (FScript a b d) = false) -> (forall a, p (FBranchEnd a) = false) ->
  count p (concat (branch_tasks jid r c bs i)) = 0.
Proof.
  intros p jid r c bs. induction bs as [|b t IH]; intros i P1 P2 P3; simpl; [reflexivity|].
  rewrite P1, P2, P3, IH by assumption. reflexivity.
Qed.

Lemma branch_tasks_in : forall jid r c bs i t, In t (branch_tasks jid r c bs i) ->
  exists idx b, In b bs /\ t = [FBranchBegin jid idx; FScript r c b; FBranchEnd jid].
Proof.
  intros jid r c bs. induction bs as [|b t IH]; intros i x Hx; simpl in Hx; [contradiction|].
  destruct Hx as [<-|Hx]; [exists i, b; split; [left; reflexivity | reflexivity]|].
  destruct (IH _ _ Hx) as [idx [b' [H1 H2]]]. exists idx, b'. split; [right; exact H1 | exact H2].
Qed.

(** ** the error return: what [unwind] pops *)
Definition unw_kind (f : frame) : bool :=
  match f with FScript _ _ _ | FCacheSet _ _ _ _ | FKeyUnlock _ _ => true | _ => false end.

Definition unw_last (r : nat) (term : option nat) (f : frame) : Prop :=
  match term with
  | None => exists c, f = FRunEnd r c
  | Some jid => f = FBranchEnd jid
  end.

Lemma unwind_split : forall r stk cs ks below term,
  unwind r stk = Some (cs, ks, below, term) ->
  exists dropped last, stk = dropped ++ last :: below /\ forallb unw_kind dropped = true /\ unw_last r term last /\
    (forall c, In c cs -> (exists a k p, In (FCacheSet a k c p) dropped) \/ last = FRunEnd r c).
Proof.
  induction stk as [|h t IH]; simpl; intros cs ks below term H; [discriminate|].
  destruct h; try discriminate.
  - destruct (Nat.eqb r r0); [|discriminate]. destruct (IH _ _ _ _ H) as [d [l [E [F [L C]]]]].
    exists (FScript r0 c p :: d), l. split; [simpl; rewrite E; reflexivity|]. split; [simpl; exact F|]. split; [exact L|].
    intros c' Hc. destruct (C c' Hc) as [[a [k [q Q]]]|Q]; [left; exists a, k, q; right; exact Q | right; exact Q].
  - destruct (Nat.eqb r r0); [|discriminate]. destruct (unwind r t) as [[[[cs' ks'] b'] t']|] eqn:U; [|discriminate].
    inversion H; subst. destruct (IH _ _ _ _ eq_refl) as [d [l [E [F [L C]]]]].
    exists (FCacheSet r0 key child parent :: d), l. split; [simpl; rewrite E; reflexivity|]. split; [simpl; exact F|]. split; [exact L|].
    intros c' [<-|Hc]; [left; exists r0, key, parent; left; reflexivity|].
    destruct (C c' Hc) as [[a [k [q Q]]]|Q]; [left; exists a, k, q; right; exact Q | right; exact Q].
  - destruct (Nat.eqb r r0); [|discriminate]. destruct (unwind r t) as [[[[cs' ks'] b'] t']|] eqn:U; [|discriminate].
    inversion H; subst. destruct (IH _ _ _ _ eq_refl) as [d [l [E [F [L C]]]]].
    exists (FKeyUnlock r0 key :: d), l. split; [simpl; rewrite E; reflexivity|]. split; [simpl; exact F|]. split; [exact L|].
    intros c' Hc. destruct (C c' Hc) as [[a [k [q Q]]]|Q]; [left; exists a, k, q; right; exact Q | right; exact Q].
  - inversion H; subst. exists [], (FBranchEnd jid). split; [reflexivity|]. split; [reflexivity|]. split; [reflexivity|]. intros c [].
  - destruct (Nat.eqb r r0) eqn:E; [|discriminate]. apply Nat.eqb_eq in E. subst r0. inversion H; subst.
    exists [], (FRunEnd r c). split; [reflexivity|]. split; [reflexivity|]. split; [exists c; reflexivity|].
    intros c' [<-|[]]. right. reflexivity.
Qed.

(** the state after the error return *)
Lemma do_fail_spec : forall s r stk retry s1 st sp,
  do_fail s r stk retry = Some (s1, st, sp) ->
  exists cs ks below term y,
    unwind r stk = Some (cs, ks, below, term) /\
    s_nodes s1 = s_nodes s /\ s_slots s1 = s_slots s /\ s_rrs s1 = setl (s_rrs s) r y /\
    r_mu y = r_mu (getr s r) /\ r_comp y = r_comp (getr s r) /\ r_stop y = r_stop (getr s r) /\
    r_cancel y = r_cancel (getr s r) /\ r_prog y = r_prog (getr s r) /\ r_clock y = r_clock (getr s r) /\
    r_out y = r_out (getr s r) /\ r_keys y = remove_keys ks (r_keys (getr s r)) /\
    match term with
    | None => st = FUnlock r :: below /\ s_joins s1 = s_joins s /\
              ((retry = true /\ sp = map (fun c => [FRelEnter c]) cs ++ [[FRunWait r]] /\ r_cache y = [] /\ r_failed y = r_failed (getr s r)) \/
               (retry = false /\ sp = map (fun c => [FRelEnter c]) cs /\ r_cache y = r_cache (getr s r) /\ r_failed y = true))
    | Some jid => st = FBranchEnd jid :: below /\ sp = map (fun c => [FRelEnter c]) cs /\
                  r_cache y = r_cache (getr s r) /\ r_failed y = r_failed (getr s r) /\
                  s_joins s1 = set_join_failed (s_joins s) jid
    end.
Proof.
  intros s r stk retry s1 st sp H. unfold do_fail in H.
  destruct (unwind r stk) as [[[[cs ks] below] term]|] eqn:U; [|discriminate].
  exists cs, ks, below, term.
  destruct term as [jid|].
  - inversion H; subst; clear H. eexists. split; [reflexivity|]. simpl. repeat split; reflexivity.
  - destruct retry; inversion H; subst; clear H; eexists; (split; [reflexivity|]); simpl; repeat split; try reflexivity;
      [left | right]; repeat split; reflexivity.
Qed.

(** reachability *)
Inductive reachable (s0 : state) : state -> Prop :=
| reach_init : reachable s0 s0
| reach_step : forall s l s', reachable s0 s -> step s l = Some s' -> reachable s0 s'.

Lemma run_reachable : forall ls s0 s s', reachable s0 s -> run s ls = Some s' -> reachable s0 s'.
Proof.
  induction ls as [|l t IH]; simpl; intros s0 s s' R H.
  - inversion H; subst. exact R.
  - destruct (step s l) eqn:E; [|discriminate]. eapply IH; [eapply reach_step; eauto | exact H].
Qed.

(** destruct every [match] / [if] of a hypothesis *)
Ltac dmatch H :=
  repeat match type of H with
  | Some _ = Some _ => inversion H; subst; clear H
  | None = Some _ => discriminate H
  | context [match ?x with _ => _ end] => destruct x eqn:?
  | context [if ?x then _ else _] => destruct x eqn:?
  end.
