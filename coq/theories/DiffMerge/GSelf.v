(** VDiff of a well-formed value with itself is empty. *)
From Coq Require Import List ZArith String Bool Arith Lia.
From Thunder Require Import Lib.Json DiffMerge.Model DiffMerge.ProofsBase DiffMerge.ProofsUnfold DiffMerge.ProofsArray DiffMerge.ProofsSelf
     DiffMerge.GModel DiffMerge.GBase DiffMerge.GUnfold DiffMerge.GDiff DiffMerge.GArray.
Import ListNotations.
Open Scope string_scope.
Open Scope list_scope.

Section S.
Context {A : Type} {O : atom_ops A} (L : atom_laws O) (strict : bool).
Hypothesis Hguide : @guide A O = None.
Notation val := (val A).
Notation wfs := (vwf_gen strict).


Lemma vreorder_self (l : list val) : forall s, vreorder_go (index_from s (map vreorder_key l)) l = map Some (seq s (List.length l)).
Proof.
  induction l as [|x t IH]; intros s; [reflexivity|].
  cbn [map index_from vreorder_go vtake_first List.length seq]. rewrite (veqb_refl L). rewrite IH. reflexivity.
Qed.


Lemma vdiff_elems_self o : forall t pre,
  o = pre ++ t ->
  (forall v, In v t -> vdiff v v = None) ->
  vdiff_elems o (List.length pre) (varr_subs t) (map Some (seq (List.length pre) (List.length t))) = [].
Proof.
  induction t as [|v t' IH]; intros pre Ho Hs; [reflexivity|].
  cbn [List.length seq map]. rewrite vdiff_elems_cons. cbn [voldI].
  assert (Hn : nth (List.length pre) o VNull = v).
  { subst o. rewrite app_nth2 by lia. rewrite Nat.sub_diag. reflexivity. }
  rewrite Hn, (Hs v (or_introl eq_refl)). cbn [vopt_entry app].
  specialize (IH (pre ++ [v])). rewrite app_length in IH. cbn [List.length] in IH.
  rewrite Nat.add_1_r in IH. apply IH.
  - subst o. rewrite <- app_assoc. reflexivity.
  - intros v' Hv'. apply Hs. right. exact Hv'.
Qed.

Theorem vdiff_self_all : forall v, wfs v = true -> vdiff v v = None.
Proof.
  induction v as [| a | l IH | l IH] using val_ind'; intros Hw.
  1-2: cbn [vdiff]; rewrite (veqb_refl L); reflexivity.
  - rewrite vdiff_arr. unfold vdiff_array, vchoose. rewrite Hguide. unfold vcompute_reorder_indices.
    rewrite (vreorder_self l 0), map_length, seq_length, Nat.eqb_refl, identity_is_identity.
    cbn [negb orb app].
    pose proof (vdiff_elems_self l l [] eq_refl) as He. cbn [List.length] in He.
    rewrite He; [reflexivity|].
    intros v Hv. rewrite Forall_forall in IH. apply IH; [exact Hv|].
    apply vwf_arr_inv in Hw. rewrite Forall_forall in Hw. apply Hw. exact Hv.
  - rewrite vdiff_obj, vdiff_map_eq, (veqb_refl L). cbn [negb].
    destruct (vwf_obj_inv strict l Hw) as [Hnd [_ Hwf]].
    assert (R : vremoved_entries l l = []).
    { unfold vremoved_entries. apply flat_map_nil. intros [k v] Hin. cbn [fst].
      rewrite (proj2 (has_key_true k l)); [rewrite orb_true_r; reflexivity|]. exists v. apply in_nodup_lookup; assumption. }
    assert (Cn : vchanged_entries l (vobj_subs l) = []).
    { unfold vchanged_entries. apply flat_map_nil. intros [k [v dv]] Hin.
      unfold vobj_subs in Hin. apply in_map_iff in Hin as [[k' v'] [E Hin]]. cbn [fst snd] in E. inversion E; subst.
      destruct (skipped k); [reflexivity|].
      rewrite (in_nodup_lookup k v l Hnd Hin).
      rewrite Forall_forall in IH. pose proof (IH (k, v) Hin) as Hd. cbn [snd] in Hd.
      rewrite Hd; [reflexivity|].
      apply (Hwf k). apply in_nodup_lookup; assumption. }
    rewrite R, Cn. reflexivity.
Qed.
End S.
