(** Unfolding equations for the nested fixpoints of the model, and well-formedness facts. *)
From Coq Require Import List ZArith String Bool Arith Lia.
From Thunder Require Import Lib.Json DiffMerge.Model DiffMerge.ProofsBase.
Import ListNotations.
Open Scope string_scope.
Open Scope list_scope.

Fixpoint strip_fields (l : list (string * json)) : list (string * json) :=
  match l with
  | [] => []
  | (k, v) :: t => if String.eqb k key_name then strip_fields t else (k, strip v) :: strip_fields t
  end.

Lemma strip_obj l : strip (JObj l) = JObj (strip_fields l).
Proof. reflexivity. Qed.

Lemma strip_arr l : strip (JArr l) = JArr (map strip l).
Proof. reflexivity. Qed.

Lemma strip_scalar j : is_scalar j = true -> strip j = j.
Proof. destruct j; simpl; try discriminate; auto. Qed.

Definition obj_subs (n : list (string * json)) : list (string * (json * (json -> option json))) :=
  map (fun kv => (fst kv, (snd kv, diff (snd kv)))) n.

Definition arr_subs (n : list json) : list (json * (json -> option json)) :=
  map (fun v => (v, diff v)) n.

Lemma diff_obj n old :
  diff (JObj n) old =
  match old with
  | JObj o => diff_map o n (obj_subs n)
  | _ => Some (mark_replaced (JObj n))
  end.
Proof.
  cbn [diff].
  assert (E : (fix go (l : list (string * json)) :=
                 match l with
                 | [] => []
                 | (k, v) :: t => (k, (v, diff v)) :: go t
                 end) n = obj_subs n).
  { induction n as [|[k v] t IH]; [reflexivity|]. cbn [obj_subs map fst snd]. rewrite IH. reflexivity. }
  rewrite E. reflexivity.
Qed.

Lemma diff_arr n old :
  diff (JArr n) old =
  match old with
  | JArr o => diff_array o n (arr_subs n)
  | _ => Some (mark_replaced (JArr n))
  end.
Proof.
  cbn [diff].
  assert (E : (fix go (l : list json) :=
                 match l with
                 | [] => []
                 | v :: t => (v, diff v) :: go t
                 end) n = arr_subs n).
  { induction n as [|v t IH]; [reflexivity|]. cbn [arr_subs map]. rewrite IH. reflexivity. }
  rewrite E. reflexivity.
Qed.

Definition merge_apps (entries : list (string * json)) : apps_t :=
  map (fun kv => (fst kv, (snd kv, merge (snd kv)))) entries.

Lemma merge_obj entries prev :
  merge (JObj entries) prev =
  match prev with
  | JObj p => merge_map p (merge_apps entries)
  | JArr p => merge_array p (merge_apps entries)
  | _ => Some JNull
  end.
Proof.
  cbn [merge].
  assert (E : (fix go (l : list (string * json)) : apps_t :=
                 match l with
                 | [] => []
                 | (k, dv) :: t => (k, (dv, merge dv)) :: go t
                 end) entries = merge_apps entries).
  { induction entries as [|[k v] t IH]; [reflexivity|]. cbn [merge_apps map fst snd]. rewrite IH. reflexivity. }
  rewrite E. reflexivity.
Qed.

Definition js_apps (entries : list (string * json)) : japps_t :=
  map (fun kv => (fst kv, (snd kv, merge_js (snd kv)))) entries.

Lemma merge_js_obj entries orig :
  merge_js (JObj entries) orig =
  match orig with
  | JArr p => js_array p (js_apps entries)
  | JObj p => js_object p (js_apps entries)
  | _ => js_object [] (js_apps entries)
  end.
Proof.
  cbn [merge_js].
  assert (E : (fix go (l : list (string * json)) : japps_t :=
                 match l with
                 | [] => []
                 | (k, dv) :: t => (k, (dv, merge_js dv)) :: go t
                 end) entries = js_apps entries).
  { induction entries as [|[k v] t IH]; [reflexivity|]. cbn [js_apps map fst snd]. rewrite IH. reflexivity. }
  rewrite E. reflexivity.
Qed.

Lemma lookup_map_snd {A B} (g : A -> B) k (l : list (string * A)) :
  lookup k (map (fun kv => (fst kv, g (snd kv))) l) = option_map g (lookup k l).
Proof.
  induction l as [|[k' v] t IH]; [reflexivity|]. cbn [map fst snd lookup].
  destruct (String.eqb k k'); [reflexivity | exact IH].
Qed.

Lemma lookup_merge_apps k d : lookup k (merge_apps d) = option_map (fun dv => (dv, merge dv)) (lookup k d).
Proof. unfold merge_apps. apply (lookup_map_snd (fun dv => (dv, merge dv))). Qed.

Lemma lookup_js_apps k d : lookup k (js_apps d) = option_map (fun dv => (dv, merge_js dv)) (lookup k d).
Proof. unfold js_apps. apply (lookup_map_snd (fun dv => (dv, merge_js dv))). Qed.

(** * well-formedness *)
Fixpoint wf_fields (l : list (string * json)) : bool :=
  match l with [] => true | (_, v) :: t => wf v && wf_fields t end.

Lemma wf_obj l :
  wf (JObj l) = nodup_keys (map fst l)
                && (match lookup key_name l with Some k => is_scalar k | None => true end)
                && wf_fields l.
Proof.
  reflexivity.
Qed.

Lemma wf_fields_lookup l k v : wf_fields l = true -> lookup k l = Some v -> wf v = true.
Proof.
  induction l as [|[k' v'] t IH]; cbn [wf_fields lookup]; [discriminate|].
  intros H. apply andb_prop in H as [H1 H2].
  destruct (String.eqb k k'); [intros [= <-]; exact H1 | auto].
Qed.

Lemma wf_obj_inv l :
  wf (JObj l) = true ->
  NoDup (map fst l) /\ (forall kv, lookup key_name l = Some kv -> is_scalar kv = true)
  /\ (forall k v, lookup k l = Some v -> wf v = true).
Proof.
  rewrite wf_obj. intros H. apply andb_prop in H as [H H3]. apply andb_prop in H as [H1 H2].
  split; [apply nodup_keys_spec; exact H1|]. split.
  - intros kv Hk. rewrite Hk in H2. exact H2.
  - intros k v. apply wf_fields_lookup. exact H3.
Qed.

Lemma wf_arr_inv l : wf (JArr l) = true -> Forall (fun v => wf v = true) l.
Proof. cbn [wf]. intros H. apply Forall_forall. apply forallb_forall. exact H. Qed.

Lemma lookup_strip_fields k l :
  lookup k (strip_fields l) = if String.eqb k key_name then None else option_map strip (lookup k l).
Proof.
  induction l as [|[k' v] t IH]; cbn [strip_fields lookup].
  - destruct (String.eqb k key_name); reflexivity.
  - destruct (String.eqb k' key_name) eqn:E1.
    + apply String.eqb_eq in E1. subst k'. rewrite IH.
      destruct (String.eqb k key_name); reflexivity.
    + cbn [lookup]. destruct (String.eqb k k') eqn:E2.
      * apply String.eqb_eq in E2. subst k'. rewrite E1. reflexivity.
      * exact IH.
Qed.

Lemma strip_fields_keys_incl l k : In k (map fst (strip_fields l)) -> In k (map fst l).
Proof.
  induction l as [|[k' v] t IH]; cbn [strip_fields]; auto.
  destruct (String.eqb k' key_name); cbn [map fst]; intros H.
  - right. auto.
  - destruct H; [left; auto | right; auto].
Qed.

Lemma strip_fields_nodup l : NoDup (map fst l) -> NoDup (map fst (strip_fields l)).
Proof.
  induction l as [|[k v] t IH]; cbn [strip_fields map fst]; intros H; [constructor|].
  inversion H; subst. destruct (String.eqb k key_name); auto.
  cbn [map fst]. constructor; auto. intros Hin. apply strip_fields_keys_incl in Hin. contradiction.
Qed.
