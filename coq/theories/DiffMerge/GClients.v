(** The two clients on ALL well-formed deltas (not only those Diff produces).

    [vdwf d p]: d is a delta a correct server could send to a client that holds p:
      - a replacement: a pass-through scalar, or a non-empty array (its first element is the new value);
      - for an object p: an object with distinct field names; an entry [[]] removes a field p has; an entry
        for another field of p is a well-formed delta for that field's value; an entry for a field p lacks is a
        replacement;
      - for a list p: an object with distinct names; "$" (optional) is a list merge.go expands without error
        whose indices are -1 or positions of p; every other name is the canonical decimal of a position of the
        reordered list and its entry is a well-formed delta (not [[]]) for the element there;
      - nothing else (null, [[]], an object delta for a scalar or null).
    On such deltas merge.Merge succeeds and merge.ts computes the same value.  Outside, the clients differ:
    see the examples in Props/C03.v. *)
From Coq Require Import List ZArith String Bool Arith Lia.
From Thunder Require Import Lib.Json DiffMerge.Model DiffMerge.ProofsBase DiffMerge.ProofsUnfold DiffMerge.ProofsJS
     DiffMerge.GModel DiffMerge.GBase DiffMerge.GUnfold DiffMerge.GDiff DiffMerge.GMergeGo DiffMerge.GJS.
Import ListNotations.
Open Scope string_scope.
Open Scope list_scope.

Section S.
Context {A : Type} {O : atom_ops A}.
Notation val := (val A).

Definition vis_repl (d : val) : bool :=
  match d with VAtom a => raw a | VArr (_ :: _) => true | _ => false end.

Definition find_index (len : nat) (k : string) : option nat :=
  find (fun i => String.eqb (dec i) k) (seq 0 len).

Definition dsubs_t := list (string * (val * (val -> bool))).

Definition vbase (p : list val) (dollar_entry : option val) : option (list val) :=
  match dollar_entry with
  | Some (VArr c) => match vuncompress c with Some idx => vreorder p idx | None => None end
  | Some _ => None
  | None => Some p
  end.

Definition dwf_obj_entry (pl : list (string * val)) (e : string * (val * (val -> bool))) : bool :=
  match e with
  | (k, (dv, f)) =>
      if vis_removed dv then has_key k pl
      else match lookup k pl with Some v => f v | None => vis_repl dv end
  end.

Definition dwf_arr_entry (b : list val) (e : string * (val * (val -> bool))) : bool :=
  match e with
  | (k, (dv, f)) =>
      String.eqb k dollar
      || (negb (vis_removed dv)
          && match find_index (List.length b) k with Some i => f (nth i b VNull) | None => false end)
  end.

Fixpoint vdwf (d : val) {struct d} : val -> bool :=
  match d with
  | VObj es =>
      let subs := (fix go (l : list (string * val)) : dsubs_t :=
                     match l with
                     | [] => []
                     | (k, dv) :: t => (k, (dv, vdwf dv)) :: go t
                     end) es in
      fun p => match p with
               | VObj pl => nodup_keys (map fst es) && forallb (dwf_obj_entry pl) subs
               | VArr pl =>
                   nodup_keys (map fst es)
                   && match vbase pl (lookup dollar es) with
                      | Some b => forallb (dwf_arr_entry b) subs
                      | None => false
                      end
               | _ => false
               end
  | _ => fun _ => vis_repl d
  end.

Definition vdwf_subs (es : list (string * val)) : dsubs_t :=
  map (fun kv => (fst kv, (snd kv, vdwf (snd kv)))) es.

Lemma vdwf_obj es p :
  vdwf (VObj es) p =
  match p with
  | VObj pl => nodup_keys (map fst es) && forallb (dwf_obj_entry pl) (vdwf_subs es)
  | VArr pl =>
      nodup_keys (map fst es)
      && match vbase pl (lookup dollar es) with
         | Some b => forallb (dwf_arr_entry b) (vdwf_subs es)
         | None => false
         end
  | _ => false
  end.
Proof.
  cbn [vdwf].
  assert (E : (fix go (l : list (string * val)) : dsubs_t :=
                 match l with
                 | [] => []
                 | (k, dv) :: t => (k, (dv, vdwf dv)) :: go t
                 end) es = vdwf_subs es).
  { induction es as [|[k v] t IH]; [reflexivity|]. cbn [vdwf_subs map fst snd]. rewrite IH. reflexivity. }
  rewrite E. reflexivity.
Qed.

(** object keys unique, at every level *)
Fixpoint vkeys_ok (j : val) : bool :=
  match j with
  | VArr l => forallb vkeys_ok l
  | VObj l => nodup_keys (map fst l)
              && (fix go (l : list (string * val)) := match l with [] => true | (_, v) :: t => vkeys_ok v && go t end) l
  | _ => true
  end.

Fixpoint vkeys_ok_fields (l : list (string * val)) : bool :=
  match l with [] => true | (_, v) :: t => vkeys_ok v && vkeys_ok_fields t end.

Lemma vkeys_ok_obj l : vkeys_ok (VObj l) = nodup_keys (map fst l) && vkeys_ok_fields l.
Proof. reflexivity. Qed.

Lemma vkeys_ok_lookup l k v : vkeys_ok_fields l = true -> lookup k l = Some v -> vkeys_ok v = true.
Proof.
  induction l as [|[k' v'] t IH]; cbn [vkeys_ok_fields lookup]; [discriminate|].
  intros H. apply andb_prop in H as [H1 H2].
  destruct (String.eqb k k'); [intros [= <-]; exact H1 | auto].
Qed.

Lemma vkeys_ok_nth (l : list val) i : forallb vkeys_ok l = true -> vkeys_ok (nth i l VNull) = true.
Proof.
  revert i. induction l as [|a t IH]; intros i H; [destruct i; reflexivity|].
  cbn [forallb] in H. apply andb_prop in H as [H1 H2]. destruct i; cbn [nth]; auto.
Qed.

Lemma find_index_some len k i : find_index len k = Some i -> k = dec i /\ i < len.
Proof.
  unfold find_index. intros H. apply find_some in H as [H1 H2]. apply String.eqb_eq in H2. apply in_seq in H1.
  split; [symmetry; exact H2 | lia].
Qed.

Lemma find_index_dec len i : i < len -> find_index len (dec i) = Some i.
Proof.
  unfold find_index. intros Hi.
  assert (G : forall s n, s <= i < s + n -> find (fun j => String.eqb (dec j) (dec i)) (seq s n) = Some i).
  { intros s n. revert s. induction n as [|n IH]; intros s Hs; [lia|]. cbn [seq find].
    rewrite dec_eqb. destruct (Nat.eqb_spec s i) as [->|Hne]; [reflexivity|]. apply IH. lia. }
  apply G. lia.
Qed.
End S.

Section P.
Context {A : Type} {O : atom_ops A} (L : atom_laws O).
Notation val := (val A).

Lemma vis_repl_merge (d : val) : vis_repl d = true -> exists x, vmerge_replaced d = Some x /\ forall p, vmerge d p = Some x /\ vmerge_js d p = x.
Proof.
  destruct d as [| a | [|x t] | l]; cbn [vis_repl]; try discriminate; intros H.
  - exists (VAtom a). cbn [vmerge_replaced vmerge vmerge_js]. rewrite H. auto.
  - exists x. cbn. auto.
Qed.

(** merge.ts expands a reorder list that merge.go accepts to the same elements. *)
Lemma vjs_reorder_run_ok (p : list val) : forall zs r rest b,
  sequence (map idx_of_z zs) = Some r -> vreorder p (r ++ rest) = Some b ->
  exists b2, vreorder p rest = Some b2 /\ b = map (vjs_index p) zs ++ b2.
Proof.
  induction zs as [|z t IH]; intros r rest b Hs Hr.
  - cbn in Hs. inversion Hs; subst. exists b. auto.
  - cbn [map sequence] in Hs. destruct (idx_of_z z) as [i|] eqn:Ez; [|discriminate].
    destruct (sequence (map idx_of_z t)) as [r'|] eqn:Et; [|discriminate]. inversion Hs; subst r.
    cbn [app vreorder] in Hr. destruct (vreorder p (r' ++ rest)) as [b'|] eqn:Er; [|discriminate].
    destruct (IH r' rest b' eq_refl Er) as [b2 [H2 ->]]. exists b2. split; [exact H2|].
    cbn [map app]. unfold idx_of_z in Ez. unfold vjs_index.
    destruct (Z.eqb z (-1)) eqn:Em.
    + inversion Ez; subst i. inversion Hr; subst b. apply Z.eqb_eq in Em. subst z. reflexivity.
    + destruct (z_index z) as [n|]; [|discriminate]. cbn [option_map] in Ez. inversion Ez; subst i.
      destruct (nth_opt n p) as [x|] eqn:En; [|discriminate]. inversion Hr; subst b. f_equal.
      clear -En. revert n En. induction p as [|a q IHp]; intros n En; destruct n; cbn in *; try discriminate; [congruence | auto].
Qed.

Lemma vjs_reorder_ok (p : list val) : forall c idx b,
  vuncompress c = Some idx -> vreorder p idx = Some b -> vjs_reorder p c = b.
Proof.
  induction c as [|x t IH]; intros idx b Hu Hr.
  - cbn in Hu. inversion Hu; subst. cbn in Hr. inversion Hr. reflexivity.
  - cbn [vuncompress] in Hu. destruct (vuncompress t) as [rest|] eqn:Et; [|discriminate].
    destruct x as [| a | l | l]; try discriminate.
    + destruct (as_num a) as [z|] eqn:Ea; [|discriminate]. destruct (idx_of_z z) as [i|] eqn:Ez; [|discriminate].
      inversion Hu; subst idx.
      destruct (vjs_reorder_run_ok p [z] [i] rest b) as [b2 [H2 ->]].
      { cbn. rewrite Ez. reflexivity. } { exact Hr. }
      cbn [vjs_reorder]. rewrite Ea, (IH rest b2 eq_refl H2). cbn [map app].
      unfold idx_of_z in Ez. destruct (Z.eqb z (-1)) eqn:Em; [|reflexivity].
      apply Z.eqb_eq in Em. subst z. reflexivity.
    + destruct l as [|s [|cn [|y l']]]; try discriminate.
      destruct (vas_num s) as [s'|] eqn:Es; [|discriminate]. destruct (vas_num cn) as [c'|] eqn:Ec; [|discriminate].
      destruct (sequence (map idx_of_z (run_indices s' c'))) as [r|] eqn:Er; [|discriminate].
      inversion Hu; subst idx.
      destruct (vjs_reorder_run_ok p _ r rest b Er Hr) as [b2 [H2 ->]].
      cbn [vjs_reorder]. rewrite Es, Ec, (IH rest b2 eq_refl H2). reflexivity.
Qed.

Lemma vreorder_keys_ok (p : list val) : forallb vkeys_ok p = true -> forall idx b, vreorder p idx = Some b -> forallb vkeys_ok b = true.
Proof.
  intros Hp. induction idx as [|[j|] t IH]; intros b Hr; cbn [vreorder] in Hr.
  - inversion Hr. reflexivity.
  - destruct (vreorder p t) as [r|]; [|discriminate]. destruct (nth_opt j p) as [x|] eqn:En; [|discriminate].
    inversion Hr; subst. cbn [forallb]. rewrite (IH r eq_refl), andb_true_r.
    clear -Hp En. revert j En. induction p as [|a q IHp]; intros j En; destruct j; cbn in *; try discriminate.
    + apply andb_prop in Hp as [H1 _]. congruence.
    + apply andb_prop in Hp as [_ H2]. eauto.
  - destruct (vreorder p t) as [r|]; [|discriminate]. inversion Hr; subst. cbn [forallb]. apply (IH r eq_refl).
Qed.

Lemma elems_agree (es : list (string * val)) : forall (l : list val) s,
  (forall i v, nth_error l i = Some v ->
     match lookup (dec (s + i)) es with
     | None => True
     | Some dv => exists x, vmerge dv v = Some x /\ vjeq x (vmerge_js dv v)
     end) ->
  exists r, vapply_elems s l (vmerge_apps es) = Some r
            /\ Forall2 vjeq r (vjs_apply_elems s l (remove_key dollar (vjs_apps es))).
Proof.
  induction l as [|v t IH]; intros s H.
  - exists []. split; [reflexivity | constructor].
  - destruct (IH (S s)) as [r [Hr Hj]].
    { intros i v' Hn. replace (S s + i) with (s + S i) by lia. apply (H (S i)). exact Hn. }
    cbn [vapply_elems vjs_apply_elems]. rewrite Hr.
    specialize (H 0 v eq_refl). rewrite Nat.add_0_r in H.
    rewrite vlookup_merge_apps, lookup_remove_key, vlookup_js_apps.
    destruct (String.eqb (dec s) dollar) eqn:E.
    { apply String.eqb_eq in E. apply dec_not_dollar in E. contradiction. }
    destruct (lookup (dec s) es) as [dv|]; cbn [option_map].
    + destruct H as [x [Hx Hjx]]. rewrite Hx. exists (x :: r). split; [reflexivity | constructor; assumption].
    + exists (v :: r). split; [reflexivity | constructor; [apply vjeq_refl | assumption]].
Qed.

Theorem vclients_agree : forall d p : val,
  vkeys_ok p = true -> vdwf d p = true ->
  exists r, VMerge p d = Some r /\ vjeq r (VMergeJS p d).
Proof.
  unfold VMerge, VMergeJS.
  induction d as [| a | l IH | es IH] using val_ind'; intros p Hp Hd.
  - discriminate.
  - destruct (vis_repl_merge (VAtom a) Hd) as [x [_ Hx]]. destruct (Hx p) as [H1 H2]. exists x. rewrite H2. split; [exact H1 | apply vjeq_refl].
  - destruct (vis_repl_merge (VArr l) Hd) as [x [_ Hx]]. destruct (Hx p) as [H1 H2]. exists x. rewrite H2. split; [exact H1 | apply vjeq_refl].
  - rewrite vdwf_obj in Hd. rewrite vmerge_obj, vmerge_js_obj.
    assert (Hsub : forall k dv, lookup k es = Some dv -> forall v, vkeys_ok v = true -> vdwf dv v = true ->
                     exists x, vmerge dv v = Some x /\ vjeq x (vmerge_js dv v)).
    { intros k dv Hk. rewrite Forall_forall in IH. apply (IH (k, dv)). apply lookup_in. exact Hk. }
    assert (Hent : forall k dv, lookup k es = Some dv -> In (k, (dv, vdwf dv)) (vdwf_subs es)).
    { intros k dv Hk. apply lookup_in in Hk. unfold vdwf_subs. apply in_map_iff. exists (k, dv). auto. }
    destruct p as [| a | pl | pl]; try discriminate.
    + (* list *)
      apply andb_prop in Hd as [Hnd Hd]. apply nodup_keys_spec in Hnd.
      cbn [vkeys_ok] in Hp.
      destruct (vbase pl (lookup dollar es)) as [b|] eqn:Eb; [|discriminate].
      rewrite forallb_forall in Hd.
      unfold vmerge_array, vjs_array. rewrite vlookup_merge_apps, vlookup_js_apps.
      assert (Hb : match option_map (fun dv => (dv, vmerge dv)) (lookup dollar es) with
                   | Some (VArr c, _) => match vuncompress c with Some idx => vreorder pl idx | None => None end
                   | Some _ => None
                   | None => Some pl
                   end = Some b
                   /\ match option_map (fun dv => (dv, vmerge_js dv)) (lookup dollar es) with
                      | Some (VArr c, _) => vjs_reorder pl c
                      | _ => pl
                      end = b
                   /\ forallb vkeys_ok b = true).
      { unfold vbase in Eb. destruct (lookup dollar es) as [dv|]; cbn [option_map].
        - destruct dv as [| a | c | o]; try discriminate.
          destruct (vuncompress c) as [idx|] eqn:Eu; [|discriminate].
          split; [exact Eb|]. split; [apply (vjs_reorder_ok pl c idx b Eu Eb) | apply (vreorder_keys_ok pl Hp idx b Eb)].
        - inversion Eb; subst. auto. }
      destruct Hb as [Hb1 [Hb2 Hb3]]. rewrite Hb1, Hb2.
      assert (Hvalid : forallb (fun e : string * (val * (val -> option val)) => valid_elem_key (List.length b) (fst e)) (vmerge_apps es) = true).
      { apply forallb_forall. intros [k [dv f]] Hin. cbn [fst]. apply vin_merge_apps in Hin as [Hin _].
        assert (Hl : lookup k es = Some dv) by (apply in_nodup_lookup; assumption).
        specialize (Hd _ (Hent k dv Hl)). cbn [dwf_arr_entry] in Hd. unfold valid_elem_key.
        apply orb_true_iff in Hd as [Hd|Hd]; [rewrite Hd; reflexivity|].
        apply andb_prop in Hd as [_ Hd]. destruct (find_index (List.length b) k) as [i|] eqn:Ef; [|discriminate].
        apply find_index_some in Ef as [-> Hi]. apply orb_true_iff. right. apply existsb_exists.
        exists i. split; [apply in_seq; lia | apply String.eqb_refl]. }
      rewrite Hvalid.
      destruct (elems_agree es b 0) as [r [Hr Hj]].
      { intros i v Hn. cbn [Nat.add]. destruct (lookup (dec i) es) as [dv|] eqn:El; [|exact I].
        specialize (Hd _ (Hent _ dv El)). cbn [dwf_arr_entry] in Hd.
        destruct (String.eqb (dec i) dollar) eqn:E.
        { apply String.eqb_eq in E. apply dec_not_dollar in E. contradiction. }
        cbn [orb] in Hd. apply andb_prop in Hd as [_ Hd].
        assert (Hi : i < List.length b) by (apply nth_error_Some; congruence).
        rewrite (find_index_dec _ i Hi) in Hd.
        assert (Hv : nth i b VNull = v) by (apply nth_error_nth; exact Hn). rewrite Hv in Hd.
        apply (Hsub _ dv El v); [|exact Hd]. rewrite <- Hv. apply vkeys_ok_nth. exact Hb3. }
      rewrite Hr. exists (VArr r). split; [reflexivity | constructor; exact Hj].
    + (* object *)
      apply andb_prop in Hd as [Hnd Hd]. apply nodup_keys_spec in Hnd.
      rewrite vkeys_ok_obj in Hp. apply andb_prop in Hp as [Hpn Hpf]. apply nodup_keys_spec in Hpn.
      rewrite forallb_forall in Hd.
      destruct (vmerge_map_spec pl (vmerge_apps es)) as [r [Hr Hlr]].
      * exact Hpn.
      * intros k v dv f Hk Ha Hrm. rewrite vlookup_merge_apps in Ha.
        destruct (lookup k es) as [dv'|] eqn:El; [|discriminate]. cbn [option_map] in Ha. inversion Ha; subst.
        specialize (Hd _ (Hent _ _ El)). cbn [dwf_obj_entry] in Hd. rewrite Hrm, Hk in Hd.
        destruct (Hsub _ _ El v (vkeys_ok_lookup _ _ _ Hpf Hk) Hd) as [x [Hx _]]. exists x. exact Hx.
      * intros k dv f Hin Hhk. apply vin_merge_apps in Hin as [Hin _].
        assert (El : lookup k es = Some dv) by (apply in_nodup_lookup; assumption).
        specialize (Hd _ (Hent _ _ El)). cbn [dwf_obj_entry] in Hd. rewrite Hhk in Hd.
        destruct (vis_removed dv); [discriminate|]. apply has_key_false in Hhk. rewrite Hhk in Hd.
        destruct (vis_repl_merge dv Hd) as [x [Hx _]]. exists x. exact Hx.
      * exists (VObj r). split; [exact Hr|]. rewrite vjs_object_eq. constructor. intros k. rewrite Hlr.
        rewrite vjs_fold_lookup.
        2: { unfold vjs_apps. rewrite map_map. cbn [fst]. exact Hnd. }
        unfold vupdated_at, vadded_at, has_key. rewrite vlookup_merge_apps, vlookup_js_apps.
        destruct (lookup k es) as [dv|] eqn:El; cbn [option_map].
        -- specialize (Hd _ (Hent _ _ El)). cbn [dwf_obj_entry] in Hd.
           destruct (vis_removed dv) eqn:Erm.
           ++ apply has_key_true in Hd as [v Hv]. rewrite Hv. constructor.
           ++ destruct (lookup k pl) as [v|] eqn:Ep.
              ** destruct (Hsub _ _ El v (vkeys_ok_lookup _ _ _ Hpf Ep) Hd) as [x [Hx Hjx]]. rewrite Hx. constructor. exact Hjx.
              ** destruct (vis_repl_merge dv Hd) as [x [Hx Hx']]. rewrite Hx. destruct (Hx' VNull) as [_ ->]. constructor. apply vjeq_refl.
        -- destruct (lookup k pl); constructor. apply vjeq_refl.
Qed.
End P.
