(** Well-formedness of a delta survives the serialisation of the leaves: what the server sends is a
    well-formed delta for what the client holds, so both clients compute the same value from it. *)
From Coq Require Import List ZArith String Bool Arith Lia.
From Thunder Require Import Lib.Json DiffMerge.Model DiffMerge.ProofsBase DiffMerge.ProofsUnfold
     DiffMerge.GModel DiffMerge.GBase DiffMerge.GUnfold DiffMerge.GSer DiffMerge.GClients DiffMerge.GWellFormed.
Import ListNotations.
Open Scope string_scope.
Open Scope list_scope.

Section S.
Context {A B : Type} {OA : atom_ops A} {OB : atom_ops B} (f : A -> B) (H : atom_hom OA OB f).
Notation F := (vmap f).

Lemma vis_repl_map d : vis_repl d = true -> vis_repl (F d) = true.
Proof.
  destruct d as [| a | [|x t] | l]; cbn [vis_repl vmap map]; try discriminate; auto.
  apply (hom_raw _ _ _ H).
Qed.

Lemma vbase_map pl e : vbase (map F pl) (option_map F e) = option_map (map F) (vbase pl e).
Proof.
  destruct e as [dv|]; [|reflexivity]. cbn [option_map vbase].
  destruct dv as [| a | c | o]; try reflexivity.
  rewrite vmap_arr. rewrite (vuncompress_map f H). destruct (vuncompress c) as [idx|]; [|reflexivity].
  apply vreorder_map.
Qed.

Lemma vkeys_ok_map : forall v, vkeys_ok v = true -> vkeys_ok (F v) = true.
Proof.
  induction v as [| a | l IH | l IH] using val_ind'; intros Hk; try reflexivity.
  - rewrite vmap_arr. cbn [vkeys_ok] in *. apply forallb_forall. intros x Hx. apply in_map_iff in Hx as [y [<- Hy]].
    rewrite forallb_forall in Hk. rewrite Forall_forall in IH. apply IH; auto.
  - rewrite vmap_obj, vkeys_ok_obj. rewrite vkeys_ok_obj in Hk. apply andb_prop in Hk as [H1 H2].
    apply andb_true_iff. split; [rewrite fmap_keys; exact H1|].
    induction IH as [|[k v] t Hv Ht IHt]; [reflexivity|]. cbn [vkeys_ok_fields fmap_fields map fst snd] in *.
    apply andb_prop in H2 as [H2a H2b]. rewrite (Hv H2a). cbn [andb]. apply IHt; [|exact H2b].
    cbn [map nodup_keys] in H1. apply andb_prop in H1 as [_ H1]. exact H1.
Qed.

Theorem vdwf_map : forall d p, vdwf d p = true -> vdwf (F d) (F p) = true.
Proof.
  induction d as [| a | l IH | es IH] using val_ind'; intros p Hd.
  - discriminate.
  - apply (vis_repl_map (VAtom a)). exact Hd.
  - apply (vis_repl_map (VArr l)). exact Hd.
  - rewrite vmap_obj, vdwf_obj. rewrite vdwf_obj in Hd.
    assert (Hsubs : forall (g : string * (val A * (val A -> bool)) -> bool) (g' : string * (val B * (val B -> bool)) -> bool),
               (forall k dv, In (k, dv) es -> g (k, (dv, vdwf dv)) = true -> g' (k, (F dv, vdwf (F dv))) = true) ->
               forallb g (vdwf_subs es) = true -> forallb g' (vdwf_subs (fmap_fields f es)) = true).
    { intros g g' Hg Hall. apply forallb_forall. intros [k [dv' fn]] Hin.
      apply in_vdwf_subs in Hin as [Hin ->]. unfold fmap_fields in Hin. apply in_map_iff in Hin as [[k0 dv] [E Hin]].
      cbn [fst snd] in E. inversion E; subst. apply (Hg k dv Hin).
      rewrite forallb_forall in Hall. apply Hall. unfold vdwf_subs. apply in_map_iff. exists (k, dv). auto. }
    destruct p as [| a | pl | pl]; try discriminate.
    + rewrite vmap_arr. apply andb_prop in Hd as [Hn Hd]. apply andb_true_iff. split; [rewrite fmap_keys; exact Hn|].
      rewrite lookup_fmap, vbase_map. destruct (vbase pl (lookup dollar es)) as [b|]; [|discriminate]. cbn [option_map].
      apply (Hsubs (dwf_arr_entry b)); [|exact Hd].
      intros k dv Hin. cbn [dwf_arr_entry]. rewrite vis_removed_map, map_length.
      destruct (String.eqb k dollar); [reflexivity|]. cbn [orb]. destruct (vis_removed dv); [discriminate|]. cbn [negb andb].
      destruct (find_index (List.length b) k) as [i|]; [|discriminate].
      rewrite (nth_map_F f). rewrite Forall_forall in IH. apply (IH (k, dv) Hin).
    + rewrite vmap_obj. apply andb_prop in Hd as [Hn Hd]. apply andb_true_iff. split; [rewrite fmap_keys; exact Hn|].
      apply (Hsubs (dwf_obj_entry pl)); [|exact Hd].
      intros k dv Hin. cbn [dwf_obj_entry]. rewrite vis_removed_map, has_key_fmap, lookup_fmap.
      destruct (vis_removed dv); [auto|]. destruct (lookup k pl) as [v|]; cbn [option_map].
      * rewrite Forall_forall in IH. apply (IH (k, dv) Hin).
      * apply vis_repl_map.
Qed.
End S.

(** The serialised delta is well-formed for the client's value, and the two clients agree on it. *)
Section W.
Context {A B : Type} {OA : atom_ops A} {OB : atom_ops B} (LA : atom_laws OA) (f : A -> B) (H : atom_hom OA OB f).
Variable strict : bool.
Hypothesis Hmode : @fix4 A OA || strict = true.

Theorem ser_delta_well_formed : forall old new d,
  vwf_gen strict old = true -> vwf_gen strict new = true -> VDiff old new = Some d ->
  vkeys_ok (vmap f (vstrip old)) = true /\ vdwf (vmap f d) (vmap f (vstrip old)) = true.
Proof.
  intros old new d Ho Hn Hd. split.
  - apply vkeys_ok_map. apply (vstrip_keys_ok strict). exact Ho.
  - apply (vdwf_map f H). pose proof (vdiff_dwf_all LA strict Hmode new old Ho Hn) as W. unfold DWF in W.
    unfold VDiff in Hd. rewrite Hd in W. exact W.
Qed.

Theorem ser_clients_agree : forall old new d,
  vwf_gen strict old = true -> vwf_gen strict new = true -> VDiff old new = Some d ->
  exists r, VMerge (vmap f (vstrip old)) (vmap f d) = Some r /\ vjeq r (VMergeJS (vmap f (vstrip old)) (vmap f d)).
Proof.
  intros old new d Ho Hn Hd. destruct (ser_delta_well_formed old new d Ho Hn Hd) as [H1 H2].
  apply vclients_agree; assumption.
Qed.
End W.
