(** vuncompress (vcompress idx) = idx, for every index list. *)
From Coq Require Import List ZArith String Bool Arith Lia.
From Thunder Require Import Lib.Json DiffMerge.Model DiffMerge.ProofsBase DiffMerge.ProofsCompress
     DiffMerge.GModel DiffMerge.GBase.
Import ListNotations.
Open Scope list_scope.

Section S.
Context {A : Type} {O : atom_ops A} (L : atom_laws O).
Notation val := (val A).





Lemma run_indices_from s b c :
  map (fun i => (Z.of_nat s + Z.of_nat i)%Z) (seq b c) = map Z.of_nat (seq (s + b) c).
Proof.
  revert b. induction c as [|c IH]; intros b; [reflexivity|]. cbn [seq map]. f_equal.
  - lia.
  - rewrite IH. replace (s + S b) with (S (s + b)) by lia. reflexivity.
Qed.

Lemma run_indices_nat s c : run_indices (Z.of_nat s) (Z.of_nat c) = map Z.of_nat (seq s c).
Proof. unfold run_indices. rewrite Nat2Z.id, run_indices_from, Nat.add_0_r. reflexivity. Qed.

Lemma idx_of_z_nat n : idx_of_z (Z.of_nat n) = Some (Some n).
Proof. unfold idx_of_z. destruct (Z.eqb_spec (Z.of_nat n) (-1)); [lia|]. rewrite z_index_of_nat. reflexivity. Qed.

Lemma sequence_run l : sequence (map idx_of_z (map Z.of_nat l)) = Some (map Some l).
Proof. induction l as [|a t IH]; [reflexivity|]. cbn [map sequence]. rewrite idx_of_z_nat, IH. reflexivity. Qed.

Lemma vuncompress_run r rest :
  run_ok r ->
  vuncompress (vencode_run r :: rest) =
  match vuncompress rest with
  | None => None
  | Some l => Some (match r with RNeg => [None] | RRun s c => map Some (seq s c) end ++ l)
  end.
Proof.
  intros Hok. cbn [vuncompress]. destruct (vuncompress rest) as [l|]; [|reflexivity].
  destruct r as [|s c]; cbn [vencode_run].
  - unfold vnum. rewrite (as_num_num O L). reflexivity.
  - simpl in Hok. destruct (Nat.eqb_spec c 1) as [->|Hc].
    + unfold vnat, vnum. rewrite (as_num_num O L), idx_of_z_nat. reflexivity.
    + unfold vnat, vnum. cbn [vas_num]. rewrite !(as_num_num O L), run_indices_nat, sequence_run. reflexivity.
Qed.

Lemma vuncompress_runs_cons i acc :
  Forall run_ok acc ->
  vuncompress (map vencode_run (cons_index i acc)) =
  match vuncompress (map vencode_run acc) with None => None | Some l => Some (i :: l) end.
Proof.
  intros Hok. destruct i as [a|]; cbn [cons_index].
  - destruct acc as [|[|s c] rest].
    + cbn [map]. rewrite (vuncompress_run (RRun a 1)) by (simpl; lia). reflexivity.
    + cbn [map]. rewrite (vuncompress_run (RRun a 1)) by (simpl; lia).
      destruct (vuncompress (vencode_run RNeg :: map vencode_run rest)); reflexivity.
    + destruct (Nat.eqb_spec s (S a)) as [->|Hne].
      * inversion Hok as [|? ? Hc Hrest]; subst. simpl in Hc.
        cbn [map]. rewrite (vuncompress_run (RRun a (S c))) by (simpl; lia).
        rewrite (vuncompress_run (RRun (S a) c)) by (simpl; lia).
        destruct (vuncompress (map vencode_run rest)); reflexivity.
      * cbn [map]. rewrite (vuncompress_run (RRun a 1)) by (simpl; lia).
        destruct (vuncompress (vencode_run (RRun s c) :: map vencode_run rest)); reflexivity.
  - cbn [map]. rewrite (vuncompress_run RNeg) by exact I.
    destruct (vuncompress (map vencode_run acc)); reflexivity.
Qed.

Lemma vuncompress_compress idx : vuncompress (vcompress idx) = Some idx.
Proof.
  unfold vcompress. induction idx as [|i t IH]; [reflexivity|].
  cbn [runs_of fold_right]. rewrite vuncompress_runs_cons by apply runs_of_ok.
  fold (runs_of t). rewrite IH. reflexivity.
Qed.
End S.
