(** What a delta produced by diffMap / diffArray contains, key by key (generic atoms). *)
From Coq Require Import List ZArith String Bool Arith Lia.
From Thunder Require Import Lib.Json DiffMerge.Model DiffMerge.ProofsBase DiffMerge.ProofsUnfold DiffMerge.ProofsDiff
     DiffMerge.GModel DiffMerge.GBase DiffMerge.GUnfold.
Import ListNotations.
Open Scope string_scope.
Open Scope list_scope.

Section S.
Context {A : Type} {O : atom_ops A} (L : atom_laws O) (strict : bool).
Notation val := (val A).
Notation wfs := (vwf_gen strict).

Definition vremoved_entries (o n : list (string * val)) : list (string * val) :=
  flat_map (fun kv => if skipped (fst kv) || has_key (fst kv) n then [] else [(fst kv, vmark_removed)]) o.

Definition vchanged_entries (o : list (string * val)) (subs : list (string * (val * (val -> option val)))) :=
  flat_map (fun e =>
              match e with
              | (k, (v, dv)) =>
                  if skipped k then []
                  else match lookup k o with
                       | Some ov => vopt_entry k (dv ov)
                       | None => [(k, vmark_replaced v)]
                       end
              end) subs.

Lemma vdiff_map_eq o n subs :
  vdiff_map o n subs =
  if negb (veqb (vget_key o) (vget_key n)) then Some (vmark_replaced (VObj n))
  else vfinish (vremoved_entries o n ++ vchanged_entries o subs).
Proof. reflexivity. Qed.

Lemma vlookup_removed k o n :
  lookup k (vremoved_entries o n) =
  if negb (skipped k) && has_key k o && negb (has_key k n) then Some vmark_removed else None.
Proof.
  unfold vremoved_entries. induction o as [|[k' v] t IH]; [rewrite andb_false_r; reflexivity|].
  cbn [flat_map fst]. rewrite lookup_app, IH, has_key_cons.
  destruct (String.eqb k k') eqn:E.
  - apply String.eqb_eq in E. subst k'.
    destruct (skipped k); cbn [orb negb andb lookup]; [reflexivity|].
    destruct (has_key k n); cbn [lookup negb andb].
    + rewrite andb_false_r. reflexivity.
    + rewrite String.eqb_refl. reflexivity.
  - destruct (skipped k' || has_key k' n); cbn [lookup]; [reflexivity|]. rewrite E. reflexivity.
Qed.

Lemma vlookup_opt_entry k k' (o : option val) : lookup k (vopt_entry k' o) = if String.eqb k k' then o else None.
Proof. destruct o; cbn [vopt_entry lookup]; destruct (String.eqb k k'); reflexivity. Qed.

Lemma vlookup_changed k o n :
  NoDup (map fst n) ->
  lookup k (vchanged_entries o (vobj_subs n)) =
  if skipped k then None else
  match lookup k n with
  | None => None
  | Some nv => match lookup k o with Some ov => vdiff nv ov | None => Some (vmark_replaced nv) end
  end.
Proof.
  unfold vchanged_entries, vobj_subs. induction n as [|[k' nv'] t IH]; intros Hnd.
  { destruct (skipped k); reflexivity. }
  inversion Hnd as [|? ? Hnotin Hnd']; subst.
  cbn [map flat_map fst snd]. rewrite lookup_app. cbn [lookup].
  destruct (String.eqb k k') eqn:E.
  - apply String.eqb_eq in E. subst k'.
    destruct (skipped k) eqn:Esk.
    { cbn [lookup]. rewrite IH by assumption. reflexivity. }
    destruct (lookup k o) as [ov|].
    + rewrite vlookup_opt_entry, String.eqb_refl.
      destruct (vdiff nv' ov); [reflexivity|].
      rewrite IH by assumption. rewrite (notin_lookup_none k t Hnotin). reflexivity.
    + cbn [lookup]. rewrite String.eqb_refl. reflexivity.
  - assert (Hskip : lookup k (if skipped k' then [] else
                              match lookup k' o with
                              | Some ov => vopt_entry k' (vdiff nv' ov)
                              | None => [(k', vmark_replaced nv')]
                              end) = None).
    { destruct (skipped k'); [reflexivity|].
      destruct (lookup k' o); [rewrite vlookup_opt_entry, E; reflexivity | cbn [lookup]; rewrite E; reflexivity]. }
    rewrite Hskip. apply IH. assumption.
Qed.

(** Combined view of the delta of two objects with equal keys. *)
Definition vdelta_at (o n : list (string * val)) (k : string) : option val :=
  if skipped k then None else
  match lookup k o, lookup k n with
  | Some _, None => Some vmark_removed
  | Some ov, Some nv => vdiff nv ov
  | None, Some nv => Some (vmark_replaced nv)
  | None, None => None
  end.

Lemma vlookup_delta k o n :
  NoDup (map fst n) ->
  lookup k (vremoved_entries o n ++ vchanged_entries o (vobj_subs n)) = vdelta_at o n k.
Proof.
  intros Hnd. rewrite lookup_app, vlookup_removed, vlookup_changed by assumption.
  unfold vdelta_at, has_key. destruct (skipped k); [reflexivity|].
  destruct (lookup k o), (lookup k n); reflexivity.
Qed.

(** diff never emits the removal marker. *)
Lemma vmark_replaced_not_removed (v : val) : vis_removed (vmark_replaced v) = false.
Proof. unfold vmark_replaced. destruct (vis_scalar v) eqn:E; [destruct v; try discriminate; reflexivity | reflexivity]. Qed.

Lemma vfinish_not_removed (d : list (string * val)) x : vfinish d = Some x -> vis_removed x = false.
Proof. destruct d; cbn [vfinish]; [discriminate | intros [= <-]; reflexivity]. Qed.

Lemma vdiff_not_removed (new old d : val) : vdiff new old = Some d -> vis_removed d = false.
Proof.
  destruct new.
  1-2: cbn [vdiff]; destruct old; try (intros [= <-]; apply vmark_replaced_not_removed);
    match goal with |- (if ?c then _ else _) = _ -> _ => destruct c; [discriminate | intros [= <-]; apply vmark_replaced_not_removed] end.
  - rewrite vdiff_arr. destruct old; try (intros [= <-]; apply vmark_replaced_not_removed).
    unfold vdiff_array. apply vfinish_not_removed.
  - rewrite vdiff_obj. destruct old; try (intros [= <-]; apply vmark_replaced_not_removed).
    rewrite vdiff_map_eq. destruct (negb _); [intros [= <-]; apply vmark_replaced_not_removed | apply vfinish_not_removed].
Qed.

(** Replacement deltas merge to the stripped new value, whatever the previous value. *)
Lemma vmerge_mark_replaced (v prev : val) : vmerge (vmark_replaced v) prev = Some (vstrip v).
Proof.
  unfold vmark_replaced. destruct (vis_scalar v) eqn:E.
  - rewrite (vstrip_scalar v E). destruct v; try discriminate. cbn [vmerge vmerge_replaced].
    cbn [vis_scalar] in E. rewrite E. reflexivity.
  - reflexivity.
Qed.

Lemma vmerge_replaced_mark_replaced (v : val) : vmerge_replaced (vmark_replaced v) = Some (vstrip v).
Proof.
  unfold vmark_replaced. destruct (vis_scalar v) eqn:E.
  - rewrite (vstrip_scalar v E). destruct v; try discriminate. cbn [vmerge_replaced].
    cbn [vis_scalar] in E. rewrite E. reflexivity.
  - reflexivity.
Qed.

Lemma vmerge_js_mark_replaced (v orig : val) : vmerge_js (vmark_replaced v) orig = vstrip v.
Proof.
  unfold vmark_replaced. destruct (vis_scalar v) eqn:E.
  - rewrite (vstrip_scalar v E). destruct v; try discriminate; reflexivity.
  - reflexivity.
Qed.

(** "__key" never appears in the delta of two objects with equal keys: the repaired diffMap skips it; the
    current diffMap compares the two key values, which are the same scalar on the strict domain. *)
Lemma vdelta_at_key o n :
  fix4 || strict = true ->
  key_ok strict o = true -> key_ok strict n = true ->
  veqb (vget_key o) (vget_key n) = true ->
  vdelta_at o n key_name = None.
Proof.
  unfold vdelta_at, skipped, vget_key, key_ok. intros Hmode Ho Hn.
  rewrite String.eqb_refl, andb_true_r.
  destruct fix4; [reflexivity|]. cbn [orb] in Hmode. subst strict.
  destruct (lookup key_name o) as [ko|] eqn:Eo, (lookup key_name n) as [kn|] eqn:En; intros He.
  - apply (veqb_eq L) in He. subst kn.
    destruct ko; try discriminate. cbn [vdiff veqb]. rewrite (aeqb_refl L). reflexivity.
  - apply (veqb_eq L) in He. subst ko. discriminate.
  - apply (veqb_eq L) in He. subst kn. discriminate.
  - reflexivity.
Qed.
End S.
