(** Round trip for arrays (Go vmerge). *)
From Coq Require Import List ZArith String Bool Arith Lia.
From Thunder Require Import Lib.Json DiffMerge.Model DiffMerge.ProofsBase DiffMerge.ProofsUnfold DiffMerge.ProofsCompress DiffMerge.ProofsArray
     DiffMerge.GModel DiffMerge.GBase DiffMerge.GUnfold DiffMerge.GDiff DiffMerge.GCompress DiffMerge.GArray DiffMerge.GMergeGo.
Import ListNotations.
Open Scope string_scope.
Open Scope list_scope.

Section S.
Context {A : Type} {O : atom_ops A} (L : atom_laws O) (strict : bool).
Notation val := (val A).
Notation wfs := (vwf_gen strict).

Lemma vapply_elems_spec o apps : forall n idx s,
  List.length idx = List.length n ->
  (forall i v j, nth_error n i = Some v -> nth_error idx i = Some j ->
                 lookup (dec (s + i)) apps = option_map (fun dv => (dv, vmerge dv)) (vdiff v (voldI o j))) ->
  (forall i v j, nth_error n i = Some v -> nth_error idx i = Some j -> vRT_go (voldI o j) v) ->
  exists r, vapply_elems s (map (fun j => vstrip (voldI o j)) idx) apps = Some r /\ Forall2 vjeq r (map vstrip n).
Proof.
  induction n as [|v t IH]; intros idx s Hlen Hl Hrt.
  - destruct idx; [|discriminate]. exists []. split; [reflexivity | constructor].
  - destruct idx as [|j it]; [discriminate|]. cbn [List.length] in Hlen.
    destruct (IH it (S s)) as [r [Hr Hj]]; [lia | | |].
    { intros i v' j' Hn Hi. replace (S s + i) with (s + S i) by lia. apply Hl; assumption. }
    { intros i v' j' Hn Hi. apply (Hrt (S i)); assumption. }
    cbn [map vapply_elems]. rewrite Hr.
    specialize (Hl 0 v j eq_refl eq_refl). rewrite Nat.add_0_r in Hl. rewrite Hl.
    specialize (Hrt 0 v j eq_refl eq_refl). unfold vRT_go in Hrt.
    destruct (vdiff v (voldI o j)) as [dv|]; cbn [option_map].
    + destruct Hrt as [x [Hx Hjx]]. rewrite Hx. exists (x :: r). split; [reflexivity | constructor; assumption].
    + exists (vstrip (voldI o j) :: r). split; [reflexivity | constructor; assumption].
Qed.

Lemma vwf_nth o j : Forall (fun v => wfs v = true) o -> wfs (nth j o VNull) = true.
Proof.
  revert j. induction o as [|a t IH]; intros j H; [destruct j; reflexivity|].
  inversion H; subst. destruct j; cbn [nth]; auto.
Qed.

Lemma vwf_oldI o j : Forall (fun v => wfs v = true) o -> wfs (voldI o j) = true.
Proof. intros H. destruct j; cbn [voldI]; [apply vwf_nth; exact H | reflexivity]. Qed.

Lemma vvalid_keys_ok (d : list (string * val)) len :
  (forall k, In k (map fst d) -> k = dollar \/ exists i, k = dec i /\ i < len) ->
  forallb (fun e : string * (val * (val -> option val)) => valid_elem_key len (fst e)) (vmerge_apps d) = true.
Proof.
  intros H. apply forallb_forall. intros [k [dv f]] Hin. cbn [fst]. unfold valid_elem_key.
  apply vin_merge_apps in Hin as [Hin _].
  destruct (H k) as [->|[i [-> Hi]]].
  - apply in_map_iff. exists (k, dv). auto.
  - rewrite String.eqb_refl. reflexivity.
  - apply orb_true_iff. right. apply existsb_exists. exists i. split; [apply in_seq; lia | apply String.eqb_refl].
Qed.

Lemma velems_nil_jeq o : forall n idx s,
  List.length idx = List.length n ->
  (forall i v j, nth_error n i = Some v -> nth_error idx i = Some j -> vRT_go (voldI o j) v) ->
  vdiff_elems o s (varr_subs n) idx = [] ->
  Forall2 vjeq (map (fun j => vstrip (voldI o j)) idx) (map vstrip n).
Proof.
  induction n as [|v t IHn]; intros idx s Hlen Hrt E2.
  - destruct idx; [constructor | discriminate].
  - destruct idx as [|j it]; [discriminate|]. rewrite vdiff_elems_cons in E2.
    apply app_eq_nil in E2 as [E2a E2b]. cbn [map]. constructor.
    + specialize (Hrt 0 v j eq_refl eq_refl). unfold vRT_go in Hrt.
      destruct (vdiff v (voldI o j)); [discriminate | exact Hrt].
    + apply (IHn it (S s)); [cbn in Hlen; lia | | exact E2b].
      intros i v' j' Hn Hi. apply (Hrt (S i)); assumption.
Qed.

Lemma vrt_arr_go o n :
  wfs (VArr o) = true -> wfs (VArr n) = true ->
  (forall v, In v n -> forall old, wfs old = true -> vRT_go old v) ->
  vRT_go (VArr o) (VArr n).
Proof.
  intros Hwo Hwn IH. apply vwf_arr_inv in Hwo.
  unfold vRT_go. rewrite vdiff_arr. unfold vdiff_array.
  set (idx := vchoose o n).
  assert (Hlen : List.length idx = List.length n) by apply vchoose_length.
  assert (Hb : Forall (idx_ok (List.length o)) idx) by apply vchoose_bound.
  set (oc := negb (Nat.eqb (List.length o) (List.length idx)) || negb (order_is_identity 0 idx)).
  set (el := vdiff_elems o 0 (varr_subs n) idx).
  assert (Hrt : forall i v j, nth_error n i = Some v -> nth_error idx i = Some j -> vRT_go (voldI o j) v).
  { intros i v j Hn _. apply IH; [eapply nth_error_In; exact Hn | apply vwf_oldI; exact Hwo]. }
  assert (Hbase : oc = false -> map (fun j => vstrip (voldI o j)) idx = map vstrip o).
  { unfold oc. intros H. apply orb_false_iff in H as [H1 H2].
    apply negb_false_iff in H1. apply negb_false_iff in H2. apply Nat.eqb_eq in H1.
    rewrite (order_identity 0 idx H2), map_map, <- H1. cbn [voldI]. apply (map_nth_seq vstrip VNull o). }
  rewrite !vstrip_arr.
  destruct (vfinish ((if oc then [(dollar, VArr (vcompress idx))] else []) ++ el)) as [dj|] eqn:Ef.
  - set (d := (if oc then [(dollar, VArr (vcompress idx))] else []) ++ el) in *.
    assert (dj = VObj d) by (destruct d; cbn [vfinish] in Ef; [discriminate | inversion Ef; reflexivity]). subst dj.
    rewrite vmerge_obj. unfold vmerge_array.
    assert (Hel : forall i v j, nth_error n i = Some v -> nth_error idx i = Some j ->
                 lookup (dec (0 + i)) (vmerge_apps d) = option_map (fun dv => (dv, vmerge dv)) (vdiff v (voldI o j))).
    { intros i v j Hn Hi. rewrite vlookup_merge_apps. unfold d. rewrite lookup_app.
      assert (Hdl : lookup (dec (0 + i)) (if oc then [(dollar, VArr (vcompress idx))] else []) = None).
      { destruct oc; [|reflexivity]. cbn [lookup].
        destruct (String.eqb (dec (0 + i)) dollar) eqn:E; [|reflexivity].
        apply String.eqb_eq in E. apply dec_not_dollar in E. contradiction. }
      rewrite Hdl. unfold el. rewrite (vlookup_diff_elems o n 0 idx i v j Hn Hi). reflexivity. }
    assert (Hbase' : (match lookup dollar (vmerge_apps d) with
                      | Some (VArr c, _) => match vuncompress c with Some idx' => vreorder (map vstrip o) idx' | None => None end
                      | Some _ => None
                      | None => Some (map vstrip o)
                      end) = Some (map (fun j => vstrip (voldI o j)) idx)).
    { rewrite vlookup_merge_apps. unfold d. rewrite lookup_app. destruct oc eqn:Eoc.
      - cbn [lookup]. rewrite String.eqb_refl. cbn [option_map]. rewrite (vuncompress_compress L).
        apply vreorder_spec. exact Hb.
      - cbn [lookup]. unfold el. rewrite vlookup_diff_elems_dollar. cbn [option_map].
        rewrite Hbase by reflexivity. reflexivity. }
    rewrite Hbase'.
    rewrite vvalid_keys_ok.
    + destruct (vapply_elems_spec o (vmerge_apps d) n idx 0 Hlen Hel Hrt) as [r [Hr Hj]].
      rewrite Hr. exists (VArr r). split; [reflexivity | constructor; exact Hj].
    + intros k Hk. unfold d in Hk. rewrite map_app in Hk. apply in_app_or in Hk as [Hk|Hk].
      * destruct oc; cbn in Hk; [destruct Hk as [<-|[]]; left; reflexivity | contradiction].
      * right. apply vdiff_elems_keys in Hk as [i [-> Hi]]. exists i. split; [reflexivity|].
        rewrite map_length, Hlen. lia.
  - (* empty delta: same order, no element changed *)
    apply vfinish_nil_iff in Ef. apply app_eq_nil in Ef as [E1 E2].
    assert (Eoc : oc = false) by (destruct oc; [discriminate | reflexivity]).
    rewrite <- (Hbase Eoc). constructor.
    apply (velems_nil_jeq o n idx 0 Hlen Hrt E2).
Qed.
End S.
