(** DiffMerge/Model.v (values are [json]: booleans, integers, strings) is the generic model at the client's
    scalar domain: [emb] carries [json] into [val watom] and commutes with StripKey and Diff (the unrepaired
    diffMap, the index lists of computeReorderIndices).  What is proved about the generic [VDiff] therefore holds
    of [Model.Diff], the function the Server models (C02, C17) are built on. *)
From Coq Require Import List ZArith String Bool Arith Lia.
From Thunder Require Import Lib.Json DiffMerge.Model DiffMerge.ProofsBase DiffMerge.ProofsUnfold DiffMerge.ProofsDiff
     DiffMerge.GModel DiffMerge.GBase DiffMerge.GUnfold DiffMerge.GDiff DiffMerge.GSer DiffMerge.GInst DiffMerge.GExact.
Import ListNotations.
Open Scope string_scope.
Open Scope list_scope.

Notation W := (wops false).
Notation wval := (val watom).

Fixpoint emb (j : json) : wval :=
  match j with
  | JNull => VNull
  | JBool b => VAtom (WBool b)
  | JNum z => VAtom (WNum (DInt z))
  | JStr s => VAtom (WStr s)
  | JArr l => VArr (map emb l)
  | JObj l => VObj ((fix go (l : list (string * json)) :=
                       match l with
                       | [] => []
                       | (k, v) :: t => (k, emb v) :: go t
                       end) l)
  end.

Definition efields (l : list (string * json)) : list (string * wval) :=
  map (fun kv => (fst kv, emb (snd kv))) l.

Lemma emb_obj l : emb (JObj l) = VObj (efields l).
Proof.
  cbn [emb]. f_equal. unfold efields.
  induction l as [|[k v] t IH]; [reflexivity|]. cbn [map fst snd]. rewrite IH. reflexivity.
Qed.

Lemma emb_arr l : emb (JArr l) = VArr (map emb l).
Proof. reflexivity. Qed.

Lemma lookup_efields k l : lookup k (efields l) = option_map emb (lookup k l).
Proof. unfold efields. apply (lookup_map_snd emb). Qed.

Lemma has_key_efields k l : has_key k (efields l) = has_key k l.
Proof. unfold has_key. rewrite lookup_efields. destruct (lookup k l); reflexivity. Qed.

Lemma emb_eqb : forall a b, @veqb _ W (emb a) (emb b) = json_eqb a b.
Proof.
  induction a as [| x | z | s | l IH | l IH] using json_ind'; intros b; destruct b; try reflexivity.
  - rewrite !emb_arr. cbn [veqb json_eqb]. revert l0. induction IH as [|x t Hx Ht IHt]; intros l0; destruct l0; try reflexivity.
    cbn [map]. rewrite Hx, IHt. reflexivity.
  - rewrite !emb_obj. cbn [veqb json_eqb]. revert l0. induction IH as [|[k v] t Hv Ht IHt]; intros l0; destruct l0 as [|[k' v'] l0]; try reflexivity.
    cbn [efields map fst snd]. cbn [snd] in Hv. rewrite Hv. fold (efields t). fold (efields l0). rewrite IHt. reflexivity.
Qed.

Lemma emb_strip : forall v, emb (strip v) = vstrip (emb v).
Proof.
  induction v as [| x | z | s | l IH | l IH] using json_ind'; try reflexivity.
  - rewrite strip_arr, !emb_arr, vstrip_arr, !map_map. f_equal. apply map_ext_in. intros x Hx.
    rewrite Forall_forall in IH. apply IH. exact Hx.
  - rewrite strip_obj, !emb_obj, vstrip_obj. f_equal.
    induction IH as [|[k v] t Hv Ht IHt]; [reflexivity|].
    cbn [strip_fields efields map fst snd vstrip_fields]. destruct (String.eqb k key_name); [exact IHt|].
    cbn [efields map fst snd]. cbn [snd] in Hv. rewrite Hv. f_equal. exact IHt.
Qed.

Lemma emb_scalar j : @vis_scalar _ W (emb j) = is_scalar j.
Proof. destruct j; reflexivity. Qed.

Lemma emb_mark_replaced j : emb (mark_replaced j) = @vmark_replaced _ W (emb j).
Proof.
  unfold mark_replaced, vmark_replaced. rewrite emb_scalar. destruct (is_scalar j); [reflexivity|].
  rewrite emb_arr. cbn [map]. rewrite emb_strip. reflexivity.
Qed.

Lemma emb_get_key l : vget_key (efields l) = emb (get_key l).
Proof. unfold vget_key, get_key. rewrite lookup_efields. destruct (lookup key_name l); reflexivity. Qed.

Lemma emb_reorder_key j : @vreorder_key _ W (emb j) = emb (reorder_key j).
Proof. destruct j; try reflexivity. rewrite emb_obj. cbn [vreorder_key reorder_key]. apply emb_get_key. Qed.

Definition eunused (u : list (json * nat)) : list (wval * nat) := map (fun ki => (emb (fst ki), snd ki)) u.

Lemma emb_take_first k u :
  @vtake_first _ W (emb k) (eunused u) = option_map (fun r => (fst r, eunused (snd r))) (take_first k u).
Proof.
  induction u as [|[k' i] t IH]; [reflexivity|]. cbn [eunused map fst snd vtake_first take_first].
  rewrite emb_eqb. destruct (json_eqb k k'); [reflexivity|].
  fold (eunused t). rewrite IH. destruct (take_first k t) as [[j t']|]; reflexivity.
Qed.

Lemma emb_reorder_go u n : @vreorder_go _ W (eunused u) (map emb n) = reorder_go u n.
Proof.
  revert u. induction n as [|x t IH]; intros u; [reflexivity|]. cbn [map vreorder_go reorder_go].
  rewrite emb_reorder_key, emb_take_first. destruct (take_first (reorder_key x) u) as [[i u']|]; cbn [option_map fst snd]; rewrite IH; reflexivity.
Qed.

Lemma eunused_index_from s (l : list json) : eunused (index_from s l) = index_from s (map emb l).
Proof. revert s. induction l as [|a t IH]; intros s; [reflexivity|]. cbn [index_from eunused map fst snd]. f_equal. apply IH. Qed.

Lemma emb_reorder_indices o n : @vcompute_reorder_indices _ W (map emb o) (map emb n) = compute_reorder_indices o n.
Proof.
  unfold vcompute_reorder_indices, compute_reorder_indices.
  rewrite map_map. rewrite (map_ext (fun x => @vreorder_key _ W (emb x)) (fun x => emb (reorder_key x)) emb_reorder_key).
  rewrite <- (map_map reorder_key emb), <- eunused_index_from. apply emb_reorder_go.
Qed.

Lemma emb_compress idx : map emb (compress idx) = @vcompress _ W idx.
Proof.
  unfold compress, vcompress. rewrite map_map. apply map_ext. intros [|s c]; [reflexivity|].
  cbn [encode_run vencode_run]. destruct (Nat.eqb c 1); reflexivity.
Qed.

Lemma efields_app l1 l2 : efields (l1 ++ l2) = efields l1 ++ efields l2.
Proof. unfold efields. apply map_app. Qed.

Lemma emb_finish d : @vfinish watom (efields d) = option_map emb (finish d).
Proof. destruct d as [|[k v] t]; [reflexivity|]. cbn [finish option_map]. rewrite emb_obj. reflexivity. Qed.

Lemma emb_opt_entry k o : vopt_entry k (option_map emb o) = efields (opt_entry k o).
Proof. destruct o; reflexivity. Qed.

(** Diff commutes, given that it does on the sub-values of [new]. *)
Definition commutes (v : json) : Prop := forall ov, @vdiff _ W (emb v) (emb ov) = option_map emb (diff v ov).

Lemma emb_diff_map o n :
  (forall k v, In (k, v) n -> commutes v) ->
  @vdiff_map _ W (efields o) (efields n) (@vobj_subs _ W (efields n)) = option_map emb (diff_map o n (obj_subs n)).
Proof.
  intros Hc. rewrite vdiff_map_eq, diff_map_eq, !emb_get_key, emb_eqb.
  destruct (negb (json_eqb (get_key o) (get_key n))).
  - cbn [option_map]. rewrite emb_mark_replaced, emb_obj. reflexivity.
  - rewrite <- emb_finish, efields_app. f_equal. f_equal.
    + unfold vremoved_entries, removed_entries. clear Hc.
      induction o as [|[k v] t IH]; [reflexivity|]. cbn [efields map flat_map fst snd].
      fold (efields t). rewrite IH, efields_app, has_key_efields. f_equal.
      unfold skipped. cbn. destruct (has_key k n); reflexivity.
    + unfold vchanged_entries, changed_entries, vobj_subs, obj_subs.
      induction n as [|[k v] t IH]; [reflexivity|]. cbn [efields map flat_map fst snd].
      fold (efields t). rewrite IH by (intros k' v' Hin; apply (Hc k'); right; exact Hin).
      rewrite efields_app. f_equal. unfold skipped. cbn [fix4 wops wopsL andb].
      rewrite lookup_efields. destruct (lookup k o) as [ov|]; cbn [option_map].
      * rewrite (Hc k v (or_introl eq_refl) ov). apply emb_opt_entry.
      * cbn [efields map fst snd]. rewrite emb_mark_replaced. reflexivity.
Qed.

Lemma emb_nth j o : nth j (map emb o) VNull = emb (nth j o JNull).
Proof. change (@VNull watom) with (emb JNull) at 1. apply map_nth. Qed.

Lemma emb_diff_elems o : forall n s idx,
  (forall v, In v n -> commutes v) ->
  @vdiff_elems watom (map emb o) s (@varr_subs _ W (map emb n)) idx = efields (diff_elems o s (arr_subs n) idx).
Proof.
  induction n as [|v t IH]; intros s idx Hc; [reflexivity|].
  destruct idx as [|j it]; [reflexivity|].
  cbn [map varr_subs arr_subs vdiff_elems diff_elems]. rewrite efields_app.
  fold (@varr_subs _ W (map emb t)). fold (arr_subs t).
  rewrite (IH (S s) it) by (intros v' Hin; apply Hc; right; exact Hin). f_equal.
  assert (E : match j with Some j' => nth j' (map emb o) VNull | None => VNull end
              = emb (match j with Some j' => nth j' o JNull | None => JNull end)).
  { destruct j; [apply emb_nth | reflexivity]. }
  rewrite E, (Hc v (or_introl eq_refl)). apply emb_opt_entry.
Qed.

Lemma emb_diff_array o n :
  (forall v, In v n -> commutes v) ->
  @vdiff_array _ W (map emb o) (map emb n) (@varr_subs _ W (map emb n)) = option_map emb (diff_array o n (arr_subs n)).
Proof.
  intros Hc. unfold vdiff_array, diff_array, vchoose. cbn [guide wops wopsL].
  rewrite emb_reorder_indices, !map_length, (emb_diff_elems o n 0 _ Hc), <- emb_finish, efields_app.
  f_equal. f_equal.
  destruct (negb (Nat.eqb (List.length o) (List.length (compute_reorder_indices o n))) || negb (order_is_identity 0 (compute_reorder_indices o n))); [|reflexivity].
  cbn [efields map fst snd]. rewrite emb_arr, emb_compress. reflexivity.
Qed.

Theorem emb_diff : forall new old, @vdiff _ W (emb new) (emb old) = option_map emb (diff new old).
Proof.
  induction new as [| x | z | s | l IH | l IH] using json_ind'; intros old.
  1-4: destruct old; try reflexivity;
       try (cbn [emb vdiff diff veqb json_eqb aeqb wops wopsL watom_eqb dyad_eqb];
            match goal with |- (if ?c then _ else _) = _ => destruct c; reflexivity end);
       try (rewrite emb_obj; reflexivity).
  - rewrite emb_arr, vdiff_arr, diff_arr. destruct old as [| b | z | s | o | o].
    1-4: cbn [emb option_map]; rewrite <- emb_arr, emb_mark_replaced; reflexivity.
    + rewrite emb_arr. apply emb_diff_array. intros v Hin ov. rewrite Forall_forall in IH. apply IH. exact Hin.
    + rewrite emb_obj. cbn [option_map]. rewrite <- emb_arr, emb_mark_replaced. reflexivity.
  - rewrite emb_obj, vdiff_obj, diff_obj. destruct old as [| b | z | s | o | o].
    1-4: cbn [emb option_map]; rewrite <- emb_obj, emb_mark_replaced; reflexivity.
    + rewrite emb_arr. cbn [option_map]. rewrite <- emb_obj, emb_mark_replaced. reflexivity.
    + rewrite emb_obj. apply emb_diff_map. intros k v Hin ov. rewrite Forall_forall in IH. apply (IH (k, v) Hin).
Qed.

Corollary emb_Diff old new : @VDiff _ W (emb old) (emb new) = option_map emb (Diff old new).
Proof. apply emb_diff. Qed.

(** Well-formedness and semantic equality transport. *)
Lemma emb_wf : forall j, @vwf_strict _ W (emb j) = wf j.
Proof.
  unfold vwf_strict.
  induction j as [| x | z | s | l IH | l IH] using json_ind'; try reflexivity.
  - rewrite emb_arr. cbn [vwf_gen wf]. induction IH as [|x t Hx Ht IHt]; [reflexivity|].
    cbn [map forallb]. rewrite Hx, IHt. reflexivity.
  - rewrite emb_obj, vwf_obj, wf_obj. unfold efields at 1. rewrite map_map. cbn [fst]. f_equal; [f_equal|].
    + unfold key_ok. rewrite lookup_efields. destruct (lookup key_name l) as [k|]; [|reflexivity].
      destruct k; reflexivity.
    + induction IH as [|[k v] t Hv Ht IHt]; [reflexivity|]. cbn [efields map fst snd vwf_fields wf_fields].
      cbn [snd] in Hv. rewrite Hv. fold (efields t). rewrite IHt. reflexivity.
Qed.

Lemma emb_jeq : forall a b, jeq a b -> vjeq (emb a) (emb b).
Proof.
  induction a as [| x | z | s | l IH | l IH] using json_ind'; intros b Hj.
  - inversion Hj; subst. constructor.
  - inversion Hj; subst. constructor.
  - inversion Hj; subst. constructor.
  - inversion Hj; subst. constructor.
  - inversion Hj as [| | | |? l2 Hf|]; subst. rewrite !emb_arr. constructor.
    clear Hj. revert l2 Hf. induction IH as [|x t Hx Ht IHt]; intros l2 Hf; inversion Hf; subst.
    + constructor.
    + cbn [map]. constructor; [apply Hx; assumption | apply IHt; assumption].
  - inversion Hj as [| | | | |? l2 Hl]; subst. rewrite !emb_obj. constructor. intros k. rewrite !lookup_efields. specialize (Hl k).
    destruct (lookup k l) as [v|] eqn:E; inversion Hl; subst; cbn [option_map]; constructor.
    rewrite Forall_forall in IH. apply lookup_in in E. apply (IH (k, v) E). assumption.
Qed.

Lemma jeq_emb : forall a b, vjeq (emb a) (emb b) -> jeq a b.
Proof.
  induction a as [| x | z | s | l IH | l IH] using json_ind'; intros b Hj.
  1-4: destruct b; rewrite ?emb_obj, ?emb_arr in Hj; cbn [emb] in Hj; inversion Hj; subst; constructor.
  - destruct b as [| | | | l2 | l2]; rewrite ?emb_obj, ?emb_arr in Hj; cbn [emb] in Hj; try (inversion Hj; fail).
    inversion Hj as [| |? ? Hf|]; subst. constructor.
    clear Hj. revert l2 Hf. induction IH as [|x t Hx Ht IHt]; intros l2 Hf; destruct l2; inversion Hf; subst; constructor; auto.
  - destruct b as [| | | | l2 | l2]; rewrite ?emb_obj, ?emb_arr in Hj; cbn [emb] in Hj; try (inversion Hj; fail).
    inversion Hj as [| | |? ? Hl]; subst. constructor. intros k. specialize (Hl k).
    rewrite !lookup_efields in Hl.
    destruct (lookup k l) as [v|] eqn:E, (lookup k l2) as [v2|]; cbn [option_map] in Hl; inversion Hl; subst; constructor.
    rewrite Forall_forall in IH. apply lookup_in in E. apply (IH (k, v) E). assumption.
Qed.

(** The doc comment of diff.Diff, for the model the Server properties use. *)
Theorem Diff_nil_iff_jeq old new : wf old = true -> wf new = true -> (Diff old new = None <-> jeq old new).
Proof.
  intros Ho Hn.
  assert (Hg : @guide _ W = None) by reflexivity.
  pose proof (vdiff_none_iff (wops_laws false) Hg (emb old) (emb new)) as H.
  rewrite emb_Diff in H. unfold vwf_strict in H. fold (@vwf_strict _ W (emb old)) in H. fold (@vwf_strict _ W (emb new)) in H.
  rewrite !emb_wf in H. specialize (H Ho Hn). split.
  - intros Hd. apply jeq_emb. apply H. rewrite Hd. reflexivity.
  - intros Hj. apply emb_jeq in Hj. apply H in Hj. destruct (Diff old new); [discriminate | reflexivity].
Qed.
