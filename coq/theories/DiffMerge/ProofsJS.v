(** Round trip for the JavaScript client's merge (client/src/merge.ts). *)
From Coq Require Import List ZArith String Bool Arith Lia.
From Thunder Require Import Lib.Json DiffMerge.Model DiffMerge.ProofsBase DiffMerge.ProofsUnfold
     DiffMerge.ProofsDiff DiffMerge.ProofsCompress DiffMerge.ProofsArray DiffMerge.ProofsMergeGo
     DiffMerge.ProofsArrayGo DiffMerge.ProofsMain.
Import ListNotations.
Open Scope string_scope.
Open Scope list_scope.

Definition RT_js (old new : json) : Prop :=
  match diff new old with
  | None => jeq (strip old) (strip new)
  | Some d => jeq (merge_js d (strip old)) (strip new)
  end.

Lemma diff_none_jeq old new : wf old = true -> wf new = true -> diff new old = None -> jeq (strip old) (strip new).
Proof. intros Ho Hn H. pose proof (roundtrip_go_all new old Ho Hn) as R. unfold RT_go in R. rewrite H in R. exact R. Qed.

(** * objects *)
Lemma lookup_set_key k k' v (l : list (string * json)) :
  lookup k (set_key k' v l) = if String.eqb k k' then Some v else lookup k l.
Proof.
  induction l as [|[k0 v0] t IH]; cbn [set_key lookup].
  - destruct (String.eqb k k'); reflexivity.
  - destruct (String.eqb k' k0) eqn:E0; cbn [lookup].
    + apply String.eqb_eq in E0. subst k0. destruct (String.eqb k k'); reflexivity.
    + rewrite IH. destruct (String.eqb k k0) eqn:E1; [|reflexivity].
      apply String.eqb_eq in E1. subst k0. destruct (String.eqb k k') eqn:E2; [|reflexivity].
      apply String.eqb_eq in E2. subst k'. rewrite String.eqb_refl in E0. discriminate.
Qed.

Lemma lookup_remove_key {A} k k' (l : list (string * A)) :
  lookup k (remove_key k' l) = if String.eqb k k' then None else lookup k l.
Proof.
  induction l as [|[k0 v0] t IH]; cbn [remove_key lookup].
  - destruct (String.eqb k k'); reflexivity.
  - destruct (String.eqb k' k0) eqn:E0.
    + apply String.eqb_eq in E0. subst k0. rewrite IH. destruct (String.eqb k k'); reflexivity.
    + cbn [lookup]. rewrite IH. destruct (String.eqb k k0) eqn:E1; [|reflexivity].
      apply String.eqb_eq in E1. subst k0. destruct (String.eqb k k') eqn:E2; [|reflexivity].
      apply String.eqb_eq in E2. subst k'. rewrite String.eqb_refl in E0. discriminate.
Qed.

Definition js_step (merged : list (string * json)) (e : string * (json * (json -> json))) :=
  match e with
  | (k, (dv, f)) =>
      if is_removed dv then remove_key k merged
      else set_key k (f (match lookup k merged with Some v => v | None => JNull end)) merged
  end.

Lemma js_object_eq p apps : js_object p apps = JObj (fold_left js_step apps p).
Proof. reflexivity. Qed.

Lemma js_fold_lookup apps : forall p k,
  NoDup (map fst apps) ->
  lookup k (fold_left js_step apps p) =
  match lookup k apps with
  | None => lookup k p
  | Some (dv, f) => if is_removed dv then None
                    else Some (f (match lookup k p with Some v => v | None => JNull end))
  end.
Proof.
  induction apps as [|[k0 [dv0 f0]] t IH]; intros p k Hnd; [reflexivity|].
  inversion Hnd as [|? ? Hnotin Hnd']; subst.
  cbn [fold_left]. rewrite IH by assumption. cbn [lookup].
  destruct (String.eqb k k0) eqn:E.
  - apply String.eqb_eq in E. subst k0. rewrite (notin_lookup_none k t Hnotin).
    cbn [js_step]. destruct (is_removed dv0).
    + rewrite lookup_remove_key, String.eqb_refl. reflexivity.
    + rewrite lookup_set_key, String.eqb_refl. reflexivity.
  - assert (Hp : lookup k (js_step p (k0, (dv0, f0))) = lookup k p).
    { cbn [js_step]. destruct (is_removed dv0); [rewrite lookup_remove_key | rewrite lookup_set_key]; rewrite E; reflexivity. }
    rewrite Hp. reflexivity.
Qed.

Lemma rt_obj_js o n :
  wf (JObj o) = true -> wf (JObj n) = true ->
  (forall k nv, lookup k n = Some nv -> forall old, wf old = true -> RT_js old nv) ->
  RT_js (JObj o) (JObj n).
Proof.
  intros Hwo Hwn IH.
  destruct (wf_obj_inv o Hwo) as [Hndo [Hko Hwfo]].
  destruct (wf_obj_inv n Hwn) as [Hndn [Hkn Hwfn]].
  unfold RT_js. destruct (diff (JObj n) (JObj o)) as [dj|] eqn:Ed.
  2: { apply diff_none_jeq; assumption. }
  rewrite diff_obj, diff_map_eq in Ed.
  destruct (json_eqb (get_key o) (get_key n)) eqn:Ek; cbn [negb] in Ed.
  2: { inversion Ed; subst. rewrite merge_js_mark_replaced. apply jeq_refl. }
  set (d := removed_entries o n ++ changed_entries o (obj_subs n)) in *.
  assert (Hd : forall k, lookup k d = delta_at o n k) by (intros; apply lookup_delta; assumption).
  assert (Hdk : delta_at o n key_name = None) by (apply delta_at_key; assumption).
  assert (dj = JObj d) by (destruct d; cbn [finish] in Ed; [discriminate | inversion Ed; reflexivity]). subst dj.
  rewrite !strip_obj, merge_js_obj, js_object_eq. constructor. intros k.
  rewrite js_fold_lookup.
  2: { unfold js_apps. rewrite map_map. cbn [fst]. apply delta_keys_nodup; assumption. }
  rewrite lookup_js_apps, Hd, !lookup_strip_fields.
  destruct (String.eqb k key_name) eqn:Ekk.
  - apply String.eqb_eq in Ekk. subst k. rewrite Hdk. constructor.
  - unfold delta_at. destruct (lookup k o) as [ov|] eqn:Eo; cbn [option_map].
    + destruct (lookup k n) as [nv|] eqn:En; cbn [option_map].
      * destruct (diff nv ov) as [dv|] eqn:Edf; cbn [option_map].
        -- rewrite (diff_not_removed _ _ _ Edf). constructor.
           specialize (IH k nv En ov (Hwfo _ _ Eo)). unfold RT_js in IH. rewrite Edf in IH. exact IH.
        -- constructor. apply diff_none_jeq; [apply (Hwfo _ _ Eo) | apply (Hwfn _ _ En) | exact Edf].
      * cbn [is_removed mark_removed]. constructor.
    + destruct (lookup k n) as [nv|] eqn:En; cbn [option_map].
      * rewrite mark_replaced_not_removed, merge_js_mark_replaced. constructor. apply jeq_refl.
      * constructor.
Qed.

(** * arrays *)
Definition js_elem (p : list json) (i : option nat) : json :=
  match i with None => JNull | Some j => nth j p JNull end.

Lemma js_reorder_run p r rest :
  run_ok r ->
  js_reorder p (encode_run r :: rest) =
  match r with RNeg => [JNull] | RRun s c => map (fun i => nth i p JNull) (seq s c) end ++ js_reorder p rest.
Proof.
  intros Hok. destruct r as [|s c]; cbn [encode_run].
  - reflexivity.
  - simpl in Hok. destruct (Nat.eqb_spec c 1) as [->|Hc].
    + unfold jnat. cbn [js_reorder]. destruct (Z.eqb_spec (Z.of_nat s) (-1)); [lia|].
      unfold js_index. rewrite z_index_of_nat. reflexivity.
    + unfold jnat. cbn [js_reorder]. rewrite !z_index_of_nat. reflexivity.
Qed.

Lemma js_reorder_cons p i acc :
  Forall run_ok acc ->
  js_reorder p (map encode_run (cons_index i acc)) = js_elem p i :: js_reorder p (map encode_run acc).
Proof.
  intros Hok. destruct i as [a|]; cbn [cons_index js_elem].
  - destruct acc as [|[|s c] rest].
    + cbn [map]. rewrite (js_reorder_run p (RRun a 1)) by (simpl; lia). reflexivity.
    + cbn [map]. rewrite (js_reorder_run p (RRun a 1)) by (simpl; lia). reflexivity.
    + destruct (Nat.eqb_spec s (S a)) as [->|Hne].
      * inversion Hok as [|? ? Hc Hrest]; subst. simpl in Hc.
        cbn [map]. rewrite (js_reorder_run p (RRun a (S c))) by (simpl; lia).
        rewrite (js_reorder_run p (RRun (S a) c)) by (simpl; lia). reflexivity.
      * cbn [map]. rewrite (js_reorder_run p (RRun a 1)) by (simpl; lia). reflexivity.
  - cbn [map]. rewrite (js_reorder_run p RNeg) by exact I. reflexivity.
Qed.

Lemma js_reorder_compress p idx : js_reorder p (compress idx) = map (js_elem p) idx.
Proof.
  unfold compress. induction idx as [|i t IH]; [reflexivity|].
  cbn [runs_of fold_right map]. rewrite js_reorder_cons by apply runs_of_ok.
  fold (runs_of t). rewrite IH. reflexivity.
Qed.

Lemma js_elem_strip o j : js_elem (map strip o) j = strip (oldI o j).
Proof.
  destruct j as [j|]; cbn [js_elem oldI]; [|reflexivity].
  change JNull with (strip JNull) at 1. apply map_nth.
Qed.

Lemma js_apply_elems_spec o apps : forall n idx s,
  List.length idx = List.length n ->
  (forall i v j, nth_error n i = Some v -> nth_error idx i = Some j ->
                 lookup (dec (s + i)) apps = option_map (fun dv => (dv, merge_js dv)) (diff v (oldI o j))) ->
  (forall i v j, nth_error n i = Some v -> nth_error idx i = Some j -> RT_js (oldI o j) v) ->
  Forall2 jeq (js_apply_elems s (map (fun j => strip (oldI o j)) idx) apps) (map strip n).
Proof.
  induction n as [|v t IH]; intros idx s Hlen Hl Hrt.
  - destruct idx; [constructor | discriminate].
  - destruct idx as [|j it]; [discriminate|]. cbn [List.length] in Hlen.
    cbn [map js_apply_elems].
    specialize (Hl 0 v j eq_refl eq_refl) as Hl0. rewrite Nat.add_0_r in Hl0. rewrite Hl0.
    specialize (Hrt 0 v j eq_refl eq_refl) as Hrt0. unfold RT_js in Hrt0.
    constructor.
    + destruct (diff v (oldI o j)) as [dv|]; cbn [option_map]; exact Hrt0.
    + apply IH; [lia | |].
      * intros i v' j' Hn Hi. replace (S s + i) with (s + S i) by lia. apply Hl; assumption.
      * intros i v' j' Hn Hi. apply (Hrt (S i)); assumption.
Qed.

Lemma rt_arr_js o n :
  wf (JArr o) = true -> wf (JArr n) = true ->
  (forall v, In v n -> forall old, wf old = true -> RT_js old v) ->
  RT_js (JArr o) (JArr n).
Proof.
  intros Hwo Hwn IH.
  unfold RT_js. destruct (diff (JArr n) (JArr o)) as [dj|] eqn:Ed.
  2: { apply diff_none_jeq; assumption. }
  apply wf_arr_inv in Hwo.
  rewrite diff_arr in Ed. unfold diff_array in Ed.
  set (idx := compute_reorder_indices o n) in *.
  assert (Hlen : List.length idx = List.length n) by apply reorder_indices_length.
  set (oc := negb (Nat.eqb (List.length o) (List.length idx)) || negb (order_is_identity 0 idx)) in *.
  set (el := diff_elems o 0 (arr_subs n) idx) in *.
  assert (Hrt : forall i v j, nth_error n i = Some v -> nth_error idx i = Some j -> RT_js (oldI o j) v).
  { intros i v j Hn _. apply IH; [eapply nth_error_In; exact Hn | apply wf_oldI; exact Hwo]. }
  assert (Hbase : oc = false -> map (fun j => strip (oldI o j)) idx = map strip o).
  { unfold oc. intros H. apply orb_false_iff in H as [H1 H2].
    apply negb_false_iff in H1. apply negb_false_iff in H2. apply Nat.eqb_eq in H1.
    rewrite (order_identity 0 idx H2), map_map, <- H1. cbn [oldI]. apply (map_nth_seq strip JNull o). }
  set (d := (if oc then [(dollar, JArr (compress idx))] else []) ++ el) in *.
  assert (dj = JObj d) by (destruct d; cbn [finish] in Ed; [discriminate | inversion Ed; reflexivity]). subst dj.
  rewrite !strip_arr, merge_js_obj. unfold js_array.
  assert (Hbase' : (match lookup dollar (js_apps d) with
                    | Some (JArr c, _) => js_reorder (map strip o) c
                    | _ => map strip o
                    end) = map (fun j => strip (oldI o j)) idx).
  { rewrite lookup_js_apps. unfold d. rewrite lookup_app. destruct oc eqn:Eoc.
    - cbn [lookup]. rewrite String.eqb_refl. cbn [option_map]. rewrite js_reorder_compress.
      apply map_ext. intros j. apply js_elem_strip.
    - cbn [lookup]. unfold el. rewrite lookup_diff_elems_dollar. cbn [option_map].
      rewrite Hbase by reflexivity. reflexivity. }
  rewrite Hbase'. constructor.
  apply js_apply_elems_spec; [exact Hlen | | exact Hrt].
  intros i v j Hn Hi. rewrite lookup_remove_key.
  destruct (String.eqb (dec (0 + i)) dollar) eqn:E.
  { apply String.eqb_eq in E. apply dec_not_dollar in E. contradiction. }
  rewrite lookup_js_apps. unfold d. rewrite lookup_app.
  assert (Hdl : lookup (dec (0 + i)) (if oc then [(dollar, JArr (compress idx))] else []) = None).
  { destruct oc; [|reflexivity]. cbn [lookup]. rewrite E. reflexivity. }
  rewrite Hdl. unfold el. rewrite (lookup_diff_elems o n 0 idx i v j Hn Hi). reflexivity.
Qed.

Lemma rt_replaced_js old new : diff new old = Some (mark_replaced new) -> RT_js old new.
Proof. intros H. unfold RT_js. rewrite H, merge_js_mark_replaced. apply jeq_refl. Qed.

Lemma rt_leaf_js old new :
  (match new with JArr _ | JObj _ => False | _ => True end) -> RT_js old new.
Proof.
  intros Hleaf. destruct new; try contradiction;
    (destruct old; try (apply rt_replaced_js; reflexivity);
     unfold RT_js; cbn [diff];
     match goal with |- context [json_eqb ?a ?b] => destruct (json_eqb a b) eqn:E end;
     [apply json_eqb_eq in E; try (inversion E; subst); apply jeq_refl
     | rewrite merge_js_mark_replaced; apply jeq_refl]).
Qed.

Theorem roundtrip_js_all : forall new old, wf old = true -> wf new = true -> RT_js old new.
Proof.
  induction new as [| b | z | s | l IH | l IH] using json_ind'; intros old Hwo Hwn.
  1-4: apply rt_leaf_js; exact I.
  - destruct old; try (apply rt_replaced_js; rewrite diff_arr; reflexivity).
    apply rt_arr_js; auto. intros v Hin old' Hwo'. rewrite Forall_forall in IH.
    apply IH; auto. apply wf_arr_inv in Hwn. rewrite Forall_forall in Hwn. apply Hwn. exact Hin.
  - destruct old; try (apply rt_replaced_js; rewrite diff_obj; reflexivity).
    apply rt_obj_js; auto. intros k nv Hk old' Hwo'. rewrite Forall_forall in IH.
    apply (IH (k, nv)); auto.
    + apply lookup_in. exact Hk.
    + destruct (wf_obj_inv l Hwn) as [_ [_ Hwf]]. apply (Hwf k). exact Hk.
Qed.
