(** Round trip for the JavaScript client's vmerge (client/src/vmerge.ts). *)
From Coq Require Import List ZArith String Bool Arith Lia.
From Thunder Require Import Lib.Json DiffMerge.Model DiffMerge.ProofsBase DiffMerge.ProofsUnfold DiffMerge.ProofsCompress DiffMerge.ProofsArray DiffMerge.ProofsJS
     DiffMerge.GModel DiffMerge.GBase DiffMerge.GUnfold DiffMerge.GDiff DiffMerge.GCompress DiffMerge.GArray DiffMerge.GMergeGo DiffMerge.GArrayGo DiffMerge.GMain.
Import ListNotations.
Open Scope string_scope.
Open Scope list_scope.

Section S.
Context {A : Type} {O : atom_ops A} (L : atom_laws O) (strict : bool).
Notation val := (val A).
Notation wfs := (vwf_gen strict).

Definition vRT_js (old new : val) : Prop :=
  match vdiff new old with
  | None => vjeq (vstrip old) (vstrip new)
  | Some d => vjeq (vmerge_js d (vstrip old)) (vstrip new)
  end.

Lemma vdiff_none_jeq old new : fix4 || strict = true -> wfs old = true -> wfs new = true -> vdiff new old = None -> vjeq (vstrip old) (vstrip new).
Proof. intros Hmode Ho Hn H. pose proof (vroundtrip_go_all L strict Hmode new old Ho Hn) as R. unfold vRT_go in R. rewrite H in R. exact R. Qed.

(** * objects *)
Lemma vlookup_set_key k k' v (l : list (string * val)) :
  lookup k (vset_key k' v l) = if String.eqb k k' then Some v else lookup k l.
Proof.
  induction l as [|[k0 v0] t IH]; cbn [vset_key lookup].
  - destruct (String.eqb k k'); reflexivity.
  - destruct (String.eqb k' k0) eqn:E0; cbn [lookup].
    + apply String.eqb_eq in E0. subst k0. destruct (String.eqb k k'); reflexivity.
    + rewrite IH. destruct (String.eqb k k0) eqn:E1; [|reflexivity].
      apply String.eqb_eq in E1. subst k0. destruct (String.eqb k k') eqn:E2; [|reflexivity].
      apply String.eqb_eq in E2. subst k'. rewrite String.eqb_refl in E0. discriminate.
Qed.


Definition vjs_step (merged : list (string * val)) (e : string * (val * (val -> val))) :=
  match e with
  | (k, (dv, f)) =>
      if vis_removed dv then remove_key k merged
      else vset_key k (f (match lookup k merged with Some v => v | None => VNull end)) merged
  end.

Lemma vjs_object_eq p apps : vjs_object p apps = VObj (fold_left vjs_step apps p).
Proof. reflexivity. Qed.

Lemma vjs_fold_lookup apps : forall p k,
  NoDup (map fst apps) ->
  lookup k (fold_left vjs_step apps p) =
  match lookup k apps with
  | None => lookup k p
  | Some (dv, f) => if vis_removed dv then None
                    else Some (f (match lookup k p with Some v => v | None => VNull end))
  end.
Proof.
  induction apps as [|[k0 [dv0 f0]] t IH]; intros p k Hnd; [reflexivity|].
  inversion Hnd as [|? ? Hnotin Hnd']; subst.
  cbn [fold_left]. rewrite IH by assumption. cbn [lookup].
  destruct (String.eqb k k0) eqn:E.
  - apply String.eqb_eq in E. subst k0. rewrite (notin_lookup_none k t Hnotin).
    cbn [vjs_step]. destruct (vis_removed dv0).
    + rewrite lookup_remove_key, String.eqb_refl. reflexivity.
    + rewrite vlookup_set_key, String.eqb_refl. reflexivity.
  - assert (Hp : lookup k (vjs_step p (k0, (dv0, f0))) = lookup k p).
    { cbn [vjs_step]. destruct (vis_removed dv0); [rewrite lookup_remove_key | rewrite vlookup_set_key]; rewrite E; reflexivity. }
    rewrite Hp. reflexivity.
Qed.

Lemma vrt_obj_js o n :
  fix4 || strict = true ->
  wfs (VObj o) = true -> wfs (VObj n) = true ->
  (forall k nv, lookup k n = Some nv -> forall old, wfs old = true -> vRT_js old nv) ->
  vRT_js (VObj o) (VObj n).
Proof.
  intros Hmode Hwo Hwn IH.
  destruct (vwf_obj_inv strict o Hwo) as [Hndo [Hko Hwfo]].
  destruct (vwf_obj_inv strict n Hwn) as [Hndn [Hkn Hwfn]].
  unfold vRT_js. destruct (vdiff (VObj n) (VObj o)) as [dj|] eqn:Ed.
  2: { apply vdiff_none_jeq; assumption. }
  rewrite vdiff_obj, vdiff_map_eq in Ed.
  destruct (veqb (vget_key o) (vget_key n)) eqn:Ek; cbn [negb] in Ed.
  2: { inversion Ed; subst. rewrite vmerge_js_mark_replaced. apply vjeq_refl. }
  set (d := vremoved_entries o n ++ vchanged_entries o (vobj_subs n)) in *.
  assert (Hd : forall k, lookup k d = vdelta_at o n k) by (intros; apply vlookup_delta; assumption).
  assert (Hdk : vdelta_at o n key_name = None) by (apply (vdelta_at_key L strict); assumption).
  assert (dj = VObj d) by (destruct d; cbn [vfinish] in Ed; [discriminate | inversion Ed; reflexivity]). subst dj.
  rewrite !vstrip_obj, vmerge_js_obj, vjs_object_eq. constructor. intros k.
  rewrite vjs_fold_lookup.
  2: { unfold vjs_apps. rewrite map_map. cbn [fst]. apply vdelta_keys_nodup; assumption. }
  rewrite vlookup_js_apps, Hd, !vlookup_strip_fields.
  destruct (String.eqb k key_name) eqn:Ekk.
  - apply String.eqb_eq in Ekk. subst k. rewrite Hdk. constructor.
  - unfold vdelta_at. rewrite (skipped_other k Ekk). destruct (lookup k o) as [ov|] eqn:Eo; cbn [option_map].
    + destruct (lookup k n) as [nv|] eqn:En; cbn [option_map].
      * destruct (vdiff nv ov) as [dv|] eqn:Edf; cbn [option_map].
        -- rewrite (vdiff_not_removed _ _ _ Edf). constructor.
           specialize (IH k nv En ov (Hwfo _ _ Eo)). unfold vRT_js in IH. rewrite Edf in IH. exact IH.
        -- constructor. apply vdiff_none_jeq; [exact Hmode | apply (Hwfo _ _ Eo) | apply (Hwfn _ _ En) | exact Edf].
      * cbn [vis_removed vmark_removed]. constructor.
    + destruct (lookup k n) as [nv|] eqn:En; cbn [option_map].
      * rewrite vmark_replaced_not_removed, vmerge_js_mark_replaced. constructor. apply vjeq_refl.
      * constructor.
Qed.

(** * arrays *)
Definition vjs_elem (p : list val) (i : option nat) : val :=
  match i with None => VNull | Some j => nth j p VNull end.

Lemma vjs_reorder_run p r rest :
  run_ok r ->
  vjs_reorder p (vencode_run r :: rest) =
  match r with RNeg => [VNull] | RRun s c => map (fun i => nth i p VNull) (seq s c) end ++ vjs_reorder p rest.
Proof.
  intros Hok. destruct r as [|s c]; cbn [vencode_run].
  - unfold vnum. cbn [vjs_reorder]. rewrite (as_num_num O L). reflexivity.
  - simpl in Hok. destruct (Nat.eqb_spec c 1) as [->|Hc].
    + unfold vnat, vnum. cbn [vjs_reorder]. rewrite (as_num_num O L).
      destruct (Z.eqb_spec (Z.of_nat s) (-1)); [lia|].
      unfold vjs_index. rewrite z_index_of_nat. reflexivity.
    + unfold vnat, vnum. cbn [vjs_reorder vas_num]. rewrite !(as_num_num O L), run_indices_nat, map_map.
      f_equal. apply map_ext. intros i. unfold vjs_index. rewrite z_index_of_nat. reflexivity.
Qed.

Lemma vjs_reorder_cons p i acc :
  Forall run_ok acc ->
  vjs_reorder p (map vencode_run (cons_index i acc)) = vjs_elem p i :: vjs_reorder p (map vencode_run acc).
Proof.
  intros Hok. destruct i as [a|]; cbn [cons_index vjs_elem].
  - destruct acc as [|[|s c] rest].
    + cbn [map]. rewrite (vjs_reorder_run p (RRun a 1)) by (simpl; lia). reflexivity.
    + cbn [map]. rewrite (vjs_reorder_run p (RRun a 1)) by (simpl; lia). reflexivity.
    + destruct (Nat.eqb_spec s (S a)) as [->|Hne].
      * inversion Hok as [|? ? Hc Hrest]; subst. simpl in Hc.
        cbn [map]. rewrite (vjs_reorder_run p (RRun a (S c))) by (simpl; lia).
        rewrite (vjs_reorder_run p (RRun (S a) c)) by (simpl; lia). reflexivity.
      * cbn [map]. rewrite (vjs_reorder_run p (RRun a 1)) by (simpl; lia). reflexivity.
  - cbn [map]. rewrite (vjs_reorder_run p RNeg) by exact I. reflexivity.
Qed.

Lemma vjs_reorder_compress p idx : vjs_reorder p (vcompress idx) = map (vjs_elem p) idx.
Proof.
  unfold vcompress. induction idx as [|i t IH]; [reflexivity|].
  cbn [runs_of fold_right map]. rewrite vjs_reorder_cons by apply runs_of_ok.
  fold (runs_of t). rewrite IH. reflexivity.
Qed.

Lemma vjs_elem_strip o j : vjs_elem (map vstrip o) j = vstrip (voldI o j).
Proof.
  destruct j as [j|]; cbn [vjs_elem voldI]; [|reflexivity].
  change (@VNull A) with (vstrip (@VNull A)) at 1. apply map_nth.
Qed.

Lemma vjs_apply_elems_spec o apps : forall n idx s,
  List.length idx = List.length n ->
  (forall i v j, nth_error n i = Some v -> nth_error idx i = Some j ->
                 lookup (dec (s + i)) apps = option_map (fun dv => (dv, vmerge_js dv)) (vdiff v (voldI o j))) ->
  (forall i v j, nth_error n i = Some v -> nth_error idx i = Some j -> vRT_js (voldI o j) v) ->
  Forall2 vjeq (vjs_apply_elems s (map (fun j => vstrip (voldI o j)) idx) apps) (map vstrip n).
Proof.
  induction n as [|v t IH]; intros idx s Hlen Hl Hrt.
  - destruct idx; [constructor | discriminate].
  - destruct idx as [|j it]; [discriminate|]. cbn [List.length] in Hlen.
    cbn [map vjs_apply_elems].
    specialize (Hl 0 v j eq_refl eq_refl) as Hl0. rewrite Nat.add_0_r in Hl0. rewrite Hl0.
    specialize (Hrt 0 v j eq_refl eq_refl) as Hrt0. unfold vRT_js in Hrt0.
    constructor.
    + destruct (vdiff v (voldI o j)) as [dv|]; cbn [option_map]; exact Hrt0.
    + apply IH; [lia | |].
      * intros i v' j' Hn Hi. replace (S s + i) with (s + S i) by lia. apply Hl; assumption.
      * intros i v' j' Hn Hi. apply (Hrt (S i)); assumption.
Qed.

Lemma vrt_arr_js o n :
  fix4 || strict = true ->
  wfs (VArr o) = true -> wfs (VArr n) = true ->
  (forall v, In v n -> forall old, wfs old = true -> vRT_js old v) ->
  vRT_js (VArr o) (VArr n).
Proof.
  intros Hmode Hwo Hwn IH.
  unfold vRT_js. destruct (vdiff (VArr n) (VArr o)) as [dj|] eqn:Ed.
  2: { apply vdiff_none_jeq; assumption. }
  apply vwf_arr_inv in Hwo.
  rewrite vdiff_arr in Ed. unfold vdiff_array in Ed.
  set (idx := vchoose o n) in *.
  assert (Hlen : List.length idx = List.length n) by apply vchoose_length.
  set (oc := negb (Nat.eqb (List.length o) (List.length idx)) || negb (order_is_identity 0 idx)) in *.
  set (el := vdiff_elems o 0 (varr_subs n) idx) in *.
  assert (Hrt : forall i v j, nth_error n i = Some v -> nth_error idx i = Some j -> vRT_js (voldI o j) v).
  { intros i v j Hn _. apply IH; [eapply nth_error_In; exact Hn | apply vwf_oldI; exact Hwo]. }
  assert (Hbase : oc = false -> map (fun j => vstrip (voldI o j)) idx = map vstrip o).
  { unfold oc. intros H. apply orb_false_iff in H as [H1 H2].
    apply negb_false_iff in H1. apply negb_false_iff in H2. apply Nat.eqb_eq in H1.
    rewrite (order_identity 0 idx H2), map_map, <- H1. cbn [voldI]. apply (map_nth_seq vstrip VNull o). }
  set (d := (if oc then [(dollar, VArr (vcompress idx))] else []) ++ el) in *.
  assert (dj = VObj d) by (destruct d; cbn [vfinish] in Ed; [discriminate | inversion Ed; reflexivity]). subst dj.
  rewrite !vstrip_arr, vmerge_js_obj. unfold vjs_array.
  assert (Hbase' : (match lookup dollar (vjs_apps d) with
                    | Some (VArr c, _) => vjs_reorder (map vstrip o) c
                    | _ => map vstrip o
                    end) = map (fun j => vstrip (voldI o j)) idx).
  { rewrite vlookup_js_apps. unfold d. rewrite lookup_app. destruct oc eqn:Eoc.
    - cbn [lookup]. rewrite String.eqb_refl. cbn [option_map]. rewrite vjs_reorder_compress.
      apply map_ext. intros j. apply vjs_elem_strip.
    - cbn [lookup]. unfold el. rewrite vlookup_diff_elems_dollar. cbn [option_map].
      rewrite Hbase by reflexivity. reflexivity. }
  rewrite Hbase'. constructor.
  apply vjs_apply_elems_spec; [exact Hlen | | exact Hrt].
  intros i v j Hn Hi. rewrite lookup_remove_key.
  destruct (String.eqb (dec (0 + i)) dollar) eqn:E.
  { apply String.eqb_eq in E. apply dec_not_dollar in E. contradiction. }
  rewrite vlookup_js_apps. unfold d. rewrite lookup_app.
  assert (Hdl : lookup (dec (0 + i)) (if oc then [(dollar, VArr (vcompress idx))] else []) = None).
  { destruct oc; [|reflexivity]. cbn [lookup]. rewrite E. reflexivity. }
  rewrite Hdl. unfold el. rewrite (vlookup_diff_elems o n 0 idx i v j Hn Hi). reflexivity.
Qed.

Lemma vrt_replaced_js old new : vdiff new old = Some (vmark_replaced new) -> vRT_js old new.
Proof. intros H. unfold vRT_js. rewrite H, vmerge_js_mark_replaced. apply vjeq_refl. Qed.

Lemma vrt_leaf_js (old new : val) :
  (match new with VArr _ | VObj _ => False | _ => True end) -> vRT_js old new.
Proof.
  intros Hleaf. destruct new; try contradiction;
    (destruct old; try (apply vrt_replaced_js; reflexivity);
     unfold vRT_js; cbn [vdiff];
     match goal with |- context [veqb ?a ?b] => destruct (veqb a b) eqn:E end;
     [apply (veqb_eq L) in E; try (inversion E; subst); apply vjeq_refl
     | rewrite vmerge_js_mark_replaced; apply vjeq_refl]).
Qed.

Theorem vroundtrip_js_all :
  fix4 || strict = true ->
  forall new old : val, wfs old = true -> wfs new = true -> vRT_js old new.
Proof.
  intros Hmode.
  induction new as [| a | l IH | l IH] using val_ind'; intros old Hwo Hwn.
  1-2: apply vrt_leaf_js; exact I.
  - destruct old; try (apply vrt_replaced_js; rewrite vdiff_arr; reflexivity).
    apply vrt_arr_js; auto. intros v Hin old' Hwo'. rewrite Forall_forall in IH.
    apply IH; auto. apply vwf_arr_inv in Hwn. rewrite Forall_forall in Hwn. apply Hwn. exact Hin.
  - destruct old; try (apply vrt_replaced_js; rewrite vdiff_obj; reflexivity).
    apply vrt_obj_js; auto. intros k nv Hk old' Hwo'. rewrite Forall_forall in IH.
    apply (IH (k, nv)); auto.
    + apply lookup_in. exact Hk.
    + destruct (vwf_obj_inv strict l Hwn) as [_ [_ Hwf]]. apply (Hwf k). exact Hk.
Qed.
End S.
