(** uncompress (compress idx) = idx, for every index list. *)
From Coq Require Import List ZArith String Bool Arith Lia.
From Thunder Require Import Lib.Json DiffMerge.Model.
Import ListNotations.
Open Scope list_scope.

Definition run_ok (r : run) : Prop := match r with RNeg => True | RRun _ c => 1 <= c end.

Lemma z_index_of_nat n : z_index (Z.of_nat n) = Some n.
Proof.
  unfold z_index. destruct (Z.ltb_spec (Z.of_nat n) 0); [lia|]. rewrite Nat2Z.id. reflexivity.
Qed.

Lemma cons_index_ok i acc : Forall run_ok acc -> Forall run_ok (cons_index i acc).
Proof.
  intros H. destruct i as [a|]; simpl.
  - destruct acc as [|[|s c] rest].
    + repeat constructor.
    + constructor; simpl; auto.
    + destruct (Nat.eqb s (S a)).
      * inversion H; subst. constructor; simpl in *; auto; lia.
      * constructor; simpl; auto.
  - constructor; simpl; auto.
Qed.

Lemma runs_of_ok idx : Forall run_ok (runs_of idx).
Proof. induction idx; simpl; [constructor | apply cons_index_ok; auto]. Qed.

Lemma uncompress_run r rest :
  run_ok r ->
  uncompress (encode_run r :: rest) =
  match uncompress rest with
  | None => None
  | Some l => Some (match r with RNeg => [None] | RRun s c => map Some (seq s c) end ++ l)
  end.
Proof.
  intros Hok. cbn [uncompress]. destruct (uncompress rest) as [l|]; [|reflexivity].
  destruct r as [|s c]; cbn [encode_run].
  - reflexivity.
  - simpl in Hok. destruct (Nat.eqb_spec c 1) as [->|Hc].
    + unfold jnat. destruct (Z.eqb_spec (Z.of_nat s) (-1)); [lia|]. rewrite z_index_of_nat. reflexivity.
    + unfold jnat. rewrite !z_index_of_nat. reflexivity.
Qed.

Lemma uncompress_runs_cons i acc :
  Forall run_ok acc ->
  uncompress (map encode_run (cons_index i acc)) =
  match uncompress (map encode_run acc) with None => None | Some l => Some (i :: l) end.
Proof.
  intros Hok. destruct i as [a|]; cbn [cons_index].
  - destruct acc as [|[|s c] rest].
    + cbn [map]. rewrite (uncompress_run (RRun a 1)) by (simpl; lia). reflexivity.
    + cbn [map]. rewrite (uncompress_run (RRun a 1)) by (simpl; lia).
      destruct (uncompress (encode_run RNeg :: map encode_run rest)); reflexivity.
    + destruct (Nat.eqb_spec s (S a)) as [->|Hne].
      * inversion Hok as [|? ? Hc Hrest]; subst. simpl in Hc.
        cbn [map]. rewrite (uncompress_run (RRun a (S c))) by (simpl; lia).
        rewrite (uncompress_run (RRun (S a) c)) by (simpl; lia).
        destruct (uncompress (map encode_run rest)); reflexivity.
      * cbn [map]. rewrite (uncompress_run (RRun a 1)) by (simpl; lia).
        destruct (uncompress (encode_run (RRun s c) :: map encode_run rest)); reflexivity.
  - cbn [map]. rewrite (uncompress_run RNeg) by exact I.
    destruct (uncompress (map encode_run acc)); reflexivity.
Qed.

Lemma uncompress_compress idx : uncompress (compress idx) = Some idx.
Proof.
  unfold compress. induction idx as [|i t IH]; [reflexivity|].
  cbn [runs_of fold_right]. rewrite uncompress_runs_cons by apply runs_of_ok.
  fold (runs_of t). rewrite IH. reflexivity.
Qed.
