(** Executable model of diff/diff.go, merge/merge.go and client/src/merge.ts.
    One definition per Go/TS function; see DESIGN.md section 7 (C03). *)
From Coq Require Import List ZArith String Ascii Bool Arith Lia DecimalString.
From Thunder Require Import Lib.Json.
Import ListNotations.
Open Scope string_scope.
Open Scope list_scope.

Definition key_name : string := "__key".
Definition dollar : string := "$".

(** fmt.Sprint(i) for a non-negative int. *)
Definition dec (n : nat) : string := NilZero.string_of_uint (Nat.to_uint n).

(** diff.StripKey *)
Fixpoint strip (j : json) : json :=
  match j with
  | JArr l => JArr (map strip l)
  | JObj l => JObj ((fix go (l : list (string * json)) :=
                       match l with
                       | [] => []
                       | (k, v) :: t => if String.eqb k key_name then go t else (k, strip v) :: go t
                       end) l)
  | _ => j
  end.

(** diff.markReplaced: scalars pass through, everything else (null included) is wrapped. *)
Definition mark_replaced (j : json) : json :=
  if is_scalar j then j else JArr [strip j].

Definition mark_removed : json := JArr [].

(** old["__key"] : missing reads as nil. *)
Definition get_key (l : list (string * json)) : json :=
  match lookup key_name l with Some k => k | None => JNull end.

(** diff.reorderKey; JNull stands for Go's nil key. *)
Definition reorder_key (j : json) : json :=
  match j with
  | JObj l => get_key l
  | JArr _ => JNull
  | _ => j
  end.

(** diff.computeReorderIndices: [unused] holds the not yet consumed old positions with their keys. *)
Fixpoint take_first (k : json) (unused : list (json * nat)) : option (nat * list (json * nat)) :=
  match unused with
  | [] => None
  | (k', i) :: t =>
      if json_eqb k k' then Some (i, t)
      else match take_first k t with
           | Some (j, t') => Some (j, (k', i) :: t')
           | None => None
           end
  end.

Fixpoint index_from {A} (n : nat) (l : list A) : list (A * nat) :=
  match l with [] => [] | x :: t => (x, n) :: index_from (S n) t end.

Fixpoint reorder_go (unused : list (json * nat)) (new : list json) : list (option nat) :=
  match new with
  | [] => []
  | x :: t =>
      match take_first (reorder_key x) unused with
      | Some (i, unused') => Some i :: reorder_go unused' t
      | None => None :: reorder_go unused t
      end
  end.

Definition compute_reorder_indices (old new : list json) : list (option nat) :=
  reorder_go (index_from 0 (map reorder_key old)) new.

(** diff.compressReorderIndices: maximal runs of consecutive indices. *)
Inductive run := RNeg | RRun (start count : nat).

Definition cons_index (i : option nat) (acc : list run) : list run :=
  match i with
  | None => RNeg :: acc
  | Some a =>
      match acc with
      | RRun s c :: rest => if Nat.eqb s (S a) then RRun a (S c) :: rest else RRun a 1 :: acc
      | _ => RRun a 1 :: acc
      end
  end.

Definition runs_of (idx : list (option nat)) : list run := fold_right cons_index [] idx.

Definition jnat (n : nat) : json := JNum (Z.of_nat n).

Definition encode_run (r : run) : json :=
  match r with
  | RNeg => JNum (-1)
  | RRun s c => if Nat.eqb c 1 then jnat s else JArr [jnat s; jnat c]
  end.

Definition compress (idx : list (option nat)) : list json := map encode_run (runs_of idx).

Fixpoint order_is_identity (n : nat) (idx : list (option nat)) : bool :=
  match idx with
  | [] => true
  | Some i :: t => Nat.eqb i n && order_is_identity (S n) t
  | None :: _ => false
  end.

Definition opt_entry (k : string) (o : option json) : list (string * json) :=
  match o with Some d => [(k, d)] | None => [] end.

Definition finish (d : list (string * json)) : option json :=
  match d with [] => None | _ => Some (JObj d) end.

(** diff.diffMap, both arguments already known to be objects.  [subs] pairs every
    field of [new] with the partially applied recursive call. *)
Definition diff_map (o n : list (string * json))
           (subs : list (string * (json * (json -> option json)))) : option json :=
  if negb (json_eqb (get_key o) (get_key n)) then Some (mark_replaced (JObj n))
  else
    let removed := flat_map (fun kv => if has_key (fst kv) n then [] else [(fst kv, mark_removed)]) o in
    let changed := flat_map (fun e =>
                      match e with
                      | (k, (v, dv)) =>
                          match lookup k o with
                          | Some ov => opt_entry k (dv ov)
                          | None => [(k, mark_replaced v)]
                          end
                      end) subs in
    finish (removed ++ changed).

Fixpoint diff_elems (o : list json) (i : nat) (subs : list (json * (json -> option json)))
         (idx : list (option nat)) : list (string * json) :=
  match subs, idx with
  | (v, dv) :: st, j :: it =>
      let oldI := match j with Some j' => nth j' o JNull | None => JNull end in
      opt_entry (dec i) (dv oldI) ++ diff_elems o (S i) st it
  | _, _ => []
  end.

(** diff.diffArray, both arguments already known to be arrays. *)
Definition diff_array (o n : list json) (subs : list (json * (json -> option json))) : option json :=
  let idx := compute_reorder_indices o n in
  let order_changed := negb (Nat.eqb (List.length o) (List.length idx)) || negb (order_is_identity 0 idx) in
  let d := (if order_changed then [(dollar, JArr (compress idx))] else []) ++ diff_elems o 0 subs idx in
  finish d.

(** diff.Diff.  [None] is Go's nil ("no change").  Structural recursion on [new]. *)
Fixpoint diff (new : json) {struct new} : json -> option json :=
  match new with
  | JObj n =>
      let subs := (fix go (l : list (string * json)) :=
                     match l with
                     | [] => []
                     | (k, v) :: t => (k, (v, diff v)) :: go t
                     end) n in
      fun old => match old with
                 | JObj o => diff_map o n subs
                 | _ => Some (mark_replaced new)
                 end
  | JArr n =>
      let subs := (fix go (l : list json) :=
                     match l with
                     | [] => []
                     | v :: t => (v, diff v) :: go t
                     end) n in
      fun old => match old with
                 | JArr o => diff_array o n subs
                 | _ => Some (mark_replaced new)
                 end
  | _ =>
      fun old => match old with
                 | JObj _ | JArr _ => Some (mark_replaced new)
                 | _ => if json_eqb old new then None else Some (mark_replaced new)
                 end
  end.

Definition Diff (old new : json) : option json := diff new old.

(** * merge/merge.go *)

Definition merge_replaced (d : json) : option json :=
  if is_scalar d then Some d
  else match d with
       | JArr (x :: _) => Some x
       | _ => None
       end.

Definition is_removed (d : json) : bool :=
  match d with JArr [] => true | _ => false end.

Definition z_index (z : Z) : option nat := if (z <? 0)%Z then None else Some (Z.to_nat z).

(** merge.uncompressIndices ([start, count] pairs). *)
Fixpoint uncompress (c : list json) : option (list (option nat)) :=
  match c with
  | [] => Some []
  | x :: t =>
      match uncompress t with
      | None => None
      | Some rest =>
          match x with
          | JNum z =>
              if Z.eqb z (-1) then Some (None :: rest)
              else match z_index z with
                   | Some n => Some (Some n :: rest)
                   | None => None
                   end
          | JArr [JNum s; JNum c] =>
              match z_index s, z_index c with
              | Some s', Some c' => Some (map Some (seq s' c') ++ rest)
              | _, _ => None
              end
          | _ => None
          end
      end
  end.

Fixpoint sequence {A} (l : list (option A)) : option (list A) :=
  match l with
  | [] => Some []
  | None :: _ => None
  | Some x :: t => match sequence t with Some t' => Some (x :: t') | None => None end
  end.

Definition apps_t := list (string * (json * (json -> option json))).

(** First loop of mergeMap: existing fields kept, updated or dropped. *)
Fixpoint mm_updated (apps : apps_t) (p : list (string * json)) : option (list (string * json)) :=
  match p with
  | [] => Some []
  | (k, v) :: t =>
      match mm_updated apps t with
      | None => None
      | Some r =>
          match lookup k apps with
          | None => Some ((k, v) :: r)
          | Some (dv, f) =>
              if is_removed dv then Some r
              else match f v with Some x => Some ((k, x) :: r) | None => None end
          end
      end
  end.

(** Second loop of mergeMap: fields of the delta that [prev] does not have. *)
Fixpoint mm_added (p : list (string * json)) (apps : apps_t) : option (list (string * json)) :=
  match apps with
  | [] => Some []
  | (k, (dv, _)) :: t =>
      match mm_added p t with
      | None => None
      | Some r =>
          if has_key k p then Some r
          else match merge_replaced dv with Some x => Some ((k, x) :: r) | None => None end
      end
  end.

Definition merge_map (p : list (string * json)) (apps : apps_t) : option json :=
  match mm_updated apps p, mm_added p apps with
  | Some u, Some a => Some (JObj (u ++ a))
  | _, _ => None
  end.

Fixpoint nth_opt {A} (n : nat) (l : list A) : option A :=
  match l, n with
  | [], _ => None
  | x :: _, O => Some x
  | _ :: t, S n' => nth_opt n' t
  end.

Fixpoint apply_elems (i : nat) (l : list json) (apps : apps_t) : option (list json) :=
  match l with
  | [] => Some []
  | v :: t =>
      match apply_elems (S i) t apps with
      | None => None
      | Some r =>
          match lookup (dec i) apps with
          | Some (_, f) => match f v with Some x => Some (x :: r) | None => None end
          | None => Some (v :: r)
          end
      end
  end.

Definition valid_elem_key (len : nat) (k : string) : bool :=
  String.eqb k dollar || existsb (fun i => String.eqb (dec i) k) (seq 0 len).

(** new[i] = prev[index] for index <> -1 (a Go panic on an out-of-range index is [None]). *)
Fixpoint reorder (p : list json) (idx : list (option nat)) : option (list json) :=
  match idx with
  | [] => Some []
  | i :: t =>
      match reorder p t with
      | None => None
      | Some r =>
          match i with
          | None => Some (JNull :: r)
          | Some j => match nth_opt j p with Some x => Some (x :: r) | None => None end
          end
      end
  end.

Definition merge_array (p : list json) (apps : apps_t) : option json :=
  let base :=
      match lookup dollar apps with
      | Some (JArr c, _) =>
          match uncompress c with
          | Some idx => reorder p idx
          | None => None
          end
      | Some _ => None
      | None => Some p
      end in
  match base with
  | None => None
  | Some b =>
      if forallb (fun e => valid_elem_key (List.length b) (fst e)) apps
      then match apply_elems 0 b apps with
           | Some r => Some (JArr r)
           | None => None
           end
      else None
  end.

(** merge.Merge; [None] = error (or a Go panic on an ill-formed delta). *)
Fixpoint merge (d : json) {struct d} : json -> option json :=
  match d with
  | JObj entries =>
      let apps := (fix go (l : list (string * json)) : apps_t :=
                     match l with
                     | [] => []
                     | (k, dv) :: t => (k, (dv, merge dv)) :: go t
                     end) entries in
      fun prev => match prev with
                  | JObj p => merge_map p apps
                  | JArr p => merge_array p apps
                  | _ => Some JNull
                  end
  | _ => fun _ => merge_replaced d
  end.

Definition Merge (prev d : json) : option json := merge d prev.

(** * client/src/merge.ts ([undefined] is rendered as JNull, as JSON.stringify does in arrays). *)

Definition japps_t := list (string * (json * (json -> json))).

Fixpoint set_key (k : string) (v : json) (l : list (string * json)) : list (string * json) :=
  match l with
  | [] => [(k, v)]
  | (k', v') :: t => if String.eqb k k' then (k, v) :: t else (k', v') :: set_key k v t
  end.

Definition js_object (p : list (string * json)) (apps : japps_t) : json :=
  JObj (fold_left (fun merged e =>
                     match e with
                     | (k, (dv, f)) =>
                         if is_removed dv then remove_key k merged
                         else set_key k (f (match lookup k merged with Some v => v | None => JNull end)) merged
                     end) apps p).

Definition js_index (p : list json) (z : Z) : json :=
  match z_index z with Some n => nth n p JNull | None => JNull end.

Fixpoint js_reorder (p : list json) (c : list json) : list json :=
  match c with
  | [] => []
  | x :: t =>
      (match x with
       | JArr (JNum s :: JNum c :: _) =>
           match z_index s, z_index c with
           | Some s', Some c' => map (fun i => nth i p JNull) (seq s' c')
           | _, _ => []
           end
       | JNum z => if Z.eqb z (-1) then [JNull] else [js_index p z]
       | _ => [JNull]
       end) ++ js_reorder p t
  end.

Fixpoint js_apply_elems (i : nat) (l : list json) (apps : japps_t) : list json :=
  match l with
  | [] => []
  | v :: t =>
      (match lookup (dec i) apps with
       | Some (_, f) => f v
       | None => v
       end) :: js_apply_elems (S i) t apps
  end.

Definition js_array (p : list json) (apps : japps_t) : json :=
  let base := match lookup dollar apps with
              | Some (JArr c, _) => js_reorder p c
              | _ => p
              end in
  JArr (js_apply_elems 0 base (remove_key dollar apps)).

Fixpoint merge_js (d : json) {struct d} : json -> json :=
  match d with
  | JArr l => fun _ => hd JNull l
  | JObj entries =>
      let apps := (fix go (l : list (string * json)) : japps_t :=
                     match l with
                     | [] => []
                     | (k, dv) :: t => (k, (dv, merge_js dv)) :: go t
                     end) entries in
      fun orig => match orig with
                  | JArr p => js_array p apps
                  | JObj p => js_object p apps
                  | _ => js_object [] apps
                  end
  | _ => fun _ => d
  end.

Definition MergeJS (orig d : json) : json := merge_js d orig.

(** * Well-formedness of inputs: unique object keys, [__key] a non-null scalar. *)
Fixpoint wf (j : json) : bool :=
  match j with
  | JArr l => forallb wf l
  | JObj l =>
      nodup_keys (map fst l)
      && (match lookup key_name l with Some k => is_scalar k | None => true end)
      && (fix go (l : list (string * json)) := match l with [] => true | (_, v) :: t => wf v && go t end) l
  | _ => true
  end.

(** * Correspondence cases: what the Go harness observed on the implementation. *)
Record case := mk_case {
  c_old : json; c_new : json;
  c_delta : option json;      (* diff.Diff(old,new) after a JSON round trip, keys sorted; None = nil *)
  c_go : option json;         (* merge.Merge(StripKey old, delta); None = error *)
  c_js : json                 (* merge.ts on the same *)
}.

Definition opt_json_eqb (a b : option json) : bool :=
  match a, b with
  | None, None => true
  | Some x, Some y => json_eqb x y
  | _, _ => false
  end.

Definition check_case (c : case) : list nat :=
  let d := Diff (c_old c) (c_new c) in
  (if opt_json_eqb (option_map norm d) (c_delta c) then [] else [1]) ++
  match d with
  | None => []
  | Some d' =>
      (if opt_json_eqb (option_map norm (Merge (strip (c_old c)) d')) (c_go c) then [] else [2]) ++
      (if json_eqb (norm (MergeJS (strip (c_old c)) d')) (c_js c) then [] else [3])
  end.

Fixpoint mismatches_from (i : nat) (cs : list case) : list (nat * list nat) :=
  match cs with
  | [] => []
  | c :: t => match check_case c with
              | [] => mismatches_from (S i) t
              | l => (i, l) :: mismatches_from (S i) t
              end
  end.

Definition mismatches := mismatches_from 0.

Fixpoint mismatches_from_sparse (_ : nat) (cs : list (nat * case)) : list (nat * list nat) :=
  match cs with
  | [] => []
  | (i, c) :: t => match check_case c with
                   | [] => mismatches_from_sparse 0 t
                   | l => (i, l) :: mismatches_from_sparse 0 t
                   end
  end.
