(** What diff.computeReorderIndices guarantees, declaratively: every element of the new list is matched with
    the LEAST position of the old list that has the same reorder key and was not taken by an earlier element;
    it is -1 exactly when there is no such position.  And what compressReorderIndices guarantees: the runs
    are maximal (the encoding is the unique shortest one). *)
From Coq Require Import List ZArith String Bool Arith Lia.
From Thunder Require Import Lib.Json DiffMerge.Model DiffMerge.ProofsBase DiffMerge.ProofsCompress
     DiffMerge.GModel DiffMerge.GBase.
Import ListNotations.
Open Scope string_scope.
Open Scope list_scope.

Section S.
Context {A : Type} {O : atom_ops A} (L : atom_laws O).
Notation val := (val A).

(** indices strictly ascending, all at least [b] *)
Fixpoint asc (b : nat) (u : list (val * nat)) : Prop :=
  match u with
  | [] => True
  | (_, i) :: t => b <= i /\ asc (S i) t
  end.

Lemma asc_weaken b b' u : b' <= b -> asc b u -> asc b' u.
Proof. destruct u as [|[k i] t]; cbn; [auto|]. intros Hb [H1 H2]. split; [lia | exact H2]. Qed.

Lemma asc_in b u e : asc b u -> In e u -> b <= snd e.
Proof.
  revert b. induction u as [|[k i] t IH]; intros b Ha Hin; [contradiction|]. destruct Ha as [H1 H2].
  destruct Hin as [<-|Hin]; [exact H1|]. specialize (IH (S i) H2 Hin). lia.
Qed.

Lemma vtake_first_some k u b j u' :
  asc b u -> vtake_first k u = Some (j, u') ->
  (exists kj, In (kj, j) u /\ veqb k kj = true)
  /\ (forall e, In e u -> veqb k (fst e) = true -> j <= snd e)
  /\ (forall e, In e u' <-> In e u /\ snd e <> j)
  /\ asc b u'.
Proof.
  revert b j u'. induction u as [|[k' i] t IH]; intros b j u' Ha; cbn [vtake_first]; [discriminate|].
  destruct Ha as [Hb Ht]. destruct (veqb k k') eqn:E.
  - intros [= <- <-]. split; [exists k'; split; [left; reflexivity | exact E]|]. split.
    + intros e [<-|Hin] _; [cbn; lia|]. pose proof (asc_in _ _ _ Ht Hin). lia.
    + split; [|apply (asc_weaken (S i)); [lia | exact Ht]].
      intros e. split.
      * intros Hin. split; [right; exact Hin|]. pose proof (asc_in _ _ _ Ht Hin). lia.
      * intros [[<-|Hin] Hne]; [cbn in Hne; lia | exact Hin].
  - destruct (vtake_first k t) as [[j0 t']|] eqn:Et; [|discriminate]. intros [= <- <-].
    destruct (IH (S i) j0 t' Ht eq_refl) as [[kj [Hin Hk]] [Hleast [Hmem Hasc]]].
    split; [exists kj; split; [right; exact Hin | exact Hk]|]. split.
    + intros e [<-|He] Hke; [cbn in Hke; congruence | apply Hleast; assumption].
    + split.
      * intros e. split.
        -- intros [<-|He]; [split; [left; reflexivity|]; cbn; pose proof (asc_in _ _ _ Ht Hin); cbn in *; lia |].
           apply Hmem in He as [He1 He2]. split; [right; exact He1 | exact He2].
        -- intros [[<-|He] Hne]; [left; reflexivity | right; apply Hmem; split; assumption].
      * cbn. split; [exact Hb | exact Hasc].
Qed.

Lemma vtake_first_none k u : vtake_first k u = None -> forall e, In e u -> veqb k (fst e) = false.
Proof.
  induction u as [|[k' i] t IH]; cbn [vtake_first]; intros H e Hin; [contradiction|].
  destruct (veqb k k') eqn:E; [discriminate|]. destruct (vtake_first k t) as [[j t']|]; [discriminate|].
  destruct Hin as [<-|Hin]; [exact E | apply IH; auto].
Qed.

(** positions taken by the first [i] entries of an index list *)
Definition taken (r : list (option nat)) (i : nat) : list nat :=
  flat_map (fun o => match o with Some j => [j] | None => [] end) (firstn i r).


(** The declarative meaning of one entry of the index list. *)
Definition entry_ok (keys : list val) (used : list nat) (k : val) (e : option nat) : Prop :=
  match e with
  | Some j => j < List.length keys /\ nth j keys VNull = k /\ ~ In j used
              /\ (forall j', j' < j -> nth j' keys VNull = k -> In j' used)
  | None => forall j, j < List.length keys -> nth j keys VNull = k -> In j used
  end.

Lemma in_index_from {X} (l : list X) s x j d : In (x, j) (index_from s l) <-> s <= j < s + List.length l /\ nth (j - s) l d = x.
Proof.
  revert s. induction l as [|a t IH]; intros s; cbn [index_from List.length].
  - split; [contradiction | lia].
  - cbn [In]. rewrite IH. split.
    + intros [[= <- <-]|[H1 H2]].
      * split; [lia|]. rewrite Nat.sub_diag. reflexivity.
      * split; [lia|]. replace (j - s) with (S (j - S s)) by lia. exact H2.
    + intros [H1 H2]. destruct (Nat.eq_dec j s) as [->|Hne].
      * left. rewrite Nat.sub_diag in H2. cbn in H2. subst. reflexivity.
      * right. split; [lia|]. replace (j - s) with (S (j - S s)) in H2 by lia. exact H2.
Qed.

Lemma asc_index_from (l : list val) s : asc s (index_from s l).
Proof. revert s. induction l as [|a t IH]; intros s; cbn; [exact I | split; [lia | apply IH]]. Qed.

Lemma vreorder_go_spec (keys : list val) : forall n u used0 b,
  asc b u ->
  (forall k j, In (k, j) u <-> (j < List.length keys /\ nth j keys VNull = k /\ ~ In j used0)) ->
  forall i x, nth_error n i = Some x ->
  match nth_error (vreorder_go u n) i with
  | Some e => entry_ok keys (used0 ++ taken (vreorder_go u n) i) (vreorder_key x) e
  | None => False
  end.
Proof.
  induction n as [|y t IH]; intros u used0 b Ha Hu i x Hn; [destruct i; discriminate|].
  cbn [vreorder_go]. destruct (vtake_first (vreorder_key y) u) as [[j u']|] eqn:Et.
  - destruct (vtake_first_some _ _ _ _ _ Ha Et) as [[kj [Hin Hk]] [Hleast [Hmem Hasc]]].
    apply (veqb_eq L) in Hk. subst kj. apply Hu in Hin as [Hj1 [Hj2 Hj3]].
    destruct i as [|i'].
    + cbn in Hn. inversion Hn; subst y. cbn [nth_error taken firstn flat_map]. rewrite app_nil_r.
      cbn [entry_ok]. split; [exact Hj1|]. split; [exact Hj2|]. split; [exact Hj3|].
      intros j' Hlt Hk'. destruct (in_dec Nat.eq_dec j' used0) as [Hi|Hni]; [exact Hi|]. exfalso.
      assert (Hin' : In (vreorder_key x, j') u) by (apply Hu; repeat split; auto; lia).
      specialize (Hleast _ Hin'). cbn [fst snd] in Hleast. rewrite (veqb_refl L) in Hleast. specialize (Hleast eq_refl). lia.
    + cbn [nth_error] in Hn |- *.
      specialize (IH u' (j :: used0) b Hasc).
      assert (Hu' : forall k j0, In (k, j0) u' <-> j0 < List.length keys /\ nth j0 keys VNull = k /\ ~ In j0 (j :: used0)).
      { intros k j0. rewrite Hmem, Hu. cbn [snd In]. split.
        - intros [[H1 [H2 H3]] H4]. repeat split; auto. intros [->|Hc]; [apply H4; reflexivity | contradiction].
        - intros [H1 [H2 H3]]. repeat split; auto. }
      specialize (IH Hu' i' x Hn).
      destruct (nth_error (vreorder_go u' t) i') as [e|]; [|exact IH].
      assert (Hsame : forall z, In z ((j :: used0) ++ taken (vreorder_go u' t) i') <-> In z (used0 ++ taken (Some j :: vreorder_go u' t) (S i'))).
      { intros z. unfold taken. cbn [firstn flat_map]. rewrite !in_app_iff. cbn [In]. tauto. }
      destruct e as [j1|]; cbn [entry_ok] in *.
      * destruct IH as [H1 [H2 [H3 H4]]]. split; [exact H1|]. split; [exact H2|]. split.
        -- intros Hc. apply H3. apply Hsame. exact Hc.
        -- intros j' Hlt Hk'. apply Hsame. apply H4; auto.
      * intros j0 H1 H2. apply Hsame. apply IH; auto.
  - pose proof (vtake_first_none _ _ Et) as Hnone.
    destruct i as [|i'].
    + cbn in Hn. inversion Hn; subst y. cbn [nth_error taken firstn flat_map]. rewrite app_nil_r.
      cbn [entry_ok]. intros j Hj1 Hj2. destruct (in_dec Nat.eq_dec j used0) as [Hi|Hni]; [exact Hi|]. exfalso.
      assert (Hin' : In (vreorder_key x, j) u) by (apply Hu; repeat split; auto).
      specialize (Hnone _ Hin'). cbn [fst] in Hnone. rewrite (veqb_refl L) in Hnone. discriminate.
    + cbn [nth_error] in Hn |- *. specialize (IH u used0 b Ha Hu i' x Hn).
      destruct (nth_error (vreorder_go u t) i') as [e|]; [|exact IH].
      assert (Hsame : forall z, In z (used0 ++ taken (vreorder_go u t) i') <-> In z (used0 ++ taken (None :: vreorder_go u t) (S i'))).
      { intros z. unfold taken. cbn [firstn flat_map app]. tauto. }
      destruct e as [j1|]; cbn [entry_ok] in *.
      * destruct IH as [H1 [H2 [H3 H4]]]. split; [exact H1|]. split; [exact H2|]. split.
        -- intros Hc. apply H3. apply Hsame. exact Hc.
        -- intros j' Hlt Hk'. apply Hsame. apply H4; auto.
      * intros j0 H1 H2. apply Hsame. apply IH; auto.
Qed.

Theorem vreorder_indices_spec (o n : list val) i x :
  nth_error n i = Some x ->
  match nth_error (vcompute_reorder_indices o n) i with
  | Some e => entry_ok (map vreorder_key o) (taken (vcompute_reorder_indices o n) i) (vreorder_key x) e
  | None => False
  end.
Proof.
  intros Hn. unfold vcompute_reorder_indices.
  pose proof (vreorder_go_spec (map vreorder_key o) n (index_from 0 (map vreorder_key o)) [] 0
                (asc_index_from _ 0)) as H.
  cbn [app] in H. apply H; [|exact Hn].
  intros k j. rewrite (in_index_from _ 0 k j VNull). rewrite Nat.sub_0_r. cbn [In]. split.
  - intros [H1 H2]. repeat split; auto; lia.
  - intros [H1 [H2 _]]. split; [lia | exact H2].
Qed.
End S.

Section Len.
Context {A : Type} {O : atom_ops A}.
Lemma vreorder_go_length_aux (o n : list (val A)) : List.length (vcompute_reorder_indices o n) = List.length n.
Proof.
  unfold vcompute_reorder_indices. generalize (index_from 0 (map vreorder_key o)) as u.
  induction n as [|x t IH]; intros u; cbn [vreorder_go]; [reflexivity|].
  destruct (vtake_first (vreorder_key x) u) as [[i u']|]; cbn [List.length]; rewrite IH; reflexivity.
Qed.
End Len.

(** ** The index list is a matching, as the documentation of computeReorderIndices promises *)
Section M.
Context {A : Type} {O : atom_ops A} (L : atom_laws O).
Notation val := (val A).

Lemma in_taken r i j : In j (taken r i) <-> exists i', i' < i /\ nth_error r i' = Some (Some j).
Proof.
  unfold taken. revert i. induction r as [|a t IH]; intros i.
  - destruct i; cbn; split; try contradiction; intros [i' [_ H]]; destruct i'; discriminate.
  - destruct i as [|i]; cbn [firstn flat_map].
    + split; [contradiction | intros [i' [H _]]; lia].
    + rewrite in_app_iff, IH. split.
      * intros [H|[i' [H1 H2]]].
        -- destruct a as [j'|]; cbn in H; [|contradiction]. destruct H as [->|[]]. exists 0. split; [lia | reflexivity].
        -- exists (S i'). split; [lia | exact H2].
      * intros [[|i'] [H1 H2]].
        -- cbn in H2. inversion H2; subst. left. left. reflexivity.
        -- right. exists i'. split; [lia | exact H2].
Qed.

Definition is_matching (o n : list val) (idx : list (option nat)) : Prop :=
  List.length idx = List.length n
  /\ (forall i j x, nth_error idx i = Some (Some j) -> nth_error n i = Some x ->
        j < List.length o /\ vreorder_key (nth j o VNull) = vreorder_key x)
  /\ (forall i i' j, nth_error idx i = Some (Some j) -> nth_error idx i' = Some (Some j) -> i = i')
  /\ (forall i x j, nth_error idx i = Some None -> nth_error n i = Some x -> j < List.length o ->
        vreorder_key (nth j o VNull) = vreorder_key x -> exists i', nth_error idx i' = Some (Some j)).

Lemma nth_map_key (o : list val) j : nth j (map vreorder_key o) VNull = vreorder_key (nth j o VNull).
Proof. change (@VNull A) with (vreorder_key (@VNull A)) at 1. apply map_nth. Qed.

Theorem vreorder_indices_matching (o n : list val) : is_matching o n (vcompute_reorder_indices o n).
Proof.
  set (idx := vcompute_reorder_indices o n).
  assert (Hlen : List.length idx = List.length n) by apply vreorder_go_length_aux.
  assert (Hspec : forall i x, nth_error n i = Some x ->
            match nth_error idx i with
            | Some e => entry_ok (map vreorder_key o) (taken idx i) (vreorder_key x) e
            | None => False
            end) by (intros i x; apply (vreorder_indices_spec L)).
  split; [exact Hlen|]. split; [|split].
  - intros i j x Hi Hn. specialize (Hspec i x Hn). rewrite Hi in Hspec. cbn [entry_ok] in Hspec.
    destruct Hspec as [H1 [H2 _]]. rewrite map_length in H1. rewrite nth_map_key in H2. auto.
  - assert (Hlt : forall i i' j, i < i' -> nth_error idx i = Some (Some j) -> nth_error idx i' = Some (Some j) -> False).
    { intros i i' j Hlt Hi Hi'.
      assert (Hx : exists x, nth_error n i' = Some x).
      { destruct (nth_error n i') eqn:E; [eauto|]. apply nth_error_None in E.
        assert (i' < List.length idx) by (apply nth_error_Some; congruence). lia. }
      destruct Hx as [x Hn]. specialize (Hspec i' x Hn). rewrite Hi' in Hspec. cbn [entry_ok] in Hspec.
      destruct Hspec as [_ [_ [H3 _]]]. apply H3. apply in_taken. exists i. auto. }
    intros i i' j Hi Hi'. destruct (Nat.lt_trichotomy i i') as [H|[H|H]]; [exfalso; eapply Hlt; eauto | exact H | exfalso; eapply Hlt; eauto].
  - intros i x j Hi Hn Hj Hk. specialize (Hspec i x Hn). rewrite Hi in Hspec. cbn [entry_ok] in Hspec.
    assert (Hin : In j (taken idx i)).
    { apply Hspec; [rewrite map_length; exact Hj | rewrite nth_map_key; exact Hk]. }
    apply in_taken in Hin as [i' [_ H]]. exists i'. exact H.
Qed.
End M.

(** * compressReorderIndices: the run list is the canonical one *)
Definition expand_run (r : run) : list (option nat) :=
  match r with RNeg => [None] | RRun s c => map Some (seq s c) end.

Definition expand (rs : list run) : list (option nat) := flat_map expand_run rs.

(** no run can be extended by the run that follows it *)
Fixpoint maximal (rs : list run) : Prop :=
  match rs with
  | [] => True
  | r :: t =>
      match r, t with
      | RRun s c, RRun s' _ :: _ => s' <> s + c
      | _, _ => True
      end /\ maximal t
  end.

Lemma expand_cons_index i acc : Forall run_ok acc -> expand (cons_index i acc) = i :: expand acc.
Proof.
  intros Hok. destruct i as [a|]; cbn [cons_index]; [|reflexivity].
  destruct acc as [|[|s c] rest]; try reflexivity.
  destruct (Nat.eqb_spec s (S a)) as [->|Hne]; [|reflexivity].
  unfold expand. cbn [flat_map expand_run seq map app]. reflexivity.
Qed.

Theorem expand_runs_of idx : expand (runs_of idx) = idx.
Proof.
  induction idx as [|i t IH]; [reflexivity|]. cbn [runs_of fold_right].
  rewrite expand_cons_index by apply runs_of_ok. fold (runs_of t). rewrite IH. reflexivity.
Qed.

Lemma maximal_cons_index i acc : Forall run_ok acc -> maximal acc -> maximal (cons_index i acc).
Proof.
  intros Hok Hm. destruct i as [a|]; cbn [cons_index]; [|cbn; auto].
  destruct acc as [|[|s c] rest]; cbn [maximal]; auto.
  destruct (Nat.eqb_spec s (S a)) as [->|Hne].
  - cbn [maximal] in *. destruct Hm as [H1 H2]. split; [|exact H2].
    destruct rest as [|[|s' c'] rest']; auto. lia.
  - cbn [maximal]. split; [lia | exact Hm].
Qed.

Theorem runs_of_maximal idx : maximal (runs_of idx).
Proof.
  induction idx as [|i t IH]; [exact I|]. cbn [runs_of fold_right].
  apply maximal_cons_index; [apply runs_of_ok | exact IH].
Qed.

Lemma runs_of_app_run s c rest t :
  1 <= c -> runs_of rest = t ->
  match t with RRun s' _ :: _ => s' <> s + c | _ => True end ->
  runs_of (map Some (seq s c) ++ rest) = RRun s c :: t.
Proof.
  revert s. induction c as [|c IH]; intros s Hc Hr Hm; [lia|].
  destruct c as [|c'].
  - cbn [seq map app]. change (runs_of (Some s :: rest)) with (cons_index (Some s) (runs_of rest)).
    rewrite Hr. cbn [cons_index]. destruct t as [|[|s' c''] t']; try reflexivity.
    destruct (Nat.eqb_spec s' (S s)); [lia | reflexivity].
  - cbn [seq map app]. change (runs_of (Some s :: ?x)) with (cons_index (Some s) (runs_of x)).
    change (Some (S s) :: map Some (seq (S (S s)) c') ++ rest) with (map Some (seq (S s) (S c')) ++ rest).
    rewrite (IH (S s)); [| lia | exact Hr |].
    + cbn [cons_index]. rewrite Nat.eqb_refl. reflexivity.
    + destruct t as [|[|s' c''] t']; auto. lia.
Qed.

(** Uniqueness: a well-formed maximal run list is what compressReorderIndices produces for its expansion. *)
Theorem runs_of_unique rs : Forall run_ok rs -> maximal rs -> runs_of (expand rs) = rs.
Proof.
  induction rs as [|r t IH]; intros Hok Hm; [reflexivity|].
  inversion Hok as [|? ? Hr Ht]; subst. cbn [maximal] in Hm. destruct Hm as [Hm1 Hm2].
  unfold expand. cbn [flat_map]. fold (expand t). destruct r as [|s c]; cbn [expand_run].
  - cbn [app]. change (runs_of (None :: expand t)) with (cons_index None (runs_of (expand t))).
    rewrite (IH Ht Hm2). reflexivity.
  - apply runs_of_app_run; [exact Hr | apply IH; assumption | exact Hm1].
Qed.
