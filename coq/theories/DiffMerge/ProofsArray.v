(** Facts about reorder indices and the element part of an array delta (shared by Go and JS merges). *)
From Coq Require Import List ZArith String Bool Arith Lia.
From Thunder Require Import Lib.Json DiffMerge.Model DiffMerge.ProofsBase DiffMerge.ProofsUnfold DiffMerge.ProofsDiff.
Import ListNotations.
Open Scope string_scope.
Open Scope list_scope.

Definition idx_ok (b : nat) (i : option nat) : Prop := match i with Some j => j < b | None => True end.

Lemma take_first_in k u i u' :
  take_first k u = Some (i, u') ->
  In i (map snd u) /\ (forall x, In x (map snd u') -> In x (map snd u)).
Proof.
  revert i u'. induction u as [|[k' i'] t IH]; cbn [take_first]; intros i u'; [discriminate|].
  destruct (json_eqb k k').
  - intros [= <- <-]. cbn [map snd]. split; [left; reflexivity | intros x Hx; right; exact Hx].
  - destruct (take_first k t) as [[j t']|] eqn:E; [|discriminate].
    intros [= <- <-]. destruct (IH j t' eq_refl) as [H1 H2]. cbn [map snd]. split.
    + right. exact H1.
    + intros x [Hx|Hx]; [left; exact Hx | right; apply H2; exact Hx].
Qed.

Lemma reorder_go_length u n : List.length (reorder_go u n) = List.length n.
Proof.
  revert u. induction n as [|x t IH]; intros u; cbn [reorder_go]; [reflexivity|].
  destruct (take_first (reorder_key x) u) as [[i u']|]; cbn [List.length]; rewrite IH; reflexivity.
Qed.

Lemma reorder_go_bound b u n :
  (forall x, In x (map snd u) -> x < b) -> Forall (idx_ok b) (reorder_go u n).
Proof.
  revert u. induction n as [|x t IH]; intros u Hu; cbn [reorder_go]; [constructor|].
  destruct (take_first (reorder_key x) u) as [[i u']|] eqn:E.
  - apply take_first_in in E as [H1 H2]. constructor; [cbn; apply Hu; exact H1|].
    apply IH. intros y Hy. apply Hu. apply H2. exact Hy.
  - constructor; [exact I | apply IH; exact Hu].
Qed.

Lemma index_from_bound {A} s (l : list A) x : In x (map snd (index_from s l)) -> x < s + List.length l.
Proof.
  revert s. induction l as [|a t IH]; intros s; cbn [index_from map snd List.length]; [contradiction|].
  intros [<-|H]; [lia|]. apply IH in H. lia.
Qed.

Lemma reorder_indices_length o n : List.length (compute_reorder_indices o n) = List.length n.
Proof. apply reorder_go_length. Qed.

Lemma reorder_indices_bound o n : Forall (idx_ok (List.length o)) (compute_reorder_indices o n).
Proof.
  apply reorder_go_bound. intros x Hx. apply index_from_bound in Hx. rewrite map_length in Hx. exact Hx.
Qed.

(** The old element the i-th new element is compared with. *)
Definition oldI (o : list json) (j : option nat) : json :=
  match j with Some j' => nth j' o JNull | None => JNull end.

Lemma diff_elems_cons o i v t j it :
  diff_elems o i (arr_subs (v :: t)) (j :: it) =
  opt_entry (dec i) (diff v (oldI o j)) ++ diff_elems o (S i) (arr_subs t) it.
Proof. reflexivity. Qed.

Lemma diff_elems_keys o n : forall s idx k,
  In k (map fst (diff_elems o s (arr_subs n) idx)) -> exists i, k = dec i /\ s <= i < s + List.length n.
Proof.
  induction n as [|v t IH]; intros s idx k; [cbn; contradiction|].
  destruct idx as [|j it]; [cbn; contradiction|].
  rewrite diff_elems_cons, map_app. intros H. apply in_app_or in H as [H|H].
  - destruct (diff v (oldI o j)); cbn in H; [|contradiction]. destruct H as [<-|[]].
    exists s. cbn [List.length]. split; [reflexivity | lia].
  - apply IH in H as [i [-> Hi]]. exists i. cbn [List.length]. split; [reflexivity | lia].
Qed.

Lemma lookup_diff_elems_dollar o n s idx : lookup dollar (diff_elems o s (arr_subs n) idx) = None.
Proof.
  apply notin_lookup_none. intros H. apply diff_elems_keys in H as [i [E _]].
  symmetry in E. apply dec_not_dollar in E. exact E.
Qed.

Lemma lookup_diff_elems_below o n s idx i : i < s -> lookup (dec i) (diff_elems o s (arr_subs n) idx) = None.
Proof.
  intros Hlt. apply notin_lookup_none. intros H. apply diff_elems_keys in H as [i' [E Hi']].
  apply dec_inj in E. lia.
Qed.

Lemma lookup_diff_elems o n : forall s idx i v j,
  nth_error n i = Some v -> nth_error idx i = Some j ->
  lookup (dec (s + i)) (diff_elems o s (arr_subs n) idx) = diff v (oldI o j).
Proof.
  induction n as [|v0 t IH]; intros s idx i v j Hn Hi; [destruct i; discriminate|].
  destruct idx as [|j0 it]; [destruct i; discriminate|].
  rewrite diff_elems_cons, lookup_app, lookup_opt_entry, dec_eqb.
  destruct i as [|i'].
  - cbn in Hn, Hi. inversion Hn; inversion Hi; subst. rewrite Nat.add_0_r, Nat.eqb_refl.
    destruct (diff v (oldI o j)); [reflexivity|]. apply lookup_diff_elems_below. lia.
  - cbn in Hn, Hi. destruct (Nat.eqb_spec (s + S i') s); [lia|].
    replace (s + S i') with (S s + i') by lia. apply IH; assumption.
Qed.

Lemma order_identity s idx : order_is_identity s idx = true -> idx = map Some (seq s (List.length idx)).
Proof.
  revert s. induction idx as [|[i|] t IH]; intros s; cbn [order_is_identity List.length seq map]; [reflexivity| |discriminate].
  intros H. apply andb_prop in H as [H1 H2]. apply Nat.eqb_eq in H1. subst i. f_equal. apply IH. exact H2.
Qed.

Lemma map_nth_seq {A B} (f : A -> B) (d : A) (l : list A) :
  map (fun i => f (nth i l d)) (seq 0 (List.length l)) = map f l.
Proof.
  induction l as [|a t IH]; [reflexivity|].
  cbn [List.length seq map nth]. f_equal. rewrite <- seq_shift, map_map. exact IH.
Qed.

Lemma nth_opt_map_strip j o : j < List.length o -> nth_opt j (map strip o) = Some (strip (nth j o JNull)).
Proof.
  revert j. induction o as [|a t IH]; intros j Hj; [cbn in Hj; lia|].
  destruct j; cbn [map nth_opt nth]; [reflexivity|]. apply IH. cbn in Hj. lia.
Qed.

Lemma reorder_spec o idx :
  Forall (idx_ok (List.length o)) idx ->
  reorder (map strip o) idx = Some (map (fun j => strip (oldI o j)) idx).
Proof.
  induction idx as [|[j|] t IH]; intros H; [reflexivity| |]; inversion H; subst; cbn [reorder map oldI];
    rewrite IH by assumption.
  - rewrite nth_opt_map_strip by assumption. reflexivity.
  - reflexivity.
Qed.
