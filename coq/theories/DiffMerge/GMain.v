(** Generic C03 main result for the Go merge: round trip. *)
From Coq Require Import List ZArith String Bool Arith Lia.
From Thunder Require Import Lib.Json DiffMerge.Model DiffMerge.ProofsBase DiffMerge.ProofsUnfold
     DiffMerge.GModel DiffMerge.GBase DiffMerge.GUnfold DiffMerge.GDiff DiffMerge.GCompress DiffMerge.GArray
     DiffMerge.GMergeGo DiffMerge.GArrayGo.
Import ListNotations.
Open Scope string_scope.
Open Scope list_scope.

Section S.
Context {A : Type} {O : atom_ops A} (L : atom_laws O) (strict : bool).
Notation val := (val A).
Notation wfs := (vwf_gen strict).

Lemma vrt_replaced_go (old new : val) : vdiff new old = Some (vmark_replaced new) -> vRT_go old new.
Proof. intros H. unfold vRT_go. rewrite H. exists (vstrip new). split; [apply vmerge_mark_replaced | apply vjeq_refl]. Qed.

Lemma vrt_leaf_go (old new : val) :
  (match new with VArr _ | VObj _ => False | _ => True end) -> vRT_go old new.
Proof.
  intros Hleaf. destruct new; try contradiction;
    (destruct old; try (apply vrt_replaced_go; reflexivity);
     unfold vRT_go; cbn [vdiff];
     match goal with |- context [veqb ?a ?b] => destruct (veqb a b) eqn:E end;
     [apply (veqb_eq L) in E; try (inversion E; subst); apply vjeq_refl
     | eexists; split; [apply vmerge_mark_replaced | apply vjeq_refl]]).
Qed.

Theorem vroundtrip_go_all :
  fix4 || strict = true ->
  forall new old : val, wfs old = true -> wfs new = true -> vRT_go old new.
Proof.
  intros Hmode.
  induction new as [| a | l IH | l IH] using val_ind'; intros old Hwo Hwn.
  1-2: apply vrt_leaf_go; exact I.
  - destruct old; try (apply vrt_replaced_go; rewrite vdiff_arr; reflexivity).
    apply (vrt_arr_go L strict); auto. intros v Hin old' Hwo'. rewrite Forall_forall in IH.
    apply IH; auto. apply vwf_arr_inv in Hwn. rewrite Forall_forall in Hwn. apply Hwn. exact Hin.
  - destruct old; try (apply vrt_replaced_go; rewrite vdiff_obj; reflexivity).
    apply (vrt_obj_go L strict); auto. intros k nv Hk old' Hwo'. rewrite Forall_forall in IH.
    apply (IH (k, nv)); auto.
    + apply lookup_in. exact Hk.
    + destruct (vwf_obj_inv strict l Hwn) as [_ [_ Hwf]]. apply (Hwf k). exact Hk.
Qed.
End S.
