(** vmerge.mergeMap key by key, and the round trip for objects (Go vmerge). *)
From Coq Require Import List ZArith String Bool Arith Lia.
From Thunder Require Import Lib.Json DiffMerge.Model DiffMerge.ProofsBase DiffMerge.ProofsUnfold DiffMerge.ProofsDiff DiffMerge.ProofsMergeGo
     DiffMerge.GModel DiffMerge.GBase DiffMerge.GUnfold DiffMerge.GDiff.
Import ListNotations.
Open Scope string_scope.
Open Scope list_scope.

Section S.
Context {A : Type} {O : atom_ops A} (L : atom_laws O) (strict : bool).
Notation val := (val A).
Notation wfs := (vwf_gen strict).

Definition vRT_go (old new : val) : Prop :=
  match vdiff new old with
  | None => vjeq (vstrip old) (vstrip new)
  | Some d => exists r, vmerge d (vstrip old) = Some r /\ vjeq r (vstrip new)
  end.

Definition vupdated_at (p : list (string * val)) (apps : (vapps_t A)) (k : string) : option val :=
  match lookup k p with
  | None => None
  | Some v => match lookup k apps with
              | None => Some v
              | Some (dv, f) => if vis_removed dv then None else f v
              end
  end.

Lemma vmm_updated_spec apps p :
  NoDup (map fst p) ->
  (forall k v dv f, lookup k p = Some v -> lookup k apps = Some (dv, f) -> vis_removed dv = false ->
                    exists x, f v = Some x) ->
  exists u, vmm_updated apps p = Some u
            /\ (forall k, lookup k u = vupdated_at p apps k)
            /\ (forall k, In k (map fst u) -> In k (map fst p)).
Proof.
  induction p as [|[k0 v0] t IH]; intros Hnd Hok.
  - exists []. split; [reflexivity|]. split; [intros k; reflexivity | auto].
  - inversion Hnd as [|? ? Hnotin Hnd']; subst.
    destruct IH as [r [Hr [Hlk Hin]]]; [assumption| |].
    { intros k v dv f Hk. apply (Hok k v dv f). cbn [lookup].
      destruct (String.eqb k k0) eqn:E; [|exact Hk].
      apply String.eqb_eq in E. subst. apply lookup_in in Hk. exfalso. apply Hnotin.
      apply in_map_iff. exists (k0, v). auto. }
    cbn [vmm_updated]. rewrite Hr.
    assert (Hr0 : lookup k0 r = None).
    { apply notin_lookup_none. intros Hc. apply Hin in Hc. contradiction. }
    destruct (lookup k0 apps) as [[dv f]|] eqn:Ea.
    + destruct (vis_removed dv) eqn:Erm.
      * exists r. split; [reflexivity|]. split.
        -- intros k. unfold vupdated_at. cbn [lookup]. destruct (String.eqb k k0) eqn:E.
           ++ apply String.eqb_eq in E. subst. rewrite Ea, Erm. exact Hr0.
           ++ rewrite Hlk. reflexivity.
        -- intros k Hk. right. auto.
      * destruct (Hok k0 v0 dv f) as [x Hx]; auto.
        { cbn [lookup]. rewrite String.eqb_refl. reflexivity. }
        rewrite Hx. exists ((k0, x) :: r). split; [reflexivity|]. split.
        -- intros k. unfold vupdated_at. cbn [lookup]. destruct (String.eqb k k0) eqn:E.
           ++ apply String.eqb_eq in E. subst. rewrite Ea, Erm. symmetry. exact Hx.
           ++ rewrite Hlk. reflexivity.
        -- intros k [Hk|Hk]; [left; exact Hk | right; auto].
    + exists ((k0, v0) :: r). split; [reflexivity|]. split.
      * intros k. unfold vupdated_at. cbn [lookup]. destruct (String.eqb k k0) eqn:E.
        -- apply String.eqb_eq in E. subst. rewrite Ea. reflexivity.
        -- rewrite Hlk. reflexivity.
      * intros k [Hk|Hk]; [left; exact Hk | right; auto].
Qed.

Definition vadded_at (p : list (string * val)) (apps : (vapps_t A)) (k : string) : option val :=
  if has_key k p then None
  else match lookup k apps with Some (dv, _) => vmerge_replaced dv | None => None end.

Lemma vmm_added_spec p apps :
  (forall k dv f, In (k, (dv, f)) apps -> has_key k p = false -> exists x, vmerge_replaced dv = Some x) ->
  exists a, vmm_added p apps = Some a /\ (forall k, lookup k a = vadded_at p apps k).
Proof.
  induction apps as [|[k0 [dv0 f0]] t IH]; intros Hok.
  - exists []. split; [reflexivity|]. intros k. unfold vadded_at. destruct (has_key k p); reflexivity.
  - destruct IH as [r [Hr Hlk]].
    { intros k dv f Hin. apply (Hok k dv f). right. exact Hin. }
    cbn [vmm_added]. rewrite Hr. destruct (has_key k0 p) eqn:Ehk.
    + exists r. split; [reflexivity|]. intros k. rewrite Hlk. unfold vadded_at. cbn [lookup].
      destruct (String.eqb k k0) eqn:E; [|reflexivity].
      apply String.eqb_eq in E. subst. rewrite Ehk. reflexivity.
    + destruct (Hok k0 dv0 f0) as [x Hx]; [left; reflexivity | exact Ehk |].
      rewrite Hx. exists ((k0, x) :: r). split; [reflexivity|]. intros k. unfold vadded_at. cbn [lookup].
      destruct (String.eqb k k0) eqn:E.
      * apply String.eqb_eq in E. subst. rewrite Ehk. symmetry. exact Hx.
      * rewrite Hlk. reflexivity.
Qed.

Lemma vmerge_map_spec p apps :
  NoDup (map fst p) ->
  (forall k v dv f, lookup k p = Some v -> lookup k apps = Some (dv, f) -> vis_removed dv = false ->
                    exists x, f v = Some x) ->
  (forall k dv f, In (k, (dv, f)) apps -> has_key k p = false -> exists x, vmerge_replaced dv = Some x) ->
  exists r, vmerge_map p apps = Some (VObj r)
            /\ forall k, lookup k r = match lookup k p with
                                      | Some _ => vupdated_at p apps k
                                      | None => vadded_at p apps k
                                      end.
Proof.
  intros Hnd H1 H2.
  destruct (vmm_updated_spec apps p Hnd H1) as [u [Hu [Hlu _]]].
  destruct (vmm_added_spec p apps H2) as [a [Ha Hla]].
  unfold vmerge_map. rewrite Hu, Ha. exists (u ++ a). split; [reflexivity|].
  intros k. rewrite lookup_app, Hlu, Hla. unfold vupdated_at, vadded_at, has_key.
  destruct (lookup k p) as [v|]; [|reflexivity].
  destruct (lookup k apps) as [[dv f]|]; [|reflexivity].
  destruct (vis_removed dv); [reflexivity|]. destruct (f v); reflexivity.
Qed.

(** Keys of a delta are unique. *)


Lemma vremoved_keys_not_in_n o n k : In k (map fst (vremoved_entries o n)) -> has_key k n = false.
Proof.
  unfold vremoved_entries. induction o as [|[k' v] t IH]; cbn [flat_map map fst]; [contradiction|].
  rewrite map_app. intros H. apply in_app_or in H as [H|H]; [|auto].
  destruct (skipped k') eqn:Es; cbn [orb map fst] in H; [contradiction|].
  destruct (has_key k' n) eqn:E; cbn [map fst] in H; [contradiction|].
  destruct H as [<-|[]]. exact E.
Qed.

Lemma vdelta_keys_nodup o n :
  NoDup (map fst o) -> NoDup (map fst n) ->
  NoDup (map fst (vremoved_entries o n ++ vchanged_entries o (vobj_subs n))).
Proof.
  intros Ho Hn.
  destruct (flat_filter_keys (B:=val) (fun kv : string * val => if skipped (fst kv) || has_key (fst kv) n then [] else [(fst kv, vmark_removed)]) o) as [R1 R2]; auto.
  { intros kv. destruct (skipped (fst kv) || has_key (fst kv) n); [left; reflexivity | right; eexists; reflexivity]. }
  assert (Hn' : NoDup (map fst (vobj_subs n))).
  { unfold vobj_subs. rewrite map_map. cbn [fst]. exact Hn. }
  destruct (flat_filter_keys (B:=val) (fun e : string * (val * (val -> option val)) =>
              match e with
              | (k, (v, dv)) => if skipped k then [] else
                                match lookup k o with
                                | Some ov => vopt_entry k (dv ov)
                                | None => [(k, vmark_replaced v)]
                                end
              end) (vobj_subs n)) as [C1 C2]; auto.
  { intros [k [v dv]]. cbn [fst]. destruct (skipped k); [left; reflexivity|]. destruct (lookup k o) as [ov|].
    - destruct (dv ov); [right; eexists; reflexivity | left; reflexivity].
    - right; eexists; reflexivity. }
  fold (vremoved_entries o n) in R1, R2. fold (vchanged_entries o (vobj_subs n)) in C1, C2.
  rewrite map_app. apply nodup_app; auto.
  intros k Hr Hc. apply vremoved_keys_not_in_n in Hr. apply C2 in Hc.
  unfold vobj_subs in Hc. rewrite map_map in Hc. cbn [fst] in Hc.
  apply has_key_false in Hr. apply lookup_none_notin in Hr. contradiction.
Qed.

Lemma vin_merge_apps k dv f d : In (k, (dv, f)) (vmerge_apps d) -> In (k, dv) d /\ f = vmerge dv.
Proof.
  unfold vmerge_apps. intros H. apply in_map_iff in H as [[k' dv'] [E Hin]]. cbn [fst snd] in E.
  inversion E; subst. auto.
Qed.

Lemma vfinish_nil_iff (d : list (string * val)) : vfinish d = None <-> d = [].
Proof. destruct d; cbn [vfinish]; split; auto; discriminate. Qed.

Lemma skipped_other k : String.eqb k key_name = false -> skipped k = false.
Proof. unfold skipped. intros ->. apply andb_false_r. Qed.

Lemma vrt_obj_go o n :
  fix4 || strict = true ->
  wfs (VObj o) = true -> wfs (VObj n) = true ->
  (forall k nv, lookup k n = Some nv -> forall old, wfs old = true -> vRT_go old nv) ->
  vRT_go (VObj o) (VObj n).
Proof.
  intros Hmode Hwo Hwn IH.
  destruct (vwf_obj_inv strict o Hwo) as [Hndo [Hko Hwfo]].
  destruct (vwf_obj_inv strict n Hwn) as [Hndn [Hkn Hwfn]].
  unfold vRT_go. rewrite vdiff_obj, vdiff_map_eq.
  destruct (veqb (vget_key o) (vget_key n)) eqn:Ek; cbn [negb].
  2: { exists (vstrip (VObj n)). split; [apply vmerge_mark_replaced | apply vjeq_refl]. }
  set (d := vremoved_entries o n ++ vchanged_entries o (vobj_subs n)).
  assert (Hd : forall k, lookup k d = vdelta_at o n k) by (intros; apply vlookup_delta; assumption).
  assert (Hdk : vdelta_at o n key_name = None) by (apply (vdelta_at_key L strict); assumption).
  rewrite !vstrip_obj.
  (* facts shared by both branches *)
  assert (Hsame : forall k ov nv, lookup k o = Some ov -> lookup k n = Some nv -> vdiff nv ov = None ->
                                  vjeq (vstrip ov) (vstrip nv)).
  { intros k ov nv Ho Hn Hdf. specialize (IH k nv Hn ov (Hwfo _ _ Ho)). unfold vRT_go in IH. rewrite Hdf in IH. exact IH. }
  assert (Hchg : forall k ov nv dv, lookup k o = Some ov -> lookup k n = Some nv -> vdiff nv ov = Some dv ->
                                    exists r, vmerge dv (vstrip ov) = Some r /\ vjeq r (vstrip nv)).
  { intros k ov nv dv Ho Hn Hdf. specialize (IH k nv Hn ov (Hwfo _ _ Ho)). unfold vRT_go in IH. rewrite Hdf in IH. exact IH. }
  destruct (vfinish d) as [dj|] eqn:Ef.
  - (* non-empty delta *)
    assert (dj = VObj d) by (destruct d; cbn [vfinish] in Ef; [discriminate | inversion Ef; reflexivity]). subst dj.
    rewrite vmerge_obj.
    destruct (vmerge_map_spec (vstrip_fields o) (vmerge_apps d)) as [r [Hr Hlr]].
    + apply vstrip_fields_nodup. exact Hndo.
    + intros k v dv f Hp Ha Hrm. rewrite vlookup_strip_fields in Hp.
      destruct (String.eqb k key_name) eqn:Ekk; [discriminate|].
      destruct (lookup k o) as [ov|] eqn:Eo; [|discriminate]. cbn [option_map] in Hp. inversion Hp; subst v.
      rewrite vlookup_merge_apps, Hd in Ha. unfold vdelta_at in Ha. rewrite (skipped_other k Ekk), Eo in Ha.
      destruct (lookup k n) as [nv|] eqn:En; cbn [option_map] in Ha.
      * destruct (vdiff nv ov) as [dv'|] eqn:Edf; [|discriminate]. cbn [option_map] in Ha. inversion Ha; subst.
        destruct (Hchg k ov nv _ Eo En Edf) as [r [Hm _]]. exists r. exact Hm.
      * inversion Ha; subst. discriminate.
    + intros k dv f Hin Hhk. apply vin_merge_apps in Hin as [Hin ->].
      apply (in_nodup_lookup k dv d (vdelta_keys_nodup o n Hndo Hndn)) in Hin. rewrite Hd in Hin.
      apply has_key_false in Hhk. rewrite vlookup_strip_fields in Hhk.
      destruct (String.eqb k key_name) eqn:Ekk.
      * apply String.eqb_eq in Ekk. subst k. rewrite Hdk in Hin. discriminate.
      * unfold vdelta_at in Hin. rewrite (skipped_other k Ekk) in Hin. destruct (lookup k o); [discriminate|].
        destruct (lookup k n) as [nv|]; [|discriminate]. inversion Hin; subst.
        exists (vstrip nv). apply vmerge_replaced_mark_replaced.
    + exists (VObj r). split; [exact Hr|]. constructor. intros k. rewrite Hlr.
      unfold vupdated_at, vadded_at, has_key.
      rewrite vlookup_merge_apps, Hd, !vlookup_strip_fields.
      destruct (String.eqb k key_name) eqn:Ekk.
      * apply String.eqb_eq in Ekk. subst k. rewrite Hdk. constructor.
      * unfold vdelta_at. rewrite (skipped_other k Ekk). destruct (lookup k o) as [ov|] eqn:Eo; cbn [option_map].
        -- destruct (lookup k n) as [nv|] eqn:En; cbn [option_map].
           ++ destruct (vdiff nv ov) as [dv|] eqn:Edf; cbn [option_map].
              ** rewrite (vdiff_not_removed _ _ _ Edf).
                 destruct (Hchg k ov nv dv Eo En Edf) as [r' [Hm Hj]]. rewrite Hm. constructor. exact Hj.
              ** constructor. apply (Hsame k ov nv Eo En Edf).
           ++ cbn [vis_removed vmark_removed]. constructor.
        -- destruct (lookup k n) as [nv|] eqn:En; cbn [option_map].
           ++ rewrite vmerge_replaced_mark_replaced. constructor. apply vjeq_refl.
           ++ constructor.
  - (* empty delta *)
    apply vfinish_nil_iff in Ef. constructor. intros k. rewrite !vlookup_strip_fields.
    destruct (String.eqb k key_name) eqn:Ekk; [constructor|].
    specialize (Hd k). rewrite Ef in Hd. cbn [lookup] in Hd. unfold vdelta_at in Hd. rewrite (skipped_other k Ekk) in Hd.
    destruct (lookup k o) as [ov|] eqn:Eo, (lookup k n) as [nv|] eqn:En; cbn [option_map]; try discriminate.
    + constructor. apply (Hsame k ov nv Eo En). symmetry. exact Hd.
    + constructor.
Qed.
End S.
