(** Basic lemmas for the C03 proofs: lookups, semantic equality, decimal keys, run compression. *)
From Coq Require Import List ZArith String Ascii Bool Arith Lia DecimalString Decimal DecimalNat DecimalFacts.
From Thunder Require Import Lib.Json DiffMerge.Model.
Import ListNotations.
Open Scope string_scope.
Open Scope list_scope.

(** * jeq *)
Lemma jeq_refl : forall j, jeq j j.
Proof.
  induction j using json_ind'; try constructor.
  - induction H; constructor; auto.
  - intros k. induction H as [|[k' v] l Hv Hl IH]; simpl.
    + constructor.
    + destruct (String.eqb k k'); [constructor; exact Hv | exact IH].
Qed.

Lemma orel_refl {A} (R : A -> A -> Prop) (Hr : forall a, R a a) o : orel R o o.
Proof. destruct o; constructor; auto. Qed.

(** * lookup *)
Lemma lookup_app {A} k (l1 l2 : list (string * A)) :
  lookup k (l1 ++ l2) = match lookup k l1 with Some v => Some v | None => lookup k l2 end.
Proof.
  induction l1 as [|[k' v] t IH]; simpl; auto.
  destruct (String.eqb k k'); auto.
Qed.

Lemma lookup_in {A} k (l : list (string * A)) v : lookup k l = Some v -> In (k, v) l.
Proof.
  induction l as [|[k' v'] t IH]; simpl; try discriminate.
  destruct (String.eqb k k') eqn:E.
  - intros [= ->]. apply String.eqb_eq in E. subst. auto.
  - auto.
Qed.

Lemma lookup_none_notin {A} k (l : list (string * A)) : lookup k l = None -> ~ In k (map fst l).
Proof.
  induction l as [|[k' v'] t IH]; simpl; auto.
  destruct (String.eqb k k') eqn:E; try discriminate.
  intros H [Hk|Hk]; [subst; rewrite String.eqb_refl in E; discriminate | apply IH; auto].
Qed.

Lemma notin_lookup_none {A} k (l : list (string * A)) : ~ In k (map fst l) -> lookup k l = None.
Proof.
  induction l as [|[k' v'] t IH]; simpl; auto.
  intros H. destruct (String.eqb k k') eqn:E.
  - apply String.eqb_eq in E. subst. exfalso; auto.
  - apply IH. auto.
Qed.

Lemma nodup_keys_spec l : nodup_keys l = true <-> NoDup l.
Proof.
  induction l as [|k t IH]; simpl.
  - split; auto. constructor.
  - rewrite andb_true_iff, negb_true_iff, IH. split.
    + intros [H1 H2]. constructor; auto. intros Hin.
      assert (existsb (String.eqb k) t = true).
      { apply existsb_exists. exists k. split; auto. apply String.eqb_refl. }
      congruence.
    + intros H. inversion H; subst. split; auto.
      destruct (existsb (String.eqb k) t) eqn:E; auto.
      apply existsb_exists in E as [x [Hx He]]. apply String.eqb_eq in He. subst. contradiction.
Qed.

Lemma in_nodup_lookup {A} k v (l : list (string * A)) :
  NoDup (map fst l) -> In (k, v) l -> lookup k l = Some v.
Proof.
  induction l as [|[k' v'] t IH]; simpl; intros Hnd Hin; [contradiction|].
  inversion Hnd; subst.
  destruct Hin as [Heq|Hin].
  - inversion Heq; subst. rewrite String.eqb_refl. reflexivity.
  - destruct (String.eqb k k') eqn:E.
    + apply String.eqb_eq in E. subst. exfalso. apply H1. apply in_map_iff. exists (k', v). auto.
    + auto.
Qed.

Lemma has_key_true {A} k (l : list (string * A)) : has_key k l = true <-> exists v, lookup k l = Some v.
Proof. unfold has_key. destruct (lookup k l); split; eauto; try discriminate. intros [v Hv]. discriminate. Qed.

Lemma has_key_false {A} k (l : list (string * A)) : has_key k l = false <-> lookup k l = None.
Proof. unfold has_key. destruct (lookup k l); split; auto; discriminate. Qed.

(** * decimal keys *)
Lemma to_uint_nonnil n : Nat.to_uint n <> Nil.
Proof.
  assert (H : Nat.to_uint n = unorm (Nat.to_uint n)).
  { rewrite <- Unsigned.to_of, Unsigned.of_to. reflexivity. }
  rewrite H. apply unorm_nonnil.
Qed.

Lemma dec_inj a b : dec a = dec b -> a = b.
Proof.
  unfold dec. intros H.
  pose proof (NilZero.usu (Nat.to_uint a) (to_uint_nonnil a)) as Ha.
  pose proof (NilZero.usu (Nat.to_uint b) (to_uint_nonnil b)) as Hb.
  rewrite H in Ha. rewrite Ha in Hb. apply Unsigned.to_uint_inj. congruence.
Qed.

Lemma dec_not_dollar n : dec n <> dollar.
Proof.
  unfold dec, dollar. intros H.
  pose proof (NilZero.usu (Nat.to_uint n) (to_uint_nonnil n)) as Hu. rewrite H in Hu. simpl in Hu. discriminate.
Qed.

Lemma dec_eqb a b : String.eqb (dec a) (dec b) = Nat.eqb a b.
Proof.
  destruct (Nat.eqb a b) eqn:E.
  - apply Nat.eqb_eq in E. subst. apply String.eqb_refl.
  - apply String.eqb_neq. intros H. apply dec_inj in H. apply Nat.eqb_neq in E. contradiction.
Qed.
