(** Unfolding equations for the nested fixpoints of the model, and well-formedness facts. *)
From Coq Require Import List ZArith String Bool Arith Lia.
From Thunder Require Import Lib.Json DiffMerge.Model DiffMerge.ProofsBase DiffMerge.ProofsUnfold DiffMerge.ProofsDiff DiffMerge.ProofsCompress DiffMerge.ProofsArray DiffMerge.ProofsMergeGo DiffMerge.ProofsSelf DiffMerge.ProofsJS DiffMerge.GModel DiffMerge.GBase.
Import ListNotations.
Open Scope string_scope.
Open Scope list_scope.

Section S.
Context {A : Type} {O : atom_ops A} (L : atom_laws O) (strict : bool).
Notation val := (val A).
Notation wfs := (vwf_gen strict).

Fixpoint vstrip_fields (l : list (string * val)) : list (string * val) :=
  match l with
  | [] => []
  | (k, v) :: t => if String.eqb k key_name then vstrip_fields t else (k, vstrip v) :: vstrip_fields t
  end.

Lemma vstrip_obj l : vstrip (VObj l) = VObj (vstrip_fields l).
Proof. reflexivity. Qed.

Lemma vstrip_arr (l : list val) : vstrip (VArr l) = VArr (map vstrip l).
Proof. reflexivity. Qed.

Lemma vstrip_scalar (j : val) : vis_scalar j = true -> vstrip j = j.
Proof. destruct j; simpl; try discriminate; auto. Qed.

Definition vobj_subs (n : list (string * val)) : list (string * (val * (val -> option val))) :=
  map (fun kv => (fst kv, (snd kv, vdiff (snd kv)))) n.

Definition varr_subs (n : list val) : list (val * (val -> option val)) :=
  map (fun v => (v, vdiff v)) n.

Lemma vdiff_obj n old :
  vdiff (VObj n) old =
  match old with
  | VObj o => vdiff_map o n (vobj_subs n)
  | _ => Some (vmark_replaced (VObj n))
  end.
Proof.
  cbn [vdiff].
  assert (E : (fix go (l : list (string * val)) :=
                 match l with
                 | [] => []
                 | (k, v) :: t => (k, (v, vdiff v)) :: go t
                 end) n = vobj_subs n).
  { induction n as [|[k v] t IH]; [reflexivity|]. cbn [vobj_subs map fst snd]. rewrite IH. reflexivity. }
  rewrite E. reflexivity.
Qed.

Lemma vdiff_arr n old :
  vdiff (VArr n) old =
  match old with
  | VArr o => vdiff_array o n (varr_subs n)
  | _ => Some (vmark_replaced (VArr n))
  end.
Proof.
  cbn [vdiff].
  assert (E : (fix go (l : list val) :=
                 match l with
                 | [] => []
                 | v :: t => (v, vdiff v) :: go t
                 end) n = varr_subs n).
  { induction n as [|v t IH]; [reflexivity|]. cbn [varr_subs map]. rewrite IH. reflexivity. }
  rewrite E. reflexivity.
Qed.

Definition vmerge_apps (entries : list (string * val)) : (vapps_t A) :=
  map (fun kv => (fst kv, (snd kv, vmerge (snd kv)))) entries.

Lemma vmerge_obj entries prev :
  vmerge (VObj entries) prev =
  match prev with
  | VObj p => vmerge_map p (vmerge_apps entries)
  | VArr p => vmerge_array p (vmerge_apps entries)
  | _ => Some VNull
  end.
Proof.
  cbn [vmerge].
  assert (E : (fix go (l : list (string * val)) : (vapps_t A) :=
                 match l with
                 | [] => []
                 | (k, dv) :: t => (k, (dv, vmerge dv)) :: go t
                 end) entries = vmerge_apps entries).
  { induction entries as [|[k v] t IH]; [reflexivity|]. cbn [vmerge_apps map fst snd]. rewrite IH. reflexivity. }
  rewrite E. reflexivity.
Qed.

Definition vjs_apps (entries : list (string * val)) : (vjapps_t A) :=
  map (fun kv => (fst kv, (snd kv, vmerge_js (snd kv)))) entries.

Lemma vmerge_js_obj entries orig :
  vmerge_js (VObj entries) orig =
  match orig with
  | VArr p => vjs_array p (vjs_apps entries)
  | VObj p => vjs_object p (vjs_apps entries)
  | _ => vjs_object [] (vjs_apps entries)
  end.
Proof.
  cbn [vmerge_js].
  assert (E : (fix go (l : list (string * val)) : (vjapps_t A) :=
                 match l with
                 | [] => []
                 | (k, dv) :: t => (k, (dv, vmerge_js dv)) :: go t
                 end) entries = vjs_apps entries).
  { induction entries as [|[k v] t IH]; [reflexivity|]. cbn [vjs_apps map fst snd]. rewrite IH. reflexivity. }
  rewrite E. reflexivity.
Qed.


Lemma vlookup_merge_apps k d : lookup k (vmerge_apps d) = option_map (fun dv => (dv, vmerge dv)) (lookup k d).
Proof. unfold vmerge_apps. apply (lookup_map_snd (fun dv => (dv, vmerge dv))). Qed.

Lemma vlookup_js_apps k d : lookup k (vjs_apps d) = option_map (fun dv => (dv, vmerge_js dv)) (lookup k d).
Proof. unfold vjs_apps. apply (lookup_map_snd (fun dv => (dv, vmerge_js dv))). Qed.

(** * well-formedness *)
Fixpoint vwf_fields (l : list (string * val)) : bool :=
  match l with [] => true | (_, v) :: t => wfs v && vwf_fields t end.

Lemma vwf_obj l :
  wfs (VObj l) = nodup_keys (map fst l)
                && key_ok strict l
                && vwf_fields l.
Proof.
  reflexivity.
Qed.

Lemma vwf_fields_lookup l k v : vwf_fields l = true -> lookup k l = Some v -> wfs v = true.
Proof.
  induction l as [|[k' v'] t IH]; cbn [vwf_fields lookup]; [discriminate|].
  intros H. apply andb_prop in H as [H1 H2].
  destruct (String.eqb k k'); [intros [= <-]; exact H1 | auto].
Qed.

Lemma vwf_obj_inv l :
  wfs (VObj l) = true ->
  NoDup (map fst l) /\ key_ok strict l = true
  /\ (forall k v, lookup k l = Some v -> wfs v = true).
Proof.
  rewrite vwf_obj. intros H. apply andb_prop in H as [H H3]. apply andb_prop in H as [H1 H2].
  split; [apply nodup_keys_spec; exact H1|]. split.
  - exact H2.
  - intros k v. apply vwf_fields_lookup. exact H3.
Qed.

Lemma vwf_arr_inv l : wfs (VArr l) = true -> Forall (fun v => wfs v = true) l.
Proof. cbn [vwf_gen]. intros H. apply Forall_forall. apply forallb_forall. exact H. Qed.

Lemma vlookup_strip_fields k l :
  lookup k (vstrip_fields l) = if String.eqb k key_name then None else option_map vstrip (lookup k l).
Proof.
  induction l as [|[k' v] t IH]; cbn [vstrip_fields lookup].
  - destruct (String.eqb k key_name); reflexivity.
  - destruct (String.eqb k' key_name) eqn:E1.
    + apply String.eqb_eq in E1. subst k'. rewrite IH.
      destruct (String.eqb k key_name); reflexivity.
    + cbn [lookup]. destruct (String.eqb k k') eqn:E2.
      * apply String.eqb_eq in E2. subst k'. rewrite E1. reflexivity.
      * exact IH.
Qed.

Lemma vstrip_fields_keys_incl l k : In k (map fst (vstrip_fields l)) -> In k (map fst l).
Proof.
  induction l as [|[k' v] t IH]; cbn [vstrip_fields]; auto.
  destruct (String.eqb k' key_name); cbn [map fst]; intros H.
  - right. auto.
  - destruct H; [left; auto | right; auto].
Qed.

Lemma vstrip_fields_nodup l : NoDup (map fst l) -> NoDup (map fst (vstrip_fields l)).
Proof.
  induction l as [|[k v] t IH]; cbn [vstrip_fields map fst]; intros H; [constructor|].
  inversion H; subst. destruct (String.eqb k key_name); auto.
  cbn [map fst]. constructor; auto. intros Hin. apply vstrip_fields_keys_incl in Hin. contradiction.
Qed.
End S.
