(** Round trip for arrays (Go merge). *)
From Coq Require Import List ZArith String Bool Arith Lia.
From Thunder Require Import Lib.Json DiffMerge.Model DiffMerge.ProofsBase DiffMerge.ProofsUnfold
     DiffMerge.ProofsDiff DiffMerge.ProofsCompress DiffMerge.ProofsArray DiffMerge.ProofsMergeGo.
Import ListNotations.
Open Scope string_scope.
Open Scope list_scope.

Lemma apply_elems_spec o apps : forall n idx s,
  List.length idx = List.length n ->
  (forall i v j, nth_error n i = Some v -> nth_error idx i = Some j ->
                 lookup (dec (s + i)) apps = option_map (fun dv => (dv, merge dv)) (diff v (oldI o j))) ->
  (forall i v j, nth_error n i = Some v -> nth_error idx i = Some j -> RT_go (oldI o j) v) ->
  exists r, apply_elems s (map (fun j => strip (oldI o j)) idx) apps = Some r /\ Forall2 jeq r (map strip n).
Proof.
  induction n as [|v t IH]; intros idx s Hlen Hl Hrt.
  - destruct idx; [|discriminate]. exists []. split; [reflexivity | constructor].
  - destruct idx as [|j it]; [discriminate|]. cbn [List.length] in Hlen.
    destruct (IH it (S s)) as [r [Hr Hj]]; [lia | | |].
    { intros i v' j' Hn Hi. replace (S s + i) with (s + S i) by lia. apply Hl; assumption. }
    { intros i v' j' Hn Hi. apply (Hrt (S i)); assumption. }
    cbn [map apply_elems]. rewrite Hr.
    specialize (Hl 0 v j eq_refl eq_refl). rewrite Nat.add_0_r in Hl. rewrite Hl.
    specialize (Hrt 0 v j eq_refl eq_refl). unfold RT_go in Hrt.
    destruct (diff v (oldI o j)) as [dv|]; cbn [option_map].
    + destruct Hrt as [x [Hx Hjx]]. rewrite Hx. exists (x :: r). split; [reflexivity | constructor; assumption].
    + exists (strip (oldI o j) :: r). split; [reflexivity | constructor; assumption].
Qed.

Lemma wf_nth o j : Forall (fun v => wf v = true) o -> wf (nth j o JNull) = true.
Proof.
  revert j. induction o as [|a t IH]; intros j H; [destruct j; reflexivity|].
  inversion H; subst. destruct j; cbn [nth]; auto.
Qed.

Lemma wf_oldI o j : Forall (fun v => wf v = true) o -> wf (oldI o j) = true.
Proof. intros H. destruct j; cbn [oldI]; [apply wf_nth; exact H | reflexivity]. Qed.

Lemma valid_keys_ok (d : list (string * json)) len :
  (forall k, In k (map fst d) -> k = dollar \/ exists i, k = dec i /\ i < len) ->
  forallb (fun e : string * (json * (json -> option json)) => valid_elem_key len (fst e)) (merge_apps d) = true.
Proof.
  intros H. apply forallb_forall. intros [k [dv f]] Hin. cbn [fst]. unfold valid_elem_key.
  apply in_merge_apps in Hin as [Hin _].
  destruct (H k) as [->|[i [-> Hi]]].
  - apply in_map_iff. exists (k, dv). auto.
  - rewrite String.eqb_refl. reflexivity.
  - apply orb_true_iff. right. apply existsb_exists. exists i. split; [apply in_seq; lia | apply String.eqb_refl].
Qed.

Lemma elems_nil_jeq o : forall n idx s,
  List.length idx = List.length n ->
  (forall i v j, nth_error n i = Some v -> nth_error idx i = Some j -> RT_go (oldI o j) v) ->
  diff_elems o s (arr_subs n) idx = [] ->
  Forall2 jeq (map (fun j => strip (oldI o j)) idx) (map strip n).
Proof.
  induction n as [|v t IHn]; intros idx s Hlen Hrt E2.
  - destruct idx; [constructor | discriminate].
  - destruct idx as [|j it]; [discriminate|]. rewrite diff_elems_cons in E2.
    apply app_eq_nil in E2 as [E2a E2b]. cbn [map]. constructor.
    + specialize (Hrt 0 v j eq_refl eq_refl). unfold RT_go in Hrt.
      destruct (diff v (oldI o j)); [discriminate | exact Hrt].
    + apply (IHn it (S s)); [cbn in Hlen; lia | | exact E2b].
      intros i v' j' Hn Hi. apply (Hrt (S i)); assumption.
Qed.

Lemma rt_arr_go o n :
  wf (JArr o) = true -> wf (JArr n) = true ->
  (forall v, In v n -> forall old, wf old = true -> RT_go old v) ->
  RT_go (JArr o) (JArr n).
Proof.
  intros Hwo Hwn IH. apply wf_arr_inv in Hwo.
  unfold RT_go. rewrite diff_arr. unfold diff_array.
  set (idx := compute_reorder_indices o n).
  assert (Hlen : List.length idx = List.length n) by apply reorder_indices_length.
  assert (Hb : Forall (idx_ok (List.length o)) idx) by apply reorder_indices_bound.
  set (oc := negb (Nat.eqb (List.length o) (List.length idx)) || negb (order_is_identity 0 idx)).
  set (el := diff_elems o 0 (arr_subs n) idx).
  assert (Hrt : forall i v j, nth_error n i = Some v -> nth_error idx i = Some j -> RT_go (oldI o j) v).
  { intros i v j Hn _. apply IH; [eapply nth_error_In; exact Hn | apply wf_oldI; exact Hwo]. }
  assert (Hbase : oc = false -> map (fun j => strip (oldI o j)) idx = map strip o).
  { unfold oc. intros H. apply orb_false_iff in H as [H1 H2].
    apply negb_false_iff in H1. apply negb_false_iff in H2. apply Nat.eqb_eq in H1.
    rewrite (order_identity 0 idx H2), map_map, <- H1. cbn [oldI]. apply (map_nth_seq strip JNull o). }
  rewrite !strip_arr.
  destruct (finish ((if oc then [(dollar, JArr (compress idx))] else []) ++ el)) as [dj|] eqn:Ef.
  - set (d := (if oc then [(dollar, JArr (compress idx))] else []) ++ el) in *.
    assert (dj = JObj d) by (destruct d; cbn [finish] in Ef; [discriminate | inversion Ef; reflexivity]). subst dj.
    rewrite merge_obj. unfold merge_array.
    assert (Hel : forall i v j, nth_error n i = Some v -> nth_error idx i = Some j ->
                 lookup (dec (0 + i)) (merge_apps d) = option_map (fun dv => (dv, merge dv)) (diff v (oldI o j))).
    { intros i v j Hn Hi. rewrite lookup_merge_apps. unfold d. rewrite lookup_app.
      assert (Hdl : lookup (dec (0 + i)) (if oc then [(dollar, JArr (compress idx))] else []) = None).
      { destruct oc; [|reflexivity]. cbn [lookup].
        destruct (String.eqb (dec (0 + i)) dollar) eqn:E; [|reflexivity].
        apply String.eqb_eq in E. apply dec_not_dollar in E. contradiction. }
      rewrite Hdl. unfold el. rewrite (lookup_diff_elems o n 0 idx i v j Hn Hi). reflexivity. }
    assert (Hbase' : (match lookup dollar (merge_apps d) with
                      | Some (JArr c, _) => match uncompress c with Some idx' => reorder (map strip o) idx' | None => None end
                      | Some _ => None
                      | None => Some (map strip o)
                      end) = Some (map (fun j => strip (oldI o j)) idx)).
    { rewrite lookup_merge_apps. unfold d. rewrite lookup_app. destruct oc eqn:Eoc.
      - cbn [lookup]. rewrite String.eqb_refl. cbn [option_map]. rewrite uncompress_compress.
        apply reorder_spec. exact Hb.
      - cbn [lookup]. unfold el. rewrite lookup_diff_elems_dollar. cbn [option_map].
        rewrite Hbase by reflexivity. reflexivity. }
    rewrite Hbase'.
    rewrite valid_keys_ok.
    + destruct (apply_elems_spec o (merge_apps d) n idx 0 Hlen Hel Hrt) as [r [Hr Hj]].
      rewrite Hr. exists (JArr r). split; [reflexivity | constructor; exact Hj].
    + intros k Hk. unfold d in Hk. rewrite map_app in Hk. apply in_app_or in Hk as [Hk|Hk].
      * destruct oc; cbn in Hk; [destruct Hk as [<-|[]]; left; reflexivity | contradiction].
      * right. apply diff_elems_keys in Hk as [i [-> Hi]]. exists i. split; [reflexivity|].
        rewrite map_length, Hlen. lia.
  - (* empty delta: same order, no element changed *)
    apply finish_nil_iff in Ef. apply app_eq_nil in Ef as [E1 E2].
    assert (Eoc : oc = false) by (destruct oc; [discriminate | reflexivity]).
    rewrite <- (Hbase Eoc). constructor.
    apply (elems_nil_jeq o n idx 0 Hlen Hrt E2).
Qed.
