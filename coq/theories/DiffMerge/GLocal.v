(** Locality of the delta: which entries an object delta / an array delta has, exactly; two objects matched
    by their "__key" are never resent whole. *)
From Coq Require Import List ZArith String Bool Arith Lia.
From Thunder Require Import Lib.Json DiffMerge.Model DiffMerge.ProofsBase DiffMerge.ProofsUnfold DiffMerge.ProofsArray
     DiffMerge.GModel DiffMerge.GBase DiffMerge.GUnfold DiffMerge.GDiff DiffMerge.GArray DiffMerge.GMergeGo DiffMerge.GArrayGo
     DiffMerge.GExact DiffMerge.GReorder.
Import ListNotations.
Open Scope string_scope.
Open Scope list_scope.

Section S.
Context {A : Type} {O : atom_ops A} (L : atom_laws O).
Hypothesis Hguide : @guide A O = None.
Notation val := (val A).
Notation wf1 := (vwf_gen true).

(** the entries of a delta ([[]] for a nil delta or a replacement) *)
Definition entries (d : option val) : list (string * val) :=
  match d with Some (VObj l) => l | _ => [] end.

Definition field_delta (o n : list (string * val)) (k : string) : option val :=
  match lookup k o, lookup k n with
  | Some _, None => Some vmark_removed
  | Some ov, Some nv => VDiff ov nv
  | None, Some nv => Some (vmark_replaced nv)
  | None, None => None
  end.

(** Objects with different keys are resent whole ... *)
Theorem vobject_key_change o n :
  veqb (vget_key o) (vget_key n) = false -> VDiff (VObj o) (VObj n) = Some (VArr [vstrip (VObj n)]).
Proof. intros Hk. unfold VDiff. rewrite vdiff_obj, vdiff_map_eq, Hk. reflexivity. Qed.

(** ... objects with the same key are diffed field by field: the delta is nil or an object whose entry for
    every field name is given by [field_delta] (removed / nested delta / replacement / absent). *)
Theorem vobject_delta_exact o n :
  wf1 (VObj o) = true -> wf1 (VObj n) = true -> veqb (vget_key o) (vget_key n) = true ->
  (VDiff (VObj o) (VObj n) = None \/ exists d, VDiff (VObj o) (VObj n) = Some (VObj d))
  /\ forall k, lookup k (entries (VDiff (VObj o) (VObj n))) = field_delta o n k.
Proof.
  intros Hwo Hwn Hk. unfold VDiff. rewrite vdiff_obj, vdiff_map_eq, Hk. cbn [negb].
  destruct (vwf_obj_inv true o Hwo) as [Hndo [Hko Hwfo]]. destruct (vwf_obj_inv true n Hwn) as [Hndn [Hkn Hwfn]].
  set (d := vremoved_entries o n ++ vchanged_entries o (vobj_subs n)).
  assert (Hd : forall k, lookup k d = vdelta_at o n k) by (intros; apply vlookup_delta; assumption).
  assert (He : entries (vfinish d) = d) by (destruct d; reflexivity).
  split; [destruct d; [left | right; eexists]; reflexivity|].
  intros k. rewrite He, Hd. unfold vdelta_at, field_delta, VDiff.
  destruct (skipped k) eqn:Es; [|reflexivity].
  unfold skipped in Es. apply andb_prop in Es as [_ Es]. apply String.eqb_eq in Es. subst k.
  apply (veqb_eq L) in Hk. unfold vget_key, key_ok in *.
  destruct (lookup key_name o) as [ko|], (lookup key_name n) as [kn|]; try reflexivity.
  - subst kn. destruct ko; try discriminate. cbn [vdiff veqb]. rewrite (aeqb_refl L). reflexivity.
  - subst ko. discriminate.
  - subst kn. discriminate.
Qed.

(** A field is absent from the delta exactly when it did not change. *)
Theorem vobject_field_absent_iff o n k :
  wf1 (VObj o) = true -> wf1 (VObj n) = true -> veqb (vget_key o) (vget_key n) = true ->
  (lookup k (entries (VDiff (VObj o) (VObj n))) = None
   <-> orel vjeq (lookup k o) (lookup k n)).
Proof.
  intros Hwo Hwn Hk. rewrite (proj2 (vobject_delta_exact o n Hwo Hwn Hk) k). unfold field_delta.
  destruct (vwf_obj_inv true o Hwo) as [_ [_ Hwfo]]. destruct (vwf_obj_inv true n Hwn) as [_ [_ Hwfn]].
  destruct (lookup k o) as [ov|] eqn:Eo, (lookup k n) as [nv|] eqn:En.
  - rewrite (vdiff_none_iff L Hguide ov nv (Hwfo _ _ Eo) (Hwfn _ _ En)). split; [intros H; constructor; exact H | intros H; inversion H; assumption].
  - split; [discriminate | intros H; inversion H].
  - split; [discriminate | intros H; inversion H].
  - split; [constructor | reflexivity].
Qed.

(** * Lists *)
Theorem varray_delta_exact (o n : list val) :
  let idx := vchoose o n in
  let d := entries (VDiff (VArr o) (VArr n)) in
  (VDiff (VArr o) (VArr n) = None \/ VDiff (VArr o) (VArr n) = Some (VObj d))
  /\ lookup dollar d = (if Nat.eqb (List.length o) (List.length n) && order_is_identity 0 idx then None
                        else Some (VArr (vcompress idx)))
  /\ forall i v j, nth_error n i = Some v -> nth_error idx i = Some j -> lookup (dec i) d = VDiff (voldI o j) v.
Proof.
  intros idx d. subst d. unfold VDiff. rewrite vdiff_arr. unfold vdiff_array. fold idx.
  assert (Hlen : List.length idx = List.length n) by apply vchoose_length.
  rewrite Hlen.
  set (oc := negb (Nat.eqb (List.length o) (List.length n)) || negb (order_is_identity 0 idx)).
  set (el := vdiff_elems o 0 (varr_subs n) idx).
  set (d := (if oc then [(dollar, VArr (vcompress idx))] else []) ++ el).
  assert (He : entries (vfinish d) = d) by (destruct d; reflexivity).
  rewrite He. split; [destruct d; [left | right]; reflexivity|]. split.
  - unfold d. rewrite lookup_app. replace (Nat.eqb (List.length o) (List.length n) && order_is_identity 0 idx) with (negb oc).
    2: { unfold oc. destruct (Nat.eqb _ _), (order_is_identity 0 idx); reflexivity. }
    destruct oc; cbn [negb lookup].
    + rewrite String.eqb_refl. reflexivity.
    + unfold el. apply vlookup_diff_elems_dollar.
  - intros i v j Hn Hi. unfold d. rewrite lookup_app.
    assert (Hdl : lookup (dec i) (if oc then [(dollar, VArr (vcompress idx))] else []) = None).
    { destruct oc; [|reflexivity]. cbn [lookup].
      destruct (String.eqb (dec i) dollar) eqn:E; [|reflexivity].
      apply String.eqb_eq in E. apply dec_not_dollar in E. contradiction. }
    rewrite Hdl. unfold el. apply (vlookup_diff_elems o n 0 idx i v j Hn Hi).
Qed.

(** An element matched with an old element by a "__key" both carry is diffed field by field, never resent. *)
Theorem vmatched_objects_not_resent (o n : list val) i j a b :
  wf1 (VArr o) = true -> wf1 (VArr n) = true ->
  nth_error n i = Some (VObj b) -> nth_error (vcompute_reorder_indices o n) i = Some (Some j) ->
  nth j o VNull = VObj a ->
  VDiff (VObj a) (VObj b) = None \/ exists d, VDiff (VObj a) (VObj b) = Some (VObj d).
Proof.
  intros Hwo Hwn Hn Hi Ha.
  pose proof (vreorder_indices_spec L o n i (VObj b) Hn) as Hs. rewrite Hi in Hs. cbn [entry_ok] in Hs.
  destruct Hs as [Hj [Hk _]]. rewrite map_length in Hj.
  assert (Hk' : vreorder_key (nth j o VNull) = vreorder_key (VObj b)).
  { rewrite <- Hk. change (@VNull A) with (vreorder_key (@VNull A)) at 2. symmetry. apply map_nth. }
  rewrite Ha in Hk'. cbn [vreorder_key] in Hk'.
  assert (Hwa : wf1 (VObj a) = true).
  { rewrite <- Ha. apply (vwf_nth true). apply vwf_arr_inv. exact Hwo. }
  assert (Hwb : wf1 (VObj b) = true).
  { apply vwf_arr_inv in Hwn. rewrite Forall_forall in Hwn. apply Hwn. eapply nth_error_In. exact Hn. }
  apply (vobject_delta_exact a b Hwa Hwb). rewrite Hk'. apply (veqb_refl L).
Qed.
End S.
