(** Diff of a well-formed value with itself is empty. *)
From Coq Require Import List ZArith String Bool Arith Lia.
From Thunder Require Import Lib.Json DiffMerge.Model DiffMerge.ProofsBase DiffMerge.ProofsUnfold
     DiffMerge.ProofsDiff DiffMerge.ProofsArray.
Import ListNotations.
Open Scope string_scope.
Open Scope list_scope.

Lemma flat_map_nil {A B} (g : A -> list B) (l : list A) : (forall x, In x l -> g x = []) -> flat_map g l = [].
Proof.
  induction l as [|a t IH]; intros H; [reflexivity|]. cbn [flat_map].
  rewrite (H a (or_introl eq_refl)), IH; [reflexivity|]. intros x Hx. apply H. right. exact Hx.
Qed.

Lemma reorder_self l : forall s, reorder_go (index_from s (map reorder_key l)) l = map Some (seq s (List.length l)).
Proof.
  induction l as [|x t IH]; intros s; [reflexivity|].
  cbn [map index_from reorder_go take_first List.length seq]. rewrite json_eqb_refl. rewrite IH. reflexivity.
Qed.

Lemma identity_is_identity n : forall s, order_is_identity s (map Some (seq s n)) = true.
Proof. induction n as [|n IH]; intros s; cbn [seq map order_is_identity]; [reflexivity|]. rewrite Nat.eqb_refl, IH. reflexivity. Qed.

Lemma diff_elems_self o : forall t pre,
  o = pre ++ t ->
  (forall v, In v t -> diff v v = None) ->
  diff_elems o (List.length pre) (arr_subs t) (map Some (seq (List.length pre) (List.length t))) = [].
Proof.
  induction t as [|v t' IH]; intros pre Ho Hs; [reflexivity|].
  cbn [List.length seq map]. rewrite diff_elems_cons. cbn [oldI].
  assert (Hn : nth (List.length pre) o JNull = v).
  { subst o. rewrite app_nth2 by lia. rewrite Nat.sub_diag. reflexivity. }
  rewrite Hn, (Hs v (or_introl eq_refl)). cbn [opt_entry app].
  specialize (IH (pre ++ [v])). rewrite app_length in IH. cbn [List.length] in IH.
  rewrite Nat.add_1_r in IH. apply IH.
  - subst o. rewrite <- app_assoc. reflexivity.
  - intros v' Hv'. apply Hs. right. exact Hv'.
Qed.

Theorem diff_self_all : forall v, wf v = true -> diff v v = None.
Proof.
  induction v as [| b | z | s | l IH | l IH] using json_ind'; intros Hw.
  1-4: cbn [diff]; rewrite json_eqb_refl; reflexivity.
  - rewrite diff_arr. unfold diff_array, compute_reorder_indices.
    rewrite (reorder_self l 0), map_length, seq_length, Nat.eqb_refl, identity_is_identity.
    cbn [negb orb app].
    pose proof (diff_elems_self l l [] eq_refl) as He. cbn [List.length] in He.
    rewrite He; [reflexivity|].
    intros v Hv. rewrite Forall_forall in IH. apply IH; [exact Hv|].
    apply wf_arr_inv in Hw. rewrite Forall_forall in Hw. apply Hw. exact Hv.
  - rewrite diff_obj, diff_map_eq, json_eqb_refl. cbn [negb].
    destruct (wf_obj_inv l Hw) as [Hnd [_ Hwf]].
    assert (R : removed_entries l l = []).
    { unfold removed_entries. apply flat_map_nil. intros [k v] Hin. cbn [fst].
      rewrite (proj2 (has_key_true k l)); [reflexivity|]. exists v. apply in_nodup_lookup; assumption. }
    assert (Cn : changed_entries l (obj_subs l) = []).
    { unfold changed_entries. apply flat_map_nil. intros [k [v dv]] Hin.
      unfold obj_subs in Hin. apply in_map_iff in Hin as [[k' v'] [E Hin]]. cbn [fst snd] in E. inversion E; subst.
      rewrite (in_nodup_lookup k v l Hnd Hin).
      rewrite Forall_forall in IH. pose proof (IH (k, v) Hin) as Hd. cbn [snd] in Hd.
      rewrite Hd; [reflexivity|].
      apply (Hwf k). apply in_nodup_lookup; assumption. }
    rewrite R, Cn. reflexivity.
Qed.
