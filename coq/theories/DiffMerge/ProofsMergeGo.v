(** merge.mergeMap key by key, and the round trip for objects (Go merge). *)
From Coq Require Import List ZArith String Bool Arith Lia.
From Thunder Require Import Lib.Json DiffMerge.Model DiffMerge.ProofsBase DiffMerge.ProofsUnfold DiffMerge.ProofsDiff.
Import ListNotations.
Open Scope string_scope.
Open Scope list_scope.

Definition RT_go (old new : json) : Prop :=
  match diff new old with
  | None => jeq (strip old) (strip new)
  | Some d => exists r, merge d (strip old) = Some r /\ jeq r (strip new)
  end.

Definition updated_at (p : list (string * json)) (apps : apps_t) (k : string) : option json :=
  match lookup k p with
  | None => None
  | Some v => match lookup k apps with
              | None => Some v
              | Some (dv, f) => if is_removed dv then None else f v
              end
  end.

Lemma mm_updated_spec apps p :
  NoDup (map fst p) ->
  (forall k v dv f, lookup k p = Some v -> lookup k apps = Some (dv, f) -> is_removed dv = false ->
                    exists x, f v = Some x) ->
  exists u, mm_updated apps p = Some u
            /\ (forall k, lookup k u = updated_at p apps k)
            /\ (forall k, In k (map fst u) -> In k (map fst p)).
Proof.
  induction p as [|[k0 v0] t IH]; intros Hnd Hok.
  - exists []. split; [reflexivity|]. split; [intros k; reflexivity | auto].
  - inversion Hnd as [|? ? Hnotin Hnd']; subst.
    destruct IH as [r [Hr [Hlk Hin]]]; [assumption| |].
    { intros k v dv f Hk. apply (Hok k v dv f). cbn [lookup].
      destruct (String.eqb k k0) eqn:E; [|exact Hk].
      apply String.eqb_eq in E. subst. apply lookup_in in Hk. exfalso. apply Hnotin.
      apply in_map_iff. exists (k0, v). auto. }
    cbn [mm_updated]. rewrite Hr.
    assert (Hr0 : lookup k0 r = None).
    { apply notin_lookup_none. intros Hc. apply Hin in Hc. contradiction. }
    destruct (lookup k0 apps) as [[dv f]|] eqn:Ea.
    + destruct (is_removed dv) eqn:Erm.
      * exists r. split; [reflexivity|]. split.
        -- intros k. unfold updated_at. cbn [lookup]. destruct (String.eqb k k0) eqn:E.
           ++ apply String.eqb_eq in E. subst. rewrite Ea, Erm. exact Hr0.
           ++ rewrite Hlk. reflexivity.
        -- intros k Hk. right. auto.
      * destruct (Hok k0 v0 dv f) as [x Hx]; auto.
        { cbn [lookup]. rewrite String.eqb_refl. reflexivity. }
        rewrite Hx. exists ((k0, x) :: r). split; [reflexivity|]. split.
        -- intros k. unfold updated_at. cbn [lookup]. destruct (String.eqb k k0) eqn:E.
           ++ apply String.eqb_eq in E. subst. rewrite Ea, Erm. symmetry. exact Hx.
           ++ rewrite Hlk. reflexivity.
        -- intros k [Hk|Hk]; [left; exact Hk | right; auto].
    + exists ((k0, v0) :: r). split; [reflexivity|]. split.
      * intros k. unfold updated_at. cbn [lookup]. destruct (String.eqb k k0) eqn:E.
        -- apply String.eqb_eq in E. subst. rewrite Ea. reflexivity.
        -- rewrite Hlk. reflexivity.
      * intros k [Hk|Hk]; [left; exact Hk | right; auto].
Qed.

Definition added_at (p : list (string * json)) (apps : apps_t) (k : string) : option json :=
  if has_key k p then None
  else match lookup k apps with Some (dv, _) => merge_replaced dv | None => None end.

Lemma mm_added_spec p apps :
  (forall k dv f, In (k, (dv, f)) apps -> has_key k p = false -> exists x, merge_replaced dv = Some x) ->
  exists a, mm_added p apps = Some a /\ (forall k, lookup k a = added_at p apps k).
Proof.
  induction apps as [|[k0 [dv0 f0]] t IH]; intros Hok.
  - exists []. split; [reflexivity|]. intros k. unfold added_at. destruct (has_key k p); reflexivity.
  - destruct IH as [r [Hr Hlk]].
    { intros k dv f Hin. apply (Hok k dv f). right. exact Hin. }
    cbn [mm_added]. rewrite Hr. destruct (has_key k0 p) eqn:Ehk.
    + exists r. split; [reflexivity|]. intros k. rewrite Hlk. unfold added_at. cbn [lookup].
      destruct (String.eqb k k0) eqn:E; [|reflexivity].
      apply String.eqb_eq in E. subst. rewrite Ehk. reflexivity.
    + destruct (Hok k0 dv0 f0) as [x Hx]; [left; reflexivity | exact Ehk |].
      rewrite Hx. exists ((k0, x) :: r). split; [reflexivity|]. intros k. unfold added_at. cbn [lookup].
      destruct (String.eqb k k0) eqn:E.
      * apply String.eqb_eq in E. subst. rewrite Ehk. symmetry. exact Hx.
      * rewrite Hlk. reflexivity.
Qed.

Lemma merge_map_spec p apps :
  NoDup (map fst p) ->
  (forall k v dv f, lookup k p = Some v -> lookup k apps = Some (dv, f) -> is_removed dv = false ->
                    exists x, f v = Some x) ->
  (forall k dv f, In (k, (dv, f)) apps -> has_key k p = false -> exists x, merge_replaced dv = Some x) ->
  exists r, merge_map p apps = Some (JObj r)
            /\ forall k, lookup k r = match lookup k p with
                                      | Some _ => updated_at p apps k
                                      | None => added_at p apps k
                                      end.
Proof.
  intros Hnd H1 H2.
  destruct (mm_updated_spec apps p Hnd H1) as [u [Hu [Hlu _]]].
  destruct (mm_added_spec p apps H2) as [a [Ha Hla]].
  unfold merge_map. rewrite Hu, Ha. exists (u ++ a). split; [reflexivity|].
  intros k. rewrite lookup_app, Hlu, Hla. unfold updated_at, added_at, has_key.
  destruct (lookup k p) as [v|]; [|reflexivity].
  destruct (lookup k apps) as [[dv f]|]; [|reflexivity].
  destruct (is_removed dv); [reflexivity|]. destruct (f v); reflexivity.
Qed.

(** Keys of a delta are unique. *)
Lemma flat_filter_keys {A B} (g : string * A -> list (string * B)) (l : list (string * A)) :
  (forall kv, g kv = [] \/ exists b, g kv = [(fst kv, b)]) ->
  NoDup (map fst l) ->
  NoDup (map fst (flat_map g l)) /\ (forall k, In k (map fst (flat_map g l)) -> In k (map fst l)).
Proof.
  intros Hg. induction l as [|kv t IH]; intros Hnd.
  - split; [constructor | auto].
  - inversion Hnd as [|? ? Hnotin Hnd']; subst. destruct (IH Hnd') as [IH1 IH2].
    cbn [flat_map]. destruct (Hg kv) as [E|[b E]]; rewrite E; cbn [app map fst].
    + split; [exact IH1 | intros k Hk; right; auto].
    + split.
      * constructor; [intros Hc; apply IH2 in Hc; contradiction | exact IH1].
      * intros k [Hk|Hk]; [left; exact Hk | right; auto].
Qed.

Lemma nodup_app {A} (l1 l2 : list A) :
  NoDup l1 -> NoDup l2 -> (forall x, In x l1 -> ~ In x l2) -> NoDup (l1 ++ l2).
Proof.
  induction l1 as [|a t IH]; intros H1 H2 Hd; [exact H2|].
  inversion H1; subst. cbn [app]. constructor.
  - intros Hin. apply in_app_or in Hin as [Hin|Hin]; [contradiction | apply (Hd a); [left; reflexivity | exact Hin]].
  - apply IH; auto. intros x Hx. apply Hd. right. exact Hx.
Qed.

Lemma removed_keys_not_in_n o n k : In k (map fst (removed_entries o n)) -> has_key k n = false.
Proof.
  unfold removed_entries. induction o as [|[k' v] t IH]; cbn [flat_map map fst]; [contradiction|].
  rewrite map_app. intros H. apply in_app_or in H as [H|H]; [|auto].
  destruct (has_key k' n) eqn:E; cbn [map fst] in H; [contradiction|].
  destruct H as [<-|[]]. exact E.
Qed.

Lemma delta_keys_nodup o n :
  NoDup (map fst o) -> NoDup (map fst n) ->
  NoDup (map fst (removed_entries o n ++ changed_entries o (obj_subs n))).
Proof.
  intros Ho Hn.
  destruct (flat_filter_keys (fun kv : string * json => if has_key (fst kv) n then [] else [(fst kv, mark_removed)]) o) as [R1 R2]; auto.
  { intros kv. destruct (has_key (fst kv) n); [left; reflexivity | right; eexists; reflexivity]. }
  assert (Hn' : NoDup (map fst (obj_subs n))).
  { unfold obj_subs. rewrite map_map. cbn [fst]. exact Hn. }
  destruct (flat_filter_keys (fun e : string * (json * (json -> option json)) =>
              match e with
              | (k, (v, dv)) => match lookup k o with
                                | Some ov => opt_entry k (dv ov)
                                | None => [(k, mark_replaced v)]
                                end
              end) (obj_subs n)) as [C1 C2]; auto.
  { intros [k [v dv]]. cbn [fst]. destruct (lookup k o).
    - destruct (dv j); [right; eexists; reflexivity | left; reflexivity].
    - right; eexists; reflexivity. }
  fold (removed_entries o n) in R1, R2. fold (changed_entries o (obj_subs n)) in C1, C2.
  rewrite map_app. apply nodup_app; auto.
  intros k Hr Hc. apply removed_keys_not_in_n in Hr. apply C2 in Hc.
  unfold obj_subs in Hc. rewrite map_map in Hc. cbn [fst] in Hc.
  apply has_key_false in Hr. apply lookup_none_notin in Hr. contradiction.
Qed.

Lemma in_merge_apps k dv f d : In (k, (dv, f)) (merge_apps d) -> In (k, dv) d /\ f = merge dv.
Proof.
  unfold merge_apps. intros H. apply in_map_iff in H as [[k' dv'] [E Hin]]. cbn [fst snd] in E.
  inversion E; subst. auto.
Qed.

Lemma finish_nil_iff d : finish d = None <-> d = [].
Proof. destruct d; cbn [finish]; split; auto; discriminate. Qed.

Lemma rt_obj_go o n :
  wf (JObj o) = true -> wf (JObj n) = true ->
  (forall k nv, lookup k n = Some nv -> forall old, wf old = true -> RT_go old nv) ->
  RT_go (JObj o) (JObj n).
Proof.
  intros Hwo Hwn IH.
  destruct (wf_obj_inv o Hwo) as [Hndo [Hko Hwfo]].
  destruct (wf_obj_inv n Hwn) as [Hndn [Hkn Hwfn]].
  unfold RT_go. rewrite diff_obj, diff_map_eq.
  destruct (json_eqb (get_key o) (get_key n)) eqn:Ek; cbn [negb].
  2: { exists (strip (JObj n)). split; [apply merge_mark_replaced | apply jeq_refl]. }
  set (d := removed_entries o n ++ changed_entries o (obj_subs n)).
  assert (Hd : forall k, lookup k d = delta_at o n k) by (intros; apply lookup_delta; assumption).
  assert (Hdk : delta_at o n key_name = None) by (apply delta_at_key; assumption).
  rewrite !strip_obj.
  (* facts shared by both branches *)
  assert (Hsame : forall k ov nv, lookup k o = Some ov -> lookup k n = Some nv -> diff nv ov = None ->
                                  jeq (strip ov) (strip nv)).
  { intros k ov nv Ho Hn Hdf. specialize (IH k nv Hn ov (Hwfo _ _ Ho)). unfold RT_go in IH. rewrite Hdf in IH. exact IH. }
  assert (Hchg : forall k ov nv dv, lookup k o = Some ov -> lookup k n = Some nv -> diff nv ov = Some dv ->
                                    exists r, merge dv (strip ov) = Some r /\ jeq r (strip nv)).
  { intros k ov nv dv Ho Hn Hdf. specialize (IH k nv Hn ov (Hwfo _ _ Ho)). unfold RT_go in IH. rewrite Hdf in IH. exact IH. }
  destruct (finish d) as [dj|] eqn:Ef.
  - (* non-empty delta *)
    assert (dj = JObj d) by (destruct d; cbn [finish] in Ef; [discriminate | inversion Ef; reflexivity]). subst dj.
    rewrite merge_obj.
    destruct (merge_map_spec (strip_fields o) (merge_apps d)) as [r [Hr Hlr]].
    + apply strip_fields_nodup. exact Hndo.
    + intros k v dv f Hp Ha Hrm. rewrite lookup_strip_fields in Hp.
      destruct (String.eqb k key_name); [discriminate|].
      destruct (lookup k o) as [ov|] eqn:Eo; [|discriminate]. cbn [option_map] in Hp. inversion Hp; subst v.
      rewrite lookup_merge_apps, Hd in Ha. unfold delta_at in Ha. rewrite Eo in Ha.
      destruct (lookup k n) as [nv|] eqn:En; cbn [option_map] in Ha.
      * destruct (diff nv ov) as [dv'|] eqn:Edf; [|discriminate]. cbn [option_map] in Ha. inversion Ha; subst.
        destruct (Hchg k ov nv _ Eo En Edf) as [r [Hm _]]. exists r. exact Hm.
      * inversion Ha; subst. discriminate.
    + intros k dv f Hin Hhk. apply in_merge_apps in Hin as [Hin ->].
      apply (in_nodup_lookup k dv d (delta_keys_nodup o n Hndo Hndn)) in Hin. rewrite Hd in Hin.
      apply has_key_false in Hhk. rewrite lookup_strip_fields in Hhk.
      destruct (String.eqb k key_name) eqn:Ekk.
      * apply String.eqb_eq in Ekk. subst k. rewrite Hdk in Hin. discriminate.
      * unfold delta_at in Hin. destruct (lookup k o); [discriminate|].
        destruct (lookup k n) as [nv|]; [|discriminate]. inversion Hin; subst.
        exists (strip nv). apply merge_replaced_mark_replaced.
    + exists (JObj r). split; [exact Hr|]. constructor. intros k. rewrite Hlr.
      unfold updated_at, added_at, has_key.
      rewrite lookup_merge_apps, Hd, !lookup_strip_fields.
      destruct (String.eqb k key_name) eqn:Ekk.
      * apply String.eqb_eq in Ekk. subst k. rewrite Hdk. constructor.
      * unfold delta_at. destruct (lookup k o) as [ov|] eqn:Eo; cbn [option_map].
        -- destruct (lookup k n) as [nv|] eqn:En; cbn [option_map].
           ++ destruct (diff nv ov) as [dv|] eqn:Edf; cbn [option_map].
              ** rewrite (diff_not_removed _ _ _ Edf).
                 destruct (Hchg k ov nv dv Eo En Edf) as [r' [Hm Hj]]. rewrite Hm. constructor. exact Hj.
              ** constructor. apply (Hsame k ov nv Eo En Edf).
           ++ cbn [is_removed mark_removed]. constructor.
        -- destruct (lookup k n) as [nv|] eqn:En; cbn [option_map].
           ++ rewrite merge_replaced_mark_replaced. constructor. apply jeq_refl.
           ++ constructor.
  - (* empty delta *)
    apply finish_nil_iff in Ef. constructor. intros k. rewrite !lookup_strip_fields.
    destruct (String.eqb k key_name); [constructor|].
    specialize (Hd k). rewrite Ef in Hd. cbn [lookup] in Hd. unfold delta_at in Hd.
    destruct (lookup k o) as [ov|] eqn:Eo, (lookup k n) as [nv|] eqn:En; cbn [option_map]; try discriminate.
    + constructor. apply (Hsame k ov nv Eo En). symmetry. exact Hd.
    + constructor.
Qed.
