(** Merging commutes with a change of scalar domain: [vmap f] carries the server's Go-typed values and
    deltas to what the client receives after encoding/json.  Consequence (GSerRT below): the delta computed
    on the server's values, once serialised, merges the client's serialised old value into the serialised
    new value - "every delta survives JSON serialisation", as a theorem. *)
From Coq Require Import List ZArith String Bool Arith Lia.
From Thunder Require Import Lib.Json DiffMerge.Model DiffMerge.ProofsBase DiffMerge.ProofsUnfold
     DiffMerge.GModel DiffMerge.GBase DiffMerge.GUnfold DiffMerge.GDiff DiffMerge.GMergeGo DiffMerge.GMain DiffMerge.GJS.
Import ListNotations.
Open Scope string_scope.
Open Scope list_scope.

(** What the serialisation of leaves must respect: a pass-through scalar stays one, and the numbers the
    merges read in the "$" field keep their value. *)
Record atom_hom {A B : Type} (OA : atom_ops A) (OB : atom_ops B) (f : A -> B) : Prop := mk_atom_hom {
  hom_raw : forall a, raw a = true -> raw (f a) = true;
  hom_num : forall a, as_num (f a) = as_num a
}.

Section S.
Context {A B : Type} {OA : atom_ops A} {OB : atom_ops B} (f : A -> B) (H : atom_hom OA OB f).
Notation va := (val A).
Notation vb := (val B).
Notation F := (vmap f).

Definition fmap_fields (l : list (string * va)) : list (string * vb) :=
  map (fun kv => (fst kv, F (snd kv))) l.

Lemma vmap_obj l : F (VObj l) = VObj (fmap_fields l).
Proof.
  cbn [vmap]. f_equal. unfold fmap_fields.
  induction l as [|[k v] t IH]; [reflexivity|]. cbn [map fst snd]. rewrite IH. reflexivity.
Qed.

Lemma vmap_arr l : F (VArr l) = VArr (map F l).
Proof. reflexivity. Qed.

Lemma lookup_fmap k l : lookup k (fmap_fields l) = option_map F (lookup k l).
Proof. unfold fmap_fields. apply (lookup_map_snd F). Qed.

Lemma has_key_fmap k l : has_key k (fmap_fields l) = has_key k l.
Proof. unfold has_key. rewrite lookup_fmap. destruct (lookup k l); reflexivity. Qed.

Lemma fmap_keys l : map fst (fmap_fields l) = map fst l.
Proof. unfold fmap_fields. rewrite map_map. reflexivity. Qed.

Lemma vis_removed_map d : vis_removed (F d) = vis_removed d.
Proof. destruct d as [| |[|x t]|l]; reflexivity. Qed.

Lemma vmap_strip : forall v, F (vstrip v) = vstrip (F v).
Proof.
  induction v as [| a | l IH | l IH] using val_ind'; try reflexivity.
  - cbn [vstrip vmap]. f_equal. rewrite !map_map. apply map_ext_in. intros x Hx.
    rewrite Forall_forall in IH. apply IH. exact Hx.
  - rewrite vstrip_obj, !vmap_obj, vstrip_obj. f_equal.
    induction IH as [|[k v] t Hv Ht IHt]; [reflexivity|].
    cbn [vstrip_fields fmap_fields map fst snd].
    destruct (String.eqb k key_name); [exact IHt|].
    cbn [fmap_fields map fst snd]. cbn [snd] in Hv. rewrite Hv. f_equal. exact IHt.
Qed.

Lemma vjeq_map : forall a b : va, vjeq a b -> vjeq (F a) (F b).
Proof.
  induction a as [| x | l IH | l IH] using val_ind'; intros b Hj.
  - inversion Hj; subst. constructor.
  - inversion Hj; subst. constructor.
  - inversion Hj as [| |? l2 Hf|]; subst. rewrite !vmap_arr. constructor.
    clear Hj. revert l2 Hf. induction IH as [|x t Hx Ht IHt]; intros l2 Hf; inversion Hf; subst.
    + constructor.
    + cbn [map]. constructor; [apply Hx; assumption | apply IHt; assumption].
  - inversion Hj as [| | |? l2 Hl]; subst. rewrite !vmap_obj. constructor. intros k. rewrite !lookup_fmap. specialize (Hl k).
    destruct (lookup k l) as [v|] eqn:E1; inversion Hl; subst; cbn [option_map]; constructor.
    rewrite Forall_forall in IH. apply lookup_in in E1. apply (IH (k, v) E1). assumption.
Qed.

(** * Go merge: success is preserved, with the mapped result. *)
Lemma vmerge_replaced_map d r : vmerge_replaced d = Some r -> vmerge_replaced (F d) = Some (F r).
Proof.
  destruct d as [| a |[|x t]|l]; cbn [vmerge_replaced]; try discriminate.
  - destruct (raw a) eqn:E; [|discriminate]. intros [= <-]. cbn [vmap vmerge_replaced].
    rewrite (hom_raw _ _ _ H a E). reflexivity.
  - intros [= <-]. reflexivity.
Qed.

Lemma vas_num_map v : vas_num (F v) = vas_num v.
Proof. destruct v as [| a | l | l]; try reflexivity. apply (hom_num _ _ _ H). Qed.

Lemma vuncompress_map c : vuncompress (map F c) = vuncompress c.
Proof.
  induction c as [|x t IH]; [reflexivity|]. cbn [map vuncompress]. rewrite IH.
  destruct (vuncompress t) as [rest|]; [|reflexivity].
  destruct x as [| a | l | l]; try reflexivity.
  - cbn [vmap]. rewrite (hom_num _ _ _ H). reflexivity.
  - cbn [vmap]. destruct l as [|s [|c [|z l']]]; try reflexivity. cbn [map]. rewrite !vas_num_map. reflexivity.
Qed.

Lemma nth_opt_map {X Y} (g : X -> Y) j (l : list X) : nth_opt j (map g l) = option_map g (nth_opt j l).
Proof. revert j. induction l as [|a t IH]; intros j; destruct j; cbn [map nth_opt option_map]; auto. Qed.

Lemma vreorder_map p idx : vreorder (map F p) idx = option_map (map F) (vreorder p idx).
Proof.
  induction idx as [|[j|] t IH]; [reflexivity| |]; cbn [vreorder]; rewrite IH; destruct (vreorder p t) as [r|]; try reflexivity.
  - rewrite nth_opt_map. destruct (nth_opt j p); reflexivity.
Qed.

(** the per-entry functions of a mapped delta, related to those of the delta *)
Definition apps_rel (ea : vapps_t A) (eb : vapps_t B) : Prop :=
  map fst eb = map fst ea /\
  forall k, match lookup k ea, lookup k eb with
            | None, None => True
            | Some (dv, g), Some (dv', g') =>
                dv' = F dv /\ forall v r, g v = Some r -> g' (F v) = Some (F r)
            | _, _ => False
            end.

Lemma vmm_updated_map ea eb p u :
  apps_rel ea eb -> vmm_updated ea p = Some u -> vmm_updated eb (fmap_fields p) = Some (fmap_fields u).
Proof.
  intros [_ Hr]. revert u. induction p as [|[k v] t IH]; intros u; cbn [vmm_updated fmap_fields map fst snd].
  - intros [= <-]. reflexivity.
  - destruct (vmm_updated ea t) as [r|]; [|discriminate]. fold (fmap_fields t). rewrite (IH r eq_refl).
    specialize (Hr k). destruct (lookup k ea) as [[dv g]|], (lookup k eb) as [[dv' g']|]; try contradiction.
    + destruct Hr as [-> Hg]. rewrite vis_removed_map. destruct (vis_removed dv).
      * intros [= <-]. reflexivity.
      * destruct (g v) as [x|] eqn:Eg; [|discriminate]. intros [= <-]. rewrite (Hg v x Eg). reflexivity.
    + intros [= <-]. reflexivity.
Qed.

Lemma vmm_added_map ea p a :
  vmm_added p ea = Some a ->
  forall eb, Forall2 (fun x y => fst y = fst x /\ fst (snd y) = F (fst (snd x))) ea eb ->
  vmm_added (fmap_fields p) eb = Some (fmap_fields a).
Proof.
  revert a. induction ea as [|[k [dv g]] t IH]; intros a Ha eb Hf; inversion Hf; subst.
  - cbn in Ha. inversion Ha. reflexivity.
  - destruct y as [k' [dv' g']]. cbn [fst snd] in H2. destruct H2 as [-> ->].
    cbn [vmm_added] in *. destruct (vmm_added p t) as [r|]; [|discriminate].
    rewrite (IH r eq_refl l' H4). rewrite has_key_fmap. destruct (has_key k p).
    + inversion Ha; subst. reflexivity.
    + destruct (vmerge_replaced dv) as [x|] eqn:Em; [|discriminate]. inversion Ha; subst.
      rewrite (vmerge_replaced_map dv x Em). reflexivity.
Qed.

Lemma fmap_app l1 l2 : fmap_fields (l1 ++ l2) = fmap_fields l1 ++ fmap_fields l2.
Proof. unfold fmap_fields. apply map_app. Qed.

Lemma vapply_elems_map ea eb : apps_rel ea eb -> forall l i r,
  vapply_elems i l ea = Some r -> vapply_elems i (map F l) eb = Some (map F r).
Proof.
  intros [_ Hr]. induction l as [|v t IH]; intros i r; cbn [vapply_elems map].
  - intros [= <-]. reflexivity.
  - destruct (vapply_elems (S i) t ea) as [r'|] eqn:E; [|discriminate]. rewrite (IH (S i) r' E).
    specialize (Hr (dec i)). destruct (lookup (dec i) ea) as [[dv g]|], (lookup (dec i) eb) as [[dv' g']|]; try contradiction.
    + destruct Hr as [_ Hg]. destruct (g v) as [x|] eqn:Eg; [|discriminate]. intros [= <-].
      rewrite (Hg v x Eg). reflexivity.
    + intros [= <-]. reflexivity.
Qed.

Lemma valid_keys_map len (ea : vapps_t A) (eb : vapps_t B) :
  map fst eb = map fst ea ->
  forallb (fun e => valid_elem_key len (fst e)) eb = forallb (fun e => valid_elem_key len (fst e)) ea.
Proof.
  revert eb. induction ea as [|x t IH]; intros eb Hk; destruct eb as [|y t']; try discriminate; [reflexivity|].
  cbn [map] in Hk. inversion Hk. cbn [forallb]. rewrite H1, (IH t' H2). reflexivity.
Qed.

Lemma vmerge_map_hom : forall d p r, vmerge d p = Some r -> vmerge (F d) (F p) = Some (F r).
Proof.
  induction d as [| a | l IH | l IH] using val_ind'; intros p r.
  - cbn. discriminate.
  - intros Hm. change (vmerge (VAtom a) p) with (vmerge_replaced (VAtom a)) in Hm.
    apply vmerge_replaced_map in Hm. exact Hm.
  - intros Hm. change (vmerge (VArr l) p) with (vmerge_replaced (VArr l)) in Hm.
    apply vmerge_replaced_map in Hm. exact Hm.
  - rewrite vmap_obj, !vmerge_obj.
    assert (Hrel : apps_rel (vmerge_apps l) (vmerge_apps (fmap_fields l))).
    { split.
      - unfold vmerge_apps. rewrite !map_map. cbn [fst]. apply (fmap_keys l).
      - intros k. rewrite !vlookup_merge_apps, lookup_fmap.
        destruct (lookup k l) as [dv|] eqn:E; cbn [option_map]; [|exact I].
        split; [reflexivity|]. rewrite Forall_forall in IH. apply lookup_in in E. apply (IH (k, dv) E). }
    assert (Hf2 : Forall2 (fun x y : string * (val _ * (val _ -> option (val _))) =>
                             fst y = fst x /\ fst (snd y) = F (fst (snd x)))
                          (vmerge_apps l) (vmerge_apps (fmap_fields l))).
    { unfold vmerge_apps, fmap_fields. clear. induction l as [|[k v] t IHt]; cbn [map]; constructor; auto. }
    destruct p as [| a | pl | pl].
    + intros [= <-]. reflexivity.
    + intros [= <-]. reflexivity.
    + (* array *)
      cbn [vmap]. unfold vmerge_array.
      destruct Hrel as [Hk Hr]. pose proof (Hr dollar) as Hd.
      destruct (lookup dollar (vmerge_apps l)) as [[dv g]|], (lookup dollar (vmerge_apps (fmap_fields l))) as [[dv' g']|]; try contradiction.
      * destruct Hd as [-> _].
        destruct dv as [| a | c | o]; try discriminate; try (rewrite vmap_obj; discriminate).
        cbn [vmap]. rewrite vuncompress_map. destruct (vuncompress c) as [idx|]; [|discriminate].
        rewrite vreorder_map. destruct (vreorder pl idx) as [b|]; [|discriminate]. cbn [option_map].
        rewrite map_length, (valid_keys_map _ _ _ Hk).
        destruct (forallb _ (vmerge_apps l)); [|discriminate].
        destruct (vapply_elems 0 b (vmerge_apps l)) as [x|] eqn:Ea; [|discriminate]. intros [= <-].
        rewrite (vapply_elems_map _ _ (conj Hk Hr) b 0 x Ea). reflexivity.
      * rewrite map_length, (valid_keys_map _ _ _ Hk).
        destruct (forallb _ (vmerge_apps l)); [|discriminate].
        destruct (vapply_elems 0 pl (vmerge_apps l)) as [x|] eqn:Ea; [|discriminate]. intros [= <-].
        rewrite (vapply_elems_map _ _ (conj Hk Hr) pl 0 x Ea). reflexivity.
    + (* object *)
      rewrite vmap_obj. unfold vmerge_map.
      destruct (vmm_updated (vmerge_apps l) pl) as [u|] eqn:Eu; [|discriminate].
      destruct (vmm_added pl (vmerge_apps l)) as [a|] eqn:Ea; [|discriminate]. intros [= <-].
      rewrite (vmm_updated_map _ _ pl u Hrel Eu), (vmm_added_map _ pl a Ea _ Hf2).
      rewrite vmap_obj, fmap_app. reflexivity.
Qed.

(** * merge.ts commutes exactly. *)
Lemma fmap_set_key k v l : fmap_fields (vset_key k v l) = vset_key k (F v) (fmap_fields l).
Proof.
  induction l as [|[k' v'] t IH]; [reflexivity|]. cbn [vset_key fmap_fields map fst snd].
  destruct (String.eqb k k'); [reflexivity|]. cbn [fmap_fields map fst snd]. f_equal. exact IH.
Qed.

Lemma fmap_remove_key k l : fmap_fields (remove_key k l) = remove_key k (fmap_fields l).
Proof.
  induction l as [|[k' v'] t IH]; [reflexivity|]. cbn [remove_key fmap_fields map fst snd].
  destruct (String.eqb k k'); [exact IH|]. cbn [fmap_fields map fst snd]. f_equal. exact IH.
Qed.

Definition japps_rel (ea : vjapps_t A) (eb : vjapps_t B) : Prop :=
  Forall2 (fun x y => fst y = fst x /\ fst (snd y) = F (fst (snd x))
                      /\ forall v, snd (snd y) (F v) = F (snd (snd x) v)) ea eb.

Lemma japps_lookup ea eb k : japps_rel ea eb ->
  match lookup k ea, lookup k eb with
  | None, None => True
  | Some (dv, g), Some (dv', g') => dv' = F dv /\ forall v, g' (F v) = F (g v)
  | _, _ => False
  end.
Proof.
  induction 1 as [|[k1 [dv g]] [k2 [dv' g']] ta tb Hxy Hf IH]; [exact I|].
  cbn [fst snd] in Hxy. destruct Hxy as [-> [-> Hg]]. cbn [lookup].
  destruct (String.eqb k k1); [split; [reflexivity | exact Hg] | exact IH].
Qed.

Lemma japps_remove ea eb k : japps_rel ea eb -> japps_rel (remove_key k ea) (remove_key k eb).
Proof.
  induction 1 as [|[k1 [dv g]] [k2 [dv' g']] ta tb Hxy Hf IH]; [constructor|].
  cbn [fst snd] in Hxy. destruct Hxy as [-> [-> Hg]]. cbn [remove_key].
  destruct (String.eqb k k1); [exact IH|]. constructor; [|exact IH]. cbn [fst snd]. auto.
Qed.

Lemma vjs_object_map ea eb : japps_rel ea eb -> forall p,
  vjs_object (fmap_fields p) eb = F (vjs_object p ea).
Proof.
  intros Hr. unfold vjs_object. intros p. rewrite vmap_obj. f_equal. revert p.
  induction Hr as [|[k1 [dv g]] [k2 [dv' g']] ta tb Hxy Hf IH]; intros p; [reflexivity|].
  cbn [fst snd] in Hxy. destruct Hxy as [-> [-> Hg]]. cbn [fold_left].
  rewrite vis_removed_map. destruct (vis_removed dv).
  - rewrite <- fmap_remove_key. apply IH.
  - rewrite lookup_fmap.
    assert (E : g' match option_map F (lookup k1 p) with Some v => v | None => VNull end
                = F (g match lookup k1 p with Some v => v | None => VNull end)).
    { destruct (lookup k1 p); cbn [option_map]; [apply Hg | apply (Hg VNull)]. }
    rewrite E, <- fmap_set_key. apply IH.
Qed.

Lemma nth_map_F n (p : list va) : nth n (map F p) VNull = F (nth n p VNull).
Proof. change (@VNull B) with (F VNull) at 1. apply map_nth. Qed.

Lemma vjs_index_map p z : vjs_index (map F p) z = F (vjs_index p z).
Proof. unfold vjs_index. destruct (z_index z); [apply nth_map_F | reflexivity]. Qed.

Lemma vjs_reorder_map p c : vjs_reorder (map F p) (map F c) = map F (vjs_reorder p c).
Proof.
  induction c as [|x t IH]; [reflexivity|]. cbn [map vjs_reorder]. rewrite IH, map_app. f_equal.
  destruct x as [| a | l | l].
  - reflexivity.
  - cbn [vmap]. rewrite (hom_num _ _ _ H). destruct (as_num a) as [z|]; [|reflexivity].
    destruct (Z.eqb z (-1)); [reflexivity|]. cbn [map]. rewrite vjs_index_map. reflexivity.
  - cbn [vmap]. destruct l as [|s [|c l']]; try reflexivity. cbn [map]. rewrite !vas_num_map.
    destruct (vas_num s) as [s'|]; [|reflexivity]. destruct (vas_num c) as [c'|]; [|reflexivity].
    rewrite map_map. apply map_ext. intros z. apply vjs_index_map.
  - rewrite vmap_obj. reflexivity.
Qed.

Lemma vjs_apply_elems_map ea eb : japps_rel ea eb -> forall l i,
  vjs_apply_elems i (map F l) eb = map F (vjs_apply_elems i l ea).
Proof.
  intros Hr. induction l as [|v t IH]; intros i; [reflexivity|]. cbn [map vjs_apply_elems]. rewrite IH. f_equal.
  pose proof (japps_lookup ea eb (dec i) Hr) as Hl.
  destruct (lookup (dec i) ea) as [[dv g]|], (lookup (dec i) eb) as [[dv' g']|]; try contradiction.
  - destruct Hl as [_ Hg]. apply Hg.
  - reflexivity.
Qed.

Lemma vmerge_js_map : forall d p, vmerge_js (F d) (F p) = F (vmerge_js d p).
Proof.
  induction d as [| a | l IH | l IH] using val_ind'; intros p; try reflexivity.
  - cbn [vmap vmerge_js]. destruct l; reflexivity.
  - rewrite vmap_obj, !vmerge_js_obj.
    assert (Hr : japps_rel (vjs_apps l) (vjs_apps (fmap_fields l))).
    { unfold japps_rel, vjs_apps, fmap_fields. induction IH as [|[k v] t Hv Ht IHt]; cbn [map]; constructor; auto. }
    destruct p as [| a | pl | pl].
    + apply (vjs_object_map _ _ Hr []).
    + apply (vjs_object_map _ _ Hr []).
    + cbn [vmap]. unfold vjs_array. rewrite vmap_arr.
      pose proof (japps_lookup _ _ dollar Hr) as Hd.
      destruct (lookup dollar (vjs_apps l)) as [[dv g]|], (lookup dollar (vjs_apps (fmap_fields l))) as [[dv' g']|]; try contradiction.
      * destruct Hd as [-> _]. f_equal. destruct dv as [| a | c | o]; try (apply (vjs_apply_elems_map _ _ (japps_remove _ _ dollar Hr))).
        cbn [vmap]. rewrite vjs_reorder_map. apply (vjs_apply_elems_map _ _ (japps_remove _ _ dollar Hr)).
      * f_equal. apply (vjs_apply_elems_map _ _ (japps_remove _ _ dollar Hr)).
    + rewrite vmap_obj. apply (vjs_object_map _ _ Hr pl).
Qed.
End S.

(** * The serialised round trip. *)
Section RT.
Context {A B : Type} {OA : atom_ops A} {OB : atom_ops B} (LA : atom_laws OA) (f : A -> B) (H : atom_hom OA OB f).
Variable strict : bool.
Hypothesis Hmode : @fix4 A OA || strict = true.

Theorem ser_roundtrip_go_all : forall old new : val A,
  vwf_gen strict old = true -> vwf_gen strict new = true ->
  match VDiff old new with
  | None => vjeq (vmap f (vstrip old)) (vmap f (vstrip new))
  | Some d => exists r, VMerge (vmap f (vstrip old)) (vmap f d) = Some r /\ vjeq r (vmap f (vstrip new))
  end.
Proof.
  intros old new Ho Hn. pose proof (vroundtrip_go_all LA strict Hmode new old Ho Hn) as R.
  unfold vRT_go in R. unfold VDiff, VMerge. destruct (vdiff new old) as [d|].
  - destruct R as [r [Hm Hj]]. exists (vmap f r). split.
    + apply (vmerge_map_hom f H). exact Hm.
    + apply vjeq_map. exact Hj.
  - apply vjeq_map. exact R.
Qed.

Theorem ser_roundtrip_js_all : forall old new : val A,
  vwf_gen strict old = true -> vwf_gen strict new = true ->
  match VDiff old new with
  | None => vjeq (vmap f (vstrip old)) (vmap f (vstrip new))
  | Some d => vjeq (VMergeJS (vmap f (vstrip old)) (vmap f d)) (vmap f (vstrip new))
  end.
Proof.
  intros old new Ho Hn. pose proof (vroundtrip_js_all LA strict Hmode new old Ho Hn) as R.
  unfold vRT_js in R. unfold VDiff, VMergeJS. destruct (vdiff new old) as [d|].
  - rewrite (vmerge_js_map f H). apply vjeq_map. exact R.
  - apply vjeq_map. exact R.
Qed.
End RT.
