(** Executable model of diff/diff.go, merge/merge.go and client/src/merge.ts over an ABSTRACT scalar
    domain: the same functions as DiffMerge/Model.v, definition by definition, but the leaves of a value
    are atoms of an arbitrary type [A] with the operations the code uses on scalars ([atom_ops]):

      aeqb    Go's [==] on two scalars held in interfaces (same dynamic type and equal value);
              [bytes.Equal] for two [[]byte] leaves
      raw     the type is in the pass-through list of diff.markReplaced / merge.mergeReplaced
              (bool, the sized ints and uints, float32/64, string); every other leaf ([[]byte], named
              scalar types, ...) is wrapped in a one-element array by markReplaced
      cmp     reflect.TypeOf(x).Comparable() (false for [[]byte])
      num     how the code writes an index: Go [int] on the server, a float64 after JSON
      as_num  [x.(float64)] holding an integral value (merge.uncompressIndices)
      fix4    which diffMap is modelled (see below); not an operation on atoms, but it travels with them
      keyable the scalar can be the "__key" of an object without making diff.Diff panic: all scalars with
              patches/C03-fix-5 (in /repo: keys compared by content); only the comparable ones before it ([==] on
              two []byte keys panics, so does using one as a map key)
      guide   [None]: the index list of a list diff is computed as diff.computeReorderIndices does.
              [Some g]: where [g old new] proposes an index list of the right length with entries in range, that
              one is used instead ([vchoose]).  The round trip holds for EVERY guide (it only needs each new
              element to be diffed against the old element merge copies into its slot); the theorems about the
              choice itself (self-diff, minimality, the declarative spec) are for [guide = None].  The harness uses
              a guide to follow an implementation whose matching of duplicate keys differs from the model's

    The server's values (Go-typed: int64 1 and float64 1 are different atoms) and the client's values
    (after encoding/json: one number type) are two instances; [vmap] carries a value from one to the
    other (DiffMerge/GSer.v proves that merging commutes with it).

    [fix4] selects the object diff: [true] is diff.diffMap as repaired by patches/C03-fix-4 (in /repo: "fix:
    diffMap never puts the __key pseudo-field into a delta"), which never reads the "__key" pseudo-field as a
    field; [false] is the diffMap before that repair.  The harness probes which of the two the tree under
    test has and evaluates the model with that variant.

    [atom_ops] is declared a class only so that the operations are found implicitly inside sections. *)
From Coq Require Import List ZArith String Ascii Bool Arith Lia.
From Thunder Require Import Lib.Json DiffMerge.Model.
Import ListNotations.
Open Scope string_scope.
Open Scope list_scope.

Inductive val (A : Type) : Type :=
| VNull
| VAtom (a : A)
| VArr (l : list (val A))
| VObj (l : list (string * val A)).
Arguments VNull {A}.
Arguments VAtom {A} a.
Arguments VArr {A} l.
Arguments VObj {A} l.

Record atom_ops (A : Type) : Type := mk_atom_ops {
  aeqb : A -> A -> bool;
  raw : A -> bool;
  cmp : A -> bool;
  num : Z -> A;
  as_num : A -> option Z;
  fix4 : bool;
  keyable : A -> bool;
  guide : option (list (val A) -> list (val A) -> option (list (option nat)))
}.
Existing Class atom_ops.
Arguments aeqb {A} {_} _ _.
Arguments raw {A} {_} _.
Arguments cmp {A} {_} _.
Arguments num {A} {_} _.
Arguments as_num {A} {_} _.
Arguments fix4 {A} {_}.
Arguments keyable {A} {_} _.
Arguments guide {A} {_}.

Record atom_laws {A : Type} (O : atom_ops A) : Prop := mk_atom_laws {
  aeqb_eq : forall a b, aeqb a b = true <-> a = b;
  as_num_num : forall z, as_num (num z) = Some z
}.

(** Nested induction principle. *)
Section ValInd.
  Variable A : Type.
  Variable P : val A -> Prop.
  Hypothesis Hnull : P VNull.
  Hypothesis Hatom : forall a, P (VAtom a).
  Hypothesis Harr : forall l, Forall P l -> P (VArr l).
  Hypothesis Hobj : forall l, Forall (fun kv => P (snd kv)) l -> P (VObj l).

  Fixpoint val_ind' (j : val A) : P j :=
    match j with
    | VNull => Hnull
    | VAtom a => Hatom a
    | VArr l =>
        Harr l ((fix go (l : list (val A)) : Forall P l :=
                   match l with
                   | [] => Forall_nil _
                   | x :: t => Forall_cons _ (val_ind' x) (go t)
                   end) l)
    | VObj l =>
        Hobj l ((fix go (l : list (string * val A)) : Forall (fun kv => P (snd kv)) l :=
                   match l with
                   | [] => Forall_nil _
                   | kv :: t => Forall_cons _ (val_ind' (snd kv)) (go t)
                   end) l)
    end.
End ValInd.

(** Semantic equality: objects are finite maps. *)
Inductive vjeq {A : Type} : val A -> val A -> Prop :=
| vjeq_null : vjeq VNull VNull
| vjeq_atom : forall a, vjeq (VAtom a) (VAtom a)
| vjeq_arr : forall l1 l2, Forall2 vjeq l1 l2 -> vjeq (VArr l1) (VArr l2)
| vjeq_obj : forall l1 l2, (forall k, orel vjeq (lookup k l1) (lookup k l2)) -> vjeq (VObj l1) (VObj l2).

(** The value after a change of scalar domain (JSON serialisation of the leaves). *)
Fixpoint vmap {A B : Type} (f : A -> B) (j : val A) : val B :=
  match j with
  | VNull => VNull
  | VAtom a => VAtom (f a)
  | VArr l => VArr (map (vmap f) l)
  | VObj l => VObj ((fix go (l : list (string * val A)) :=
                       match l with
                       | [] => []
                       | (k, v) :: t => (k, vmap f v) :: go t
                       end) l)
  end.

Section G.
  Variable A : Type.
  Variable O : atom_ops A.

  Notation val := (val A).

  (** Structural equality with [aeqb] on atoms. *)
  Fixpoint veqb (a b : val) {struct a} : bool :=
    match a, b with
    | VNull, VNull => true
    | VAtom x, VAtom y => aeqb x y
    | VArr x, VArr y =>
        (fix go (x y : list val) {struct x} : bool :=
           match x, y with
           | [], [] => true
           | a :: x', b :: y' => veqb a b && go x' y'
           | _, _ => false
           end) x y
    | VObj x, VObj y =>
        (fix go (x y : list (string * val)) {struct x} : bool :=
           match x, y with
           | [], [] => true
           | (k, a) :: x', (k', b) :: y' => String.eqb k k' && veqb a b && go x' y'
           | _, _ => false
           end) x y
    | _, _ => false
    end.

  Definition vis_scalar (j : val) : bool :=
    match j with VAtom a => raw a | _ => false end.

  Definition vis_atom (j : val) : bool :=
    match j with VAtom _ => true | _ => false end.

  (** diff.StripKey *)
  Fixpoint vstrip (j : val) : val :=
    match j with
    | VArr l => VArr (map vstrip l)
    | VObj l => VObj ((fix go (l : list (string * val)) :=
                         match l with
                         | [] => []
                         | (k, v) :: t => if String.eqb k key_name then go t else (k, vstrip v) :: go t
                         end) l)
    | _ => j
    end.

  (** diff.markReplaced: pass-through scalars as they are, everything else (nil, []byte, named types,
      arrays, objects) wrapped. *)
  Definition vmark_replaced (j : val) : val :=
    if vis_scalar j then j else VArr [vstrip j].

  Definition vmark_removed : val := VArr [].

  Definition vget_key (l : list (string * val)) : val :=
    match lookup key_name l with Some k => k | None => VNull end.

  (** diff.reorderKey; VNull stands for Go's nil key. *)
  Definition vreorder_key (j : val) : val :=
    match j with
    | VObj l => vget_key l
    | VArr _ => VNull
    | VAtom a => if cmp a then j else VNull
    | VNull => VNull
    end.

  Fixpoint vtake_first (k : val) (unused : list (val * nat)) : option (nat * list (val * nat)) :=
    match unused with
    | [] => None
    | (k', i) :: t =>
        if veqb k k' then Some (i, t)
        else match vtake_first k t with
             | Some (j, t') => Some (j, (k', i) :: t')
             | None => None
             end
    end.

  Fixpoint vreorder_go (unused : list (val * nat)) (new : list val) : list (option nat) :=
    match new with
    | [] => []
    | x :: t =>
        match vtake_first (vreorder_key x) unused with
        | Some (i, unused') => Some i :: vreorder_go unused' t
        | None => None :: vreorder_go unused t
        end
    end.

  (** diff.computeReorderIndices *)
  Definition vcompute_reorder_indices (old new : list val) : list (option nat) :=
    vreorder_go (index_from 0 (map vreorder_key old)) new.

  Definition idx_in_range (len : nat) (i : option nat) : bool :=
    match i with Some j => Nat.ltb j len | None => true end.

  (** the index list diffArray works with *)
  Definition vchoose (old new : list val) : list (option nat) :=
    match guide with
    | Some g =>
        match g old new with
        | Some idx =>
            if Nat.eqb (List.length idx) (List.length new) && forallb (idx_in_range (List.length old)) idx
            then idx else vcompute_reorder_indices old new
        | None => vcompute_reorder_indices old new
        end
    | None => vcompute_reorder_indices old new
    end.

  Definition vnum (z : Z) : val := VAtom (num z).
  Definition vnat (n : nat) : val := vnum (Z.of_nat n).

  Definition vencode_run (r : run) : val :=
    match r with
    | RNeg => vnum (-1)
    | RRun s c => if Nat.eqb c 1 then vnat s else VArr [vnat s; vnat c]
    end.

  (** diff.compressReorderIndices ([runs_of] is shared with Model.v). *)
  Definition vcompress (idx : list (option nat)) : list val := map vencode_run (runs_of idx).

  Definition vopt_entry (k : string) (o : option val) : list (string * val) :=
    match o with Some d => [(k, d)] | None => [] end.

  Definition vfinish (d : list (string * val)) : option val :=
    match d with [] => None | _ => Some (VObj d) end.

  (** The repaired diffMap leaves the "__key" pseudo-field out of both loops. *)
  Definition skipped (k : string) : bool := fix4 && String.eqb k key_name.

  Definition vdiff_map (o n : list (string * val))
             (subs : list (string * (val * (val -> option val)))) : option val :=
    if negb (veqb (vget_key o) (vget_key n)) then Some (vmark_replaced (VObj n))
    else
      let removed := flat_map (fun kv => if skipped (fst kv) || has_key (fst kv) n then []
                                         else [(fst kv, vmark_removed)]) o in
      let changed := flat_map (fun e =>
                        match e with
                        | (k, (v, dv)) =>
                            if skipped k then []
                            else match lookup k o with
                                 | Some ov => vopt_entry k (dv ov)
                                 | None => [(k, vmark_replaced v)]
                                 end
                        end) subs in
      vfinish (removed ++ changed).

  Fixpoint vdiff_elems (o : list val) (i : nat) (subs : list (val * (val -> option val)))
           (idx : list (option nat)) : list (string * val) :=
    match subs, idx with
    | (v, dv) :: st, j :: it =>
        let oldI := match j with Some j' => nth j' o VNull | None => VNull end in
        vopt_entry (dec i) (dv oldI) ++ vdiff_elems o (S i) st it
    | _, _ => []
    end.

  Definition vdiff_array (o n : list val) (subs : list (val * (val -> option val))) : option val :=
    let idx := vchoose o n in
    let order_changed := negb (Nat.eqb (List.length o) (List.length idx)) || negb (order_is_identity 0 idx) in
    let d := (if order_changed then [(dollar, VArr (vcompress idx))] else []) ++ vdiff_elems o 0 subs idx in
    vfinish d.

  (** diff.Diff.  [None] is Go's nil.  The leaf case is Go's [old != new] (and bytes.Equal). *)
  Fixpoint vdiff (new : val) {struct new} : val -> option val :=
    match new with
    | VObj n =>
        let subs := (fix go (l : list (string * val)) :=
                       match l with
                       | [] => []
                       | (k, v) :: t => (k, (v, vdiff v)) :: go t
                       end) n in
        fun old => match old with
                   | VObj o => vdiff_map o n subs
                   | _ => Some (vmark_replaced new)
                   end
    | VArr n =>
        let subs := (fix go (l : list val) :=
                       match l with
                       | [] => []
                       | v :: t => (v, vdiff v) :: go t
                       end) n in
        fun old => match old with
                   | VArr o => vdiff_array o n subs
                   | _ => Some (vmark_replaced new)
                   end
    | _ =>
        fun old => match old with
                   | VObj _ | VArr _ => Some (vmark_replaced new)
                   | _ => if veqb old new then None else Some (vmark_replaced new)
                   end
    end.

  Definition VDiff (old new : val) : option val := vdiff new old.

  (** * merge/merge.go *)

  Definition vmerge_replaced (d : val) : option val :=
    match d with
    | VAtom a => if raw a then Some d else None
    | VArr (x :: _) => Some x
    | _ => None
    end.

  Definition vis_removed (d : val) : bool :=
    match d with VArr [] => true | _ => false end.

  Definition vas_num (j : val) : option Z :=
    match j with VAtom a => as_num a | _ => None end.

  (** merge.uncompressIndices.  A run [start, count] is expanded by Go's loop
      [for i := start; i < start+count; i++] (nothing when count <= 0); every resulting int is then used by
      mergeArray as [if index != -1 { new[i] = prev[index] }]: -1 leaves nil, any other negative index
      panics there ([None] here, like an index beyond the end in [vreorder]). *)
  Definition run_indices (s c : Z) : list Z := map (fun i => (s + Z.of_nat i)%Z) (seq 0 (Z.to_nat c)).

  Definition idx_of_z (z : Z) : option (option nat) :=
    if Z.eqb z (-1) then Some None else option_map Some (z_index z).

  Fixpoint vuncompress (c : list val) : option (list (option nat)) :=
    match c with
    | [] => Some []
    | x :: t =>
        match vuncompress t with
        | None => None
        | Some rest =>
            match x with
            | VAtom a =>
                match as_num a with
                | Some z => match idx_of_z z with Some i => Some (i :: rest) | None => None end
                | None => None
                end
            | VArr [s; c] =>
                match vas_num s, vas_num c with
                | Some s', Some c' =>
                    match sequence (map idx_of_z (run_indices s' c')) with
                    | Some r => Some (r ++ rest)
                    | None => None
                    end
                | _, _ => None
                end
            | _ => None
            end
        end
    end.

  Definition vapps_t := list (string * (val * (val -> option val))).

  Fixpoint vmm_updated (apps : vapps_t) (p : list (string * val)) : option (list (string * val)) :=
    match p with
    | [] => Some []
    | (k, v) :: t =>
        match vmm_updated apps t with
        | None => None
        | Some r =>
            match lookup k apps with
            | None => Some ((k, v) :: r)
            | Some (dv, f) =>
                if vis_removed dv then Some r
                else match f v with Some x => Some ((k, x) :: r) | None => None end
            end
        end
    end.

  Fixpoint vmm_added (p : list (string * val)) (apps : vapps_t) : option (list (string * val)) :=
    match apps with
    | [] => Some []
    | (k, (dv, _)) :: t =>
        match vmm_added p t with
        | None => None
        | Some r =>
            if has_key k p then Some r
            else match vmerge_replaced dv with Some x => Some ((k, x) :: r) | None => None end
        end
    end.

  Definition vmerge_map (p : list (string * val)) (apps : vapps_t) : option val :=
    match vmm_updated apps p, vmm_added p apps with
    | Some u, Some a => Some (VObj (u ++ a))
    | _, _ => None
    end.

  Fixpoint vapply_elems (i : nat) (l : list val) (apps : vapps_t) : option (list val) :=
    match l with
    | [] => Some []
    | v :: t =>
        match vapply_elems (S i) t apps with
        | None => None
        | Some r =>
            match lookup (dec i) apps with
            | Some (_, f) => match f v with Some x => Some (x :: r) | None => None end
            | None => Some (v :: r)
            end
        end
    end.

  Fixpoint vreorder (p : list val) (idx : list (option nat)) : option (list val) :=
    match idx with
    | [] => Some []
    | i :: t =>
        match vreorder p t with
        | None => None
        | Some r =>
            match i with
            | None => Some (VNull :: r)
            | Some j => match nth_opt j p with Some x => Some (x :: r) | None => None end
            end
        end
    end.

  Definition vmerge_array (p : list val) (apps : vapps_t) : option val :=
    let base :=
        match lookup dollar apps with
        | Some (VArr c, _) =>
            match vuncompress c with
            | Some idx => vreorder p idx
            | None => None
            end
        | Some _ => None
        | None => Some p
        end in
    match base with
    | None => None
    | Some b =>
        if forallb (fun e => valid_elem_key (List.length b) (fst e)) apps
        then match vapply_elems 0 b apps with
             | Some r => Some (VArr r)
             | None => None
             end
        else None
    end.

  (** merge.Merge; [None] = error (or a Go panic on an ill-formed delta). *)
  Fixpoint vmerge (d : val) {struct d} : val -> option val :=
    match d with
    | VObj entries =>
        let apps := (fix go (l : list (string * val)) : vapps_t :=
                       match l with
                       | [] => []
                       | (k, dv) :: t => (k, (dv, vmerge dv)) :: go t
                       end) entries in
        fun prev => match prev with
                    | VObj p => vmerge_map p apps
                    | VArr p => vmerge_array p apps
                    | _ => Some VNull
                    end
    | _ => fun _ => vmerge_replaced d
    end.

  Definition VMerge (prev d : val) : option val := vmerge d prev.

  (** * client/src/merge.ts *)

  Definition vjapps_t := list (string * (val * (val -> val))).

  Fixpoint vset_key (k : string) (v : val) (l : list (string * val)) : list (string * val) :=
    match l with
    | [] => [(k, v)]
    | (k', v') :: t => if String.eqb k k' then (k, v) :: t else (k', v') :: vset_key k v t
    end.

  Definition vjs_object (p : list (string * val)) (apps : vjapps_t) : val :=
    VObj (fold_left (fun merged e =>
                       match e with
                       | (k, (dv, f)) =>
                           if vis_removed dv then remove_key k merged
                           else vset_key k (f (match lookup k merged with Some v => v | None => VNull end)) merged
                       end) apps p).

  Definition vjs_index (p : list val) (z : Z) : val :=
    match z_index z with Some n => nth n p VNull | None => VNull end.

  (** The "$" loop of merge.ts: an array entry x runs [for (i = x[0]; i < x[0] + x[1]; i++)] (nothing when
      x has fewer than two elements: the bound is NaN), -1 pushes undefined, anything else pushes
      original[x] (undefined unless x is an index of the array). *)
  Fixpoint vjs_reorder (p : list val) (c : list val) : list val :=
    match c with
    | [] => []
    | x :: t =>
        (match x with
         | VArr (s :: c :: _) =>
             match vas_num s, vas_num c with
             | Some s', Some c' => map (vjs_index p) (run_indices s' c')
             | _, _ => []
             end
         | VArr _ => []
         | VAtom a =>
             match as_num a with
             | Some z => if Z.eqb z (-1) then [VNull] else [vjs_index p z]
             | None => [VNull]
             end
         | _ => [VNull]
         end) ++ vjs_reorder p t
    end.

  Fixpoint vjs_apply_elems (i : nat) (l : list val) (apps : vjapps_t) : list val :=
    match l with
    | [] => []
    | v :: t =>
        (match lookup (dec i) apps with
         | Some (_, f) => f v
         | None => v
         end) :: vjs_apply_elems (S i) t apps
    end.

  Definition vjs_array (p : list val) (apps : vjapps_t) : val :=
    let base := match lookup dollar apps with
                | Some (VArr c, _) => vjs_reorder p c
                | _ => p
                end in
    VArr (vjs_apply_elems 0 base (remove_key dollar apps)).

  Fixpoint vmerge_js (d : val) {struct d} : val -> val :=
    match d with
    | VArr l => fun _ => hd VNull l
    | VObj entries =>
        let apps := (fix go (l : list (string * val)) : vjapps_t :=
                       match l with
                       | [] => []
                       | (k, dv) :: t => (k, (dv, vmerge_js dv)) :: go t
                       end) entries in
        fun orig => match orig with
                    | VArr p => vjs_array p apps
                    | VObj p => vjs_object p apps
                    | _ => vjs_object [] apps
                    end
    | _ => fun _ => d
    end.

  Definition VMergeJS (orig d : val) : val := vmerge_js d orig.

  (** * Well-formedness of inputs.

      [vwf]: object keys unique; a "__key", when present, is nil or a [keyable] scalar (anything else makes
      diff.Diff panic: Go cannot compare or hash slices and maps).
      [vwf_strict] additionally excludes an explicit nil "__key" (the domain of DiffMerge/Model.v). *)
  Definition key_ok (strict : bool) (l : list (string * val)) : bool :=
    match lookup key_name l with
    | Some (VAtom a) => keyable a
    | Some VNull => negb strict
    | Some _ => false
    | None => true
    end.

  Fixpoint vwf_gen (strict : bool) (j : val) : bool :=
    match j with
    | VArr l => forallb (vwf_gen strict) l
    | VObj l =>
        nodup_keys (map fst l)
        && key_ok strict l
        && (fix go (l : list (string * val)) := match l with [] => true | (_, v) :: t => vwf_gen strict v && go t end) l
    | _ => true
    end.

  Definition vwf := vwf_gen false.
  Definition vwf_strict := vwf_gen true.

  (** Canonical form: object keys sorted. *)
  Fixpoint vnorm (j : val) : val :=
    match j with
    | VArr l => VArr (map vnorm l)
    | VObj l => VObj (sort_kv ((fix go (l : list (string * val)) :=
                                 match l with
                                 | [] => []
                                 | (k, v) :: t => (k, vnorm v) :: go t
                                 end) l))
    | _ => j
    end.

  Definition opt_veqb (a b : option val) : bool :=
    match a, b with
    | None, None => true
    | Some x, Some y => veqb x y
    | _, _ => false
    end.
End G.

Arguments veqb {A} {O} a b.
Arguments vis_scalar {A} {O} j.
Arguments vis_atom {A} j.
Arguments vstrip {A} j.
Arguments vmark_replaced {A} {O} j.
Arguments vmark_removed {A}.
Arguments vget_key {A} l.
Arguments vreorder_key {A} {O} j.
Arguments vtake_first {A} {O} k unused.
Arguments vreorder_go {A} {O} unused new.
Arguments vcompute_reorder_indices {A} {O} old new.
Arguments vchoose {A} {O} old new.
Arguments vnum {A} {O} z.
Arguments vnat {A} {O} n.
Arguments vencode_run {A} {O} r.
Arguments vcompress {A} {O} idx.
Arguments vopt_entry {A} k o.
Arguments vfinish {A} d.
Arguments vdiff_map {A} {O} o n subs.
Arguments vdiff_elems {A} o i subs idx.
Arguments vdiff_array {A} {O} o n subs.
Arguments vdiff {A} {O} new.
Arguments VDiff {A} {O} old new.
Arguments vmerge_replaced {A} {O} d.
Arguments vis_removed {A} d.
Arguments vas_num {A} {O} j.
Arguments vuncompress {A} {O} c.
Arguments run_indices s c : simpl never.
Arguments vapps_t A : clear implicits.
Arguments vmm_updated {A} apps p.
Arguments vmm_added {A} {O} p apps.
Arguments vmerge_map {A} {O} p apps.
Arguments vapply_elems {A} i l apps.
Arguments vreorder {A} p idx.
Arguments vmerge_array {A} {O} p apps.
Arguments vmerge {A} {O} d.
Arguments VMerge {A} {O} prev d.
Arguments vjapps_t A : clear implicits.
Arguments vset_key {A} k v l.
Arguments vjs_object {A} p apps.
Arguments vjs_index {A} p z.
Arguments vjs_reorder {A} {O} p c.
Arguments vjs_apply_elems {A} i l apps.
Arguments vjs_array {A} {O} p apps.
Arguments vmerge_js {A} {O} d.
Arguments VMergeJS {A} {O} orig d.
Arguments key_ok {A} {O} strict l.
Arguments vwf_gen {A} {O} strict j.
Arguments vwf {A} {O} j.
Arguments vwf_strict {A} {O} j.
Arguments vnorm {A} j.
Arguments opt_veqb {A} {O} a b.
Arguments skipped {A} {O} k.
