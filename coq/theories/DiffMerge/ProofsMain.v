(** C03 main results for the Go merge: round trip, self-diff. *)
From Coq Require Import List ZArith String Bool Arith Lia.
From Thunder Require Import Lib.Json DiffMerge.Model DiffMerge.ProofsBase DiffMerge.ProofsUnfold
     DiffMerge.ProofsDiff DiffMerge.ProofsCompress DiffMerge.ProofsArray DiffMerge.ProofsMergeGo DiffMerge.ProofsArrayGo.
Import ListNotations.
Open Scope string_scope.
Open Scope list_scope.

Lemma rt_replaced_go old new : diff new old = Some (mark_replaced new) -> RT_go old new.
Proof. intros H. unfold RT_go. rewrite H. exists (strip new). split; [apply merge_mark_replaced | apply jeq_refl]. Qed.

Lemma rt_leaf_go old new :
  (match new with JArr _ | JObj _ => False | _ => True end) -> RT_go old new.
Proof.
  intros Hleaf. destruct new; try contradiction;
    (destruct old; try (apply rt_replaced_go; reflexivity);
     unfold RT_go; cbn [diff];
     match goal with |- context [json_eqb ?a ?b] => destruct (json_eqb a b) eqn:E end;
     [apply json_eqb_eq in E; try (inversion E; subst); apply jeq_refl
     | eexists; split; [apply merge_mark_replaced | apply jeq_refl]]).
Qed.

Theorem roundtrip_go_all : forall new old, wf old = true -> wf new = true -> RT_go old new.
Proof.
  induction new as [| b | z | s | l IH | l IH] using json_ind'; intros old Hwo Hwn.
  1-4: apply rt_leaf_go; exact I.
  - destruct old; try (apply rt_replaced_go; rewrite diff_arr; reflexivity).
    apply rt_arr_go; auto. intros v Hin old' Hwo'. rewrite Forall_forall in IH.
    apply IH; auto. apply wf_arr_inv in Hwn. rewrite Forall_forall in Hwn. apply Hwn. exact Hin.
  - destruct old; try (apply rt_replaced_go; rewrite diff_obj; reflexivity).
    apply rt_obj_go; auto. intros k nv Hk old' Hwo'. rewrite Forall_forall in IH.
    apply (IH (k, nv)); auto.
    + apply lookup_in. exact Hk.
    + destruct (wf_obj_inv l Hwn) as [_ [_ Hwf]]. apply (Hwf k). exact Hk.
Qed.
